/-
C10, signed stage — DO bit on a zone signed with one key and an NSEC chain
(`Model/AuthZoneSigned.lean`).

* without DO, or without an NSEC chain configured, the answer is the unsigned one, so
  `impl_eq_spec_partial` & co. speak about signed zones too (`answerS_do_clear`, `answerS_no_nsec`);
  with DO the rcode, AA and the answer section are unchanged (`answerS_same_answer`);
* `rrsigs_attached`: in a store where every RRset is signed, every RRset of the answer and
  authority sections carries its RRSIG — wildcard-synthesised ones included;
* `negative_carries_nsec_records`: a negative answer carries `nsec_records(qname)` followed by the
  SOA.  That these NSECs *prove* the denial is false for the code as it is:
  `witness_nsec_no_wildcard_denial`; likewise for wildcard answers
  (`witness_soa_query_wildcard_no_proof`, `witness_wildcard_expansion_not_proven`).  The full
  statement "every negative or wildcard answer carries NSECs that cover the denied names" is only
  validated by the harness oracle outside these three classes (not proved).
-/
import HickoryVerif.Model.AuthZoneSignedDev
import HickoryVerif.Proofs.C10
import HickoryVerif.Proofs.C04

namespace HickoryVerif.C10
open HickoryVerif HickoryVerif.AuthZone HickoryVerif.AuthZone.SDev HickoryVerif.Spec.Rfc1034

theorem answerS_do_clear (z : Zone) (o : LName) (q : Query) (nsec : Bool) :
    answerImplS z o q false nsec = answerImpl z o q := by
  unfold answerImplS answerImpl buildAuthoritativeS buildAuthoritative
  by_cases hin : zoneOf o q.name = true
  · simp only [hin, if_true]
    cases hla : lookupAnswers z o q.name q.type with
    | error e => cases e <;> simp
    | ok p =>
      obtain ⟨t', a, term⟩ := p
      simp
  · have : zoneOf o q.name = false := by cases h : zoneOf o q.name <;> simp_all
    simp [this]

theorem answerS_no_nsec (z : Zone) (o : LName) (q : Query) (d : Bool) :
    answerImplS z o q d false = answerImpl z o q := by
  unfold answerImplS answerImpl buildAuthoritativeS buildAuthoritative
  by_cases hin : zoneOf o q.name = true
  · simp only [hin, if_true]
    cases hla : lookupAnswers z o q.name q.type with
    | error e => cases e <;> simp
    | ok p =>
      obtain ⟨t', a, term⟩ := p
      simp
  · have : zoneOf o q.name = false := by cases h : zoneOf o q.name <;> simp_all
    simp [this]

/-- the DO bit changes nothing but the authority section (NSECs are added) -/
theorem answerS_same_answer (z : Zone) (o : LName) (q : Query) (d n : Bool) :
    (answerImplS z o q d n).rcode = (answerImpl z o q).rcode ∧
    (answerImplS z o q d n).aa = (answerImpl z o q).aa ∧
    (answerImplS z o q d n).answers = (answerImpl z o q).answers := by
  unfold answerImplS answerImpl buildAuthoritativeS buildAuthoritative
  by_cases hin : zoneOf o q.name = true
  · simp only [hin, if_true]
    cases hla : lookupAnswers z o q.name q.type with
    | error e => cases e <;> simp
    | ok p =>
      obtain ⟨t', a, term⟩ := p
      dsimp only
      split <;> simp
  · have : zoneOf o q.name = false := by cases h : zoneOf o q.name <;> simp_all
    simp [this]

/-! ### RRSIGs -/

def signedRR (rr : RRset) : Prop := rr.sigLabels.isSome = true

theorem signed_of_fromZone {z : Zone} (hs : allSigned z = true) {a : RRset}
    (h : rdatasFromZone z a) : signedRR a := by
  obtain ⟨r, hr, _, hsig⟩ := h
  unfold allSigned at hs
  rw [List.all_eq_true] at hs
  unfold signedRR
  rw [hsig]
  exact hs r hr

theorem chaseFrom_fromZone {z : Zone} {t : Nat} :
    ∀ (k : Nat) (seen : List LName) (last : RRset),
      ∀ rr ∈ chaseFrom z t k seen last, rdatasFromZone z rr := by
  intro k
  induction k with
  | zero => intro _ _ rr h; simp [chaseFrom] at h
  | succ k ih =>
    intro seen last rr h
    unfold chaseFrom at h
    split at h
    · cases h
    · split at h
      · cases h
      · split at h
        · cases h
        · split at h
          · cases h
          · split at h
            · rename_i r hil
              split at h
              · rcases List.mem_cons.1 h with h | h
                · exact h ▸ innerLookup_rdatas hil
                · exact ih _ _ rr h
              · rw [List.mem_singleton] at h
                exact h ▸ innerLookup_rdatas hil
            · cases h

theorem lookupAnswers_fromZone {z : Zone} {o n : LName} {t t' : Nat} {a : List RRset}
    {term : Option RRset} (h : lookupAnswers z o n t = .ok (t', a, term)) :
    ∀ rr ∈ a, rdatasFromZone z rr := by
  unfold lookupAnswers at h
  dsimp only at h
  cases hil : innerLookup z n (if (t == T_ANY) = true then replaceAny z n else t) with
  | none => rw [hil] at h; cases h
  | some a0 =>
    rw [hil] at h
    dsimp only at h
    by_cases hc : (a0.type == T_CNAME && (if (t == T_ANY) = true then replaceAny z n else t) != T_CNAME) = true
    · rw [if_pos hc] at h
      cases h
      intro rr hrr
      unfold chaseCnames at hrr
      rcases List.mem_cons.1 hrr with h | h
      · exact h ▸ innerLookup_rdatas hil
      · exact chaseFrom_fromZone _ _ _ rr h
    · rw [if_neg hc] at h
      cases h
      intro rr hrr
      rw [List.mem_singleton] at hrr
      exact hrr ▸ innerLookup_rdatas hil

theorem okAnswers_fromZone {z : Zone} {o n : LName} {t : Nat} :
    ∀ rr ∈ okAnswers (lookupAnswers z o n t), rdatasFromZone z rr := by
  intro rr hrr
  cases hla : lookupAnswers z o n t with
  | error e => rw [hla] at hrr; simp [okAnswers] at hrr
  | ok p =>
    obtain ⟨t', a, term⟩ := p
    rw [hla] at hrr
    exact lookupAnswers_fromZone hla rr hrr

theorem mem_self_fromZone {z : Zone} {r : RRset} (h : r ∈ z) : rdatasFromZone z r := ⟨r, h, rfl, rfl⟩

theorem closestNsec_mem {z : Zone} {n : LName} {r : RRset} (h : closestNsec z n = some r) : r ∈ z := by
  unfold closestNsec at h
  exact List.mem_reverse.1 (List.mem_of_find?_eq_some h)

theorem ite_closestNsec_mem {z : Zone} {c : Prop} [Decidable c] {x : LName} {w : RRset}
    (h : (if c then closestNsec z x else none) = some w) : w ∈ z := by
  split at h
  · exact closestNsec_mem h
  · cases h

theorem nsecRecords_mem {z : Zone} {o n : LName} : ∀ rr ∈ nsecRecords z o n, rr ∈ z := by
  intro rr hrr
  unfold nsecRecords at hrr
  split at hrr
  · rename_i r hr
    rw [List.mem_singleton] at hrr
    exact hrr ▸ (get_some hr).1
  · dsimp only at hrr
    split at hrr
    · rename_i c w hc hw
      have hwm : w ∈ z := ite_closestNsec_mem hw
      split at hrr
      · rcases List.mem_cons.1 hrr with h | h
        · exact h ▸ hwm
        · rw [List.mem_singleton] at h; exact h ▸ closestNsec_mem hc
      · rw [List.mem_singleton] at hrr; exact hrr ▸ closestNsec_mem hc
    · rename_i p _ hw
      have hwm : p ∈ z := ite_closestNsec_mem hw
      rw [List.mem_singleton] at hrr; exact hrr ▸ hwm
    · rename_i p hc _
      rw [List.mem_singleton] at hrr; exact hrr ▸ closestNsec_mem hc
    · cases hrr

/--
**With DO set on a signed zone every RRset in the answer and authority sections carries its
RRSIG** (`sigLabels` is present, so `rrset_with_rrigs` emits the signature right behind the
RRset) — for every zone whose store is fully signed and every query; wildcard-synthesised RRsets,
CNAME chains, referral NS sets, the SOA of negative answers and the NSECs included.
-/
theorem rrsigs_attached {z : Zone} {o : LName} {q : Query} (d n : Bool) (hs : allSigned z = true) :
    ∀ rr ∈ (answerImplS z o q d n).answers ++ (answerImplS z o q d n).authority, signedRR rr := by
  intro rr hrr
  apply signed_of_fromZone hs
  unfold answerImplS buildAuthoritativeS at hrr
  by_cases hin : zoneOf o q.name = true
  · simp only [hin, if_true] at hrr
    cases hla : lookupAnswers z o q.name q.type with
    | error e =>
      rw [hla] at hrr
      cases e with
      | refused => simp at hrr
      | nameExists =>
        simp only [List.nil_append, List.mem_append] at hrr
        rcases hrr with h | h
        · split at h
          · exact mem_self_fromZone (nsecRecords_mem rr h)
          · cases h
        · exact okAnswers_fromZone rr h
      | nxDomain =>
        simp only [List.nil_append, List.mem_append] at hrr
        rcases hrr with h | h
        · split at h
          · exact mem_self_fromZone (nsecRecords_mem rr h)
          · cases h
        · exact okAnswers_fromZone rr h
    | ok p =>
      obtain ⟨t', a, term⟩ := p
      rw [hla] at hrr
      dsimp only at hrr
      have ha := lookupAnswers_fromZone hla
      have hns : ∀ x ∈ (if (q.type == T_SOA && !isReferral o a) = true then okAnswers (lookupAnswers z o o T_NS)
          else if (n && d && hasWildcardMatch a) = true then nsecRecords z o q.name else []),
          rdatasFromZone z x := by
        intro x hx
        split at hx
        · exact okAnswers_fromZone x hx
        · split at hx
          · exact mem_self_fromZone (nsecRecords_mem x hx)
          · cases hx
      split at hrr
      · simp only [List.nil_append, List.mem_append] at hrr
        rcases hrr with h | h
        · exact ha rr h
        · exact hns rr h
      · simp only [List.mem_append] at hrr
        rcases hrr with h | h
        · exact ha rr h
        · exact hns rr h
  · have : zoneOf o q.name = false := by cases h : zoneOf o q.name <;> simp_all
    simp [this] at hrr

/-- **A negative answer with DO on an NSEC zone carries `nsec_records(qname)` followed by the SOA.** -/
theorem negative_carries_nsec_records {z : Zone} {o : LName} {q : Query} (hwf : Dev.zoneWF z o = true)
    {s : RRset} (hsoa : getRR z o T_SOA = some s)
    (hneg : isNegative (answerImpl z o q)) :
    (answerImplS z o q true true).authority = nsecRecords z o q.name ++ [s] := by
  have wf := wf_of_zoneWF hwf
  have hsoaL := soa_lookup wf hsoa
  unfold isNegative answerImpl at hneg
  unfold answerImplS
  by_cases hin : zoneOf o q.name = true
  · simp only [hin, if_true] at hneg ⊢
    unfold buildAuthoritative at hneg
    unfold buildAuthoritativeS
    cases hla : lookupAnswers z o q.name q.type with
    | error e =>
      cases e with
      | refused => simp [hla] at hneg
      | nameExists => simp [hsoaL]
      | nxDomain => simp [hsoaL]
    | ok p =>
      obtain ⟨t', a, term⟩ := p
      have hne := lookupAnswers_ok_nonempty hla
      simp only [hla] at hneg
      exfalso
      by_cases hr : isReferral o a = true
      · simp only [hr, if_true] at hneg
        cases a with
        | nil => exact hne rfl
        | cons r rest =>
          have hrt : r.type = T_NS := by
            simp only [isReferral, Bool.and_eq_true, beq_iff_eq] at hr
            exact hr.1
          rcases hneg with h | ⟨_, _, h⟩
          · cases h
          · exact h r (by simp) hrt
      · have hr' : isReferral o a = false := by
          cases h : isReferral o a <;> simp_all
        simp only [hr', Bool.false_eq_true, if_false] at hneg
        rcases hneg with h | ⟨_, h, _⟩
        · cases h
        · exact hne h
  · have hzo : zoneOf o q.name = false := by
      cases h : zoneOf o q.name <;> simp_all
    simp [hzo] at hneg

/-! ### RRSIGs in the additional section -/

theorem addLoop_fromZone {z : Zone} {qt : Nat} :
    ∀ (fuel : Nat) (names : List LName) (search : LName) (adds : List RRset),
      (∀ x ∈ adds, rdatasFromZone z x) →
      ∀ x ∈ addLoop z qt fuel names search adds, rdatasFromZone z x := by
  intro fuel
  induction fuel with
  | zero => intro _ _ adds h x hx; simpa [addLoop] using h x hx
  | succ f ih =>
    intro names search adds h x hx
    unfold addLoop at hx
    split at hx
    · exact h x hx
    · split at hx
      · exact h x hx
      · rename_i a hil
        dsimp only at hx
        have h' : ∀ y ∈ (if adds.contains a = true then adds else adds ++ [a]), rdatasFromZone z y := by
          intro y hy
          split at hy
          · exact h y hy
          · rcases List.mem_append.1 hy with hy | hy
            · exact h y hy
            · rw [List.mem_singleton] at hy
              exact hy ▸ innerLookup_rdatas hil
        split at hx
        · exact h' x hx
        · exact ih _ _ _ h' x hx

theorem foldl_addLoop_fromZone {z : Zone} {F : Nat} {names : Nat → List LName} {next : LName} :
    ∀ (qts : List Nat) (adds : List RRset), (∀ x ∈ adds, rdatasFromZone z x) →
      ∀ x ∈ qts.foldl (fun adds qt => addLoop z qt F (names qt) next adds) adds, rdatasFromZone z x := by
  intro qts
  induction qts with
  | nil => intro adds h x hx; exact h x hx
  | cons qt qts ih =>
    intro adds h x hx
    simp only [List.foldl_cons] at hx
    exact ih _ (addLoop_fromZone _ _ _ _ h) x hx

theorem additionalSearch_fromZone {z : Zone} {n0 : LName} {t : Nat} {next : LName} {l : List RRset}
    (h : additionalSearch z n0 t next = some l) : ∀ x ∈ l, rdatasFromZone z x := by
  unfold additionalSearch at h
  dsimp only at h
  generalize hq : (if (t == T_ANAME || t == T_NS || t == T_MX || t == T_SRV) = true then [T_A, T_AAAA] else [t]) = qts at h
  have hf := foldl_addLoop_fromZone (z := z) (F := addFuel z)
    (names := fun qt => if (qt == t) = true then [n0] else []) (next := next) qts []
    (by intro y hy; cases hy)
  generalize (List.foldl (fun adds qt => addLoop z qt (addFuel z) (if (qt == t) = true then [n0] else []) next adds) [] qts) = adds at h hf
  split at h
  · cases h
  · cases h
    exact hf

/-- … and so does every RRset of the additional section (glue and address records found by
`additional_search`). -/
theorem rrsigs_attached_additional {z : Zone} {o : LName} {q : Query} (d n : Bool)
    (hs : allSigned z = true) : ∀ rr ∈ (respondS z o q d n).additional, signedRR rr := by
  intro rr hrr
  apply signed_of_fromZone hs
  unfold respondS at hrr
  dsimp only at hrr
  split at hrr
  · unfold lookup at hrr
    cases hla : lookupAnswers z o q.name q.type with
    | error e => rw [hla] at hrr; simp at hrr
    | ok p =>
      obtain ⟨t', a, term⟩ := p
      rw [hla] at hrr
      dsimp only at hrr
      cases hadd : (term.bind (maybeNextName · t')).bind fun n => additionalSearch z q.name t' n with
      | none => rw [hadd] at hrr; simp at hrr
      | some l =>
        rw [hadd] at hrr
        simp only [Option.getD_some] at hrr
        obtain ⟨n', _, hn'⟩ := Option.bind_eq_some_iff.1 hadd
        exact additionalSearch_fromZone hn' rr hrr
  · cases hrr

/-! ### the NSEC found by `closest_nsec` really covers the name -/

/-- `<` of the code (`Name::cmp`) is the RFC 4034 §6.1 canonical order (C04 `cmp_is_canonical`) -/
theorem nameLt_eq_canonLt (a b : LName) : nameLt a b = canonLt a b := by
  unfold nameLt canonLt
  rw [C04.cmp_is_canonical (asName a) (asName b) rfl rfl]

theorem canonLt_asymm {a b : LName} (h : canonLt a b = true) : canonLt b a = false := by
  unfold canonLt Spec.canonCompare at *
  rw [Std.OrientedCmp.eq_swap (cmp := compare) (a := Spec.canonKey (asName b))]
  cases hc : compare (Spec.canonKey (asName a)) (Spec.canonKey (asName b)) <;> simp_all

theorem canonLt_of_not_lt_ne {a b : LName} (ha : lowerName a = a) (hb : lowerName b = b)
    (h : canonLt a b = false) (hne : a ≠ b) : canonLt b a = true := by
  unfold canonLt Spec.canonCompare at *
  rw [Std.OrientedCmp.eq_swap (cmp := compare) (a := Spec.canonKey (asName b))]
  cases hc : compare (Spec.canonKey (asName a)) (Spec.canonKey (asName b)) with
  | lt => rw [hc] at h; simp at h
  | gt => rfl
  | eq =>
    exfalso
    have hk : Spec.canonKey (asName a) = Spec.canonKey (asName b) :=
      Std.LawfulEqOrd.compare_eq_iff_eq.1 hc
    unfold Spec.canonKey asName at hk
    simp only at hk
    have := C04.lower_map_reverse_inj hk
    unfold lowerName at ha hb
    rw [ha, hb] at this
    exact hne this

/--
**Soundness of `closest_nsec`**: when the name owns no NSEC RRset itself (it does not exist, or
is an empty non-terminal) and `closest_nsec` returns an NSEC, that NSEC *covers* the name in the
sense of RFC 4035 §5.4 — its owner sorts strictly before the name and the name sorts before its
next name (or the NSEC is the last of the chain).  Names lower-cased, as `LowerName` keeps them.
(That such an NSEC is *found* for every name of the zone depends on `nsec_zone` having built a
complete chain; that is validated by the oracle, not proved.)
-/
theorem closestNsec_covers {z : Zone} {name : LName} {r : RRset}
    (hlow : lowerName name = name) (hzlow : ∀ x ∈ z, lowerName x.name = x.name)
    (hnone : getRR z name T_NSEC = none) (h : closestNsec z name = some r) :
    covers r name = true := by
  have hrz := closestNsec_mem h
  unfold closestNsec at h
  have hp := List.find?_some h
  simp only [Bool.and_eq_true, beq_iff_eq, Bool.not_eq_true'] at hp
  obtain ⟨⟨hty, hnlt⟩, hint⟩ := hp
  rw [nameLt_eq_canonLt] at hnlt
  have hne : name ≠ r.name := by
    intro he
    exact get_none hnone r hrz he.symm hty
  have hown : canonLt r.name name = true :=
    canonLt_of_not_lt_ne hlow (hzlow r hrz) hnlt hne
  unfold covers
  cases hh : r.rdatas.head? with
  | none => rw [hh] at hint; simp at hint
  | some rd =>
    rw [hh] at hint
    dsimp only at hint
    cases ht : rd.target with
    | none => rw [ht] at hint; simp at hint
    | some next =>
      rw [ht] at hint
      simp only [Bool.or_eq_true] at hint
      rw [nameLt_eq_canonLt, nameLt_eq_canonLt] at hint
      simp only [hty, beq_self_eq_true, Bool.true_and, Option.bind_some, ht, hown]
      rcases hint with h1 | h2
      · simp [h1]
      · simp [canonLt_asymm h2]

/-! ### the NXDOMAIN proof denies the wildcard at the closest encloser (code as repaired by
/repo f7c9c53) -/

/-- the `while` loop of `nsec_records` finds the closest encloser of RFC 4592 / RFC 4035: the
wildcard it forms is `*.<closest encloser>` of the specification -/
theorem nextCloser_eq_closestEncloser {z : Zone} {o : LName} (wf : WF z o) :
    ∀ (enc : LName), o <:+ enc → ∀ x : Bytes,
      intoWildcard (nextCloser z o (x :: enc) enc) = star :: closestEncloser z (x :: enc) := by
  obtain ⟨s, hs⟩ := wf.soa
  obtain ⟨hsz, hsn, _⟩ := get_some hs
  have hoex : nameExists z o = true := nameExists_of_mem hsz (hsn ▸ List.suffix_refl _)
  have hany : ∀ e : LName, (z.any fun r => zoneOf e r.name) = nameExists z e := fun _ => rfl
  intro enc
  induction enc with
  | nil =>
    intro _ x
    simp only [nextCloser, intoWildcard, closestEncloser]
    split <;> rfl
  | cons l rest ih =>
    intro ho x
    by_cases hex : nameExists z (l :: rest) = true
    · simp [nextCloser, hany, hex, intoWildcard, closestEncloser]
    · have hex' : nameExists z (l :: rest) = false := by
        cases h : nameExists z (l :: rest) <;> simp_all
      have hne : (l :: rest) ≠ o := by
        intro h; rw [h, hoex] at hex'; cases hex'
      have ho' : o <:+ rest := by
        rcases List.suffix_cons_iff.1 ho with h | h
        · exact absurd h.symm hne
        · exact h
      have hcond : (zoneOf o (l :: rest) && (l :: rest) != o &&
          !(z.any fun r => zoneOf (l :: rest) r.name)) = true := by
        rw [hany, hex', zoneOf_iff.2 ho]
        simp [hne]
      rw [nextCloser, if_pos hcond, ih ho' l]
      simp [closestEncloser, hex']

theorem lowerName_star_tail {n : LName} (h : lowerName n = n) (m : LName) (hm : m <:+ n) :
    lowerName (star :: m) = star :: m := by
  obtain ⟨pre, rfl⟩ := hm
  unfold lowerName at h ⊢
  simp only [List.map_append] at h
  have := List.append_inj_right h (by simp)
  simp only [List.map_cons, this]
  rfl

/--
**What the NSECs of a name error prove** (code as repaired by /repo f7c9c53).  For a name `l ::
rest` strictly inside a well-formed, lower-cased zone that owns no NSEC (it does not exist, or is
an empty non-terminal): when `closest_nsec` finds a record `c` for the name and — the wildcard
`*.<closest encloser>` owning nothing and differing from the name — a record `p` for that
wildcard, then both are among `nsec_records(name)`, `c` covers the name and `p` covers the
wildcard at the closest encloser (RFC 4035 §3.1.3.2, §5.4).  With `negative_carries_nsec_records`:
a negative answer carries exactly these records and the SOA.  That `closest_nsec` *finds* the two
records depends on `nsec_zone` having built a complete chain — validated by the oracle on every
signed case, not proved.
-/
theorem nxdomain_proof_partial {z : Zone} {o : LName} {l : Bytes} {rest : LName}
    (hwf : Dev.zoneWF z o = true) (hin : o <:+ rest)
    (hlow : lowerName (l :: rest) = l :: rest) (hzlow : ∀ x ∈ z, lowerName x.name = x.name)
    (hnone : getRR z (l :: rest) T_NSEC = none)
    (hwne : star :: closestEncloser z (l :: rest) ≠ l :: rest)
    (hwfree : (z.any fun r => r.name == star :: closestEncloser z (l :: rest)) = false)
    {c p : RRset} (hc : closestNsec z (l :: rest) = some c)
    (hp : closestNsec z (star :: closestEncloser z (l :: rest)) = some p) :
    c ∈ nsecRecords z o (l :: rest) ∧ p ∈ nsecRecords z o (l :: rest) ∧
    covers c (l :: rest) = true ∧ covers p (star :: closestEncloser z (l :: rest)) = true := by
  have wf := wf_of_zoneWF hwf
  have hw := nextCloser_eq_closestEncloser wf rest hin l
  have hcov1 := closestNsec_covers hlow hzlow hnone hc
  have hwnone : getRR z (star :: closestEncloser z (l :: rest)) T_NSEC = none := by
    cases hg : getRR z (star :: closestEncloser z (l :: rest)) T_NSEC with
    | none => rfl
    | some r =>
      obtain ⟨hrz, hrn, _⟩ := get_some hg
      rw [List.any_eq_false] at hwfree
      exact absurd (by simp [hrn]) (hwfree r hrz)
  have hwlow : lowerName (star :: closestEncloser z (l :: rest)) = star :: closestEncloser z (l :: rest) :=
    lowerName_star_tail hlow _ ((closestEncloser_suffix z l rest).trans (List.suffix_cons _ _))
  have hcov2 := closestNsec_covers hwlow hzlow hwnone hp
  refine ⟨?_, ?_, hcov1, hcov2⟩ <;>
  · unfold nsecRecords
    simp only [hnone, List.tail_cons, hw, hc, hp, hwfree]
    have : (star :: closestEncloser z (l :: rest) != l :: rest) = true := by simp [hwne]
    simp only [this, Bool.not_false, Bool.and_self, if_true]
    split <;> simp_all

end HickoryVerif.C10
