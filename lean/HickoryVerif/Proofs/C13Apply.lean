/-
C13, part 6 — the converse of `update_applies_only_if`: **a correctly signed, timely update is
applied** (`signed_update_applies`).  Together the two theorems characterise the decision of the
server for UPDATE: the conjunction listed in `update_applies_only_if` is necessary, and — for a
request that consists of a parsable front and the TSIG RR a signer appends — sufficient.
-/
import HickoryVerif.Proofs.C13Sign
import HickoryVerif.Proofs.C13Panic

namespace HickoryVerif.C13
open HickoryVerif HickoryVerif.Tsig

/-- `front` (everything before the TSIG RR) is an UPDATE for the zone that `Request::from_bytes`
gets through: one question of type SOA inside the zone, `an` + `ns` records, `ar − 1` additional
records without a TSIG, EDNS absent or version 0, ending exactly at `front.length`. -/
structure UpdateFront (cfg : ZoneCfg) (front : Bytes) (hd : Hdr) : Prop where
  hdr : readHdr front = some hd
  qd : hd.qd = 1
  ar : hd.ar ≠ 0
  op : hd.opcode = 5
  qr : hd.isResponse = false
  body : ∃ qn qc pos p1 p2 z, readQuery front 12 = .ok (qn, 6, qc, pos) ∧
    Name.zoneOf cfg.origin qn = true ∧
    readRecords front false true hd.an pos none none = .ok (p1, none, none) ∧
    readRecords front false true hd.ns p1 none none = .ok (p2, none, none) ∧
    readRecords front true true (hd.ar - 1) p2 none none = .ok (front.length, none, z) ∧
    (z = none ∨ z = some 0)

theorem UpdateFront.walkable {cfg : ZoneCfg} {front : Bytes} {hd : Hdr}
    (U : UpdateFront cfg front hd) : Walkable front hd := by
  obtain ⟨qn, qc, pos, p1, p2, z, hq, _, h1, h2, h3, _⟩ := U.body
  have hop : (hd.opcode == 5) = true := by simp [U.op]
  refine ⟨U.hdr, U.ar, pos, p2, none, none, z, ?_, ?_, ?_⟩
  · simp only [U.qd, skipQueries, hq]
  · rw [hop, readRecords_append, h1]; exact h2
  · rw [hop]; exact h3

/--
**A correctly signed, timely update is applied.**  The request is `front` followed by the TSIG
RR built from (`n`, `d`); the zone is a Primary sqlite store with updates enabled; `n` is (up to case) the name of the first
configured key `sg` with that name, `d` names `sg`'s algorithm, carries a full-length MAC that
`sg`'s oracle accepts for the to-be-signed bytes, and `time ∸ fudge ≤ now < time + fudge`.  Then
the server hands the
update section to RFC 2136 processing and MACs its reply with the same key, error 0.
-/
theorem signed_update_applies {cfg : ZoneCfg} {front : Bytes} {hd : Hdr}
    (U : UpdateFront cfg front hd)
    (sg : Signer) (n : Name) (d : TsigData) (E : Emittable n d) (now : Nat)
    (hau : cfg.allowUpdate = true) (hsq : cfg.inMemory = false) (hzt : cfg.zoneType = 0)
    (hfind : cfg.signers.find? (fun s => Name.eq s.name { n with fqdn := true }) = some sg)
    (hname : Name.eq { n with fqdn := true } sg.name = true)
    (halg : algIs d.algName sg.alg = true)
    (hfull : outLen sg.alg ≤ d.mac.length)
    (hmac : sg.macOK (hdrDigest front d.oid (hd.ar - 1) ++ front.drop 12 ++
        tsigVars n d) d.mac = true)
    (hwin : d.time - d.fudge ≤ now ∧ now < d.time + d.fudge) :
    ∃ dec, serve cfg (front ++ tsigRRBytes n d) now true = .ok (some dec) ∧
      dec.kind = .update ∧ dec.effect = true ∧ dec.rcode = 0 := by
  have W := U.walkable
  obtain ⟨qn, qc, pos, p1, p2, z, hq, hz, h1, h2, h3, hed⟩ := U.body
  have hop : (hd.opcode == 5) = true := by simp [U.op]
  -- Request::from_bytes
  have hparse : parseRequest (front ++ tsigRRBytes n d) true
      = .ok (Req.mk hd qn 6 qc (some (sigRecAt front n d)) z) := by
    unfold parseRequest
    rw [readHdr_append _ U.hdr]
    simp only [U.qd, ne_eq, not_true_eq_false, ↓reduceIte]
    rw [readQuery_append _ hq]
    simp only [Bool.true_eq_false, ↓reduceIte, hop]
    rw [readRecords_append_suffix _ _ _ _ _ _ _ _ _ h1]
    simp only
    rw [readRecords_append_suffix _ _ _ _ _ _ _ _ _ h2]
    simp only
    have e : hd.ar = (hd.ar - 1) + 1 := by have := U.ar; omega
    rw [e, readRecords_append, readRecords_append_suffix _ _ _ _ _ _ _ _ _ h3]
    simp only
    rw [readRecords_tsigRR front n d E _ (tsigRdata_ne d) z]
  -- verify_message_byte
  have hv := signed_message_accepted W sg n d E none true hname halg hfull
    (by simpa [prevPart] using hmac)
  unfold serve
  rw [hparse]
  simp only
  have hdisp : dispatch cfg (Req.mk hd qn 6 qc (some (sigRecAt front n d)) z) = .update := by
    unfold dispatch
    rcases hed with hz0 | hz0 <;>
      simp only [hz0, gt_iff_lt, Nat.lt_irrefl, decide_false, Bool.false_eq_true, ↓reduceIte,
        U.qr, U.op, hz, and_self]
  rw [hdisp]
  simp only
  unfold authorizeUpdate
  simp only [hzt, hsq, hau, Bool.true_eq_false, Bool.false_eq_true, ↓reduceIte, Nat.zero_ne_one, ne_eq,
    not_true_eq_false]
  unfold authorizedTsig
  have hf' : cfg.signers.find? (fun s => Name.eq s.name (sigRecAt front n d).name) = some sg := hfind
  rw [hf']
  simp only
  rw [hv]
  simp only [hwin.1, hwin.2, and_self, ↓reduceIte]
  exact ⟨_, rfl, rfl, rfl, rfl⟩

/-- non-vacuity: the 17-octet UPDATE for the zone `.` (ARCOUNT = 1 for the TSIG RR to come) -/
example : UpdateFront cfgYes [1, 1, 40, 0, 0, 1, 0, 0, 0, 0, 0, 1, 0, 0, 6, 0, 1]
    { id := 257, b2 := 40, b3 := 0, qd := 1, an := 0, ns := 0, ar := 1 } :=
  ⟨by simp [readHdr, rd16], rfl, by decide, by decide, by decide,
    ⟨Name.root, 1, 17, 17, 17, none,
      by simp [readQuery, rd16, Name.readName, Name.readLabels, Name.new, Name.len, Name.dataLen,
        Name.root],
      by decide, by simp [readRecords], by simp [readRecords], by simp [readRecords], .inl rfl⟩⟩

end HickoryVerif.C13
