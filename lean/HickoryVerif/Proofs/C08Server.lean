/-
C08 — completeness through the server model, NXDOMAIN: the records C10's model of
`InMemoryZoneHandler::nsec_records` (`AuthZone.nsecRecords`: `closest_nsec(name)` and
`closest_nsec(name.base_name())`) returns for a non-existent name are accepted by the model of
`verify_nsec`, outside the open completeness classes:

* the parent of the query name exists (is its closest encloser) — otherwise the server denies
  the wrong wildcard (open finding C08-G6);
* no owner name of the zone sorts strictly between the parent and `*.<parent>` (a child label
  below `*`, e.g. `!`): then `closest_nsec(parent)` does not cover `*.<parent>` either.

What is assumed, not proved (it is `nsec_zone`, validated end to end): the NSEC RRsets of the
store are links of the chain of a zone view `Z` (`hlinks`), and `closest_nsec` finds a record
for both names (`hc`, `hw`).  That the server answers NXDOMAIN exactly when the name does not
exist is C10's property; here the truth of the claim in `Z` is a hypothesis.
-/
import HickoryVerif.Proofs.C08Complete
import HickoryVerif.Proofs.C08Refute
import HickoryVerif.Proofs.C10Signed

namespace HickoryVerif.C08
open HickoryVerif HickoryVerif.Name HickoryVerif.Nsec HickoryVerif.Spec HickoryVerif.KeyOrder
open HickoryVerif.AuthZone HickoryVerif.AuthZone.SDev

/-- an NSEC RRset of the store as the validator sees it -/
def toNsec (r : RRset) : Option Nsec :=
  match r.rdatas.head? with
  | some rd => rd.target.map fun nx => { owner := asName r.name, next := asName nx, types := rd.types }
  | none => none

/-- the NSEC records the server attaches to a negative answer for `name` -/
def serverNsecs (z : Zone) (o name : LName) : List Nsec := (nsecRecords z o name).filterMap toNsec

theorem canonLt_iff (a b : LName) : canonLt a b = true ↔ K (asName a) < K (asName b) := by
  unfold canonLt Spec.canonCompare
  rw [beq_iff_eq, key_compare_lt]

/-- what `closest_nsec` guarantees about the record it returns -/
theorem closestNsec_spec {z : Zone} {name : LName} {r : RRset} (h : closestNsec z name = some r) :
    r ∈ z ∧ r.type = T_NSEC ∧ ∃ n : Nsec, toNsec r = some n ∧ n.owner.fqdn = true ∧
      n.next.fqdn = true ∧
      ¬ K (asName name) < K n.owner ∧ (K (asName name) < K n.next ∨ K n.next < K n.owner) := by
  have hrz := C10.closestNsec_mem h
  unfold closestNsec at h
  have hp := List.find?_some h
  simp only [Bool.and_eq_true, beq_iff_eq, Bool.not_eq_true'] at hp
  obtain ⟨⟨hty, hnlt⟩, hint⟩ := hp
  refine ⟨hrz, hty, ?_⟩
  cases hh : r.rdatas.head? with
  | none => rw [hh] at hint; simp at hint
  | some rd =>
    rw [hh] at hint
    dsimp only at hint
    cases ht : rd.target with
    | none => rw [ht] at hint; simp at hint
    | some next =>
      rw [ht] at hint
      simp only [Bool.or_eq_true] at hint
      rw [C10.nameLt_eq_canonLt, C10.nameLt_eq_canonLt, canonLt_iff, canonLt_iff] at hint
      refine ⟨{ owner := asName r.name, next := asName next, types := rd.types }, ?_, rfl, rfl,
        ?_, hint⟩
      · unfold toNsec; rw [hh]; simp [ht]
      · rw [C10.nameLt_eq_canonLt] at hnlt
        intro hlt
        rw [(canonLt_iff _ _).2 hlt] at hnlt
        cases hnlt

theorem key_tail (n : LName) : K (asName n.tail) = (K (asName n)).dropLast := by
  cases n with
  | nil => rfl
  | cons l ls => simp [K, canonKey, asName]

theorem zoneOf_key {o n : LName} (h : AuthZone.zoneOf o n = true) : K (asName o) <+: K (asName n) := by
  unfold AuthZone.zoneOf at h
  obtain ⟨t, rfl⟩ := List.isSuffixOf_iff_suffix.1 h
  simp only [K, canonKey, asName, List.reverse_append, List.map_append]
  exact List.prefix_append _ _

/-- `nsec_records` for a name that owns no NSEC, when `closest_nsec` finds a record for the
name and for its parent -/
theorem nsecRecords_eq {z : Zone} {o q : LName} {c w : RRset} (hne : q ≠ [])
    (hzo : AuthZone.zoneOf o q.tail = true) (hnone : getRR z q T_NSEC = none)
    (hc : closestNsec z q = some c) (hw : closestNsec z q.tail = some w) :
    nsecRecords z o q = if w != c then [w, c] else [c] := by
  have htail : (q.tail != q) = true := by
    rw [bne_iff_ne]
    intro h
    have := congrArg List.length h
    cases q with
    | nil => exact hne rfl
    | cons l ls => simp at this
  unfold nsecRecords
  rw [hnone]
  simp only [hzo, if_true, htail, hc, hw]

/-- **The server's NXDOMAIN proof is accepted** (through C10's model of `nsec_records`). -/
theorem completeness_partial {z : Zone} {o q : LName} {qtype : Nat} {Z : ZoneView}
    {c w : RRset}
    (hqb : C04.Bounded (asName q)) (hne : q ≠ [])
    (hapex : K (asName o) = Z.apex) (hzo : AuthZone.zoneOf o q.tail = true)
    (hnone : getRR z q T_NSEC = none)
    (hlinks : ∀ r ∈ z, r.type = T_NSEC → ∀ n, toNsec r = some n → LinkOf Z n)
    (hc : closestNsec z q = some c) (hw : closestNsec z q.tail = some w)
    -- the claim is true in `Z`, with the parent as closest encloser
    (hnq : ¬ Z.Exists (K (asName q)))
    (hce : Z.ClosestEncloser (K (asName q.tail)) (K (asName q)))
    (hnw : ¬ Z.Exists (K (asName q.tail) ++ [Spec.STAR]))
    -- nothing of the zone sorts between the parent and `*.<parent>`
    (hgap : ∀ m, Z.hasData m → K (asName q.tail) < m → ¬ m < K (asName q.tail) ++ [Spec.STAR])
    -- the server is not answering below one of its own zone cuts
    (hnd : ∀ r ∈ z, r.type = T_NSEC → ∀ n, toNsec r = some n → ¬ IsAncestorDelegation n.types) :
    verifyNsec (asName q) qtype (some (asName o)) 3 [] (serverNsecs z o q) = .secure := by
  obtain ⟨hcz, hcty, cn, hcn, hcf1, hcf2, hc1, hc2⟩ := closestNsec_spec hc
  obtain ⟨hwz, hwty, wn, hwn, hwf1, hwf2, hw1, hw2⟩ := closestNsec_spec hw
  have hcl := hlinks c hcz hcty cn hcn
  have hwl := hlinks w hwz hwty wn hwn
  have hin : K (asName o) <+: K (asName q.tail) := zoneOf_key hzo
  have hpq : K (asName q.tail) <+: K (asName q) := by rw [key_tail]; exact List.dropLast_prefix _
  have hinq : K (asName o) <+: K (asName q) := List.IsPrefix.trans hin hpq
  -- what the server attaches: `wn` and `cn`
  have hmem : cn ∈ serverNsecs z o q ∧ wn ∈ serverNsecs z o q ∧
      ∀ n ∈ serverNsecs z o q, n = wn ∨ n = cn := by
    unfold serverNsecs
    rw [nsecRecords_eq hne hzo hnone hc hw]
    by_cases hwc : (w != c) = true
    · rw [if_pos hwc]
      simp [List.filterMap_cons, hwn, hcn]
    · rw [if_neg hwc]
      have : w = c := by simpa using hwc
      subst this
      rw [hcn] at hwn
      cases hwn
      simp [List.filterMap_cons, hcn]
  obtain ⟨hcm, hwm, hall⟩ := hmem
  have hwf : InputsWF (asName q) (some (asName o)) [] (serverNsecs z o q) :=
    ⟨rfl, fun s hs => by cases hs; rfl,
      fun n hn => by rcases hall n hn with rfl | rfl <;> exact ⟨by assumption, by assumption⟩,
      by simp⟩
  have hZ : ConsistentWith (serverNsecs z o q) Z := by
    intro n hn
    rcases hall n hn with rfl | rfl
    · exact hwl
    · exact hcl
  -- `cn` covers the query name
  have hcov : CoversIn Z (K (asName q)) cn := by
    have hle : K cn.owner ≤ K (asName q) := not_lt.1 hc1
    have hneq : K cn.owner ≠ K (asName q) := by
      intro he
      exact hnq ⟨K cn.owner, link_owner_data hcl, by rw [he]; exact List.prefix_refl _⟩
    refine ⟨lt_of_le_of_ne' hle hneq, ?_⟩
    rcases hc2 with h | h
    · exact Or.inl h
    · exact Or.inr ⟨wrap_of_next_lt hcl h, hapex ▸ hinq⟩
  -- `wn` covers the wildcard at the parent
  have hstar : K (asName q.tail) < K (asName q.tail) ++ [Spec.STAR] :=
    lt_of_le_of_ne' (prefix_le (List.prefix_append _ _)) (by
      intro h
      have := congrArg List.length h
      simp at this)
  have hwcov : CoversIn Z (K (asName q.tail) ++ [Spec.STAR]) wn := by
    refine ⟨lt_of_le_of_lt (not_lt.1 hw1) hstar, ?_⟩
    have hapexw : Z.apex <+: K (asName q.tail) ++ [Spec.STAR] :=
      hapex ▸ List.IsPrefix.trans hin (List.prefix_append _ _)
    by_cases he : K wn.next = Z.apex
    · exact Or.inr ⟨he, hapexw⟩
    · rcases hw2 with h | h
      · left
        have hd := (link_owner_lt_next hwl he).2
        have hge : K (asName q.tail) ++ [Spec.STAR] ≤ K wn.next := not_lt.1 (hgap _ hd h)
        refine lt_of_le_of_ne' hge ?_
        intro heq
        exact hnw ⟨K wn.next, hd, by rw [heq]; exact List.prefix_refl _⟩
      · exact absurd (wrap_of_next_lt hwl h) he
  exact completeness_nxdomain hwf hqb hapex hinq hZ hnq hce hnw hcm hcov
    (fun h => hnd c hcz hcty cn hcn h.1) hwm hwcov (fun h => hnd w hwz hwty wn hwn h.1)

/-! ### non-vacuity of `completeness_partial` -/

namespace ServerExample
open FinZone

def exL : LName := [[101, 120]]
def aL : LName := [[97], [101, 120]]
def bL : LName := [[98], [101, 120]]
def cL : LName := [[99], [101, 120]]

def nsecRR (owner next : LName) (types : List Nat) : RRset :=
  { name := owner, type := T_NSEC, rdatas := [{ tag := 0, target := some next, types := types }],
    sigLabels := some owner.length }

/-- the store of the signed zone { ex. SOA NS, a.ex. A, c.ex. A } (only the RRsets that matter
here: the A RRsets and the NSEC chain) -/
def store : Zone :=
  [{ name := aL, type := 1, rdatas := [{ tag := 1, target := none }], sigLabels := some 2 },
   { name := cL, type := 1, rdatas := [{ tag := 1, target := none }], sigLabels := some 2 },
   nsecRR exL aL [2, 6, 46, 47], nsecRR aL cL [1, 46, 47], nsecRR cL exL [1, 46, 47]]

def zone : FinZone :=
  { apex := [[101, 120]],
    recs := [([[101, 120]], [2, 6, 46, 47]), ([[101, 120], [97]], [1, 46, 47]),
             ([[101, 120], [99]], [1, 46, 47])] }

/-- All hypotheses of `completeness_partial` hold together for the query b.ex. A against the
signed zone above — and so does its conclusion: the two records `nsec_records` returns
(`ex. NSEC a.ex.` for the parent, `a.ex. NSEC c.ex.` for the name) are accepted. -/
theorem nonvacuous :
    serverNsecs store exL bL =
      [{ owner := asName exL, next := asName aL, types := [2, 6, 46, 47] },
       { owner := asName aL, next := asName cL, types := [1, 46, 47] }] ∧
    verifyNsec (asName bL) 1 (some (asName exL)) 3 [] (serverNsecs store exL bL) = .secure := by
  refine ⟨by decide, ?_⟩
  have hlinks : ∀ r ∈ store, r.type = T_NSEC → ∀ n, toNsec r = some n → LinkOf zone.view n := by
    intro r hr hty n hn
    simp only [store, List.mem_cons, List.not_mem_nil, or_false] at hr
    rcases hr with rfl | rfl | rfl | rfl | rfl
    · cases hty
    · cases hty
    all_goals
      simp only [toNsec, nsecRR, List.head?_cons, Option.map_some, Option.some.injEq] at hn
      subst hn
      exact linkB_sound zone _ (by decide)
  have hnd : ∀ r ∈ store, r.type = T_NSEC → ∀ n, toNsec r = some n →
      ¬ IsAncestorDelegation n.types := by
    intro r hr hty n hn
    simp only [store, List.mem_cons, List.not_mem_nil, or_false] at hr
    rcases hr with rfl | rfl | rfl | rfl | rfl
    · cases hty
    · cases hty
    all_goals
      simp only [toNsec, nsecRR, List.head?_cons, Option.map_some, Option.some.injEq] at hn
      subst hn
      decide
  have hnq : ¬ zone.view.Exists (K (asName bL)) := by rw [exists_iff]; decide
  have hnw : ¬ zone.view.Exists (K (asName bL.tail) ++ [Spec.STAR]) := by rw [exists_iff]; decide
  exact completeness_partial (Z := zone.view) (c := nsecRR aL cL [1, 46, 47])
    (w := nsecRR exL aL [2, 6, 46, 47]) (by decide) (by decide) (by decide) (by decide) (by decide)
    hlinks (by decide) (by decide) hnq (closestEncloserB_sound zone _ _ (by decide)) hnw
    (forall_hasData zone _ (by decide)) hnd

end ServerExample

end HickoryVerif.C08
