/-
C08 — completeness through the server model, NXDOMAIN: the records C10's model of
`InMemoryZoneHandler::nsec_records` (`AuthZone.nsecRecords`, the code as repaired by /repo
f7c9c53: `closest_nsec(name)` and `closest_nsec(*.<closest encloser>)`, the encloser found by
the `next_closer` loop) returns for a non-existent name — any number of levels below its closest
encloser — are accepted by the model of `verify_nsec`.

What is assumed, not proved (it is `nsec_zone`, validated end to end): the NSEC RRsets of the
store are links of the chain of a zone view `Z` (`hlinks`), `Z` agrees with the store about the
closest encloser (`hce`), and `closest_nsec` finds a record for both names (`hc`, `hp`).  That
the server answers NXDOMAIN exactly when the name does not exist is C10's property; here the
truth of the claim in `Z` is a hypothesis.
-/
import HickoryVerif.Proofs.C08Complete
import HickoryVerif.Proofs.C08Refute
import HickoryVerif.Proofs.C10Signed

namespace HickoryVerif.C08
open HickoryVerif HickoryVerif.Name HickoryVerif.Nsec HickoryVerif.Spec HickoryVerif.KeyOrder
open HickoryVerif.AuthZone HickoryVerif.AuthZone.SDev HickoryVerif.Spec.Rfc1034

/-- an NSEC RRset of the store as the validator sees it -/
def toNsec (r : RRset) : Option Nsec :=
  if r.type == T_NSEC then
    match r.rdatas.head? with
    | some rd =>
      rd.target.map fun nx => { owner := asName r.name, next := asName nx, types := rd.types }
    | none => none
  else none

theorem toNsec_fqdn {r : RRset} {n : Nsec} (h : toNsec r = some n) :
    n.owner.fqdn = true ∧ n.next.fqdn = true := by
  unfold toNsec at h
  split at h
  · cases hh : r.rdatas.head? with
    | none => rw [hh] at h; cases h
    | some rd =>
      rw [hh] at h
      simp only [Option.map_eq_some_iff] at h
      obtain ⟨nx, _, rfl⟩ := h
      exact ⟨rfl, rfl⟩
  · cases h

/-- the NSEC records the server attaches to a negative answer for `name` -/
def serverNsecs (z : Zone) (o name : LName) : List Nsec := (nsecRecords z o name).filterMap toNsec

theorem canonLt_iff (a b : LName) : canonLt a b = true ↔ K (asName a) < K (asName b) := by
  unfold canonLt Spec.canonCompare
  rw [beq_iff_eq, key_compare_lt]

/-- what `closest_nsec` guarantees about the record it returns -/
theorem closestNsec_spec {z : Zone} {name : LName} {r : RRset} (h : closestNsec z name = some r) :
    r ∈ z ∧ r.type = T_NSEC ∧ ∃ n : Nsec, toNsec r = some n ∧ n.owner.fqdn = true ∧
      n.next.fqdn = true ∧
      ¬ K (asName name) < K n.owner ∧ (K (asName name) < K n.next ∨ K n.next < K n.owner) := by
  have hrz := C10.closestNsec_mem h
  unfold closestNsec at h
  have hp := List.find?_some h
  simp only [Bool.and_eq_true, beq_iff_eq, Bool.not_eq_true'] at hp
  obtain ⟨⟨hty, hnlt⟩, hint⟩ := hp
  refine ⟨hrz, hty, ?_⟩
  cases hh : r.rdatas.head? with
  | none => rw [hh] at hint; simp at hint
  | some rd =>
    rw [hh] at hint
    dsimp only at hint
    cases ht : rd.target with
    | none => rw [ht] at hint; simp at hint
    | some next =>
      rw [ht] at hint
      simp only [Bool.or_eq_true] at hint
      rw [C10.nameLt_eq_canonLt, C10.nameLt_eq_canonLt, canonLt_iff, canonLt_iff] at hint
      refine ⟨{ owner := asName r.name, next := asName next, types := rd.types }, ?_, rfl, rfl,
        ?_, hint⟩
      · unfold toNsec; rw [hh]; simp [ht, hty]
      · rw [C10.nameLt_eq_canonLt] at hnlt
        intro hlt
        rw [(canonLt_iff _ _).2 hlt] at hnlt
        cases hnlt

theorem key_star_cons (n : LName) : K (asName (star :: n)) = K (asName n) ++ [Spec.STAR] := by
  simp [K, canonKey, asName, lowerLabel, Spec.STAR, lowerByte]

/-- **The server's NXDOMAIN proof is accepted** (through C10's model of `nsec_records`, for a
query name `l :: rest` any number of levels below its closest encloser). -/
theorem completeness_partial {z : Zone} {o : LName} {l : Bytes} {rest : LName} {qtype : Nat}
    {Z : ZoneView} {c p : RRset}
    -- the store and the query name, as in `C10.nxdomain_proof_partial`
    (hwfz : Dev.zoneWF z o = true) (hin : o <:+ rest)
    (hlow : lowerName (l :: rest) = l :: rest) (hzlow : ∀ x ∈ z, lowerName x.name = x.name)
    (hnone : getRR z (l :: rest) T_NSEC = none)
    (hwne : star :: closestEncloser z (l :: rest) ≠ l :: rest)
    (hwfree : (z.any fun r => r.name == star :: closestEncloser z (l :: rest)) = false)
    (hc : closestNsec z (l :: rest) = some c)
    (hp : closestNsec z (star :: closestEncloser z (l :: rest)) = some p)
    (hqb : C04.Bounded (asName (l :: rest)))
    -- the zone view of the store
    (hapex : K (asName o) = Z.apex)
    (hlinks : ∀ r ∈ z, ∀ n, toNsec r = some n → LinkOf Z n)
    (hnd : ∀ r ∈ z, ∀ n, toNsec r = some n → ¬ IsAncestorDelegation n.types)
    -- the claim is true in `Z`
    (hnq : ¬ Z.Exists (K (asName (l :: rest))))
    (hce : Z.ClosestEncloser (K (asName (closestEncloser z (l :: rest)))) (K (asName (l :: rest))))
    (hnw : ¬ Z.Exists (K (asName (closestEncloser z (l :: rest))) ++ [Spec.STAR])) :
    verifyNsec (asName (l :: rest)) qtype (some (asName o)) 3 []
      (serverNsecs z o (l :: rest)) = .secure := by
  obtain ⟨hcm, hpm, _, _⟩ :=
    C10.nxdomain_proof_partial hwfz hin hlow hzlow hnone hwne hwfree hc hp
  obtain ⟨hcz, _, cn, hcn, _, _, hc1, hc2⟩ := closestNsec_spec hc
  obtain ⟨hpz, _, pn, hpn, _, _, hp1, hp2⟩ := closestNsec_spec hp
  rw [key_star_cons] at hp1 hp2
  have hinq : K (asName o) <+: K (asName (l :: rest)) := by
    obtain ⟨t, ht⟩ := hin
    rw [← ht]
    simp only [K, canonKey, asName, List.reverse_cons, List.reverse_append, List.map_append,
      List.append_assoc]
    exact List.prefix_append _ _
  have hmemc : cn ∈ serverNsecs z o (l :: rest) :=
    List.mem_filterMap.2 ⟨c, hcm, hcn⟩
  have hmemp : pn ∈ serverNsecs z o (l :: rest) :=
    List.mem_filterMap.2 ⟨p, hpm, hpn⟩
  have hall : ∀ n ∈ serverNsecs z o (l :: rest), ∃ r ∈ z, toNsec r = some n := by
    intro n hn
    obtain ⟨r, hr, hrn⟩ := List.mem_filterMap.1 hn
    exact ⟨r, C10.nsecRecords_mem r hr, hrn⟩
  have hwf : InputsWF (asName (l :: rest)) (some (asName o)) [] (serverNsecs z o (l :: rest)) :=
    ⟨rfl, fun s hs => by cases hs; rfl,
      fun n hn => by obtain ⟨r, _, hrn⟩ := hall n hn; exact toNsec_fqdn hrn, by simp⟩
  have hZ : ConsistentWith (serverNsecs z o (l :: rest)) Z := by
    intro n hn
    obtain ⟨r, hr, hrn⟩ := hall n hn
    exact hlinks r hr n hrn
  -- the apex is above the closest encloser
  have hapexce : Z.apex <+: K (asName (closestEncloser z (l :: rest))) := by
    have hcl := hlinks c hcz cn hcn
    have hex : Z.Exists Z.apex := ⟨K cn.owner, link_owner_data hcl, hcl.1⟩
    have hne : Z.apex ≠ K (asName (l :: rest)) := fun h => hnq (h ▸ hex)
    have hle := hce.2.2.2 Z.apex (hapex ▸ hinq) hne hex
    exact List.prefix_of_prefix_length_le (hapex ▸ hinq) hce.1 hle
  exact completeness_nxdomain_closest hwf hqb hapex hinq hZ hnq hce hnw hapexce hmemc hc1 hc2
    (hnd c hcz cn hcn) hmemp hp1 hp2 (hnd p hpz pn hpn)

/-! ### non-vacuity of `completeness_partial` -/

namespace ServerExample
open FinZone

def exL : LName := [[101, 120]]
def aL : LName := [[97], [101, 120]]
def cL : LName := [[99], [101, 120]]
/-- the query name b.b.ex. — two levels below its closest encloser ex. -/
def qL : LName := [[98], [98], [101, 120]]

def rr (owner : LName) (type : Nat) : RRset :=
  { name := owner, type := type, rdatas := [{ tag := type, target := none }],
    sigLabels := some owner.length }

def nsecRR (owner next : LName) (types : List Nat) : RRset :=
  { name := owner, type := T_NSEC, rdatas := [{ tag := 0, target := some next, types := types }],
    sigLabels := some owner.length }

/-- the store of the signed zone { ex. SOA NS, a.ex. A, c.ex. A } -/
def store : Zone :=
  [rr exL T_SOA, rr exL T_NS, rr aL 1, rr cL 1,
   nsecRR exL aL [2, 6, 46, 47], nsecRR aL cL [1, 46, 47], nsecRR cL exL [1, 46, 47]]

def zone : FinZone :=
  { apex := [[101, 120]],
    recs := [([[101, 120]], [2, 6, 46, 47]), ([[101, 120], [97]], [1, 46, 47]),
             ([[101, 120], [99]], [1, 46, 47])] }

theorem toNsec_store {r : RRset} (hr : r ∈ store) {n : Nsec} (hn : toNsec r = some n) :
    n = { owner := asName exL, next := asName aL, types := [2, 6, 46, 47] } ∨
    n = { owner := asName aL, next := asName cL, types := [1, 46, 47] } ∨
    n = { owner := asName cL, next := asName exL, types := [1, 46, 47] } := by
  simp only [store, List.mem_cons, List.not_mem_nil, or_false] at hr
  rcases hr with rfl | rfl | rfl | rfl | rfl | rfl | rfl
  · have h0 : toNsec (rr exL T_SOA) = none := by decide
    rw [h0] at hn; cases hn
  · have h0 : toNsec (rr exL T_NS) = none := by decide
    rw [h0] at hn; cases hn
  · have h0 : toNsec (rr aL 1) = none := by decide
    rw [h0] at hn; cases hn
  · have h0 : toNsec (rr cL 1) = none := by decide
    rw [h0] at hn; cases hn
  · left; exact (Option.some.inj (by rw [← hn]; rfl)).symm
  · right; left; exact (Option.some.inj (by rw [← hn]; rfl)).symm
  · right; right; exact (Option.some.inj (by rw [← hn]; rfl)).symm

/-- All hypotheses of `completeness_partial` hold together for the query b.b.ex. A against the
signed zone above (closest encloser ex., two levels up) — and so does its conclusion: the two
records `nsec_records` returns (`ex. NSEC a.ex.` covering `*.ex.`, `a.ex. NSEC c.ex.` covering
the name) are accepted. -/
theorem nonvacuous :
    serverNsecs store exL qL =
      [{ owner := asName exL, next := asName aL, types := [2, 6, 46, 47] },
       { owner := asName aL, next := asName cL, types := [1, 46, 47] }] ∧
    verifyNsec (asName qL) 1 (some (asName exL)) 3 [] (serverNsecs store exL qL) = .secure := by
  refine ⟨by decide, ?_⟩
  have hlinks : ∀ r ∈ store, ∀ n, toNsec r = some n → LinkOf zone.view n := by
    intro r hr n hn
    rcases toNsec_store hr hn with rfl | rfl | rfl <;> exact linkB_sound zone _ (by decide)
  have hnd : ∀ r ∈ store, ∀ n, toNsec r = some n → ¬ IsAncestorDelegation n.types := by
    intro r hr n hn
    rcases toNsec_store hr hn with rfl | rfl | rfl <;> decide
  have hnq : ¬ zone.view.Exists (K (asName qL)) := by rw [exists_iff]; decide
  have hnw : ¬ zone.view.Exists (K (asName (closestEncloser store qL)) ++ [Spec.STAR]) := by
    rw [exists_iff]; decide
  exact completeness_partial (Z := zone.view) (l := [98]) (rest := [[98], [101, 120]])
    (c := nsecRR aL cL [1, 46, 47]) (p := nsecRR exL aL [2, 6, 46, 47])
    (by decide) (by decide) (by decide) (by decide) (by decide) (by decide) (by decide)
    (by decide) (by decide) (by decide) (by decide) hlinks hnd hnq
    (closestEncloserB_sound zone _ _ (by decide)) hnw

end ServerExample

end HickoryVerif.C08
