/-
C02 — the remaining clauses, as far as proved (stage 2): `reencode_stable_partial` (and its EDNS
variant), `emitName_uncompressed` and `rdata_preserved_partial`.
-/
import HickoryVerif.Proofs.C02Edns
namespace HickoryVerif.C02
open HickoryVerif HickoryVerif.Name HickoryVerif.Wire HickoryVerif.C03

/-! ### re-encoding what was decoded -/

/-- all names of the message are fully qualified (every decoded message is like that) -/
def AllFq (m : Message) : Prop := m.fq = m

/-
FULL STATEMENT (kept visible):
  reencode_stable : readMessage b = .ok m → EncFits m → readMessage (emitMessage m) = .ok m
for every byte string.  Proved: `reencode_stable_partial`, for decoded messages that satisfy `MsgWF`
(resp. `MsgWFE` with EDNS) — the decoder returns every name fully qualified, so `m.fq = m` — and whose
re-encoding drops nothing (`EncFits`: the counts written are the section lengths; known finding C02-F2
shows a decodable 56 KiB message for which this fails).
-/

/-- **Any byte string that decodes successfully (to a `MsgWF` message) re-encodes to bytes that decode
to the same message**, provided the re-encoding fits (drops nothing). -/
theorem reencode_stable_partial (opq : Nat → Rd Bytes) (b : Bytes) (m : Message) (p : Nat)
    (_hdec : Rd.run (readMessage opq) b 0 = .ok (m, p)) (hfq : AllFq m) (hwf : MsgWF m)
    (md' : Metadata) (c : Counts) (e' : Enc)
    (h : emitMessage m ((Enc.new []).setMaxSize 65535) = .ok (md', c) e')
    (hfits : c.an = m.answers.length ∧ c.ns = m.authorities.length ∧ c.ar = m.additionals.length) :
    Rd.run (readMessage opq) e'.buf 0 = .ok (m, e'.buf.length) := by
  have := decode_encode_partial opq m hwf 65535 md' c e' h hfits
  rwa [hfq] at this

/-- the same with EDNS and extended response codes -/
theorem reencode_stable_edns_partial (opq : Nat → Rd Bytes) (b : Bytes) (m : Message) (ed : Edns) (p : Nat)
    (_hdec : Rd.run (readMessage opq) b 0 = .ok (m, p)) (hfq : AllFq m) (hwf : MsgWFE m)
    (hed : m.edns = some ed) (md' : Metadata) (c : Counts) (e' : Enc)
    (h : emitMessage m ((Enc.new []).setMaxSize 65535) = .ok (md', c) e')
    (hfits : c.an = m.answers.length ∧ c.ns = m.authorities.length ∧ c.ar = m.additionals.length + 1) :
    Rd.run (readMessage opq) e'.buf 0 = .ok (m, e'.buf.length) := by
  have := decode_encode_edns_partial opq m ed hwf hed 65535 md' c e' h hfits
  rwa [hfq] at this

/-- what the encoder writes decodes to a message that is its own `fq` (so the hypothesis `AllFq` of the
two theorems above is satisfiable by every decoded `MsgWF` message) -/
theorem fq_fq (m : Message) : m.fq.fq = m.fq := by
  have hr : ∀ d : RData, d.fq.fq = d.fq := by intro d; cases d <;> rfl
  have hrec : ∀ r : Record, r.fq.fq = r.fq := by
    intro r; simp only [Record.fq, hr]
  simp only [Message.fq, List.map_map]
  congr 1
  all_goals
    apply List.map_congr_left
    intro x _
    first | exact hrec x | rfl

/-! ### RDATA whose names are not compressible is written byte-for-byte -/

/-- In `Uncompressed` mode `Name::emit` appends exactly the uncompressed wire form of the name (labels
with their case, root octet) — no pointer, whatever the candidate table holds. -/
theorem emitName_uncompressed (e e' : Enc) (n : Name) (hwf : n.WF) (happ : e.offset = e.buf.length)
    (hmode : e.nameEncoding = .uncompressed) (h : Name.emit e n = .ok () e') :
    e'.buf = e.buf ++ Name.wire n ∧ e'.offset = e'.buf.length := by
  have hlab : LabelsOK n.labels := fun l hl => by have := hwf.2 l hl; omega
  unfold Name.emit at h
  simp only [hmode, reduceCtorEq, ↓reduceIte, decide_false, Bool.false_and, Bool.false_eq_true] at h
  cases hl : emitLabels e n.labels [] with
  | panic s => rw [hl] at h; simp at h
  | err k e1 => rw [hl] at h; simp at h
  | ok written e1 =>
    rw [hl] at h
    simp only at h
    obtain ⟨he1, hw⟩ := emitLabels_ok n.labels e [] written e1 happ (fun l hl' => (hlab l hl').2) hl
    have hm : Mid e n.labels e1 := by rw [he1]; exact ⟨rfl, by simp [happ], rfl, rfl, rfl⟩
    have hst : written = starts (e.buf.length + (flat []).length) n.labels := by rw [hw, happ]; simp
    rw [hst] at h
    cases hs : storeAll e1 e1.offset (starts (e.buf.length + (flat []).length) n.labels) with
    | panic s => rw [hs] at h; simp at h
    | err => rw [hs] at h; simp at h
    | ok e2 =>
      rw [hs] at h
      simp only at h
      have hpost := storeAll_spec e n.labels n.labels [] e1 [] e2 rfl hm (by rw [he1]; simp) (by simp) hs
      cases hpost with
      | miss news hm2 _ _ _ =>
        unfold emitRoot Enc.emitU8 at h
        rw [emitSlice_app _ _ hm2.off] at h
        simp only [List.length_cons, List.length_nil, Nat.zero_add, Nat.zero_mod] at h
        by_cases hfull : e2.maxSize < e2.offset + 1
        · simp [hfull] at h
        · simp only [hfull, ↓reduceIte] at h
          split at h
          · simp at h
          split at h
          · simp at h
          simp only [ERes.ok.injEq, true_and] at h
          rw [← h]
          refine ⟨by simp only [hm2.buf, Name.wire, flat, List.append_assoc], ?_⟩
          simp [hm2.off]

/-- the uncompressed wire form of the covered RDATA variants whose names are not compressible
(`with_rdata_behavior(Canonical | Other)`), and of the name-free ones -/
def rdataWire : RData → Bytes
  | .a b => b
  | .srv p w port n => u16b p ++ u16b w ++ u16b port ++ Name.wire n
  | .name n => Name.wire n
  | .null d => d
  | .unknown _ d => d
  | _ => []

/-
FULL STATEMENT (kept visible):
  rdata_preserved : readMessage b = .ok m → for every record of a type whose RDataEncoding is Other or
  Canonical (or unknown), the RDATA octets of the re-encoding equal those of `b`, provided the original
  RDATA used no compression pointer.
Proved: `rdata_preserved_partial`, the encoder half for SRV (Canonical), ANAME (Other), A, NULL and
unknown types: whatever the encoder state (candidate table, offset, compressed-name count), the RDATA
written is `rdataWire d` — the fixed uncompressed form, names with their letter case — so two encodings
of the same value carry identical RDATA octets, and no pointer ever appears inside it.
-/

/-- **RDATA of types whose embedded names are not compressible is written byte-for-byte** (see the
comment above): from any appending state not in DNSSEC canonical form. -/
theorem rdata_preserved_partial (t : Nat) (d : RData) (e e' : Enc)
    (hd : match d with
      | .a _ | .null _ | .unknown _ _ => True
      | .srv _ _ _ n => n.WF
      | .name n => n.WF ∧ t = 65305
      | _ => False)
    (happ : e.offset = e.buf.length) (hcanon : e.canonicalForm = false)
    (h : emitRData t d e = .ok () e') : e'.buf = e.buf ++ rdataWire d ∧ e'.offset = e'.buf.length := by
  have slice : ∀ (x : Bytes) (e0 e1 : Enc), e0.offset = e0.buf.length → e0.emitSlice x = .ok () e1 →
      e1.buf = e0.buf ++ x ∧ e1.offset = e1.buf.length ∧ e1.nameEncoding = e0.nameEncoding := by
    intro x e0 e1 ha hs
    rw [emitSlice_app _ _ ha] at hs
    split at hs
    · simp at hs
    · simp only [ERes.ok.injEq, true_and] at hs; subst hs; exact ⟨rfl, by simp [ha], rfl⟩
  cases d <;> first | (simp at hd; done) | skip
  case a b => exact ⟨(slice b e e' happ h).1, (slice b e e' happ h).2.1⟩
  case null b => exact ⟨(slice b e e' happ h).1, (slice b e e' happ h).2.1⟩
  case unknown c b => exact ⟨(slice b e e' happ h).1, (slice b e e' happ h).2.1⟩
  case name n =>
    obtain ⟨hn, rfl⟩ := hd
    have hmode : Enc.rdataNameEncoding .other e.canonicalForm e.nameEncoding = .uncompressed := by
      cases e.canonicalForm <;> rfl
    simp only [emitRData, ↓reduceIte, Enc.withRdataBehavior, hmode] at h
    cases hr : Name.emit { e with nameEncoding := .uncompressed } n with
    | ok u e1 =>
      rw [hr] at h
      simp only [Enc.restoreNameEncoding, ERes.ok.injEq, true_and] at h
      subst h
      exact emitName_uncompressed { e with nameEncoding := .uncompressed } e1 n hn happ rfl hr
    | err k e1 => rw [hr] at h; simp [Enc.restoreNameEncoding] at h
    | panic s => rw [hr] at h; simp [Enc.restoreNameEncoding] at h
  case srv p w port n =>
    have hmode : Enc.rdataNameEncoding .canonical e.canonicalForm e.nameEncoding = .uncompressed := by
      rw [hcanon]; rfl
    simp only [emitRData, Enc.withRdataBehavior, hmode, seqAll, Enc.seq, emitNothing] at h
    generalize hE : ({ e with nameEncoding := NameEncoding.uncompressed } : Enc) = eu at h
    have hau : eu.offset = eu.buf.length := by rw [← hE]; exact happ
    have hbu : eu.buf = e.buf := by rw [← hE]
    have hnu : eu.nameEncoding = .uncompressed := by rw [← hE]
    cases h1 : eu.emitU16 p with
    | ok u1 e1 =>
      obtain ⟨b1, a1, n1⟩ := slice _ eu e1 hau h1
      rw [h1] at h; simp only at h
      cases h2 : e1.emitU16 w with
      | ok u2 e2 =>
        obtain ⟨b2, a2, n2⟩ := slice _ e1 e2 a1 h2
        rw [h2] at h; simp only at h
        cases h3 : e2.emitU16 port with
        | ok u3 e3 =>
          obtain ⟨b3, a3, n3⟩ := slice _ e2 e3 a2 h3
          rw [h3] at h; simp only at h
          cases h4 : Name.emit e3 n with
          | ok u4 e4 =>
            rw [h4] at h
            simp only [Enc.restoreNameEncoding, ERes.ok.injEq, true_and] at h
            subst h
            have := emitName_uncompressed e3 e4 n hd a3 (by rw [n3, n2, n1, hnu]) h4
            refine ⟨?_, this.2⟩
            simp only [this.1, b3, b2, b1, hbu, rdataWire, u16b, List.append_assoc]
          | err k e4 => rw [h4] at h; simp [Enc.restoreNameEncoding] at h
          | panic s => rw [h4] at h; simp [Enc.restoreNameEncoding] at h
        | err k e3 => rw [h3] at h; simp [Enc.restoreNameEncoding] at h
        | panic s => rw [h3] at h; simp [Enc.restoreNameEncoding] at h
      | err k e2 => rw [h2] at h; simp [Enc.restoreNameEncoding] at h
      | panic s => rw [h2] at h; simp [Enc.restoreNameEncoding] at h
    | err k e1 => rw [h1] at h; simp [Enc.restoreNameEncoding] at h
    | panic s => rw [h1] at h; simp [Enc.restoreNameEncoding] at h
end HickoryVerif.C02
