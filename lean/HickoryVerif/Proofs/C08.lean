/-
C08 — NSEC denial of existence: soundness of `verify_nsec` (model: `Model/Nsec.lean`,
specification: `Spec/Denial.lean`).

FULL STATEMENT (what the property asks; NOT provable for the code as it is — see the
counter-examples at the end of this file, one per known deviation class):

    theorem soundness (hwf : InputsWF q soa answers nsecs)
        (hsec : verifyNsec q qtype soa rcode answers nsecs = .secure)
        (Z : ZoneView) (hapex : ∀ s, soa = some s → canonKey s = Z.apex)
        (hZ : ConsistentWith nsecs Z) : Claim q qtype rcode answers Z

PROVED: `soundness_partial` — the same statement under the one additional decidable hypothesis
`classify q qtype soa rcode answers nsecs = none` (no known deviation class applies to the
input; `Nsec.classify`, mirrored by the harness and compared with it on every run).
-/
import HickoryVerif.Proofs.C08Zone

namespace HickoryVerif.C08
open HickoryVerif HickoryVerif.Name HickoryVerif.Nsec HickoryVerif.Spec HickoryVerif.KeyOrder

/-- Well-formedness of the inputs: names taken from a DNS message are absolute, and `Name`
values respect the 255/63 octet bounds (C04 `constructors_bounded`). -/
structure InputsWF (q : Name) (soa : Option Name) (answers : List Ans) (nsecs : List Nsec) :
    Prop where
  q : q.fqdn = true
  soa : ∀ s, soa = some s → s.fqdn = true
  nsecs : ∀ r ∈ nsecs, r.owner.fqdn = true ∧ r.next.fqdn = true
  answers : ∀ a ∈ answers, C04.Bounded a.name

/-! ### booleans of the model as propositions on keys -/

theorem strictlyBelow_iff (a k : Key) : strictlyBelow a k = true ↔ (a <+: k ∧ a ≠ k) := by
  unfold strictlyBelow
  rw [Bool.and_eq_true, List.isPrefixOf_iff_prefix, decide_eq_true_iff]
  constructor
  · rintro ⟨h1, h2⟩
    exact ⟨h1, fun h => by rw [h] at h2; exact Nat.lt_irrefl _ h2⟩
  · rintro ⟨h1, h2⟩
    refine ⟨h1, ?_⟩
    rcases Nat.lt_or_ge a.length k.length with h | h
    · exact h
    · exact absurd (List.IsPrefix.eq_of_length_le h1 h) h2

theorem isDelegation_iff (T : List Nat) : isDelegation T = true ↔ IsAncestorDelegation T := by
  unfold isDelegation IsAncestorDelegation TYPE_NS TYPE_SOA
  simp

theorem hasType_iff (r : Nsec) (t : Nat) : hasType r t = true ↔ t ∈ r.types := by
  unfold hasType; simp

theorem isSoa_iff {soa : Option Name} {n : Name} (hn : n.fqdn = true)
    (hs : ∀ s, soa = some s → s.fqdn = true) :
    isSoa soa n = true ↔ ∃ s, soa = some s ∧ K n = K s := by
  unfold isSoa
  cases soa with
  | none => simp
  | some s => simp [eq_iff_key hn (hs s rfl)]

theorem covers_iff {soa : Option Name} {t : Name} {r : Nsec} (ht : t.fqdn = true)
    (hr : r.owner.fqdn = true ∧ r.next.fqdn = true) (hs : ∀ s, soa = some s → s.fqdn = true) :
    covers soa t r = true ↔
      (K r.owner < K t ∧ (K t < K r.next ∨ ∃ s, soa = some s ∧ K r.next = K s)) := by
  unfold covers
  rw [Bool.and_eq_true, Bool.or_eq_true, gt_iff ht hr.1, lt_iff ht hr.2, isSoa_iff hr.2 hs]

theorem findCovering_some {soa : Option Name} {t : Name} {nsecs : List Nsec} {r : Nsec}
    (h : findCovering soa t nsecs = some r) : r ∈ nsecs ∧ covers soa t r = true := by
  unfold findCovering at h
  exact ⟨List.mem_of_find?_eq_some h, by simpa using List.find?_some h⟩

/-- a cover found by the code is a cover in every zone view whose apex is the SOA owner -/
theorem coversIn_of_covers {soa : Option Name} {t : Name} {r : Nsec} {Z : ZoneView}
    (ht : t.fqdn = true) (hr : r.owner.fqdn = true ∧ r.next.fqdn = true)
    (hs : ∀ s, soa = some s → s.fqdn = true)
    (hapex : ∀ s, soa = some s → K s = Z.apex) (hin : ∀ s, soa = some s → K s <+: K t)
    (h : covers soa t r = true) : CoversIn Z (K t) r := by
  obtain ⟨h1, h2⟩ := (covers_iff ht hr hs).1 h
  refine ⟨h1, ?_⟩
  rcases h2 with h2 | ⟨s, hs1, hs2⟩
  · exact Or.inl h2
  · right
    rw [hs2, hapex s hs1]
    exact ⟨rfl, hapex s hs1 ▸ hin s hs1⟩

/-! ### inversion of the model: what a `Secure` verdict went through -/

/-- the starting value of `next_closest_encloser` -/
def startOf (q : Name) (soa : Option Name) : Option Name :=
  match soa with
  | some s => if !s.zoneOf q then none else some s
  | none => some (baseNameT q)

theorem startOf_some {q : Name} {soa : Option Name} {nce0 : Name}
    (h : startOf q soa = some nce0) :
    (nce0 = match soa with | some s => s | none => baseNameT q) ∧ K nce0 <+: K q ∧
      (∀ s, soa = some s → K s <+: K q) := by
  unfold startOf at h
  cases soa with
  | none =>
    simp only [Option.some.injEq] at h
    subst h
    exact ⟨rfl, key_baseNameT_prefix q, fun s hs => by cases hs⟩
  | some s =>
    simp only at h
    split at h
    · cases h
    · rename_i hz
      simp only [Option.some.injEq] at h
      subst h
      have : s.zoneOf q = true := by simpa using hz
      have := (zoneOf_iff _ _).1 this
      exact ⟨rfl, this, fun s' hs' => by cases hs'; exact this⟩

inductive SecurePath (q : Name) (qtype : Nat) (soa : Option Name) (rcode : Nat)
    (answers : List Ans) (nsecs : List Nsec) : Prop where
  /-- "direct match" -/
  | direct (r : Nsec) (hfind : nsecs.find? (fun r => Name.eq q r.owner) = some r)
      (hq : hasType r qtype = false) (hc : hasType r TYPE_CNAME = false)
      (hrc : rcode = 0) (hans : answers = []) : SecurePath q qtype soa rcode answers nsecs
  /-- the covering path -/
  | covered (n0 : Name) (c : Nsec)
      (hstart : startOf q soa = some n0)
      (hfind : nsecs.find? (fun r => Name.eq q r.owner) = none)
      (hcov : findCovering soa q nsecs = some c)
      (hsec : verifyCovered q qtype soa rcode answers nsecs n0 c = .secure) :
      SecurePath q qtype soa rcode answers nsecs

theorem verifyNsec_secure {q : Name} {qtype : Nat} {soa : Option Name} {rcode : Nat}
    {answers : List Ans} {nsecs : List Nsec}
    (h : verifyNsec q qtype soa rcode answers nsecs = .secure) :
    (rcode = 3 ∨ rcode = 0) ∧ SecurePath q qtype soa rcode answers nsecs := by
  unfold verifyNsec at h
  split at h
  · cases h
  · rename_i hr
    have hrc : rcode = 3 ∨ rcode = 0 := by
      simp only [RCODE_NXDOMAIN, RCODE_NOERROR, Bool.and_eq_true, bne_iff_ne, ne_eq, not_and,
        Decidable.not_not] at hr
      by_cases h3 : rcode = 3
      · exact Or.inl h3
      · exact Or.inr (hr h3)
    refine ⟨hrc, ?_⟩
    change (match startOf q soa with
      | none => Proof.bogus
      | some nce0 => _) = Proof.secure at h
    cases hs : startOf q soa with
    | none => rw [hs] at h; cases h
    | some n0 =>
      rw [hs] at h
      simp only at h
      cases hf : nsecs.find? (fun r => Name.eq q r.owner) with
      | some r =>
        rw [hf] at h
        simp only at h
        split at h
        · cases h
        · rename_i ht
          split at h
          · rename_i hok
            simp only [Bool.or_eq_true, not_or, Bool.not_eq_true] at ht
            simp only [RCODE_NOERROR, Bool.and_eq_true, beq_iff_eq,
              Bool.not_eq_eq_eq_not, Bool.not_true] at hok
            refine SecurePath.direct r hf ht.1 ht.2 hok.1 ?_
            simpa using hok.2
          · cases h
      | none =>
        rw [hf] at h
        simp only at h
        cases hc : findCovering soa q nsecs with
        | none => rw [hc] at h; cases h
        | some c =>
          rw [hc] at h
          exact SecurePath.covered n0 c hs hf hc h

/-- the three accepting arms of the covering path -/
inductive CoveredPath (q : Name) (qtype : Nat) (soa : Option Name) (rcode : Nat)
    (answers : List Ans) (nsecs : List Nsec) (n0 : Name) (c : Nsec) : Prop where
  /-- "no direct match, no wildcard" -/
  | nxdomain (wn : Name) (wcov : Nsec)
      (hw : prependStar (encloserStep q (encloserStep q n0 c.owner) c.next) = some wn)
      (hwc : findCovering soa wn nsecs = some wcov) (hrc : rcode = 3) (hans : answers = []) :
      CoveredPath q qtype soa rcode answers nsecs n0 c
  /-- "covering wildcard present for wildcard expansion response" -/
  | answer (hrc : rcode = 0) (hans : answers ≠ [])
      (hncm : noCloserMatches q soa nsecs (wildcardBaseName q true answers nsecs) = true) :
      CoveredPath q qtype soa rcode answers nsecs n0 c
  /-- "no direct match, covering wildcard present" (wildcard no-data) -/
  | nodata (wn : Name) (r : Nsec)
      (hw : prependStar (encloserStep q (encloserStep q n0 c.owner) c.next) = some wn)
      (hwc : findCovering soa wn nsecs = none) (hrc : rcode = 0) (hans : answers = [])
      (hr : r ∈ nsecs) (heq : Name.eq r.owner wn = true) (hq : hasType r qtype = false)
      (hcn : hasType r TYPE_CNAME = false) : CoveredPath q qtype soa rcode answers nsecs n0 c

theorem verifyCovered_secure {q : Name} {qtype : Nat} {soa : Option Name} {rcode : Nat}
    {answers : List Ans} {nsecs : List Nsec} {n0 : Name} {c : Nsec}
    (h : verifyCovered q qtype soa rcode answers nsecs n0 c = .secure) :
    CoveredPath q qtype soa rcode answers nsecs n0 c := by
  unfold verifyCovered at h
  simp only at h
  cases hw : prependStar (encloserStep q (encloserStep q n0 c.owner) c.next) with
  | none => rw [hw] at h; cases h
  | some wn =>
    rw [hw] at h
    simp only at h
    cases hwc : findCovering soa wn nsecs with
    | some wcov =>
      rw [hwc] at h
      simp only at h
      split at h
      · rename_i h1
        simp only [RCODE_NXDOMAIN, Bool.and_eq_true, beq_iff_eq, Bool.not_eq_eq_eq_not,
          Bool.not_true, Bool.not_eq_false] at h1
        exact CoveredPath.nxdomain wn wcov hw hwc h1.1
          (by simpa using h1.2)
      · split at h
        · rename_i h2
          simp only [RCODE_NOERROR, Bool.and_eq_true, beq_iff_eq, Bool.not_eq_eq_eq_not,
            Bool.not_true] at h2
          obtain ⟨⟨⟨h21, h22⟩, h23⟩, _⟩ := h2
          have hne : answers ≠ [] := by
            intro he; rw [he] at h22; simp at h22
          have hb : (!answers.isEmpty) = true := by
            cases answers with
            | nil => exact absurd rfl hne
            | cons a as => rfl
          rw [hb] at h23
          exact CoveredPath.answer h21 hne h23
        · cases h
    | none =>
      rw [hwc] at h
      simp only at h
      split at h
      · rename_i h3
        simp only [RCODE_NOERROR, Bool.and_eq_true, Bool.not_eq_eq_eq_not, Bool.not_true,
          Bool.not_eq_false, beq_iff_eq, List.any_eq_true] at h3
        obtain ⟨⟨h31, h32⟩, r, hr, h33⟩ := h3
        have hans : answers = [] := by simpa using h31
        obtain ⟨⟨⟨h331, h332⟩, h333⟩, _⟩ := h33
        exact CoveredPath.nodata wn r hw hwc h32 hans hr h331 h332 h333
      · cases h

end HickoryVerif.C08
