/-
C08 — NSEC denial of existence: soundness of `verify_nsec` (model: `Model/Nsec.lean`,
specification: `Spec/Denial.lean`).

FULL STATEMENT (what the property asks; NOT provable for the code as it is — see the
counter-examples at the end of this file, one per known deviation class):

    theorem soundness (hwf : InputsWF q soa answers nsecs)
        (hsec : verifyNsec q qtype soa rcode answers nsecs = .secure)
        (Z : ZoneView) (hapex : ∀ s, soa = some s → canonKey s = Z.apex)
        (hZ : ConsistentWith nsecs Z) : Claim q qtype rcode answers Z

That it is false is proved too: `C08Refute.lean` gives, for every deviation class, an input with
`Unsound …` (model answers `Secure`, a consistent zone view falsifies the claim).

COMPLETENESS (stated, not proved — there is no Lean model of the server side `nsec_zone` /
`closest_nsec` / `nsec_records` / `build_authoritative_response`):

    ∀ Z signed, ∀ q qtype, verifyNsec q qtype (soaOf (serverResponse Z q qtype)) … = .secure

It is validated end to end by the harness on the real code (signed `InMemoryZoneHandler` →
`Catalog` → `DnssecDnsHandle`) and does NOT hold either: seven classes of server-generated
proofs are rejected (known-findings C08-G1 … C08-G7).

PROVED: `soundness_partial` — the same statement under the one additional decidable hypothesis
`classify q qtype soa rcode answers nsecs = none` (no known deviation class applies to the
input; `Nsec.classify`, mirrored by the harness and compared with it on every run).
-/
import HickoryVerif.Proofs.C08Zone

namespace HickoryVerif.C08
open HickoryVerif HickoryVerif.Name HickoryVerif.Nsec HickoryVerif.Spec HickoryVerif.KeyOrder

/-- Well-formedness of the inputs: names taken from a DNS message are absolute, and `Name`
values respect the 255/63 octet bounds (C04 `constructors_bounded`). -/
structure InputsWF (q : Name) (soa : Option Name) (answers : List Ans) (nsecs : List Nsec) :
    Prop where
  q : q.fqdn = true
  soa : ∀ s, soa = some s → s.fqdn = true
  nsecs : ∀ r ∈ nsecs, r.owner.fqdn = true ∧ r.next.fqdn = true
  answers : ∀ a ∈ answers, C04.Bounded a.name

/-! ### booleans of the model as propositions on keys -/

theorem strictlyBelow_iff (a k : Key) : strictlyBelow a k = true ↔ (a <+: k ∧ a ≠ k) := by
  unfold strictlyBelow
  rw [Bool.and_eq_true, List.isPrefixOf_iff_prefix, decide_eq_true_iff]
  constructor
  · rintro ⟨h1, h2⟩
    exact ⟨h1, fun h => by rw [h] at h2; exact Nat.lt_irrefl _ h2⟩
  · rintro ⟨h1, h2⟩
    refine ⟨h1, ?_⟩
    rcases Nat.lt_or_ge a.length k.length with h | h
    · exact h
    · exact absurd (List.IsPrefix.eq_of_length_le h1 h) h2

theorem isDelegation_iff (T : List Nat) : isDelegation T = true ↔ IsAncestorDelegation T := by
  unfold isDelegation IsAncestorDelegation TYPE_NS TYPE_SOA
  simp

theorem hasType_iff (r : Nsec) (t : Nat) : hasType r t = true ↔ t ∈ r.types := by
  unfold hasType; simp

theorem isSoa_iff {soa : Option Name} {n : Name} (hn : n.fqdn = true)
    (hs : ∀ s, soa = some s → s.fqdn = true) :
    isSoa soa n = true ↔ ∃ s, soa = some s ∧ K n = K s := by
  unfold isSoa
  cases soa with
  | none => simp
  | some s => simp [eq_iff_key hn (hs s rfl)]

theorem covers_iff {soa : Option Name} {t : Name} {r : Nsec} (ht : t.fqdn = true)
    (hr : r.owner.fqdn = true ∧ r.next.fqdn = true) (hs : ∀ s, soa = some s → s.fqdn = true) :
    covers soa t r = true ↔
      (K r.owner < K t ∧ (K t < K r.next ∨ ∃ s, soa = some s ∧ K r.next = K s)) := by
  unfold covers
  rw [Bool.and_eq_true, Bool.or_eq_true, gt_iff ht hr.1, lt_iff ht hr.2, isSoa_iff hr.2 hs]

theorem findCovering_some {soa : Option Name} {t : Name} {nsecs : List Nsec} {r : Nsec}
    (h : findCovering soa t nsecs = some r) : r ∈ nsecs ∧ covers soa t r = true := by
  unfold findCovering at h
  exact ⟨List.mem_of_find?_eq_some h, by simpa using List.find?_some h⟩

/-- a cover found by the code is a cover in every zone view whose apex is the SOA owner -/
theorem coversIn_of_covers {soa : Option Name} {t : Name} {r : Nsec} {Z : ZoneView}
    (ht : t.fqdn = true) (hr : r.owner.fqdn = true ∧ r.next.fqdn = true)
    (hs : ∀ s, soa = some s → s.fqdn = true)
    (hapex : ∀ s, soa = some s → K s = Z.apex) (hin : ∀ s, soa = some s → K s <+: K t)
    (h : covers soa t r = true) : CoversIn Z (K t) r := by
  obtain ⟨h1, h2⟩ := (covers_iff ht hr hs).1 h
  refine ⟨h1, ?_⟩
  rcases h2 with h2 | ⟨s, hs1, hs2⟩
  · exact Or.inl h2
  · right
    rw [hs2, hapex s hs1]
    exact ⟨rfl, hapex s hs1 ▸ hin s hs1⟩

/-! ### inversion of the model: what a `Secure` verdict went through -/

/-- the starting value of `next_closest_encloser` -/
def startOf (q : Name) (soa : Option Name) : Option Name :=
  match soa with
  | some s => if !s.zoneOf q then none else some s
  | none => some (baseNameT q)

theorem startOf_some {q : Name} {soa : Option Name} {nce0 : Name}
    (h : startOf q soa = some nce0) :
    nce0 = startName q soa ∧ K nce0 <+: K q ∧
      (∀ s, soa = some s → K s <+: K q) := by
  unfold startOf at h
  cases soa with
  | none =>
    simp only [Option.some.injEq] at h
    subst h
    exact ⟨rfl, key_baseNameT_prefix q, fun s hs => by cases hs⟩
  | some s =>
    simp only at h
    split at h
    · cases h
    · rename_i hz
      simp only [Option.some.injEq] at h
      subst h
      have : s.zoneOf q = true := by simpa using hz
      have := (zoneOf_iff _ _).1 this
      exact ⟨rfl, this, fun s' hs' => by cases hs'; exact this⟩

inductive SecurePath (q : Name) (qtype : Nat) (soa : Option Name) (rcode : Nat)
    (answers : List Ans) (nsecs : List Nsec) : Prop where
  /-- "direct match" -/
  | direct (r : Nsec) (hfind : nsecs.find? (fun r => Name.eq q r.owner) = some r)
      (hq : hasType r qtype = false) (hc : hasType r TYPE_CNAME = false)
      (hrc : rcode = 0) (hans : answers = []) : SecurePath q qtype soa rcode answers nsecs
  /-- the covering path -/
  | covered (n0 : Name) (c : Nsec)
      (hstart : startOf q soa = some n0)
      (hfind : nsecs.find? (fun r => Name.eq q r.owner) = none)
      (hcov : findCovering soa q nsecs = some c)
      (hsec : verifyCovered q qtype soa rcode answers nsecs n0 c = .secure) :
      SecurePath q qtype soa rcode answers nsecs

theorem verifyNsec_secure {q : Name} {qtype : Nat} {soa : Option Name} {rcode : Nat}
    {answers : List Ans} {nsecs : List Nsec}
    (h : verifyNsec q qtype soa rcode answers nsecs = .secure) :
    (rcode = 3 ∨ rcode = 0) ∧ SecurePath q qtype soa rcode answers nsecs := by
  unfold verifyNsec at h
  split at h
  · cases h
  · rename_i hr
    have hrc : rcode = 3 ∨ rcode = 0 := by
      simp only [RCODE_NXDOMAIN, RCODE_NOERROR, Bool.and_eq_true, bne_iff_ne, ne_eq, not_and,
        Decidable.not_not] at hr
      by_cases h3 : rcode = 3
      · exact Or.inl h3
      · exact Or.inr (hr h3)
    refine ⟨hrc, ?_⟩
    change (match startOf q soa with
      | none => Proof.bogus
      | some nce0 => _) = Proof.secure at h
    cases hs : startOf q soa with
    | none => rw [hs] at h; cases h
    | some n0 =>
      rw [hs] at h
      simp only at h
      cases hf : nsecs.find? (fun r => Name.eq q r.owner) with
      | some r =>
        rw [hf] at h
        simp only at h
        split at h
        · cases h
        · rename_i ht
          split at h
          · rename_i hok
            simp only [Bool.or_eq_true, not_or, Bool.not_eq_true] at ht
            simp only [RCODE_NOERROR, Bool.and_eq_true, beq_iff_eq,
              Bool.not_eq_eq_eq_not, Bool.not_true] at hok
            refine SecurePath.direct r hf ht.1 ht.2 hok.1 ?_
            simpa using hok.2
          · cases h
      | none =>
        rw [hf] at h
        simp only at h
        cases hc : findCovering soa q nsecs with
        | none => rw [hc] at h; cases h
        | some c =>
          rw [hc] at h
          exact SecurePath.covered n0 c hs hf hc h

/-- the three accepting arms of the covering path -/
inductive CoveredPath (q : Name) (qtype : Nat) (soa : Option Name) (rcode : Nat)
    (answers : List Ans) (nsecs : List Nsec) (n0 : Name) (c : Nsec) : Prop where
  /-- "no direct match, no wildcard" -/
  | nxdomain (wn : Name) (wcov : Nsec)
      (hw : prependStar (encloserStep q (encloserStep q n0 c.owner) c.next) = some wn)
      (hwc : findCovering soa wn nsecs = some wcov) (hrc : rcode = 3) (hans : answers = []) :
      CoveredPath q qtype soa rcode answers nsecs n0 c
  /-- "covering wildcard present for wildcard expansion response" -/
  | answer (hrc : rcode = 0) (hans : answers ≠ [])
      (hncm : noCloserMatches q soa nsecs (wildcardBaseName q true answers nsecs) = true) :
      CoveredPath q qtype soa rcode answers nsecs n0 c
  /-- "no direct match, covering wildcard present" (wildcard no-data) -/
  | nodata (wn : Name) (r : Nsec)
      (hw : prependStar (encloserStep q (encloserStep q n0 c.owner) c.next) = some wn)
      (hwc : findCovering soa wn nsecs = none) (hrc : rcode = 0) (hans : answers = [])
      (hr : r ∈ nsecs) (heq : Name.eq r.owner wn = true) (hq : hasType r qtype = false)
      (hcn : hasType r TYPE_CNAME = false) : CoveredPath q qtype soa rcode answers nsecs n0 c

theorem verifyCovered_secure {q : Name} {qtype : Nat} {soa : Option Name} {rcode : Nat}
    {answers : List Ans} {nsecs : List Nsec} {n0 : Name} {c : Nsec}
    (h : verifyCovered q qtype soa rcode answers nsecs n0 c = .secure) :
    CoveredPath q qtype soa rcode answers nsecs n0 c := by
  unfold verifyCovered at h
  simp only at h
  cases hw : prependStar (encloserStep q (encloserStep q n0 c.owner) c.next) with
  | none => rw [hw] at h; cases h
  | some wn =>
    rw [hw] at h
    simp only at h
    cases hwc : findCovering soa wn nsecs with
    | some wcov =>
      rw [hwc] at h
      simp only at h
      split at h
      · rename_i h1
        simp only [RCODE_NXDOMAIN, Bool.and_eq_true, beq_iff_eq, Bool.not_eq_eq_eq_not,
          Bool.not_true, Bool.not_eq_false] at h1
        exact CoveredPath.nxdomain wn wcov hw hwc h1.1
          (by simpa using h1.2)
      · split at h
        · rename_i h2
          simp only [RCODE_NOERROR, Bool.and_eq_true, beq_iff_eq, Bool.not_eq_eq_eq_not,
            Bool.not_true] at h2
          obtain ⟨⟨⟨h21, h22⟩, h23⟩, _⟩ := h2
          have hne : answers ≠ [] := by
            intro he; rw [he] at h22; simp at h22
          have hb : (!answers.isEmpty) = true := by
            cases answers with
            | nil => exact absurd rfl hne
            | cons a as => rfl
          rw [hb] at h23
          exact CoveredPath.answer h21 hne h23
        · cases h
    | none =>
      rw [hwc] at h
      simp only at h
      split at h
      · rename_i h3
        simp only [RCODE_NOERROR, Bool.and_eq_true, Bool.not_eq_eq_eq_not, Bool.not_true,
          Bool.not_eq_false, beq_iff_eq, List.any_eq_true] at h3
        obtain ⟨⟨h31, h32⟩, r, hr, h33⟩ := h3
        have hans : answers = [] := by simpa using h31
        obtain ⟨⟨⟨h331, h332⟩, h333⟩, _⟩ := h33
        exact CoveredPath.nodata wn r hw hwc h32 hans hr h331 h332 h333
      · cases h

/-! ### inversion of `classify = none` -/

theorem gate_false {rcode : Nat} (h : rcode = 3 ∨ rcode = 0) :
    (rcode != RCODE_NXDOMAIN && rcode != RCODE_NOERROR) = false := by
  rcases h with rfl | rfl <;> decide

theorem classify_direct {q : Name} {qtype : Nat} {soa : Option Name} {rcode : Nat}
    {answers : List Ans} {nsecs : List Nsec} {r : Nsec} (hrc : rcode = 3 ∨ rcode = 0)
    (hf : nsecs.find? (fun r => Name.eq q r.owner) = some r)
    (hcls : classify q qtype soa rcode answers nsecs = none) :
    (IsAncestorDelegation r.types → qtype = 43) ∧ qtype ≠ 46 ∧ qtype ≠ 47 := by
  unfold classify at hcls
  rw [gate_false hrc, hf] at hcls
  simp only [Bool.false_eq_true, if_false] at hcls
  split at hcls
  · cases hcls
  · rename_i h1
    split at hcls
    · cases hcls
    · rename_i h2
      simp only [TYPE_DS, Bool.and_eq_true, bne_iff_ne, ne_eq, not_and, Decidable.not_not,
        isDelegation_iff] at h1
      simp only [TYPE_RRSIG, TYPE_NSEC, Bool.or_eq_true, beq_iff_eq, not_or] at h2
      exact ⟨h1, h2.1, h2.2⟩

theorem classify_covered {q : Name} {qtype : Nat} {soa : Option Name} {rcode : Nat}
    {answers : List Ans} {nsecs : List Nsec} {c : Nsec} (hrc : rcode = 3 ∨ rcode = 0)
    (hf : nsecs.find? (fun r => Name.eq q r.owner) = none)
    (hc : findCovering soa q nsecs = some c)
    (hcls : classify q qtype soa rcode answers nsecs = none) :
    classifyCovered q qtype soa rcode answers nsecs c = none := by
  unfold classify at hcls
  rw [gate_false hrc, hf, hc] at hcls
  simpa using hcls

theorem codeEncloser_eq {q : Name} {soa : Option Name} {c : Nsec} {n0 : Name}
    (hn0 : n0 = startName q soa) :
    codeEncloser q soa c = encloserStep q (encloserStep q n0 c.owner) c.next := by
  unfold codeEncloser; rw [hn0]; rfl

/-- first check of `classifyCovered`: the covering record is not an ancestor-delegation record
above the query name -/
theorem classifyCovered_deleg {q : Name} {qtype : Nat} {soa : Option Name} {rcode : Nat}
    {answers : List Ans} {nsecs : List Nsec} {c : Nsec}
    (hcls : classifyCovered q qtype soa rcode answers nsecs c = none) :
    ¬ (IsAncestorDelegation c.types ∧ K c.owner <+: K q ∧ K c.owner ≠ K q) := by
  unfold classifyCovered at hcls
  simp only at hcls
  split at hcls
  · cases hcls
  · rename_i h1
    simp only [Bool.and_eq_true, isDelegation_iff, strictlyBelow_iff, nkey_eq] at h1
    exact h1

theorem classifyCovered_answers {q : Name} {qtype : Nat} {soa : Option Name} {rcode : Nat}
    {answers : List Ans} {nsecs : List Nsec} {c : Nsec} (hans : answers ≠ [])
    (hcls : classifyCovered q qtype soa rcode answers nsecs c = none) :
    ∀ wbn, wildcardBaseName q true answers nsecs = some wbn →
      max (lcpLen (K q) (K c.owner)) (lcpLen (K q) (K c.next)) ≤ wbn.numLabels := by
  unfold classifyCovered at hcls
  simp only at hcls
  split at hcls
  · cases hcls
  · have hb : (!answers.isEmpty) = true := by
      cases answers with
      | nil => exact absurd rfl hans
      | cons a as => rfl
    rw [if_pos hb] at hcls
    split at hcls
    · cases hcls
    · intro wbn hw
      rw [hw] at hcls
      simp only at hcls
      split at hcls
      · cases hcls
      · rename_i h3
        simp only [nkey_eq] at h3
        omega

/-- the negative-response part of `classifyCovered = none` -/
theorem classifyCovered_negative {q : Name} {qtype : Nat} {soa : Option Name} {rcode : Nat}
    {answers : List Ans} {nsecs : List Nsec} {c : Nsec} {w : Name} (hans : answers = [])
    (hw : prependStar (codeEncloser q soa c) = some w)
    (hcls : classifyCovered q qtype soa rcode answers nsecs c = none) :
    ¬ (soa = none ∧ K (codeEncloser q soa c) = K (baseNameT q) ∧
        ¬ K (codeEncloser q soa c) <+: K c.owner ∧ ¬ K (codeEncloser q soa c) <+: K c.next) ∧
    (rcode = 3 →
      ¬ (K q <+: K c.next ∧ K q ≠ K c.next) ∧
      ∀ wc, findCovering soa w nsecs = some wc →
        ¬ (IsAncestorDelegation wc.types ∧ K wc.owner <+: K w ∧ K wc.owner ≠ K w) ∧
        ¬ (K w <+: K wc.next ∧ K w ≠ K wc.next)) ∧
    (rcode ≠ 3 → findCovering soa w nsecs = none →
      ¬ K w <+: K q ∧
      (qtype ≠ 43 → ∀ r ∈ nsecs, Name.eq r.owner w = true → ¬ IsAncestorDelegation r.types) ∧
      qtype ≠ 46 ∧ qtype ≠ 47) := by
  unfold classifyCovered at hcls
  simp only at hcls
  split at hcls
  · cases hcls
  · have hb : (!answers.isEmpty) = false := by rw [hans]; rfl
    rw [if_neg (by rw [hb]; simp)] at hcls
    split at hcls
    · cases hcls
    · rename_i h2
      rw [hw] at hcls
      simp only at hcls
      refine ⟨?_, ?_, ?_⟩
      · simp only [Bool.and_eq_true, Option.isNone_iff_eq_none, beq_iff_eq, Bool.not_eq_eq_eq_not,
          Bool.not_true, nkey_eq] at h2
        intro ⟨a1, a2, a3, a4⟩
        have b3 : (K (codeEncloser q soa c)).isPrefixOf (K c.owner) = false := by
          rw [Bool.eq_false_iff]; intro hh; exact a3 (List.isPrefixOf_iff_prefix.1 hh)
        have b4 : (K (codeEncloser q soa c)).isPrefixOf (K c.next) = false := by
          rw [Bool.eq_false_iff]; intro hh; exact a4 (List.isPrefixOf_iff_prefix.1 hh)
        exact h2 ⟨⟨⟨a1, a2⟩, b3⟩, b4⟩
      · intro hrc
        rw [if_pos (by rw [hrc]; rfl)] at hcls
        split at hcls
        · cases hcls
        · rename_i h3
          simp only [strictlyBelow_iff, nkey_eq] at h3
          refine ⟨h3, ?_⟩
          intro wc hwc
          rw [hwc] at hcls
          simp only at hcls
          split at hcls
          · cases hcls
          · rename_i h4
            split at hcls
            · cases hcls
            · rename_i h5
              simp only [Bool.and_eq_true, isDelegation_iff, strictlyBelow_iff, nkey_eq] at h4 h5
              exact ⟨h4, h5⟩
      · intro hrc hwc
        rw [if_neg (by simpa [RCODE_NXDOMAIN] using hrc), hwc] at hcls
        simp only at hcls
        split at hcls
        · cases hcls
        · rename_i h6
          split at hcls
          · cases hcls
          · rename_i h7
            split at hcls
            · cases hcls
            · rename_i h8
              simp only [nkey_eq, List.isPrefixOf_iff_prefix] at h6
              simp only [TYPE_DS, Bool.and_eq_true, bne_iff_ne, ne_eq, List.any_eq_true,
                isDelegation_iff, not_and, not_exists] at h7
              simp only [TYPE_RRSIG, TYPE_NSEC, Bool.or_eq_true, beq_iff_eq, not_or] at h8
              exact ⟨h6, fun hq r hr he hd => h7 hq r hr he hd, h8.1, h8.2⟩

/-! ### the accepting arms -/

/-- a record without the type in its bitmap: the type is absent at the owner — as far as the
record may be trusted (RFC 6840 §4.1, RFC 4035 §5.4 bits) -/
theorem no_type_of_link {Z : ZoneView} {r : Nsec} {qtype : Nat} (hl : LinkOf Z r)
    (hq : hasType r qtype = false) (hdel : IsAncestorDelegation r.types → qtype = 43)
    (h46 : qtype ≠ 46) (h47 : qtype ≠ 47) : ¬ Z.data (K r.owner) qtype := by
  obtain ⟨_, _, _, _, htypes, _⟩ := hl
  have hnot : qtype ∉ r.types := by
    intro hmem
    rw [(hasType_iff r qtype).2 hmem] at hq
    cases hq
  by_cases hd : IsAncestorDelegation r.types
  · rw [if_pos hd] at htypes
    have := hdel hd
    subst this
    exact fun h => hnot (htypes.2.2 h)
  · rw [if_neg hd] at htypes
    exact fun h => hnot ((htypes qtype h46 h47).2 h)

theorem claim_nodata_iff {q : Name} {qtype : Nat} {Z : ZoneView} :
    Claim q qtype 0 [] Z ↔ (¬ Z.data (K q) qtype ∧
      (¬ Z.Exists (K q) → ∀ c, Z.ClosestEncloser c (K q) → ¬ Z.data (c ++ [Spec.STAR]) qtype)) := by
  unfold Claim; simp

theorem claim_nxdomain_iff {q : Name} {qtype : Nat} {answers : List Ans} {Z : ZoneView} :
    Claim q qtype 3 answers Z ↔ (¬ Z.Exists (K q) ∧
      ∀ c, Z.ClosestEncloser c (K q) → ¬ Z.Exists (c ++ [Spec.STAR])) := by
  unfold Claim; simp

theorem claim_answer_iff {q : Name} {qtype : Nat} {answers : List Ans} {Z : ZoneView}
    (hans : answers ≠ []) :
    Claim q qtype 0 answers Z ↔ (∀ a ∈ answers, a.secure = true → ∀ l, a.rrsigLabels = some l →
      K a.name = K q → l < rfcLabels (K q) → ∀ p, p <+: K q → l < p.length → ¬ Z.Exists p) := by
  unfold Claim; simp [hans]

/-- "direct match": NODATA at the owner of a matching record -/
theorem sound_direct {q : Name} {qtype : Nat} {soa : Option Name} {nsecs : List Nsec}
    {r : Nsec} (hwf : InputsWF q soa [] nsecs)
    (hfind : nsecs.find? (fun r => Name.eq q r.owner) = some r)
    (hq : hasType r qtype = false)
    (hcl : (IsAncestorDelegation r.types → qtype = 43) ∧ qtype ≠ 46 ∧ qtype ≠ 47)
    (Z : ZoneView) (hZ : ConsistentWith nsecs Z) : Claim q qtype 0 [] Z := by
  have hr : r ∈ nsecs := List.mem_of_find?_eq_some hfind
  have heq : Name.eq q r.owner = true := by simpa using List.find?_some hfind
  have hk : K q = K r.owner := (eq_iff_key hwf.q (hwf.nsecs r hr).1).1 heq
  have hl := hZ r hr
  rw [claim_nodata_iff]
  refine ⟨?_, ?_⟩
  · rw [hk]; exact no_type_of_link hl hq hcl.1 hcl.2.1 hcl.2.2
  · intro hne
    exact absurd ⟨K r.owner, link_owner_data hl, by rw [hk]; exact List.prefix_refl _⟩ hne

/-- everything the covering path knows, in one place -/
structure CoverCtx (q : Name) (soa : Option Name) (nsecs : List Nsec) (c : Nsec)
    (Z : ZoneView) : Prop where
  qf : q.fqdn = true
  soaf : ∀ s, soa = some s → s.fqdn = true
  nf : ∀ r ∈ nsecs, r.owner.fqdn = true ∧ r.next.fqdn = true
  apex : ∀ s, soa = some s → K s = Z.apex
  hZ : ConsistentWith nsecs Z
  inzone : ∀ s, soa = some s → K s <+: K q
  cmem : c ∈ nsecs
  ccov : CoversIn Z (K q) c
  cdel : ¬ (IsAncestorDelegation c.types ∧ K c.owner <+: K q)

/-- the code's closest encloser exists in every consistent zone view -/
theorem encloser_exists {q : Name} {soa : Option Name} {nsecs : List Nsec} {c : Nsec}
    {Z : ZoneView} (ctx : CoverCtx q soa nsecs c Z) {n0 : Name}
    (hn0 : n0 = startName q soa)
    (hfrom : codeEncloser q soa c = n0 ∨ K (codeEncloser q soa c) <+: K c.owner ∨
      K (codeEncloser q soa c) <+: K c.next)
    (hnosoa : ¬ (soa = none ∧ K (codeEncloser q soa c) = K (baseNameT q) ∧
        ¬ K (codeEncloser q soa c) <+: K c.owner ∧ ¬ K (codeEncloser q soa c) <+: K c.next)) :
    Z.Exists (K (codeEncloser q soa c)) := by
  have hl := ctx.hZ c ctx.cmem
  rcases hfrom with h | h | h
  · have hso : (∃ s, soa = some s) ∨ soa = none := by cases soa <;> simp
    rcases hso with ⟨s, hs⟩ | hs
    · rw [hs] at hn0
      simp only [startName] at hn0
      rw [h, hn0, ctx.apex s hs]
      exact ⟨K c.owner, link_owner_data hl, hl.1⟩
    · rw [hs] at hn0
      simp only [startName] at hn0
      have hk : K (codeEncloser q soa c) = K (baseNameT q) := by rw [h, hn0]
      by_cases h1 : K (codeEncloser q soa c) <+: K c.owner
      · exact exists_of_prefix_link hl (Or.inl h1)
      · by_cases h2 : K (codeEncloser q soa c) <+: K c.next
        · exact exists_of_prefix_link hl (Or.inr h2)
        · exact absurd ⟨hs, hk, h1, h2⟩ hnosoa
  · exact exists_of_prefix_link hl (Or.inl h)
  · exact exists_of_prefix_link hl (Or.inr h)

/-- On the covering path the closest encloser of the (non-existent) query name in any
consistent zone view is the one the code computed — or `*.<that>` when this is an ancestor of
the query name. -/
theorem closest_encloser_eq {q : Name} {soa : Option Name} {nsecs : List Nsec} {c : Nsec}
    {Z : ZoneView} (ctx : CoverCtx q soa nsecs c Z) {n0 : Name}
    (hn0 : n0 = startName q soa) (h0 : K n0 <+: K q)
    (hex : Z.Exists (K (codeEncloser q soa c))) (hnq : ¬ Z.Exists (K q))
    {ce : Key} (hce : Z.ClosestEncloser ce (K q)) :
    ce = K (codeEncloser q soa c) ∨ ce = K (codeEncloser q soa c) ++ [Spec.STAR] := by
  obtain ⟨s1, _, _, _, s5⟩ := codeEncloser_spec (cov := c) hn0 h0
  obtain ⟨hc1, hc2, hc3, hc4⟩ := hce
  have hl := ctx.hZ c ctx.cmem
  have hne : K (codeEncloser q soa c) ≠ K q := fun h => hnq (h ▸ hex)
  have hge : (K (codeEncloser q soa c)).length ≤ ce.length := hc4 _ s1 hne hex
  rcases s5 ce (ancestor_of_cover hl ctx.ccov ctx.cdel hc1 hc3) hc1 with h | h
  · left
    have h1 : ce <+: K (codeEncloser q soa c) := List.prefix_of_prefix_length_le hc1 s1 h
    exact List.IsPrefix.eq_of_length_le h1 hge
  · exact Or.inr h

/-- "no direct match, no wildcard": NXDOMAIN -/
theorem sound_nxdomain {q : Name} {qtype : Nat} {soa : Option Name} {nsecs : List Nsec}
    {c : Nsec} {Z : ZoneView} (ctx : CoverCtx q soa nsecs c Z) {n0 w : Name} {wc : Nsec}
    (hn0 : n0 = startName q soa) (h0 : K n0 <+: K q)
    (hn0f : n0.fqdn = true)
    (hw : prependStar (codeEncloser q soa c) = some w)
    (hwc : findCovering soa w nsecs = some wc)
    (hnosoa : ¬ (soa = none ∧ K (codeEncloser q soa c) = K (baseNameT q) ∧
        ¬ K (codeEncloser q soa c) <+: K c.owner ∧ ¬ K (codeEncloser q soa c) <+: K c.next))
    (hent : ¬ (K q <+: K c.next ∧ K q ≠ K c.next))
    (hwdel : ¬ (IsAncestorDelegation wc.types ∧ K wc.owner <+: K w ∧ K wc.owner ≠ K w))
    (hwent : ¬ (K w <+: K wc.next ∧ K w ≠ K wc.next)) :
    Claim q qtype 3 [] Z := by
  obtain ⟨s1, s2, s3, s4, _⟩ := codeEncloser_spec (cov := c) hn0 h0
  have hcf := ctx.nf c ctx.cmem
  have hncef : (codeEncloser q soa c).fqdn = true := s4 hn0f hcf.1 hcf.2
  obtain ⟨hkw, hwf'⟩ := key_prependStar hw
  have hwfq : w.fqdn = true := by rw [hwf', hncef]
  obtain ⟨hwcm, hwcc⟩ := findCovering_some hwc
  have hwl := ctx.hZ wc hwcm
  -- the SOA owner is above the wildcard name
  have hinw : ∀ s, soa = some s → K s <+: K w := by
    intro s hs
    have : n0 = s := by rw [hn0, hs]; rfl
    have h1 : K s <+: K (codeEncloser q soa c) :=
      List.prefix_of_prefix_length_le (ctx.inzone s hs) s1 (this ▸ s2)
    rw [hkw]; exact List.IsPrefix.trans h1 (List.prefix_append _ _)
  have hwcov : CoversIn Z (K w) wc :=
    coversIn_of_covers hwfq (ctx.nf wc hwcm) ctx.soaf ctx.apex hinw hwcc
  have hnq : ¬ Z.Exists (K q) :=
    not_exists_of_cover (ctx.hZ c ctx.cmem) ctx.ccov hent ctx.cdel
  have hnw : ¬ Z.Exists (K w) := by
    apply not_exists_of_cover hwl hwcov hwent
    rintro ⟨hd, hp⟩
    refine hwdel ⟨hd, hp, ?_⟩
    intro he
    exact lt_irrefl _ (he ▸ hwcov.1)
  have hex := encloser_exists ctx hn0 (by
    rcases s3 with h | h | h
    · exact Or.inl h
    · exact Or.inr (Or.inl h)
    · exact Or.inr (Or.inr h)) hnosoa
  rw [claim_nxdomain_iff]
  refine ⟨hnq, ?_⟩
  intro ce hce
  rcases closest_encloser_eq ctx hn0 h0 hex hnq hce with h | h
  · rw [h, ← hkw]; exact hnw
  · exfalso
    rw [← hkw] at h
    exact hnw (h ▸ hce.2.2.1)

/-- "no direct match, covering wildcard present": wildcard NODATA -/
theorem sound_nodata {q : Name} {qtype : Nat} {soa : Option Name} {nsecs : List Nsec}
    {c : Nsec} {Z : ZoneView} (ctx : CoverCtx q soa nsecs c Z) {n0 w : Name} {r : Nsec}
    (hn0 : n0 = startName q soa) (h0 : K n0 <+: K q)
    (hn0f : n0.fqdn = true)
    (hw : prependStar (codeEncloser q soa c) = some w)
    (hr : r ∈ nsecs) (heq : Name.eq r.owner w = true) (hq : hasType r qtype = false)
    (hnosoa : ¬ (soa = none ∧ K (codeEncloser q soa c) = K (baseNameT q) ∧
        ¬ K (codeEncloser q soa c) <+: K c.owner ∧ ¬ K (codeEncloser q soa c) <+: K c.next))
    (hquirk : ¬ K w <+: K q)
    (hrdel : qtype ≠ 43 → ∀ r ∈ nsecs, Name.eq r.owner w = true → ¬ IsAncestorDelegation r.types)
    (h46 : qtype ≠ 46) (h47 : qtype ≠ 47) :
    Claim q qtype 0 [] Z := by
  obtain ⟨s1, s2, s3, s4, _⟩ := codeEncloser_spec (cov := c) hn0 h0
  have hcf := ctx.nf c ctx.cmem
  have hncef : (codeEncloser q soa c).fqdn = true := s4 hn0f hcf.1 hcf.2
  obtain ⟨hkw, hwf'⟩ := key_prependStar hw
  have hwfq : w.fqdn = true := by rw [hwf', hncef]
  have hkr : K r.owner = K w := (eq_iff_key (ctx.nf r hr).1 hwfq).1 heq
  have hrl := ctx.hZ r hr
  rw [claim_nodata_iff]
  refine ⟨fun hd => no_data_of_cover (ctx.hZ c ctx.cmem) ctx.ccov ctx.cdel ⟨qtype, hd⟩, ?_⟩
  intro hnq ce hce
  have hex := encloser_exists ctx hn0 (by
    rcases s3 with h | h | h
    · exact Or.inl h
    · exact Or.inr (Or.inl h)
    · exact Or.inr (Or.inr h)) hnosoa
  rcases closest_encloser_eq ctx hn0 h0 hex hnq hce with h | h
  · rw [h, ← hkw, ← hkr]
    apply no_type_of_link hrl hq _ h46 h47
    intro hd
    apply Classical.byContradiction
    intro hne
    exact hrdel hne r hr heq hd
  · exfalso
    rw [← hkw] at h
    exact hquirk (h ▸ hce.1)

theorem rfcLabels_append_star (k : Key) : rfcLabels (k ++ [Spec.STAR]) = k.length := by
  unfold rfcLabels; simp

/-- a candidate of `wildcard_base_name` is `*.<last l labels>` and has `l` labels -/
theorem rrsigCandidate_numLabels {q : Name} {a : Ans} {lm : Nat} {wm : Name}
    (h : rrsigCandidate q a = some (lm, wm)) : wm.numLabels = lm := by
  unfold rrsigCandidate at h
  split at h
  · cases h
  · split at h
    · cases h
    · rename_i l hl
      split at h
      · cases h
      · rename_i hlt
        simp only at h
        split at h
        · cases h
        · split at h
          · cases h
          · rename_i w hw
            simp only [Option.some.injEq, Prod.mk.injEq] at h
            obtain ⟨rfl, rfl⟩ := h
            simp only [ge_iff_le, Bool.or_eq_true, decide_eq_true_eq, not_or, Nat.not_le] at hlt
            have h1 : l < a.name.labels.length := by
              have := hlt.1
              rw [numLabels_eq] at this
              have h2 := rfcLabels_le (K a.name)
              rw [key_length] at h2
              omega
            rw [numLabels_eq, (key_prependStar hw).1, rfcLabels_append_star,
              key_trimToT (Nat.le_of_lt h1), List.length_take, key_length]
            omega

/-- "covering wildcard present for wildcard expansion response" -/
theorem sound_answer {q : Name} {qtype : Nat} {soa : Option Name} {answers : List Ans}
    {nsecs : List Nsec} {c : Nsec} {Z : ZoneView} (ctx : CoverCtx q soa nsecs c Z)
    (hans : answers ≠ []) (hwfa : ∀ a ∈ answers, C04.Bounded a.name)
    (hcl : ∀ wbn, wildcardBaseName q true answers nsecs = some wbn →
      max (lcpLen (K q) (K c.owner)) (lcpLen (K q) (K c.next)) ≤ wbn.numLabels) :
    Claim q qtype 0 answers Z := by
  rw [claim_answer_iff hans]
  intro a ha hsec l hl hka hlt p hp hlp hex
  have hlen : l < a.name.labels.length := by
    have h2 := rfcLabels_le (K a.name)
    rw [key_length] at h2
    rw [← hka] at hlt
    omega
  obtain ⟨w, hw⟩ := prependStar_ok (encodedLen_trimToT (hwfa a ha) hlen)
  have hcand : rrsigCandidate q a = some (l, w) := by
    unfold rrsigCandidate
    have h1 : ¬ (l ≥ a.name.numLabels) := by rw [numLabels_eq, hka]; omega
    have h2 : ¬ (l ≥ q.numLabels) := by rw [numLabels_eq]; omega
    have h3 : (trimToT a.name l).zoneOf q = true := by
      rw [zoneOf_iff, key_trimToT (Nat.le_of_lt hlen), hka]
      exact List.take_prefix _ _
    simp [hsec, hl, h1, h2, h3, hw]
  obtain ⟨y, hy, hym, hyle⟩ := minByKey_le (fun p : Nat × Name => p.1)
    (answers.filterMap (rrsigCandidate q)) (l, w) (List.mem_filterMap.2 ⟨a, ha, hcand⟩)
  have hwbn : wildcardBaseName q true answers nsecs = some y.2 := by
    unfold wildcardBaseName; simp [hy]
  obtain ⟨a', _, ha'⟩ := List.mem_filterMap.1 hym
  have hnum : y.2.numLabels = y.1 := rrsigCandidate_numLabels (a := a') (by rw [ha'])
  have hbound := hcl y.2 hwbn
  have hl' := ctx.hZ c ctx.cmem
  have hple : p.length ≤ max (lcpLen (K q) (K c.owner)) (lcpLen (K q) (K c.next)) := by
    rcases ancestor_of_cover hl' ctx.ccov ctx.cdel hp hex with h | h
    · have := length_le_lcpLen hp h; omega
    · have := length_le_lcpLen hp h; omega
  simp only at hyle
  omega

/-! ### the theorem -/

/-- **Soundness of NSEC denial of existence, for every input to which no known deviation class
applies.**  If `verify_nsec` answers `Secure`, then every zone view whose NSEC chain contains
the given records (and whose apex is the SOA owner, when the response carries one) satisfies
the response's claim: the name does not exist and no wildcard matches it (NXDOMAIN); the type
is absent at the name or at the matching wildcard (NODATA); nothing closer than the expanded
wildcard exists (wildcard answer).  All names, all record sets, all zone views. -/
theorem soundness_partial {q : Name} {qtype : Nat} {soa : Option Name} {rcode : Nat}
    {answers : List Ans} {nsecs : List Nsec}
    (hwf : InputsWF q soa answers nsecs)
    (hcls : classify q qtype soa rcode answers nsecs = none)
    (hsec : verifyNsec q qtype soa rcode answers nsecs = .secure)
    (Z : ZoneView) (hapex : ∀ s, soa = some s → canonKey s = Z.apex)
    (hZ : ConsistentWith nsecs Z) : Claim q qtype rcode answers Z := by
  obtain ⟨hrc, hpath⟩ := verifyNsec_secure hsec
  cases hpath with
  | direct r hfind hq hc hrc0 hans =>
    subst hrc0; subst hans
    exact sound_direct hwf hfind hq (classify_direct hrc hfind hcls) Z hZ
  | covered n0 c hstart hfind hcov hsec' =>
    obtain ⟨hn0, h0, hinz⟩ := startOf_some hstart
    obtain ⟨hcm, hcc⟩ := findCovering_some hcov
    have hcc' := classify_covered hrc hfind hcov hcls
    have hccov : CoversIn Z (K q) c :=
      coversIn_of_covers hwf.q (hwf.nsecs c hcm) hwf.soa hapex hinz hcc
    have ctx : CoverCtx q soa nsecs c Z :=
      { qf := hwf.q, soaf := hwf.soa, nf := hwf.nsecs, apex := hapex, hZ := hZ, inzone := hinz,
        cmem := hcm, ccov := hccov,
        cdel := fun ⟨hd, hp⟩ => classifyCovered_deleg hcc'
          ⟨hd, hp, fun he => lt_irrefl _ (he ▸ hccov.1)⟩ }
    have hn0f : n0.fqdn = true := by
      rw [hn0]; unfold startName
      cases soa with
      | some s => exact hwf.soa s rfl
      | none => exact baseNameT_fqdn hwf.q
    cases verifyCovered_secure hsec' with
    | nxdomain wn wcov hw hwc hrc3 hans =>
      subst hrc3; subst hans
      rw [← codeEncloser_eq hn0] at hw
      obtain ⟨k1, k2, _⟩ := classifyCovered_negative rfl hw hcc'
      obtain ⟨k21, k22⟩ := k2 rfl
      obtain ⟨k221, k222⟩ := k22 wcov hwc
      exact sound_nxdomain ctx hn0 h0 hn0f hw hwc k1 k21 k221 k222
    | answer hrc0 hans hncm =>
      subst hrc0
      exact sound_answer ctx hans hwf.answers (classifyCovered_answers hans hcc')
    | nodata wn r hw hwc hrc0 hans hr heq hq hcn =>
      subst hrc0; subst hans
      rw [← codeEncloser_eq hn0] at hw
      obtain ⟨k1, _, k3⟩ := classifyCovered_negative rfl hw hcc'
      obtain ⟨k31, k32, k33, k34⟩ := k3 (by decide) hwc
      exact sound_nodata ctx hn0 h0 hn0f hw hr heq hq k1 k31 k32 k33 k34

end HickoryVerif.C08
