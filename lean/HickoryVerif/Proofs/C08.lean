/-
C08 — NSEC denial of existence: SOUNDNESS of `verify_nsec` at full strength
(model: `Model/Nsec.lean`, the code with the six repairs of /repo aa6d1e8, 3224d1f, f7f02bc,
a5c3ba8, ced54a3, 4e1b3c6 and the three completeness repairs G1/G2/G4; specification: `Spec/Denial.lean`).

    theorem soundness (hwf : InputsWF q soa answers nsecs)
        (hsec : verifyNsec q qtype soa rcode answers nsecs = .secure)
        (Z : ZoneView) (hapex : ∀ s, soa = some s → canonKey s = Z.apex)
        (hZ : ConsistentWith nsecs Z) : Claim q qtype rcode answers Z

for all names, all NSEC record sets and all zone views; no hypothesis about the input beyond
well-formedness.  (Before the repairs only `soundness_partial` under `classify … = none` was
provable and nine `Unsound` instances refuted the full statement; their inputs are now the
regression theorems of `C08Cex.lean`.)

COMPLETENESS: proved in part in `C08Complete.lean` (validator level: NXDOMAIN, NODATA at an
empty non-terminal, NODATA at an existing owner) and `C08Server.lean` (`completeness_partial`,
through C10's model of `nsec_records`).  Not proved: wildcard answers and wildcard NODATA; the
latter is still rejected end to end (server side: open findings C08-G5, C08-G7).
-/
import HickoryVerif.Proofs.C08Zone

namespace HickoryVerif.C08
open HickoryVerif HickoryVerif.Name HickoryVerif.Nsec HickoryVerif.Spec HickoryVerif.KeyOrder

/-- Well-formedness of the inputs: names taken from a DNS message are absolute, and `Name`
values respect the 255/63 octet bounds (C04 `constructors_bounded`). -/
structure InputsWF (q : Name) (soa : Option Name) (answers : List Ans) (nsecs : List Nsec) :
    Prop where
  q : q.fqdn = true
  soa : ∀ s, soa = some s → s.fqdn = true
  nsecs : ∀ r ∈ nsecs, r.owner.fqdn = true ∧ r.next.fqdn = true
  answers : ∀ a ∈ answers, C04.Bounded a.name

/-! ### booleans of the model as propositions on keys -/

theorem isDelegation_iff (T : List Nat) : isDelegation T = true ↔ IsAncestorDelegation T := by
  unfold isDelegation IsAncestorDelegation TYPE_NS TYPE_SOA
  simp

theorem hasType_iff (r : Nsec) (t : Nat) : hasType r t = true ↔ t ∈ r.types := by
  unfold hasType; simp

theorem isSoa_iff {soa : Option Name} {n : Name} (hn : n.fqdn = true)
    (hs : ∀ s, soa = some s → s.fqdn = true) :
    isSoa soa n = true ↔ ∃ s, soa = some s ∧ K n = K s := by
  unfold isSoa
  cases soa with
  | none => simp
  | some s => simp [eq_iff_key hn (hs s rfl)]

/-- `is_strict_descendant(name, ancestor)` on keys -/
theorem isStrictDescendant_false {name anc : Name} (hn : name.fqdn = true) (ha : anc.fqdn = true)
    (h : isStrictDescendant name anc = false) : ¬ (K anc <+: K name ∧ K anc ≠ K name) := by
  rintro ⟨h1, h2⟩
  unfold isStrictDescendant at h
  have hz : anc.zoneOf name = true := (zoneOf_iff _ _).2 h1
  have he : Name.eq name anc = false := by
    rw [Bool.eq_false_iff]
    intro he
    exact h2 ((eq_iff_key hn ha).1 he).symm
  rw [hz, he] at h
  cases h

theorem cmp_ne_gt_iff {a b : Name} (ha : a.fqdn = true) (hb : b.fqdn = true) :
    (Name.cmp a b != .gt) = true ↔ ¬ K b < K a := by
  rw [bne_iff_ne, cmp_key ha hb, ne_eq, key_compare_gt]

theorem covers_iff {soa : Option Name} {t : Name} {r : Nsec} (ht : t.fqdn = true)
    (hr : r.owner.fqdn = true ∧ r.next.fqdn = true) (hs : ∀ s, soa = some s → s.fqdn = true) :
    covers soa t r = true ↔
      ((K r.owner < K t ∧ (K t < K r.next ∨ (∃ s, soa = some s ∧ K r.next = K s) ∨
          (¬ K r.owner < K r.next ∧ K r.next <+: K t))) ∧
        ¬ (IsAncestorDelegation r.types ∧ K r.owner <+: K t)) := by
  unfold covers
  rw [Bool.and_eq_true, Bool.and_eq_true, Bool.or_eq_true, Bool.or_eq_true, Bool.and_eq_true,
    gt_iff ht hr.1, lt_iff ht hr.2, isSoa_iff hr.2 hs, cmp_ne_gt_iff hr.2 hr.1, zoneOf_iff]
  simp only [Bool.not_eq_eq_eq_not, Bool.not_true, Bool.and_eq_false_imp, isDelegation_iff,
    not_and, ← zoneOf_iff, Bool.not_eq_true, or_assoc]

theorem findCovering_some {soa : Option Name} {t : Name} {nsecs : List Nsec} {r : Nsec}
    (h : findCovering soa t nsecs = some r) : r ∈ nsecs ∧ covers soa t r = true := by
  unfold findCovering at h
  exact ⟨List.mem_of_find?_eq_some h, by simpa using List.find?_some h⟩

/-- a cover found by the code is a cover in every zone view whose apex is the SOA owner and
whose chain contains the record, and it is not an ancestor-delegation record above the covered
name -/
theorem coversIn_of_covers {soa : Option Name} {t : Name} {r : Nsec} {Z : ZoneView}
    (ht : t.fqdn = true) (hr : r.owner.fqdn = true ∧ r.next.fqdn = true)
    (hs : ∀ s, soa = some s → s.fqdn = true)
    (hapex : ∀ s, soa = some s → K s = Z.apex) (hin : ∀ s, soa = some s → K s <+: K t)
    (hl : LinkOf Z r) (h : covers soa t r = true) :
    CoversIn Z (K t) r ∧ ¬ (IsAncestorDelegation r.types ∧ K r.owner <+: K t) := by
  obtain ⟨⟨h1, h2⟩, h3⟩ := (covers_iff ht hr hs).1 h
  refine ⟨⟨h1, ?_⟩, h3⟩
  rcases h2 with h2 | ⟨s, hs1, hs2⟩ | ⟨h4, h5⟩
  · exact Or.inl h2
  · right
    rw [hs2, hapex s hs1]
    exact ⟨rfl, hapex s hs1 ▸ hin s hs1⟩
  · -- a record whose next name does not sort after its owner is the last link: next = apex
    right
    have he : K r.next = Z.apex := by
      apply Classical.byContradiction
      intro hne
      exact h4 (link_owner_lt_next hl hne).1
    exact ⟨he, he ▸ h5⟩

/-! ### inversion of the model: what a `Secure` verdict went through -/

theorem startOf_some {q : Name} {soa : Option Name} {ha : Bool} {nce0 : Name}
    (hq : q.fqdn = true) (hsf : ∀ s, soa = some s → s.fqdn = true)
    (h : startOf q soa ha = some nce0) :
    K nce0 <+: K q ∧ nce0.fqdn = true ∧ (∀ s, soa = some s → nce0 = s ∧ K s <+: K q) ∧
      (soa = none → ha = false → nce0 = Name.root) := by
  unfold startOf at h
  cases soa with
  | none =>
    simp only at h
    cases ha with
    | true =>
      simp only [if_true, Option.some.injEq] at h
      subst h
      exact ⟨key_baseNameT_prefix q, baseNameT_fqdn hq, (fun s hs => by cases hs),
        (fun _ hf => by cases hf)⟩
    | false =>
      simp only [Bool.false_eq_true, if_false, Option.some.injEq] at h
      subst h
      exact ⟨List.nil_prefix, rfl, (fun s hs => by cases hs), (fun _ _ => rfl)⟩
  | some s =>
    simp only at h
    split at h
    · cases h
    · rename_i hz
      simp only [Option.some.injEq] at h
      subst h
      have : s.zoneOf q = true := by simpa using hz
      have := (zoneOf_iff _ _).1 this
      exact ⟨this, hsf s rfl, (fun s' hs' => by cases hs'; exact ⟨rfl, this⟩),
        (fun hn => by cases hn)⟩

inductive SecurePath (q : Name) (qtype : Nat) (soa : Option Name) (rcode : Nat)
    (answers : List Ans) (nsecs : List Nsec) : Prop where
  /-- "direct match" -/
  | direct (r : Nsec) (hfind : nsecs.find? (fun r => Name.eq q r.owner) = some r)
      (hq : hasType r qtype = false) (hcn : hasType r TYPE_CNAME = false)
      (h47 : qtype ≠ 47) (h46 : qtype ≠ 46)
      (hdel : IsAncestorDelegation r.types → qtype = 43)
      (hrc : rcode = 0) (hans : answers = []) : SecurePath q qtype soa rcode answers nsecs
  /-- the covering path -/
  | covered (n0 : Name) (c : Nsec)
      (hstart : startOf q soa (!answers.isEmpty) = some n0)
      (hfind : nsecs.find? (fun r => Name.eq q r.owner) = none)
      (hcov : findCovering soa q nsecs = some c)
      (hsec : verifyCovered q qtype soa rcode answers nsecs n0 c = .secure) :
      SecurePath q qtype soa rcode answers nsecs

theorem verifyNsec_secure {q : Name} {qtype : Nat} {soa : Option Name} {rcode : Nat}
    {answers : List Ans} {nsecs : List Nsec}
    (h : verifyNsec q qtype soa rcode answers nsecs = .secure) :
    SecurePath q qtype soa rcode answers nsecs := by
  unfold verifyNsec at h
  split at h
  · cases h
  · simp only at h
    cases hs : startOf q soa (!answers.isEmpty) with
    | none => rw [hs] at h; cases h
    | some n0 =>
      rw [hs] at h
      simp only at h
      cases hf : nsecs.find? (fun r => Name.eq q r.owner) with
      | some r =>
        rw [hf] at h
        simp only at h
        split at h
        · cases h
        · rename_i ht
          split at h
          · cases h
          · rename_i hd
            split at h
            · rename_i hok
              simp only [TYPE_NSEC, TYPE_RRSIG, Bool.or_eq_true, beq_iff_eq, not_or,
                Bool.not_eq_true] at ht
              simp only [TYPE_DS, Bool.and_eq_true, bne_iff_ne, ne_eq, not_and, Decidable.not_not,
                isDelegation_iff] at hd
              simp only [RCODE_NOERROR, Bool.and_eq_true, beq_iff_eq,
                Bool.not_eq_eq_eq_not, Bool.not_true] at hok
              exact SecurePath.direct r hf ht.1.2 ht.2 ht.1.1.1 ht.1.1.2 hd hok.1
                (by simpa using hok.2)
            · cases h
      | none =>
        rw [hf] at h
        simp only at h
        cases hc : findCovering soa q nsecs with
        | none => rw [hc] at h; cases h
        | some c =>
          rw [hc] at h
          exact SecurePath.covered n0 c hs hf hc h

/-- the four accepting arms of the covering path -/
inductive CoveredPath (q : Name) (qtype : Nat) (soa : Option Name) (rcode : Nat)
    (answers : List Ans) (nsecs : List Nsec) (n0 : Name) (c : Nsec) : Prop where
  /-- "no data for an empty non-terminal" -/
  | entNodata (hent : isStrictDescendant c.next q = true) (hrc : rcode = 0) (hans : answers = []) :
      CoveredPath q qtype soa rcode answers nsecs n0 c
  /-- "no direct match, no wildcard" -/
  | nxdomain (wn : Name) (wcov : Nsec)
      (hw : prependStar (encloserStep q (encloserStep q n0 c.owner) c.next) = some wn)
      (hwc : findCovering soa wn nsecs = some wcov) (hrc : rcode = 3) (hans : answers = [])
      (hent : isStrictDescendant c.next q = false)
      (hwent : isStrictDescendant wcov.next wn = false) :
      CoveredPath q qtype soa rcode answers nsecs n0 c
  /-- "no direct match, no closer match for wildcard expansion response" -/
  | answer (hrc : rcode = 0) (hans : answers ≠ [])
      (hcl : closerEncloserExists q c.owner c.next
        (wildcardBaseName q true answers nsecs) = false)
      (hncm : noCloserMatches q soa nsecs (wildcardBaseName q true answers nsecs) = true) :
      CoveredPath q qtype soa rcode answers nsecs n0 c
  /-- "no direct match, covering wildcard present" (wildcard no-data) -/
  | nodata (wn : Name) (r : Nsec)
      (hw : prependStar (encloserStep q (encloserStep q n0 c.owner) c.next) = some wn)
      (hwc : findCovering soa wn nsecs = none) (hrc : rcode = 0) (hans : answers = [])
      (hr : r ∈ nsecs) (heq : Name.eq r.owner wn = true) (hq : hasType r qtype = false)
      (hcn : hasType r TYPE_CNAME = false)
      (h47 : qtype ≠ 47) (h46 : qtype ≠ 46) (hdel : IsAncestorDelegation r.types → qtype = 43) :
      CoveredPath q qtype soa rcode answers nsecs n0 c

theorem verifyCovered_secure {q : Name} {qtype : Nat} {soa : Option Name} {rcode : Nat}
    {answers : List Ans} {nsecs : List Nsec} {n0 : Name} {c : Nsec}
    (h : verifyCovered q qtype soa rcode answers nsecs n0 c = .secure) :
    CoveredPath q qtype soa rcode answers nsecs n0 c := by
  unfold verifyCovered at h
  simp only at h
  split at h
  · rename_i h0
    simp only [RCODE_NOERROR, Bool.and_eq_true, beq_iff_eq, Bool.not_eq_eq_eq_not,
      Bool.not_true] at h0
    exact CoveredPath.entNodata h0.1.1 h0.1.2 (by simpa using h0.2)
  · cases hw : prependStar (encloserStep q (encloserStep q n0 c.owner) c.next) with
    | none => rw [hw] at h; cases h
    | some wn =>
      rw [hw] at h
      simp only at h
      split at h
      · rename_i h2
        simp only [RCODE_NOERROR, Bool.and_eq_true, beq_iff_eq, Bool.not_eq_eq_eq_not,
          Bool.not_true] at h2
        obtain ⟨⟨⟨⟨h21, h22⟩, _⟩, h24⟩, h25⟩ := h2
        have hne : answers ≠ [] := by
          intro he; rw [he] at h22; simp at h22
        have hb : (!answers.isEmpty) = true := by
          cases answers with
          | nil => exact absurd rfl hne
          | cons a as => rfl
        rw [hb] at h24 h25
        exact CoveredPath.answer h21 hne h24 h25
      · cases hwc : findCovering soa wn nsecs with
        | some wcov =>
          rw [hwc] at h
          simp only at h
          split at h
          · rename_i h1
            simp only [RCODE_NXDOMAIN, Bool.and_eq_true, beq_iff_eq, Bool.not_eq_eq_eq_not,
              Bool.not_true] at h1
            obtain ⟨⟨⟨h11, h12⟩, h13⟩, h14⟩ := h1
            exact CoveredPath.nxdomain wn wcov hw hwc h11 (by simpa using h12) h13 h14
          · cases h
        | none =>
          rw [hwc] at h
          simp only at h
          split at h
          · rename_i h3
            simp only [RCODE_NOERROR, TYPE_NSEC, TYPE_RRSIG, TYPE_DS, Bool.and_eq_true,
              Bool.not_eq_eq_eq_not, Bool.not_true, beq_iff_eq, List.any_eq_true, Bool.or_eq_true,
              Bool.or_eq_false_iff, beq_eq_false_iff_ne, ne_eq, Bool.not_eq_false] at h3
            obtain ⟨⟨h31, h32⟩, r, hr, h33⟩ := h3
            have hans : answers = [] := by simpa using h31
            obtain ⟨⟨⟨⟨⟨g1, g2⟩, g3⟩, g4⟩, g5⟩, _⟩ := h33
            refine CoveredPath.nodata wn r hw hwc h32 hans hr g1 g4 g5 g2.1 g2.2 ?_
            intro hd
            rcases g3 with g | g
            · rw [(isDelegation_iff _).2 hd] at g; cases g
            · exact g
          · cases h

/-! ### the accepting arms -/

/-- a record without the type in its bitmap: the type is absent at the owner — as far as the
record may be trusted (RFC 6840 §4.1, RFC 4035 §5.4 bits) -/
theorem no_type_of_link {Z : ZoneView} {r : Nsec} {qtype : Nat} (hl : LinkOf Z r)
    (hq : hasType r qtype = false) (hdel : IsAncestorDelegation r.types → qtype = 43)
    (h46 : qtype ≠ 46) (h47 : qtype ≠ 47) : ¬ Z.data (K r.owner) qtype := by
  obtain ⟨_, _, _, _, htypes, _⟩ := hl
  have hnot : qtype ∉ r.types := by
    intro hmem
    rw [(hasType_iff r qtype).2 hmem] at hq
    cases hq
  by_cases hd : IsAncestorDelegation r.types
  · rw [if_pos hd] at htypes
    have := hdel hd
    subst this
    exact fun h => hnot (htypes.2.1.2 h)
  · rw [if_neg hd] at htypes
    exact fun h => hnot ((htypes qtype h46 h47).2 h)

/-- likewise for CNAME: no CNAME bit, no CNAME at the owner (a delegation owner never has one) -/
theorem no_cname_of_link {Z : ZoneView} {r : Nsec} (hl : LinkOf Z r)
    (hc : hasType r TYPE_CNAME = false) : ¬ Z.data (K r.owner) 5 := by
  obtain ⟨_, _, _, _, htypes, _⟩ := hl
  have hnot : 5 ∉ r.types := by
    intro hmem
    have := (hasType_iff r 5).2 hmem
    change hasType r 5 = false at hc
    rw [this] at hc
    cases hc
  by_cases hd : IsAncestorDelegation r.types
  · rw [if_pos hd] at htypes
    exact htypes.2.2
  · rw [if_neg hd] at htypes
    exact fun h => hnot ((htypes 5 (by decide) (by decide)).2 h)

theorem claim_nodata_iff {q : Name} {qtype : Nat} {Z : ZoneView} :
    Claim q qtype 0 [] Z ↔ ((¬ Z.data (K q) qtype ∧ ¬ Z.data (K q) 5) ∧
      (¬ Z.Exists (K q) → ∀ c, Z.ClosestEncloser c (K q) →
        ¬ Z.data (c ++ [Spec.STAR]) qtype ∧ ¬ Z.data (c ++ [Spec.STAR]) 5)) := by
  unfold Claim; simp

theorem claim_nxdomain_iff {q : Name} {qtype : Nat} {answers : List Ans} {Z : ZoneView} :
    Claim q qtype 3 answers Z ↔ (¬ Z.Exists (K q) ∧
      ∀ c, Z.ClosestEncloser c (K q) → ¬ Z.Exists (c ++ [Spec.STAR])) := by
  unfold Claim; simp

theorem claim_answer_iff {q : Name} {qtype : Nat} {answers : List Ans} {Z : ZoneView}
    (hans : answers ≠ []) :
    Claim q qtype 0 answers Z ↔ (∀ a ∈ answers, a.secure = true → ∀ l, a.rrsigLabels = some l →
      K a.name = K q → l < rfcLabels (K q) → ∀ p, p <+: K q → l < p.length → ¬ Z.Exists p) := by
  unfold Claim; simp [hans]

/-- "direct match": NODATA at the owner of a matching record -/
theorem sound_direct {q : Name} {qtype : Nat} {soa : Option Name} {nsecs : List Nsec}
    {r : Nsec} (hwf : InputsWF q soa [] nsecs)
    (hfind : nsecs.find? (fun r => Name.eq q r.owner) = some r)
    (hq : hasType r qtype = false) (hcn : hasType r TYPE_CNAME = false)
    (hdel : IsAncestorDelegation r.types → qtype = 43) (h46 : qtype ≠ 46) (h47 : qtype ≠ 47)
    (Z : ZoneView) (hZ : ConsistentWith nsecs Z) : Claim q qtype 0 [] Z := by
  have hr : r ∈ nsecs := List.mem_of_find?_eq_some hfind
  have heq : Name.eq q r.owner = true := by simpa using List.find?_some hfind
  have hk : K q = K r.owner := (eq_iff_key hwf.q (hwf.nsecs r hr).1).1 heq
  have hl := hZ r hr
  rw [claim_nodata_iff]
  refine ⟨?_, ?_⟩
  · rw [hk]; exact ⟨no_type_of_link hl hq hdel h46 h47, no_cname_of_link hl hcn⟩
  · intro hne
    exact absurd ⟨K r.owner, link_owner_data hl, by rw [hk]; exact List.prefix_refl _⟩ hne

/-- everything the covering path knows, in one place -/
structure CoverCtx (q : Name) (soa : Option Name) (nsecs : List Nsec) (c : Nsec)
    (Z : ZoneView) : Prop where
  qf : q.fqdn = true
  soaf : ∀ s, soa = some s → s.fqdn = true
  nf : ∀ r ∈ nsecs, r.owner.fqdn = true ∧ r.next.fqdn = true
  apex : ∀ s, soa = some s → K s = Z.apex
  hZ : ConsistentWith nsecs Z
  inzone : ∀ s, soa = some s → K s <+: K q
  cmem : c ∈ nsecs
  ccov : CoversIn Z (K q) c
  cdel : ¬ (IsAncestorDelegation c.types ∧ K c.owner <+: K q)

/-- the starting name of a negative response exists in every consistent zone view: it is the
apex, or the root -/
theorem start_exists {q : Name} {soa : Option Name} {nsecs : List Nsec} {c : Nsec}
    {Z : ZoneView} (ctx : CoverCtx q soa nsecs c Z) {n0 : Name}
    (hs : ∀ s, soa = some s → n0 = s ∧ K s <+: K q) (hn : soa = none → n0 = Name.root) :
    Z.Exists (K n0) := by
  have hl := ctx.hZ c ctx.cmem
  have hso : (∃ s, soa = some s) ∨ soa = none := by cases soa <;> simp
  rcases hso with ⟨s, hss⟩ | hss
  · rw [(hs s hss).1, ctx.apex s hss]
    exact ⟨K c.owner, link_owner_data hl, hl.1⟩
  · rw [hn hss]
    exact ⟨K c.owner, link_owner_data hl, List.nil_prefix⟩

/-- On the covering path of a negative response, the closest encloser of the (non-existent)
query name in any consistent zone view is the one the code computed. -/
theorem closest_encloser_eq {q : Name} {soa : Option Name} {nsecs : List Nsec} {c : Nsec}
    {Z : ZoneView} (ctx : CoverCtx q soa nsecs c Z) {n0 : Name} (h0 : K n0 <+: K q)
    (hex0 : Z.Exists (K n0)) (hnq : ¬ Z.Exists (K q))
    {ce : Key} (hce : Z.ClosestEncloser ce (K q)) :
    ce = K (encloserStep q (encloserStep q n0 c.owner) c.next) := by
  obtain ⟨s1, _, s3, _, s5⟩ := encloser_spec (cov := c) h0
  obtain ⟨hc1, hc2, hc3, hc4⟩ := hce
  have hl := ctx.hZ c ctx.cmem
  have hex : Z.Exists (K (encloserStep q (encloserStep q n0 c.owner) c.next)) := by
    rcases s3 with h | h | h
    · rw [h]; exact hex0
    · exact exists_of_prefix_link hl (Or.inl h)
    · exact exists_of_prefix_link hl (Or.inr h)
  have hne : K (encloserStep q (encloserStep q n0 c.owner) c.next) ≠ K q :=
    fun h => hnq (h ▸ hex)
  have hge := hc4 _ s1 hne hex
  have hle := s5 ce (ancestor_of_cover hl ctx.ccov ctx.cdel hc1 hc3) hc1
  exact List.IsPrefix.eq_of_length_le (List.prefix_of_prefix_length_le hc1 s1 hle) hge

/-- "no data for an empty non-terminal": the next name of the covering record is below the
query name, which therefore exists and — lying inside the record's gap — owns no data -/
theorem sound_ent_nodata {q : Name} {qtype : Nat} {soa : Option Name} {nsecs : List Nsec}
    {c : Nsec} {Z : ZoneView} (ctx : CoverCtx q soa nsecs c Z)
    (hent : isStrictDescendant c.next q = true) : Claim q qtype 0 [] Z := by
  have hl := ctx.hZ c ctx.cmem
  rw [claim_nodata_iff]
  refine ⟨⟨fun hd => no_data_of_cover hl ctx.ccov ctx.cdel ⟨qtype, hd⟩,
    fun hd => no_data_of_cover hl ctx.ccov ctx.cdel ⟨5, hd⟩⟩, ?_⟩
  intro hne
  unfold isStrictDescendant at hent
  simp only [Bool.and_eq_true] at hent
  exact absurd (exists_of_prefix_link hl (Or.inr ((zoneOf_iff _ _).1 hent.1))) hne

/-- "no direct match, no wildcard": NXDOMAIN -/
theorem sound_nxdomain {q : Name} {qtype : Nat} {soa : Option Name} {nsecs : List Nsec}
    {c : Nsec} {Z : ZoneView} (ctx : CoverCtx q soa nsecs c Z) {n0 w : Name} {wc : Nsec}
    (h0 : K n0 <+: K q) (hn0f : n0.fqdn = true)
    (hs : ∀ s, soa = some s → n0 = s ∧ K s <+: K q) (hn : soa = none → n0 = Name.root)
    (hw : prependStar (encloserStep q (encloserStep q n0 c.owner) c.next) = some w)
    (hwc : findCovering soa w nsecs = some wc)
    (hent : isStrictDescendant c.next q = false)
    (hwent : isStrictDescendant wc.next w = false) :
    Claim q qtype 3 [] Z := by
  obtain ⟨s1, s2, _, s4, _⟩ := encloser_spec (cov := c) h0
  have hcf := ctx.nf c ctx.cmem
  have hncef := s4 hn0f hcf.1 hcf.2
  obtain ⟨hkw, hwf'⟩ := key_prependStar hw
  have hwfq : w.fqdn = true := by rw [hwf', hncef]
  obtain ⟨hwcm, hwcc⟩ := findCovering_some hwc
  have hwl := ctx.hZ wc hwcm
  have hinw : ∀ s, soa = some s → K s <+: K w := by
    intro s hss
    have h1 : K s <+: K (encloserStep q (encloserStep q n0 c.owner) c.next) :=
      List.prefix_of_prefix_length_le (ctx.inzone s hss) s1 ((hs s hss).1 ▸ s2)
    rw [hkw]; exact List.IsPrefix.trans h1 (List.prefix_append _ _)
  obtain ⟨hwcov, hwdel⟩ :=
    coversIn_of_covers (Z := Z) hwfq (ctx.nf wc hwcm) ctx.soaf ctx.apex hinw hwl hwcc
  have hnq : ¬ Z.Exists (K q) :=
    not_exists_of_cover (ctx.hZ c ctx.cmem) ctx.ccov
      (isStrictDescendant_false hcf.2 ctx.qf hent) ctx.cdel
  have hnw : ¬ Z.Exists (K w) :=
    not_exists_of_cover hwl hwcov (isStrictDescendant_false (ctx.nf wc hwcm).2 hwfq hwent) hwdel
  rw [claim_nxdomain_iff]
  refine ⟨hnq, ?_⟩
  intro ce hce
  rw [closest_encloser_eq ctx h0 (start_exists ctx hs hn) hnq hce, ← hkw]
  exact hnw

/-- "no direct match, covering wildcard present": wildcard NODATA -/
theorem sound_nodata {q : Name} {qtype : Nat} {soa : Option Name} {nsecs : List Nsec}
    {c : Nsec} {Z : ZoneView} (ctx : CoverCtx q soa nsecs c Z) {n0 w : Name} {r : Nsec}
    (h0 : K n0 <+: K q) (hn0f : n0.fqdn = true)
    (hs : ∀ s, soa = some s → n0 = s ∧ K s <+: K q) (hn : soa = none → n0 = Name.root)
    (hw : prependStar (encloserStep q (encloserStep q n0 c.owner) c.next) = some w)
    (hr : r ∈ nsecs) (heq : Name.eq r.owner w = true) (hq : hasType r qtype = false)
    (hcn : hasType r TYPE_CNAME = false)
    (hrdel : IsAncestorDelegation r.types → qtype = 43)
    (h46 : qtype ≠ 46) (h47 : qtype ≠ 47) :
    Claim q qtype 0 [] Z := by
  obtain ⟨_, _, _, s4, _⟩ := encloser_spec (cov := c) h0
  have hcf := ctx.nf c ctx.cmem
  have hncef := s4 hn0f hcf.1 hcf.2
  obtain ⟨hkw, hwf'⟩ := key_prependStar hw
  have hwfq : w.fqdn = true := by rw [hwf', hncef]
  have hkr : K r.owner = K w := (eq_iff_key (ctx.nf r hr).1 hwfq).1 heq
  have hrl := ctx.hZ r hr
  rw [claim_nodata_iff]
  refine ⟨⟨fun hd => no_data_of_cover (ctx.hZ c ctx.cmem) ctx.ccov ctx.cdel ⟨qtype, hd⟩,
    fun hd => no_data_of_cover (ctx.hZ c ctx.cmem) ctx.ccov ctx.cdel ⟨5, hd⟩⟩, ?_⟩
  intro hnq ce hce
  rw [closest_encloser_eq ctx h0 (start_exists ctx hs hn) hnq hce, ← hkw, ← hkr]
  exact ⟨no_type_of_link hrl hq hrdel h46 h47, no_cname_of_link hrl hcn⟩

theorem rfcLabels_append_star (k : Key) : rfcLabels (k ++ [Spec.STAR]) = k.length := by
  unfold rfcLabels; simp

/-- a candidate of `wildcard_base_name` is `*.<last l labels>` and has `l` labels -/
theorem rrsigCandidate_numLabels {q : Name} {a : Ans} {lm : Nat} {wm : Name}
    (h : rrsigCandidate q a = some (lm, wm)) : wm.numLabels = lm := by
  unfold rrsigCandidate at h
  split at h
  · cases h
  · split at h
    · cases h
    · rename_i l hl
      split at h
      · cases h
      · rename_i hlt
        simp only at h
        split at h
        · cases h
        · split at h
          · cases h
          · rename_i w hw
            simp only [Option.some.injEq, Prod.mk.injEq] at h
            obtain ⟨rfl, rfl⟩ := h
            simp only [ge_iff_le, Bool.or_eq_true, decide_eq_true_eq, not_or, Nat.not_le] at hlt
            have h1 : l < a.name.labels.length := by
              have := hlt.1
              rw [numLabels_eq] at this
              have h2 := rfcLabels_le (K a.name)
              rw [key_length] at h2
              omega
            rw [numLabels_eq, (key_prependStar hw).1, rfcLabels_append_star,
              key_trimToT (Nat.le_of_lt h1), List.length_take, key_length]
            omega

/-- "covering wildcard present for wildcard expansion response" -/
theorem sound_answer {q : Name} {qtype : Nat} {soa : Option Name} {answers : List Ans}
    {nsecs : List Nsec} {c : Nsec} {Z : ZoneView} (ctx : CoverCtx q soa nsecs c Z)
    (hans : answers ≠ []) (hwfa : ∀ a ∈ answers, C04.Bounded a.name)
    (hcl : closerEncloserExists q c.owner c.next
      (wildcardBaseName q true answers nsecs) = false) :
    Claim q qtype 0 answers Z := by
  rw [claim_answer_iff hans]
  intro a ha hsec l hl hka hlt p hp hlp hex
  have hlen : l < a.name.labels.length := by
    have h2 := rfcLabels_le (K a.name)
    rw [key_length] at h2
    rw [← hka] at hlt
    omega
  obtain ⟨w, hw⟩ := prependStar_ok (encodedLen_trimToT (hwfa a ha) hlen)
  have hcand : rrsigCandidate q a = some (l, w) := by
    unfold rrsigCandidate
    have h1 : ¬ (l ≥ a.name.numLabels) := by rw [numLabels_eq, hka]; omega
    have h2 : ¬ (l ≥ q.numLabels) := by rw [numLabels_eq]; omega
    have h3 : (trimToT a.name l).zoneOf q = true := by
      rw [zoneOf_iff, key_trimToT (Nat.le_of_lt hlen), hka]
      exact List.take_prefix _ _
    simp [hsec, hl, h1, h2, h3, hw]
  obtain ⟨y, hy, hym, hyle⟩ := minByKey_le (fun p : Nat × Name => p.1)
    (answers.filterMap (rrsigCandidate q)) (l, w) (List.mem_filterMap.2 ⟨a, ha, hcand⟩)
  have hwbn : wildcardBaseName q true answers nsecs = some y.2 := by
    unfold wildcardBaseName; simp [hy]
  obtain ⟨a', _, ha'⟩ := List.mem_filterMap.1 hym
  have hnum : y.2.numLabels = y.1 := rrsigCandidate_numLabels (a := a') (by rw [ha'])
  -- the wildcard's parent has `y.1` labels
  have hbase : (baseNameT y.2).labels.length = y.1 := by
    have h1 := numLabels_eq y.2
    have h2 : y.2.isWildcard = true := by
      have := ha'
      unfold rrsigCandidate at this
      split at this
      · cases this
      · split at this
        · cases this
        · split at this
          · cases this
          · simp only at this
            split at this
            · cases this
            · split at this
              · cases this
              · rename_i w' hw'
                simp only [Option.some.injEq] at this
                rw [← this]
                simp only
                rw [isWildcard_iff, (key_prependStar hw').1]
                simp
    have h3 : (K (baseNameT y.2)).length = (K y.2).length - 1 := by
      rw [key_baseNameT]; simp
    rw [key_length, key_length] at h3
    have h4 : y.2.numLabels = y.2.labels.length - 1 := by
      unfold numLabels; rw [if_pos h2]
    omega
  rw [hwbn] at hcl
  simp only [closerEncloserExists, Bool.or_eq_false_iff] at hcl
  rw [hbase] at hcl
  have hl' := ctx.hZ c ctx.cmem
  have hple : p.length ≤ y.1 := by
    rcases ancestor_of_cover hl' ctx.ccov ctx.cdel hp hex with h | h
    · exact closerLoop_false q y.1 c.owner.labels c.owner.fqdn hcl.1 p h hp
    · exact closerLoop_false q y.1 c.next.labels c.next.fqdn hcl.2 p h hp
  simp only at hyle
  omega

/-! ### the theorem -/

/-- **Soundness of NSEC denial of existence.**  If `verify_nsec` answers `Secure`, then every
zone view whose NSEC chain contains the given records (and whose apex is the SOA owner, when
the response carries one) satisfies the response's claim: the name does not exist — not even
as an empty non-terminal — and no wildcard matches it (NXDOMAIN); the type is absent at the
name or at the matching wildcard (NODATA); nothing closer than the expanded wildcard exists
(wildcard answer).  All names, all record sets, all zone views. -/
theorem soundness {q : Name} {qtype : Nat} {soa : Option Name} {rcode : Nat}
    {answers : List Ans} {nsecs : List Nsec}
    (hwf : InputsWF q soa answers nsecs)
    (hsec : verifyNsec q qtype soa rcode answers nsecs = .secure)
    (Z : ZoneView) (hapex : ∀ s, soa = some s → canonKey s = Z.apex)
    (hZ : ConsistentWith nsecs Z) : Claim q qtype rcode answers Z := by
  cases verifyNsec_secure hsec with
  | direct r hfind hq hcn h47 h46 hdel hrc0 hans =>
    subst hrc0; subst hans
    exact sound_direct hwf hfind hq hcn hdel h46 h47 Z hZ
  | covered n0 c hstart hfind hcov hsec' =>
    obtain ⟨h0, hn0f, hs, hn⟩ := startOf_some hwf.q hwf.soa hstart
    obtain ⟨hcm, hcc⟩ := findCovering_some hcov
    obtain ⟨hccov, hcdel⟩ := coversIn_of_covers (Z := Z) hwf.q (hwf.nsecs c hcm) hwf.soa hapex
      (fun s hss => (hs s hss).2) (hZ c hcm) hcc
    have ctx : CoverCtx q soa nsecs c Z :=
      { qf := hwf.q, soaf := hwf.soa, nf := hwf.nsecs, apex := hapex, hZ := hZ,
        inzone := fun s hss => (hs s hss).2, cmem := hcm, ccov := hccov, cdel := hcdel }
    cases verifyCovered_secure hsec' with
    | entNodata hent hrc0 hans =>
      subst hrc0; subst hans
      exact sound_ent_nodata ctx hent
    | nxdomain wn wcov hw hwc hrc3 hans hent hwent =>
      subst hrc3; subst hans
      exact sound_nxdomain ctx h0 hn0f hs (fun h => hn h rfl) hw hwc hent hwent
    | answer hrc0 hans hcl hncm =>
      subst hrc0
      exact sound_answer ctx hans hwf.answers hcl
    | nodata wn r hw hwc hrc0 hans hr heq hq hcn h47 h46 hdel =>
      subst hrc0; subst hans
      exact sound_nodata ctx h0 hn0f hs (fun h => hn h rfl) hw hr heq hq hcn hdel h46 h47

end HickoryVerif.C08
