/-
Ties between the literals of `Model/ServerGate.lean` and the code tables regenerated from /repo's
source on every run (tools/extract_consts.py → Generated/ServerCodes.lean, Generated/Tables.lean).
If an opcode, response code or record type code changes in the Rust source these stop checking.
-/
import HickoryVerif.Generated.Tables
import HickoryVerif.Generated.ServerCodes
import HickoryVerif.Model.ServerGate

namespace HickoryVerif.C11
open HickoryVerif HickoryVerif.ServerGate

/-- `knownOpcode` is exactly "`OpCode::from_u8` has a named arm", for all 16 header values. -/
theorem tie_known_opcodes :
    ∀ op < 16, knownOpcode op = (Generated.opCodeOfCode.lookup op).isSome := by decide

theorem tie_opcode_query : Generated.opCodeOfCode.lookup OP_QUERY = some "Query" := by decide
theorem tie_opcode_update : Generated.opCodeOfCode.lookup OP_UPDATE = some "Update" := by decide

/-- the response codes the gate and the catalog use -/
theorem tie_rcodes :
    Generated.responseCodeToCode.lookup "NoError" = some RC_NOERROR ∧
    Generated.responseCodeToCode.lookup "FormErr" = some RC_FORMERR ∧
    Generated.responseCodeToCode.lookup "ServFail" = some RC_SERVFAIL ∧
    Generated.responseCodeToCode.lookup "NXDomain" = some RC_NXDOMAIN ∧
    Generated.responseCodeToCode.lookup "NotImp" = some RC_NOTIMP ∧
    Generated.responseCodeToCode.lookup "Refused" = some RC_REFUSED ∧
    Generated.responseCodeToCode.lookup "NotAuth" = some RC_NOTAUTH ∧
    Generated.responseCodeToCode.lookup "BADVERS" = some RC_BADVERS := by decide

/-- BADVERS does not fit the four header bits: low part 0, high part 1 (goes into the OPT) -/
theorem tie_badvers_split :
    RC_BADVERS % 16 = 0 ∧
    (RC_BADVERS &&& Generated.RCODE_HIGH_MASK) >>> Generated.RCODE_HIGH_SHIFT = 1 := by decide

theorem tie_record_types :
    Generated.recordTypeToCode.lookup "SOA" = some TYPE_SOA ∧
    Generated.recordTypeToCode.lookup "AXFR" = some TYPE_AXFR := by decide

end HickoryVerif.C11
