/-
Ties between the literals of `Model/AuthZone.lean` and the constants / tables regenerated from
/repo on every run (tools/extract_consts.py → Generated/*.lean).
-/
import HickoryVerif.Generated.Consts
import HickoryVerif.Generated.Tables
import HickoryVerif.Model.AuthZone

namespace HickoryVerif.C10
open HickoryVerif HickoryVerif.AuthZone

/-- `chase_cnames::MAX_CNAME_DEPTH` -/
theorem tie_max_cname_depth : MAX_CNAME_DEPTH = Generated.MAX_CNAME_DEPTH := rfl

/-- the record type codes the model compares with (`impl From<RecordType> for u16`; the store is
ordered by these codes) -/
theorem tie_record_type_codes :
    Generated.recordTypeToCode.lookup "A" = some T_A ∧
    Generated.recordTypeToCode.lookup "NS" = some T_NS ∧
    Generated.recordTypeToCode.lookup "CNAME" = some T_CNAME ∧
    Generated.recordTypeToCode.lookup "SOA" = some T_SOA ∧
    Generated.recordTypeToCode.lookup "MX" = some T_MX ∧
    Generated.recordTypeToCode.lookup "TXT" = some T_TXT ∧
    Generated.recordTypeToCode.lookup "AAAA" = some T_AAAA ∧
    Generated.recordTypeToCode.lookup "DS" = some T_DS ∧
    Generated.recordTypeToCode.lookup "ANY" = some T_ANY ∧
    Generated.recordTypeToCode.lookup "ANAME" = some T_ANAME := by decide +kernel

end HickoryVerif.C10
