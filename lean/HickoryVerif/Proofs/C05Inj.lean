/-
C05 — the signed data determines what was signed (injectivity of `Spec.signedData`).

If two (RRSIG fields, owner, class, RDATA list) tuples have the same RFC 4035 §5.3.2 signed data then
they agree in every RRSIG field (type covered, algorithm, Labels, original TTL, expiration,
inception, key tag, signer up to letter case), in the *set* of canonical RDATA, and — unless that set
is empty — in the (lower-cased, wildcard-reduced) owner and the class.  Together with
`C05.tbs_eq_spec` this is what makes a signature over `TBS::from_input` a signature over exactly one
RRset; `C06.mutation_rejects` draws the conclusion for the validator.
-/
import HickoryVerif.Proofs.C05

namespace HickoryVerif.C05
open HickoryVerif HickoryVerif.Name HickoryVerif.Tbs HickoryVerif.Spec

/-- wire form of a label list: length-prefixed labels, then the root octet -/
def lw (ls : List Bytes) : Bytes := (ls.map emitLabel).flatten ++ [0]

theorem wire_eq_lw (n : Name) : Name.wire n = lw n.labels := rfl

theorem lw_cons (l : Bytes) (ls : List Bytes) : lw (l :: ls) = l.length :: (l ++ lw ls) := by
  simp [lw, emitLabel]

/-- **Names on the wire are self-delimiting**: no wire form of a name (labels non-empty) is a proper
prefix of another. -/
theorem lw_append_inj (ls ls' : List Bytes) (x y : Bytes)
    (h : ∀ l ∈ ls, 1 ≤ l.length) (h' : ∀ l ∈ ls', 1 ≤ l.length)
    (heq : lw ls ++ x = lw ls' ++ y) : ls = ls' ∧ x = y := by
  induction ls generalizing ls' with
  | nil =>
    cases ls' with
    | nil => simpa [lw] using heq
    | cons l' r' =>
      rw [lw_cons] at heq
      simp only [lw, List.map_nil, List.flatten_nil, List.nil_append, List.cons_append,
        List.cons.injEq] at heq
      have := h' l' (by simp)
      omega
  | cons l r ih =>
    cases ls' with
    | nil =>
      rw [lw_cons] at heq
      simp only [lw, List.map_nil, List.flatten_nil, List.nil_append, List.cons_append,
        List.cons.injEq] at heq
      have := h l (by simp)
      omega
    | cons l' r' =>
      rw [lw_cons, lw_cons] at heq
      simp only [List.cons_append, List.cons.injEq, List.append_assoc] at heq
      obtain ⟨hlen, hrest⟩ := heq
      obtain ⟨hl, hr⟩ := List.append_inj hrest hlen
      obtain ⟨hrr, hxy⟩ := ih r' (fun a ha => h a (by simp [ha])) (fun a ha => h' a (by simp [ha])) hr
      exact ⟨by rw [hl, hrr], hxy⟩

theorem lw_ne_nil (ls : List Bytes) (x : Bytes) : lw ls ++ x ≠ [] := by
  simp [lw]

/-- the RR blocks determine the RDATA list and, if there is one, owner / type / class / TTL -/
theorem rrs_inj (ls ls' : List Bytes) (hls : ∀ l ∈ ls, 1 ≤ l.length) (hls' : ∀ l ∈ ls', 1 ≤ l.length)
    (ty ty' cls cls' ottl ottl' : Nat) (hty : ty < 65536) (hty' : ty' < 65536) (hcls : cls < 65536)
    (hcls' : cls' < 65536) (hot : ottl < 4294967296) (hot' : ottl' < 4294967296)
    (rds rds' : List Bytes) (hr : ∀ rd ∈ rds, rd.length < 65536) (hr' : ∀ rd ∈ rds', rd.length < 65536)
    (h : (rds.map (canonicalRR (lw ls) ty cls ottl)).flatten
       = (rds'.map (canonicalRR (lw ls') ty' cls' ottl')).flatten) :
    rds = rds' ∧ (rds ≠ [] → ls = ls' ∧ ty = ty' ∧ cls = cls' ∧ ottl = ottl') := by
  induction rds generalizing rds' with
  | nil =>
    cases rds' with
    | nil => simp
    | cons rd' r' =>
      exfalso
      simp only [List.map_nil, List.flatten_nil, List.map_cons, List.flatten_cons, canonicalRR,
        List.append_assoc] at h
      exact lw_ne_nil _ _ h.symm
  | cons rd r ih =>
    cases rds' with
    | nil =>
      exfalso
      simp only [List.map_nil, List.flatten_nil, List.map_cons, List.flatten_cons, canonicalRR,
        List.append_assoc] at h
      exact lw_ne_nil _ _ h
    | cons rd' r' =>
      simp only [List.map_cons, List.flatten_cons, canonicalRR, List.append_assoc] at h
      obtain ⟨hl, hrest⟩ := lw_append_inj ls ls' _ _ hls hls' h
      simp only [be16, be32, List.cons_append, List.nil_append, List.cons.injEq] at hrest
      obtain ⟨t1, t2, c1, c2, o1, o2, o3, o4, n1, n2, hbody⟩ := hrest
      have hrd := hr rd (by simp)
      have hrd' := hr' rd' (by simp)
      have hlen : rd.length = rd'.length := by omega
      obtain ⟨hrdeq, htail⟩ := List.append_inj hbody hlen
      have htail' : (r.map (canonicalRR (lw ls) ty cls ottl)).flatten
          = (r'.map (canonicalRR (lw ls') ty' cls' ottl')).flatten := htail
      obtain ⟨hrr, _⟩ := ih r' (fun a ha => hr a (by simp [ha])) (fun a ha => hr' a (by simp [ha])) htail'
      refine ⟨by rw [hrdeq, hrr], fun _ => ⟨hl, by omega, by omega, by omega⟩⟩

/-- the RRSIG fields are integers of their wire width -/
def FieldsInRange (i : SigInput) : Prop :=
  i.typeCovered < 65536 ∧ i.algorithm < 256 ∧ i.numLabels < 256 ∧ i.originalTtl < 4294967296 ∧
  i.expiration < 4294967296 ∧ i.inception < 4294967296 ∧ i.keyTag < 65536

theorem lower_labels_pos {n : Name} (hb : C04.Bounded n) :
    ∀ l ∈ n.labels.map lowerLabel, 1 ≤ l.length := by
  intro l hl
  obtain ⟨l0, hl0, rfl⟩ := List.mem_map.1 hl
  have := (hb.2 l0 hl0).1
  simpa [lowerLabel] using this

/-- the RRSIG RDATA prefix determines every RRSIG field and what follows it -/
theorem prefix_inj (i i' : SigInput) (hi : FieldsInRange i) (hi' : FieldsInRange i')
    (hs : C04.Bounded i.signer) (hs' : C04.Bounded i'.signer) (x y : Bytes)
    (h : rrsigRdataPrefix i ++ x = rrsigRdataPrefix i' ++ y) :
    (i.typeCovered = i'.typeCovered ∧ i.algorithm = i'.algorithm ∧ i.numLabels = i'.numLabels ∧
     i.originalTtl = i'.originalTtl ∧ i.expiration = i'.expiration ∧ i.inception = i'.inception ∧
     i.keyTag = i'.keyTag ∧ i.signer.labels.map lowerLabel = i'.signer.labels.map lowerLabel) ∧ x = y := by
  obtain ⟨a1, a2, a3, a4, a5, a6, a7⟩ := hi
  obtain ⟨b1, b2, b3, b4, b5, b6, b7⟩ := hi'
  simp only [rrsigRdataPrefix, be16, be32, wire_eq_lw, toLowercase, List.cons_append,
    List.nil_append, List.cons.injEq] at h
  obtain ⟨t1, t2, al, lb, o1, o2, o3, o4, e1, e2, e3, e4, n1, n2, n3, n4, k1, k2, hrest⟩ := h
  obtain ⟨hsl, hxy⟩ := lw_append_inj _ _ _ _ (lower_labels_pos hs) (lower_labels_pos hs') hrest
  refine ⟨⟨by omega, al, lb, by omega, by omega, by omega, by omega, hsl⟩, hxy⟩

/-- label list of the signed owner (RFC 4035 §5.3.2 "to calculate the name") -/
def signedOwnerLabels (owner : Name) (labels : Nat) : Option (List Bytes) :=
  let fqdn := owner.labels.map Name.lowerLabel
  if labels = ownerLabelCount owner then some fqdn
  else if labels < ownerLabelCount owner then some ([42] :: fqdn.drop (fqdn.length - labels))
  else none

theorem signedOwner_eq (owner : Name) (k : Nat) :
    signedOwner owner k = (signedOwnerLabels owner k).map lw := by
  unfold signedOwner signedOwnerLabels
  simp only [wire_eq_lw]
  split
  · rfl
  · split <;> rfl

theorem signedOwnerLabels_pos {owner : Name} (hb : C04.Bounded owner) {k : Nat} {ls : List Bytes}
    (h : signedOwnerLabels owner k = some ls) : ∀ l ∈ ls, 1 ≤ l.length := by
  unfold signedOwnerLabels at h
  have hpos := lower_labels_pos hb
  split at h
  · simp only [Option.some.injEq] at h; subst h; exact hpos
  · split at h
    · simp only [Option.some.injEq] at h
      subst h
      intro l hl
      rcases List.mem_cons.1 hl with rfl | hl
      · decide
      · exact hpos l (List.mem_of_mem_drop hl)
    · cases h

/-- **The signed data determines what was signed.** -/
theorem signedData_injective (i i' : SigInput) (owner owner' : Name) (cls cls' : Nat)
    (rds rds' : List RData) (b : Bytes)
    (hi : FieldsInRange i) (hi' : FieldsInRange i') (hc : cls < 65536) (hc' : cls' < 65536)
    (ho : C04.Bounded owner) (ho' : C04.Bounded owner')
    (hs : C04.Bounded i.signer) (hs' : C04.Bounded i'.signer)
    (hlen : ∀ c, canonicalRdatas rds = some c → ∀ rd ∈ c, rd.length < 65536)
    (hlen' : ∀ c, canonicalRdatas rds' = some c → ∀ rd ∈ c, rd.length < 65536)
    (h : signedData i owner cls rds = some b) (h' : signedData i' owner' cls' rds' = some b) :
    (i.typeCovered = i'.typeCovered ∧ i.algorithm = i'.algorithm ∧ i.numLabels = i'.numLabels ∧
     i.originalTtl = i'.originalTtl ∧ i.expiration = i'.expiration ∧ i.inception = i'.inception ∧
     i.keyTag = i'.keyTag ∧ i.signer.labels.map lowerLabel = i'.signer.labels.map lowerLabel) ∧
    ∃ c c', canonicalRdatas rds = some c ∧ canonicalRdatas rds' = some c' ∧
      sortDistinct c = sortDistinct c' ∧
      (sortDistinct c ≠ [] →
        signedOwner owner i.numLabels = signedOwner owner' i'.numLabels ∧ cls = cls') := by
  unfold signedData at h h'
  rw [signedOwner_eq] at h h'
  cases hso : signedOwnerLabels owner i.numLabels with
  | none => rw [hso] at h; simp at h
  | some ls =>
    cases hso' : signedOwnerLabels owner' i'.numLabels with
    | none => rw [hso'] at h'; simp at h'
    | some ls' =>
      cases hcr : canonicalRdatas rds with
      | none => rw [hso, hcr] at h; simp at h
      | some c =>
        cases hcr' : canonicalRdatas rds' with
        | none => rw [hso', hcr'] at h'; simp at h'
        | some c' =>
          rw [hso, hcr] at h
          rw [hso', hcr'] at h'
          simp only [Option.map_some, Option.some.injEq] at h h'
          have heq := h.trans h'.symm
          obtain ⟨hf, hbody⟩ := prefix_inj i i' hi hi' hs hs' _ _ heq
          have hmem : ∀ rd ∈ sortDistinct c, rd.length < 65536 :=
            fun rd hrd => hlen c hcr rd ((mem_sortDistinct rd c).1 hrd)
          have hmem' : ∀ rd ∈ sortDistinct c', rd.length < 65536 :=
            fun rd hrd => hlen' c' hcr' rd ((mem_sortDistinct rd c').1 hrd)
          obtain ⟨hsd, hrest⟩ := rrs_inj ls ls' (signedOwnerLabels_pos ho hso)
            (signedOwnerLabels_pos ho' hso') _ _ _ _ _ _ hi.1 hi'.1 hc hc' hi.2.2.2.1 hi'.2.2.2.1
            _ _ hmem hmem' hbody
          refine ⟨hf, c, c', rfl, rfl, hsd, fun hne => ?_⟩
          obtain ⟨hl, _, hcl, _⟩ := hrest hne
          rw [signedOwner_eq, signedOwner_eq, hso, hso', hl]
          exact ⟨rfl, hcl⟩

end HickoryVerif.C05
