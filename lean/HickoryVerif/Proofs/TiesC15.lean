/- Ties between the cache model's literals and the constants regenerated from /repo. -/
import HickoryVerif.Generated.Consts
import HickoryVerif.Model.Cache

namespace HickoryVerif.C15
/-- `pub const MAX_TTL` of crates/resolver/src/cache.rs is the model's. -/
theorem tie_max_ttl : Cache.MAX_TTL = Generated.CACHE_MAX_TTL := rfl
end HickoryVerif.C15
