/-
Ties between the literals of the encoder / name-emit model (C02, C03) and the constants regenerated
from /repo's source on every run (tools/extract_consts.py → Generated/Consts.lean).  If a limit
changes in the Rust source these `rfl`s stop checking and the check reports a broken proof
obligation.
-/
import HickoryVerif.Generated.Consts
import HickoryVerif.Model.Encoder
import HickoryVerif.Model.NameEmit

namespace HickoryVerif.C02
open HickoryVerif

/-- `COMPRESSION_CANDIDATE_LIMIT` of encoder.rs is the 64 of `Enc.storeLabelPointer` -/
theorem tie_candidate_limit : Enc.COMPRESSION_CANDIDATE_LIMIT = Generated.COMPRESSION_CANDIDATE_LIMIT := rfl
/-- `COMPRESSED_NAME_LIMIT` of name.rs is the 120 of `Name.emit` -/
theorem tie_compressed_name_limit : Name.COMPRESSED_NAME_LIMIT = Generated.COMPRESSED_NAME_LIMIT := rfl
/-- the `offset < 0x3FFF` of `store_label_pointer` -/
theorem tie_pointer_offset_bound : Generated.POINTER_OFFSET_BOUND = 0x3FFF := rfl
/-- the model's `storeLabelPointer` stores nothing at or beyond that offset, nor when the table holds
`COMPRESSION_CANDIDATE_LIMIT` candidates -/
theorem storeLabelPointer_limits (e : Enc) (s t : Nat) (e' : Enc)
    (hlim : Generated.POINTER_OFFSET_BOUND ≤ e.offset ∨ Generated.COMPRESSION_CANDIDATE_LIMIT ≤ e.ptrs.length)
    (h : e.storeLabelPointer s t = .ok e') : e' = e := by
  unfold Enc.storeLabelPointer at h
  split at h
  · simp at h
  split at h
  · simp at h
  split at h
  · simp at h
  rw [if_neg (by
    simp only [Generated.POINTER_OFFSET_BOUND, Generated.COMPRESSION_CANDIDATE_LIMIT,
      Enc.COMPRESSION_CANDIDATE_LIMIT] at hlim ⊢
    omega)] at h
  simpa using h.symm
/-- the 63 / 255 of `Name::emit` (label length check, lazy name length check) -/
theorem tie_label_max : Generated.LABEL_MAX_LENGTH = 63 := rfl
theorem tie_name_max : Generated.NAME_MAX_LENGTH = 255 := rfl

end HickoryVerif.C02
