/-
C08 — completeness of `verify_nsec` at the validator level, for the two negative shapes whose
accepting arm is complete (NXDOMAIN, NODATA at an empty non-terminal, NODATA at an existing
owner): whenever the claim is true in
a zone view `Z` and the response carries the records RFC 4035 §3.1.3.2 / §5.4 ask for — the
link of `Z`'s chain covering the query name and the link covering the wildcard at its closest
encloser (NXDOMAIN), or a link owned by the query name (NODATA) — among any other links of `Z`,
in any order, the verdict is `Secure`.

This is the validator half of "the proof the authoritative server attaches is accepted".  The
server half — which records `nsec_records` / `build_authoritative_response` attach — is
modelled by C10 (`Model/AuthZoneSigned.lean`) and joined in `C08Server.lean`.  Acceptance of
wildcard-expanded answers and of wildcard NODATA is not proved here (validated end to end).
-/
import HickoryVerif.Proofs.C08

namespace HickoryVerif.C08
open HickoryVerif HickoryVerif.Name HickoryVerif.Nsec HickoryVerif.Spec HickoryVerif.KeyOrder

/-! ### helpers -/

theorem covers_of_coversIn {s t : Name} {r : Nsec} {Z : ZoneView} (ht : t.fqdn = true)
    (hr : r.owner.fqdn = true ∧ r.next.fqdn = true) (hsf : s.fqdn = true) (hapex : K s = Z.apex)
    (h : CoversIn Z (K t) r) (hnd : ¬ (IsAncestorDelegation r.types ∧ K r.owner <+: K t)) :
    covers (some s) t r = true := by
  rw [covers_iff ht hr (fun s' hs' => by cases hs'; exact hsf)]
  refine ⟨⟨h.1, ?_⟩, hnd⟩
  rcases h.2 with h2 | ⟨h2, _⟩
  · exact Or.inl h2
  · exact Or.inr (Or.inl ⟨s, rfl, by rw [h2, hapex]⟩)

theorem find?_some_of_mem {α} {p : α → Bool} {l : List α} {a : α} (ha : a ∈ l) (hp : p a = true) :
    ∃ b, l.find? p = some b := by
  cases h : l.find? p with
  | some b => exact ⟨b, rfl⟩
  | none =>
    have := List.find?_eq_none.1 h a ha
    rw [hp] at this
    exact absurd rfl this

theorem isStrictDescendant_prefix {name anc : Name} (h : isStrictDescendant name anc = true) :
    K anc <+: K name := by
  unfold isStrictDescendant at h
  simp only [Bool.and_eq_true] at h
  exact (zoneOf_iff _ _).1 h.1

/-- wire length of a key: one length octet per label plus the label octets -/
def wlen (k : Key) : Nat := k.length + (k.map List.length).sum

theorem encodedLen_eq_wlen (n : Name) : n.encodedLen = wlen (K n) + 1 := by
  unfold encodedLen dataLen wlen
  rw [key_length]
  have : ((K n).map List.length).sum = (n.labels.map List.length).sum := by
    simp only [K, canonKey, List.map_map, List.map_reverse]
    rw [List.sum_reverse]
    congr 1
    apply List.map_congr_left
    intro l _
    simp [lowerLabel]
  rw [this]

theorem wlen_append (a b : Key) : wlen (a ++ b) = wlen a + wlen b := by
  unfold wlen; simp; omega

/-- a strict ancestor of a bounded name leaves room for the `*` label -/
theorem room_for_star {a b : Name} (hb : C04.Bounded b) (hp : K a <+: K b) (hne : K a ≠ K b) :
    a.encodedLen + 2 ≤ 255 := by
  obtain ⟨t, ht⟩ := hp
  have hb1 := hb.1
  rw [encodedLen_eq_wlen, ← ht, wlen_append] at hb1
  rw [encodedLen_eq_wlen]
  have htne : t ≠ [] := by
    rintro rfl; simp at ht; exact hne ht
  match t, htne with
  | x :: xs, _ =>
    have hx : 1 ≤ x.length := by
      have hmem : x ∈ K b := by rw [← ht]; simp
      simp only [K, canonKey, List.mem_map, List.mem_reverse] at hmem
      obtain ⟨l, hl, rfl⟩ := hmem
      have := (hb.2 l hl).1
      simpa [lowerLabel] using this
    have : 2 ≤ wlen (x :: xs) := by
      unfold wlen; simp; omega
    omega

/-! ### NXDOMAIN -/

/-- **Every sufficient NXDOMAIN proof is accepted.**  `Z` is a zone view whose apex is the SOA
owner and whose chain contains all the records of the response; the query name does not exist
in `Z`, `ce` is its closest encloser and the wildcard `*.ce` does not exist; `cq` is a record
covering the query name and `cw` a record covering `*.ce` (neither is the parent-side record
of a delegation above the name it covers — a server does not answer NXDOMAIN below its own
cut).  Then `verify_nsec` answers `Secure`, whatever else is in the list and in whatever
order. -/
theorem completeness_nxdomain {q s : Name} {qtype : Nat} {nsecs : List Nsec} {Z : ZoneView}
    {cq cw : Nsec} {ce : Key}
    (hwf : InputsWF q (some s) [] nsecs) (hqb : C04.Bounded q)
    (hapex : K s = Z.apex) (hin : K s <+: K q) (hZ : ConsistentWith nsecs Z)
    (hnq : ¬ Z.Exists (K q)) (hce : Z.ClosestEncloser ce (K q))
    (hnw : ¬ Z.Exists (ce ++ [Spec.STAR]))
    (hcq : cq ∈ nsecs) (hcqc : CoversIn Z (K q) cq)
    (hcqd : ¬ (IsAncestorDelegation cq.types ∧ K cq.owner <+: K q))
    (hcw : cw ∈ nsecs) (hcwc : CoversIn Z (ce ++ [Spec.STAR]) cw)
    (hcwd : ¬ (IsAncestorDelegation cw.types ∧ K cw.owner <+: ce ++ [Spec.STAR])) :
    verifyNsec q qtype (some s) 3 [] nsecs = .secure := by
  have hsf : s.fqdn = true := hwf.soa s rfl
  have hsoa : ∀ s', some s = some s' → s'.fqdn = true := hwf.soa
  have hapex' : ∀ s', some s = some s' → K s' = Z.apex := fun s' h => by cases h; exact hapex
  -- no record is owned by the query name
  have hdirect : nsecs.find? (fun r => Name.eq q r.owner) = none := by
    rw [List.find?_eq_none]
    intro r hr he
    have hk := (eq_iff_key hwf.q (hwf.nsecs r hr).1).1 (by simpa using he)
    exact hnq ⟨K r.owner, link_owner_data (hZ r hr), by rw [hk]; exact List.prefix_refl _⟩
  -- the covering record the code finds
  obtain ⟨c, hc⟩ := find?_some_of_mem (p := covers (some s) q) hcq
    (covers_of_coversIn hwf.q (hwf.nsecs cq hcq) hsf hapex hcqc hcqd)
  have hc' : findCovering (some s) q nsecs = some c := hc
  obtain ⟨hcm, hcc⟩ := findCovering_some hc'
  obtain ⟨hccov, hcdel⟩ := coversIn_of_covers (Z := Z) hwf.q (hwf.nsecs c hcm) hsoa hapex'
    (fun s' h => by cases h; exact hin) (hZ c hcm) hcc
  have ctx : CoverCtx q (some s) nsecs c Z :=
    { qf := hwf.q, soaf := hsoa, nf := hwf.nsecs, apex := hapex', hZ := hZ,
      inzone := fun s' h => by cases h; exact hin, cmem := hcm, ccov := hccov, cdel := hcdel }
  have hcl := hZ c hcm
  have hent : isStrictDescendant c.next q = false := by
    rw [Bool.eq_false_iff]
    intro h
    exact hnq (exists_of_prefix_link hcl (Or.inr (isStrictDescendant_prefix h)))
  -- the encloser and the wildcard name
  have hstart : Z.Exists (K s) :=
    start_exists ctx (fun s' h => by cases h; exact ⟨rfl, hin⟩) (fun h => by cases h)
  have hceq := closest_encloser_eq ctx hin hstart hnq hce
  obtain ⟨s1, _, _, s4, _⟩ := encloser_spec (cov := c) hin
  have hcf := hwf.nsecs c hcm
  have hncef := s4 hsf hcf.1 hcf.2
  have hnene : K (encloserStep q (encloserStep q s c.owner) c.next) ≠ K q := by
    rw [← hceq]; exact hce.2.1
  obtain ⟨w, hw⟩ := prependStar_ok (room_for_star hqb s1 hnene)
  obtain ⟨hkw, hwf'⟩ := key_prependStar hw
  have hwfq : w.fqdn = true := by rw [hwf', hncef]
  have hkw' : K w = ce ++ [Spec.STAR] := by rw [hkw, hceq]
  -- the record covering the wildcard name
  obtain ⟨wc, hwc⟩ := find?_some_of_mem (p := covers (some s) w) hcw
    (covers_of_coversIn hwfq (hwf.nsecs cw hcw) hsf hapex (hkw' ▸ hcwc) (hkw' ▸ hcwd))
  have hwc' : findCovering (some s) w nsecs = some wc := hwc
  obtain ⟨hwcm, _⟩ := findCovering_some hwc'
  have hwent : isStrictDescendant wc.next w = false := by
    rw [Bool.eq_false_iff]
    intro h
    exact hnw (hkw' ▸ exists_of_prefix_link (hZ wc hwcm) (Or.inr (isStrictDescendant_prefix h)))
  -- run the code
  have hz : s.zoneOf q = true := (zoneOf_iff _ _).2 hin
  have hst : startOf q (some s) (!([] : List Ans).isEmpty) = some s := by
    unfold startOf; simp [hz]
  have hcov : verifyCovered q qtype (some s) 3 [] nsecs s c = .secure := by
    unfold verifyCovered
    simp only [hw, hwc', hent, hwent]
    rfl
  unfold verifyNsec
  rw [if_neg (by decide)]
  simp only [hst, hdirect, hc', hcov]

/-- a link that sorts its next name before its owner is the last link: next = apex -/
theorem wrap_of_next_lt {Z : ZoneView} {n : Nsec} (hl : LinkOf Z n) (h : K n.next < K n.owner) :
    K n.next = Z.apex := by
  apply Classical.byContradiction
  intro hne
  exact lt_irrefl _ (lt_trans (link_owner_lt_next hl hne).1 h)

theorem lt_of_le_of_ne' {a b : Key} (h : a ≤ b) (hne : a ≠ b) : a < b := by
  apply Classical.byContradiction
  intro hn
  exact hne (List.le_antisymm h (not_lt.1 hn))

/-- What `closest_nsec(x)` guarantees about the link `n` it returns — owner not after `x`, and
`x` before the next name or the link wraps — makes `n` a cover of `x` as soon as `x` does not
exist in the zone view. -/
theorem coversIn_of_closest {Z : ZoneView} {n : Nsec} {x : Key} (hl : LinkOf Z n)
    (hx : ¬ Z.Exists x) (hin : Z.apex <+: x)
    (h1 : ¬ x < K n.owner) (h2 : x < K n.next ∨ K n.next < K n.owner) : CoversIn Z x n := by
  have hneq : K n.owner ≠ x := by
    intro he
    exact hx ⟨K n.owner, link_owner_data hl, by rw [he]; exact List.prefix_refl _⟩
  refine ⟨lt_of_le_of_ne' (not_lt.1 h1) hneq, ?_⟩
  rcases h2 with h | h
  · exact Or.inl h
  · exact Or.inr ⟨wrap_of_next_lt hl h, hin⟩

/-- **NXDOMAIN proof made of two `closest_nsec` results is accepted**: `cn` is what
`closest_nsec` guarantees for the query name, `wn` what it guarantees for the wildcard at the
closest encloser. -/
theorem completeness_nxdomain_closest {q s : Name} {qtype : Nat} {nsecs : List Nsec}
    {Z : ZoneView} {cn wn : Nsec} {ce : Key}
    (hwf : InputsWF q (some s) [] nsecs) (hqb : C04.Bounded q)
    (hapex : K s = Z.apex) (hin : K s <+: K q) (hZ : ConsistentWith nsecs Z)
    (hnq : ¬ Z.Exists (K q)) (hce : Z.ClosestEncloser ce (K q))
    (hnw : ¬ Z.Exists (ce ++ [Spec.STAR])) (hapexce : Z.apex <+: ce)
    (hcm : cn ∈ nsecs) (hc1 : ¬ K q < K cn.owner)
    (hc2 : K q < K cn.next ∨ K cn.next < K cn.owner)
    (hcd : ¬ IsAncestorDelegation cn.types)
    (hwm : wn ∈ nsecs) (hw1 : ¬ ce ++ [Spec.STAR] < K wn.owner)
    (hw2 : ce ++ [Spec.STAR] < K wn.next ∨ K wn.next < K wn.owner)
    (hwd : ¬ IsAncestorDelegation wn.types) :
    verifyNsec q qtype (some s) 3 [] nsecs = .secure :=
  completeness_nxdomain hwf hqb hapex hin hZ hnq hce hnw hcm
    (coversIn_of_closest (hZ cn hcm) hnq (hapex ▸ hin) hc1 hc2) (fun h => hcd h.1) hwm
    (coversIn_of_closest (hZ wn hwm) hnw (List.IsPrefix.trans hapexce (List.prefix_append _ _))
      hw1 hw2) (fun h => hwd h.1)

/-! ### NODATA at an empty non-terminal -/

/-- **The NODATA proof for an empty non-terminal is accepted**: the query name exists in `Z`
but owns no data, the response carries a link of `Z` covering it (not a parent-side delegation
record above it).  No SOA is needed unless the covering link is the last of the chain. -/
theorem completeness_ent_nodata {q : Name} {qtype : Nat} {soa : Option Name}
    {nsecs : List Nsec} {Z : ZoneView} {cq : Nsec}
    (hwf : InputsWF q soa [] nsecs)
    (hapex : ∀ s, soa = some s → K s = Z.apex) (hin : ∀ s, soa = some s → K s <+: K q)
    (hZ : ConsistentWith nsecs Z)
    (hex : Z.Exists (K q)) (hnd : ¬ Z.hasData (K q))
    (hcq : cq ∈ nsecs) (hcqc : covers soa q cq = true) :
    verifyNsec q qtype soa 0 [] nsecs = .secure := by
  -- no record is owned by the query name
  have hdirect : nsecs.find? (fun r => Name.eq q r.owner) = none := by
    rw [List.find?_eq_none]
    intro r hr he
    have hk := (eq_iff_key hwf.q (hwf.nsecs r hr).1).1 (by simpa using he)
    exact hnd (hk ▸ link_owner_data (hZ r hr))
  obtain ⟨c, hc⟩ := find?_some_of_mem (p := covers soa q) hcq hcqc
  have hc' : findCovering soa q nsecs = some c := hc
  obtain ⟨hcm, hcc⟩ := findCovering_some hc'
  have hcl := hZ c hcm
  obtain ⟨hccov, hcdel⟩ := coversIn_of_covers (Z := Z) hwf.q (hwf.nsecs c hcm) hwf.soa hapex
    hin hcl hcc
  -- the next name of the covering link is below the query name
  obtain ⟨m, hm, hqm⟩ := hex
  have hqm' : K q < m := lt_of_le_of_ne' (prefix_le hqm) (fun h => hnd (h ▸ hm))
  have hom : K c.owner < m := lt_trans hccov.1 hqm'
  have hbelow : K q <+: K c.next ∧ K q ≠ K c.next := by
    apply Classical.byContradiction
    intro hnb
    obtain ⟨hd, hpre⟩ := gap_of_link hcl hm hom (below_in_gap hcl hccov hqm hnb)
    rcases prefix_total hpre hqm with h | h
    · exact hcdel ⟨hd, h⟩
    · exact lt_irrefl _ (lt_of_lt_of_le hccov.1 (prefix_le h))
  have hent : isStrictDescendant c.next q = true := by
    unfold isStrictDescendant
    rw [Bool.and_eq_true]
    refine ⟨(zoneOf_iff _ _).2 hbelow.1, ?_⟩
    rw [Bool.not_eq_eq_eq_not, Bool.not_true, Bool.eq_false_iff]
    intro he
    exact hbelow.2 ((eq_iff_key (hwf.nsecs c hcm).2 hwf.q).1 he).symm
  have hst : (startOf q soa (!([] : List Ans).isEmpty)).isSome = true := by
    unfold startOf
    cases soa with
    | none => rfl
    | some s =>
      have : s.zoneOf q = true := (zoneOf_iff _ _).2 (hin s rfl)
      simp [this]
  obtain ⟨n0, hn0⟩ := Option.isSome_iff_exists.1 hst
  have hcov : verifyCovered q qtype soa 0 [] nsecs n0 c = .secure := by
    unfold verifyCovered
    simp only [hent]
    rfl
  unfold verifyNsec
  rw [if_neg (by decide)]
  simp only [hn0, hdirect, hc', hcov]

/-! ### NODATA at an existing owner -/

/-- **A NODATA proof owned by the query name is accepted**: the first record of the response
owned by the query name lacks the type and CNAME in its bitmap (and is not asked about the
NSEC/RRSIG types, nor — as a parent-side delegation record — about anything but DS). -/
theorem completeness_nodata_direct {q : Name} {qtype : Nat} {soa : Option Name}
    {nsecs : List Nsec} {r : Nsec}
    (hstart : (startOf q soa false).isSome = true)
    (hfind : nsecs.find? (fun r => Name.eq q r.owner) = some r)
    (hq : hasType r qtype = false) (hc : hasType r TYPE_CNAME = false)
    (h46 : qtype ≠ 46) (h47 : qtype ≠ 47) (hdel : isDelegation r.types = true → qtype = 43) :
    verifyNsec q qtype soa 0 [] nsecs = .secure := by
  obtain ⟨n0, hn0⟩ := Option.isSome_iff_exists.1 hstart
  unfold verifyNsec
  have hd : (isDelegation r.types && qtype != TYPE_DS) = false := by
    rw [Bool.eq_false_iff]
    intro h
    simp only [Bool.and_eq_true, bne_iff_ne, ne_eq, TYPE_DS] at h
    exact h.2 (hdel h.1)
  have h1 : (qtype == TYPE_NSEC) = false := by simpa [TYPE_NSEC] using h47
  have h2 : (qtype == TYPE_RRSIG) = false := by simpa [TYPE_RRSIG] using h46
  simp [RCODE_NXDOMAIN, RCODE_NOERROR, hn0, hfind, hq, hc, hd, h1, h2]

end HickoryVerif.C08
