/-
C09 — the gate of `verify_nsec3`, for every input, every hash function, every encoder and every
combination of repairs `fx` (in particular for the code as it is, `current`):

* `iterations_above_hard_bogus`     : some record's iteration count > hard limit  ⇒ `Bogus`
* `iterations_above_soft_not_secure`: some record's iteration count > soft limit  ⇒ not `Secure`
* `param_mismatch_bogus`            : two records differ in salt or iterations     ⇒ `Bogus`
* `not_under_soa_bogus`             : SOA given and a record is not `<label>.<soa>` ⇒ `Bogus`
* `bad_rcode_bogus`                 : response code other than NOERROR / NXDOMAIN   ⇒ `Bogus`
-/
import HickoryVerif.Model.Nsec3

namespace HickoryVerif.C09
open HickoryVerif HickoryVerif.Nsec3

theorem mkPairs_cons {soa : Option Name} {r : Rec} {rs : List Rec} {pairs : List Pair}
    (h : mkPairs soa (r :: rs) = some pairs) :
    ∃ l rest ps, r.owner.labels = l :: rest ∧ underSoa soa r.owner = true ∧
      mkPairs soa rs = some ps ∧ pairs = { label := l, data := r } :: ps := by
  unfold mkPairs at h
  cases hl : r.owner.labels with
  | nil => simp [hl] at h
  | cons l rest =>
    simp only [hl] at h
    by_cases hu : underSoa soa r.owner = true
    · by_cases hk : (Name.labelFromRaw l).isOk = true
      · cases hm : mkPairs soa rs with
        | none => simp [hu, hk, hm] at h
        | some ps =>
          simp [hu, hk, hm] at h
          exact ⟨l, rest, ps, rfl, hu, rfl, h.symm⟩
      · simp [hu, hk] at h
    · simp [hu] at h

/-- `mkPairs` keeps the records, in order -/
theorem mkPairs_data {soa : Option Name} {recs : List Rec} {pairs : List Pair}
    (h : mkPairs soa recs = some pairs) : pairs.map (·.data) = recs := by
  induction recs generalizing pairs with
  | nil => simp [mkPairs] at h; subst h; rfl
  | cons r rs ih =>
    obtain ⟨l, rest, ps, _, _, hm, rfl⟩ := mkPairs_cons h
    simp [ih hm]

theorem mem_pairs_of_mem_recs {soa : Option Name} {recs : List Rec} {pairs : List Pair}
    (h : mkPairs soa recs = some pairs) {r : Rec} (hr : r ∈ recs) : ∃ p ∈ pairs, p.data = r := by
  rw [← mkPairs_data h] at hr
  simpa using hr

/-- every pair produced by `mkPairs` carries the first label of its record's owner, and (when a SOA
name is given) the owner's parent is that name -/
theorem mkPairs_spec {soa : Option Name} {recs : List Rec} {pairs : List Pair}
    (h : mkPairs soa recs = some pairs) :
    ∀ p ∈ pairs, p.data ∈ recs ∧ (∃ rest, p.data.owner.labels = p.label :: rest) ∧
      underSoa soa p.data.owner = true := by
  induction recs generalizing pairs with
  | nil => simp [mkPairs] at h; subst h; simp
  | cons r rs ih =>
    obtain ⟨l, rest, ps, hl, hu, hm, rfl⟩ := mkPairs_cons h
    intro p hp
    rcases List.mem_cons.mp hp with rfl | hp
    · exact ⟨by simp, ⟨rest, hl⟩, hu⟩
    · obtain ⟨h1, h2, h3⟩ := ih hm p hp
      exact ⟨List.mem_cons_of_mem _ h1, h2, h3⟩

theorem mkPairs_none_of_not_under {s : Name} {recs : List Rec} {r : Rec} (hr : r ∈ recs)
    (hbad : r.owner.labels = [] ∨ Name.eq (parent r.owner) s = false) :
    mkPairs (some s) recs = none := by
  cases h : mkPairs (some s) recs with
  | none => rfl
  | some pairs =>
    obtain ⟨p, hp, rfl⟩ := mem_pairs_of_mem_recs h hr
    obtain ⟨_, ⟨rest, hl⟩, hs⟩ := mkPairs_spec h p hp
    rcases hbad with hb | hb
    · simp [hb] at hl
    · simp [underSoa, hb] at hs

section
variable (fx : Fixes) (H : Name → Bytes) (enc : Bytes → Bytes)
variable (q : Name) (qtype : Nat) (soa : Option Name) (rcode : Nat) (wl : Option Nat)
variable (recs : List Rec) (soft hard : Nat)

/-- what the gate establishes when the validators proper are reached -/
theorem gate_passed {p : Proof}
    (h : verifyNsec3 fx H enc q qtype soa rcode wl recs soft hard = p) (hp : p ≠ .bogus) :
    ∃ f ps, mkPairs soa recs = some (f :: ps) ∧
      (∀ x ∈ f :: ps, x.data.salt = f.data.salt ∧ x.data.iterations = f.data.iterations) ∧
      f.data.iterations ≤ hard ∧
      (p = .secure → f.data.iterations ≤ soft ∧
        ((rcode = rcNXDomain ∧ validateNxdomain fx H enc q soa (f :: ps) = .secure) ∨
         (rcode = rcNoError ∧ validateNodata fx H enc q qtype soa wl (f :: ps) = .secure))) := by
  unfold verifyNsec3 at h
  split at h
  · exact absurd h.symm hp
  · exact absurd h.symm hp
  · rename_i f ps hm
    refine ⟨f, ps, hm, ?_⟩
    split at h
    · exact absurd h.symm hp
    · rename_i hany
      have hall : ∀ x ∈ f :: ps, x.data.salt = f.data.salt ∧ x.data.iterations = f.data.iterations := by
        have hany' := hany
        simp at hany'
        intro x hx
        rcases List.mem_cons.mp hx with rfl | hx
        · exact ⟨rfl, rfl⟩
        · exact hany' x hx
      refine ⟨hall, ?_⟩
      split at h
      · exact absurd h.symm hp
      · rename_i hh
        refine ⟨by omega, ?_⟩
        intro hsec
        subst hsec
        split at h
        · cases h
        · rename_i hs
          refine ⟨by omega, ?_⟩
          split at h
          · rename_i hrc
            exact .inl ⟨by simpa using hrc, h⟩
          · split at h
            · rename_i hrc
              exact .inr ⟨by simpa using hrc, h⟩
            · cases h

/-- Iteration counts above the hard limit give `Bogus` — whatever else the response contains. -/
theorem iterations_above_hard_bogus (h : ∃ r ∈ recs, r.iterations > hard) :
    verifyNsec3 fx H enc q qtype soa rcode wl recs soft hard = .bogus := by
  obtain ⟨r, hr, hgt⟩ := h
  apply Classical.byContradiction
  intro hne
  obtain ⟨f, ps, hm, hall, hle, _⟩ := gate_passed fx H enc q qtype soa rcode wl recs soft hard rfl hne
  obtain ⟨p, hp, rfl⟩ := mem_pairs_of_mem_recs hm hr
  have := (hall p hp).2
  omega

/-- Iteration counts above the soft limit never give `Secure`. -/
theorem iterations_above_soft_not_secure (h : ∃ r ∈ recs, r.iterations > soft) :
    verifyNsec3 fx H enc q qtype soa rcode wl recs soft hard ≠ .secure := by
  obtain ⟨r, hr, hgt⟩ := h
  intro hsec
  obtain ⟨f, ps, hm, hall, _, hs⟩ :=
    gate_passed fx H enc q qtype soa rcode wl recs soft hard hsec (by simp)
  obtain ⟨p, hp, rfl⟩ := mem_pairs_of_mem_recs hm hr
  have := (hall p hp).2
  have := (hs rfl).1
  omega

/-- All records must share salt and iteration count (RFC 5155 §8.2). -/
theorem param_mismatch_bogus
    (h : ∃ r₁ ∈ recs, ∃ r₂ ∈ recs, r₁.salt ≠ r₂.salt ∨ r₁.iterations ≠ r₂.iterations) :
    verifyNsec3 fx H enc q qtype soa rcode wl recs soft hard = .bogus := by
  obtain ⟨r₁, h₁, r₂, h₂, hne⟩ := h
  apply Classical.byContradiction
  intro hb
  obtain ⟨f, ps, hm, hall, _, _⟩ := gate_passed fx H enc q qtype soa rcode wl recs soft hard rfl hb
  obtain ⟨p₁, hp₁, rfl⟩ := mem_pairs_of_mem_recs hm h₁
  obtain ⟨p₂, hp₂, rfl⟩ := mem_pairs_of_mem_recs hm h₂
  have a := hall p₁ hp₁
  have b := hall p₂ hp₂
  rcases hne with hne | hne
  · exact hne (a.1.trans b.1.symm)
  · exact hne (a.2.trans b.2.symm)

/-- With a SOA name, every record must be `<one label>.<SOA name>`. -/
theorem not_under_soa_bogus (s : Name)
    (h : ∃ r ∈ recs, r.owner.labels = [] ∨ Name.eq (parent r.owner) s = false) :
    verifyNsec3 fx H enc q qtype (some s) rcode wl recs soft hard = .bogus := by
  obtain ⟨r, hr, hbad⟩ := h
  unfold verifyNsec3
  rw [mkPairs_none_of_not_under hr hbad]

/-- Only NOERROR and NXDOMAIN responses can be proved. -/
theorem bad_rcode_bogus (h0 : rcode ≠ rcNoError) (h3 : rcode ≠ rcNXDomain) :
    verifyNsec3 fx H enc q qtype soa rcode wl recs soft hard ≠ .secure := by
  intro hsec
  obtain ⟨_, _, _, _, _, hs⟩ :=
    gate_passed fx H enc q qtype soa rcode wl recs soft hard hsec (by simp)
  rcases (hs rfl).2 with ⟨h, _⟩ | ⟨h, _⟩
  · exact h3 h
  · exact h0 h

end

/-! non-vacuity: the hypotheses are satisfiable and the conclusions are not trivial -/

private def r0 : Rec :=
  { owner := { labels := [[48], [122]], fqdn := true }, next := [1], optOut := false,
    iterations := 101, salt := [], types := [] }

example : ∃ r ∈ [r0], r.iterations > 100 := ⟨r0, by simp, by decide⟩
example : verifyNsec3 current (fun _ => [0]) base32hex ⟨[[122]], true⟩ 1 (some ⟨[[122]], true⟩) 0 none
    [r0] 100 500 = .insecure := by decide
example : verifyNsec3 current (fun _ => [0]) base32hex ⟨[[122]], true⟩ 1 (some ⟨[[122]], true⟩) 0 none
    [{ r0 with iterations := 501 }] 100 500 = .bogus := by decide

end HickoryVerif.C09
