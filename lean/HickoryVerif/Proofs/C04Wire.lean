/-
C04 (part 3) — a name of arbitrary octets is unchanged, including letter case, by
(uncompressed) wire encoding and decoding, at any message offset.  The compressed case is
`C02.emitName_readName` (Proofs/C02.lean).
-/
import HickoryVerif.Model.NameWire
import HickoryVerif.Proofs.C04Bounds

namespace HickoryVerif.C04
open HickoryVerif HickoryVerif.Name

theorem getElem?_mid (pre : Bytes) (x : Nat) (post : Bytes) :
    (pre ++ x :: post)[pre.length]? = some x := by
  simp

theorem drop_take_mid (pre l post : Bytes) (x : Nat) :
    ((pre ++ x :: (l ++ post)).drop (pre.length + 1)).take l.length = l := by
  have : pre ++ x :: (l ++ post) = (pre ++ [x]) ++ (l ++ post) := by simp
  rw [this, List.drop_append_of_le_length (by simp)]
  simp

/-- Reading the labels `ls` followed by the root octet, from any accumulator that leaves room. -/
theorem readLabels_wire' (ls : List Bytes) :
    ∀ (buf pre post : Bytes) (ns pos : Nat) (acc : Name),
      buf = pre ++ ((ls.map emitLabel).flatten ++ 0 :: post) → pos = pre.length →
      (∀ l ∈ ls, 1 ≤ l.length ∧ l.length ≤ 63) →
      acc.encodedLen + ls.length + (ls.map List.length).sum ≤ 255 →
      readLabels buf pos ns none acc
        = .ok ({ labels := acc.labels ++ ls, fqdn := true },
               pos + (ls.map emitLabel).flatten.length + 1) := by
  induction ls with
  | nil =>
    intro buf pre post ns pos acc hbuf hpos _ _
    subst hbuf hpos
    rw [readLabels]
    have hget : (pre ++ ((List.map emitLabel []).flatten ++ 0 :: post))[pre.length]? = some 0 := by
      simp
    simp [hget]
  | cons l ls ih =>
    intro buf pre post ns pos acc hbuf hpos hls hfit
    have hl := hls l (by simp)
    simp only [List.length_cons, List.map_cons, List.sum_cons] at hfit
    have hbuf' : buf = pre ++ l.length :: (l ++ ((ls.map emitLabel).flatten ++ 0 :: post)) := by
      rw [hbuf]; simp [emitLabel]
    clear hbuf
    subst hbuf' hpos
    have hget : (pre ++ l.length :: (l ++ ((ls.map emitLabel).flatten ++ 0 :: post)))[pre.length]?
        = some l.length := getElem?_mid _ _ _
    have hne : l.length ≠ 0 := by omega
    have hdiv3 : ¬ (l.length / 64 = 3) := by omega
    have hdiv0 : l.length / 64 = 0 := by omega
    have hfits : pre.length + 1 + l.length ≤
        (pre ++ l.length :: (l ++ ((ls.map emitLabel).flatten ++ 0 :: post))).length := by
      simp only [List.length_append, List.length_cons]; omega
    have hdt : ((pre ++ l.length :: (l ++ ((ls.map emitLabel).flatten ++ 0 :: post))).drop
        (pre.length + 1)).take l.length = l := drop_take_mid _ _ _ _
    have hext : acc.extendName l = .ok { acc with labels := acc.labels ++ [l] } := by
      unfold extendName; simp only [MAX_LENGTH]
      have hc : ¬ (acc.encodedLen + l.length + 1 > 255) := by omega
      simp [hc]
    rw [readLabels]
    have h03 : ¬ ((0 : Nat) = 3) := by decide
    simp only [hget, Bool.false_eq_true, ↓reduceIte, hne, hdiv0, h03, hfits, ↓reduceDIte, hdt,
      hext]
    rw [ih _ (pre ++ l.length :: l) post ns (pre.length + 1 + l.length) _ (by simp)
      (by simp only [List.length_append, List.length_cons]; omega) (fun x hx => hls x (by simp [hx]))
      (by rw [encodedLen_snoc]; omega)]
    simp only [List.append_assoc, List.singleton_append, List.map_cons, List.flatten_cons,
      emitLabel, List.length_append, List.length_cons, Outcome.ok.injEq, Prod.mk.injEq, true_and]
    omega

theorem readLabels_wire (ls : List Bytes) (pre post : Bytes) (ns : Nat) (acc : Name)
    (hls : ∀ l ∈ ls, 1 ≤ l.length ∧ l.length ≤ 63)
    (hfit : acc.encodedLen + ls.length + (ls.map List.length).sum ≤ 255) :
    readLabels (pre ++ ((ls.map emitLabel).flatten ++ 0 :: post)) pre.length ns none acc
      = .ok ({ labels := acc.labels ++ ls, fqdn := true },
             pre.length + (ls.map emitLabel).flatten.length + 1) :=
  readLabels_wire' ls _ pre post ns _ acc rfl rfl hls hfit

theorem len_lt_of_bounded {n : Name} (hn : Bounded n) : ¬ (n.len ≥ 255) := by
  have h1 := hn.1
  unfold encodedLen at h1
  unfold len
  cases h : n.labels with
  | nil => simp [dataLen, h]
  | cons a t => simp only [List.isEmpty_cons, Bool.false_eq_true, ↓reduceIte]; rw [h] at h1; omega

/-- **Uncompressed wire round trip at any offset, inside any surrounding bytes:**
decoding what `Name::emit` wrote gives back the same labels (octet for octet, so letter case is
preserved), marks the name fully qualified, and consumes exactly the emitted bytes. -/
theorem wire_roundtrip (n : Name) (pre post : Bytes) (hn : Bounded n) :
    ∃ bs, emitUncompressed n = .ok bs ∧
      readName (pre ++ bs ++ post) pre.length
        = .ok ({ n with fqdn := true }, pre.length + bs.length) := by
  have hwl : (wire n).length = n.encodedLen := by
    unfold wire encodedLen dataLen
    simp only [List.length_append, List.length_flatten, List.map_map, List.length_cons,
      List.length_nil]
    have : ∀ ls : List Bytes, ((ls.map (List.length ∘ emitLabel))).sum
        = ls.length + (ls.map List.length).sum := by
      intro ls
      induction ls with
      | nil => rfl
      | cons l ls ih => simp only [List.map_cons, List.sum_cons, Function.comp, emitLabel,
          List.length_cons, ih]; omega
    rw [this]
  refine ⟨wire n, ?_, ?_⟩
  · unfold emitUncompressed
    have hany : n.labels.any (fun l => decide (l.length > 63)) = false := by
      rw [List.any_eq_false]; intro l hl; have := (hn.2 l hl).2; simp; omega
    have hc : ¬ ((wire n).length > 255) := by rw [hwl]; exact Nat.not_lt.mpr hn.1
    simp [hany, hc]
  · unfold readName
    have h1 := hn.1
    unfold encodedLen dataLen at h1
    have := readLabels_wire n.labels pre post pre.length new hn.2 (by
      show new.encodedLen + _ + _ ≤ 255
      have : new.encodedLen = 1 := rfl
      omega)
    have hbuf : pre ++ wire n ++ post = pre ++ ((n.labels.map emitLabel).flatten ++ 0 :: post) := by
      simp [wire]
    rw [hbuf, this]
    have hb : Bounded ({ labels := new.labels ++ n.labels, fqdn := true } : Name) := by
      simpa [new] using (show Bounded { n with fqdn := true } from hn)
    simp only [len_lt_of_bounded hb, ↓reduceIte]
    simp [new, wire]
    omega

-- non-vacuity
example : Bounded { labels := [[87, 119, 0, 255], [46]], fqdn := true } := by decide

end HickoryVerif.C04
