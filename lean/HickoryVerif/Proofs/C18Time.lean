/-
C18 — time: what bounds the completion time of `try_send` (the deadline clause) and termination.
-/
import HickoryVerif.Model.Pool
import HickoryVerif.Model.PoolPreFix

namespace HickoryVerif.C18
open HickoryVerif HickoryVerif.Pool

/-! ## latency bounds of the scripted servers -/

def script (s : Server) : Proto → List Step
  | .udp => s.udp.getD []
  | .tcp => s.tcp.getD []

/-- every single request/response takes at most `L` ms (in the real stack: the stream's own timeout,
`options.timeout`) -/
def LatLe (cfg : Cfg) (L : Nat) : Prop := ∀ i p pos, (stepAt (script (server cfg i) p) pos).lat ≤ L

/-- every single request/response takes at least 1 ms -/
def LatPos (cfg : Cfg) : Prop := ∀ i p pos, 1 ≤ (stepAt (script (server cfg i) p) pos).lat

def allSteps (cfg : Cfg) : List Step :=
  cfg.servers.flatMap fun s => s.udp.getD [] ++ s.tcp.getD []

theorem stepAt_mem_or_default (sc : List Step) (pos : Nat) :
    stepAt sc pos ∈ sc ∨ stepAt sc pos = ⟨.io, 1⟩ := by
  unfold stepAt
  rw [List.getD_eq_getElem?_getD]
  cases h : sc[min pos (sc.length - 1)]? with
  | none => right; simp
  | some x => left; simpa using List.mem_of_getElem? h

theorem script_subset (cfg : Cfg) (i : Nat) (p : Proto) (x : Step)
    (hx : x ∈ script (server cfg i) p) : x ∈ allSteps cfg := by
  unfold server at hx
  rw [List.getD_eq_getElem?_getD] at hx
  cases h : cfg.servers[i]? with
  | none => cases p <;> simp [h, script] at hx
  | some s =>
    have hs : s ∈ cfg.servers := List.mem_of_getElem? h
    simp only [h, Option.getD_some] at hx
    simp only [allSteps, List.mem_flatMap]
    refine ⟨s, hs, ?_⟩
    cases p <;> simp_all [script]

/-- decidable sufficient condition for `LatLe` -/
theorem latLe_of_all (cfg : Cfg) (L : Nat) (h1 : 1 ≤ L) (h : ∀ x ∈ allSteps cfg, x.lat ≤ L) :
    LatLe cfg L := by
  intro i p pos
  rcases stepAt_mem_or_default (script (server cfg i) p) pos with hm | hd
  · exact h _ (script_subset cfg i p _ hm)
  · rw [hd]; exact h1

theorem latPos_of_all (cfg : Cfg) (h : ∀ x ∈ allSteps cfg, 1 ≤ x.lat) : LatPos cfg := by
  intro i p pos
  rcases stepAt_mem_or_default (script (server cfg i) p) pos with hm | hd
  · exact h _ (script_subset cfg i p _ hm)
  · rw [hd]; exact Nat.le_refl 1

/-! ## one server request -/

theorem exchange_fin (s : Server) (c : Conn) (p : Proto) (t : Nat) :
    (exchange s c p t).2.1 = t + (stepAt (script s p) (match p with | .udp => c.posU | .tcp => c.posT)).lat := by
  cases p <;> simp [exchange, script]

theorem nsSendOnce_fin_ge (s : Server) (c : Conn) (du : Bool) (t : Nat) :
    t ≤ (nsSendOnce s c du t).fin := by
  unfold nsSendOnce
  split
  · simp
  all_goals (simp only [exchange_fin]; exact Nat.le_add_right _ _)

theorem nsSendOnce_fin_le (cfg : Cfg) (L : Nat) (hL : LatLe cfg L) (i : Nat) (c : Conn) (du : Bool) (t : Nat) :
    (nsSendOnce (server cfg i) c du t).fin ≤ t + L := by
  unfold nsSendOnce
  split
  · simp
  all_goals
    rename_i p _
    simp only [exchange_fin]
    exact Nat.add_le_add_left (hL i p _) t

theorem nsSend_reused (s : Server) (c : Conn) (du : Bool) (t : Nat) (p : Proto)
    (hc : choose s c du = .reused p) :
    (nsSend s c du t).fin =
      if (exchange s c p t).1 = .rst then
        (nsSendOnce s (exchange s c p t).2.2 du (exchange s c p t).2.1).fin
      else (exchange s c p t).2.1 := by
  by_cases hr : (exchange s c p t).1 = .rst <;> simp [nsSend, hc, hr]

theorem nsSend_not_reused (s : Server) (c : Conn) (du : Bool) (t : Nat)
    (hc : ∀ p, choose s c du ≠ .reused p) : nsSend s c du t = nsSendOnce s c du t := by
  unfold nsSend
  split
  · rename_i p h; exact absurd h (hc p)
  · rfl

/-- a server request (including the one reconnect) ends within `2·L` -/
theorem nsSend_fin_le (cfg : Cfg) (L : Nat) (hL : LatLe cfg L) (i : Nat) (c : Conn) (du : Bool) (t : Nat) :
    (nsSend (server cfg i) c du t).fin ≤ t + 2 * L := by
  by_cases hc : ∃ p, choose (server cfg i) c du = .reused p
  · obtain ⟨p, hc⟩ := hc
    rw [nsSend_reused _ _ _ _ p hc]
    have h2 : (exchange (server cfg i) c p t).2.1 ≤ t + L := by
      rw [exchange_fin]; exact Nat.add_le_add_left (hL i p _) t
    split
    · have h1 := nsSendOnce_fin_le cfg L hL i (exchange (server cfg i) c p t).2.2 du (exchange (server cfg i) c p t).2.1
      omega
    · omega
  · rw [nsSend_not_reused _ _ _ _ (fun p h => hc ⟨p, h⟩)]
    have := nsSendOnce_fin_le cfg L hL i c du t
    omega

theorem choose_ne_none (cfg : Cfg) (du : Bool) (i : Nat) (c : Conn) (h : allows cfg du i = true) :
    choose (server cfg i) c du ≠ .none := by
  unfold allows at h
  unfold choose
  cases du <;> cases hu : c.liveU <;> cases ht : c.liveT <;>
    cases h1 : (server cfg i).udp.isSome <;> cases h2 : (server cfg i).tcp.isSome <;> simp_all

/-- a request to a server the policy allows takes at least one exchange -/
theorem nsSend_fin_ge (cfg : Cfg) (hP : LatPos cfg) (i : Nat) (c : Conn) (du : Bool) (t : Nat)
    (h : allows cfg du i = true) : t + 1 ≤ (nsSend (server cfg i) c du t).fin := by
  have hne := choose_ne_none cfg du i c h
  have hx : ∀ p, t + 1 ≤ (exchange (server cfg i) c p t).2.1 := by
    intro p; rw [exchange_fin]; exact Nat.add_le_add_left (hP i p _) t
  by_cases hc : ∃ p, choose (server cfg i) c du = .reused p
  · obtain ⟨p, hc⟩ := hc
    rw [nsSend_reused _ _ _ _ p hc]
    split
    · have h1 := nsSendOnce_fin_ge (server cfg i) (exchange (server cfg i) c p t).2.2 du (exchange (server cfg i) c p t).2.1
      have := hx p
      omega
    · exact hx p
  · rw [nsSend_not_reused _ _ _ _ (fun p h => hc ⟨p, h⟩)]
    unfold nsSendOnce
    split
    · rename_i hc'; exact absurd hc' hne
    all_goals (rename_i p _; exact hx p)

/-! ## one batch -/

theorem takeBatch_allowed (cfg : Cfg) (du : Bool) (n : Nat) (q acc : List Nat) :
    ∀ i ∈ (takeBatch cfg du n q acc).1, i ∈ acc ∨ allows cfg du i = true := by
  induction q generalizing acc with
  | nil => intro i hi; left; simpa [takeBatch] using hi
  | cons x xs ih =>
    intro i hi
    simp only [takeBatch] at hi
    split at hi
    · split at hi
      · rename_i hax
        rcases ih _ i hi with h | h
        · simp only [List.mem_append, List.mem_singleton] at h
          rcases h with h | h
          · left; exact h
          · right; rw [h]; exact hax
        · right; exact h
      · exact ih _ i hi
    · left; exact hi

theorem sendBatch_fin_le (cfg : Cfg) (L : Nat) (hL : LatLe cfg L) (du : Bool) (t : Nat)
    (is : List Nat) (conns : List Conn) :
    ∀ ev ∈ (sendBatch cfg du t is conns).1, ev.fin ≤ t + 2 * L := by
  induction is generalizing conns with
  | nil => intro ev h; simp [sendBatch] at h
  | cons i is ih =>
    intro ev h
    simp only [sendBatch, List.mem_cons] at h
    rcases h with h | h
    · rw [h]; exact nsSend_fin_le cfg L hL i _ du t
    · exact ih _ ev h

theorem sendBatch_fin_ge (cfg : Cfg) (hP : LatPos cfg) (du : Bool) (t : Nat)
    (is : List Nat) (conns : List Conn) (ha : ∀ i ∈ is, allows cfg du i = true) :
    ∀ ev ∈ (sendBatch cfg du t is conns).1, t + 1 ≤ ev.fin := by
  induction is generalizing conns with
  | nil => intro ev h; simp [sendBatch] at h
  | cons i is ih =>
    intro ev h
    simp only [sendBatch, List.mem_cons] at h
    rcases h with h | h
    · rw [h]; exact nsSend_fin_ge cfg hP i _ du t (ha i (by simp))
    · exact ih _ (fun j hj => ha j (by simp [hj])) ev h

theorem sendBatch_ne_nil (cfg : Cfg) (du : Bool) (t : Nat) (is : List Nat) (conns : List Conn)
    (h : is ≠ []) : (sendBatch cfg du t is conns).1 ≠ [] := by
  cases is with
  | nil => exact absurd rfl h
  | cons i is => simp [sendBatch]

theorem mem_insertEv (e x : Event) (l : List Event) : x ∈ insertEv e l ↔ x = e ∨ x ∈ l := by
  induction l with
  | nil => simp [insertEv]
  | cons y ys ih =>
    simp only [insertEv]
    split
    · simp
    · simp only [List.mem_cons, ih]
      constructor
      · rintro (h | h | h) <;> simp [h]
      · rintro (h | h | h) <;> simp [h]

theorem mem_sortEvents (x : Event) (l : List Event) : x ∈ sortEvents l ↔ x ∈ l := by
  induction l with
  | nil => simp [sortEvents]
  | cons y ys ih => simp [sortEvents, mem_insertEv, ih]

theorem sortEvents_ne_nil (l : List Event) (h : l ≠ []) : sortEvents l ≠ [] := by
  cases l with
  | nil => exact absurd rfl h
  | cons y ys =>
    intro hn
    have : y ∈ sortEvents (y :: ys) := (mem_sortEvents y _).mpr (by simp)
    rw [hn] at this
    simp at this

theorem processEvent_clock (cfg : Cfg) (st : PState) (ev : Event) :
    (processEvent cfg st ev).1.clock = st.clock ∧ (processEvent cfg st ev).1.backoff = st.backoff := by
  unfold processEvent
  split <;> try simp
  split <;> simp

/-- handling replies never moves the clock past the deadline (since fix 92faead the wait for every
reply is raced against the remaining budget); the back-off is untouched -/
theorem processEvents_clock_le (cfg : Cfg) (dl : Nat) (evs : List Event) :
    ∀ (st : PState), st.clock ≤ dl →
      (processEvents cfg dl st evs).1.clock ≤ dl ∧
      (processEvents cfg dl st evs).1.backoff = st.backoff := by
  induction evs with
  | nil => intro st h; simp [processEvents, h]
  | cons ev evs ih =>
    intro st h
    simp only [processEvents]
    split
    · simp only
      exact ⟨by omega, trivial⟩
    · rename_i hfin
      have hc := processEvent_clock cfg { st with clock := ev.fin } ev
      split
      · rename_i st' r heq
        rw [heq] at hc
        simp only at hc ⊢
        exact ⟨by omega, hc.2⟩
      · rename_i st' heq
        rw [heq] at hc
        simp only at hc
        have := ih st' (by omega)
        exact ⟨this.1, by rw [this.2, hc.2]⟩

/-- a batch that does not end the lookup leaves the clock at the end of one of its requests -/
theorem processEvents_none_clock (cfg : Cfg) (dl : Nat) (evs : List Event) :
    ∀ (st : PState), evs ≠ [] → (processEvents cfg dl st evs).2 = none →
      ∃ ev ∈ evs, (processEvents cfg dl st evs).1.clock = ev.fin := by
  induction evs with
  | nil => intro st h; exact absurd rfl h
  | cons ev evs ih =>
    intro st _ hnone
    simp only [processEvents] at hnone ⊢
    split
    · rename_i hcut; simp [hcut] at hnone
    · rename_i hfin
      simp only [hfin, if_false] at hnone
      have hc := processEvent_clock cfg { st with clock := ev.fin } ev
      split
      · rename_i st' r heq; rw [heq] at hnone; simp at hnone
      · rename_i st' heq
        rw [heq] at hc hnone
        simp only at hc hnone
        by_cases he : evs = []
        · subst he
          exact ⟨ev, by simp, by simp [processEvents, hc.1]⟩
        · obtain ⟨e, hem, hcl⟩ := ih st' he hnone
          exact ⟨e, by simp [hem], hcl⟩

/-! ## the deadline clause (FULL strength since fix 92faead)

`trySend cfg rrNext t0 conns fuel = some (r, st') → st'.clock ≤ t0 + cfg.timeout`, for every
configuration, every behaviour and latency of the servers, every pool history.

What remains outside the theorem is the granularity of the real clock and timer, which the model
abstracts to "the pool reacts in zero time and timers fire exactly": the real `Timer::delay_for(remaining)`
(tokio: 1 ms wheel, rounding up) fires no earlier than the deadline and as much later as the timer
resolution and the scheduler allow; the correspondence run tolerates 40 ms.  No other path waits:
connection set-up and the reconnect after a reset are inside the request future that is raced, the
back-off sleep is capped by the remaining budget, and a caller joining a shared lookup is served by a
deadline that started before its own. -/

theorem round_clock_le (cfg : Cfg) (dl : Nat) (st : PState) (h : st.clock ≤ dl) :
    (round cfg dl st).state.clock ≤ dl := by
  unfold round
  split
  · exact h
  · rename_i hlt
    simp only
    split
    · split
      · split
        · exact h
        · simp only [RoundOut.state]
          omega
      · exact h
    · split
      all_goals
        rename_i st2 _ heq
        have hc := (processEvents_clock_le cfg dl
          (sortEvents (sendBatch cfg st.disableUdp st.clock
            (takeBatch cfg st.disableUdp (max cfg.ncr 1) st.queue []).1 st.conns).1)
          { st with queue := (takeBatch cfg st.disableUdp (max cfg.ncr 1) st.queue []).2,
                    conns := (sendBatch cfg st.disableUdp st.clock
                      (takeBatch cfg st.disableUdp (max cfg.ncr 1) st.queue []).1 st.conns).2.1,
                    log := st.log ++ ((sendBatch cfg st.disableUdp st.clock
                      (takeBatch cfg st.disableUdp (max cfg.ncr 1) st.queue []).1 st.conns).2.2).filter
                        (fun e => e.2.start ≤ dl) } h).1
        rw [heq] at hc
        simpa [RoundOut.state, cancelInFlight] using hc

theorem run_clock_le (cfg : Cfg) (dl : Nat) (fuel : Nat) :
    ∀ (st : PState) (r : Res) (st' : PState), st.clock ≤ dl →
      run cfg dl fuel st = some (r, st') → st'.clock ≤ dl := by
  induction fuel with
  | zero => intro st r st' _ h; simp [run] at h
  | succ n ih =>
    intro st r st' hst h
    have hr := round_clock_le cfg dl st hst
    simp only [run] at h
    split at h
    · rename_i r0 st0 heq
      rw [heq] at hr
      simp only [Option.some.injEq, Prod.mk.injEq] at h
      rw [← h.2]; exact hr
    · rename_i st0 heq
      rw [heq] at hr
      exact ih st0 r st' hr h

/-- **deadline clause, full strength**: in every case the lookup completes — with an answer or an
error — no later than the configured timeout. -/
theorem completion_le_deadline (cfg : Cfg) (rrNext t0 : Nat) (conns : List Conn) (fuel : Nat)
    (r : Res) (st' : PState) (h : trySend cfg rrNext t0 conns fuel = some (r, st')) :
    st'.clock ≤ t0 + cfg.timeout := by
  unfold trySend at h
  exact run_clock_le cfg _ fuel _ r st' (by simp [initState]) h

/-- the configuration of the repaired finding C18-F1: timeout 200 ms; server 0 fails with an I/O error
after 160 ms; server 1 never answers and gives up after its own 200 ms timeout -/
def cfgOverrun : Cfg :=
  ⟨[⟨true, 0, some [⟨.io, 160⟩], none⟩, ⟨true, 0, some [⟨.to, 200⟩], none⟩], .user, 1, 200⟩

/-- non-vacuity / regression: the repaired loop abandons server 1 and returns `Timeout` at 200 ms … -/
example : (trySend cfgOverrun 0 0 [] 10).map (fun x => (x.1, x.2.clock, x.2.log)) =
    some (.err .timeout, 200, [(0, ⟨.udp, 0⟩), (1, ⟨.udp, 160⟩)]) := by decide

/-- … whereas the loop before fix 92faead (`Model/PoolPreFix.lean`: deadline read only between rounds)
completed 360 ms after it started although every single exchange respected the 200 ms timeout.
(Was `completion_le_deadline_false`, the counter-example to the full clause.) -/
theorem prefix_completion_overrun :
    (PreFix.trySend cfgOverrun 0 0 [] 10).map (fun x => (x.1, x.2.clock)) = some (.err .timeout, 360) ∧
    ¬ (360 ≤ 0 + cfgOverrun.timeout) := by
  decide

/-- a round that finds the clock at or past the deadline sends nothing -/
theorem no_round_after_deadline (cfg : Cfg) (dl : Nat) (st : PState) (h : dl ≤ st.clock) :
    round cfg dl st = .done (.err .timeout) st := by
  simp [round, h]

/-- a reset on a reused connection at 150 ms, the reconnected request would end at 350 ms: abandoned at
the deadline like any other request (the reconnect is inside the raced request) -/
example : (trySend ⟨[⟨true, 0, some [⟨.rst, 150⟩, ⟨.to, 200⟩], none⟩], .user, 1, 200⟩ 0 0
      [{ liveU := true }] 10).map (fun x => (x.1, x.2.clock, x.2.log)) =
    some (.err .timeout, 200, [(0, ⟨.udp, 0⟩), (0, ⟨.udp, 150⟩)]) := by decide

/-! ## termination

The measure "servers in the queue + busy servers + back-off steps" does NOT decrease: a truncated
reply or a case mismatch puts the server back at the front of the queue (a TCP server that keeps
answering truncated is asked again and again).  What ends every lookup is the clock: a round that
sends anything advances it (every exchange takes time), a round that sleeps doubles the back-off, and
the loop stops at the deadline (at the latest: the wait for a reply is cut there) or when the back-off
reaches its limit. -/

def measure (dl : Nat) (st : PState) : Nat := (dl - st.clock) + (BACKOFF_LIMIT - st.backoff)

theorem round_next_measure (cfg : Cfg) (hP : LatPos cfg) (dl : Nat) (st st' : PState)
    (hb : 1 ≤ st.backoff) (h : round cfg dl st = .next st') :
    measure dl st' < measure dl st ∧ 1 ≤ st'.backoff := by
  unfold round at h
  split at h
  · simp at h
  · rename_i hlt
    simp only at h
    split at h
    · split at h
      · rename_i hbusy
        split at h
        · simp at h
        · simp only [RoundOut.next.injEq] at h
          have hbl : st.backoff < BACKOFF_LIMIT := by
            simp only [Bool.and_eq_true, decide_eq_true_eq] at hbusy
            exact hbusy.2
          subst h
          simp only [measure]
          refine ⟨?_, by omega⟩
          have : dl - (st.clock + min st.backoff (dl - st.clock)) ≤ dl - st.clock := by omega
          omega
      · simp at h
    · rename_i hne
      split at h
      · simp at h
      · rename_i st2 heq
        simp only [RoundOut.next.injEq] at h
        subst h
        have hne' : (takeBatch cfg st.disableUdp (max cfg.ncr 1) st.queue []).1 ≠ [] := by
          intro hnil; simp [hnil] at hne
        have hall : ∀ i ∈ (takeBatch cfg st.disableUdp (max cfg.ncr 1) st.queue []).1,
            allows cfg st.disableUdp i = true := by
          intro i hi
          rcases takeBatch_allowed cfg st.disableUdp _ st.queue [] i hi with h | h
          · simp at h
          · exact h
        have hev := sendBatch_ne_nil cfg st.disableUdp st.clock _ st.conns hne'
        have hnone : (processEvents cfg dl
            { st with queue := (takeBatch cfg st.disableUdp (max cfg.ncr 1) st.queue []).2,
                      conns := (sendBatch cfg st.disableUdp st.clock
                        (takeBatch cfg st.disableUdp (max cfg.ncr 1) st.queue []).1 st.conns).2.1,
                      log := st.log ++ ((sendBatch cfg st.disableUdp st.clock
                        (takeBatch cfg st.disableUdp (max cfg.ncr 1) st.queue []).1 st.conns).2.2).filter
                          (fun e => e.2.start ≤ dl) }
            (sortEvents (sendBatch cfg st.disableUdp st.clock
              (takeBatch cfg st.disableUdp (max cfg.ncr 1) st.queue []).1 st.conns).1)).2 = none := by
          rw [heq]
        have hc := processEvents_none_clock cfg dl _ _ (sortEvents_ne_nil _ hev) hnone
        have hbk := (processEvents_clock_le cfg dl
          (sortEvents (sendBatch cfg st.disableUdp st.clock
            (takeBatch cfg st.disableUdp (max cfg.ncr 1) st.queue []).1 st.conns).1)
          { st with queue := (takeBatch cfg st.disableUdp (max cfg.ncr 1) st.queue []).2,
                    conns := (sendBatch cfg st.disableUdp st.clock
                      (takeBatch cfg st.disableUdp (max cfg.ncr 1) st.queue []).1 st.conns).2.1,
                    log := st.log ++ ((sendBatch cfg st.disableUdp st.clock
                      (takeBatch cfg st.disableUdp (max cfg.ncr 1) st.queue []).1 st.conns).2.2).filter
                        (fun e => e.2.start ≤ dl) } (by simp only; omega)).2
        rw [heq] at hc hbk
        obtain ⟨ev, hev, hc⟩ := hc
        have hge := sendBatch_fin_ge cfg hP st.disableUdp st.clock _ st.conns hall ev
          ((mem_sortEvents ev _).mp hev)
        simp only at hc hbk
        simp only [measure]
        rw [hbk]
        refine ⟨?_, hb⟩
        omega

theorem run_terminates (cfg : Cfg) (hP : LatPos cfg) (dl : Nat) :
    ∀ (n : Nat) (st : PState), measure dl st < n → 1 ≤ st.backoff →
      ∃ r, run cfg dl n st = some r := by
  intro n
  induction n with
  | zero => intro st h; omega
  | succ n ih =>
    intro st hm hb
    simp only [run]
    cases hr : round cfg dl st with
    | done r st' => exact ⟨(r, st'), rfl⟩
    | next st' =>
      have := round_next_measure cfg hP dl st st' hb hr
      exact ih st' (by omega) this.2

/-- **termination**: when every exchange takes time, `try_send` returns within `timeout + 281` rounds,
whatever the servers do (including servers that are re-queued for ever) -/
theorem terminates (cfg : Cfg) (hP : LatPos cfg) (rrNext t0 : Nat) (conns : List Conn) :
    ∃ r, trySend cfg rrNext t0 conns (cfg.timeout + 281) = some r := by
  unfold trySend
  apply run_terminates cfg hP
  · simp [measure, initState, BACKOFF_LIMIT, BACKOFF_START]
  · simp [initState, BACKOFF_START]

/-- a TCP server that answers truncated for ever: re-queued at the front every round (so the
queue never shrinks) and ended only by the deadline, in the 34th round -/
def cfgRequeue : Cfg := ⟨[⟨true, 0, none, some [⟨.tc, 3⟩]⟩], .user, 1, 100⟩

example : LatPos cfgRequeue := latPos_of_all _ (by decide)
example : (trySend cfgRequeue 0 0 [] 40).map (fun x => (x.1, x.2.clock, x.2.log.length)) =
    some (.err .timeout, 100, 34) := by decide

end HickoryVerif.C18
