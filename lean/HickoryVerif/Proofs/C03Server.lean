/-
C03 — the server path decodes (stage 3).

`MessageResponse::encode` writes the question as the octets received (`QueriesEmitAndCount::emit`) and
remembers them as ONE compression candidate — name, root octet, type and class together — which can
never match a name (`deadCand_question`); the candidate-table invariant tolerates such candidates
(`DeadCand`, Lemmas/NameEmitLemmas.lean).  So everything proved about `emit_message_parts` carries over:

* `encodeParts_reads_edns` / `encodeParts_reads` : what `emit_message_parts` writes for a response whose
  question octets are `questionWire q` (the form `Queries::read` keeps: plain wire name, type, class) is
  read back, to the last octet, as the response cut to the records written;
* `encodeResponse_decodes_partial` : what `MessageResponse::encode` hands to the stream — the response
  under the limit chosen, or the header-only SERVFAIL of the fallback path — decodes with nothing left
  over: sections prefixes of the response's, OPT kept or dropped as a whole, TC set iff something
  was dropped; or the SERVFAIL header.
-/
import HickoryVerif.Proofs.C02Tsig
namespace HickoryVerif.C03
open HickoryVerif HickoryVerif.Name HickoryVerif.Wire HickoryVerif.C02

/-- the question octets in the form `Queries::read` keeps them: plain wire name, type, class -/
def questionWire (q : Query) : Bytes := Name.wire q.name ++ (u16b q.qtype ++ u16b q.qclass)

theorem deadCand_flat_zero : ∀ (qls : List Bytes) (rest : Bytes), DeadCand (flat qls ++ 0 :: rest)
  | [], rest => by
    intro ls hl h
    cases ls with
    | nil => simp at h
    | cons l t =>
      simp only [flat_nil, List.nil_append, flat_cons, List.cons.injEq] at h
      have := (hl l (by simp)).1
      omega
  | q :: qs, rest => by
    intro ls hl h
    cases ls with
    | nil => simp at h
    | cons l t =>
      simp only [flat_cons, List.cons_append, List.cons.injEq, List.append_assoc] at h
      obtain ⟨hlen, htail⟩ := h
      obtain ⟨_, h2⟩ := List.append_inj htail hlen
      exact deadCand_flat_zero qs rest t (fun x hx => hl x (by simp [hx])) h2

/-- the whole question, stored as one candidate, can never match a name -/
theorem deadCand_question (q : Query) : DeadCand (questionWire q) := by
  have : questionWire q = flat q.name.labels ++ 0 :: (u16b q.qtype ++ u16b q.qclass) := by
    simp [questionWire, Name.wire, flat]
  rw [this]
  exact deadCand_flat_zero _ _

/-- a name standing in plain wire form is laid out (no pointer) -/
theorem laid_of_wire {buf : Bytes} {p : Nat} (ls : List Bytes) (hlab : LabelsOK ls)
    (h : SegAt buf p (flat ls ++ [0])) :
    Laid buf p p ls (p + (flat ls).length + 1) [(p, p + (flat ls).length + 1)] := by
  obtain ⟨hle, htk⟩ := h
  simp only [List.length_append, List.length_cons, List.length_nil] at hle htk
  let e : Enc := { (Enc.new []) with buf := buf.take p }
  have hel : e.buf.length = p := by show (buf.take p).length = p; rw [List.length_take]; omega
  have hb : buf.take (p + ((flat ls).length + 1)) = e.buf ++ flat ls ++ [0] := by
    show _ = buf.take p ++ flat ls ++ [0]
    rw [List.append_assoc, ← htk, ← List.take_add]
  have := laid_root (e := e) hlab hb [] ls rfl
  simp only [flat_nil, List.length_nil, Nat.add_zero, hel] at this
  have h2 := this.append (Nat.le_refl _) (buf.drop (p + ((flat ls).length + 1)))
  rw [List.take_append_drop] at h2
  exact h2

theorem labelsOK_of_wf {n : Name} (h : n.WF) : LabelsOK n.labels :=
  fun l hl => by have := h.2 l hl; exact ⟨this.1, this.2.1⟩

/-- **`QueriesEmitAndCount::emit`** : the question octets are appended, the count is 1, the layout is
that of the question (so the decoder reads it back), and the candidate-table invariant survives the
candidate it stores -/
theorem originalQueries_post {H : Nat × Nat → Prop} (q : Query) (hq : q.name.WF) {e e' : Enc} {n : Nat}
    (happ : e.offset = e.buf.length) (hinv : PtrInvH H e) (hH : ∀ a b, e.offset ≤ a → H (a, b))
    (h : emitOriginalQueries (some (questionWire q)) e = .ok n e') :
    n = 1 ∧ EmitsPost H (layAll ([q].map layQuery)) e e' := by
  simp only [emitOriginalQueries] at h
  cases hsl : e.emitSlice (questionWire q) with
  | panic s => rw [hsl] at h; simp at h
  | err k e1 => rw [hsl] at h; simp at h
  | ok u e1 =>
    rw [hsl] at h
    simp only at h
    obtain ⟨i1, a1, b1, p1⟩ := ptrInvH_emitSlice e e1 (questionWire q) happ hinv hsl
    have hmodes : e1.canonicalForm = e.canonicalForm ∧ e1.nameEncoding = e.nameEncoding ∧
        e1.maxSize = e.maxSize := by
      rw [emitSlice_app _ _ happ] at hsl
      split at hsl
      · simp at hsl
      · simp only [ERes.ok.injEq, true_and] at hsl; subst hsl; exact ⟨rfl, rfl, rfl⟩
    have hlenq : (questionWire q).length = (flat q.name.labels).length + 1 + 4 := by
      simp [questionWire, Name.wire, flat, u16b]
    have hoff1 : e1.offset = e.offset + (questionWire q).length := by rw [a1, b1, happ]; simp
    -- the layout of the question in `e1.buf`
    have hseg : SegAt e1.buf e.offset (questionWire q) := by
      rw [b1, happ]
      exact ⟨by simp, by simp⟩
    have hlay : ∀ (buf : Bytes), SegAt buf e.offset (questionWire q) → ∀ off, off = e.offset + (questionWire q).length →
        layAll ([q].map layQuery) H buf e.offset off := by
      intro buf hs off hoff
      have s1 : SegAt buf e.offset (flat q.name.labels ++ [0]) := by
        have : questionWire q = (flat q.name.labels ++ [0]) ++ (u16b q.qtype ++ u16b q.qclass) := by
          simp [questionWire, Name.wire, flat]
        rw [this] at hs
        exact hs.append_left
      have s2 : SegAt buf (e.offset + (flat q.name.labels ++ [0]).length) (u16b q.qtype ++ u16b q.qclass) := by
        have : questionWire q = (flat q.name.labels ++ [0]) ++ (u16b q.qtype ++ u16b q.qclass) := by
          simp [questionWire, Name.wire, flat]
        rw [this] at hs
        exact hs.append_right
      have hl := laid_of_wire q.name.labels (labelsOK_of_wf hq) s1
      simp only [List.length_append, List.length_cons, List.length_nil] at s2
      refine ⟨off, ⟨e.offset + (flat q.name.labels).length + 1, ⟨_, hl, ?_⟩, ?_⟩, rfl, ?_⟩
      · intro iv hiv
        simp only [List.mem_singleton] at hiv
        subst hiv
        exact hH _ _ (Nat.le_refl _)
      · refine ⟨e.offset + (flat q.name.labels).length + 1 + 2, ⟨s2.append_left, rfl⟩, off, ⟨?_, ?_⟩, rfl, ?_⟩
        · have := s2.append_right
          simp only [u16b, List.length_cons, List.length_nil] at this
          have e : e.offset + ((flat q.name.labels).length + 1) + (0 + 1 + 1) =
              e.offset + (flat q.name.labels).length + 1 + 2 := by omega
          rw [e] at this
          exact this
        · rw [hoff, hlenq]; simp [u16b]; omega
        · have := hs.1; omega
      · have := hs.1; omega
    have hpre : e1.buf.take e.offset = e.buf := by rw [b1, happ]; exact List.take_left' rfl
    by_cases hc : e1.nameEncoding = .compressed
    · rw [if_pos hc] at h
      cases hst : e1.storeLabelPointer e.offset (e.offset + (questionWire q).length) with
      | panic s => rw [hst] at h; simp at h
      | err => rw [hst] at h; simp at h
      | ok e2 =>
        rw [hst] at h
        simp only [ERes.ok.injEq] at h
        obtain ⟨rfl, rfl⟩ := h
        refine ⟨rfl, ?_⟩
        unfold Enc.storeLabelPointer at hst
        split at hst
        · simp at hst
        split at hst
        · simp at hst
        split at hst
        · simp at hst
        split at hst
        · -- stored: one more candidate, which is dead
          cases hs : e1.sliceOf e.offset (e.offset + (questionWire q).length) with
          | ok sl =>
            rw [hs] at hst
            simp only [Outcome.ok.injEq] at hst
            subst hst
            have hsl' : sl = questionWire q := by
              unfold Enc.sliceOf at hs
              split at hs
              · simp at hs
              split at hs
              · simp at hs
              simp only [Outcome.ok.injEq] at hs
              rw [← hs, Nat.add_sub_cancel_left]
              exact hseg.2
            refine ⟨?_, a1, by rw [hoff1]; omega, hpre, hlay _ hseg _ hoff1, hmodes.1, hmodes.2.1, hmodes.2.2⟩
            intro p hp
            simp only [List.mem_append, List.mem_singleton] at hp
            rcases hp with hp | rfl
            · exact i1 p hp
            · exact Or.inr ⟨by show e.offset < e1.offset; rw [hoff1, hlenq]; omega, hsl' ▸ deadCand_question q⟩
          | err => rw [hs] at hst; simp at hst
          | panic s => rw [hs] at hst; simp at hst
        · simp only [Outcome.ok.injEq] at hst
          subst hst
          exact ⟨i1, a1, by rw [hoff1]; omega, hpre, hlay _ hseg _ hoff1, hmodes.1, hmodes.2.1, hmodes.2.2⟩
    · rw [if_neg hc] at h
      simp only [ERes.ok.injEq] at h
      obtain ⟨rfl, rfl⟩ := h
      exact ⟨rfl, i1, a1, by rw [hoff1]; omega, hpre, hlay _ hseg _ hoff1, hmodes.1, hmodes.2.1, hmodes.2.2⟩

/-- **the server's `emit_message_parts`, with EDNS** -/
theorem encodeParts_reads_edns (opq : Nat → Rd Bytes) (m : Message) (q : Query) (ed : Edns) (hwf : MsgWFE m)
    (hmq : m.queries = [q]) (hed : m.edns = some ed) (L : Nat) (md' : Metadata) (c : Counts) (e' : Enc)
    (h : emitMessageParts m.md (emitOriginalQueries (some (questionWire q))) m.answers m.authorities
      m.additionals m.edns m.signature ((Enc.new []).setMaxSize L) = .ok (md', c) e') :
    ∃ w : Written, w.an ≤ m.answers.length ∧ w.ns ≤ m.authorities.length ∧ w.ar ≤ m.additionals.length ∧
      c.an = w.an ∧ c.ns = w.ns ∧ c.ar = w.ar + (if w.edns then 1 else 0) ∧
      Rd.run (readMessage opq) e'.buf 0 = .ok ((truncatedW m w).fq, e'.buf.length) := by
  obtain ⟨hedwf, hedhigh⟩ := hwf.edns ed hed
  have hed' : ({ ed with rcodeHigh := rcodeHigh m.md.rcode } : Edns) = ed := by
    rw [← hedhigh]
  unfold emitMessageParts at h
  generalize hE0 : (Enc.new []).setMaxSize L = e0 at h
  have happ0 : e0.offset = e0.buf.length := by rw [← hE0]; rfl
  have hbuf0 : e0.buf = [] := by rw [← hE0]; rfl
  have hoff0 : e0.offset = 0 := by rw [← hE0]; rfl
  have hptr0 : e0.ptrs = [] := by rw [← hE0]; rfl
  have hnl0 : NoLower e0 := by rw [← hE0]; exact ⟨rfl, by simp [Enc.new, Enc.withOffset, Enc.setMaxSize]⟩
  rw [place_app _ _ happ0] at h
  by_cases hfit : e0.maxSize < e0.offset + 12
  · simp [hfit] at h
  simp only [hfit, ↓reduceIte] at h
  generalize hE1 : ({ e0 with buf := e0.buf ++ List.replicate 12 0, offset := e0.offset + 12 } : Enc) = e1 at h
  have happ1 : e1.offset = e1.buf.length := by rw [← hE1, hbuf0, hoff0]; simp
  have hoff1 : e1.offset = 12 := by rw [← hE1, hoff0]
  have hinv1 : PtrInvH H12 e1 := by
    intro p hp; rw [← hE1] at hp; simp only [hptr0] at hp; cases hp
  have hH1 : ∀ a b, e1.offset ≤ a → H12 (a, b) := by intro a b hab; show 12 ≤ a; omega
  have hnl1 : NoLower e1 := by rw [← hE1]; exact hnl0
  have hmax1 : e1.maxSize = e0.maxSize := by rw [← hE1]
  cases hqr : emitOriginalQueries (some (questionWire q)) e1 with
  | panic s => rw [hqr] at h; simp at h
  | err k e2 => rw [hqr] at h; simp at h
  | ok qc e2 =>
    rw [hqr] at h
    simp only at h
    have hqwf := (hwf.qs q (by rw [hmq]; simp)).1
    obtain ⟨hqc1, P2'⟩ := originalQueries_post (H := H12) q hqwf happ1 hinv1 hH1 hqr
    have P2 : EmitsPost H12 (layAll (m.queries.map layQuery)) e1 e2 := by rw [hmq]; exact P2'
    have hqc : qc = m.queries.length := by rw [hmq]; exact hqc1
    have hnl2 : NoLower e2 := ⟨by rw [P2.canon]; exact hnl1.1, by rw [P2.ne]; exact hnl1.2⟩
    have hH2 : ∀ a b, e2.offset ≤ a → H12 (a, b) := by
      intro a b hab; show 12 ≤ a; have := P2.le; omega
    cases han : countWasTruncated (e2.emitIter (m.answers.map emitRecord)) with
    | panic s => rw [han] at h; simp at h
    | err k e3 => rw [han] at h; simp at h
    | ok r3 e3 =>
      rw [han] at h
      obtain ⟨anC, anT⟩ := r3
      simp only at h
      obtain ⟨hanle, han16, hanT, P3⟩ := section_any hwf.an P2.app P2.inv hH2 hnl2 han
      have hnl3 : NoLower e3 := ⟨by rw [P3.canon]; exact hnl2.1, by rw [P3.ne]; exact hnl2.2⟩
      have hH3 : ∀ a b, e3.offset ≤ a → H12 (a, b) := by
        intro a b hab; show 12 ≤ a; have := P2.le; have := P3.le; omega
      cases hns : countWasTruncated (e3.emitIter (m.authorities.map emitRecord)) with
      | panic s => rw [hns] at h; simp at h
      | err k e4 => rw [hns] at h; simp at h
      | ok r4 e4 =>
        rw [hns] at h
        obtain ⟨nsC, nsT⟩ := r4
        simp only at h
        obtain ⟨hnsle, hns16, hnsT, P4⟩ := section_any hwf.ns P3.app P3.inv hH3 hnl3 hns
        have hnl4 : NoLower e4 := ⟨by rw [P4.canon]; exact hnl3.1, by rw [P4.ne]; exact hnl3.2⟩
        have hH4 : ∀ a b, e4.offset ≤ a → H12 (a, b) := by
          intro a b hab; show 12 ≤ a; have := P2.le; have := P3.le; have := P4.le; omega
        cases har : countWasTruncated (e4.emitIter (m.additionals.map emitRecord)) with
        | panic s => rw [har] at h; simp at h
        | err k e5 => rw [har] at h; simp at h
        | ok r5 e5 =>
          rw [har] at h
          obtain ⟨arC, arT⟩ := r5
          obtain ⟨harle, har16, harT, P5⟩ := section_any hwf.ar P4.app P4.inv hH4 hnl4 har
          have hnl5 : NoLower e5 := ⟨by rw [P5.canon]; exact hnl4.1, by rw [P5.ne]; exact hnl4.2⟩
          have hH5 : ∀ a b, e5.offset ≤ a → H12 (a, b) := by
            intro a b hab; show 12 ≤ a; have := P2.le; have := P3.le; have := P4.le; have := P5.le; omega
          simp only [hed, hwf.sig, Option.map_some, hed'] at h
          -- the OPT record
          cases hopt : emitExtra (some (recordOfEdns ed)) (arC, arT) e5 with
          | panic s => rw [hopt] at h; simp at h
          | err k e6 => rw [hopt] at h; simp at h
          | ok r6 e6 =>
          rw [hopt] at h
          obtain ⟨arC1, arT1⟩ := r6
          simp only [emitExtra] at h
          obtain ⟨kept, hkc, hkt, hk16, P6⟩ := optSection_any ed hedwf P5.app P5.inv hH5 hnl5 hopt
          split at h
          · simp at h
          rename_i hqc16
          have hle := P2.le; have hle3 := P3.le; have hle4 := P4.le; have hle5 := P5.le; have hle6 := P6.le
          have hlen6 : e0.offset + 12 ≤ e6.buf.length := by rw [← P6.app]; omega
          have hmax6 : e0.offset + 12 ≤ e6.maxSize := by
            rw [P6.max, P5.max, P4.max, P3.max, P2.max, hmax1]; omega
          rw [placeReplace_header _ _ hlen6 hmax6 (by omega)] at h
          simp only [ERes.ok.injEq, Prod.mk.injEq] at h
          obtain ⟨⟨rfl, rfl⟩, rfl⟩ := h
          simp only at hkc hkt hk16
          refine ⟨⟨anC, nsC, arC, kept⟩, hanle, hnsle, harle, rfl, rfl, hkc, ?_⟩
          simp only [hoff0, List.take_zero, List.nil_append, Nat.zero_add]
          generalize hMD : ({ m.md with tc := m.md.tc || anT || nsT || arT1 } : Metadata) = mdw
          generalize hC : ({ qd := qc, an := anC, ns := nsC, ar := arC1 } : Counts) = cc
          have hcc : cc.qd = qc ∧ cc.an = anC ∧ cc.ns = nsC ∧ cc.ar = arC1 := by rw [← hC]; exact ⟨rfl, rfl, rfl, rfl⟩
          generalize hfb : headerBytes mdw cc ++ List.drop 12 e6.buf = fb
          have hfblen : fb.length = e6.buf.length := by
            rw [← hfb]; simp only [List.length_append, List.length_drop, headerBytes, List.length_cons,
              List.length_nil]; omega
          have hsame : ∀ i, 12 ≤ i → fb[i]? = e6.buf[i]? := by
            intro i hi
            rw [← hfb, List.getElem?_append_right (by simp [headerBytes]; omega)]
            simp only [headerBytes, List.length_cons, List.length_nil, List.getElem?_drop]
            congr 1; omega
          have hseg : SegAt fb 0 (headerBytes mdw cc) := by
            rw [← hfb]
            refine ⟨by simp, ?_⟩
            simp only [List.drop_zero]
            exact List.take_left' rfl
          have pre6 : e6.buf.take e6.buf.length = e6.buf := List.take_length
          have pre5 : e6.buf.take e5.buf.length = e5.buf := by rw [← P5.app]; exact P6.pre
          have pre4 : e6.buf.take e4.buf.length = e4.buf :=
            take_chain (by rw [← P4.app]; exact P5.pre) pre5
          have pre3 : e6.buf.take e3.buf.length = e3.buf :=
            take_chain (by rw [← P3.app]; exact P4.pre) pre4
          have pre2 : e6.buf.take e2.buf.length = e2.buf :=
            take_chain (by rw [← P2.app]; exact P3.pre) pre3
          have LQ := lay_final (isLayout_all _ (by
            intro L hL; simp only [List.mem_map] at hL; obtain ⟨q, _, rfl⟩ := hL; exact isLayout_query q))
            (by omega) P2.lay pre2 hfblen hsame
          have recsLay : ∀ (b : Bool) (rs : List Record), (∀ r ∈ rs, SectionOK m.md.op r b) →
              IsLayout (layAll (rs.map layRecord)) := by
            intro b rs hrs
            refine isLayout_all _ ?_
            intro L hL
            simp only [List.mem_map] at hL
            obtain ⟨r, hr, rfl⟩ := hL
            refine isLayout_record r ?_
            rcases (hrs r hr).1.data with h1 | h1
            · left; rw [h1]; rfl
            · right; exact h1.1
          have wa := sectionOK_take anC hwf.an
          have wn := sectionOK_take nsC hwf.ns
          have wr := sectionOK_take arC hwf.ar
          have LA := lay_final (recsLay _ _ wa) (by omega) P3.lay pre3 hfblen hsame
          have LN := lay_final (recsLay _ _ wn) (by omega) P4.lay pre4 hfblen hsame
          have LR := lay_final (recsLay _ _ wr) (by omega) P5.lay pre5 hfblen hsame
          have hmdw : mdw.id = m.md.id ∧ mdw.op = m.md.op ∧ mdw.rcode = m.md.rcode := by
            rw [← hMD]; exact ⟨rfl, rfl, rfl⟩
          have hhw : HeaderWF mdw cc := by
            refine ⟨by rw [hmdw.1]; exact hwf.id, by rw [hmdw.2.1]; exact hwf.op, ?_, ?_, ?_, ?_⟩
            · rw [hcc.1]; omega
            · rw [hcc.2.1]; omega
            · rw [hcc.2.2.1]; omega
            · rw [hcc.2.2.2]; omega
          have R0 := reads_header _ _ hhw hseg
          have R1 := reads_queries (H := H12) (buf := fb) m.queries [] e1.offset e2.offset hwf.qs LQ
          have R2 := reads_records (H := H12) (opq := opq) (buf := fb) false m.md.op (m.answers.take anC) []
            none e2.offset e3.offset wa LA
          have R3 := reads_records (H := H12) (opq := opq) (buf := fb) false m.md.op (m.authorities.take nsC)
            [] none e3.offset e4.offset wn LN
          rw [List.length_take, Nat.min_eq_left hanle] at R2
          rw [List.length_take, Nat.min_eq_left hnsle] at R3
          -- the additional section: the records, then (if it was kept) the OPT record
          have R4 : Reads (readRecords opq true m.md.op arC1 ([], none, none)) fb e4.offset
              ((m.additionals.take arC).map Record.fq, (if kept then some ed else none), none) e6.offset := by
            have hcount : arC1 = (m.additionals.take arC).length + (if kept then 1 else 0) := by
              rw [List.length_take, Nat.min_eq_left harle]; exact hkc
            rw [hcount]
            refine reads_records_then (H := H12) true m.md.op (m.additionals.take arC) _ [] none e4.offset
              e5.offset e6.offset _ wr LR ?_
            simp only [List.nil_append]
            cases kept with
            | true =>
              simp only [↓reduceIte] at P6 ⊢
              have L6 := lay_final (isLayout_seq (isLayout_opt ed) isLayout_empty) (by omega) P6.lay pre6
                hfblen hsame
              obtain ⟨mm, lo, le⟩ := L6
              obtain ⟨rfl, _⟩ := le
              exact readRecords_optStep ed hedwf lo _
            | false =>
              simp only [Bool.false_eq_true, ↓reduceIte] at P6 ⊢
              obtain ⟨hq, _⟩ := P6.lay
              rw [hq]
              simp only [readRecords]
              exact Reads.pure _ _ _
          have hall : Reads (readMessage opq) fb 0 (truncatedW m ⟨anC, nsC, arC, kept⟩).fq e6.offset := by
            unfold readMessage
            refine Reads.bind R0 ?_
            simp only [Nat.zero_add]
            rw [hcc.1, hqc]
            rw [hoff1] at R1
            refine Reads.bind R1 ?_
            simp only [List.nil_append]
            rw [hcc.2.1, hmdw.2.1]
            refine Reads.bind R2 ?_
            simp only [List.nil_append]
            rw [hcc.2.2.1]
            refine Reads.bind R3 ?_
            simp only [List.nil_append]
            rw [hcc.2.2.2]
            refine Reads.bind R4 ?_
            refine Reads.pure' _ _ ?_
            have hr1 : m.md.rcode % 16 % 16 = m.md.rcode % 16 := by omega
            have hr2 : rcodeHigh m.md.rcode * 16 + m.md.rcode % 16 = m.md.rcode := by
              have := hwf.rcode; simp only [rcodeHigh]; omega
            rw [← hMD]
            cases kept with
            | true =>
              simp only [mergeRcode, Message.fq, truncatedW, hwf.sig, hed, ↓reduceIte, hedhigh, hr1, hr2,
                short, hanT, hnsT, harT, hkt, Bool.not_true, Bool.or_false, Option.isSome_some,
                Bool.and_false]
            | false =>
              simp only [mergeRcode, Message.fq, truncatedW, hwf.sig, hed, Bool.false_eq_true, ↓reduceIte,
                short, hanT, hnsT, harT, hkt, Bool.not_false, Bool.or_true, Option.isSome_some,
                Bool.and_true]
          have := hall.run
          rw [this, hfblen, P6.app]


/-- **the server's `emit_message_parts`, without EDNS** -/
theorem encodeParts_reads (opq : Nat → Rd Bytes) (m : Message) (q : Query) (hwf : MsgWFE m)
    (hmq : m.queries = [q]) (hed : m.edns = none) (hrc : m.md.rcode < 16) (L : Nat) (md' : Metadata) (c : Counts) (e' : Enc)
    (h : emitMessageParts m.md (emitOriginalQueries (some (questionWire q))) m.answers m.authorities
      m.additionals m.edns m.signature ((Enc.new []).setMaxSize L) = .ok (md', c) e') :
    ∃ w : Written, w.an ≤ m.answers.length ∧ w.ns ≤ m.authorities.length ∧ w.ar ≤ m.additionals.length ∧
      c.an = w.an ∧ c.ns = w.ns ∧ c.ar = w.ar + (if w.edns then 1 else 0) ∧
      Rd.run (readMessage opq) e'.buf 0 = .ok ((truncatedW m w).fq, e'.buf.length) := by
  unfold emitMessageParts at h
  generalize hE0 : (Enc.new []).setMaxSize L = e0 at h
  have happ0 : e0.offset = e0.buf.length := by rw [← hE0]; rfl
  have hbuf0 : e0.buf = [] := by rw [← hE0]; rfl
  have hoff0 : e0.offset = 0 := by rw [← hE0]; rfl
  have hptr0 : e0.ptrs = [] := by rw [← hE0]; rfl
  have hnl0 : NoLower e0 := by rw [← hE0]; exact ⟨rfl, by simp [Enc.new, Enc.withOffset, Enc.setMaxSize]⟩
  rw [place_app _ _ happ0] at h
  by_cases hfit : e0.maxSize < e0.offset + 12
  · simp [hfit] at h
  simp only [hfit, ↓reduceIte] at h
  generalize hE1 : ({ e0 with buf := e0.buf ++ List.replicate 12 0, offset := e0.offset + 12 } : Enc) = e1 at h
  have happ1 : e1.offset = e1.buf.length := by rw [← hE1, hbuf0, hoff0]; simp
  have hoff1 : e1.offset = 12 := by rw [← hE1, hoff0]
  have hinv1 : PtrInvH H12 e1 := by
    intro p hp; rw [← hE1] at hp; simp only [hptr0] at hp; cases hp
  have hH1 : ∀ a b, e1.offset ≤ a → H12 (a, b) := by intro a b hab; show 12 ≤ a; omega
  have hnl1 : NoLower e1 := by rw [← hE1]; exact hnl0
  have hmax1 : e1.maxSize = e0.maxSize := by rw [← hE1]
  cases hqr : emitOriginalQueries (some (questionWire q)) e1 with
  | panic s => rw [hqr] at h; simp at h
  | err k e2 => rw [hqr] at h; simp at h
  | ok qc e2 =>
    rw [hqr] at h
    simp only at h
    have hqwf := (hwf.qs q (by rw [hmq]; simp)).1
    obtain ⟨hqc1, P2'⟩ := originalQueries_post (H := H12) q hqwf happ1 hinv1 hH1 hqr
    have P2 : EmitsPost H12 (layAll (m.queries.map layQuery)) e1 e2 := by rw [hmq]; exact P2'
    have hqc : qc = m.queries.length := by rw [hmq]; exact hqc1
    have hnl2 : NoLower e2 := ⟨by rw [P2.canon]; exact hnl1.1, by rw [P2.ne]; exact hnl1.2⟩
    have hH2 : ∀ a b, e2.offset ≤ a → H12 (a, b) := by
      intro a b hab; show 12 ≤ a; have := P2.le; omega
    cases han : countWasTruncated (e2.emitIter (m.answers.map emitRecord)) with
    | panic s => rw [han] at h; simp at h
    | err k e3 => rw [han] at h; simp at h
    | ok r3 e3 =>
      rw [han] at h
      obtain ⟨anC, anT⟩ := r3
      simp only at h
      obtain ⟨hanle, han16, hanT, P3⟩ := section_any hwf.an P2.app P2.inv hH2 hnl2 han
      have hnl3 : NoLower e3 := ⟨by rw [P3.canon]; exact hnl2.1, by rw [P3.ne]; exact hnl2.2⟩
      have hH3 : ∀ a b, e3.offset ≤ a → H12 (a, b) := by
        intro a b hab; show 12 ≤ a; have := P2.le; have := P3.le; omega
      cases hns : countWasTruncated (e3.emitIter (m.authorities.map emitRecord)) with
      | panic s => rw [hns] at h; simp at h
      | err k e4 => rw [hns] at h; simp at h
      | ok r4 e4 =>
        rw [hns] at h
        obtain ⟨nsC, nsT⟩ := r4
        simp only at h
        obtain ⟨hnsle, hns16, hnsT, P4⟩ := section_any hwf.ns P3.app P3.inv hH3 hnl3 hns
        have hnl4 : NoLower e4 := ⟨by rw [P4.canon]; exact hnl3.1, by rw [P4.ne]; exact hnl3.2⟩
        have hH4 : ∀ a b, e4.offset ≤ a → H12 (a, b) := by
          intro a b hab; show 12 ≤ a; have := P2.le; have := P3.le; have := P4.le; omega
        cases har : countWasTruncated (e4.emitIter (m.additionals.map emitRecord)) with
        | panic s => rw [har] at h; simp at h
        | err k e5 => rw [har] at h; simp at h
        | ok r5 e5 =>
          rw [har] at h
          obtain ⟨arC, arT⟩ := r5
          obtain ⟨harle, har16, harT, P5⟩ := section_any hwf.ar P4.app P4.inv hH4 hnl4 har
          have hnl5 : NoLower e5 := ⟨by rw [P5.canon]; exact hnl4.1, by rw [P5.ne]; exact hnl4.2⟩
          have hH5 : ∀ a b, e5.offset ≤ a → H12 (a, b) := by
            intro a b hab; show 12 ≤ a; have := P2.le; have := P3.le; have := P4.le; have := P5.le; omega
          have hnone : ∀ (acc : Nat × Bool) (e : Enc), emitExtra none acc e = .ok acc e := fun _ _ => rfl
          simp only [hed, hwf.sig, Option.map_none, hnone] at h
          split at h
          · simp at h
          rename_i hqc16
          have hle := P2.le; have hle3 := P3.le; have hle4 := P4.le; have hle5 := P5.le
          have hlen6 : e0.offset + 12 ≤ e5.buf.length := by rw [← P5.app]; omega
          have hmax6 : e0.offset + 12 ≤ e5.maxSize := by
            rw [P5.max, P4.max, P3.max, P2.max, hmax1]; omega
          rw [placeReplace_header _ _ hlen6 hmax6 (by omega)] at h
          simp only [ERes.ok.injEq, Prod.mk.injEq] at h
          obtain ⟨⟨rfl, rfl⟩, rfl⟩ := h
          refine ⟨⟨anC, nsC, arC, false⟩, hanle, hnsle, harle, rfl, rfl, by simp, ?_⟩
          simp only [hoff0, List.take_zero, List.nil_append, Nat.zero_add]
          generalize hMD : ({ m.md with tc := m.md.tc || anT || nsT || arT } : Metadata) = mdw
          generalize hC : ({ qd := qc, an := anC, ns := nsC, ar := arC } : Counts) = cc
          have hcc : cc.qd = qc ∧ cc.an = anC ∧ cc.ns = nsC ∧ cc.ar = arC := by rw [← hC]; exact ⟨rfl, rfl, rfl, rfl⟩
          generalize hfb : headerBytes mdw cc ++ List.drop 12 e5.buf = fb
          have hfblen : fb.length = e5.buf.length := by
            rw [← hfb]; simp only [List.length_append, List.length_drop, headerBytes, List.length_cons,
              List.length_nil]; omega
          have hsame : ∀ i, 12 ≤ i → fb[i]? = e5.buf[i]? := by
            intro i hi
            rw [← hfb, List.getElem?_append_right (by simp [headerBytes]; omega)]
            simp only [headerBytes, List.length_cons, List.length_nil, List.getElem?_drop]
            congr 1; omega
          have hseg : SegAt fb 0 (headerBytes mdw cc) := by
            rw [← hfb]
            refine ⟨by simp, ?_⟩
            simp only [List.drop_zero]
            exact List.take_left' rfl
          have pre5 : e5.buf.take e5.buf.length = e5.buf := List.take_length
          have pre4 : e5.buf.take e4.buf.length = e4.buf :=
            take_chain (by rw [← P4.app]; exact P5.pre) pre5
          have pre3 : e5.buf.take e3.buf.length = e3.buf :=
            take_chain (by rw [← P3.app]; exact P4.pre) pre4
          have pre2 : e5.buf.take e2.buf.length = e2.buf :=
            take_chain (by rw [← P2.app]; exact P3.pre) pre3
          have LQ := lay_final (isLayout_all _ (by
            intro L hL; simp only [List.mem_map] at hL; obtain ⟨q, _, rfl⟩ := hL; exact isLayout_query q))
            (by omega) P2.lay pre2 hfblen hsame
          have recsLay : ∀ (b : Bool) (rs : List Record), (∀ r ∈ rs, SectionOK m.md.op r b) →
              IsLayout (layAll (rs.map layRecord)) := by
            intro b rs hrs
            refine isLayout_all _ ?_
            intro L hL
            simp only [List.mem_map] at hL
            obtain ⟨r, hr, rfl⟩ := hL
            refine isLayout_record r ?_
            rcases (hrs r hr).1.data with h1 | h1
            · left; rw [h1]; rfl
            · right; exact h1.1
          have wa := sectionOK_take anC hwf.an
          have wn := sectionOK_take nsC hwf.ns
          have wr := sectionOK_take arC hwf.ar
          have LA := lay_final (recsLay _ _ wa) (by omega) P3.lay pre3 hfblen hsame
          have LN := lay_final (recsLay _ _ wn) (by omega) P4.lay pre4 hfblen hsame
          have LR := lay_final (recsLay _ _ wr) (by omega) P5.lay pre5 hfblen hsame
          have hmdw : mdw.id = m.md.id ∧ mdw.op = m.md.op ∧ mdw.rcode = m.md.rcode := by
            rw [← hMD]; exact ⟨rfl, rfl, rfl⟩
          have hhw : HeaderWF mdw cc := by
            refine ⟨by rw [hmdw.1]; exact hwf.id, by rw [hmdw.2.1]; exact hwf.op, ?_, ?_, ?_, ?_⟩
            · rw [hcc.1]; omega
            · rw [hcc.2.1]; omega
            · rw [hcc.2.2.1]; omega
            · rw [hcc.2.2.2]; omega
          have R0 := reads_header _ _ hhw hseg
          have R1 := reads_queries (H := H12) (buf := fb) m.queries [] e1.offset e2.offset hwf.qs LQ
          have R2 := reads_records (H := H12) (opq := opq) (buf := fb) false m.md.op (m.answers.take anC) []
            none e2.offset e3.offset wa LA
          have R3 := reads_records (H := H12) (opq := opq) (buf := fb) false m.md.op (m.authorities.take nsC)
            [] none e3.offset e4.offset wn LN
          rw [List.length_take, Nat.min_eq_left hanle] at R2
          rw [List.length_take, Nat.min_eq_left hnsle] at R3
          have R4 := reads_records (H := H12) (opq := opq) (buf := fb) true m.md.op (m.additionals.take arC)
            [] none e4.offset e5.offset wr LR
          rw [List.length_take, Nat.min_eq_left harle] at R4
          have hall : Reads (readMessage opq) fb 0 (truncatedW m ⟨anC, nsC, arC, false⟩).fq e5.offset := by
            unfold readMessage
            refine Reads.bind R0 ?_
            simp only [Nat.zero_add]
            rw [hcc.1, hqc]
            rw [hoff1] at R1
            refine Reads.bind R1 ?_
            simp only [List.nil_append]
            rw [hcc.2.1, hmdw.2.1]
            refine Reads.bind R2 ?_
            simp only [List.nil_append]
            rw [hcc.2.2.1]
            refine Reads.bind R3 ?_
            simp only [List.nil_append]
            rw [hcc.2.2.2]
            refine Reads.bind R4 ?_
            refine Reads.pure' _ _ ?_
            have hr1 : m.md.rcode % 16 = m.md.rcode := Nat.mod_eq_of_lt hrc
            rw [← hMD]
            simp [mergeRcode, Message.fq, truncatedW, hwf.sig, hed, hr1, short, hanT, hnsT, harT]
          have := hall.run
          rw [this, hfblen, P5.app]


/-! ### `MessageResponse::encode` -/

/-- the response as the message the client should read: the question as `q` -/
def responseMessage (r : Response) (q : Query) : Message :=
  { md := r.md, queries := [q], answers := r.answers, authorities := r.authorities,
    additionals := r.additionals, signature := r.signature, edns := r.edns }

/-- the header-only SERVFAIL of the fallback path, as a message -/
def servfailMessage (id : Nat) : Message :=
  { md := servfailMd id, queries := [], answers := [], authorities := [], additionals := [],
    signature := none, edns := none }

theorem emits_emitHeader (md : Metadata) (c : Counts) : Emits (emitHeader md c) (laySeg (headerBytes md c)) := by
  have := emits_seg_seq (emits_emitU16 md.id) (emits_seg_seq (emits_emitU8 (flagOctet2 md))
    (emits_seg_seq (emits_emitU8 (flagOctet3 md)) (emits_seg_seq (emits_emitU16 c.qd)
      (emits_seg_seq (emits_emitU16 c.an) (emits_seg_seq (emits_emitU16 c.ns)
        (emits_seg_seq (emits_emitU16 c.ar) emits_nothing_seg))))))
  simpa [emitHeader, seqAll, headerBytes] using this

/-- the fallback: a fresh encoder under 512, the SERVFAIL header — twelve octets that decode to it -/
theorem servfail_decodes (opq : Nat → Rd Bytes) (id : Nat) (hid : id < 65536) (e : Enc)
    (h : emitHeader (servfailMd id) { qd := 0, an := 0, ns := 0, ar := 0 } ((Enc.new []).setMaxSize 512) = .ok () e) :
    e.buf.length = 12 ∧ Rd.run (readMessage opq) e.buf 0 = .ok (servfailMessage id, e.buf.length) := by
  have hp := emits_emitHeader (servfailMd id) { qd := 0, an := 0, ns := 0, ar := 0 } (fun _ => True)
    ((Enc.new []).setMaxSize 512) e rfl (by intro p hp; cases hp) (fun _ _ _ => trivial)
    ⟨rfl, by simp [Enc.new, Enc.withOffset, Enc.setMaxSize]⟩ h
  obtain ⟨hseg, hoff⟩ := hp.lay
  have hoff0 : ((Enc.new []).setMaxSize 512).offset = 0 := rfl
  rw [hoff0] at hseg hoff
  have hlen : e.buf.length = 12 := by rw [← hp.app, hoff]; simp [headerBytes]
  refine ⟨hlen, ?_⟩
  have R0 := reads_header (buf := e.buf) (p := 0) (servfailMd id) { qd := 0, an := 0, ns := 0, ar := 0 }
    ⟨hid, by show (0 : Nat) < 16; omega, by show (0 : Nat) < 65536; omega, by show (0 : Nat) < 65536; omega,
      by show (0 : Nat) < 65536; omega, by show (0 : Nat) < 65536; omega⟩ hseg
  have hall : Reads (readMessage opq) e.buf 0 (servfailMessage id) 12 := by
    unfold readMessage
    refine Reads.bind R0 ?_
    simp only [readQueries, readRecords, Nat.zero_add]
    refine Reads.bind (Reads.pure _ _ _) ?_
    refine Reads.bind (Reads.pure _ _ _) ?_
    refine Reads.bind (Reads.pure _ _ _) ?_
    refine Reads.bind (Reads.pure _ _ _) ?_
    exact Reads.pure' _ _ (by simp [mergeRcode, servfailMessage, servfailMd])
  rw [hall.run, hlen]

/-
FULL STATEMENT (kept visible):
  server_decodes : what `MessageResponse::encode` hands to the stream decodes, with nothing left over,
  to a message whose sections are prefixes of the response's sections, whose question is the request's,
  and whose TC bit is set iff something was dropped — or to the header-only SERVFAIL.
Proved: `encodeResponse_decodes_partial`, for responses whose records are of the covered RDATA variants
(`MsgWFE` of `responseMessage r q`: EDNS optional with options per `OptOK`), without TSIG, and whose
question octets are `questionWire q` (what `Queries::read` keeps for the echo).
-/

/-- **What the server hands to the stream decodes cleanly** (partial: see above). -/
theorem encodeResponse_decodes_partial (opq : Nat → Rd Bytes) (r : Response) (proto : Proto) (q : Query)
    (hq : r.queries = some (questionWire q)) (hwf : MsgWFE (responseMessage r q))
    (hrc : r.edns = none → r.md.rcode < 16) (bs : Bytes) (h : encodeResponse r proto = .ok bs) :
    (∃ w : Written, w.an ≤ r.answers.length ∧ w.ns ≤ r.authorities.length ∧ w.ar ≤ r.additionals.length ∧
      Rd.run (readMessage opq) bs 0 = .ok ((truncatedW (responseMessage r q) w).fq, bs.length)) ∨
    (bs.length = 12 ∧ Rd.run (readMessage opq) bs 0 = .ok (servfailMessage r.md.id, bs.length)) := by
  unfold encodeResponse at h
  rw [hq] at h
  cases hr : emitMessageParts r.md (emitOriginalQueries (some (questionWire q))) r.answers r.authorities
      r.additionals r.edns r.signature ((Enc.new []).setMaxSize (responseLimit proto r.edns)) with
  | ok res e' =>
    rw [hr] at h
    simp only [Outcome.ok.injEq] at h
    subst h
    obtain ⟨md', c⟩ := res
    left
    cases hed : r.edns with
    | none =>
      obtain ⟨w, h1, h2, h3, _, _, _, h7⟩ := encodeParts_reads opq (responseMessage r q) q hwf rfl hed
        (hrc hed) _ md' c e' hr
      exact ⟨w, h1, h2, h3, h7⟩
    | some ed =>
      obtain ⟨w, h1, h2, h3, _, _, _, h7⟩ := encodeParts_reads_edns opq (responseMessage r q) q ed hwf rfl hed
        _ md' c e' hr
      exact ⟨w, h1, h2, h3, h7⟩
  | panic s => rw [hr] at h; simp at h
  | err k e1 =>
    rw [hr] at h
    simp only at h
    right
    cases hh : emitHeader (servfailMd r.md.id) { qd := 0, an := 0, ns := 0, ar := 0 }
        ((Enc.new []).setMaxSize 512) with
    | ok u e =>
      rw [hh] at h
      simp only [Outcome.ok.injEq] at h
      subst h
      exact servfail_decodes opq r.md.id hwf.id e hh
    | err k e => rw [hh] at h; simp at h
    | panic s => rw [hh] at h; simp at h

end HickoryVerif.C03
