/-
Ties between the literals of `Model/Nsec3.lean` and the tables regenerated from /repo's source on
every run (`Generated/Tables.lean`): record type codes the validator looks at.
-/
import HickoryVerif.Generated.Tables
import HickoryVerif.Model.Nsec3

namespace HickoryVerif.C09
open HickoryVerif HickoryVerif.Nsec3

theorem tie_record_types :
    Generated.recordTypeToCode.lookup "NS" = some tNS ∧
    Generated.recordTypeToCode.lookup "CNAME" = some tCNAME ∧
    Generated.recordTypeToCode.lookup "SOA" = some tSOA ∧
    Generated.recordTypeToCode.lookup "DS" = some tDS := by decide

/-- DNAME (39) is not a named `RecordType` of this snapshot: the real code can only see it as
`Unknown(39)`; the model's `tDNAME` matters only under the `deleg` repair. -/
theorem tie_dname_unnamed : Generated.recordTypeOfCode.lookup tDNAME = none := by decide

/-- base32hex alphabet of the model's encoder: 0-9 then a-v, strictly increasing -/
theorem b32Char_strictMono : ∀ i < 32, ∀ j < 32, i < j → b32Char i < b32Char j := by decide

end HickoryVerif.C09
