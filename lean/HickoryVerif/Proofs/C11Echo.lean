/-
C11 (part 5) — what the echoed question means inside the response.

The response carries `Queries::original` behind a new header.  Since fix cb5609e `original` is
the plain wire form of the decoded name (+ type and class as received) even when the request's
question name was compressed, so the question section of the one response always decodes to the
request's question: `echo_decodes_same`, full strength.  Before the fix `original` was the slice
consumed; a compression pointer in it (at offset 12 it can only lead into the header) then pointed
at the *response's* header octets — `echo_counterexample_prefix` keeps that input as a regression
example about the pre-fix function `readQueriesPreFix`.
-/
import HickoryVerif.Model.ServerGate
import HickoryVerif.Proofs.C04Wire
import HickoryVerif.Proofs.C11Wire

namespace HickoryVerif.C11
open HickoryVerif HickoryVerif.Name HickoryVerif.ServerGate HickoryVerif.C04

/-- wire bytes of a list of labels (without the root octet) -/
def wl (ls : List Bytes) : Bytes := (ls.map emitLabel).flatten

theorem wl_cons (l : Bytes) (t : List Bytes) : wl (l :: t) = (l.length :: l) ++ wl t := by
  simp [wl, emitLabel]

theorem wl_len_ne_one (added : List Bytes) (h : ∀ l ∈ added, 1 ≤ l.length) :
    (wl added).length ≠ 1 := by
  cases added with
  | nil => simp [wl]
  | cons l t =>
    have := h l (by simp)
    rw [wl_cons]
    simp only [List.length_append, List.length_cons]
    omega

theorem drop_cons_of_get (buf : Bytes) (pos b : Nat) (h : buf[pos]? = some b) :
    buf.drop pos = b :: buf.drop (pos + 1) := by
  obtain ⟨hlt, hb⟩ := List.getElem?_eq_some_iff.1 h
  rw [List.drop_eq_getElem_cons hlt, hb]

theorem drop_take_label (buf : Bytes) (pos b k : Nat) (h : buf[pos]? = some b) (hk : 1 + b ≤ k) :
    (buf.drop pos).take k =
      b :: (buf.drop (pos + 1)).take b ++ (buf.drop (pos + 1 + b)).take (k - 1 - b) := by
  rw [drop_cons_of_get buf pos b h]
  have hk' : k = (b + (k - 1 - b)) + 1 := by omega
  conv => lhs; rw [hk']
  rw [List.take_succ_cons, List.take_add, List.drop_drop]
  simp [Nat.add_comm, Nat.add_left_comm]

theorem readLabels_bytes (buf : Bytes) (pos ns : Nat) (pm : Option Nat) (acc : Name) :
    ∀ n p, readLabels buf pos ns pm acc = .ok (n, p) →
      pos < p ∧ ∃ added, n.labels = acc.labels ++ added ∧ (∀ l ∈ added, 1 ≤ l.length) ∧
        (p - pos = (wl added).length + 1 → (buf.drop pos).take (p - pos) = wl added ++ [0]) := by
  fun_induction readLabels buf pos ns pm acc <;> intro n p h
  case case3 pos ns pm acc hpm hb0 =>
    simp only [Outcome.ok.injEq, Prod.mk.injEq] at h
    obtain ⟨rfl, rfl⟩ := h
    refine ⟨by omega, [], by simp, by simp, fun _ => ?_⟩
    rw [drop_cons_of_get buf pos 0 hb0]
    simp [wl]
  case case6 pos ns pm acc hpm b0 hb0 hne h3 b1 hb1 loc hlt hgt n' p' hrec ih =>
    simp only [Outcome.ok.injEq, Prod.mk.injEq] at h
    obtain ⟨rfl, rfl⟩ := h
    obtain ⟨_, added, hl, hpos, _⟩ := ih _ _ hrec
    refine ⟨by omega, added, hl, hpos, fun hlen => ?_⟩
    have := wl_len_ne_one added hpos
    omega
  case case10 pos ns pm acc hpm b0 hb0 hne h3 h0 hfit acc' hext ih =>
    obtain ⟨hlt, added, hl, hpos, hbytes⟩ := ih n p h
    obtain ⟨rfl, _⟩ := extendName_ok hext
    have hll : ((buf.drop (pos + 1)).take b0).length = b0 := by
      simp only [List.length_take, List.length_drop]; omega
    refine ⟨by omega, (buf.drop (pos + 1)).take b0 :: added, by simp [hl], ?_, fun hlen => ?_⟩
    · intro l hl'
      simp only [List.mem_cons] at hl'
      rcases hl' with rfl | hl'
      · rw [hll]; omega
      · exact hpos l hl'
    · rw [wl_cons, hll] at hlen ⊢
      simp only [List.length_append, List.length_cons] at hlen
      have hb := hbytes (by omega)
      rw [drop_take_label buf pos b0 (p - pos) hb0 (by omega)]
      have : p - pos - 1 - b0 = p - (pos + 1 + b0) := by omega
      rw [this, hb]
      simp
  all_goals simp at h

theorem wl_length (ls : List Bytes) : (wl ls).length = ls.length + (ls.map List.length).sum := by
  induction ls with
  | nil => simp [wl]
  | cons l t ih =>
    rw [wl_cons]
    simp only [List.length_append, List.length_cons, ih, List.map_cons, List.sum_cons]
    omega

theorem wire_eq_wl (n : Name) : Name.wire n = wl n.labels ++ [0] := rfl

theorem wire_length (n : Name) : (Name.wire n).length = n.encodedLen := by
  rw [wire_eq_wl, List.length_append, wl_length]
  simp [encodedLen, dataLen]

/-- `Name::read` moves the decoder forward, and when it consumed exactly the plain length of the
name it decoded (no pointer was followed) the bytes consumed are the plain wire form. -/
theorem readName_bytes {buf : Bytes} {pos p : Nat} {n : Name} (h : readName buf pos = .ok (n, p)) :
    pos < p ∧ (p - pos = n.encodedLen → (buf.drop pos).take (p - pos) = Name.wire n) := by
  unfold readName at h
  split at h
  · rename_i n' p' hs
    split at h
    · cases h
    · simp only [Outcome.ok.injEq, Prod.mk.injEq] at h
      obtain ⟨rfl, rfl⟩ := h
      obtain ⟨hlt, added, hl, _, hbytes⟩ := readLabels_bytes buf pos pos none new _ _ hs
      simp only [new, List.nil_append] at hl
      subst hl
      refine ⟨hlt, fun hlen => ?_⟩
      rw [wire_eq_wl]
      apply hbytes
      rw [hlen, ← wire_length, wire_eq_wl]
      simp
  · cases h
  · cases h

theorem readU16_some {b : Bytes} {i v : Nat} (h : readU16 b i = some v) : i + 1 < b.length := by
  unfold readU16 at h
  split at h
  · rename_i x y hx hy
    exact (List.getElem?_eq_some_iff.1 hy).1
  · cases h

theorem readU16_append (pre t4 rest : Bytes) (i : Nat) (hi : i + 1 < t4.length) :
    readU16 (pre ++ (t4 ++ rest)) (pre.length + i) = readU16 t4 i := by
  unfold readU16
  have h0 : (pre ++ (t4 ++ rest))[pre.length + i]? = t4[i]? := by
    rw [List.getElem?_append_right (by omega), List.getElem?_append_left (by omega)]
    congr 1; omega
  have h1 : (pre ++ (t4 ++ rest))[pre.length + i + 1]? = t4[i + 1]? := by
    rw [List.getElem?_append_right (by omega), List.getElem?_append_left (by omega)]
    congr 1; omega
  rw [h0, h1]

/-- **What `Queries::original` is** (after fix cb5609e): always the plain wire form of the decoded
name followed by the four type/class octets that were read. -/
theorem readQueries_raw {buf : Bytes} {qd : Nat} {q : Question} (h : readQueries buf qd = .ok q) :
    ∃ t4 : Bytes, t4.length = 4 ∧ q.raw = Name.wire q.name ++ t4 ∧
      readU16 t4 0 = some q.qtype ∧ readU16 t4 2 = some q.qclass := by
  unfold readQueries at h
  split at h
  · cases h
  · split at h
    · rename_i n p hrn
      obtain ⟨hlt, hbytes⟩ := readName_bytes hrn
      split at h
      · rename_i t c ht hc
        have hlen := readU16_some hc
        simp only [Outcome.ok.injEq] at h
        subst h
        simp only
        refine ⟨(buf.drop p).take 4, by simp only [List.length_take, List.length_drop]; omega, ?_, ?_, ?_⟩
        · have hsplit : (buf.drop 12).take (p + 4 - 12)
              = (buf.drop 12).take (p - 12) ++ (buf.drop p).take 4 := by
            have : p + 4 - 12 = (p - 12) + 4 := by omega
            rw [this, List.take_add, List.drop_drop]
            congr 3; omega
          have hA : ((buf.drop 12).take (p - 12)).length = p - 12 := by
            simp only [List.length_take, List.length_drop]; omega
          have hO : ((buf.drop 12).take (p + 4 - 12)).length = p + 4 - 12 := by
            simp only [List.length_take, List.length_drop]; omega
          split
          · -- compressed: rebuilt
            congr 1
            rw [hO, hsplit]
            have : p + 4 - 12 - 4 = ((buf.drop 12).take (p - 12)).length := by rw [hA]; omega
            rw [this, List.drop_left]
          · rename_i hplain
            simp only [ne_eq, Decidable.not_not] at hplain
            rw [hO] at hplain
            rw [hsplit, hbytes (by omega)]
        · rw [← ht]
          unfold readU16
          simp [List.getElem?_drop]
        · rw [← hc]
          unfold readU16
          simp [List.getElem?_drop]
      · cases h
    · cases h
    · cases h

/-- **The echoed question means the request's question.**  For every request the gate reads a
question from, the question section of the response (`Queries::original`) decodes — behind any
twelve-octet header and in front of any records — to exactly that question: same name (octet
for octet), type and class.  Full strength: no hypothesis on the request. -/
theorem echo_decodes_same {buf : Bytes} {qd : Nat} {q : Question}
    (h : readQueries buf qd = .ok q) (hdr' rest : Bytes) (h12 : hdr'.length = 12) :
    readQueries (hdr' ++ q.raw ++ rest) 1 = .ok q := by
  obtain ⟨t4, ht4, hraw, hty, hcl⟩ := readQueries_raw h
  obtain ⟨hb, hf⟩ := (readQueries_spec buf qd).2 q h
  obtain ⟨bs, hbs, hrt⟩ := wire_roundtrip q.name hdr' (t4 ++ rest) hb
  have hbs' : bs = Name.wire q.name := by
    unfold emitUncompressed at hbs
    split at hbs
    · cases hbs
    · split at hbs
      · cases hbs
      · cases hbs; rfl
  subst hbs'
  have hn : ({ q.name with fqdn := true } : Name) = q.name := by
    rcases q with ⟨⟨l, f⟩, _, _, _⟩
    simp only at hf
    subst hf; rfl
  have hbuf : hdr' ++ q.raw ++ rest = hdr' ++ Name.wire q.name ++ (t4 ++ rest) := by
    rw [hraw]; simp [List.append_assoc]
  rw [hn, h12] at hrt
  unfold readQueries
  simp only [ne_eq, not_true_eq_false, ↓reduceIte]
  rw [hbuf, hrt]
  have hP : (hdr' ++ Name.wire q.name).length = 12 + (Name.wire q.name).length := by
    rw [List.length_append, h12]
  have e1 := readU16_append (hdr' ++ Name.wire q.name) t4 rest 0 (by omega)
  have e2 := readU16_append (hdr' ++ Name.wire q.name) t4 rest 2 (by omega)
  rw [hP] at e1 e2
  simp only [Nat.add_zero] at e1
  have hdrop : (hdr' ++ Name.wire q.name ++ (t4 ++ rest)).drop 12
      = (Name.wire q.name ++ t4) ++ rest := by
    rw [List.append_assoc, ← h12, List.drop_left]; simp [List.append_assoc]
  have htake : ((Name.wire q.name ++ t4) ++ rest).take (12 + (Name.wire q.name).length + 4 - 12)
      = Name.wire q.name ++ t4 := by
    have : 12 + (Name.wire q.name).length + 4 - 12 = (Name.wire q.name ++ t4).length := by
      rw [List.length_append, ht4]; omega
    rw [this, List.take_left]
  have hlen : (Name.wire q.name ++ t4).length = q.name.encodedLen + 4 := by
    rw [List.length_append, ht4, wire_length]
  simp only [e1, e2, hty, hcl, hdrop, htake, hlen, not_true_eq_false, ↓reduceIte]
  rw [← hraw]

/-- every question the gate hands on is in plain wire form -/
theorem accepted_question_plain {buf : Bytes} {qd : Nat} {q : Question}
    (h : readQueries buf qd = .ok q) : plainQuestion q = true := by
  obtain ⟨t4, ht4, hraw, _, _⟩ := readQueries_raw h
  unfold plainQuestion
  rw [hraw]
  have : (Name.wire q.name ++ t4).length - 4 = (Name.wire q.name).length := by
    rw [List.length_append, ht4]; omega
  rw [this, List.take_left]
  simp

/-! ### regression: finding C11.CompressedQuestionEcho (fixed in /repo cb5609e)

request `1234 0100 0001 0000 0000 0000 | c002 0001 0001` — the name is a pointer to the flags
octets `01 00`, i.e. the one-label name `\000.`. -/

private def ceRequest : Bytes := [0x12, 0x34, 0x01, 0x00, 0, 1, 0, 0, 0, 0, 0, 0, 0xC0, 2, 0, 1, 0, 1]
private def ceResponseHeader : Bytes := [0x12, 0x34, 0x81, 0x05, 0, 1, 0, 0, 0, 0, 0, 0]

/-- Pre-fix: the slice `c002 0001 0001` was echoed; behind the header of the REFUSED response
(`1234 8105 0001 …`) the pointer lands on `81`, no label type — the question of the one response
did not decode. -/
theorem echo_counterexample_prefix :
    ∃ q, readQueriesPreFix ceRequest 1 = .ok q ∧ plainQuestion q = false ∧
      q.name = ⟨[[0]], true⟩ ∧ q.raw = [0xC0, 2, 0, 1, 0, 1] ∧
      readName (ceResponseHeader ++ q.raw ++ []) 12 = .err := by
  refine ⟨{ name := ⟨[[0]], true⟩, qtype := 1, qclass := 1, raw := [0xC0, 2, 0, 1, 0, 1] }, ?_,
    by decide, rfl, rfl, ?_⟩
  · simp [readQueriesPreFix, readU16, readName, readLabels, ceRequest, extendName, Name.new,
      encodedLen, dataLen, MAX_LENGTH, Name.len]
  · simp [readName, readLabels, ceResponseHeader]

private def ceFixed : Question :=
  { name := ⟨[[0]], true⟩, qtype := 1, qclass := 1, raw := [1, 0, 0, 0, 1, 0, 1] }

/-- Post-fix: the same request yields `original = 01 00 00 | 0001 0001` (the plain form of
`\000.`), which decodes to the same question behind the response header. -/
theorem echo_regression :
    ∃ q, readQueries ceRequest 1 = .ok q ∧ q.name = ⟨[[0]], true⟩ ∧
      q.raw = [1, 0, 0, 0, 1, 0, 1] ∧
      readQueries (ceResponseHeader ++ q.raw ++ []) 1 = .ok q := by
  have hq : readQueries ceRequest 1 = .ok ceFixed := by
    simp [ceFixed, readQueries, readU16, readName, readLabels, ceRequest, extendName, Name.new, encodedLen,
      dataLen, MAX_LENGTH, Name.len, Name.wire, emitLabel]
  exact ⟨_, hq, rfl, rfl, echo_decodes_same hq ceResponseHeader [] rfl⟩

-- non-vacuity: `www.com. A IN` in plain wire form
private def exPlain : Question :=
  { name := ⟨[[119, 119, 119], [99, 111, 109]], true⟩, qtype := 1, qclass := 1,
    raw := [3, 119, 119, 119, 3, 99, 111, 109, 0, 0, 1, 0, 1] }
example : plainQuestion exPlain = true ∧ Bounded exPlain.name := by decide

end HickoryVerif.C11
