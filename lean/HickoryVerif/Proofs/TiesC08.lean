/-
Ties for C08: (a) the type codes the NSEC model uses are the codes of the `RecordType` table
regenerated from /repo's source on every run; (b) the total forms `baseNameT` / `trimToT` /
`prependStar` of `Model/Nsec.lean` are `Name.baseName` / `Name.trimTo` / `Name.prependLabel`
of `Model/Name.lean` (the model validated by C04) on bounded names — so `verify_nsec` has no
panic site of its own (`trim_to`'s `unwrap` cannot fail on the labels of an existing name).
-/
import HickoryVerif.Generated.Tables
import HickoryVerif.Model.Nsec
import HickoryVerif.Proofs.C04Bounds

namespace HickoryVerif.C08
open HickoryVerif HickoryVerif.Name HickoryVerif.Nsec

theorem tie_type_codes :
    Generated.recordTypeToCode.lookup "NS" = some TYPE_NS ∧
    Generated.recordTypeToCode.lookup "CNAME" = some TYPE_CNAME ∧
    Generated.recordTypeToCode.lookup "SOA" = some TYPE_SOA ∧
    Generated.recordTypeToCode.lookup "DS" = some TYPE_DS ∧
    Generated.recordTypeToCode.lookup "RRSIG" = some TYPE_RRSIG ∧
    Generated.recordTypeToCode.lookup "NSEC" = some TYPE_NSEC := by decide

/-- `trim_to` of the name model on a bounded name is the total form used by the NSEC model. -/
theorem tie_trimTo {n : Name} (hn : C04.Bounded n) (k : Nat) : n.trimTo k = .ok (trimToT n k) := by
  unfold trimTo trimToT
  split
  · rfl
  · have hdrop : ∀ l ∈ n.labels.drop (n.labels.length - k), 1 ≤ l.length ∧ l.length ≤ 63 :=
      fun l hl => hn.2 l (List.mem_of_mem_drop hl)
    have hsum := C04.sum_drop_le n.labels (n.labels.length - k)
    have hlen : (n.labels.drop (n.labels.length - k)).length ≤ n.labels.length := by simp
    have h1 := hn.1
    unfold encodedLen dataLen at h1
    obtain ⟨r, hr, hrl, hrf⟩ := C04.appendLabels_ok_of_fits root _ hdrop (by
      show root.encodedLen + _ + _ ≤ 255
      have : root.encodedLen = 1 := rfl
      omega)
    have hfl : fromLabels (n.labels.drop (n.labels.length - k)) = .ok r := by
      unfold fromLabels
      have hany : (n.labels.drop (n.labels.length - k)).any
          (fun l => !(labelFromRaw l).isOk) = false := by
        rw [List.any_eq_false]
        intro l hl
        have hraw : labelFromRaw l = .ok l := C04.labelFromRaw_of_len (hdrop l hl)
        simp [hraw, Outcome.isOk]
      rw [hany]
      simp only [Bool.false_eq_true, ↓reduceIte]
      split
      · omega
      · exact hr
    rw [hfl]
    simp only [Outcome.ok.injEq]
    rcases r with ⟨rl, rf⟩
    simp only [root, List.nil_append] at hrl hrf
    subst hrl; subst hrf
    rfl

/-- `base_name` likewise. -/
theorem tie_baseName {n : Name} (hn : C04.Bounded n) : n.baseName = .ok (baseNameT n) := by
  unfold baseName
  split
  · rename_i h
    rw [tie_trimTo hn]
    simp only [Outcome.ok.injEq]
    unfold trimToT baseNameT
    rcases n with ⟨ls, f⟩
    cases ls with
    | nil => simp at h
    | cons l ls => simp
  · rename_i h
    rcases n with ⟨ls, f⟩
    cases ls with
    | nil => rfl
    | cons l ls => simp at h

/-- `prepend_label("*")` is `Name.prependLabel` with the label `*` (definitional). -/
theorem tie_prependStar (n : Name) : prependStar n = (n.prependLabel [42]).toOption := rfl

end HickoryVerif.C08
