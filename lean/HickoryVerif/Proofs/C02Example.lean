/-
Non-vacuity of the message-level theorems of C02 / C03: a concrete message satisfying `MsgWF`,
its encoding with compression pointers, and its truncation under a limit (kernel-checked).
-/
import HickoryVerif.Proofs.C02Full

namespace HickoryVerif.C02
open HickoryVerif HickoryVerif.Name HickoryVerif.Wire HickoryVerif.C03

/-! ### non-vacuity: a message satisfying `MsgWF`, encoded with compression, cut by a limit -/

def nsExCom : Name := { labels := [[110, 115], [101, 120], [99, 111, 109]], fqdn := true }

/-- `ex.com. A?` answered by `ex.com. NS ns.ex.com.` with the glue `ns.ex.com. A 10.0.0.1` -/
def exMsg : Message :=
  { md := { id := 4660, qr := true, op := 0, aa := true, tc := false, rd := true, ra := false, ad := false,
            cd := false, rcode := 0 }
    queries := [{ name := exCom, qtype := 1, qclass := 1 }]
    answers := [{ name := exCom, rtype := 2, cls := 1, ttl := 60, rdata := .name nsExCom }]
    authorities := []
    additionals := [{ name := nsExCom, rtype := 1, cls := 1, ttl := 60, rdata := .a [10, 0, 0, 1] }]
    signature := none
    edns := none }

theorem exMsg_wf : MsgWF exMsg := by
  have wfEx : exCom.WF := by decide
  have wfNs : nsExCom.WF := by decide
  refine ⟨by decide, by decide, by decide, ?_, ?_, ?_, ?_, rfl, rfl⟩
  · intro q hq
    simp only [exMsg, List.mem_singleton] at hq
    subst hq
    exact ⟨wfEx, by decide, by decide⟩
  · intro r hr
    simp only [exMsg, List.mem_singleton] at hr
    subst hr
    exact ⟨⟨wfEx, by decide, by decide, by decide,
      Or.inr ⟨rfl, Or.inl rfl, wfNs, trivial⟩⟩, by decide, by decide, by simp [RData.isUpdate]⟩
  · intro r hr
    simp [exMsg] at hr
  · intro r hr
    simp only [exMsg, List.mem_singleton] at hr
    subst hr
    exact ⟨⟨wfNs, by decide, by decide, by decide,
      Or.inr ⟨rfl, ⟨rfl, rfl⟩, trivial, trivial⟩⟩, by decide, by decide, by simp [RData.isUpdate]⟩

/-- both theorems apply to it: whatever limit, if the emission succeeds the decoder reads the output
back as the message cut to the records written (e.g. under 512 octets: all of it, 52 octets with the
NS target and the glue owner written as pointers; under 50 octets: the glue record dropped, ARCOUNT 0,
TC set — the harness replays exactly this message, corpus/C03/limits.case) -/
example (opq : Nat → Rd Bytes) (L : Nat) (bs : Bytes) (h : emitLimited exMsg L = .ok bs) :
    bs.length ≤ L ∧ ∃ c : Counts, Rd.run (readMessage opq) bs 0 = .ok ((truncated exMsg c).fq, bs.length) := by
  obtain ⟨h1, c, _, _, _, h2, _⟩ := emitLimited_decodes_partial opq exMsg exMsg_wf L bs h
  exact ⟨h1, c, h2⟩
end HickoryVerif.C02
