/-
C17 × C02 × C03 — the two models composed: DNS messages over a TCP stream.

`Proofs/C17.lean` speaks about byte strings, `Proofs/C02Full.lean` / `Proofs/C03Msg.lean` about
`Message::emit` / `Message::read`.  Here the two are put on top of each other, the way
`TcpClientStream` / the server's TCP handler use them: every message is encoded with
`Message::to_vec` (`toVec` = `emitLimited · 65535`), handed to one `TcpStream`, cut and delayed
arbitrarily by the network, reassembled by another `TcpStream` and decoded with `Message::read`.

No new model: only `TcpFraming`, `MessageEmit` and the message reader are used.
-/
import HickoryVerif.Proofs.C17
import HickoryVerif.Proofs.C02Full

namespace HickoryVerif.C17
open HickoryVerif HickoryVerif.TcpFraming HickoryVerif.Wire HickoryVerif.C02 HickoryVerif.C03

/-- **What `Message::to_vec` returns can always be framed**: at least the 12 header octets, at most
65 535 octets (`emitLimited_header`, `emitLimited_len`) — so the `as u16` length cast of the TCP
writer never wraps on an encoded message (`wframe_eq_frame` applies) and the reader never sees a
zero-length frame from a hickory peer. -/
theorem toVec_framable (m : Message) (hm : m.emitModelled = true) (bs : Bytes)
    (h : toVec m = .ok bs) : Framable bs := by
  obtain ⟨c, h12, _⟩ := emitLimited_header m hm 65535 bs h
  have hlen := emitLimited_len m hm 65535 bs h
  refine ⟨?_, by omega⟩
  intro h0
  rw [h0] at h12
  simp at h12

theorem msgWF_modelled {m : Message} (hwf : MsgWF m) : m.emitModelled = true := by
  simp only [Message.emitModelled, List.all_eq_true, hwf.sig, Option.toList_none, List.append_nil]
  intro r hr
  rcases List.mem_append.1 hr with hr | hr
  · rcases List.mem_append.1 hr with hr | hr
    · exact recWF_modelled (hwf.an r hr).1
    · exact recWF_modelled (hwf.ns r hr).1
  · exact recWF_modelled (hwf.ar r hr).1

theorem map_eq_map_zip {α β γ} (f : α → γ) (g : β → γ) : ∀ (as : List α) (bs : List β),
    as.map f = bs.map g → ∀ a b, (a, b) ∈ as.zip bs → f a = g b
  | [], _, _, _, _, h => by simp at h
  | _ :: _, [], _, _, _, h => by simp at h
  | a' :: as, b' :: bs, he, a, b, h => by
    simp only [List.map_cons, List.cons.injEq] at he
    simp only [List.zip_cons_cons, List.mem_cons, Prod.mk.injEq] at h
    rcases h with ⟨rfl, rfl⟩ | h
    · exact he.1
    · exact map_eq_map_zip f g as bs he.2 a b h

theorem map_eq_map_mem {α β γ} (f : α → γ) (g : β → γ) : ∀ (as : List α) (bs : List β),
    as.map f = bs.map g → ∀ b ∈ bs, ∃ a ∈ as, f a = g b
  | [], [], _, _, h => by simp at h
  | [], _ :: _, he, _, _ => by simp at he
  | _ :: _, [], he, _, _ => by simp at he
  | a' :: as, b' :: bs, he, b, h => by
    simp only [List.map_cons, List.cons.injEq] at he
    rcases List.mem_cons.1 h with rfl | h
    · exact ⟨a', by simp, he.1⟩
    · obtain ⟨a, ha, hab⟩ := map_eq_map_mem f g as bs he.2 b h
      exact ⟨a, by simp [ha], hab⟩

/-- **DNS messages over TCP, end to end.**  Messages `ms` (`MsgWF`: the record types covered by the
C02 round-trip proof) are encoded by `Message::to_vec` to `bss`, handed to a fresh `TcpStream` `A`
whose socket accepts bytes in any pattern, and `A` is polled until it stops with nothing half-sent.
A second fresh `TcpStream` `B` reads exactly the bytes `A`'s socket accepted, cut into chunks and
interleaved with `Pending`s in any way (`s`).  Then

* `B` delivers exactly the encodings `bss` — each whole, in order, once — and then ends cleanly /
  with an error / waits according to how `s` ends; and
* every delivered byte string decodes with `Message::read`, with no octet left over, to the message
  that was encoded (names fully qualified, as `Name::read` returns them; if `to_vec`'s 65 535-octet
  limit dropped records, to the truncation `truncated m c` with TC set, as in C03). -/
theorem messages_over_tcp (opq : Nat → Rd Bytes) (ms : List Message) (bss : List Bytes)
    (hwf : ∀ m ∈ ms, MsgWF m) (henc : ms.map toVec = bss.map Outcome.ok)
    (hcap : bss.length ≤ bufferSize + 1)
    (rsA : List REv) (ws : List WEv) (vecA vecB : Bool) (s : List REv)
    (hdone : (drain (execAll { vec := vecA, rs := rsA, w := { ws := ws } } (bss.map (Act.send · true)))).2.w.send = none)
    (hs : bytesOf s =
      (drain (execAll { vec := vecA, rs := rsA, w := { ws := ws } } (bss.map (Act.send · true)))).2.w.written) :
    obs (drain (fresh s vecB)).1 =
        (bss, match endingOf s with | .eof => .clean | .err => .error | .open => .blocked) ∧
    ∀ m b, (m, b) ∈ ms.zip bss →
      ∃ c : Counts, c.an ≤ m.answers.length ∧ c.ns ≤ m.authorities.length ∧ c.ar ≤ m.additionals.length ∧
        Rd.run (readMessage opq) b 0 = .ok ((truncated m c).fq, b.length) := by
  have hfr : ∀ b ∈ bss, Framable b := by
    intro b hb
    obtain ⟨m, hm, hmb⟩ := map_eq_map_mem toVec Outcome.ok ms bss henc b hb
    exact toVec_framable m (msgWF_modelled (hwf m hm)) b hmb
  refine ⟨end_to_end rsA ws vecA vecB bss hfr hcap s hdone hs, ?_⟩
  intro m b hmb
  have henc1 : toVec m = .ok b := map_eq_map_zip toVec Outcome.ok ms bss henc m b hmb
  obtain ⟨_, c, h1, h2, h3, h4, _⟩ :=
    emitLimited_decodes_partial opq m (hwf m (List.of_mem_zip hmb).1) 65535 b henc1
  exact ⟨c, h1, h2, h3, h4⟩

end HickoryVerif.C17
