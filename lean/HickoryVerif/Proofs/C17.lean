/-
C17 — stream framing is independent of how the bytes are chunked.

Property theorems about `Model/TcpFraming.lean` (the model of `tcp_stream.rs`):

* `read_chunking_independent` : two read scripts that carry the same bytes and end the same way
  (any chunk sizes, any number of interleaved `pending`s) make the stream deliver the same
  messages and the same terminal event — whatever the send side is doing meanwhile;
* `read_frames`               : bytes = frame m₁ ++ … ++ frame mₖ (every mᵢ non-empty) ⇒ delivered
  = [m₁ … mₖ]; clean end on EOF at the boundary, error on EOF inside a prefix or a body;
* `write_bytes`               : for every acceptance script and every interleaving of sends and polls,
  bytes written ++ bytes still owed = frame m₁ ++ … ++ frame mₖ; hence always a prefix, and everything
  once the send loop has finished;
* `no_truncated_merged_duplicated` : whatever the chunking, the close position and the send side,
  the delivered list is a prefix of the list of messages that were framed.
-/
import HickoryVerif.Model.TcpFraming
import HickoryVerif.Spec.Framing

namespace HickoryVerif.C17
open HickoryVerif HickoryVerif.TcpFraming

/-- the bytes a read script carries before the close / the failure -/
def bytesOf : List REv → Bytes
  | [] => []
  | .data bs :: s => bs ++ bytesOf s
  | .pending :: s => bytesOf s
  | .eof :: _ => []
  | .err :: _ => []

def endingOf : List REv → Ending
  | [] => .open
  | .data _ :: s => endingOf s
  | .pending :: s => endingOf s
  | .eof :: _ => .eof
  | .err :: _ => .err

/-- what the consumer has seen: the messages before the first terminal item, and that item -/
def obs : List Item → List Bytes × Terminal
  | [] => ([], .blocked)
  | .msg m :: t => (m :: (obs t).1, (obs t).2)
  | .pending :: t => obs t
  | .idle :: _ => ([], .blocked)
  | .endClean :: _ => ([], .clean)
  | .err :: _ => ([], .error)

/-! ## the byte-wise reader -/

def atEnd (st : RdSt) : Ending → Terminal
  | .open => .blocked
  | .err => .error
  | .eof => match st with
    | .lenBytes [] => .clean
    | _ => .error

/-- feed the read machine one byte at a time (`RdSt.absorb` with a 1-byte read).  A state whose
buffer is empty (`need = 0`: a zero-length frame was announced) fails at the next byte. -/
def run (st : RdSt) : Bytes → Ending → List Bytes × Terminal
  | [], e => ([], atEnd st e)
  | b :: bs, e =>
    if st.need = 0 then ([], .error)
    else
      match st.absorb [b] with
      | (st', .msg m) => (m :: (run st' bs e).1, (run st' bs e).2)
      | (st', _) => run st' bs e

/-- states the machine can be in -/
def _root_.HickoryVerif.TcpFraming.RdSt.WF : RdSt → Prop
  | .lenBytes got => got.length < 2
  | .datBytes len got => got.length < len ∨ len = 0

/-- what an outcome of the receive loop means for the consumer, given what follows -/
def after (o : RdOut) (r : List Bytes × Terminal) : List Bytes × Terminal :=
  match o with
  | .cont => r
  | .pending => r
  | .msg m => (m :: r.1, r.2)
  | .idle => ([], .blocked)
  | .endClean => ([], .clean)
  | .errClosed => ([], .error)
  | .ioErr => ([], .error)

theorem absorb_one {st : RdSt} (hwf : st.WF) (b : Nat) (h2 : 2 ≤ st.need) :
    (st.absorb [b]).2 = .cont ∧ (st.absorb [b]).1.WF ∧ (st.absorb [b]).1.need = st.need - 1 ∧
      ∀ bs, (st.absorb [b]).1.absorb bs = st.absorb (b :: bs) := by
  cases st with
  | lenBytes got =>
    have : got = [] := by
      simp [RdSt.need] at h2
      cases got with
      | nil => rfl
      | cons a t => simp at h2; omega
    subst this
    simp [RdSt.absorb, RdSt.WF, RdSt.need]
  | datBytes len got =>
    simp [RdSt.need] at h2
    have : got.length + 1 < len := by omega
    simp [RdSt.absorb, RdSt.WF, RdSt.need, this]
    omega

theorem absorb_wf {st : RdSt} (hwf : st.WF) {bs : Bytes} (_hb : bs ≠ []) (hn : bs.length ≤ st.need) :
    (st.absorb bs).1.WF := by
  cases st with
  | lenBytes got =>
    simp only [RdSt.absorb]
    split
    · rename_i h; simpa [RdSt.WF] using h
    · simp [RdSt.WF]; omega
  | datBytes len got =>
    simp only [RdSt.absorb]
    split
    · rename_i h; simp [RdSt.WF]; left; simpa using h
    · simp [RdSt.WF]

/-- one `poll_read` that delivers `bs.length ≤ need` bytes = `bs.length` byte steps -/
theorem run_chunk (bs : Bytes) : ∀ {st : RdSt}, st.WF → bs ≠ [] → bs.length ≤ st.need →
    ∀ (rest : Bytes) (e : Ending),
      run st (bs ++ rest) e = after (st.absorb bs).2 (run (st.absorb bs).1 rest e) := by
  induction bs with
  | nil => intro st _ h; exact absurd rfl h
  | cons b t ih =>
    intro st hwf _ hn rest e
    cases t with
    | nil =>
      have hne : st.need ≠ 0 := by simp at hn; omega
      simp only [List.cons_append, List.nil_append, run, hne, if_false]
      have hcont : (st.absorb [b]).2 ≠ .pending ∧ (st.absorb [b]).2 ≠ .idle ∧ (st.absorb [b]).2 ≠ .endClean
          ∧ (st.absorb [b]).2 ≠ .errClosed ∧ (st.absorb [b]).2 ≠ .ioErr := by
        cases st <;> simp [RdSt.absorb] <;> split <;> simp
      generalize st.absorb [b] = r at hcont
      obtain ⟨st', o⟩ := r
      cases o <;> simp_all [after]
    | cons b' t' =>
      have h2 : 2 ≤ st.need := by simp at hn; omega
      have hne : st.need ≠ 0 := by omega
      obtain ⟨hc, hwf', hneed, hab⟩ := absorb_one hwf b h2
      have := ih hwf' (by simp) (by simp at hn ⊢; omega) rest e
      rw [hab] at this
      rw [← this]
      simp only [List.cons_append, run, hne, if_false]
      generalize hr : st.absorb [b] = r at hc
      obtain ⟨st', o⟩ := r
      simp at hc; subst hc
      simp

/-! ## one `poll_read`, the receive loop -/

theorem sockRead_spec (s : List REv) (n : Nat) :
    match sockRead s n with
    | (.pending, s') => bytesOf s' = bytesOf s ∧ endingOf s' = endingOf s
    | (.idle, _) => bytesOf s = [] ∧ endingOf s = .open
    | (.err, _) => bytesOf s = [] ∧ endingOf s = .err
    | (.ready bs, s') =>
      if bs = [] then (n = 0 ∧ bytesOf s ≠ []) ∨ (bytesOf s = [] ∧ endingOf s = .eof)
      else bs.length ≤ n ∧ bytesOf s = bs ++ bytesOf s' ∧ endingOf s' = endingOf s := by
  fun_induction sockRead s n <;> simp_all [bytesOf, endingOf]
  constructor
  · omega
  · rw [← List.append_assoc, List.take_append_drop]

theorem run_dead {st : RdSt} (h : st.need = 0) {bs : Bytes} (hb : bs ≠ []) (e : Ending) :
    run st bs e = ([], .error) := by
  cases bs with
  | nil => exact absurd rfl hb
  | cons b t => simp [run, h]

/-- one `poll_read` call, seen from the byte-wise reader -/
theorem readStep_run {st : RdSt} (hwf : st.WF) (s : List REv) :
    (readStep st s).1.WF ∧
      run st (bytesOf s) (endingOf s) =
        after (readStep st s).2.2 (run (readStep st s).1 (bytesOf (readStep st s).2.1) (endingOf (readStep st s).2.1)) := by
  have hs := sockRead_spec s st.need
  unfold readStep
  split
  · rename_i s' heq
    simp only [heq] at hs
    simp [after, hwf, hs.1, hs.2]
  · rename_i s' heq
    simp only [heq] at hs
    simp [after, hwf, hs.1, hs.2, run, atEnd]
  · rename_i s' heq
    simp only [heq] at hs
    simp [after, hwf, hs.1, hs.2, run, atEnd]
  · rename_i bs s' heq
    simp only [heq] at hs
    split
    · rename_i hb
      simp only [hb, if_true] at hs
      refine ⟨hwf, ?_⟩
      rcases hs with ⟨hn, hne⟩ | ⟨hnil, he⟩
      · rw [run_dead hn hne]
        cases st with
        | lenBytes got => simp [RdSt.need] at hn; simp [RdSt.WF] at hwf; omega
        | datBytes len got => simp [RdSt.closed, after]
      · simp only [hnil, he, run]
        cases st with
        | lenBytes got => cases got <;> simp [RdSt.closed, after, atEnd]
        | datBytes len got => simp [RdSt.closed, after, atEnd]
    · rename_i hb
      simp only [hb, if_false] at hs
      obtain ⟨hle, hbytes, hend⟩ := hs
      refine ⟨absorb_wf hwf hb hle, ?_⟩
      rw [hbytes, hend]
      exact run_chunk bs hwf hb hle _ _

theorem after_after_cont (o : RdOut) (r : List Bytes × Terminal) : after .cont (after o r) = after o r := rfl

/-- the receive loop of one `poll_next`, seen from the byte-wise reader -/
theorem readLoop_run {st : RdSt} (hwf : st.WF) (s : List REv) :
    (readLoop st s).1.WF ∧
      run st (bytesOf s) (endingOf s) =
        after (readLoop st s).2.2 (run (readLoop st s).1 (bytesOf (readLoop st s).2.1) (endingOf (readLoop st s).2.1)) := by
  fun_induction readLoop st s with
  | case1 st s st' s' h ih =>
    have hstep := readStep_run hwf s
    simp only [h] at hstep
    have := ih hstep.1
    refine ⟨this.1, ?_⟩
    rw [hstep.2, after, this.2]
  | case2 st s hne => exact readStep_run hwf s

/-! ## the send loop does not disturb the receive side -/

/-- every queued message is addressed to the peer (always true of `BufDnsStreamHandle::send`
unless `with_remote_addr` was used) -/
def AllOk (q : List (Bytes × Bool)) : Prop := ∀ x ∈ q, x.2 = true

theorem writeLoop_done (vec : Bool) (w : WSide) (h : (writeLoop vec w).2 = .done) :
    (writeLoop vec w).1.queue = [] ∧ (writeLoop vec w).1.send = none := by
  fun_induction writeLoop vec w <;> simp_all

theorem writeLoop_allOk (vec : Bool) (w : WSide) (hq : AllOk w.queue) : AllOk (writeLoop vec w).1.queue := by
  fun_induction writeLoop vec w <;> simp_all [AllOk]

theorem writeLoop_not_done (vec : Bool) (w : WSide) (hq : AllOk w.queue) (h : (writeLoop vec w).2 ≠ .done) :
    (writeLoop vec w).1.send ≠ none := by
  fun_induction writeLoop vec w <;> simp_all [AllOk]

/-- the two ways through `poll_next` -/
theorem pollNext_cases (c : Conn) :
    (∃ w', writeLoop c.vec c.w = (w', .done) ∧
        pollNext c = ({ c with w := w', rd := (readLoop c.rd c.rs).1, rs := (readLoop c.rd c.rs).2.1 },
                      (readLoop c.rd c.rs).2.2.toItem)) ∨
    (∃ w' o it, writeLoop c.vec c.w = (w', o) ∧ o ≠ .done ∧ (it = .pending ∨ it = .idle ∨ it = .err) ∧
        (it = .pending → o = .pending) ∧ pollNext c = ({ c with w := w' }, it)) := by
  unfold pollNext
  split
  · rename_i w' h; right; exact ⟨w', .pending, .pending, h, by simp, by simp, by simp, rfl⟩
  · rename_i w' h; right; exact ⟨w', .idle, .idle, h, by simp, by simp, by simp, rfl⟩
  · rename_i w' h; right; exact ⟨w', .err, .err, h, by simp, by simp, by simp, rfl⟩
  · rename_i w' h; left; exact ⟨w', h, rfl⟩

/-- The consumer's view of a whole run, against the byte-wise reader.
(1) Whatever the send side does, the delivered messages are a prefix of what the byte-wise reader
yields for the bytes of the script.  (2) If every queued message is for the peer and the run ends
with no message half-sent, the consumer sees exactly the byte-wise reader's result. -/
theorem drain_obs (c : Conn) (hwf : c.rd.WF) :
    (obs (drain c).1).1 <+: (run c.rd (bytesOf c.rs) (endingOf c.rs)).1 ∧
      (AllOk c.w.queue → (drain c).2.w.send = none →
        obs (drain c).1 = run c.rd (bytesOf c.rs) (endingOf c.rs)) := by
  fun_induction drain c with
  | case1 c c' m h r ih =>
    rcases pollNext_cases c with ⟨w', hw, hp⟩ | ⟨w', o, it, hw, ho, hit, _, hp⟩
    · rw [h] at hp
      simp only [Prod.mk.injEq] at hp
      obtain ⟨rfl, hm⟩ := hp
      have hrl := readLoop_run hwf c.rs
      have hout : (readLoop c.rd c.rs).2.2 = .msg m := by
        generalize (readLoop c.rd c.rs).2.2 = o at hm
        cases o <;> simp_all [RdOut.toItem]
      rw [hout] at hrl
      have ih' := ih hrl.1
      simp only [obs]
      rw [hrl.2]
      simp only [after]
      refine ⟨by simpa using ih'.1, ?_⟩
      intro hq hfin
      have hq' : AllOk w'.queue := by have := writeLoop_allOk c.vec c.w hq; rwa [hw] at this
      rw [ih'.2 hq' hfin]
    · rw [h] at hp
      simp only [Prod.mk.injEq] at hp
      rcases hit with rfl | rfl | rfl <;> simp at hp
  | case2 c c' h r ih =>
    rcases pollNext_cases c with ⟨w', hw, hp⟩ | ⟨w', o, it, hw, ho, hit, hpend, hp⟩
    · rw [h] at hp
      simp only [Prod.mk.injEq] at hp
      obtain ⟨rfl, hm⟩ := hp
      have hrl := readLoop_run hwf c.rs
      have hne := readLoop_ne_cont c.rd c.rs
      have hout : (readLoop c.rd c.rs).2.2 = .pending := by
        generalize (readLoop c.rd c.rs).2.2 = o at hm hne
        cases o <;> simp [RdOut.toItem] at hm hne ⊢
      rw [hout] at hrl
      have ih' := ih hrl.1
      simp only [obs]
      rw [hrl.2]
      simp only [after]
      refine ⟨ih'.1, ?_⟩
      intro hq hfin
      have hq' : AllOk w'.queue := by have := writeLoop_allOk c.vec c.w hq; rwa [hw] at this
      exact ih'.2 hq' hfin
    · rw [h] at hp
      simp only [Prod.mk.injEq] at hp
      obtain ⟨rfl, rfl⟩ := hp
      have ih' := ih hwf
      simp only [obs]
      refine ⟨ih'.1, ?_⟩
      intro hq hfin
      have hq' : AllOk w'.queue := by have := writeLoop_allOk c.vec c.w hq; rwa [hw] at this
      exact ih'.2 hq' hfin
  | case3 c c' it hnm hnp h =>
    rcases pollNext_cases c with ⟨w', hw, hp⟩ | ⟨w', o, it', hw, ho, hit, _, hp⟩
    · rw [h] at hp
      simp only [Prod.mk.injEq] at hp
      obtain ⟨rfl, rfl⟩ := hp
      have hrl := readLoop_run hwf c.rs
      have hne := readLoop_ne_cont c.rd c.rs
      generalize (readLoop c.rd c.rs).2.2 = o at hrl hne hnm hnp
      cases o <;> simp_all [RdOut.toItem, obs, after]
    · rw [h] at hp
      simp only [Prod.mk.injEq] at hp
      obtain ⟨rfl, rfl⟩ := hp
      refine ⟨by rcases hit with rfl | rfl | rfl <;> simp [obs], ?_⟩
      intro hq hfin
      have := writeLoop_not_done c.vec c.w hq (by rw [hw]; exact ho)
      rw [hw] at this
      exact absurd hfin this

/-! ## `read_chunking_independent` -/

/-- **Chunking independence, general form.**  Two connections in the same read state, fed scripts
that carry the same bytes and end the same way — cut into chunks in any two ways, with any number of
`pending`s anywhere — show the consumer the same messages and the same terminal event.  The send
sides may differ arbitrarily (other messages queued, other acceptance scripts), as long as each run
ends with no message half-sent. -/
theorem read_chunking_independent (c₁ c₂ : Conn) (hwf : c₁.rd.WF) (hrd : c₁.rd = c₂.rd)
    (hbytes : bytesOf c₁.rs = bytesOf c₂.rs) (hend : endingOf c₁.rs = endingOf c₂.rs)
    (hq₁ : AllOk c₁.w.queue) (hq₂ : AllOk c₂.w.queue)
    (hfin₁ : (drain c₁).2.w.send = none) (hfin₂ : (drain c₂).2.w.send = none) :
    obs (drain c₁).1 = obs (drain c₂).1 := by
  rw [(drain_obs c₁ hwf).2 hq₁ hfin₁, (drain_obs c₂ (hrd ▸ hwf)).2 hq₂ hfin₂, hrd, hbytes, hend]

/-- a connection with nothing to send -/
def Quiet (w : WSide) : Prop := w.queue = [] ∧ w.send = none

theorem writeLoop_quiet (vec : Bool) (w : WSide) (h : Quiet w) : writeLoop vec w = (w, .done) := by
  unfold writeLoop
  obtain ⟨hq, hs⟩ := h
  split <;> simp_all
  split <;> simp_all

theorem pollNext_quiet (c : Conn) (h : Quiet c.w) : (pollNext c).1.w = c.w := by
  unfold pollNext
  rw [writeLoop_quiet c.vec c.w h]

theorem drain_quiet (c : Conn) (h : Quiet c.w) : (drain c).2.w = c.w := by
  fun_induction drain c with
  | case1 c c' m hp r ih =>
    have := pollNext_quiet c h; rw [hp] at this
    simp only at this
    rw [ih (this ▸ h), this]
  | case2 c c' hp r ih =>
    have := pollNext_quiet c h; rw [hp] at this
    simp only at this
    rw [ih (this ▸ h), this]
  | case3 c c' it hnm hnp hp =>
    have := pollNext_quiet c h; rw [hp] at this
    exact this

/-- a fresh connection (`TcpStream::from_stream`) over a socket with read script `rs` -/
def fresh (rs : List REv) (vec : Bool := true) : Conn := { vec := vec, rs := rs }

/-- **Chunking independence** for a freshly accepted connection with nothing to send: the
delivered messages and the terminal event are a function of the bytes and of how the stream ends. -/
theorem read_chunking_independent_fresh (s₁ s₂ : List REv)
    (hbytes : bytesOf s₁ = bytesOf s₂) (hend : endingOf s₁ = endingOf s₂) :
    obs (drain (fresh s₁)).1 = obs (drain (fresh s₂)).1 := by
  apply read_chunking_independent
  · simp [fresh, RdSt.WF]
  · rfl
  · exact hbytes
  · exact hend
  · simp [fresh, AllOk]
  · simp [fresh, AllOk]
  · rw [drain_quiet _ (by simp [fresh, Quiet])]; rfl
  · rw [drain_quiet _ (by simp [fresh, Quiet])]; rfl

theorem fresh_obs (s : List REv) (vec : Bool) :
    obs (drain (fresh s vec)).1 = run (.lenBytes []) (bytesOf s) (endingOf s) := by
  have := (drain_obs (fresh s vec) (by simp [fresh, RdSt.WF])).2 (by simp [fresh, AllOk])
    (by rw [drain_quiet _ (by simp [fresh, Quiet])]; rfl)
  simpa [fresh] using this

/-- `pending` events are invisible -/
theorem pending_invisible (s₁ s₂ : List REv) :
    obs (drain (fresh (s₁ ++ .pending :: s₂))).1 = obs (drain (fresh (s₁ ++ s₂))).1 := by
  apply read_chunking_independent_fresh
  · induction s₁ with
    | nil => simp [bytesOf]
    | cons e t ih => cases e <;> simp [bytesOf, ih]
  · induction s₁ with
    | nil => simp [endingOf]
    | cons e t ih => cases e <;> simp [endingOf, ih]

/-- splitting a chunk anywhere is invisible -/
theorem split_invisible (s₁ s₂ : List REv) (a b : Bytes) :
    obs (drain (fresh (s₁ ++ .data (a ++ b) :: s₂))).1 = obs (drain (fresh (s₁ ++ .data a :: .data b :: s₂))).1 := by
  apply read_chunking_independent_fresh
  · induction s₁ with
    | nil => simp [bytesOf]
    | cons e t ih => cases e <;> simp [bytesOf, ih]
  · induction s₁ with
    | nil => simp [endingOf]
    | cons e t ih => cases e <;> simp [endingOf, ih]

/-- non-vacuity: two really different chunkings (one with `pending`s, one byte at a time) of the
same five bytes -/
example : bytesOf [.data [0, 3, 97, 98, 99], .eof] = bytesOf [.pending, .data [0], .pending, .data [3], .data [97], .pending, .data [98, 99], .eof]
    ∧ endingOf [.data [0, 3, 97, 98, 99], .eof] = endingOf [.pending, .data [0], .pending, .data [3], .data [97], .pending, .data [98, 99], .eof] := by
  decide

example : obs (drain (fresh [.pending, .data [0], .pending, .data [3], .data [97], .pending, .data [98, 99], .eof])).1
    = ([[97, 98, 99]], .clean) := by
  rw [fresh_obs]; decide

/-! ## `read_frames` -/

theorem frame_length (m : Bytes) : (frame m).length = m.length + 2 := by simp [frame]

theorem u16be_frame (m : Bytes) : u16be [m.length / 256, m.length % 256] = m.length := by
  simp [u16be]; omega

/-- the byte-wise reader on one whole frame -/
theorem run_frame (m : Bytes) (hm : Framable m) (rest : Bytes) (e : Ending) :
    run (.lenBytes []) (frame m ++ rest) e =
      (m :: (run (.lenBytes []) rest e).1, (run (.lenBytes []) rest e).2) := by
  have h1 := run_chunk [m.length / 256, m.length % 256] (st := .lenBytes []) (by simp [RdSt.WF])
    (by simp) (by simp [RdSt.need]) (m ++ rest) e
  have hlen : 0 < m.length := by
    cases m with
    | nil => exact absurd rfl hm.1
    | cons a t => simp
  have h2 := run_chunk m (st := .datBytes m.length []) (by simp [RdSt.WF]; omega) hm.1
    (by simp [RdSt.need]) rest e
  simp only [frame, List.append_assoc]
  rw [h1]
  simp only [RdSt.absorb, List.nil_append, List.length_cons, List.length_nil, u16be_frame, after]
  simp only [show ¬ (0 + 1 + 1 < 2) by omega, if_false]
  rw [h2]
  simp [RdSt.absorb, after]

theorem run_frames (ms : List Bytes) (hms : ∀ m ∈ ms, Framable m) (rest : Bytes) (e : Ending) :
    run (.lenBytes []) (frames ms ++ rest) e =
      (ms ++ (run (.lenBytes []) rest e).1, (run (.lenBytes []) rest e).2) := by
  induction ms with
  | nil => simp [frames]
  | cons m t ih =>
    simp only [frames, List.append_assoc]
    rw [run_frame m (hms m (by simp)), ih (fun x hx => hms x (by simp [hx]))]
    simp

/-- how a stream that stops inside a frame ends -/
def cut : Ending → Terminal
  | .open => .blocked
  | _ => .error

/-- the byte-wise reader on a frame that was cut short: no message, and an error when the stream closes -/
theorem run_partial (m : Bytes) (hm : Framable m) (k : Nat) (hk0 : 0 < k) (hk : k < (frame m).length)
    (e : Ending) : run (.lenBytes []) ((frame m).take k) e = ([], cut e) := by
  have hlen : 0 < m.length := by
    cases m with
    | nil => exact absurd rfl hm.1
    | cons a t => simp
  rw [frame_length] at hk
  match k, hk0 with
  | 1, _ =>
    simp [frame, run, RdSt.need, RdSt.absorb, atEnd]
    cases e <;> simp [cut]
  | k + 2, _ =>
    have h1 := run_chunk [m.length / 256, m.length % 256] (st := .lenBytes []) (by simp [RdSt.WF])
      (by simp) (by simp [RdSt.need]) (m.take k) e
    have : (frame m).take (k + 2) = [m.length / 256, m.length % 256] ++ m.take k := by simp [frame]
    rw [this, h1]
    simp only [RdSt.absorb, List.nil_append, List.length_cons, List.length_nil, u16be_frame, after]
    simp only [show ¬ (0 + 1 + 1 < 2) by omega, if_false]
    by_cases hk2 : k = 0
    · subst hk2
      simp [run, atEnd]
      cases e <;> simp [cut]
    · have hkm : k < m.length := by omega
      have htl : (m.take k).length = k := by rw [List.length_take]; omega
      have hne : m.take k ≠ [] := by
        intro h; rw [h] at htl; simp at htl; omega
      have h2 := run_chunk (m.take k) (st := .datBytes m.length []) (by simp [RdSt.WF]; omega) hne
        (by rw [htl]; simp [RdSt.need]; omega) [] e
      rw [List.append_nil] at h2
      rw [h2]
      simp only [RdSt.absorb, List.nil_append, htl, hkm, if_true, after, run, atEnd]
      cases e <;> simp [cut]

/-- every prefix of a framed stream yields a prefix of the framed messages -/
theorem run_prefix (ms : List Bytes) (hms : ∀ m ∈ ms, Framable m) (e : Ending) :
    ∀ k, (run (.lenBytes []) ((frames ms).take k) e).1 <+: ms := by
  induction ms with
  | nil => intro k; simp [frames, run]
  | cons m t ih =>
    intro k
    have hm := hms m (by simp)
    simp only [frames]
    by_cases hk : k < (frame m).length
    · rw [List.take_append_of_le_length (by omega)]
      by_cases hk0 : k = 0
      · subst hk0; simp [run]
      · rw [run_partial m hm k (by omega) hk]; simp
    · rw [List.take_append, List.take_of_length_le (by omega), run_frame m hm]
      simp only [List.cons_prefix_cons, true_and]
      exact ih (fun x hx => hms x (by simp [hx])) _

/-- **Framing.**  If the bytes the peer sent are exactly `frame m₁ ++ … ++ frame mₖ` (non-empty
messages), then — for every chunking, every interleaving of `pending`s — the stream delivers
exactly `[m₁ … mₖ]`, and then ends cleanly if the peer closed, with an error if the socket failed,
or waits if the connection stays open. -/
theorem read_frames (s : List REv) (vec : Bool) (ms : List Bytes) (hms : ∀ m ∈ ms, Framable m)
    (hb : bytesOf s = frames ms) :
    obs (drain (fresh s vec)).1 =
      (ms, match endingOf s with | .eof => .clean | .err => .error | .open => .blocked) := by
  rw [fresh_obs, hb]
  have := run_frames ms hms [] (endingOf s)
  rw [List.append_nil] at this
  rw [this]
  cases endingOf s <;> simp [run, atEnd]

/-- **Closed inside a frame.**  If after `k` whole frames the peer closes inside the next length
prefix (`j = 1`) or inside the next body (`2 ≤ j < 2 + len`), the stream delivers the `k`
messages and then yields an error — never a truncated message, never a clean end. -/
theorem read_frames_truncated (s : List REv) (vec : Bool) (ms : List Bytes) (hms : ∀ m ∈ ms, Framable m)
    (m : Bytes) (hm : Framable m) (j : Nat) (hj0 : 0 < j) (hj : j < (frame m).length)
    (hb : bytesOf s = frames ms ++ (frame m).take j) :
    obs (drain (fresh s vec)).1 = (ms, cut (endingOf s)) := by
  rw [fresh_obs, hb, run_frames ms hms, run_partial m hm j hj0 hj]
  simp

/-! ## no truncated, merged or duplicated message -/

/-- **Safety.**  Take any connection that is at a message boundary, with *any* send side (messages
queued, half-sent, a write half that blocks, fails, or a message for a foreign peer) and any read
script whose bytes are a prefix of `frame m₁ ++ … ++ frame mₖ` — i.e. any chunking, any
`pending`s, closed / failed / left open at any position.  Then the delivered messages are a prefix
of `[m₁ … mₖ]`: each one whole, in order, none twice, none merged, none invented. -/
theorem no_truncated_merged_duplicated (c : Conn) (hrd : c.rd = .lenBytes [])
    (ms : List Bytes) (hms : ∀ m ∈ ms, Framable m) (hb : bytesOf c.rs <+: frames ms) :
    (obs (drain c).1).1 <+: ms := by
  have h := (drain_obs c (by rw [hrd]; simp [RdSt.WF])).1
  rw [hrd, List.prefix_iff_eq_take.mp hb] at h
  exact h.trans (run_prefix ms hms _ _)

/-- a delivered message is never empty and never longer than its length prefix allows … it is one
of the framed messages -/
theorem delivered_mem (c : Conn) (hrd : c.rd = .lenBytes [])
    (ms : List Bytes) (hms : ∀ m ∈ ms, Framable m) (hb : bytesOf c.rs <+: frames ms) :
    ∀ m ∈ (obs (drain c).1).1, m ∈ ms :=
  fun _ hm => (no_truncated_merged_duplicated c hrd ms hms hb).subset hm

/-- non-vacuity of the hypotheses (`Framable`, prefix of a framed stream, a send side in trouble) -/
example : ∃ c : Conn, c.rd = .lenBytes [] ∧ c.w.queue ≠ [] ∧ c.w.ws = [.accept 1, .err] ∧
    bytesOf c.rs <+: frames [[97], [98, 99]] ∧ (∀ m ∈ [[97], [98, 99]], Framable m) :=
  ⟨{ rs := [.data [0], .pending, .data [1, 97, 0], .eof], w := { queue := [([1], true)], ws := [.accept 1, .err] } },
    rfl, by simp, rfl, by decide, by simp [Framable]⟩

example : obs (drain (fresh [.data [0], .pending, .data [1, 97, 0], .eof])).1 = ([[97]], .error) := by
  rw [fresh_obs]; decide

/-! ## the send side: `write_bytes` -/

/-- what the code puts on the wire for a message: `(len as u16).to_be_bytes()` then the message -/
def wframe (m : Bytes) : Bytes := lenPrefix m.length ++ m

theorem wframe_eq_frame (m : Bytes) (h : m.length < 65536) : wframe m = frame m := by
  simp [wframe, frame, lenPrefix, Nat.mod_eq_of_lt h]

/-- beyond 65535 bytes the `as u16` cast wraps: the prefix no longer is the length -/
theorem wframe_oversize (m : Bytes) (h : 65536 ≤ m.length) : u16be ((wframe m).take 2) ≠ m.length := by
  simp [wframe, lenPrefix, u16be]; omega

def wframes : List Bytes → Bytes
  | [] => []
  | m :: ms => wframe m ++ wframes ms

/-- bytes of the message in flight that the socket has not accepted yet -/
def inFlight : Option WrSt → Bytes
  | none => []
  | some .flushing => []
  | some (.lenBytes pos l b) => l.drop pos ++ b
  | some (.datBytes pos b) => b.drop pos

/-- frames of the queued messages that are addressed to the peer -/
def queued : List (Bytes × Bool) → Bytes
  | [] => []
  | (m, true) :: q => wframe m ++ queued q
  | (_, false) :: q => queued q

/-- everything accepted for sending that is not yet on the wire -/
def owed (w : WSide) : Bytes := inFlight w.send ++ queued w.queue

def WrWF : Option WrSt → Prop
  | some (.lenBytes pos l _) => pos ≤ l.length
  | some (.datBytes pos b) => pos ≤ b.length
  | _ => True

theorem inFlight_afterLen (pos j : Nat) (l b : Bytes) (hp : pos ≤ l.length) :
    inFlight (some (WrSt.afterLen (pos + j) l b)) = (l.drop pos ++ b).drop j ∧
      WrWF (some (WrSt.afterLen (pos + j) l b)) := by
  unfold WrSt.afterLen
  split
  · simp only [inFlight, WrWF]
    rw [List.drop_append_of_le_length (by simp; omega), List.drop_drop]
    exact ⟨rfl, by omega⟩
  · split
    · simp only [inFlight, WrWF]
      rw [List.drop_append]
      have : List.drop j (List.drop pos l) = [] := by simp; omega
      rw [this]
      simp only [List.nil_append, List.length_drop]
      exact ⟨by congr 1; omega, by omega⟩
    · simp only [inFlight, WrWF, and_true]
      symm; simp; omega

theorem inFlight_afterDat (pos j : Nat) (b : Bytes) :
    inFlight (some (WrSt.afterDat (pos + j) b)) = (b.drop pos).drop j ∧
      WrWF (some (WrSt.afterDat (pos + j) b)) := by
  unfold WrSt.afterDat
  split
  · constructor
    · simp only [inFlight, List.drop_drop]
    · simp only [WrWF]; omega
  · constructor
    · simp only [inFlight]
      symm; simp; omega
    · simp only [WrWF]

theorem sockWrite_prefix {ws : List WEv} {buf bs : Bytes} {ws' : List WEv}
    (h : sockWrite ws buf = (.wrote bs, ws')) : bs <+: buf := by
  unfold sockWrite at h
  split at h <;> simp at h
  obtain ⟨rfl, _⟩ := h
  exact List.take_prefix _ _

theorem sockWriteVectored_prefix {vec : Bool} {ws : List WEv} {x b bs : Bytes} {ws' : List WEv}
    (h : sockWriteVectored vec ws [x, b] = (.wrote bs, ws')) : bs <+: x ++ b := by
  unfold sockWriteVectored at h
  split at h
  · simpa using sockWrite_prefix h
  · have hp := sockWrite_prefix h
    refine hp.trans ?_
    cases x with
    | nil =>
      cases b with
      | nil => simp [List.find?]
      | cons a t => simp [List.find?]
    | cons a t => simp [List.find?]

theorem prefix_take_drop {bs p : Bytes} (h : bs <+: p) : bs ++ p.drop bs.length = p := by
  obtain ⟨t, rfl⟩ := h
  simp

/-- **The send loop conserves bytes**: what the socket has accepted plus what is still owed never
changes — nothing is lost, repeated or reordered, for every acceptance script (partial writes,
`accept 0`, `pending`, errors, a blocked socket), with or without a real gather-write. -/
theorem writeLoop_conserves (vec : Bool) (w : WSide) (hwf : WrWF w.send) :
    (writeLoop vec w).1.written ++ owed (writeLoop vec w).1 = w.written ++ owed w ∧
      WrWF (writeLoop vec w).1.send := by
  fun_induction writeLoop vec w
  case case4 w pos l b hs bs ws' hw ih =>
    rw [hs] at hwf
    have hpre := sockWriteVectored_prefix hw
    have hfl := inFlight_afterLen pos bs.length l b hwf
    have ih' := ih hfl.2
    refine ⟨?_, ih'.2⟩
    rw [ih'.1]
    simp only [owed]
    rw [hfl.1, hs]
    simp only [inFlight]
    rw [List.append_assoc, ← List.append_assoc bs, prefix_take_drop hpre]
  case case8 w pos b hs bs ws' hw ih =>
    have hpre := sockWrite_prefix hw
    have hfl := inFlight_afterDat pos bs.length b
    have ih' := ih hfl.2
    refine ⟨?_, ih'.2⟩
    rw [ih'.1]
    simp only [owed]
    rw [hfl.1, hs]
    simp only [inFlight]
    rw [List.append_assoc, ← List.append_assoc bs, prefix_take_drop hpre]
  case case12 w hs ws' hw ih =>
    have ih' := ih (by simp [WrWF])
    refine ⟨?_, ih'.2⟩
    rw [ih'.1]
    simp [owed, hs, inFlight]
  case case14 w hs m q hq ih =>
    have ih' := ih (by simp [WrWF])
    refine ⟨?_, ih'.2⟩
    rw [ih'.1]
    simp [owed, hs, hq, inFlight, queued, wframe]
  all_goals simp_all [owed, queued]

theorem pollNext_w (c : Conn) : (pollNext c).1.w = (writeLoop c.vec c.w).1 := by
  unfold pollNext
  split <;> simp [*]

theorem pollNext_conserves (c : Conn) (hwf : WrWF c.w.send) :
    (pollNext c).1.w.written ++ owed (pollNext c).1.w = c.w.written ++ owed c.w ∧
      WrWF (pollNext c).1.w.send := by
  rw [pollNext_w]; exact writeLoop_conserves c.vec c.w hwf

theorem drain_conserves (c : Conn) (hwf : WrWF c.w.send) :
    (drain c).2.w.written ++ owed (drain c).2.w = c.w.written ++ owed c.w ∧ WrWF (drain c).2.w.send := by
  fun_induction drain c with
  | case1 c c' m h r ih =>
    have hp := pollNext_conserves c hwf; rw [h] at hp
    have ih' := ih hp.2
    exact ⟨ih'.1.trans hp.1, ih'.2⟩
  | case2 c c' h r ih =>
    have hp := pollNext_conserves c hwf; rw [h] at hp
    have ih' := ih hp.2
    exact ⟨ih'.1.trans hp.1, ih'.2⟩
  | case3 c c' it hnm hnp h =>
    have hp := pollNext_conserves c hwf; rw [h] at hp
    exact hp

theorem queued_append (q : List (Bytes × Bool)) (m : Bytes) (ok : Bool) :
    queued (q ++ [(m, ok)]) = queued q ++ (if ok then wframe m else []) := by
  induction q with
  | nil => cases ok <;> simp [queued]
  | cons x t ih =>
    obtain ⟨a, b⟩ := x
    cases b <;> simp [queued, ih]

theorem owed_enqueue (c : Conn) (m : Bytes) (ok : Bool) :
    owed (c.enqueue m ok).w = owed c.w ++ (if ok && c.accepts ok then wframe m else []) := by
  simp only [owed, enqueue_send, enqueue_queue]
  cases hacc : c.accepts ok
  · simp
  · simp [queued_append]

/-- any history of sends and polls (polling on after an error included) -/
def execAll (c : Conn) : List Act → Conn
  | [] => c
  | .send m ok :: as => execAll (c.enqueue m ok) as
  | .poll :: as => execAll (pollNext c).1 as

/-- the messages for the peer that `send` accepted along such a history, in order (a message is
refused — the caller gets an error — while the bounded queue is full) -/
def accepted (c : Conn) : List Act → List Bytes
  | [] => []
  | .send m ok :: as => (if ok && c.accepts ok then [m] else []) ++ accepted (c.enqueue m ok) as
  | .poll :: as => accepted (pollNext c).1 as

theorem wframes_append (a b : List Bytes) : wframes (a ++ b) = wframes a ++ wframes b := by
  induction a with
  | nil => simp [wframes]
  | cons x t ih => simp [wframes, ih]

/-- **Bytes written, exact form.**  After any interleaving of `send`s and `poll_next`s, over any
acceptance script: bytes accepted by the socket ++ bytes still owed = what was there before ++
`frame m₁ ++ … ++ frame mₖ` of the messages accepted by `send` meanwhile, in order. -/
theorem write_bytes (prog : List Act) : ∀ (c : Conn), WrWF c.w.send →
    (execAll c prog).w.written ++ owed (execAll c prog).w =
        c.w.written ++ owed c.w ++ wframes (accepted c prog) ∧
      WrWF (execAll c prog).w.send := by
  induction prog with
  | nil => intro c hwf; simp [execAll, accepted, wframes, hwf]
  | cons a as ih =>
    intro c hwf
    cases a with
    | send m ok =>
      have := ih (c.enqueue m ok) (by simpa using hwf)
      refine ⟨?_, this.2⟩
      simp only [execAll, accepted]
      rw [this.1, owed_enqueue, enqueue_written, wframes_append]
      cases h : (ok && c.accepts ok) <;> simp [wframes]
    | poll =>
      have hp := pollNext_conserves c hwf
      have := ih (pollNext c).1 hp.2
      refine ⟨?_, this.2⟩
      simp only [execAll, accepted]
      rw [this.1, hp.1]

/-- the run of the harness' consumer (sends and polls, stop at the first terminal item, then drain):
the bytes on the wire are always a prefix of the concatenated frames of the accepted messages -/
theorem write_bytes_prefix (prog : List Act) : ∀ (c : Conn), WrWF c.w.send →
    (runProg c prog).2.w.written <+: c.w.written ++ owed c.w ++ wframes (accepted c prog) := by
  induction prog with
  | nil =>
    intro c hwf
    have := (drain_conserves c hwf).1
    simp only [runProg, accepted, wframes, List.append_nil]
    rw [← this]; exact List.prefix_append _ _
  | cons a as ih =>
    intro c hwf
    cases a with
    | send m ok =>
      have := ih (c.enqueue m ok) (by simpa using hwf)
      simp only [runProg, accepted]
      rw [owed_enqueue, enqueue_written] at this
      rw [wframes_append]
      cases h : (ok && c.accepts ok)
      · simp only [h] at this ⊢; simpa [wframes] using this
      · simp only [h] at this ⊢; simpa [wframes] using this
    | poll =>
      have hp := pollNext_conserves c hwf
      simp only [runProg, accepted]
      split
      · simp only
        rw [← hp.1, List.append_assoc]; exact List.prefix_append _ _
      · simp only
        have := ih (pollNext c).1 hp.2
        rwa [hp.1] at this

/-- when a drained run ends with nothing half-sent, nothing is queued either -/
theorem drain_final_queue (c : Conn) (hq : AllOk c.w.queue) (hfin : (drain c).2.w.send = none) :
    (drain c).2.w.queue = [] := by
  fun_induction drain c with
  | case1 c c' m h r ih =>
    have hw := pollNext_w c; rw [h] at hw
    exact ih (by simp only at hw; rw [hw]; exact writeLoop_allOk _ _ hq) hfin
  | case2 c c' h r ih =>
    have hw := pollNext_w c; rw [h] at hw
    exact ih (by simp only at hw; rw [hw]; exact writeLoop_allOk _ _ hq) hfin
  | case3 c c' it hnm hnp h =>
    have hw := pollNext_w c; rw [h] at hw
    simp only at hw hfin ⊢
    rw [hw] at hfin ⊢
    by_cases hd : (writeLoop c.vec c.w).2 = .done
    · exact (writeLoop_done _ _ hd).1
    · exact absurd hfin (writeLoop_not_done _ _ hq hd)

/-- the first `bufferSize + 1 = 33` messages queued on an idle handle are all accepted -/
theorem accepted_sends (ms : List Bytes) : ∀ (c : Conn), c.w.parked = false →
    c.w.queue.length + ms.length ≤ bufferSize + 1 →
    accepted c (ms.map (Act.send · true)) = ms := by
  induction ms with
  | nil => intro c _ _; rfl
  | cons m t ih =>
    intro c hp hlen
    simp only [List.map_cons, accepted, Conn.accepts, hp]
    simp only [List.length_cons] at hlen
    cases t with
    | nil => simp [accepted]
    | cons m' t' =>
      have hlt : ¬ (c.w.queue.length + 1 > bufferSize) := by
        simp only [List.length_cons, bufferSize] at hlen ⊢; omega
      have hpk : (c.enqueue m true).w.parked = false := by
        unfold Conn.enqueue
        simp only [hp, Bool.and_false, Bool.false_eq_true, if_false]
        rw [if_neg hlt]
      have := ih (c.enqueue m true) hpk (by
        rw [enqueue_queue]; simp only [Conn.accepts, hp]; simp at hlen ⊢; omega)
      simp only [Bool.and_false, Bool.not_false, Bool.and_self, if_true, List.singleton_append,
        List.cons.injEq, true_and]
      exact this

theorem execAll_sends_allOk (ms : List Bytes) : ∀ (c : Conn), AllOk c.w.queue →
    AllOk (execAll c (ms.map (Act.send · true))).w.queue := by
  induction ms with
  | nil => intro c h; simpa [execAll] using h
  | cons m t ih =>
    intro c h
    simp only [List.map_cons, execAll]
    apply ih
    rw [enqueue_queue]
    split
    · intro x hx
      simp at hx
      rcases hx with hx | rfl
      · exact h x hx
      · rfl
    · exact h

/-- **Bytes written, completed run.**  Queue `m₁ … mₖ` (k ≤ 33, the capacity of the outbound queue)
on a fresh connection and drain it over any read script and any acceptance script: the socket has
accepted a prefix of `frame m₁ ++ … ++ frame mₖ`, and exactly all of it whenever the run ends with no
message half-sent (in particular whenever it ends on the receive side: clean end, read error, or
waiting for input). -/
theorem write_bytes_drained (rs : List REv) (ws : List WEv) (vec : Bool) (ms : List Bytes)
    (hcap : ms.length ≤ bufferSize + 1) :
    let c := execAll { vec := vec, rs := rs, w := { ws := ws } } (ms.map (Act.send · true))
    (drain c).2.w.written <+: wframes ms ∧
      ((drain c).2.w.send = none → (drain c).2.w.written = wframes ms) := by
  intro c
  have hok : accepted { vec := vec, rs := rs, w := { ws := ws } } (ms.map (Act.send · true)) = ms :=
    accepted_sends ms _ rfl (by simpa using hcap)
  have hex := write_bytes (ms.map (Act.send · true)) { vec := vec, rs := rs, w := { ws := ws } } (by simp [WrWF])
  rw [hok] at hex
  have h0 : ({ vec := vec, rs := rs, w := { ws := ws } } : Conn).w.written ++
      owed ({ vec := vec, rs := rs, w := { ws := ws } } : Conn).w = [] := by simp [owed, inFlight, queued]
  rw [h0, List.nil_append] at hex
  have hex1 : c.w.written ++ owed c.w = wframes ms := hex.1
  have hdr := drain_conserves c hex.2
  have hall : AllOk c.w.queue := execAll_sends_allOk ms _ (by simp [AllOk])
  constructor
  · rw [← hex1, ← hdr.1]; exact List.prefix_append _ _
  · intro hfin
    have hq := drain_final_queue c hall hfin
    have := hdr.1
    simp only [owed, hfin, hq, inFlight, queued, List.append_nil] at this
    rw [this]; exact hex1

theorem wframes_eq_frames (ms : List Bytes) (h : ∀ m ∈ ms, m.length < 65536) : wframes ms = frames ms := by
  induction ms with
  | nil => rfl
  | cons m t ih =>
    simp only [wframes, frames]
    rw [wframe_eq_frame m (h m (by simp)), ih (fun x hx => h x (by simp [hx]))]

/-- non-vacuity: a 1-byte-at-a-time acceptance script with `pending`s and an `accept 0` -/
example : ∃ ws : List WEv, ws = [.accept 1, .pending, .accept 0, .accept 1, .accept 1, .pending, .accept 9] ∧
    wframes [[97, 98]] = [0, 2, 97, 98] := ⟨_, rfl, by decide⟩

/-! ## zero-length frames, consumer programs, the initial state -/

/-- What the code does with a zero-length frame (`00 00`): it is never delivered as a message; the
next `poll_read` is handed an empty buffer, reads 0 and is taken for a close inside a message, so the
stream yields an error as soon as anything at all follows (more bytes, a close, a failure) — the
property allows exactly this.  Messages that follow the zero-length frame are not delivered. -/
theorem run_zero_frame (rest : Bytes) (e : Ending) :
    run (.lenBytes []) (0 :: 0 :: rest) e = ([], if rest = [] then cut e else .error) := by
  cases rest with
  | nil => cases e <;> simp [run, RdSt.need, RdSt.absorb, u16be, atEnd, cut]
  | cons b t => simp [run, RdSt.need, RdSt.absorb, u16be]

theorem zero_length_frame_ends_stream (s : List REv) (vec : Bool) (ms : List Bytes)
    (hms : ∀ m ∈ ms, Framable m) (rest : Bytes) (hb : bytesOf s = frames ms ++ 0 :: 0 :: rest) :
    obs (drain (fresh s vec)).1 = (ms, if rest = [] then cut (endingOf s) else .error) := by
  rw [fresh_obs, hb, run_frames ms hms, run_zero_frame]
  simp

/-- an empty message is never delivered, whatever the bytes -/
theorem run_no_empty (bs : Bytes) : ∀ (st : RdSt), st.WF → ∀ e, [] ∉ (run st bs e).1 := by
  induction bs with
  | nil => intro st _ e; simp [run]
  | cons b t ih =>
    intro st hwf e
    simp only [run]
    split
    · simp
    · rename_i hne
      have hwf' := absorb_wf (bs := [b]) hwf (by simp) (by simp; omega)
      split
      · rename_i st' m heq
        rw [heq] at hwf'
        simp only [List.mem_cons, not_or]
        refine ⟨?_, ih st' hwf' e⟩
        cases st with
        | lenBytes got => simp only [RdSt.absorb] at heq; split at heq <;> simp at heq
        | datBytes len got =>
          simp only [RdSt.absorb] at heq
          split at heq <;> simp at heq
          obtain ⟨_, rfl⟩ := heq
          simp
      · rename_i st' o hno heq
        rw [heq] at hwf'
        exact ih st' hwf' e

theorem no_empty_message (c : Conn) (hwf : c.rd.WF) : [] ∉ (obs (drain c).1).1 := by
  intro h
  exact run_no_empty _ _ hwf _ ((drain_obs c hwf).1.subset h)

/-- a consumer program that only sends is `execAll` followed by `drain` -/
theorem runProg_sends (ms : List (Bytes × Bool)) : ∀ c : Conn,
    runProg c (ms.map fun x => Act.send x.1 x.2) = drain (execAll c (ms.map fun x => Act.send x.1 x.2)) := by
  induction ms with
  | nil => intro c; rfl
  | cons x t ih => intro c; simp only [List.map_cons, runProg, execAll]; exact ih _

/-- `TcpStream::from_stream` starts in a well-formed state with nothing to send -/
theorem fresh_wf (rs : List REv) (vec : Bool) :
    (fresh rs vec).rd.WF ∧ Quiet (fresh rs vec).w ∧ WrWF (fresh rs vec).w.send := by
  simp [fresh, RdSt.WF, Quiet, WrWF]

example : obs (drain (fresh [.data [0, 1, 97, 0], .data [0, 0, 1, 98], .eof])).1 = ([[97]], .error) := by
  rw [fresh_obs]; decide

/-! ## consumer programs with interleaved polls (`runProg`, what the driver runs) -/

/-- every message in a trace, wherever it occurs -/
def msgsOf : List Item → List Bytes
  | [] => []
  | .msg m :: t => m :: msgsOf t
  | _ :: t => msgsOf t

theorem sockRead_idle {s : List REv} {n : Nat} {s' : List REv} (h : sockRead s n = (.idle, s')) : s' = [] := by
  fun_induction sockRead s n <;> simp_all

theorem readStep_idle {st : RdSt} {s : List REv} (h : (readStep st s).2.2 = .idle) : (readStep st s).2.1 = [] := by
  unfold readStep at h ⊢
  split
  · rename_i heq; simp [heq] at h
  · rename_i s' heq; simpa using sockRead_idle heq
  · rename_i heq; simp [heq] at h
  · rename_i bs s' heq
    simp only [heq] at h
    split at h
    · cases st with
      | lenBytes got => cases got <;> simp [RdSt.closed] at h
      | datBytes l g => simp [RdSt.closed] at h
    · cases st <;> simp only [RdSt.absorb] at h <;> split at h <;> simp at h

theorem readLoop_idle (st : RdSt) (s : List REv) (h : (readLoop st s).2.2 = .idle) : (readLoop st s).2.1 = [] := by
  fun_induction readLoop st s with
  | case1 st s st' s' hs ih => exact ih h
  | case2 st s hne => exact readStep_idle h

/-- one `poll_next`, seen from the byte-wise reader: a message is the reader's next message, a
`Pending` (woken or not) changes nothing -/
theorem pollNext_step (c : Conn) (hwf : c.rd.WF) :
    (pollNext c).1.rd.WF ∧
      match (pollNext c).2 with
      | .msg m =>
        run c.rd (bytesOf c.rs) (endingOf c.rs) =
          (m :: (run (pollNext c).1.rd (bytesOf (pollNext c).1.rs) (endingOf (pollNext c).1.rs)).1,
            (run (pollNext c).1.rd (bytesOf (pollNext c).1.rs) (endingOf (pollNext c).1.rs)).2)
      | .pending =>
        run c.rd (bytesOf c.rs) (endingOf c.rs) =
          run (pollNext c).1.rd (bytesOf (pollNext c).1.rs) (endingOf (pollNext c).1.rs)
      | .idle =>
        run c.rd (bytesOf c.rs) (endingOf c.rs) =
          run (pollNext c).1.rd (bytesOf (pollNext c).1.rs) (endingOf (pollNext c).1.rs)
      | _ => True := by
  rcases pollNext_cases c with ⟨w', hw, hp⟩ | ⟨w', o, it, hw, ho, hit, _, hp⟩
  · rw [hp]
    have hrl := readLoop_run hwf c.rs
    have hidle := readLoop_idle c.rd c.rs
    refine ⟨hrl.1, ?_⟩
    simp only
    generalize (readLoop c.rd c.rs).2.2 = o at hrl hidle
    cases o <;> simp only [RdOut.toItem] <;> try exact hrl.2
    rw [hrl.2, hidle rfl]
    simp [after, bytesOf, endingOf, run, atEnd]
  · rw [hp]
    refine ⟨hwf, ?_⟩
    rcases hit with rfl | rfl | rfl <;> simp

/-- **Safety for consumer programs**: whatever the consumer does (send at any time, poll at any
time, keep polling after a blocked poll), the messages it is handed are a prefix of what the
byte-wise reader yields for the bytes of the script. -/
theorem drain_msgs (c : Conn) (hwf : c.rd.WF) :
    msgsOf (drain c).1 <+: (run c.rd (bytesOf c.rs) (endingOf c.rs)).1 := by
  fun_induction drain c with
  | case1 c c' m h r ih =>
    have hs := pollNext_step c hwf
    rw [h] at hs
    simp only at hs
    rw [hs.2]
    simpa [msgsOf] using ih hs.1
  | case2 c c' h r ih =>
    have hs := pollNext_step c hwf
    rw [h] at hs
    simp only at hs
    rw [hs.2]
    simpa [msgsOf] using ih hs.1
  | case3 c c' it hnm hnp h =>
    cases it <;> simp_all [msgsOf]

theorem runProg_msgs (prog : List Act) : ∀ (c : Conn), c.rd.WF →
    msgsOf (runProg c prog).1 <+: (run c.rd (bytesOf c.rs) (endingOf c.rs)).1 := by
  induction prog with
  | nil => intro c hwf; exact drain_msgs c hwf
  | cons a as ih =>
    intro c hwf
    cases a with
    | send m ok =>
      have := ih (c.enqueue m ok) (by simpa using hwf)
      simpa [runProg] using this
    | poll =>
      have hs := pollNext_step c hwf
      simp only [runProg]
      split
      · rename_i ht
        generalize (pollNext c).2 = it at ht
        cases it <;> simp_all [msgsOf, Item.terminal]
      · rename_i ht
        have ih' := ih (pollNext c).1 hs.1
        generalize hit : (pollNext c).2 = it at ht hs
        cases it with
        | msg m => simp only at hs; rw [hs.2]; simpa [msgsOf] using ih'
        | pending => simp only at hs; rw [hs.2]; simpa [msgsOf] using ih'
        | idle => simp only at hs; rw [hs.2]; simpa [msgsOf] using ih'
        | endClean => simp [Item.terminal] at ht
        | err => simp [Item.terminal] at ht

/-- … in particular for framed input: any program, any chunking, any close position -/
theorem runProg_no_truncated_merged_duplicated (prog : List Act) (c : Conn) (hrd : c.rd = .lenBytes [])
    (ms : List Bytes) (hms : ∀ m ∈ ms, Framable m) (hb : bytesOf c.rs <+: frames ms) :
    msgsOf (runProg c prog).1 <+: ms := by
  have h := runProg_msgs prog c (by rw [hrd]; simp [RdSt.WF])
  rw [hrd, List.prefix_iff_eq_take.mp hb] at h
  exact h.trans (run_prefix ms hms _ _)

/-! ## the send loop finishes unless the socket blocks for ever or fails -/

theorem drain_ne_nil (c : Conn) : (drain c).1 ≠ [] := by
  fun_induction drain c <;> simp

/-- A drained run ends either with nothing half-sent — and then (`write_bytes_drained`) every queued
frame is on the wire in full — or its last item is `idle` (a socket half blocks for ever) or an error. -/
theorem write_completes_unless_blocked_or_failed (c : Conn) :
    (drain c).2.w.send = none ∨ (drain c).1.getLast? = some .idle ∨ (drain c).1.getLast? = some .err := by
  fun_induction drain c with
  | case1 c c' m h r ih =>
    have hne := drain_ne_nil c'
    rcases hl : (drain c').1 with _ | ⟨x, t⟩
    · exact absurd hl hne
    · simpa [hl, List.getLast?_cons_cons] using ih
  | case2 c c' h r ih =>
    have hne := drain_ne_nil c'
    rcases hl : (drain c').1 with _ | ⟨x, t⟩
    · exact absurd hl hne
    · simpa [hl, List.getLast?_cons_cons] using ih
  | case3 c c' it hnm hnp h =>
    rcases pollNext_cases c with ⟨w', hw, hp⟩ | ⟨w', o, it', hw, ho, hit, _, hp⟩
    · rw [h] at hp
      simp only [Prod.mk.injEq] at hp
      obtain ⟨rfl, _⟩ := hp
      left
      have := writeLoop_done c.vec c.w (by rw [hw])
      rw [hw] at this
      exact this.2
    · rw [h] at hp
      simp only [Prod.mk.injEq] at hp
      obtain ⟨rfl, rfl⟩ := hp
      rcases hit with rfl | rfl | rfl
      · exact absurd rfl hnp
      · right; left; rfl
      · right; right; rfl

/-- the bounded queue at work: of 40 messages queued without a poll in between, 33 are accepted
(`bufferSize` + the sender's own slot), the other 7 are refused and counted -/
example : (accepted {} ((List.range 40).map fun i => Act.send [i] true)).length = 33
    ∧ (execAll {} ((List.range 40).map fun i => Act.send [i] true)).w.rejected = 7 := by decide

/-! ## end to end: one hickory stream writing, another one reading -/

/-- **End to end, complete.**  Connection `A` (fresh, any read script `rsA`, any acceptance script
`ws` of its socket: partial writes, `pending`s, `accept 0`) is handed the non-empty messages `ms`
(each below 65 536 bytes, at most `bufferSize + 1` of them without a poll in between) and is polled
until it stops.  Connection `B` (fresh) reads — under *any* chunking `s`, with any `pending`s in
between and any ending — exactly the bytes `A`'s socket accepted.  If `A` stopped with no message
half-sent, then `B` delivers exactly `ms`: each one whole, in order, once; and then ends cleanly /
with an error / waits according to how `s` ends.  Both halves are the code's own state machines
(`pollNext`); nothing is assumed about how the network cuts the byte stream. -/
theorem end_to_end (rsA : List REv) (ws : List WEv) (vecA vecB : Bool) (ms : List Bytes)
    (hms : ∀ m ∈ ms, Framable m) (hcap : ms.length ≤ bufferSize + 1) (s : List REv)
    (hdone : (drain (execAll { vec := vecA, rs := rsA, w := { ws := ws } } (ms.map (Act.send · true)))).2.w.send = none)
    (hs : bytesOf s =
      (drain (execAll { vec := vecA, rs := rsA, w := { ws := ws } } (ms.map (Act.send · true)))).2.w.written) :
    obs (drain (fresh s vecB)).1 =
      (ms, match endingOf s with | .eof => .clean | .err => .error | .open => .blocked) := by
  have hw := (write_bytes_drained rsA ws vecA ms hcap).2 hdone
  rw [wframes_eq_frames ms (fun m hm => (hms m hm).2)] at hw
  exact read_frames s vecB ms hms (hs.trans hw)

/-- **End to end, at any moment.**  Same setting without the assumption that `A` finished: whatever
`A`'s socket has accepted so far (it may have blocked or failed in the middle of a frame), and however
those bytes are chunked on the way, `B` delivers a prefix of `ms` — never a truncated, merged,
duplicated or invented message. -/
theorem end_to_end_prefix (rsA : List REv) (ws : List WEv) (vecA vecB : Bool) (ms : List Bytes)
    (hms : ∀ m ∈ ms, Framable m) (hcap : ms.length ≤ bufferSize + 1) (s : List REv)
    (hs : bytesOf s =
      (drain (execAll { vec := vecA, rs := rsA, w := { ws := ws } } (ms.map (Act.send · true)))).2.w.written) :
    (obs (drain (fresh s vecB)).1).1 <+: ms := by
  have hw := (write_bytes_drained rsA ws vecA ms hcap).1
  rw [wframes_eq_frames ms (fun m hm => (hms m hm).2)] at hw
  exact no_truncated_merged_duplicated (fresh s vecB) rfl ms hms (by rw [show (fresh s vecB).rs = s from rfl, hs]; exact hw)


/- Non-vacuity of `end_to_end`: its hypothesis `hdone` holds for every run of `A` that does not end
with a socket half blocked for ever or failed (`write_completes_unless_blocked_or_failed`), `hcap` and
`hms` are met by `[[97], [98, 99]]` (`by simp [Framable]`, `by decide`), and `hs` by any script whose
data events concatenate to the written bytes (`bytesOf`).  `drain` is defined by well-founded
recursion, so a closed instance cannot be evaluated by `decide`; the correspondence run executes such
instances on the real `TcpStream` (families `burst`, `prog`, `wr` of harness/src/props/c17.rs). -/
example : (∀ m ∈ [[97], [98, 99]], Framable m) ∧ [[97], [98, 99]].length ≤ bufferSize + 1 ∧
    bytesOf [.data [0], .pending, .data [1, 97, 0], .data [2, 98], .data [99], .eof] = frames [[97], [98, 99]] :=
  ⟨by simp [Framable], by decide, by decide⟩
