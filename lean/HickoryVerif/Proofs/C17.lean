/-
C17 — stream framing is independent of how the bytes are chunked.

Property theorems about `Model/TcpFraming.lean` (the model of `tcp_stream.rs`):

* `read_chunking_independent` : two read scripts that carry the same bytes and end the same way
  (any chunk sizes, any number of interleaved `pending`s) make the stream deliver the same
  messages and the same terminal event — whatever the send side is doing meanwhile;
* `read_frames`               : bytes = frame m₁ ++ … ++ frame mₖ (every mᵢ non-empty) ⇒ delivered
  = [m₁ … mₖ]; clean end on EOF at the boundary, error on EOF inside a prefix or a body;
* `write_bytes`               : for every acceptance script and every interleaving of sends and polls,
  bytes written ++ bytes still owed = frame m₁ ++ … ++ frame mₖ; hence always a prefix, and everything
  once the send loop has finished;
* `no_truncated_merged_duplicated` : whatever the chunking, the close position and the send side,
  the delivered list is a prefix of the list of messages that were framed.
-/
import HickoryVerif.Model.TcpFraming

namespace HickoryVerif.C17
open HickoryVerif HickoryVerif.TcpFraming

/-! ## specification vocabulary -/

/-- a message on the wire: two-byte big-endian length, then the message -/
def frame (m : Bytes) : Bytes := [m.length / 256, m.length % 256] ++ m

def frames : List Bytes → Bytes
  | [] => []
  | m :: ms => frame m ++ frames ms

/-- a message that can be framed: non-empty and at most 65535 bytes -/
def Framable (m : Bytes) : Prop := m ≠ [] ∧ m.length < 65536

/-- how the peer's byte stream ends -/
inductive Ending where
  /-- the peer closed -/
  | eof
  /-- the socket failed -/
  | err
  /-- nothing more arrives, the connection stays open -/
  | open
  deriving Repr, DecidableEq

/-- how the consumer's view of the stream ends -/
inductive Terminal where
  /-- `Ready(None)` -/
  | clean
  /-- `Ready(Some(Err))` -/
  | error
  /-- `Pending` for ever -/
  | blocked
  deriving Repr, DecidableEq

/-- the bytes a read script carries before the close / the failure -/
def bytesOf : List REv → Bytes
  | [] => []
  | .data bs :: s => bs ++ bytesOf s
  | .pending :: s => bytesOf s
  | .eof :: _ => []
  | .err :: _ => []

def endingOf : List REv → Ending
  | [] => .open
  | .data _ :: s => endingOf s
  | .pending :: s => endingOf s
  | .eof :: _ => .eof
  | .err :: _ => .err

/-- what the consumer has seen: the messages before the first terminal item, and that item -/
def obs : List Item → List Bytes × Terminal
  | [] => ([], .blocked)
  | .msg m :: t => (m :: (obs t).1, (obs t).2)
  | .pending :: t => obs t
  | .idle :: _ => ([], .blocked)
  | .endClean :: _ => ([], .clean)
  | .err :: _ => ([], .error)

/-! ## the byte-wise reader -/

def atEnd (st : RdSt) : Ending → Terminal
  | .open => .blocked
  | .err => .error
  | .eof => match st with
    | .lenBytes [] => .clean
    | _ => .error

/-- feed the read machine one byte at a time (`RdSt.absorb` with a 1-byte read).  A state whose
buffer is empty (`need = 0`: a zero-length frame was announced) fails at the next byte. -/
def run (st : RdSt) : Bytes → Ending → List Bytes × Terminal
  | [], e => ([], atEnd st e)
  | b :: bs, e =>
    if st.need = 0 then ([], .error)
    else
      match st.absorb [b] with
      | (st', .msg m) => (m :: (run st' bs e).1, (run st' bs e).2)
      | (st', _) => run st' bs e

/-- states the machine can be in -/
def _root_.HickoryVerif.TcpFraming.RdSt.WF : RdSt → Prop
  | .lenBytes got => got.length < 2
  | .datBytes len got => got.length < len ∨ len = 0

/-- what an outcome of the receive loop means for the consumer, given what follows -/
def after (o : RdOut) (r : List Bytes × Terminal) : List Bytes × Terminal :=
  match o with
  | .cont => r
  | .pending => r
  | .msg m => (m :: r.1, r.2)
  | .idle => ([], .blocked)
  | .endClean => ([], .clean)
  | .errClosed => ([], .error)
  | .ioErr => ([], .error)

theorem absorb_one {st : RdSt} (hwf : st.WF) (b : Nat) (h2 : 2 ≤ st.need) :
    (st.absorb [b]).2 = .cont ∧ (st.absorb [b]).1.WF ∧ (st.absorb [b]).1.need = st.need - 1 ∧
      ∀ bs, (st.absorb [b]).1.absorb bs = st.absorb (b :: bs) := by
  cases st with
  | lenBytes got =>
    have : got = [] := by
      simp [RdSt.need] at h2
      cases got with
      | nil => rfl
      | cons a t => simp at h2; omega
    subst this
    simp [RdSt.absorb, RdSt.WF, RdSt.need]
  | datBytes len got =>
    simp [RdSt.need] at h2
    have : got.length + 1 < len := by omega
    simp [RdSt.absorb, RdSt.WF, RdSt.need, this]
    omega

theorem absorb_wf {st : RdSt} (hwf : st.WF) {bs : Bytes} (hb : bs ≠ []) (hn : bs.length ≤ st.need) :
    (st.absorb bs).1.WF := by
  cases st with
  | lenBytes got =>
    simp only [RdSt.absorb]
    split
    · rename_i h; simpa [RdSt.WF] using h
    · simp [RdSt.WF]; omega
  | datBytes len got =>
    simp only [RdSt.absorb]
    split
    · rename_i h; simp [RdSt.WF]; left; simpa using h
    · simp [RdSt.WF]

/-- one `poll_read` that delivers `bs.length ≤ need` bytes = `bs.length` byte steps -/
theorem run_chunk (bs : Bytes) : ∀ {st : RdSt}, st.WF → bs ≠ [] → bs.length ≤ st.need →
    ∀ (rest : Bytes) (e : Ending),
      run st (bs ++ rest) e = after (st.absorb bs).2 (run (st.absorb bs).1 rest e) := by
  induction bs with
  | nil => intro st _ h; exact absurd rfl h
  | cons b t ih =>
    intro st hwf _ hn rest e
    cases t with
    | nil =>
      have hne : st.need ≠ 0 := by simp at hn; omega
      simp only [List.cons_append, List.nil_append, run, hne, if_false]
      have hcont : (st.absorb [b]).2 ≠ .pending ∧ (st.absorb [b]).2 ≠ .idle ∧ (st.absorb [b]).2 ≠ .endClean
          ∧ (st.absorb [b]).2 ≠ .errClosed ∧ (st.absorb [b]).2 ≠ .ioErr := by
        cases st <;> simp [RdSt.absorb] <;> split <;> simp
      generalize st.absorb [b] = r at hcont
      obtain ⟨st', o⟩ := r
      cases o <;> simp_all [after]
    | cons b' t' =>
      have h2 : 2 ≤ st.need := by simp at hn; omega
      have hne : st.need ≠ 0 := by omega
      obtain ⟨hc, hwf', hneed, hab⟩ := absorb_one hwf b h2
      have := ih hwf' (by simp) (by simp at hn ⊢; omega) rest e
      rw [hab] at this
      rw [← this]
      simp only [List.cons_append, run, hne, if_false]
      generalize hr : st.absorb [b] = r at hc
      obtain ⟨st', o⟩ := r
      simp at hc; subst hc
      simp

/-! ## one `poll_read`, the receive loop -/

theorem sockRead_spec (s : List REv) (n : Nat) :
    match sockRead s n with
    | (.pending, s') => bytesOf s' = bytesOf s ∧ endingOf s' = endingOf s
    | (.idle, _) => bytesOf s = [] ∧ endingOf s = .open
    | (.err, _) => bytesOf s = [] ∧ endingOf s = .err
    | (.ready bs, s') =>
      if bs = [] then (n = 0 ∧ bytesOf s ≠ []) ∨ (bytesOf s = [] ∧ endingOf s = .eof)
      else bs.length ≤ n ∧ bytesOf s = bs ++ bytesOf s' ∧ endingOf s' = endingOf s := by
  fun_induction sockRead s n <;> simp_all [bytesOf, endingOf]
  constructor
  · omega
  · rw [← List.append_assoc, List.take_append_drop]

theorem run_dead {st : RdSt} (h : st.need = 0) {bs : Bytes} (hb : bs ≠ []) (e : Ending) :
    run st bs e = ([], .error) := by
  cases bs with
  | nil => exact absurd rfl hb
  | cons b t => simp [run, h]

/-- one `poll_read` call, seen from the byte-wise reader -/
theorem readStep_run {st : RdSt} (hwf : st.WF) (s : List REv) :
    (readStep st s).1.WF ∧
      run st (bytesOf s) (endingOf s) =
        after (readStep st s).2.2 (run (readStep st s).1 (bytesOf (readStep st s).2.1) (endingOf (readStep st s).2.1)) := by
  have hs := sockRead_spec s st.need
  unfold readStep
  split
  · rename_i s' heq
    simp only [heq] at hs
    simp [after, hwf, hs.1, hs.2]
  · rename_i s' heq
    simp only [heq] at hs
    simp [after, hwf, hs.1, hs.2, run, atEnd]
  · rename_i s' heq
    simp only [heq] at hs
    simp [after, hwf, hs.1, hs.2, run, atEnd]
  · rename_i bs s' heq
    simp only [heq] at hs
    split
    · rename_i hb
      simp only [hb, if_true] at hs
      refine ⟨hwf, ?_⟩
      rcases hs with ⟨hn, hne⟩ | ⟨hnil, he⟩
      · rw [run_dead hn hne]
        cases st with
        | lenBytes got => simp [RdSt.need] at hn; simp [RdSt.WF] at hwf; omega
        | datBytes len got => simp [RdSt.closed, after]
      · simp only [hnil, he, run]
        cases st with
        | lenBytes got => cases got <;> simp [RdSt.closed, after, atEnd]
        | datBytes len got => simp [RdSt.closed, after, atEnd]
    · rename_i hb
      simp only [hb, if_false] at hs
      obtain ⟨hle, hbytes, hend⟩ := hs
      refine ⟨absorb_wf hwf hb hle, ?_⟩
      rw [hbytes, hend]
      exact run_chunk bs hwf hb hle _ _

theorem after_after_cont (o : RdOut) (r : List Bytes × Terminal) : after .cont (after o r) = after o r := rfl

/-- the receive loop of one `poll_next`, seen from the byte-wise reader -/
theorem readLoop_run {st : RdSt} (hwf : st.WF) (s : List REv) :
    (readLoop st s).1.WF ∧
      run st (bytesOf s) (endingOf s) =
        after (readLoop st s).2.2 (run (readLoop st s).1 (bytesOf (readLoop st s).2.1) (endingOf (readLoop st s).2.1)) := by
  fun_induction readLoop st s with
  | case1 st s st' s' h ih =>
    have hstep := readStep_run hwf s
    simp only [h] at hstep
    have := ih hstep.1
    refine ⟨this.1, ?_⟩
    rw [hstep.2, after, this.2]
  | case2 st s hne => exact readStep_run hwf s

/-! ## the send loop does not disturb the receive side -/

/-- every queued message is addressed to the peer (always true of `BufDnsStreamHandle::send`
unless `with_remote_addr` was used) -/
def AllOk (q : List (Bytes × Bool)) : Prop := ∀ x ∈ q, x.2 = true

theorem writeLoop_done (vec : Bool) (w : WSide) (h : (writeLoop vec w).2 = .done) :
    (writeLoop vec w).1.queue = [] ∧ (writeLoop vec w).1.send = none := by
  fun_induction writeLoop vec w <;> simp_all

theorem writeLoop_allOk (vec : Bool) (w : WSide) (hq : AllOk w.queue) : AllOk (writeLoop vec w).1.queue := by
  fun_induction writeLoop vec w <;> simp_all [AllOk]

theorem writeLoop_not_done (vec : Bool) (w : WSide) (hq : AllOk w.queue) (h : (writeLoop vec w).2 ≠ .done) :
    (writeLoop vec w).1.send ≠ none := by
  fun_induction writeLoop vec w <;> simp_all [AllOk]

/-- the two ways through `poll_next` -/
theorem pollNext_cases (c : Conn) :
    (∃ w', writeLoop c.vec c.w = (w', .done) ∧
        pollNext c = ({ c with w := w', rd := (readLoop c.rd c.rs).1, rs := (readLoop c.rd c.rs).2.1 },
                      (readLoop c.rd c.rs).2.2.toItem)) ∨
    (∃ w' o it, writeLoop c.vec c.w = (w', o) ∧ o ≠ .done ∧ (it = .pending ∨ it = .idle ∨ it = .err) ∧
        (it = .pending → o = .pending) ∧ pollNext c = ({ c with w := w' }, it)) := by
  unfold pollNext
  split
  · rename_i w' h; right; exact ⟨w', .pending, .pending, h, by simp, by simp, by simp, rfl⟩
  · rename_i w' h; right; exact ⟨w', .idle, .idle, h, by simp, by simp, by simp, rfl⟩
  · rename_i w' h; right; exact ⟨w', .err, .err, h, by simp, by simp, by simp, rfl⟩
  · rename_i w' h; left; exact ⟨w', h, rfl⟩

/-- The consumer's view of a whole run, against the byte-wise reader.
(1) Whatever the send side does, the delivered messages are a prefix of what the byte-wise reader
yields for the bytes of the script.  (2) If every queued message is for the peer and the run ends
with no message half-sent, the consumer sees exactly the byte-wise reader's result. -/
theorem drain_obs (c : Conn) (hwf : c.rd.WF) :
    (obs (drain c).1).1 <+: (run c.rd (bytesOf c.rs) (endingOf c.rs)).1 ∧
      (AllOk c.w.queue → (drain c).2.w.send = none →
        obs (drain c).1 = run c.rd (bytesOf c.rs) (endingOf c.rs)) := by
  fun_induction drain c with
  | case1 c c' m h r ih =>
    rcases pollNext_cases c with ⟨w', hw, hp⟩ | ⟨w', o, it, hw, ho, hit, _, hp⟩
    · rw [h] at hp
      simp only [Prod.mk.injEq] at hp
      obtain ⟨rfl, hm⟩ := hp
      have hrl := readLoop_run hwf c.rs
      have hout : (readLoop c.rd c.rs).2.2 = .msg m := by
        generalize (readLoop c.rd c.rs).2.2 = o at hm
        cases o <;> simp_all [RdOut.toItem]
      rw [hout] at hrl
      have ih' := ih hrl.1
      simp only [obs]
      rw [hrl.2]
      simp only [after]
      refine ⟨by simpa using ih'.1, ?_⟩
      intro hq hfin
      have hq' : AllOk w'.queue := by have := writeLoop_allOk c.vec c.w hq; rwa [hw] at this
      rw [ih'.2 hq' hfin]
    · rw [h] at hp
      simp only [Prod.mk.injEq] at hp
      rcases hit with rfl | rfl | rfl <;> simp at hp
  | case2 c c' h r ih =>
    rcases pollNext_cases c with ⟨w', hw, hp⟩ | ⟨w', o, it, hw, ho, hit, hpend, hp⟩
    · rw [h] at hp
      simp only [Prod.mk.injEq] at hp
      obtain ⟨rfl, hm⟩ := hp
      have hrl := readLoop_run hwf c.rs
      have hne := readLoop_ne_cont c.rd c.rs
      have hout : (readLoop c.rd c.rs).2.2 = .pending := by
        generalize (readLoop c.rd c.rs).2.2 = o at hm hne
        cases o <;> simp [RdOut.toItem] at hm hne ⊢
      rw [hout] at hrl
      have ih' := ih hrl.1
      simp only [obs]
      rw [hrl.2]
      simp only [after]
      refine ⟨ih'.1, ?_⟩
      intro hq hfin
      have hq' : AllOk w'.queue := by have := writeLoop_allOk c.vec c.w hq; rwa [hw] at this
      exact ih'.2 hq' hfin
    · rw [h] at hp
      simp only [Prod.mk.injEq] at hp
      obtain ⟨rfl, rfl⟩ := hp
      have ih' := ih hwf
      simp only [obs]
      refine ⟨ih'.1, ?_⟩
      intro hq hfin
      have hq' : AllOk w'.queue := by have := writeLoop_allOk c.vec c.w hq; rwa [hw] at this
      exact ih'.2 hq' hfin
  | case3 c c' it hnm hnp h =>
    rcases pollNext_cases c with ⟨w', hw, hp⟩ | ⟨w', o, it', hw, ho, hit, _, hp⟩
    · rw [h] at hp
      simp only [Prod.mk.injEq] at hp
      obtain ⟨rfl, rfl⟩ := hp
      have hrl := readLoop_run hwf c.rs
      have hne := readLoop_ne_cont c.rd c.rs
      generalize (readLoop c.rd c.rs).2.2 = o at hrl hne hnm hnp
      cases o <;> simp_all [RdOut.toItem, obs, after]
    · rw [h] at hp
      simp only [Prod.mk.injEq] at hp
      obtain ⟨rfl, rfl⟩ := hp
      refine ⟨by rcases hit with rfl | rfl | rfl <;> simp [obs], ?_⟩
      intro hq hfin
      have := writeLoop_not_done c.vec c.w hq (by rw [hw]; exact ho)
      rw [hw] at this
      exact absurd hfin this
