import HickoryVerif.Model.TcpFraming

namespace HickoryVerif.C17
open HickoryVerif HickoryVerif.TcpFraming

theorem placeholder : True := trivial

end HickoryVerif.C17
