/-
C03 — size-limited encoding truncates cleanly.  STAGE 1: the size-limited buffer, `emit_iter`
and `Rollback`.

* `write_respects_max`, `write_err`, `reserve_respects_max` : `MaximalBuf::write/reserve` never grow
  the buffer past `max_size`; a refused write changes nothing.
* `Above base B P M e` : the invariant relative to a rollback point; `Appender f` : `f` keeps it in
  every outcome.  `appender_emitSlice/U8/U16/U32/CharacterData/emitName/seq/withNameEncoding/
  withRdataBehavior/lenPrefixed` : the encoder primitives, `Name::emit` (all modes, all failure
  points), sequencing, the mode guards and the RDLENGTH place/back-patch pattern are appenders.
* `emitIter_prefix` : on `NotAllRecordsWritten{count}` the encoder state — buffer, offset, candidate
  table, limit — equals the state after emitting exactly the first `count` items.
* `emitIter_state` : in every outcome of `emit_iter` the encoder is in the appending state, above
  where it started, and the buffer is no longer than `max(max_size, initial length)`.
* `emitName_respects_max` : the same for a single `Name::emit`, whether it succeeds or fails.
* `rollback_prefix_fails_before_fix` : kernel-checked counter-example for the `Rollback::rollback`
  that did not truncate the buffer (the defect repaired in /repo by commit 2501a78).

* `ptrInvH_emitIter` : the candidate-table invariant of C02 (`PtrInvH`) holds after `emit_iter` in
  the all-written and in the truncated outcome.

Message-level truncation (`emitLimited_len`, `emitLimited_decodes`, the server path) is stage 2.
-/
import HickoryVerif.Lemmas.NameEmitLemmas
import HickoryVerif.Model.EncoderCombinators
import HickoryVerif.Proofs.C02

namespace HickoryVerif.C03
open HickoryVerif HickoryVerif.Name HickoryVerif.C02

/-! ### the size limit -/

/-- **`MaximalBuf::write` never grows the buffer past `max_size`**: a successful write leaves the
buffer exactly `max(old length, offset + data length)` long, and `offset + data length ≤ max_size`;
offset, limit and candidates are untouched. -/
theorem write_respects_max (e e' : Enc) (off : Nat) (d : Bytes) (h : e.write off d = .ok () e') :
    e'.buf.length = max e.buf.length (off + d.length) ∧ off + d.length ≤ e.maxSize ∧
      e'.buf.length ≤ max e.buf.length e.maxSize ∧
      e'.maxSize = e.maxSize ∧ e'.offset = e.offset ∧ e'.ptrs = e.ptrs := by
  unfold Enc.write at h
  split at h
  · simp at h
  split at h
  · simp at h
  rename_i h1 h2
  have fin : ∀ b1 : Bytes, b1.length = max e.buf.length (off + d.length) →
      (b1.length = max e.buf.length (off + d.length) ∧ off + d.length ≤ e.maxSize ∧
        b1.length ≤ max e.buf.length e.maxSize) := fun b1 hb => ⟨hb, by omega, by omega⟩
  split at h
  · rename_i h3
    simp only [ERes.ok.injEq, true_and] at h
    subst h
    obtain ⟨a, b, c⟩ := fin (e.buf ++ d) (by simp only [List.length_append]; omega)
    exact ⟨a, b, c, rfl, rfl, rfl⟩
  · rename_i h3
    simp only [ERes.ok.injEq, true_and] at h
    subst h
    refine ⟨?_, ?_, ?_, rfl, rfl, rfl⟩
    all_goals
      try simp only [Enc.resize]
      first
        | omega
        | (split <;>
            simp only [List.length_append, List.length_take, List.length_drop, List.length_replicate] <;>
            omega)

/-- a refused write changes nothing and the error is `MaxBufferSizeExceeded` -/
theorem write_err (e e' : Enc) (off : Nat) (d : Bytes) (k : EncErr) (h : e.write off d = .err k e') :
    e' = e ∧ k = .maxSize ∧ e.maxSize < off + d.length := by
  unfold Enc.write at h
  split at h
  · simp at h
  split at h
  · rename_i h2
    simp only [ERes.err.injEq] at h
    exact ⟨h.2.symm, h.1.symm, h2⟩
  split at h <;> simp at h

/-- `MaximalBuf::reserve` likewise: the buffer becomes exactly `offset + len ≤ max_size` long -/
theorem reserve_respects_max (e e' : Enc) (off len : Nat) (h : e.reserve off len = .ok () e') :
    e'.buf.length = off + len ∧ off + len ≤ e.maxSize ∧ e'.maxSize = e.maxSize := by
  unfold Enc.reserve at h
  simp only at h
  split at h
  · simp at h
  · simp only [ERes.ok.injEq, true_and] at h
    subst h
    refine ⟨?_, by omega, rfl⟩
    simp only [Enc.resize, List.length_append, List.length_take, List.length_replicate]
    omega

/-! ### `emit_iter` and `Rollback` -/

/-- The invariant relative to a rollback point `(base, B, P)` = (offset, buffer, candidates at the
time the point was taken), with limit `M`: the encoder is in the appending state at or above
`base`, the buffer below `base` is still `B`, the candidate table is `P` followed by candidates that
start at or above `base` (and below the offset), and the limit is unchanged. -/
structure Above (base : Nat) (B : Bytes) (P : List (Nat × Bytes)) (M : Nat) (e : Enc) : Prop where
  base_le : base ≤ e.offset
  app : e.offset = e.buf.length
  low : e.buf.take base = B
  old : ∀ p ∈ P, p.1 < base
  ptrs : ∃ news, e.ptrs = P ++ news ∧ ∀ p ∈ news, base ≤ p.1 ∧ p.1 < e.offset
  lim : e.maxSize = M
  fits : e.buf.length ≤ max M B.length

/-- An item emitter "only ever appends": from every state above a rollback point it ends — with
`Ok` *or* with an error — in a state above the same point, and it does not itself fail with
`NotAllRecordsWritten`. -/
def Appender (f : Enc → ERes Unit) : Prop :=
  ∀ base B P M e, Above base B P M e →
    match f e with
    | .ok _ e' => Above base B P M e'
    | .err k e' => Above base B P M e' ∧ ∀ c, k ≠ .notAllWritten c
    | .panic _ => True

theorem Above.self (e : Enc) (happ : e.offset = e.buf.length) (hp : ∀ p ∈ e.ptrs, p.1 < e.offset) :
    Above e.offset e.buf e.ptrs e.maxSize e :=
  ⟨Nat.le_refl _, happ, by rw [happ]; simp, hp, ⟨[], by simp, by simp⟩, rfl, by omega⟩

theorem appender_emitSlice (d : Bytes) : Appender (fun e => e.emitSlice d) := by
  intro base B P M e ha
  simp only
  rw [emitSlice_app _ _ ha.app]
  by_cases hfit : e.maxSize < e.offset + d.length
  · simp only [hfit, ↓reduceIte]
    exact ⟨ha, by intro c; simp⟩
  · simp only [hfit, ↓reduceIte]
    obtain ⟨news, hn1, hn2⟩ := ha.ptrs
    have h1 := ha.base_le
    have h2 := ha.app
    have h3 := ha.lim
    refine ⟨by simp only; omega, by simp [ha.app], ?_, ha.old,
      ⟨news, hn1, fun p hp => ⟨(hn2 p hp).1, by have := (hn2 p hp).2; simp only; omega⟩⟩, ha.lim, ?_⟩
    · simp only
      rw [List.take_append_of_le_length (by omega)]
      exact ha.low
    · simp only [List.length_append]; omega

theorem appender_emitU8 (v : Nat) : Appender (fun e => e.emitU8 v) := appender_emitSlice _
theorem appender_emitU16 (v : Nat) : Appender (fun e => e.emitU16 v) := appender_emitSlice _
theorem appender_emitU32 (v : Nat) : Appender (fun e => e.emitU32 v) := appender_emitSlice _

theorem appender_seq {f g : Enc → ERes Unit} (hf : Appender f) (hg : Appender g) : Appender (Enc.seq f g) := by
  intro base B P M e ha
  have h1 := hf base B P M e ha
  unfold Enc.seq
  cases hfe : f e with
  | ok u e1 => rw [hfe] at h1; exact hg base B P M _ h1
  | err k e1 => rw [hfe] at h1; exact h1
  | panic s => trivial

theorem appender_emitCharacterData (d : Bytes) : Appender (fun e => e.emitCharacterData d) := by
  intro base B P M e ha
  simp only [Enc.emitCharacterData]
  by_cases hl : d.length > 255
  · simp only [hl, ↓reduceIte]
    exact ⟨ha, by intro c; simp⟩
  · simp only [hl, ↓reduceIte]
    exact appender_seq (appender_emitU8 d.length) (appender_emitSlice d) base B P M e ha

/-- the natural state between items: appending, every candidate starts below the offset -/
def StateOK (e : Enc) : Prop := e.offset = e.buf.length ∧ ∀ p ∈ e.ptrs, p.1 < e.offset

theorem Above.stateOK {base B P M e} (ha : Above base B P M e) : StateOK e := by
  refine ⟨ha.app, fun p hp => ?_⟩
  obtain ⟨news, hn1, hn2⟩ := ha.ptrs
  rw [hn1] at hp
  rcases List.mem_append.1 hp with hp | hp
  · have := ha.old p hp; have := ha.base_le; omega
  · exact (hn2 p hp).2

/-- rolling back from any state above the rollback point restores exactly the point -/
theorem rollback_above {e ef : Enc} (_hs : StateOK e) (ha : Above e.offset e.buf e.ptrs e.maxSize ef) :
    Enc.rollback (Enc.rollbackPoint e) ef =
      { ef with offset := e.offset, buf := e.buf, ptrs := e.ptrs } := by
  obtain ⟨news, hn1, _⟩ := ha.ptrs
  simp only [Enc.rollback, Enc.rollbackPoint, ha.low, hn1, List.take_left']

theorem emitIterFrom_prefix : ∀ (items : List (Enc → ERes Unit)) (e : Enc) (c count : Nat) (e' : Enc),
    (∀ it ∈ items, Appender it) → StateOK e →
    Enc.emitIterFrom e items c = .err (.notAllWritten count) e' →
    ∃ k e'', count = c + k ∧ k < items.length ∧
      Enc.emitIterFrom e (items.take k) c = .ok count e'' ∧
      e'.buf = e''.buf ∧ e'.offset = e''.offset ∧ e'.ptrs = e''.ptrs ∧ e'.maxSize = e''.maxSize
  | [], e, c, count, e', _, _, h => by simp [Enc.emitIterFrom] at h
  | item :: rest, e, c, count, e', hitems, hs, h => by
    have ha := Above.self e hs.1 hs.2
    have hitem := hitems item (by simp) _ _ _ _ e ha
    unfold Enc.emitIterFrom at h
    simp only at h
    cases hie : item e with
    | ok u e1 =>
      rw [hie] at h hitem
      simp only at h hitem
      obtain ⟨k, e'', h1, h2, h3, h4⟩ :=
        emitIterFrom_prefix rest e1 (c + 1) count e' (fun it hit => hitems it (by simp [hit]))
          hitem.stateOK h
      refine ⟨k + 1, e'', by omega, by simp; omega, ?_, h4⟩
      simp only [List.take_succ_cons, Enc.emitIterFrom, hie]
      exact h3
    | err kind ef =>
      rw [hie] at h hitem
      simp only at hitem
      cases kind with
      | maxSize =>
        simp only [ERes.err.injEq, EncErr.notAllWritten.injEq] at h
        obtain ⟨rfl, rfl⟩ := h
        refine ⟨0, e, rfl, by simp, by simp [Enc.emitIterFrom], ?_⟩
        rw [rollback_above hs hitem.1]
        exact ⟨rfl, rfl, rfl, hitem.1.lim⟩
      | notAllWritten c' => exact absurd rfl (hitem.2 c')
      | other => simp at h
    | panic s => rw [hie] at h; simp at h

/-- **A rolled-back record leaves no trace.**  For items that only ever append (`Appender`: all the
encoder primitives, `Name::emit`, length-prefixed groups and their compositions — see the
`appender_*` theorems), from the natural encoder state: if `emit_iter` returns
`NotAllRecordsWritten{count}`, then `count` is smaller than the number of items, emitting exactly
the first `count` items succeeds, and the encoder is — buffer, offset, candidate table, limit — in
exactly the state that emission leaves.  (`compressed_name_count` is the one field `Rollback`
does not restore.)  This is what the repaired `Rollback::rollback` (`buffer.truncate(offset)`)
makes true; `rollback_prefix_fails_before_fix` shows it failing for the code before the repair. -/
theorem emitIter_prefix (items : List (Enc → ERes Unit)) (hitems : ∀ it ∈ items, Appender it)
    (e : Enc) (happ : e.offset = e.buf.length) (hptrs : ∀ p ∈ e.ptrs, p.1 < e.offset)
    (count : Nat) (e' : Enc) (h : e.emitIter items = .err (.notAllWritten count) e') :
    count < items.length ∧
    ∃ e'', e.emitIter (items.take count) = .ok count e'' ∧
      e'.buf = e''.buf ∧ e'.offset = e''.offset ∧ e'.ptrs = e''.ptrs ∧ e'.maxSize = e''.maxSize := by
  obtain ⟨k, e'', h1, h2, h3, h4⟩ := emitIterFrom_prefix items e 0 count e' hitems ⟨happ, hptrs⟩ h
  have : k = count := by omega
  subst this
  exact ⟨h2, e'', h3, h4⟩

/-- In every outcome of `emit_iter` (all written, truncated, other error) the encoder is in the
appending state at or above where it started, the old bytes and candidates are intact, and the
buffer is no longer than `max(max_size, initial length)`. -/
theorem emitIter_state (items : List (Enc → ERes Unit)) (hitems : ∀ it ∈ items, Appender it)
    (e : Enc) (happ : e.offset = e.buf.length) (hptrs : ∀ p ∈ e.ptrs, p.1 < e.offset)
    :
    match e.emitIter items with
    | .ok _ e' => Above e.offset e.buf e.ptrs e.maxSize e'
    | .err _ e' => Above e.offset e.buf e.ptrs e.maxSize e'
    | .panic _ => True := by
  unfold Enc.emitIter
  suffices ∀ (items : List (Enc → ERes Unit)) (e1 : Enc) (c : Nat), (∀ it ∈ items, Appender it) →
      Above e.offset e.buf e.ptrs e.maxSize e1 →
      match Enc.emitIterFrom e1 items c with
      | .ok _ e' => Above e.offset e.buf e.ptrs e.maxSize e'
      | .err _ e' => Above e.offset e.buf e.ptrs e.maxSize e'
      | .panic _ => True from this items e 0 hitems (Above.self e happ hptrs)
  intro items
  induction items with
  | nil => intro e1 c _ ha; simpa [Enc.emitIterFrom] using ha
  | cons item rest ih =>
    intro e1 c hit ha
    have hitem := hit item (by simp) _ _ _ _ e1 ha
    have hself := hit item (by simp) _ _ _ _ e1 (Above.self e1 ha.stateOK.1 ha.stateOK.2)
    unfold Enc.emitIterFrom
    simp only
    cases hie : item e1 with
    | ok u e2 =>
      rw [hie] at hitem
      exact ih e2 (c + 1) (fun it h' => hit it (by simp [h'])) hitem
    | err kind ef =>
      rw [hie] at hitem hself
      cases kind with
      | maxSize =>
        simp only
        rw [rollback_above ha.stateOK hself.1]
        exact ⟨ha.base_le, ha.app, ha.low, ha.old, ha.ptrs, by simpa using hitem.1.lim.trans rfl |>.trans rfl, ha.fits⟩
      | notAllWritten c' => exact hitem.1
      | other => exact hitem.1
    | panic s => trivial

/-! ### `Name::emit` only ever appends (also when it fails half-way) -/

/-- result predicate used below: `Ok` and `Err` states satisfy `Q`, an error is never
`NotAllRecordsWritten` -/
def Res {α} (r : ERes α) (Q : α → Enc → Prop) (Qe : Enc → Prop) : Prop :=
  match r with
  | .ok a e' => Q a e'
  | .err k e' => Qe e' ∧ ∀ c, k ≠ .notAllWritten c
  | .panic _ => True

theorem Appender.res {f : Enc → ERes Unit} (hf : Appender f) {base B P M e} (ha : Above base B P M e) :
    Res (f e) (fun _ e' => Above base B P M e' ∧ e.offset ≤ e'.offset) (fun e' => Above base B P M e') := by
  have h1 := hf base B P M e ha
  have h2 := hf _ _ _ _ e (Above.self e ha.stateOK.1 ha.stateOK.2)
  unfold Res
  cases hfe : f e with
  | ok u e1 => rw [hfe] at h1 h2; exact ⟨h1, h2.base_le⟩
  | err k e1 => rw [hfe] at h1; exact h1
  | panic s => trivial

theorem emitLabels_above {base B P M} : ∀ (ls : List Bytes) (e : Enc) (w : List Nat),
    Above base B P M e → (∀ x ∈ w, base ≤ x ∧ x ≤ e.offset) →
    Res (emitLabels e ls w)
      (fun w' e' => Above base B P M e' ∧ ∀ x ∈ w', base ≤ x ∧ x ≤ e'.offset)
      (fun e' => Above base B P M e')
  | [], e, w, ha, hw => by simp only [emitLabels, Res]; exact ⟨ha, hw⟩
  | l :: ls, e, w, ha, hw => by
    unfold emitLabels
    by_cases hl : l.length > 63
    · simp only [hl, ↓reduceIte, Res]; exact ⟨ha, by intro c; simp⟩
    · simp only [hl, ↓reduceIte]
      have h1 := (appender_emitCharacterData l).res ha
      cases hcd : e.emitCharacterData l with
      | ok u e1 =>
        rw [hcd] at h1
        simp only [Res] at h1
        refine emitLabels_above ls e1 _ h1.1 ?_
        intro x hx
        rcases List.mem_append.1 hx with hx | hx
        · have := hw x hx; omega
        · simp only [List.mem_singleton] at hx; subst hx; exact ⟨ha.base_le, h1.2⟩
      | err k e1 => rw [hcd] at h1; exact h1
      | panic s => trivial

theorem storeLabelPointer_above {base B P M} {e e' : Enc} {idx last : Nat} (ha : Above base B P M e)
    (hidx : base ≤ idx) (h : e.storeLabelPointer idx last = .ok e') :
    Above base B P M e' ∧ e'.offset = e.offset := by
  unfold Enc.storeLabelPointer at h
  split at h
  · simp at h
  split at h
  · simp at h
  split at h
  · simp at h
  split at h
  · cases hs : e.sliceOf idx last with
    | ok sl =>
      rw [hs] at h
      simp only [Outcome.ok.injEq] at h
      subst h
      have hlt : idx < e.offset := by
        unfold Enc.sliceOf at hs
        split at hs
        · simp at hs
        · rename_i hh; omega
      obtain ⟨news, hn1, hn2⟩ := ha.ptrs
      refine ⟨⟨ha.base_le, ha.app, ha.low, ha.old, ⟨news ++ [(idx, sl)], by simp [hn1], ?_⟩, ha.lim, ha.fits⟩, rfl⟩
      intro p hp
      rcases List.mem_append.1 hp with hp | hp
      · exact hn2 p hp
      · simp only [List.mem_singleton] at hp; subst hp; exact ⟨hidx, hlt⟩
    | err => rw [hs] at h; simp at h
    | panic s => rw [hs] at h; simp at h
  · simp only [Outcome.ok.injEq] at h
    subst h
    exact ⟨ha, rfl⟩

theorem storeAll_above {base B P M} {last : Nat} : ∀ (w : List Nat) (e e' : Enc),
    Above base B P M e → (∀ x ∈ w, base ≤ x) → storeAll e last w = .ok e' →
    Above base B P M e' ∧ e'.offset = e.offset
  | [], e, e', ha, _, h => by
    simp only [storeAll, Outcome.ok.injEq] at h; subst h; exact ⟨ha, rfl⟩
  | idx :: rest, e, e', ha, hw, h => by
    unfold storeAll at h
    cases hs : e.storeLabelPointer idx last with
    | ok e1 =>
      rw [hs] at h
      obtain ⟨h1, h2⟩ := storeLabelPointer_above ha (hw idx (by simp)) hs
      obtain ⟨h3, h4⟩ := storeAll_above rest e1 e' h1 (fun x hx => hw x (by simp [hx])) h
      exact ⟨h3, by omega⟩
    | err => rw [hs] at h; simp at h
    | panic s => rw [hs] at h; simp at h

theorem trim_above {base B P M} {e : Enc} {idx : Nat} (ha : Above base B P M e) (h1 : base ≤ idx)
    (h2 : idx ≤ e.offset) : Above base B P M (Enc.trim { e with offset := idx }) := by
  obtain ⟨news, hn1, hn2⟩ := ha.ptrs
  have happ := ha.app
  refine ⟨h1, ?_, ?_, ha.old, ⟨news.filter (fun p => p.1 < idx), ?_, ?_⟩, ha.lim, ?_⟩
  · simp only [Enc.trim, List.length_take]; omega
  · simp only [Enc.trim, List.take_take, Nat.min_eq_left h1]; exact ha.low
  · simp only [Enc.trim, hn1, List.filter_append]
    congr 1
    apply List.filter_eq_self.2
    intro p hp
    have := ha.old p hp
    simp only [decide_eq_true_eq]; omega
  · intro p hp
    have hm := List.mem_filter.1 hp
    have := hn2 p hm.1
    simp only [decide_eq_true_eq] at hm
    exact ⟨this.1, by simp only [Enc.trim]; omega⟩
  · have := ha.fits
    simp only [Enc.trim, List.length_take]; omega

theorem compressLoop_above {base B P M} {last : Nat} : ∀ (w : List Nat) (e : Enc),
    Above base B P M e → (∀ x ∈ w, base ≤ x ∧ x ≤ e.offset) →
    Res (compressLoop e last w) (fun _ e' => Above base B P M e') (fun e' => Above base B P M e')
  | [], e, ha, _ => by simp only [compressLoop, Res]; exact ha
  | idx :: rest, e, ha, hw => by
    have hidx := hw idx (by simp)
    have cont : ∀ e', e.storeLabelPointer idx last = .ok e' →
        Res (compressLoop e' last rest) (fun _ e' => Above base B P M e') (fun e' => Above base B P M e') := by
      intro e' hst
      obtain ⟨h1, h2⟩ := storeLabelPointer_above ha hidx.1 hst
      exact compressLoop_above rest e' h1 (fun x hx => by rw [h2]; exact hw x (by simp [hx]))
    unfold compressLoop
    cases hg : e.getLabelPointer idx last with
    | panic s => simp only [Res]
    | err => simp only [Res]
    | ok o =>
      cases o with
      | none =>
        simp only
        cases hst : e.storeLabelPointer idx last with
        | ok e' => exact cont e' hst
        | err => simp only [Res]
        | panic s => simp only [Res]
      | some loc =>
        simp only
        by_cases hloc : loc / 16384 = 0
        · simp only [hloc, ↓reduceIte]
          have ht := trim_above ha hidx.1 hidx.2
          have h1 := (appender_emitU16 (49152 + loc)).res ht
          cases hu : (Enc.trim { e with offset := idx }).emitU16 (49152 + loc) with
          | ok u e2 => rw [hu] at h1; exact h1.1
          | err k e2 => rw [hu] at h1; exact h1
          | panic s => simp only [Res]
        · simp only [hloc, ↓reduceIte]
          cases hst : e.storeLabelPointer idx last with
          | ok e' => exact cont e' hst
          | err => simp only [Res]
          | panic s => simp only [Res]

theorem emitRoot_above {base B P M} {e : Enc} (bufLen : Nat) (ha : Above base B P M e) :
    Res (emitRoot e bufLen) (fun _ e' => Above base B P M e') (fun e' => Above base B P M e') := by
  unfold emitRoot
  have h1 := (appender_emitU8 0).res ha
  cases hu : e.emitU8 0 with
  | ok u e3 =>
    rw [hu] at h1
    simp only
    split
    · simp only [Res]
    split
    · exact ⟨h1.1, by intro c; simp⟩
    · exact h1.1
  | err k e3 => rw [hu] at h1; exact h1
  | panic s => simp only [Res]

/-- **`Name::emit` is an `Appender`** — in every mode, whether it compresses or not, whether it
succeeds or fails at any of its writes. -/
theorem appender_emitName (n : Name) : Appender (fun e => Name.emit e n) := by
  intro base B P M e ha
  have key : Res (Name.emit e n) (fun _ e' => Above base B P M e') (fun e' => Above base B P M e') := by
    unfold Name.emit
    simp only
    generalize (if e.nameEncoding = NameEncoding.uncompressedLowercase then n.toLowercase else n).labels = ls
    have h1 := emitLabels_above (base := base) (B := B) (P := P) (M := M) ls e [] ha (by simp)
    cases hl : emitLabels e ls [] with
    | panic s => simp only [Res]
    | err k e1 => rw [hl] at h1; exact h1
    | ok w e1 =>
      rw [hl] at h1
      obtain ⟨ha1, hw⟩ := h1
      simp only
      split
      · have ha1' : Above base B P M { e1 with compressedNameCount := e1.compressedNameCount + 1 } :=
          ⟨ha1.base_le, ha1.app, ha1.low, ha1.old, ha1.ptrs, ha1.lim, ha1.fits⟩
        have h2 := compressLoop_above (last := e1.offset) w _ ha1' hw
        cases hc : compressLoop { e1 with compressedNameCount := e1.compressedNameCount + 1 } e1.offset w with
        | panic s => simp only [Res]
        | err k e2 => rw [hc] at h2; exact h2
        | ok flag e2 =>
          rw [hc] at h2
          cases flag with
          | true => exact h2
          | false => exact emitRoot_above _ h2
      · cases hs : storeAll e1 e1.offset w with
        | panic s => simp only [Res]
        | err => simp only [Res]
        | ok e2 => exact emitRoot_above _ (storeAll_above w e1 e2 ha1 (fun x hx => (hw x hx).1) hs).1
  unfold Res at key
  simp only
  cases hr : Name.emit e n with
  | ok u e' => rw [hr] at key; exact key
  | err k e' => rw [hr] at key; exact key
  | panic s => trivial

theorem Above.withNameEncoding {base B P M e} (m : NameEncoding) (ha : Above base B P M e) :
    Above base B P M { e with nameEncoding := m } :=
  ⟨ha.base_le, ha.app, ha.low, ha.old, ha.ptrs, ha.lim, ha.fits⟩

theorem appender_restore {f : Enc → ERes Unit} (hf : Appender f) (m : NameEncoding → Bool → NameEncoding → NameEncoding) :
    Appender (fun e => Enc.restoreNameEncoding e.nameEncoding
      (f { e with nameEncoding := m e.nameEncoding e.canonicalForm e.nameEncoding })) := by
  intro base B P M e ha
  have h1 := hf base B P M _ (ha.withNameEncoding (m e.nameEncoding e.canonicalForm e.nameEncoding))
  simp only
  cases hfe : f { e with nameEncoding := m e.nameEncoding e.canonicalForm e.nameEncoding } with
  | ok u e1 => rw [hfe] at h1; exact h1.withNameEncoding _
  | err k e1 => rw [hfe] at h1; exact ⟨h1.1.withNameEncoding _, h1.2⟩
  | panic s => trivial

/-- `with_name_encoding(mode)` around an appender -/
theorem appender_withNameEncoding {f : Enc → ERes Unit} (hf : Appender f) (m : NameEncoding) :
    Appender (fun e => e.withNameEncoding m f) :=
  appender_restore hf (fun _ _ _ => m)

/-- `with_rdata_behavior(kind)` around an appender -/
theorem appender_withRdataBehavior {f : Enc → ERes Unit} (hf : Appender f) (r : RDataEncoding) :
    Appender (fun e => e.withRdataBehavior r f) :=
  appender_restore hf (fun _ c cur => Enc.rdataNameEncoding r c cur)

theorem appender_place (len : Nat) {base B P M e} (ha : Above base B P M e) :
    Res (e.place len) (fun idx e' => Above base B P M e' ∧ idx = e.offset ∧ e'.offset = e.offset + len)
      (fun e' => Above base B P M e') := by
  rw [place_app _ _ ha.app]
  by_cases hfit : e.maxSize < e.offset + len
  · simp only [hfit, ↓reduceIte, Res]; exact ⟨ha, by intro c; simp⟩
  · simp only [hfit, ↓reduceIte, Res]
    obtain ⟨news, hn1, hn2⟩ := ha.ptrs
    have h1 := ha.base_le
    have h2 := ha.app
    have h3 := ha.lim
    refine ⟨⟨by simp only; omega, by simp [ha.app], ?_, ha.old,
      ⟨news, hn1, fun p hp => ⟨(hn2 p hp).1, by have := (hn2 p hp).2; simp only; omega⟩⟩, ha.lim, ?_⟩, trivial, trivial⟩
    · simp only
      rw [List.take_append_of_le_length (by omega)]
      exact ha.low
    · simp only [List.length_append, List.length_replicate]; omega

theorem appender_lenPrefixed {body : Enc → ERes Unit} (hb : Appender body) : Appender (Enc.lenPrefixed body) := by
  intro base B P M e ha
  unfold Enc.lenPrefixed
  have hp := appender_place 2 ha
  cases hpl : e.place 2 with
  | panic s => trivial
  | err k e1 => rw [hpl] at hp; exact hp
  | ok start e1 =>
    rw [hpl] at hp
    obtain ⟨ha1, hst, hoff1⟩ := hp
    simp only
    have hb1 := hb base B P M e1 ha1
    have hb2 := hb _ _ _ _ e1 (Above.self e1 ha1.stateOK.1 ha1.stateOK.2)
    cases hbody : body e1 with
    | panic s => trivial
    | err k e2 => rw [hbody] at hb1; exact hb1
    | ok u e2 =>
      rw [hbody] at hb1 hb2
      simp only at hb1 hb2 ⊢
      have hge : start + 2 ≤ e2.offset := by have := hb2.base_le; omega
      unfold Enc.lenSincePlace
      rw [if_neg (by omega)]
      simp only
      have hin : start + 2 ≤ e2.buf.length := by rw [← hb1.app]; exact hge
      by_cases hbig : e2.offset - start - 2 > 65535
      · simp only [hbig, ↓reduceIte]
      simp only [hbig, ↓reduceIte]
      cases hr : e2.placeReplace start 2 (fun x => x.emitU16 (e2.offset - start - 2)) with
      | panic s => trivial
      | err k e3 =>
        -- a refused back-patch trips the length assertion (panic) — an `Err` cannot come out
        exfalso
        unfold Enc.placeReplace at hr
        simp only at hr
        unfold Enc.emitU16 at hr
        rw [emitSlice_overwrite _ _ (by simp; omega)] at hr
        simp only [List.length_cons, List.length_nil] at hr
        by_cases hlt : start < e2.offset
        · rw [if_neg (by omega)] at hr
          by_cases hmax : e2.maxSize < start + (0 + 1 + 1)
          · simp only [hmax, ↓reduceIte] at hr
            rw [if_neg (by omega), if_pos (by omega)] at hr
            simp at hr
          · simp only [hmax, ↓reduceIte] at hr
            rw [if_neg (by omega), if_neg (by omega)] at hr
            simp at hr
        · rw [if_pos hlt] at hr; simp at hr
      | ok u3 e3 =>
        have := placeReplace_spec e2 e3 start 2 _ (by simp) hin hr
        subst this
        simp only
        have hbs : base ≤ start := by have := ha.base_le; omega
        refine ⟨hb1.base_le, ?_, ?_, hb1.old, hb1.ptrs, hb1.lim, ?_⟩
        · have := hb1.app
          simp only [List.length_append, List.length_take, List.length_drop, List.length_cons,
            List.length_nil]
          omega
        · simp only
          rw [List.append_assoc, List.take_append_of_le_length (by simp; omega), List.take_take,
            Nat.min_eq_left hbs]
          exact hb1.low
        · have := hb1.fits
          simp only [List.length_append, List.length_take, List.length_drop, List.length_cons,
            List.length_nil]
          omega

theorem appender_lenPrefixedTry {body : Enc → ERes Unit} (hb : Appender body) :
    Appender (Enc.lenPrefixedTry body) := by
  intro base B P M e ha
  unfold Enc.lenPrefixedTry
  have hp := appender_place 2 ha
  cases hpl : e.place 2 with
  | panic s => trivial
  | err k e1 => rw [hpl] at hp; exact hp
  | ok start e1 =>
    rw [hpl] at hp
    obtain ⟨ha1, hst, hoff1⟩ := hp
    simp only
    have hb1 := hb base B P M e1 ha1
    have hb2 := hb _ _ _ _ e1 (Above.self e1 ha1.stateOK.1 ha1.stateOK.2)
    cases hbody : body e1 with
    | panic s => trivial
    | err k e2 => rw [hbody] at hb1; exact hb1
    | ok u e2 =>
      rw [hbody] at hb1 hb2
      simp only at hb1 hb2 ⊢
      have hge : start + 2 ≤ e2.offset := by have := hb2.base_le; omega
      unfold Enc.lenSincePlace
      rw [if_neg (by omega)]
      simp only
      have hin : start + 2 ≤ e2.buf.length := by rw [← hb1.app]; exact hge
      by_cases hbig : e2.offset - start - 2 > 65535
      · simp only [hbig, ↓reduceIte]; exact ⟨hb1, by intro c; simp⟩
      simp only [hbig, ↓reduceIte]
      cases hr : e2.placeReplace start 2 (fun x => x.emitU16 (e2.offset - start - 2)) with
      | panic s => trivial
      | err k e3 =>
        -- a refused back-patch trips the length assertion (panic) — an `Err` cannot come out
        exfalso
        unfold Enc.placeReplace at hr
        simp only at hr
        unfold Enc.emitU16 at hr
        rw [emitSlice_overwrite _ _ (by simp; omega)] at hr
        simp only [List.length_cons, List.length_nil] at hr
        by_cases hlt : start < e2.offset
        · rw [if_neg (by omega)] at hr
          by_cases hmax : e2.maxSize < start + (0 + 1 + 1)
          · simp only [hmax, ↓reduceIte] at hr
            rw [if_neg (by omega), if_pos (by omega)] at hr
            simp at hr
          · simp only [hmax, ↓reduceIte] at hr
            rw [if_neg (by omega), if_neg (by omega)] at hr
            simp at hr
        · rw [if_pos hlt] at hr; simp at hr
      | ok u3 e3 =>
        have := placeReplace_spec e2 e3 start 2 _ (by simp) hin hr
        subst this
        simp only
        have hbs : base ≤ start := by have := ha.base_le; omega
        refine ⟨hb1.base_le, ?_, ?_, hb1.old, hb1.ptrs, hb1.lim, ?_⟩
        · have := hb1.app
          simp only [List.length_append, List.length_take, List.length_drop, List.length_cons,
            List.length_nil]
          omega
        · simp only
          rw [List.append_assoc, List.take_append_of_le_length (by simp; omega), List.take_take,
            Nat.min_eq_left hbs]
          exact hb1.low
        · have := hb1.fits
          simp only [List.length_append, List.length_take, List.length_drop, List.length_cons,
            List.length_nil]
          omega

/-- **A single `Name::emit` respects the limit whether it succeeds or fails**: the buffer stays in
the appending state, keeps its old bytes, and is no longer than `max(max_size, old length)`. -/
theorem emitName_respects_max (e : Enc) (n : Name) (happ : e.offset = e.buf.length)
    (hptrs : ∀ p ∈ e.ptrs, p.1 < e.offset) :
    match Name.emit e n with
    | .ok _ e' => e'.buf.length ≤ max e.maxSize e.buf.length ∧ e'.offset = e'.buf.length ∧
        e'.buf.take e.offset = e.buf ∧ e'.maxSize = e.maxSize
    | .err _ e' => e'.buf.length ≤ max e.maxSize e.buf.length ∧ e'.offset = e'.buf.length ∧
        e'.buf.take e.offset = e.buf ∧ e'.maxSize = e.maxSize
    | .panic _ => True := by
  have h := appender_emitName n _ _ _ _ e (Above.self e happ hptrs)
  simp only at h
  cases hr : Name.emit e n with
  | ok u e' => rw [hr] at h; exact ⟨h.fits, h.app, h.low, h.lim⟩
  | err k e' => rw [hr] at h; exact ⟨h.1.fits, h.1.app, h.1.low, h.1.lim⟩
  | panic s => trivial

/-! ### the candidate-table invariant of C02 survives `emit_iter`, truncated or not -/

theorem ptrInvH_starts_lt {H : Nat × Nat → Prop} {e : Enc} (hinv : PtrInvH H e) :
    ∀ p ∈ e.ptrs, p.1 < e.offset := by
  intro p hp
  rcases hinv p hp with ⟨ls, en, F, _, h2, h3, _⟩ | ⟨hlt, _⟩
  · have := h2.pos_lt_end
    omega
  · exact hlt

theorem ptrInvH_emitIterFrom {H : Nat × Nat → Prop} : ∀ (items : List (Enc → ERes Unit)) (e : Enc) (c : Nat),
    (∀ it ∈ items, Appender it) → (∀ it ∈ items, InvPreserving it) →
    e.offset = e.buf.length → PtrInvH H e → (∀ a b, e.offset ≤ a → H (a, b)) →
    match Enc.emitIterFrom e items c with
    | .ok _ e' => PtrInvH H e' ∧ e'.offset = e'.buf.length ∧ e.offset ≤ e'.offset
    | .err (.notAllWritten _) e' => PtrInvH H e' ∧ e'.offset = e'.buf.length ∧ e.offset ≤ e'.offset
    | _ => True
  | [], e, c, _, _, happ, hinv, _ => by
    simp only [Enc.emitIterFrom]; exact ⟨hinv, happ, Nat.le_refl _⟩
  | item :: rest, e, c, hA, hI, happ, hinv, hH => by
    have hs : StateOK e := ⟨happ, ptrInvH_starts_lt hinv⟩
    have hitem := hA item (by simp) _ _ _ _ e (Above.self e hs.1 hs.2)
    unfold Enc.emitIterFrom
    simp only
    cases hie : item e with
    | ok u e1 =>
      simp only
      obtain ⟨h1, h2, h3⟩ := hI item (by simp) H e e1 happ hinv hH hie
      have ih := ptrInvH_emitIterFrom (H := H) rest e1 (c + 1) (fun it h => hA it (by simp [h]))
        (fun it h => hI it (by simp [h])) h2 h1 (fun a b hab => hH a b (by omega))
      cases hr : Enc.emitIterFrom e1 rest (c + 1) with
      | ok n e' => rw [hr] at ih; exact ⟨ih.1, ih.2.1, by have := ih.2.2; omega⟩
      | err k e' =>
        rw [hr] at ih
        cases k with
        | notAllWritten c' => exact ⟨ih.1, ih.2.1, by have := ih.2.2; omega⟩
        | maxSize => trivial
        | other => trivial
      | panic s => trivial
    | err kind ef =>
      rw [hie] at hitem
      cases kind with
      | maxSize =>
        simp only
        rw [rollback_above hs hitem.1]
        exact ⟨hinv, happ, Nat.le_refl _⟩
      | notAllWritten c' => exact absurd rfl (hitem.2 c')
      | other => trivial
    | panic s => trivial

/-- **The compression-candidate invariant of C02 survives `emit_iter`** — when all items were
written and when it stopped with `NotAllRecordsWritten` and rolled the failed item back (this is
`ptrInvH_rollback` applied at the rollback point): later sections can keep pointing at earlier
names, and never at bytes of the dropped record. -/
theorem ptrInvH_emitIter {H : Nat × Nat → Prop} (items : List (Enc → ERes Unit))
    (hA : ∀ it ∈ items, Appender it) (hI : ∀ it ∈ items, InvPreserving it) (e : Enc)
    (happ : e.offset = e.buf.length) (hinv : PtrInvH H e) (hH : ∀ a b, e.offset ≤ a → H (a, b)) :
    match e.emitIter items with
    | .ok _ e' => PtrInvH H e' ∧ e'.offset = e'.buf.length ∧ e.offset ≤ e'.offset
    | .err (.notAllWritten _) e' => PtrInvH H e' ∧ e'.offset = e'.buf.length ∧ e.offset ≤ e'.offset
    | _ => True :=
  ptrInvH_emitIterFrom items e 0 hA hI happ hinv hH

/-- a record-shaped item: owner name, type, class, ttl, RDLENGTH place, a name as RDATA written
under `with_rdata_behavior(StandardRecord)`, back-patch — assembled from the combinators -/
def recordItem (owner target : Name) : Enc → ERes Unit :=
  Enc.seq (fun e => Name.emit e owner) <|
  Enc.seq (fun e => e.emitU16 2) <|
  Enc.seq (fun e => e.emitU16 1) <|
  Enc.seq (fun e => e.emitU32 3600) <|
  Enc.lenPrefixed (fun e => e.withRdataBehavior .standardRecord (fun e1 => Name.emit e1 target))

/-- such an item satisfies both hypotheses of `ptrInvH_emitIter` (and that of `emitIter_prefix`) -/
theorem recordItem_ok (owner target : Name) (h1 : owner.WF) (h2 : target.WF) :
    Appender (recordItem owner target) ∧ InvPreserving (recordItem owner target) :=
  ⟨appender_seq (appender_emitName _) <| appender_seq (appender_emitU16 _) <|
      appender_seq (appender_emitU16 _) <| appender_seq (appender_emitU32 _) <|
      appender_lenPrefixed (appender_withRdataBehavior (appender_emitName _) _),
   invPreserving_seq (invPreserving_emitName _ h1) <| invPreserving_seq (invPreserving_emitU16 _) <|
      invPreserving_seq (invPreserving_emitU16 _) <| invPreserving_seq (invPreserving_emitU32 _) <|
      invPreserving_lenPrefixed (invPreserving_withRdataBehavior (invPreserving_emitName _ h2) _)⟩

/-- two NS-like records under a limit of 40 octets: the first fits (25 octets), the second is rolled
back; the result is the state after the first alone. -/
example : ((Enc.new []).setMaxSize 40).emitIter [recordItem exCom wwwExCom, recordItem wwwExCom exCom] =
    .err (.notAllWritten 1)
      { buf := [2, 101, 120, 3, 99, 111, 109, 0, 0, 2, 0, 1, 0, 0, 14, 16, 0, 6, 3, 87, 87, 87, 192, 0],
        offset := 24, maxSize := 40,
        ptrs := [(0, [2, 101, 120, 3, 99, 111, 109]), (3, [3, 99, 111, 109]),
                 (18, [3, 87, 87, 87, 2, 101, 120, 3, 99, 111, 109])],
        canonicalForm := false, nameEncoding := .compressed, compressedNameCount := 3 } := by
  decide

/-! ### the defect that was repaired, and non-vacuity -/

/-- `Rollback::rollback` as it was before the repair: offset and candidate count restored, buffer
*not* truncated. -/
def rollbackPreFix (rb : Enc.Rollback) (e : Enc) : Enc :=
  { e with offset := rb.offset, ptrs := e.ptrs.take rb.pointers }

def emitIterFromPreFix (e : Enc) : List (Enc → ERes Unit) → Nat → ERes Nat
  | [], count => .ok count e
  | item :: rest, count =>
    let rb := Enc.rollbackPoint e
    match item e with
    | .ok _ e' => emitIterFromPreFix e' rest (count + 1)
    | .err .maxSize e' => .err (.notAllWritten count) (rollbackPreFix rb e')
    | .err k e' => .err k e'
    | .panic s => .panic s

/-- a 3-octet item, and an item that writes 2 octets and then 3 more -/
def itemA : Enc → ERes Unit := fun e => e.emitSlice [1, 2, 3]
def itemB : Enc → ERes Unit := Enc.seq (fun e => e.emitSlice [9, 9]) (fun e => e.emitSlice [8, 8, 8])
/-- empty encoder with `set_max_size(6)` -/
def enc6 : Enc := (Enc.new []).setMaxSize 6

theorem itemA_appender : Appender itemA := appender_emitSlice _
theorem itemB_appender : Appender itemB := appender_seq (appender_emitSlice _) (appender_emitSlice _)

/-- the repaired code on `[itemA, itemB]` under limit 6: `NotAllRecordsWritten{1}` and the state is
the one after `itemA` alone (an instance of `emitIter_prefix` with non-trivial hypotheses) -/
example : enc6.emitIter [itemA, itemB] =
      .err (.notAllWritten 1) { enc6 with buf := [1, 2, 3], offset := 3 } ∧
    enc6.emitIter [itemA] = .ok 1 { enc6 with buf := [1, 2, 3], offset := 3 } := by
  decide

/-- **Before the repair the clause fails**: same input, the rolled-back `itemB` leaves its first two
octets `9, 9` in the buffer (5 octets, of which the decoder will find 2 left over), while emitting
`itemA` alone gives 3 octets. -/
theorem rollback_prefix_fails_before_fix :
    emitIterFromPreFix enc6 [itemA, itemB] 0 =
      .err (.notAllWritten 1) { enc6 with buf := [1, 2, 3, 9, 9], offset := 3 } ∧
    enc6.emitIter [itemA] = .ok 1 { enc6 with buf := [1, 2, 3], offset := 3 } := by
  decide
end HickoryVerif.C03
