/-
C05 — RRset signed data equals the RFC 4034/4035 canonical form.
Property theorems about `Model/Tbs.lean` (the model of `TBS::new`) against `Spec/Rfc4034.lean`.
-/
import HickoryVerif.Model.Tbs
import HickoryVerif.Spec.Rfc4034
import HickoryVerif.Proofs.C04
import HickoryVerif.Proofs.C04Bounds

namespace HickoryVerif.C05
open HickoryVerif HickoryVerif.Name HickoryVerif.Tbs HickoryVerif.Spec

/-! ### canonical RDATA: `emit` under `canonical_form = true` is the RFC 4034 §6.2 form -/

theorem emitStrings_snd (ss : List Bytes) :
    (emitStrings ss).2 = ss.all (fun s => decide (s.length ≤ 255)) := by
  induction ss with
  | nil => rfl
  | cons s ss ih =>
    simp only [emitStrings, List.all_cons]
    by_cases h : s.length > 255
    · simp [h]; omega
    · simp only [h, ↓reduceIte, ih]
      have : decide (s.length ≤ 255) = true := by simp; omega
      simp [this]

theorem emitStrings_fst (ss : List Bytes) (h : ss.all (fun s => decide (s.length ≤ 255)) = true) :
    (emitStrings ss).1 = (ss.map fun s => s.length :: s).flatten := by
  induction ss with
  | nil => rfl
  | cons s ss ih =>
    simp only [List.all_cons, Bool.and_eq_true, decide_eq_true_eq] at h
    have hs : ¬ s.length > 255 := by omega
    simp only [emitStrings, hs, ↓reduceIte, List.map_cons, List.flatten_cons, ih h.2]

/-- **Per-type canonical RDATA.**  What `RData::emit` writes under `canonical_form = true` is the
RFC 4034 §6.2 canonical RDATA (names uncompressed and lower-cased for NS, CNAME, PTR, MX, SOA, SRV;
wire RDATA otherwise). -/
theorem canonBytes_eq_spec (d : RData) : canonBytes d = canonicalRdata d := by
  cases d <;> simp only [canonBytes, canonicalRdata]
  case txt ss =>
    rw [emitStrings_snd]
    by_cases h : ss.all (fun s => decide (s.length ≤ 255)) = true
    · simp only [h, ↓reduceIte, emitStrings_fst ss h]
    · simp [h]

/-! ### the stable sort -/

theorem mem_insertStable {α} (le : α → α → Bool) (x y : α) (l : List α) :
    y ∈ insertStable le x l ↔ y = x ∨ y ∈ l := by
  induction l with
  | nil => simp [insertStable]
  | cons z zs ih =>
    simp only [insertStable]
    split
    · simp
    · simp only [List.mem_cons, ih]
      constructor
      · rintro (h | h | h) <;> simp [h]
      · rintro (h | h | h) <;> simp [h]

theorem mem_sortStable {α} (le : α → α → Bool) (y : α) (l : List α) :
    y ∈ sortStable le l ↔ y ∈ l := by
  induction l with
  | nil => simp [sortStable]
  | cons x xs ih =>
    have : sortStable le (x :: xs) = insertStable le x (sortStable le xs) := rfl
    rw [this, mem_insertStable, ih]; simp

theorem insertStable_perm {α} (le : α → α → Bool) (x : α) (l : List α) :
    (insertStable le x l).Perm (x :: l) := by
  induction l with
  | nil => exact List.Perm.refl _
  | cons z zs ih =>
    simp only [insertStable]
    split
    · exact List.Perm.refl _
    · exact (List.Perm.cons z ih).trans (List.Perm.swap x z zs)

/-- the model's `sort` returns a permutation of its input … -/
theorem sortStable_perm {α} (le : α → α → Bool) (l : List α) : (sortStable le l).Perm l := by
  induction l with
  | nil => exact List.Perm.refl _
  | cons x xs ih =>
    have : sortStable le (x :: xs) = insertStable le x (sortStable le xs) := rfl
    rw [this]
    exact (insertStable_perm le x _).trans (List.Perm.cons x ih)

theorem insertStable_sorted {α} (le : α → α → Bool) (htot : ∀ a b, le a b = false → le b a = true)
    (htrans : ∀ a b c, le a b = true → le b c = true → le a c = true) (x : α) (l : List α)
    (hl : l.Pairwise (fun a b => le a b = true)) :
    (insertStable le x l).Pairwise (fun a b => le a b = true) := by
  induction l with
  | nil => simp [insertStable]
  | cons z zs ih =>
    simp only [insertStable]
    rw [List.pairwise_cons] at hl
    split
    · next h =>
      rw [List.pairwise_cons]
      refine ⟨?_, List.pairwise_cons.2 hl⟩
      intro a ha
      rcases List.mem_cons.1 ha with rfl | ha
      · exact h
      · exact htrans _ _ _ h (hl.1 a ha)
    · next h =>
      rw [List.pairwise_cons]
      refine ⟨?_, ih hl.2⟩
      intro a ha
      rcases (mem_insertStable le x a zs).1 ha with rfl | ha
      · exact htot _ _ (by simpa using h)
      · exact hl.1 a ha

/-- … that is sorted, for every total transitive `le` (so it is *the* stable sort). -/
theorem sortStable_sorted {α} (le : α → α → Bool) (htot : ∀ a b, le a b = false → le b a = true)
    (htrans : ∀ a b c, le a b = true → le b c = true → le a c = true) (l : List α) :
    (sortStable le l).Pairwise (fun a b => le a b = true) := by
  induction l with
  | nil => simp [sortStable]
  | cons x xs ih =>
    have : sortStable le (x :: xs) = insertStable le x (sortStable le xs) := rfl
    rw [this]
    exact insertStable_sorted le htot htrans x _ ih

/-! ### the spec's `sortDistinct` is the strictly increasing list of the distinct elements -/

theorem mem_insertCanon (x y : Bytes) (l : List Bytes) :
    y ∈ insertCanon x l ↔ y = x ∨ y ∈ l := by
  induction l with
  | nil => simp [insertCanon]
  | cons z zs ih =>
    simp only [insertCanon]
    split
    · simp
    · next h =>
      have : x = z := Std.compare_eq_iff_eq.1 h
      subst this; simp
    · simp only [List.mem_cons, ih]
      constructor
      · rintro (h | h | h) <;> simp [h]
      · rintro (h | h | h) <;> simp [h]

theorem mem_sortDistinct (y : Bytes) (l : List Bytes) : y ∈ sortDistinct l ↔ y ∈ l := by
  induction l with
  | nil => simp [sortDistinct]
  | cons x xs ih =>
    have : sortDistinct (x :: xs) = insertCanon x (sortDistinct xs) := rfl
    rw [this, mem_insertCanon, ih]; simp

theorem insertCanon_sorted (x : Bytes) (l : List Bytes)
    (hl : l.Pairwise (fun a b => compare a b = .lt)) :
    (insertCanon x l).Pairwise (fun a b => compare a b = .lt) := by
  induction l with
  | nil => simp [insertCanon]
  | cons z zs ih =>
    simp only [insertCanon]
    have hl' := List.pairwise_cons.1 hl
    split
    · next h =>
      rw [List.pairwise_cons]
      refine ⟨?_, hl⟩
      intro a ha
      rcases List.mem_cons.1 ha with rfl | ha
      · exact h
      · exact Std.TransCmp.lt_trans h (hl'.1 a ha)
    · exact hl
    · next h =>
      rw [List.pairwise_cons]
      refine ⟨?_, ih hl'.2⟩
      intro a ha
      rcases (mem_insertCanon x a zs).1 ha with rfl | ha
      · rw [Std.OrientedCmp.eq_swap (cmp := compare), h]; rfl
      · exact hl'.1 a ha

/-- `sortDistinct l` is strictly increasing in the lexicographic octet order (hence duplicate-free) -/
theorem sortDistinct_sorted (l : List Bytes) :
    (sortDistinct l).Pairwise (fun a b => compare a b = .lt) := by
  induction l with
  | nil => simp [sortDistinct]
  | cons x xs ih =>
    have : sortDistinct (x :: xs) = insertCanon x (sortDistinct xs) := rfl
    rw [this]; exact insertCanon_sorted x _ ih

/-! ### `determine_name` is RFC 4035 §5.3.2 "to calculate the name" -/

theorem numLabels_eq (n : Name) : n.numLabels = ownerLabelCount n := by
  unfold numLabels isWildcard ownerLabelCount
  cases n.labels with
  | nil => simp
  | cons l rest => by_cases h : l = [42] <;> simp [h]

theorem ownerLabelCount_le (n : Name) : ownerLabelCount n ≤ n.labels.length := by
  unfold ownerLabelCount
  cases n.labels with
  | nil => simp
  | cons l rest => by_cases h : l = [42] <;> simp [h]

theorem wire_toLowercase (n : Name) :
    n.toLowercase.wire = Name.wire ⟨n.labels.map lowerLabel, true⟩ := rfl

theorem trimTo_eq {n : Name} (hn : C04.Bounded n) (k : Nat) (hk : k ≤ n.labels.length) :
    n.trimTo k = .ok ⟨n.labels.drop (n.labels.length - k), true⟩ := by
  unfold trimTo
  have hk' : ¬ k > n.labels.length := by omega
  simp only [hk', ↓reduceIte]
  have hdrop : ∀ l ∈ n.labels.drop (n.labels.length - k), 1 ≤ l.length ∧ l.length ≤ 63 :=
    fun l hl => hn.2 l (List.mem_of_mem_drop hl)
  have hsum := C04.sum_drop_le n.labels (n.labels.length - k)
  have hlen : (n.labels.drop (n.labels.length - k)).length ≤ n.labels.length := by simp
  have h1 := hn.1
  unfold encodedLen dataLen at h1
  obtain ⟨r, hr, hrl, hrf⟩ := C04.appendLabels_ok_of_fits root _ hdrop (by
    show root.encodedLen + _ + _ ≤ 255
    have : root.encodedLen = 1 := rfl
    omega)
  have hfl : fromLabels (n.labels.drop (n.labels.length - k)) = .ok r := by
    unfold fromLabels
    have hany : (n.labels.drop (n.labels.length - k)).any
        (fun l => !(labelFromRaw l).isOk) = false := by
      rw [List.any_eq_false]
      intro l hl
      have hraw : labelFromRaw l = .ok l := C04.labelFromRaw_of_len (hdrop l hl)
      simp [hraw, Outcome.isOk]
    rw [hany]
    simp only [Bool.false_eq_true, ↓reduceIte]
    split
    · omega
    · exact hr
  rw [hfl]
  have : r = ⟨n.labels.drop (n.labels.length - k), true⟩ := by
    cases r with
    | mk rl rf =>
      simp only [root] at hrl hrf
      simp at hrl
      simp [hrl, hrf]
  rw [this]

theorem extendAll_ok_of_fits (n : Name) (ls : List Bytes)
    (hfit : n.encodedLen + ls.length + (ls.map List.length).sum ≤ 255) :
    n.extendAll ls = .ok { n with labels := n.labels ++ ls } := by
  induction ls generalizing n with
  | nil => simp [extendAll]
  | cons l ls ih =>
    simp only [List.length_cons, List.map_cons, List.sum_cons] at hfit
    have hext : n.extendName l = .ok { n with labels := n.labels ++ [l] } := by
      unfold extendName; simp only [MAX_LENGTH]
      have hc : ¬ (n.encodedLen + l.length + 1 > 255) := by omega
      simp [hc]
    simp only [extendAll, hext, Outcome.bind_ok]
    rw [ih _ (by rw [C04.encodedLen_snoc]; omega)]
    simp

theorem weight_drop_le (ls : List Bytes) (j : Nat) :
    (ls.drop j).length + ((ls.drop j).map List.length).sum ≤ ls.length + (ls.map List.length).sum := by
  have := C04.sum_drop_le ls j
  have : (ls.drop j).length ≤ ls.length := by simp
  omega

theorem weight_drop_succ (ls : List Bytes) (j : Nat) (hj : 1 ≤ j) (hjl : j ≤ ls.length)
    (hls : ∀ l ∈ ls, 1 ≤ l.length) :
    (ls.drop j).length + ((ls.drop j).map List.length).sum + 2
      ≤ ls.length + (ls.map List.length).sum := by
  cases ls with
  | nil => simp at hjl; omega
  | cons l ls =>
    obtain ⟨j', rfl⟩ : ∃ j', j = j' + 1 := ⟨j - 1, by omega⟩
    simp only [List.drop_succ_cons, List.length_cons, List.map_cons, List.sum_cons]
    have := weight_drop_le ls j'
    have := hls l (by simp)
    omega

/-- **`determine_name`** computes, for every value of the Labels field, the owner name RFC 4035
§5.3.2 prescribes (canonical wire form): the lower-cased owner when `Labels` equals the owner's
label count (a leading `*` not counted), `*.` + the rightmost `Labels` labels when smaller, and an
error when larger.  It never reaches its `unwrap`s. -/
theorem determine_name_spec (name : Name) (k : Nat) (hb : C04.Bounded name) :
    (determineName name k).map (fun n => n.toLowercase.wire) =
      (match signedOwner name k with
       | some w => .ok w
       | none => .err) := by
  unfold determineName signedOwner
  simp only [numLabels_eq]
  by_cases h1 : ownerLabelCount name = k
  · have h1' : k = ownerLabelCount name := h1.symm
    simp only [h1, ↓reduceIte, Outcome.map, wire_toLowercase]
  · have h1' : ¬ k = ownerLabelCount name := fun h => h1 h.symm
    simp only [h1, h1', ↓reduceIte]
    by_cases h2 : k < ownerLabelCount name
    · simp only [h2, ↓reduceIte]
      have hle := ownerLabelCount_le name
      have hstar : fromLabels [[42]] = .ok ⟨[[42]], true⟩ := by decide
      rw [hstar]
      simp only [trimTo_eq hb k (by omega), Outcome.bind_ok, isRoot]
      by_cases hnil : name.labels.drop (name.labels.length - k) = []
      · simp only [hnil, List.isEmpty_nil, Bool.and_self, Bool.not_true, Bool.false_eq_true,
          ↓reduceIte, Outcome.map]
        have : (name.labels.map lowerLabel).drop ((name.labels.map lowerLabel).length - k) = [] := by
          rw [List.length_map, ← List.map_drop, hnil]; rfl
        rw [this]; rfl
      · have hne : (name.labels.drop (name.labels.length - k)).isEmpty = false := by
          cases hd : name.labels.drop (name.labels.length - k) with
          | nil => exact absurd hd hnil
          | cons _ _ => rfl
        simp only [hne, Bool.false_and, Bool.not_false, ↓reduceIte, appendName]
        have hw := weight_drop_succ name.labels (name.labels.length - k) (by omega) (by omega)
          (fun l hl => (hb.2 l hl).1)
        have h1 := hb.1
        unfold encodedLen dataLen at h1
        rw [extendAll_ok_of_fits]
        · simp only [Outcome.map, wire_toLowercase, List.map_cons, List.cons_append, List.nil_append]
          rw [List.length_map, ← List.map_drop]
          rfl
        · show (⟨[[42]], true⟩ : Name).encodedLen + _ + _ ≤ 255
          have : (⟨[[42]], true⟩ : Name).encodedLen = 3 := rfl
          omega
    · simp only [h2, ↓reduceIte, Outcome.map]

/-! ### the signed data -/

/-- canonical RDATA of every record of a list, `none` if one of them fails to encode -/
def canonList : List Record → Option (List Bytes)
  | [] => some []
  | r :: rs =>
    match canonBytes r.data, canonList rs with
    | some b, some bs => some (b :: bs)
    | _, _ => none

theorem emitRecords_eq (w : Bytes) (cls : Nat) (i : SigInput) (l : List Record) :
    emitRecords w cls i l = (canonList l).map (fun rds => (rds.map (emitRR w cls i)).flatten) := by
  induction l with
  | nil => rfl
  | cons r rs ih =>
    simp only [emitRecords, canonList, ih]
    cases canonBytes r.data <;> cases canonList rs <;> simp

theorem canonicalRdatas_eq (l : List Record) : canonicalRdatas (l.map (·.data)) = canonList l := by
  induction l with
  | nil => rfl
  | cons r rs ih =>
    simp only [List.map_cons, canonicalRdatas, canonList, ih, canonBytes_eq_spec]
    cases canonicalRdata r.data <;> cases canonList rs <;> rfl

theorem canonList_of_all (l : List Record) (c : Record → Bytes)
    (h : ∀ r ∈ l, canonBytes r.data = some (c r)) : canonList l = some (l.map c) := by
  induction l with
  | nil => rfl
  | cons r rs ih =>
    simp only [canonList, h r (by simp), ih (fun x hx => h x (by simp [hx])), List.map_cons]

theorem canonList_none_of_mem (l : List Record) (r : Record) (hr : r ∈ l)
    (h : canonBytes r.data = none) : canonList l = none := by
  induction l with
  | nil => simp at hr
  | cons x xs ih =>
    rcases List.mem_cons.1 hr with rfl | hr
    · simp [canonList, h]
    · simp only [canonList, ih hr]
      cases canonBytes x.data <;> rfl

theorem insert_map (le : Record → Record → Bool) (c : Record → Bytes) (a : Record) (s : List Record)
    (h : ∀ y ∈ s, le a y = (compare (c a) (c y) != .gt) ∧ c a ≠ c y) :
    (insertStable le a s).map c = insertCanon (c a) (s.map c) := by
  induction s with
  | nil => rfl
  | cons y ys ih =>
    obtain ⟨hle, hne⟩ := h y (by simp)
    have hneq : compare (c a) (c y) ≠ .eq := fun h' => hne (Std.compare_eq_iff_eq.1 h')
    simp only [insertStable, List.map_cons, insertCanon, hle]
    cases hc : compare (c a) (c y) with
    | lt => simp
    | eq => exact absurd hc hneq
    | gt =>
      simp only [bne_self_eq_false, Bool.false_eq_true, ↓reduceIte, List.map_cons]
      rw [ih (fun z hz => h z (by simp [hz]))]

/-- Sorting records by a key that orders them like their canonical RDATA, when no two canonical
RDATA coincide, yields the spec's canonical sequence. -/
theorem sort_map (le : Record → Record → Bool) (c : Record → Bytes) (l : List Record)
    (h : ∀ a ∈ l, ∀ b ∈ l, le a b = (compare (c a) (c b) != .gt))
    (hnd : (l.map c).Pairwise (· ≠ ·)) :
    (sortStable le l).map c = sortDistinct (l.map c) := by
  induction l with
  | nil => rfl
  | cons a l ih =>
    have h1 : sortStable le (a :: l) = insertStable le a (sortStable le l) := rfl
    have h2 : sortDistinct ((a :: l).map c) = insertCanon (c a) (sortDistinct (l.map c)) := rfl
    rw [List.map_cons, List.pairwise_cons] at hnd
    rw [h1, h2, insert_map, ih (fun x hx y hy => h x (by simp [hx]) y (by simp [hy])) hnd.2]
    intro y hy
    rw [mem_sortStable] at hy
    exact ⟨h a (by simp) y (by simp [hy]), hnd.1 (c y) (List.mem_map_of_mem hy)⟩

theorem mem_collect {name : Name} {cls : Nat} {i : SigInput} {records : List Record} {r : Record}
    (h : r ∈ collect name cls i records) :
    r.cls = cls ∧ r.rtype = i.typeCovered ∧ Name.eq name r.name = true := by
  unfold collect at h
  rw [List.mem_filter] at h
  simp only [Bool.and_eq_true, beq_iff_eq] at h
  exact ⟨h.2.1.1.symm, h.2.1.2.symm, h.2.2⟩

/-- On the collected records `impl Ord for Record` reduces to TTL, then the `to_bytes()` key. -/
theorem recordCmp_collect {name : Name} {cls : Nat} {i : SigInput} {records : List Record}
    {a b : Record} (ha : a ∈ collect name cls i records) (hb : b ∈ collect name cls i records) :
    recordCmp a b =
      (match compare a.ttl b.ttl with
       | .eq => compare (toBytes a.data) (toBytes b.data)
       | o => o) := by
  obtain ⟨hac, hat, han⟩ := mem_collect ha
  obtain ⟨hbc, hbt, hbn⟩ := mem_collect hb
  have hname : Name.cmp a.name b.name = .eq := by
    rw [C04.cmp_eq_iff, C04.eq_iff]
    have h1 := (C04.eq_iff _ _).1 han
    have h2 := (C04.eq_iff _ _).1 hbn
    exact ⟨h1.1.symm.trans h2.1, h1.2.symm.trans h2.2⟩
  unfold recordCmp rdataCmp
  simp only [hname, hac, hbc, hat, hbt, Std.ReflCmp.compare_self]
  cases compare a.ttl b.ttl <;> rfl

theorem recordLe_collect {name : Name} {cls : Nat} {i : SigInput} {records : List Record}
    {a b : Record} (ha : a ∈ collect name cls i records) (hb : b ∈ collect name cls i records)
    (httl : a.ttl = b.ttl) :
    recordLe a b = (compare (toBytes a.data) (toBytes b.data) != .gt) := by
  unfold recordLe
  rw [recordCmp_collect ha hb, httl]
  simp

theorem sigInputEmit_eq (i : SigInput) : sigInputEmit i = rrsigRdataPrefix i := by
  simp [sigInputEmit, rrsigRdataPrefix]

theorem emitRR_eq (w : Bytes) (cls : Nat) (i : SigInput) :
    emitRR w cls i = canonicalRR w i.typeCovered cls i.originalTtl := rfl

/-- What the property demands of `TBS::from_input`: the RFC 4035 §5.3.2 signed data of the RRset
`records` restricted to (owner `name` up to ASCII case, class, type covered); an error when the RRSIG
must not be used, when some RDATA has no wire form, or when the signed data exceeds the 65 535-octet
encoder buffer. -/
def expected (name : Name) (cls : Nat) (i : SigInput) (records : List Record) : Outcome Bytes :=
  match signedData i name cls ((collect name cls i records).map (·.data)) with
  | some b => if b.length > MAX_BUF then .err else .ok b
  | none => .err

/-- The general form of the partial theorem: exactly what the proof needs of the RRset.
`c r` is the canonical RDATA of `r`; the `to_bytes()` sort keys must order the collected records as
their canonical RDATA do, the TTLs must agree, and no two canonical RDATA may coincide. -/
theorem tbs_eq_spec_of_order (name : Name) (cls : Nat) (i : SigInput) (records : List Record)
    (hb : C04.Bounded name) (c : Record → Bytes)
    (henc : ∀ r ∈ collect name cls i records, canonBytes r.data = some (c r))
    (hord : ∀ a ∈ collect name cls i records, ∀ b ∈ collect name cls i records,
      compare (toBytes a.data) (toBytes b.data) = compare (c a) (c b))
    (httl : ∀ a ∈ collect name cls i records, ∀ b ∈ collect name cls i records, a.ttl = b.ttl)
    (hnd : ((collect name cls i records).map c).Pairwise (· ≠ ·)) :
    tbsImpl name cls i records = expected name cls i records := by
  have hsort : (sortStable recordLe (collect name cls i records)).map c
      = sortDistinct ((collect name cls i records).map c) :=
    sort_map recordLe c _ (fun a ha b hb' => by
      rw [recordLe_collect ha hb' (httl a ha b hb'), hord a ha b hb']) hnd
  have hcl : canonList (sortStable recordLe (collect name cls i records))
      = some (sortDistinct ((collect name cls i records).map c)) := by
    rw [canonList_of_all _ c (fun r hr => henc r ((mem_sortStable _ _ _).1 hr)), hsort]
  have hdn := determine_name_spec name i.numLabels hb
  unfold tbsImpl expected signedData
  simp only [emitRecords_eq, hcl, canonicalRdatas_eq, canonList_of_all _ c henc, Option.map_some,
    sigInputEmit_eq, emitRR_eq]
  cases hd : determineName name i.numLabels with
  | ok n =>
    rw [hd] at hdn
    cases hs : signedOwner name i.numLabels with
    | none => rw [hs] at hdn; simp [Outcome.map] at hdn
    | some w =>
      rw [hs] at hdn
      simp only [Outcome.map, Outcome.ok.injEq] at hdn
      simp only [hdn]
  | err =>
    rw [hd] at hdn
    cases hs : signedOwner name i.numLabels with
    | none => rfl
    | some w => rw [hs] at hdn; simp [Outcome.map] at hdn
  | panic s =>
    rw [hd] at hdn
    cases hs : signedOwner name i.numLabels <;> rw [hs] at hdn <;> simp [Outcome.map] at hdn

/-! ### the three decidable hypotheses (the classes the harness computes) -/

theorem sameTtl_spec {l : List Record} (h : sameTtl l = true) :
    ∀ a ∈ l, ∀ b ∈ l, a.ttl = b.ttl := by
  cases l with
  | nil => intro a ha; simp at ha
  | cons r rs =>
    simp only [sameTtl, List.all_eq_true, beq_iff_eq] at h
    have key : ∀ a ∈ r :: rs, a.ttl = r.ttl := by
      intro a ha
      rcases List.mem_cons.1 ha with rfl | ha
      · rfl
      · exact h a ha
    intro a ha b hb
    rw [key a ha, key b hb]

theorem rdataCaseCanonical_spec {l : List Record} (h : rdataCaseCanonical l = true) :
    ∀ r ∈ l, canonBytes r.data = some (toBytes r.data) := by
  simp only [rdataCaseCanonical, List.all_eq_true, beq_iff_eq] at h
  exact h

theorem hasDup_spec {l : List Record} (c : Record → Bytes)
    (henc : ∀ r ∈ l, canonBytes r.data = some (c r)) (h : hasDup l = false) :
    (l.map c).Pairwise (· ≠ ·) := by
  induction l with
  | nil => simp
  | cons r rs ih =>
    simp only [hasDup, Bool.or_eq_false_iff, List.any_eq_false, beq_iff_eq] at h
    rw [List.map_cons, List.pairwise_cons]
    refine ⟨?_, ih (fun x hx => henc x (by simp [hx])) h.2⟩
    intro b hb
    obtain ⟨s, hs, rfl⟩ := List.mem_map.1 hb
    intro heq
    apply h.1 s hs
    rw [henc s (by simp [hs]), henc r (by simp), heq]

/-
FULL STATEMENT (what the property says; the current code does **not** satisfy it — see the three
counter-examples below, each confirmed on the real `TBS::from_input` by the harness):

  theorem tbs_eq_spec (name cls i records) (hb : C04.Bounded name) :
      tbsImpl name cls i records = expected name cls i records
-/

/-- **Signed data, partial.**  For every owner, class, RRSIG parameter tuple and record list (any
order, any noise records, any owner letter case): if the collected RRset has no two records with the
same canonical RDATA (`hasDup = false`), all its TTLs agree (`sameTtl`) and every `to_bytes()` sort
key is already the canonical RDATA (`rdataCaseCanonical`: embedded names lower-case, nothing
compressed), then `TBS::from_input` returns exactly the RFC 4035 §5.3.2 signed data. -/
theorem tbs_eq_spec_partial (name : Name) (cls : Nat) (i : SigInput) (records : List Record)
    (hb : C04.Bounded name)
    (hnd : hasDup (collect name cls i records) = false)
    (httl : sameTtl (collect name cls i records) = true)
    (hcase : rdataCaseCanonical (collect name cls i records) = true) :
    tbsImpl name cls i records = expected name cls i records :=
  tbs_eq_spec_of_order name cls i records hb (fun r => toBytes r.data)
    (rdataCaseCanonical_spec hcase) (fun _ _ _ _ => rfl) (sameTtl_spec httl)
    (hasDup_spec _ (rdataCaseCanonical_spec hcase) hnd)

/-- RDATA without a wire form (a TXT string above 255 octets, an opaque type whose `emit` fails):
both the code and the spec refuse. -/
theorem tbs_unencodable (name : Name) (cls : Nat) (i : SigInput) (records : List Record)
    (r : Record) (hr : r ∈ collect name cls i records) (h : canonBytes r.data = none) :
    tbsImpl name cls i records ≠ .ok b ∧ expected name cls i records = .err := by
  have h1 : canonList (sortStable recordLe (collect name cls i records)) = none :=
    canonList_none_of_mem _ r ((mem_sortStable _ _ _).2 hr) h
  have h2 : canonList (collect name cls i records) = none := canonList_none_of_mem _ r hr h
  constructor
  · unfold tbsImpl
    simp only [emitRecords_eq, h1, Option.map_none]
    cases determineName name i.numLabels <;> simp
  · unfold expected signedData
    simp only [canonicalRdatas_eq, h2]
    cases signedOwner name i.numLabels <;> rfl

/-! ### concrete values: non-vacuity, and the counter-examples outside each hypothesis
(the replay inputs of the three findings; the same lines are in `corpus/C05/deviations.case`) -/

/-- `example.com.` -/
def exampleCom : Name := ⟨[[101, 120, 97, 109, 112, 108, 101], [99, 111, 109]], true⟩
/-- `ns.example.com.` -/
def nsExampleCom : Name := ⟨[[110, 115], [101, 120, 97, 109, 112, 108, 101], [99, 111, 109]], true⟩
/-- `ns.Example.net.` -/
def nsExampleNet : Name := ⟨[[110, 115], [69, 120, 97, 109, 112, 108, 101], [110, 101, 116]], true⟩
/-- `ns.example.net.` -/
def nsexampleNet : Name := ⟨[[110, 115], [101, 120, 97, 109, 112, 108, 101], [110, 101, 116]], true⟩
/-- RRSIG fields: algorithm 13, Labels 2, original TTL 3600, signer `Example.COM.` -/
def sigOf (tc : Nat) : SigInput :=
  ⟨tc, 13, 2, 3600, 1700003600, 1700000000, 12345, ⟨[[69, 120, 97, 109, 112, 108, 101], [67, 79, 77]], true⟩⟩

def nsRec (n : Name) : Record := ⟨exampleCom, 2, 1, 3600, .ns n⟩
def aRec (ttl : Nat) (o : Bytes) : Record := ⟨exampleCom, 1, 1, ttl, .a o⟩

/-- the hypotheses of `tbs_eq_spec_partial` are satisfiable by an RRset whose input order is not the
canonical one (so the sort does work), and the theorem then gives the equality -/
example :
    C04.Bounded exampleCom ∧
    hasDup (collect exampleCom 1 (sigOf 2) [nsRec nsexampleNet, nsRec nsExampleCom]) = false ∧
    sameTtl (collect exampleCom 1 (sigOf 2) [nsRec nsexampleNet, nsRec nsExampleCom]) = true ∧
    rdataCaseCanonical (collect exampleCom 1 (sigOf 2) [nsRec nsexampleNet, nsRec nsExampleCom]) = true ∧
    sortStable recordLe [nsRec nsexampleNet, nsRec nsExampleCom] = [nsRec nsExampleCom, nsRec nsexampleNet] ∧
    (tbsImpl exampleCom 1 (sigOf 2) [nsRec nsexampleNet, nsRec nsExampleCom]).isOk = true := by
  decide

/-- **Deviation 1 (`tbs-order-noncanonical-rdata-case`).**  NS RRset `{ns.Example.net., ns.example.com.}`:
the sort key keeps the letter case, `E` (0x45) sorts before `e` (0x65), so the `net` record is
signed first although its canonical RDATA sorts after the `com` record's. -/
theorem counterexample_rdata_case :
    hasDup (collect exampleCom 1 (sigOf 2) [nsRec nsExampleNet, nsRec nsExampleCom]) = false ∧
    sameTtl (collect exampleCom 1 (sigOf 2) [nsRec nsExampleNet, nsRec nsExampleCom]) = true ∧
    rdataCaseCanonical (collect exampleCom 1 (sigOf 2) [nsRec nsExampleNet, nsRec nsExampleCom]) = false ∧
    tbsImpl exampleCom 1 (sigOf 2) [nsRec nsExampleNet, nsRec nsExampleCom]
      ≠ expected exampleCom 1 (sigOf 2) [nsRec nsExampleNet, nsRec nsExampleCom] := by
  decide

/-- **Deviation 2 (`tbs-duplicate-rr-kept`).**  A record presented twice is signed twice
(RFC 4034 §6.3: all but one of the duplicates MUST be removed). -/
theorem counterexample_duplicate :
    hasDup (collect exampleCom 1 (sigOf 2) [nsRec nsExampleCom, nsRec nsExampleCom]) = true ∧
    sameTtl (collect exampleCom 1 (sigOf 2) [nsRec nsExampleCom, nsRec nsExampleCom]) = true ∧
    rdataCaseCanonical (collect exampleCom 1 (sigOf 2) [nsRec nsExampleCom, nsRec nsExampleCom]) = true ∧
    tbsImpl exampleCom 1 (sigOf 2) [nsRec nsExampleCom, nsRec nsExampleCom]
      ≠ expected exampleCom 1 (sigOf 2) [nsRec nsExampleCom, nsRec nsExampleCom] := by
  decide

/-- **Deviation 3 (`tbs-order-ttl-before-rdata`).**  A RRset `{10.0.0.2 (TTL 300), 10.0.0.9 (TTL 60)}`:
`impl Ord for Record` looks at the TTL before the RDATA, so `10.0.0.9` is signed first. -/
theorem counterexample_ttl :
    hasDup (collect exampleCom 1 (sigOf 1) [aRec 300 [10, 0, 0, 2], aRec 60 [10, 0, 0, 9]]) = false ∧
    sameTtl (collect exampleCom 1 (sigOf 1) [aRec 300 [10, 0, 0, 2], aRec 60 [10, 0, 0, 9]]) = false ∧
    rdataCaseCanonical (collect exampleCom 1 (sigOf 1) [aRec 300 [10, 0, 0, 2], aRec 60 [10, 0, 0, 9]]) = true ∧
    tbsImpl exampleCom 1 (sigOf 1) [aRec 300 [10, 0, 0, 2], aRec 60 [10, 0, 0, 9]]
      ≠ expected exampleCom 1 (sigOf 1) [aRec 300 [10, 0, 0, 2], aRec 60 [10, 0, 0, 9]] := by
  decide

/-- `determine_name_spec` on concrete values: `*.example.com.` with Labels 2 keeps the owner,
`ns.example.com.` with Labels 1 becomes `*.com.`, Labels 4 is refused. -/
example :
    (determineName ⟨[[42], [101, 120], [99, 111, 109]], true⟩ 2).map (·.toLowercase.wire)
      = .ok [1, 42, 2, 101, 120, 3, 99, 111, 109, 0] ∧
    (determineName nsExampleCom 1).map (·.toLowercase.wire) = .ok [1, 42, 3, 99, 111, 109, 0] ∧
    determineName nsExampleCom 4 = .err := by
  decide

end HickoryVerif.C05
