/-
C05 — RRset signed data equals the RFC 4034/4035 canonical form.
Property theorems about `Model/Tbs.lean` (`tbsImpl`, the model of `TBS::new` as it is since the
repair /repo 628570a) against `Spec/Rfc4034.lean`.  The regression theorems about the pre-repair
model `tbsPreFix` are in `Proofs/C05PreFix.lean`.
-/
import HickoryVerif.Model.Tbs
import HickoryVerif.Spec.Rfc4034
import HickoryVerif.Proofs.C04
import HickoryVerif.Proofs.C04Bounds

namespace HickoryVerif.C05
open HickoryVerif HickoryVerif.Name HickoryVerif.Tbs HickoryVerif.Spec

/-! ### canonical RDATA: `emit` under `canonical_form = true` is the RFC 4034 §6.2 form -/

theorem emitStrings_snd (ss : List Bytes) :
    (emitStrings ss).2 = ss.all (fun s => decide (s.length ≤ 255)) := by
  induction ss with
  | nil => rfl
  | cons s ss ih =>
    simp only [emitStrings, List.all_cons]
    by_cases h : s.length > 255
    · simp [h]; omega
    · simp only [h, ↓reduceIte, ih]
      have : decide (s.length ≤ 255) = true := by simp; omega
      simp [this]

theorem emitStrings_fst (ss : List Bytes) (h : ss.all (fun s => decide (s.length ≤ 255)) = true) :
    (emitStrings ss).1 = (ss.map fun s => s.length :: s).flatten := by
  induction ss with
  | nil => rfl
  | cons s ss ih =>
    simp only [List.all_cons, Bool.and_eq_true, decide_eq_true_eq] at h
    have hs : ¬ s.length > 255 := by omega
    simp only [emitStrings, hs, ↓reduceIte, List.map_cons, List.flatten_cons, ih h.2]

/-- **Per-type canonical RDATA.**  What `RData::emit` writes under `canonical_form = true` is the
RFC 4034 §6.2 canonical RDATA (names uncompressed and lower-cased for NS, CNAME, PTR, MX, SOA, SRV;
wire RDATA otherwise). -/
theorem canonBytes_eq_spec (d : RData) : canonBytes d = canonicalRdata d := by
  cases d <;> simp only [canonBytes, canonicalRdata]
  case txt ss =>
    rw [emitStrings_snd]
    by_cases h : ss.all (fun s => decide (s.length ≤ 255)) = true
    · simp only [h, ↓reduceIte, emitStrings_fst ss h]
    · simp [h]

/-! ### the stable sort -/

theorem mem_insertStable {α} (le : α → α → Bool) (x y : α) (l : List α) :
    y ∈ insertStable le x l ↔ y = x ∨ y ∈ l := by
  induction l with
  | nil => simp [insertStable]
  | cons z zs ih =>
    simp only [insertStable]
    split
    · simp
    · simp only [List.mem_cons, ih]
      constructor
      · rintro (h | h | h) <;> simp [h]
      · rintro (h | h | h) <;> simp [h]

theorem mem_sortStable {α} (le : α → α → Bool) (y : α) (l : List α) :
    y ∈ sortStable le l ↔ y ∈ l := by
  induction l with
  | nil => simp [sortStable]
  | cons x xs ih =>
    have : sortStable le (x :: xs) = insertStable le x (sortStable le xs) := rfl
    rw [this, mem_insertStable, ih]; simp

theorem insertStable_perm {α} (le : α → α → Bool) (x : α) (l : List α) :
    (insertStable le x l).Perm (x :: l) := by
  induction l with
  | nil => exact List.Perm.refl _
  | cons z zs ih =>
    simp only [insertStable]
    split
    · exact List.Perm.refl _
    · exact (List.Perm.cons z ih).trans (List.Perm.swap x z zs)

/-- the model's `sort` returns a permutation of its input … -/
theorem sortStable_perm {α} (le : α → α → Bool) (l : List α) : (sortStable le l).Perm l := by
  induction l with
  | nil => exact List.Perm.refl _
  | cons x xs ih =>
    have : sortStable le (x :: xs) = insertStable le x (sortStable le xs) := rfl
    rw [this]
    exact (insertStable_perm le x _).trans (List.Perm.cons x ih)

theorem insertStable_sorted {α} (le : α → α → Bool) (htot : ∀ a b, le a b = false → le b a = true)
    (htrans : ∀ a b c, le a b = true → le b c = true → le a c = true) (x : α) (l : List α)
    (hl : l.Pairwise (fun a b => le a b = true)) :
    (insertStable le x l).Pairwise (fun a b => le a b = true) := by
  induction l with
  | nil => simp [insertStable]
  | cons z zs ih =>
    simp only [insertStable]
    rw [List.pairwise_cons] at hl
    split
    · next h =>
      rw [List.pairwise_cons]
      refine ⟨?_, List.pairwise_cons.2 hl⟩
      intro a ha
      rcases List.mem_cons.1 ha with rfl | ha
      · exact h
      · exact htrans _ _ _ h (hl.1 a ha)
    · next h =>
      rw [List.pairwise_cons]
      refine ⟨?_, ih hl.2⟩
      intro a ha
      rcases (mem_insertStable le x a zs).1 ha with rfl | ha
      · exact htot _ _ (by simpa using h)
      · exact hl.1 a ha

/-- … that is sorted, for every total transitive `le` (so it is *the* stable sort). -/
theorem sortStable_sorted {α} (le : α → α → Bool) (htot : ∀ a b, le a b = false → le b a = true)
    (htrans : ∀ a b c, le a b = true → le b c = true → le a c = true) (l : List α) :
    (sortStable le l).Pairwise (fun a b => le a b = true) := by
  induction l with
  | nil => simp [sortStable]
  | cons x xs ih =>
    have : sortStable le (x :: xs) = insertStable le x (sortStable le xs) := rfl
    rw [this]
    exact insertStable_sorted le htot htrans x _ ih

/-! ### the spec's `sortDistinct` is the strictly increasing list of the distinct elements -/

theorem mem_insertCanon (x y : Bytes) (l : List Bytes) :
    y ∈ insertCanon x l ↔ y = x ∨ y ∈ l := by
  induction l with
  | nil => simp [insertCanon]
  | cons z zs ih =>
    simp only [insertCanon]
    split
    · simp
    · next h =>
      have : x = z := Std.compare_eq_iff_eq.1 h
      subst this; simp
    · simp only [List.mem_cons, ih]
      constructor
      · rintro (h | h | h) <;> simp [h]
      · rintro (h | h | h) <;> simp [h]

theorem mem_sortDistinct (y : Bytes) (l : List Bytes) : y ∈ sortDistinct l ↔ y ∈ l := by
  induction l with
  | nil => simp [sortDistinct]
  | cons x xs ih =>
    have : sortDistinct (x :: xs) = insertCanon x (sortDistinct xs) := rfl
    rw [this, mem_insertCanon, ih]; simp

theorem insertCanon_sorted (x : Bytes) (l : List Bytes)
    (hl : l.Pairwise (fun a b => compare a b = .lt)) :
    (insertCanon x l).Pairwise (fun a b => compare a b = .lt) := by
  induction l with
  | nil => simp [insertCanon]
  | cons z zs ih =>
    simp only [insertCanon]
    have hl' := List.pairwise_cons.1 hl
    split
    · next h =>
      rw [List.pairwise_cons]
      refine ⟨?_, hl⟩
      intro a ha
      rcases List.mem_cons.1 ha with rfl | ha
      · exact h
      · exact Std.TransCmp.lt_trans h (hl'.1 a ha)
    · exact hl
    · next h =>
      rw [List.pairwise_cons]
      refine ⟨?_, ih hl'.2⟩
      intro a ha
      rcases (mem_insertCanon x a zs).1 ha with rfl | ha
      · rw [Std.OrientedCmp.eq_swap (cmp := compare), h]; rfl
      · exact hl'.1 a ha

/-- `sortDistinct l` is strictly increasing in the lexicographic octet order (hence duplicate-free) -/
theorem sortDistinct_sorted (l : List Bytes) :
    (sortDistinct l).Pairwise (fun a b => compare a b = .lt) := by
  induction l with
  | nil => simp [sortDistinct]
  | cons x xs ih =>
    have : sortDistinct (x :: xs) = insertCanon x (sortDistinct xs) := rfl
    rw [this]; exact insertCanon_sorted x _ ih

/-! ### `determine_name` is RFC 4035 §5.3.2 "to calculate the name" -/

theorem numLabels_eq (n : Name) : n.numLabels = ownerLabelCount n := by
  unfold numLabels isWildcard ownerLabelCount
  cases n.labels with
  | nil => simp
  | cons l rest => by_cases h : l = [42] <;> simp [h]

theorem ownerLabelCount_le (n : Name) : ownerLabelCount n ≤ n.labels.length := by
  unfold ownerLabelCount
  cases n.labels with
  | nil => simp
  | cons l rest => by_cases h : l = [42] <;> simp [h]

theorem wire_toLowercase (n : Name) :
    n.toLowercase.wire = Name.wire ⟨n.labels.map lowerLabel, true⟩ := rfl

theorem trimTo_eq {n : Name} (hn : C04.Bounded n) (k : Nat) (hk : k ≤ n.labels.length) :
    n.trimTo k = .ok ⟨n.labels.drop (n.labels.length - k), true⟩ := by
  unfold trimTo
  have hk' : ¬ k > n.labels.length := by omega
  simp only [hk', ↓reduceIte]
  have hdrop : ∀ l ∈ n.labels.drop (n.labels.length - k), 1 ≤ l.length ∧ l.length ≤ 63 :=
    fun l hl => hn.2 l (List.mem_of_mem_drop hl)
  have hsum := C04.sum_drop_le n.labels (n.labels.length - k)
  have hlen : (n.labels.drop (n.labels.length - k)).length ≤ n.labels.length := by simp
  have h1 := hn.1
  unfold encodedLen dataLen at h1
  obtain ⟨r, hr, hrl, hrf⟩ := C04.appendLabels_ok_of_fits root _ hdrop (by
    show root.encodedLen + _ + _ ≤ 255
    have : root.encodedLen = 1 := rfl
    omega)
  have hfl : fromLabels (n.labels.drop (n.labels.length - k)) = .ok r := by
    unfold fromLabels
    have hany : (n.labels.drop (n.labels.length - k)).any
        (fun l => !(labelFromRaw l).isOk) = false := by
      rw [List.any_eq_false]
      intro l hl
      have hraw : labelFromRaw l = .ok l := C04.labelFromRaw_of_len (hdrop l hl)
      simp [hraw, Outcome.isOk]
    rw [hany]
    simp only [Bool.false_eq_true, ↓reduceIte]
    split
    · omega
    · exact hr
  rw [hfl]
  have : r = ⟨n.labels.drop (n.labels.length - k), true⟩ := by
    cases r with
    | mk rl rf =>
      simp only [root] at hrl hrf
      simp at hrl
      simp [hrl, hrf]
  rw [this]

theorem extendAll_ok_of_fits (n : Name) (ls : List Bytes)
    (hfit : n.encodedLen + ls.length + (ls.map List.length).sum ≤ 255) :
    n.extendAll ls = .ok { n with labels := n.labels ++ ls } := by
  induction ls generalizing n with
  | nil => simp [extendAll]
  | cons l ls ih =>
    simp only [List.length_cons, List.map_cons, List.sum_cons] at hfit
    have hext : n.extendName l = .ok { n with labels := n.labels ++ [l] } := by
      unfold extendName; simp only [MAX_LENGTH]
      have hc : ¬ (n.encodedLen + l.length + 1 > 255) := by omega
      simp [hc]
    simp only [extendAll, hext, Outcome.bind_ok]
    rw [ih _ (by rw [C04.encodedLen_snoc]; omega)]
    simp

theorem weight_drop_le (ls : List Bytes) (j : Nat) :
    (ls.drop j).length + ((ls.drop j).map List.length).sum ≤ ls.length + (ls.map List.length).sum := by
  have := C04.sum_drop_le ls j
  have : (ls.drop j).length ≤ ls.length := by simp
  omega

theorem weight_drop_succ (ls : List Bytes) (j : Nat) (hj : 1 ≤ j) (hjl : j ≤ ls.length)
    (hls : ∀ l ∈ ls, 1 ≤ l.length) :
    (ls.drop j).length + ((ls.drop j).map List.length).sum + 2
      ≤ ls.length + (ls.map List.length).sum := by
  cases ls with
  | nil => simp at hjl; omega
  | cons l ls =>
    obtain ⟨j', rfl⟩ : ∃ j', j = j' + 1 := ⟨j - 1, by omega⟩
    simp only [List.drop_succ_cons, List.length_cons, List.map_cons, List.sum_cons]
    have := weight_drop_le ls j'
    have := hls l (by simp)
    omega

/-- **`determine_name`** computes, for every value of the Labels field, the owner name RFC 4035
§5.3.2 prescribes (canonical wire form): the lower-cased owner when `Labels` equals the owner's
label count (a leading `*` not counted), `*.` + the rightmost `Labels` labels when smaller, and an
error when larger.  It never reaches its `unwrap`s. -/
theorem determine_name_spec (name : Name) (k : Nat) (hb : C04.Bounded name) :
    (determineName name k).map (fun n => n.toLowercase.wire) =
      (match signedOwner name k with
       | some w => .ok w
       | none => .err) := by
  unfold determineName signedOwner
  simp only [numLabels_eq]
  by_cases h1 : ownerLabelCount name = k
  · have h1' : k = ownerLabelCount name := h1.symm
    simp only [h1, ↓reduceIte, Outcome.map, wire_toLowercase]
  · have h1' : ¬ k = ownerLabelCount name := fun h => h1 h.symm
    simp only [h1, h1', ↓reduceIte]
    by_cases h2 : k < ownerLabelCount name
    · simp only [h2, ↓reduceIte]
      have hle := ownerLabelCount_le name
      have hstar : fromLabels [[42]] = .ok ⟨[[42]], true⟩ := by decide
      rw [hstar]
      simp only [trimTo_eq hb k (by omega), Outcome.bind_ok, isRoot]
      by_cases hnil : name.labels.drop (name.labels.length - k) = []
      · simp only [hnil, List.isEmpty_nil, Bool.and_self, Bool.not_true, Bool.false_eq_true,
          ↓reduceIte, Outcome.map]
        have : (name.labels.map lowerLabel).drop ((name.labels.map lowerLabel).length - k) = [] := by
          rw [List.length_map, ← List.map_drop, hnil]; rfl
        rw [this]; rfl
      · have hne : (name.labels.drop (name.labels.length - k)).isEmpty = false := by
          cases hd : name.labels.drop (name.labels.length - k) with
          | nil => exact absurd hd hnil
          | cons _ _ => rfl
        simp only [hne, Bool.false_and, Bool.not_false, ↓reduceIte, appendName]
        have hw := weight_drop_succ name.labels (name.labels.length - k) (by omega) (by omega)
          (fun l hl => (hb.2 l hl).1)
        have h1 := hb.1
        unfold encodedLen dataLen at h1
        rw [extendAll_ok_of_fits]
        · simp only [Outcome.map, wire_toLowercase, List.map_cons, List.cons_append, List.nil_append]
          rw [List.length_map, ← List.map_drop]
          rfl
        · show (⟨[[42]], true⟩ : Name).encodedLen + _ + _ ≤ 255
          have : (⟨[[42]], true⟩ : Name).encodedLen = 3 := rfl
          omega
    · simp only [h2, ↓reduceIte, Outcome.map]

/-! ### the signed data -/

/-- canonical RDATA of every record of a list, `none` if one of them fails to encode -/
def canonList : List Record → Option (List Bytes)
  | [] => some []
  | r :: rs =>
    match canonBytes r.data, canonList rs with
    | some b, some bs => some (b :: bs)
    | _, _ => none

theorem emitRecords_eq (w : Bytes) (cls : Nat) (i : SigInput) (l : List Record) :
    emitRecords w cls i l = (canonList l).map (fun rds => (rds.map (emitRR w cls i)).flatten) := by
  induction l with
  | nil => rfl
  | cons r rs ih =>
    simp only [emitRecords, canonList, ih]
    cases canonBytes r.data <;> cases canonList rs <;> simp

theorem canonicalRdatas_eq (l : List Record) : canonicalRdatas (l.map (·.data)) = canonList l := by
  induction l with
  | nil => rfl
  | cons r rs ih =>
    simp only [List.map_cons, canonicalRdatas, canonList, ih, canonBytes_eq_spec]
    cases canonicalRdata r.data <;> cases canonList rs <;> rfl

theorem canonList_of_all (l : List Record) (c : Record → Bytes)
    (h : ∀ r ∈ l, canonBytes r.data = some (c r)) : canonList l = some (l.map c) := by
  induction l with
  | nil => rfl
  | cons r rs ih =>
    simp only [canonList, h r (by simp), ih (fun x hx => h x (by simp [hx])), List.map_cons]

theorem canonList_none_of_mem (l : List Record) (r : Record) (hr : r ∈ l)
    (h : canonBytes r.data = none) : canonList l = none := by
  induction l with
  | nil => simp at hr
  | cons x xs ih =>
    rcases List.mem_cons.1 hr with rfl | hr
    · simp [canonList, h]
    · simp only [canonList, ih hr]
      cases canonBytes x.data <;> rfl

theorem mem_collect {name : Name} {cls : Nat} {i : SigInput} {records : List Record} {r : Record}
    (h : r ∈ collect name cls i records) :
    r.cls = cls ∧ r.rtype = i.typeCovered ∧ Name.eq name r.name = true := by
  unfold collect at h
  rw [List.mem_filter] at h
  simp only [Bool.and_eq_true, beq_iff_eq] at h
  exact ⟨h.2.1.1.symm, h.2.1.2.symm, h.2.2⟩

theorem sigInputEmit_eq (i : SigInput) : sigInputEmit i = rrsigRdataPrefix i := by
  simp [sigInputEmit, rrsigRdataPrefix]

theorem emitRR_eq (w : Bytes) (cls : Nat) (i : SigInput) :
    emitRR w cls i = canonicalRR w i.typeCovered cls i.originalTtl := rfl

/-- What the property demands of `TBS::from_input`: the RFC 4035 §5.3.2 signed data of the RRset
`records` restricted to (owner `name` up to ASCII case, class, type covered); an error when the RRSIG
must not be used, when some RDATA has no wire form, or when the signed data exceeds the 65 535-octet
encoder buffer. -/
def expected (name : Name) (cls : Nat) (i : SigInput) (records : List Record) : Outcome Bytes :=
  match signedData i name cls ((collect name cls i records).map (·.data)) with
  | some b => if b.length > MAX_BUF then .err else .ok b
  | none => .err

/-! ### `sort` + `dedup` of the canonical RDATA is the spec's canonical sequence -/

theorem canonAll_eq (l : List Record) : canonAll l = canonList l := by
  induction l with
  | nil => rfl
  | cons r rs ih =>
    simp only [canonAll, canonList, ih]
    cases canonBytes r.data <;> cases canonList rs <;> rfl

theorem head_dedupAdj (y : Bytes) (ys : List Bytes) : ∃ t, dedupAdj (y :: ys) = y :: t := by
  induction ys generalizing y with
  | nil => exact ⟨[], rfl⟩
  | cons z zs ih =>
    by_cases h : y = z
    · obtain ⟨t, ht⟩ := ih z
      exact ⟨t, by simp [dedupAdj, h, ht]⟩
    · exact ⟨dedupAdj (z :: zs), by simp [dedupAdj, h]⟩

theorem dedupAdj_cons_ne {y z : Bytes} (zs : List Bytes) (h : y ≠ z) :
    dedupAdj (y :: z :: zs) = y :: dedupAdj (z :: zs) := by simp [dedupAdj, h]

theorem dedupAdj_cons_eq (y : Bytes) (zs : List Bytes) :
    dedupAdj (y :: y :: zs) = dedupAdj (y :: zs) := by simp [dedupAdj]

theorem insertStable_head (x z : Bytes) (zs : List Bytes) :
    ∃ h t, insertStable bytesLe x (z :: zs) = h :: t ∧ (h = x ∨ h = z) := by
  simp only [insertStable]
  split
  · exact ⟨x, z :: zs, rfl, Or.inl rfl⟩
  · exact ⟨z, _, rfl, Or.inr rfl⟩

/-- `sort` then `dedup` commutes with the spec's insertion into a strictly sorted set -/
theorem dedup_insert (x : Bytes) (s : List Bytes) :
    dedupAdj (insertStable bytesLe x s) = insertCanon x (dedupAdj s) := by
  induction s with
  | nil => rfl
  | cons y ys ih =>
    cases hc : compare x y with
    | lt =>
      have hne : x ≠ y := fun h => by subst h; simp at hc
      obtain ⟨t, ht⟩ := head_dedupAdj y ys
      simp only [insertStable, bytesLe, hc]
      simp only [bne_iff_ne, ne_eq, reduceCtorEq, not_false_eq_true, ↓reduceIte]
      rw [dedupAdj_cons_ne _ hne, ht]
      simp [insertCanon, hc]
    | eq =>
      have he : x = y := Std.compare_eq_iff_eq.1 hc
      subst he
      obtain ⟨t, ht⟩ := head_dedupAdj x ys
      simp only [insertStable, bytesLe, hc]
      simp only [bne_iff_ne, ne_eq, reduceCtorEq, not_false_eq_true, ↓reduceIte]
      rw [dedupAdj_cons_eq, ht]
      simp [insertCanon]
    | gt =>
      have hne : y ≠ x := fun h => by subst h; simp at hc
      have hins : insertStable bytesLe x (y :: ys) = y :: insertStable bytesLe x ys := by
        simp [insertStable, bytesLe, hc]
      rw [hins]
      cases ys with
      | nil =>
        simp [insertStable, dedupAdj, hne, insertCanon, hc]
      | cons z zs =>
        by_cases hyz : y = z
        · subst hyz
          have hins2 : insertStable bytesLe x (y :: zs) = y :: insertStable bytesLe x zs := by
            simp [insertStable, bytesLe, hc]
          rw [dedupAdj_cons_eq y zs, ← ih, hins2, dedupAdj_cons_eq]
        · obtain ⟨h, t, ht, hh⟩ := insertStable_head x z zs
          have hyh : y ≠ h := by
            rcases hh with rfl | rfl
            · exact hne
            · exact hyz
          rw [ht, dedupAdj_cons_ne _ hyh, ← ht, ih, dedupAdj_cons_ne _ hyz]
          simp [insertCanon, hc]

theorem dedup_sort (l : List Bytes) : dedupAdj (sortStable bytesLe l) = sortDistinct l := by
  induction l with
  | nil => rfl
  | cons x xs ih =>
    have h1 : sortStable bytesLe (x :: xs) = insertStable bytesLe x (sortStable bytesLe xs) := rfl
    have h2 : sortDistinct (x :: xs) = insertCanon x (sortDistinct xs) := rfl
    rw [h1, h2, dedup_insert, ih]

/-- **Signed data (`tbs_eq_spec`, full strength).**  For every owner name, class, RRSIG parameter
tuple and record list — any type, any order, duplicates, mixed-case owner and RDATA names, differing
TTLs, foreign records — `TBS::from_input` returns exactly the RFC 4035 §5.3.2 signed data: the RRSIG
RDATA without signature, then each *distinct* RR in RFC 4034 §6.3 canonical order, owner lower-cased
and wildcard-reduced per the Labels field, original TTL, §6.2 canonical RDATA (or an error when the
RRSIG must not be used, an RDATA has no wire form, or the data exceeds the 65 535-octet buffer). -/
theorem tbs_eq_spec (name : Name) (cls : Nat) (i : SigInput) (records : List Record)
    (hb : C04.Bounded name) :
    tbsImpl name cls i records = expected name cls i records := by
  have hdn := determine_name_spec name i.numLabels hb
  unfold tbsImpl expected signedData
  simp only [canonAll_eq, canonicalRdatas_eq, sigInputEmit_eq, emitRR_eq]
  cases hcl : canonList (collect name cls i records) with
  | none => cases signedOwner name i.numLabels <;> rfl
  | some rds =>
    simp only [dedup_sort]
    cases hd : determineName name i.numLabels with
    | ok n =>
      rw [hd] at hdn
      cases hs : signedOwner name i.numLabels with
      | none => rw [hs] at hdn; simp [Outcome.map] at hdn
      | some w =>
        rw [hs] at hdn
        simp only [Outcome.map, Outcome.ok.injEq] at hdn
        simp only [hdn]
    | err =>
      rw [hd] at hdn
      cases hs : signedOwner name i.numLabels with
      | none => rfl
      | some w => rw [hs] at hdn; simp [Outcome.map] at hdn
    | panic s =>
      rw [hd] at hdn
      cases hs : signedOwner name i.numLabels <;> rw [hs] at hdn <;> simp [Outcome.map] at hdn

/-- RDATA without a wire form (a TXT string above 255 octets, an opaque type whose `emit` fails):
both the code and the spec refuse. -/
theorem tbs_unencodable (name : Name) (cls : Nat) (i : SigInput) (records : List Record)
    (r : Record) (hr : r ∈ collect name cls i records) (h : canonBytes r.data = none) :
    tbsImpl name cls i records = .err ∧ expected name cls i records = .err := by
  have h2 : canonList (collect name cls i records) = none := canonList_none_of_mem _ r hr h
  constructor
  · unfold tbsImpl
    simp only [canonAll_eq, h2]
  · unfold expected signedData
    simp only [canonicalRdatas_eq, h2]
    cases signedOwner name i.numLabels <;> rfl

/-! ### concrete values (also the inputs of the regression counter-examples in `C05PreFix`) -/

/-- `example.com.` -/
def exampleCom : Name := ⟨[[101, 120, 97, 109, 112, 108, 101], [99, 111, 109]], true⟩
/-- `ns.example.com.` -/
def nsExampleCom : Name := ⟨[[110, 115], [101, 120, 97, 109, 112, 108, 101], [99, 111, 109]], true⟩
/-- `ns.Example.net.` -/
def nsExampleNet : Name := ⟨[[110, 115], [69, 120, 97, 109, 112, 108, 101], [110, 101, 116]], true⟩
/-- `ns.example.net.` -/
def nsexampleNet : Name := ⟨[[110, 115], [101, 120, 97, 109, 112, 108, 101], [110, 101, 116]], true⟩
/-- RRSIG fields: algorithm 13, Labels 2, original TTL 3600, signer `Example.COM.` -/
def sigOf (tc : Nat) : SigInput :=
  ⟨tc, 13, 2, 3600, 1700003600, 1700000000, 12345, ⟨[[69, 120, 97, 109, 112, 108, 101], [67, 79, 77]], true⟩⟩

def nsRec (n : Name) : Record := ⟨exampleCom, 2, 1, 3600, .ns n⟩
def aRec (ttl : Nat) (o : Bytes) : Record := ⟨exampleCom, 1, 1, ttl, .a o⟩

/-- `tbs_eq_spec` on the three inputs on which the pre-repair code deviated (letter case in RDATA,
a duplicated record, differing TTLs): computed, not only implied -/
example :
    tbsImpl exampleCom 1 (sigOf 2) [nsRec nsExampleNet, nsRec nsExampleCom]
      = expected exampleCom 1 (sigOf 2) [nsRec nsExampleNet, nsRec nsExampleCom] ∧
    tbsImpl exampleCom 1 (sigOf 2) [nsRec nsExampleCom, nsRec nsExampleCom]
      = expected exampleCom 1 (sigOf 2) [nsRec nsExampleCom, nsRec nsExampleCom] ∧
    tbsImpl exampleCom 1 (sigOf 1) [aRec 300 [10, 0, 0, 2], aRec 60 [10, 0, 0, 9]]
      = expected exampleCom 1 (sigOf 1) [aRec 300 [10, 0, 0, 2], aRec 60 [10, 0, 0, 9]] ∧
    (tbsImpl exampleCom 1 (sigOf 2) [nsRec nsExampleNet, nsRec nsExampleCom]).isOk = true ∧
    tbsImpl exampleCom 1 (sigOf 2) [nsRec nsExampleNet, nsRec nsExampleCom]
      = tbsImpl exampleCom 1 (sigOf 2) [nsRec nsExampleCom, nsRec nsexampleNet, nsRec nsExampleNet] := by
  decide


/-- `determine_name_spec` on concrete values: `*.example.com.` with Labels 2 keeps the owner,
`ns.example.com.` with Labels 1 becomes `*.com.`, Labels 4 is refused. -/
example :
    (determineName ⟨[[42], [101, 120], [99, 111, 109]], true⟩ 2).map (·.toLowercase.wire)
      = .ok [1, 42, 2, 101, 120, 3, 99, 111, 109, 0] ∧
    (determineName nsExampleCom 1).map (·.toLowercase.wire) = .ok [1, 42, 3, 99, 111, 109, 0] ∧
    determineName nsExampleCom 4 = .err := by
  decide

end HickoryVerif.C05

