/-
C05 — regression theorems about `Tbs.tbsPreFix`, the model of `TBS::new` **before** the repair
/repo 628570a (it sorted with `impl Ord for Record` = TTL, then `RData::to_bytes()`, and kept
duplicates).  They document exactly where the old code met the spec and where it did not; the three
counter-example inputs are regression cases in `corpus/C05/deviations.case`.
-/
import HickoryVerif.Proofs.C05

namespace HickoryVerif.C05
open HickoryVerif HickoryVerif.Name HickoryVerif.Tbs HickoryVerif.Spec

theorem insert_map (le : Record → Record → Bool) (c : Record → Bytes) (a : Record) (s : List Record)
    (h : ∀ y ∈ s, le a y = (compare (c a) (c y) != .gt) ∧ c a ≠ c y) :
    (insertStable le a s).map c = insertCanon (c a) (s.map c) := by
  induction s with
  | nil => rfl
  | cons y ys ih =>
    obtain ⟨hle, hne⟩ := h y (by simp)
    have hneq : compare (c a) (c y) ≠ .eq := fun h' => hne (Std.compare_eq_iff_eq.1 h')
    simp only [insertStable, List.map_cons, insertCanon, hle]
    cases hc : compare (c a) (c y) with
    | lt => simp
    | eq => exact absurd hc hneq
    | gt =>
      simp only [bne_self_eq_false, Bool.false_eq_true, ↓reduceIte, List.map_cons]
      rw [ih (fun z hz => h z (by simp [hz]))]

/-- Sorting records by a key that orders them like their canonical RDATA, when no two canonical
RDATA coincide, yields the spec's canonical sequence. -/
theorem sort_map (le : Record → Record → Bool) (c : Record → Bytes) (l : List Record)
    (h : ∀ a ∈ l, ∀ b ∈ l, le a b = (compare (c a) (c b) != .gt))
    (hnd : (l.map c).Pairwise (· ≠ ·)) :
    (sortStable le l).map c = sortDistinct (l.map c) := by
  induction l with
  | nil => rfl
  | cons a l ih =>
    have h1 : sortStable le (a :: l) = insertStable le a (sortStable le l) := rfl
    have h2 : sortDistinct ((a :: l).map c) = insertCanon (c a) (sortDistinct (l.map c)) := rfl
    rw [List.map_cons, List.pairwise_cons] at hnd
    rw [h1, h2, insert_map, ih (fun x hx y hy => h x (by simp [hx]) y (by simp [hy])) hnd.2]
    intro y hy
    rw [mem_sortStable] at hy
    exact ⟨h a (by simp) y (by simp [hy]), hnd.1 (c y) (List.mem_map_of_mem hy)⟩

/-- On the collected records `impl Ord for Record` reduces to TTL, then the `to_bytes()` key. -/
theorem recordCmp_collect {name : Name} {cls : Nat} {i : SigInput} {records : List Record}
    {a b : Record} (ha : a ∈ collect name cls i records) (hb : b ∈ collect name cls i records) :
    recordCmp a b =
      (match compare a.ttl b.ttl with
       | .eq => compare (toBytes a.data) (toBytes b.data)
       | o => o) := by
  obtain ⟨hac, hat, han⟩ := mem_collect ha
  obtain ⟨hbc, hbt, hbn⟩ := mem_collect hb
  have hname : Name.cmp a.name b.name = .eq := by
    rw [C04.cmp_eq_iff, C04.eq_iff]
    have h1 := (C04.eq_iff _ _).1 han
    have h2 := (C04.eq_iff _ _).1 hbn
    exact ⟨h1.1.symm.trans h2.1, h1.2.symm.trans h2.2⟩
  unfold recordCmp rdataCmp
  simp only [hname, hac, hbc, hat, hbt, Std.ReflCmp.compare_self]
  cases compare a.ttl b.ttl <;> rfl

theorem recordLe_collect {name : Name} {cls : Nat} {i : SigInput} {records : List Record}
    {a b : Record} (ha : a ∈ collect name cls i records) (hb : b ∈ collect name cls i records)
    (httl : a.ttl = b.ttl) :
    recordLe a b = (compare (toBytes a.data) (toBytes b.data) != .gt) := by
  unfold recordLe
  rw [recordCmp_collect ha hb, httl]
  simp

/-- The general form of the partial theorem: exactly what the proof needs of the RRset.
`c r` is the canonical RDATA of `r`; the `to_bytes()` sort keys must order the collected records as
their canonical RDATA do, the TTLs must agree, and no two canonical RDATA may coincide. -/
theorem tbs_eq_spec_of_order (name : Name) (cls : Nat) (i : SigInput) (records : List Record)
    (hb : C04.Bounded name) (c : Record → Bytes)
    (henc : ∀ r ∈ collect name cls i records, canonBytes r.data = some (c r))
    (hord : ∀ a ∈ collect name cls i records, ∀ b ∈ collect name cls i records,
      compare (toBytes a.data) (toBytes b.data) = compare (c a) (c b))
    (httl : ∀ a ∈ collect name cls i records, ∀ b ∈ collect name cls i records, a.ttl = b.ttl)
    (hnd : ((collect name cls i records).map c).Pairwise (· ≠ ·)) :
    tbsPreFix name cls i records = expected name cls i records := by
  have hsort : (sortStable recordLe (collect name cls i records)).map c
      = sortDistinct ((collect name cls i records).map c) :=
    sort_map recordLe c _ (fun a ha b hb' => by
      rw [recordLe_collect ha hb' (httl a ha b hb'), hord a ha b hb']) hnd
  have hcl : canonList (sortStable recordLe (collect name cls i records))
      = some (sortDistinct ((collect name cls i records).map c)) := by
    rw [canonList_of_all _ c (fun r hr => henc r ((mem_sortStable _ _ _).1 hr)), hsort]
  have hdn := determine_name_spec name i.numLabels hb
  unfold tbsPreFix expected signedData
  simp only [emitRecords_eq, hcl, canonicalRdatas_eq, canonList_of_all _ c henc, Option.map_some,
    sigInputEmit_eq, emitRR_eq]
  cases hd : determineName name i.numLabels with
  | ok n =>
    rw [hd] at hdn
    cases hs : signedOwner name i.numLabels with
    | none => rw [hs] at hdn; simp [Outcome.map] at hdn
    | some w =>
      rw [hs] at hdn
      simp only [Outcome.map, Outcome.ok.injEq] at hdn
      simp only [hdn]
  | err =>
    rw [hd] at hdn
    cases hs : signedOwner name i.numLabels with
    | none => rfl
    | some w => rw [hs] at hdn; simp [Outcome.map] at hdn
  | panic s =>
    rw [hd] at hdn
    cases hs : signedOwner name i.numLabels <;> rw [hs] at hdn <;> simp [Outcome.map] at hdn

/-! ### the three decidable hypotheses (the classes the harness computes) -/

theorem sameTtl_spec {l : List Record} (h : sameTtl l = true) :
    ∀ a ∈ l, ∀ b ∈ l, a.ttl = b.ttl := by
  cases l with
  | nil => intro a ha; simp at ha
  | cons r rs =>
    simp only [sameTtl, List.all_eq_true, beq_iff_eq] at h
    have key : ∀ a ∈ r :: rs, a.ttl = r.ttl := by
      intro a ha
      rcases List.mem_cons.1 ha with rfl | ha
      · rfl
      · exact h a ha
    intro a ha b hb
    rw [key a ha, key b hb]

theorem rdataCaseCanonical_spec {l : List Record} (h : rdataCaseCanonical l = true) :
    ∀ r ∈ l, canonBytes r.data = some (toBytes r.data) := by
  simp only [rdataCaseCanonical, List.all_eq_true, beq_iff_eq] at h
  exact h

theorem hasDup_spec {l : List Record} (c : Record → Bytes)
    (henc : ∀ r ∈ l, canonBytes r.data = some (c r)) (h : hasDup l = false) :
    (l.map c).Pairwise (· ≠ ·) := by
  induction l with
  | nil => simp
  | cons r rs ih =>
    simp only [hasDup, Bool.or_eq_false_iff, List.any_eq_false, beq_iff_eq] at h
    rw [List.map_cons, List.pairwise_cons]
    refine ⟨?_, ih (fun x hx => henc x (by simp [hx])) h.2⟩
    intro b hb
    obtain ⟨s, hs, rfl⟩ := List.mem_map.1 hb
    intro heq
    apply h.1 s hs
    rw [henc s (by simp [hs]), henc r (by simp), heq]

/-
FULL STATEMENT (what the property says; the pre-repair code did **not** satisfy it — see the three
counter-examples below, each confirmed on the real pre-repair `TBS::from_input` by the harness; it is
now `C05.tbs_eq_spec`, proved for `tbsImpl`):

  theorem tbs_eq_spec (name cls i records) (hb : C04.Bounded name) :
      tbsPreFix name cls i records = expected name cls i records
-/

/-- **Signed data, partial.**  For every owner, class, RRSIG parameter tuple and record list (any
order, any noise records, any owner letter case): if the collected RRset has no two records with the
same canonical RDATA (`hasDup = false`), all its TTLs agree (`sameTtl`) and every `to_bytes()` sort
key is already the canonical RDATA (`rdataCaseCanonical`: embedded names lower-case, nothing
compressed), then `TBS::from_input` returns exactly the RFC 4035 §5.3.2 signed data. -/
theorem tbs_eq_spec_partial (name : Name) (cls : Nat) (i : SigInput) (records : List Record)
    (hb : C04.Bounded name)
    (hnd : hasDup (collect name cls i records) = false)
    (httl : sameTtl (collect name cls i records) = true)
    (hcase : rdataCaseCanonical (collect name cls i records) = true) :
    tbsPreFix name cls i records = expected name cls i records :=
  tbs_eq_spec_of_order name cls i records hb (fun r => toBytes r.data)
    (rdataCaseCanonical_spec hcase) (fun _ _ _ _ => rfl) (sameTtl_spec httl)
    (hasDup_spec _ (rdataCaseCanonical_spec hcase) hnd)

/-- RDATA without a wire form (a TXT string above 255 octets, an opaque type whose `emit` fails):
both the code and the spec refuse. -/
theorem tbsPreFix_unencodable (name : Name) (cls : Nat) (i : SigInput) (records : List Record)
    (r : Record) (hr : r ∈ collect name cls i records) (h : canonBytes r.data = none) :
    tbsPreFix name cls i records ≠ .ok b ∧ expected name cls i records = .err := by
  have h1 : canonList (sortStable recordLe (collect name cls i records)) = none :=
    canonList_none_of_mem _ r ((mem_sortStable _ _ _).2 hr) h
  have h2 : canonList (collect name cls i records) = none := canonList_none_of_mem _ r hr h
  constructor
  · unfold tbsPreFix
    simp only [emitRecords_eq, h1, Option.map_none]
    cases determineName name i.numLabels <;> simp
  · unfold expected signedData
    simp only [canonicalRdatas_eq, h2]
    cases signedOwner name i.numLabels <;> rfl

/-! ### concrete values: the counter-examples outside each hypothesis -/

/-- the hypotheses of `tbs_eq_spec_partial` are satisfiable by an RRset whose input order is not the
canonical one (so the sort does work), and the theorem then gives the equality -/
example :
    C04.Bounded exampleCom ∧
    hasDup (collect exampleCom 1 (sigOf 2) [nsRec nsexampleNet, nsRec nsExampleCom]) = false ∧
    sameTtl (collect exampleCom 1 (sigOf 2) [nsRec nsexampleNet, nsRec nsExampleCom]) = true ∧
    rdataCaseCanonical (collect exampleCom 1 (sigOf 2) [nsRec nsexampleNet, nsRec nsExampleCom]) = true ∧
    sortStable recordLe [nsRec nsexampleNet, nsRec nsExampleCom] = [nsRec nsExampleCom, nsRec nsexampleNet] ∧
    (tbsPreFix exampleCom 1 (sigOf 2) [nsRec nsexampleNet, nsRec nsExampleCom]).isOk = true := by
  decide

/-- **Deviation 1 (`tbs-order-noncanonical-rdata-case`).**  NS RRset `{ns.Example.net., ns.example.com.}`:
the sort key keeps the letter case, `E` (0x45) sorts before `e` (0x65), so the `net` record is
signed first although its canonical RDATA sorts after the `com` record's. -/
theorem counterexample_rdata_case :
    hasDup (collect exampleCom 1 (sigOf 2) [nsRec nsExampleNet, nsRec nsExampleCom]) = false ∧
    sameTtl (collect exampleCom 1 (sigOf 2) [nsRec nsExampleNet, nsRec nsExampleCom]) = true ∧
    rdataCaseCanonical (collect exampleCom 1 (sigOf 2) [nsRec nsExampleNet, nsRec nsExampleCom]) = false ∧
    tbsPreFix exampleCom 1 (sigOf 2) [nsRec nsExampleNet, nsRec nsExampleCom]
      ≠ expected exampleCom 1 (sigOf 2) [nsRec nsExampleNet, nsRec nsExampleCom] := by
  decide

/-- **Deviation 2 (`tbs-duplicate-rr-kept`).**  A record presented twice is signed twice
(RFC 4034 §6.3: all but one of the duplicates MUST be removed). -/
theorem counterexample_duplicate :
    hasDup (collect exampleCom 1 (sigOf 2) [nsRec nsExampleCom, nsRec nsExampleCom]) = true ∧
    sameTtl (collect exampleCom 1 (sigOf 2) [nsRec nsExampleCom, nsRec nsExampleCom]) = true ∧
    rdataCaseCanonical (collect exampleCom 1 (sigOf 2) [nsRec nsExampleCom, nsRec nsExampleCom]) = true ∧
    tbsPreFix exampleCom 1 (sigOf 2) [nsRec nsExampleCom, nsRec nsExampleCom]
      ≠ expected exampleCom 1 (sigOf 2) [nsRec nsExampleCom, nsRec nsExampleCom] := by
  decide

/-- **Deviation 3 (`tbs-order-ttl-before-rdata`).**  A RRset `{10.0.0.2 (TTL 300), 10.0.0.9 (TTL 60)}`:
`impl Ord for Record` looks at the TTL before the RDATA, so `10.0.0.9` is signed first. -/
theorem counterexample_ttl :
    hasDup (collect exampleCom 1 (sigOf 1) [aRec 300 [10, 0, 0, 2], aRec 60 [10, 0, 0, 9]]) = false ∧
    sameTtl (collect exampleCom 1 (sigOf 1) [aRec 300 [10, 0, 0, 2], aRec 60 [10, 0, 0, 9]]) = false ∧
    rdataCaseCanonical (collect exampleCom 1 (sigOf 1) [aRec 300 [10, 0, 0, 2], aRec 60 [10, 0, 0, 9]]) = true ∧
    tbsPreFix exampleCom 1 (sigOf 1) [aRec 300 [10, 0, 0, 2], aRec 60 [10, 0, 0, 9]]
      ≠ expected exampleCom 1 (sigOf 1) [aRec 300 [10, 0, 0, 2], aRec 60 [10, 0, 0, 9]] := by
  decide
end HickoryVerif.C05
