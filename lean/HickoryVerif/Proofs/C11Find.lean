/-
C11 (part 1) — `Catalog::find` returns the zone whose origin is the longest suffix of the name.
-/
import HickoryVerif.Model.ServerGate
import HickoryVerif.Proofs.C04
import HickoryVerif.Proofs.C04Bounds

namespace HickoryVerif.C11
open HickoryVerif HickoryVerif.Name HickoryVerif.ServerGate HickoryVerif.C04

/-! ### `LowerName == LowerName` (`eq_case`) is structural equality -/

theorem cmpRev_cs (l r : List Bytes) : cmpRev false l r = compare l r := by
  rw [cmpRev_eq_compareLex]
  have : cmpLabel false = compare := by funext a b; exact cmpLabel_cs a b
  rw [this]; rfl

theorem keyEq_iff (a b : Name) : keyEq a b = true ↔ a = b := by
  rcases a with ⟨al, af⟩; rcases b with ⟨bl, bf⟩
  unfold keyEq eqCase cmpWithF cmpLabels
  cases af <;> cases bf <;>
    simp [cmpRev_cs]

/-! ### `base_name` of a bounded absolute name drops the first label -/

theorem fromLabels_ok_of_bounded (ls : List Bytes)
    (hls : ∀ l ∈ ls, 1 ≤ l.length ∧ l.length ≤ 63)
    (hfit : 1 + ls.length + (ls.map List.length).sum ≤ 255) :
    fromLabels ls = .ok { labels := ls, fqdn := true } := by
  obtain ⟨r, hr, hrl, hrf⟩ := appendLabels_ok_of_fits root ls hls (by
    show root.encodedLen + _ + _ ≤ 255
    have : root.encodedLen = 1 := rfl
    omega)
  have hany : ls.any (fun l => !(labelFromRaw l).isOk) = false := by
    rw [List.any_eq_false]
    intro l hl
    have hraw : labelFromRaw l = .ok l := labelFromRaw_of_len (hls l hl)
    simp [hraw, Outcome.isOk]
  unfold fromLabels
  rw [hany]
  simp only [Bool.false_eq_true, ↓reduceIte]
  have : ¬ ls.length > 255 := by omega
  simp only [this, ↓reduceIte, hr]
  rcases r with ⟨rl, rf⟩
  simp only [root, List.nil_append] at hrl hrf
  subst hrl; subst hrf; rfl

theorem bounded_tail {l : Bytes} {t : List Bytes} {f : Bool}
    (hn : Bounded { labels := l :: t, fqdn := f }) : Bounded { labels := t, fqdn := true } := by
  obtain ⟨h1, h2⟩ := hn
  refine ⟨?_, fun x hx => h2 x (by simp [hx])⟩
  simp only [encodedLen, dataLen, List.length_cons, List.map_cons, List.sum_cons] at *
  omega

theorem baseName_cons {l : Bytes} {t : List Bytes} {f : Bool}
    (hn : Bounded { labels := l :: t, fqdn := f }) :
    baseName { labels := l :: t, fqdn := f } = .ok { labels := t, fqdn := true } := by
  have ht := bounded_tail hn
  have hfl := fromLabels_ok_of_bounded t ht.2 (by
    have := ht.1
    simp only [encodedLen, dataLen] at this
    omega)
  unfold baseName trimTo
  simp [hfl]

/-! ### `find` on a bounded absolute name is a walk down the label list -/

/-- the same search written by structural recursion on the labels of an absolute name -/
def findL (cat : Catalog) : List Bytes → Option Zone
  | [] => get cat { labels := [], fqdn := true }
  | l :: t =>
    match get cat { labels := l :: t, fqdn := true } with
    | some z => some z
    | none => findL cat t

theorem find_eq_findL (cat : Catalog) (ls : List Bytes) :
    Bounded { labels := ls, fqdn := true } →
      find cat { labels := ls, fqdn := true } = .ok (findL cat ls) := by
  induction ls with
  | nil =>
    intro _
    rw [find]
    cases h : get cat { labels := [], fqdn := true } <;> simp [findL, h, isRoot]
  | cons l t ih =>
    intro hn
    rw [find]
    cases h : get cat { labels := l :: t, fqdn := true }
    · simp only [findL, h]
      have hb := baseName_cons hn
      simp only [isRoot, List.isEmpty_cons, Bool.false_and, Bool.false_eq_true, ↓reduceIte, hb,
        List.length_cons, Nat.lt_add_one, ↓reduceDIte]
      exact ih (bounded_tail hn)
    · simp [findL, h]

/-- **`Catalog::find` never panics, errs or loops on a name that came off the wire.** -/
theorem find_total (cat : Catalog) (n : Name) (hn : Bounded n) (hf : n.fqdn = true) :
    find cat n = .ok (findL cat n.labels) := by
  rcases n with ⟨ls, f⟩
  cases hf
  exact find_eq_findL cat ls hn

/-! ### the longest-suffix characterisation -/

/-- What a `HashMap<LowerName, _>` filled by `upsert` guarantees, plus "origins are absolute". -/
structure CatalogWF (cat : Catalog) : Prop where
  /-- every origin is a fully qualified name -/
  fqdn : ∀ z ∈ cat, z.origin.fqdn = true
  /-- keys are `LowerName`s -/
  lower : ∀ z ∈ cat, z.origin.labels.map lowerLabel = z.origin.labels
  /-- keys are unique -/
  uniq : ∀ z ∈ cat, ∀ z' ∈ cat, z.origin = z'.origin → z = z'

theorem get_some {cat : Catalog} {n : Name} {z : Zone} (h : ServerGate.get cat n = some z) :
    z ∈ cat ∧ z.origin = n := by
  unfold ServerGate.get at h
  have h2 : keyEq z.origin n = true := List.find?_some (p := fun (z : Zone) => keyEq z.origin n) h
  exact ⟨List.mem_of_find?_eq_some h, (keyEq_iff _ _).1 h2⟩

theorem get_eq_some_iff {cat : Catalog} (hu : ∀ z ∈ cat, ∀ z' ∈ cat, z.origin = z'.origin → z = z')
    (n : Name) (z : Zone) : ServerGate.get cat n = some z ↔ z ∈ cat ∧ z.origin = n := by
  constructor
  · exact get_some
  · unfold ServerGate.get
    rintro ⟨hz, hn⟩
    cases h : cat.find? (fun z => keyEq z.origin n) with
    | none =>
      have := List.find?_eq_none.1 h z hz
      simp [(keyEq_iff _ _).2 hn] at this
    | some z₀ =>
      have h1 := List.mem_of_find?_eq_some h
      have h3 : keyEq z₀.origin n = true := List.find?_some (p := fun (z : Zone) => keyEq z.origin n) h
      have h2 := (keyEq_iff _ _).1 h3
      rw [hu z₀ h1 z hz (h2.trans hn.symm)]

theorem get_eq_none_iff (cat : Catalog) (n : Name) :
    ServerGate.get cat n = none ↔ ∀ z ∈ cat, z.origin ≠ n := by
  unfold ServerGate.get
  rw [List.find?_eq_none]
  constructor
  · intro h z hz he; exact h z hz ((keyEq_iff _ _).2 he)
  · intro h z hz hk; exact h z hz ((keyEq_iff _ _).1 hk)

theorem origin_eq_of_labels {z : Zone} {ls : List Bytes} (hf : z.origin.fqdn = true)
    (hl : z.origin.labels = ls) : z.origin = { labels := ls, fqdn := true } := by
  rcases z with ⟨i, ⟨ol, of⟩, hs⟩
  simp only at hf hl
  subst hf; subst hl; rfl

theorem findL_spec (cat : Catalog) (hfq : ∀ z ∈ cat, z.origin.fqdn = true)
    (hu : ∀ z ∈ cat, ∀ z' ∈ cat, z.origin = z'.origin → z = z') (ls : List Bytes) (z : Zone) :
    findL cat ls = some z ↔
      z ∈ cat ∧ z.origin.labels <:+ ls ∧
        ∀ z' ∈ cat, z'.origin.labels <:+ ls → z'.origin.labels.length ≤ z.origin.labels.length := by
  induction ls with
  | nil =>
    simp only [findL, get_eq_some_iff hu, List.suffix_nil]
    constructor
    · rintro ⟨hz, ho⟩
      refine ⟨hz, by rw [ho], fun z' _ h' => by rw [h']; exact Nat.zero_le _⟩
    · rintro ⟨hz, hl, _⟩
      exact ⟨hz, origin_eq_of_labels (hfq z hz) hl⟩
  | cons l t ih =>
    simp only [findL]
    cases h : get cat { labels := l :: t, fqdn := true } with
    | some z₀ =>
      obtain ⟨hz₀, ho₀⟩ := (get_eq_some_iff hu _ _).1 h
      simp only [Option.some.injEq]
      constructor
      · rintro rfl
        refine ⟨hz₀, by rw [ho₀]; exact List.suffix_refl _, fun z' _ h' => ?_⟩
        rw [ho₀]; exact h'.length_le
      · rintro ⟨hz, hs, hmax⟩
        have h1 := hmax z₀ hz₀ (by rw [ho₀]; exact List.suffix_refl _)
        rw [ho₀] at h1
        have heq : z.origin.labels = l :: t := hs.eq_of_length_le h1
        exact hu z₀ hz₀ z hz (ho₀.trans (origin_eq_of_labels (hfq z hz) heq).symm)
    | none =>
      have hne := (get_eq_none_iff _ _).1 h
      have hsuf : ∀ z' ∈ cat, (z'.origin.labels <:+ l :: t ↔ z'.origin.labels <:+ t) := by
        intro z' hz'
        rw [List.suffix_cons_iff]
        constructor
        · rintro (he | hs)
          · exact absurd (origin_eq_of_labels (hfq z' hz') he) (hne z' hz')
          · exact hs
        · exact Or.inr
      rw [ih]
      constructor
      · rintro ⟨hz, hs, hmax⟩
        exact ⟨hz, (hsuf z hz).2 hs, fun z' hz' h' => hmax z' hz' ((hsuf z' hz').1 h')⟩
      · rintro ⟨hz, hs, hmax⟩
        exact ⟨hz, (hsuf z hz).1 hs, fun z' hz' h' => hmax z' hz' ((hsuf z' hz').2 h')⟩

theorem findL_none (cat : Catalog) (hfq : ∀ z ∈ cat, z.origin.fqdn = true) (ls : List Bytes) :
    findL cat ls = none ↔ ∀ z ∈ cat, ¬ z.origin.labels <:+ ls := by
  induction ls with
  | nil =>
    simp only [findL, get_eq_none_iff, List.suffix_nil]
    constructor
    · intro h z hz hl; exact h z hz (origin_eq_of_labels (hfq z hz) hl)
    · intro h z hz ho; exact h z hz (by rw [ho])
  | cons l t ih =>
    simp only [findL]
    cases h : get cat { labels := l :: t, fqdn := true } with
    | some z₀ =>
      obtain ⟨hz₀, ho₀⟩ := get_some h
      constructor
      · intro h'; cases h'
      · intro h'
        exact absurd (by rw [ho₀]; exact List.suffix_refl _) (h' z₀ hz₀)
    | none =>
      have hne := (get_eq_none_iff _ _).1 h
      rw [ih]
      constructor
      · intro h' z hz hs
        rcases List.suffix_cons_iff.1 hs with he | hs'
        · exact hne z hz (origin_eq_of_labels (hfq z hz) he)
        · exact h' z hz hs'
      · intro h' z hz hs
        exact h' z hz (List.suffix_cons_iff.2 (Or.inr hs))

/-- `zone_of` is "the lower-cased labels are a suffix" -/
theorem zoneOf_iff (z n : Name) :
    zoneOf z n = true ↔ z.labels.map lowerLabel <:+ n.labels.map lowerLabel := by
  unfold zoneOf
  simp only [List.isPrefixOf_iff_prefix, List.map_reverse, List.reverse_prefix]

/-- **The zone that answers is the one whose origin is the longest suffix of the query name**:
for every catalog (absolute, unique `LowerName` keys) and every name off the wire, `find` returns
`z` exactly when `z` is configured, encloses the name, and no configured enclosing zone has a
longer origin. -/
theorem find_longest_suffix (cat : Catalog) (hc : CatalogWF cat) (q : Name) (hq : Bounded q)
    (hf : q.fqdn = true) (z : Zone) :
    find cat q.toLowercase = .ok (some z) ↔
      z ∈ cat ∧ zoneOf z.origin q = true ∧
        ∀ z' ∈ cat, zoneOf z'.origin q = true →
          z'.origin.labels.length ≤ z.origin.labels.length := by
  rw [find_total cat q.toLowercase (toLowercase_bounded hq) hf]
  simp only [Outcome.ok.injEq, findL_spec cat hc.fqdn hc.uniq, toLowercase, zoneOf_iff]
  constructor
  · rintro ⟨hz, hs, hmax⟩
    refine ⟨hz, by rw [hc.lower z hz]; exact hs, fun z' hz' h' => hmax z' hz' ?_⟩
    rw [hc.lower z' hz'] at h'; exact h'
  · rintro ⟨hz, hs, hmax⟩
    refine ⟨hz, by rw [hc.lower z hz] at hs; exact hs, fun z' hz' h' => hmax z' hz' ?_⟩
    rw [hc.lower z' hz']; exact h'

/-- … and it finds nothing exactly when no configured zone encloses the name. -/
theorem find_none_iff (cat : Catalog) (hc : CatalogWF cat) (q : Name) (hq : Bounded q)
    (hf : q.fqdn = true) :
    find cat q.toLowercase = .ok none ↔ ∀ z ∈ cat, zoneOf z.origin q = false := by
  rw [find_total cat q.toLowercase (toLowercase_bounded hq) hf]
  simp only [Outcome.ok.injEq, findL_none cat hc.fqdn, toLowercase]
  constructor
  · intro h z hz
    have := h z hz
    rw [← hc.lower z hz, ← zoneOf_iff] at this
    simpa using this
  · intro h z hz hs
    have := h z hz
    rw [← hc.lower z hz, ← zoneOf_iff] at hs
    simp [hs] at this

/-- A zone inserted under a relative origin is never found for a name off the wire (the key
comparison includes the fqdn flag, `zone_of` does not). -/
theorem find_ignores_relative_origin (cat : Catalog) (q : Name) (hq : Bounded q)
    (hf : q.fqdn = true) (z : Zone) (hz : z.origin.fqdn = false) :
    find cat q ≠ .ok (some z) := by
  rw [find_total cat q hq hf]
  intro h
  simp only [Outcome.ok.injEq] at h
  have : ∀ ls, findL cat ls = some z → False := by
    intro ls
    induction ls with
    | nil =>
      intro h
      have := (get_some (show ServerGate.get cat _ = some z from h)).2
      rw [this] at hz; cases hz
    | cons l t ih =>
      intro h
      simp only [findL] at h
      cases hg : get cat { labels := l :: t, fqdn := true } with
      | some z₀ =>
        rw [hg] at h
        simp only [Option.some.injEq] at h
        subst h
        have := (get_some hg).2
        rw [this] at hz; cases hz
      | none => rw [hg] at h; exact ih h
  exact this _ h

/-! ### `upsert` establishes the hypotheses: any catalog built by `upsert`s of absolute origins -/

theorem lowerByte_idem (b : Nat) : lowerByte (lowerByte b) = lowerByte b := by
  unfold lowerByte
  split <;> (try split) <;> omega

theorem lowerLabel_idem (ls : List Bytes) :
    (ls.map lowerLabel).map lowerLabel = ls.map lowerLabel := by
  simp only [List.map_map]
  apply List.map_congr_left
  intro l _
  simp only [Function.comp, lowerLabel, List.map_map]
  apply List.map_congr_left
  intro b _
  exact lowerByte_idem b

theorem catalogWF_nil : CatalogWF [] := ⟨by simp, by simp, by simp⟩

/-- **`Catalog::upsert` keeps the keys absolute (if the new origin is), lower-cased and unique.** -/
theorem upsert_wf (cat : Catalog) (hc : CatalogWF cat) (z : Zone) (hz : z.origin.fqdn = true) :
    CatalogWF (upsert cat z) := by
  unfold upsert
  extract_lets z'
  have hf' : z'.origin.fqdn = true := by simpa [z', toLowercase] using hz
  have hl' : z'.origin.labels.map lowerLabel = z'.origin.labels := by
    simp only [z', toLowercase]; exact lowerLabel_idem _
  clear_value z'
  split
  · -- replace the value of the existing key
    have hmem : ∀ a ∈ cat.map (fun y => if keyEq y.origin z'.origin = true then z' else y),
        a = z' ∨ (a ∈ cat ∧ a.origin ≠ z'.origin) := by
      intro a ha
      obtain ⟨y, hy, rfl⟩ := List.mem_map.1 ha
      by_cases hk : keyEq y.origin z'.origin = true
      · simp [hk]
      · simp only [hk, Bool.false_eq_true, ↓reduceIte]
        exact Or.inr ⟨hy, fun he => hk ((keyEq_iff _ _).2 he)⟩
    refine ⟨fun a ha => ?_, fun a ha => ?_, fun a ha b hb hab => ?_⟩
    · rcases hmem a ha with rfl | ⟨h, _⟩
      · exact hf'
      · exact hc.fqdn a h
    · rcases hmem a ha with rfl | ⟨h, _⟩
      · exact hl'
      · exact hc.lower a h
    · rcases hmem a ha with rfl | ⟨h1, hn1⟩ <;> rcases hmem b hb with rfl | ⟨h2, hn2⟩
      · rfl
      · exact absurd hab.symm hn2
      · exact absurd hab hn1
      · exact hc.uniq a h1 b h2 hab
  · -- a new key
    rename_i hany
    have hnew : ∀ y ∈ cat, y.origin ≠ z'.origin := by
      intro y hy he
      apply hany
      rw [List.any_eq_true]
      exact ⟨y, hy, (keyEq_iff _ _).2 he⟩
    refine ⟨fun a ha => ?_, fun a ha => ?_, fun a ha b hb hab => ?_⟩
    · rcases List.mem_append.1 ha with h | h
      · exact hc.fqdn a h
      · simp only [List.mem_singleton] at h; subst h; exact hf'
    · rcases List.mem_append.1 ha with h | h
      · exact hc.lower a h
      · simp only [List.mem_singleton] at h; subst h; exact hl'
    · rcases List.mem_append.1 ha with h1 | h1 <;> rcases List.mem_append.1 hb with h2 | h2
      · exact hc.uniq a h1 b h2 hab
      · simp only [List.mem_singleton] at h2; subst h2; exact absurd hab (hnew a h1)
      · simp only [List.mem_singleton] at h1; subst h1; exact absurd hab.symm (hnew b h2)
      · simp only [List.mem_singleton] at h1 h2; subst h1; subst h2; rfl

/-- every catalog configured by a sequence of `upsert`s of absolute origins is well-formed -/
theorem configured_wf (zs : List Zone) (hz : ∀ z ∈ zs, z.origin.fqdn = true) :
    CatalogWF (zs.foldl upsert []) := by
  suffices h : ∀ cat, CatalogWF cat → CatalogWF (zs.foldl upsert cat) from h [] catalogWF_nil
  induction zs with
  | nil => intro cat hc; exact hc
  | cons z rest ih =>
    intro cat hc
    exact ih (fun y hy => hz y (by simp [hy])) _ (upsert_wf cat hc z (hz z (by simp)))

/-! ### non-vacuity -/

private def exCom : Zone := { idx := 0, origin := ⟨[[99, 111, 109]], true⟩, handlers := [] }
private def exExampleCom : Zone :=
  { idx := 1, origin := ⟨[[101, 120], [99, 111, 109]], true⟩, handlers := [] }
private def exCat : Catalog := [exCom, exExampleCom]

example : CatalogWF exCat := ⟨by decide, by decide, by decide⟩
-- www.EX.com. is served by ex.com., not by com.
example : findL exCat (toLowercase ⟨[[119, 119, 119], [69, 88], [99, 111, 109]], true⟩).labels
    = some exExampleCom := by decide
example : findL exCat [[111, 114, 103]] = none := by decide
example : Bounded ⟨[[119, 119, 119], [69, 88], [99, 111, 109]], true⟩ := by decide

end HickoryVerif.C11
