/-
C02 / C03 — the message level, assembled (stage 2).

* `ModeKeeper` … : every emitter leaves `canonical_form` / `name_encoding` as they were, also when it
  fails (needed because `Rollback` does not restore them);
* `emitIterFrom_layout_any`, `section_any` : a section in any outcome — all records written, or cut
  with the failed record rolled back — leaves exactly the layouts of the records that were written;
* `emitMessage_reads` : for every message satisfying `MsgWF` and every size limit, if `Message::emit`
  succeeds then the C01 decoder model reads its output back, to the last octet, as the message
  truncated to the records that were written (`truncated m c`), with `TC = tc ∨ dropped`;
* `HickoryVerif.C02.decode_encode_partial` and `HickoryVerif.C03.emitLimited_decodes_partial` : the two
  property theorems this gives.

Built from the layers of `Proofs/C02Msg.lean` (header, question, record per RDATA variant, section
lists) and the `emit_message_parts` analysis of `Proofs/C03Msg.lean`.
-/
import HickoryVerif.Proofs.C02Msg
import HickoryVerif.Proofs.C03Msg

namespace HickoryVerif.C03
open HickoryVerif HickoryVerif.Name HickoryVerif.Wire HickoryVerif.C02

/-! ### emitters leave the modes alone, whether they succeed or fail -/

/-- `canonical_form` and `name_encoding` after `f` are what they were before, in every outcome -/
def ModeKeeper (f : Enc → ERes Unit) : Prop :=
  ∀ e, match f e with
    | .ok _ e' => e'.canonicalForm = e.canonicalForm ∧ e'.nameEncoding = e.nameEncoding
    | .err _ e' => e'.canonicalForm = e.canonicalForm ∧ e'.nameEncoding = e.nameEncoding
    | .panic _ => True

theorem modeKeeper_emitSlice (d : Bytes) : ModeKeeper (fun e => e.emitSlice d) := by
  intro e
  simp only [Enc.emitSlice, Enc.write]
  by_cases h1 : e.offset > e.buf.length
  · simp only [h1, ↓reduceIte]
  · simp only [h1, ↓reduceIte]
    by_cases h2 : e.offset + d.length > e.maxSize
    · simp only [h2, ↓reduceIte, and_self]
    · simp only [h2, ↓reduceIte]
      by_cases h3 : e.offset = e.buf.length
      · simp only [h3, ↓reduceIte, and_self]
      · simp only [h3, ↓reduceIte, and_self]

theorem modeKeeper_emitU8 (v : Nat) : ModeKeeper (fun e => e.emitU8 v) := modeKeeper_emitSlice _
theorem modeKeeper_emitU16 (v : Nat) : ModeKeeper (fun e => e.emitU16 v) := modeKeeper_emitSlice _
theorem modeKeeper_emitU32 (v : Nat) : ModeKeeper (fun e => e.emitU32 v) := modeKeeper_emitSlice _

theorem modeKeeper_nothing : ModeKeeper emitNothing := by intro e; exact ⟨rfl, rfl⟩

theorem modeKeeper_seq {f g : Enc → ERes Unit} (hf : ModeKeeper f) (hg : ModeKeeper g) :
    ModeKeeper (Enc.seq f g) := by
  intro e
  have h1 := hf e
  unfold Enc.seq
  cases hfe : f e with
  | ok u e1 =>
    rw [hfe] at h1
    have h2 := hg e1
    simp only
    cases hge : g e1 with
    | ok u2 e2 => rw [hge] at h2; exact ⟨h2.1.trans h1.1, h2.2.trans h1.2⟩
    | err k e2 => rw [hge] at h2; exact ⟨h2.1.trans h1.1, h2.2.trans h1.2⟩
    | panic s => trivial
  | err k e1 => rw [hfe] at h1; exact h1
  | panic s => trivial

theorem modeKeeper_seqAll : ∀ (fs : List (Enc → ERes Unit)), (∀ f ∈ fs, ModeKeeper f) → ModeKeeper (seqAll fs)
  | [], _ => modeKeeper_nothing
  | f :: fs, h => by
    unfold seqAll
    exact modeKeeper_seq (h f (by simp)) (modeKeeper_seqAll fs (fun g hg => h g (by simp [hg])))

theorem modeKeeper_emitCharacterData (d : Bytes) : ModeKeeper (fun e => e.emitCharacterData d) := by
  intro e
  simp only [Enc.emitCharacterData]
  by_cases hl : d.length > 255
  · simp only [hl, ↓reduceIte, and_self]
  · simp only [hl, ↓reduceIte]
    exact modeKeeper_seq (modeKeeper_emitU8 d.length) (modeKeeper_emitSlice d) e

theorem modeKeeper_guard {f : Enc → ERes Unit} (m : NameEncoding → Bool → NameEncoding → NameEncoding)
    (hf : ModeKeeper f) :
    ModeKeeper (fun e => Enc.restoreNameEncoding e.nameEncoding
      (f { e with nameEncoding := m e.nameEncoding e.canonicalForm e.nameEncoding })) := by
  intro e
  have h1 := hf { e with nameEncoding := m e.nameEncoding e.canonicalForm e.nameEncoding }
  simp only
  cases hfe : f { e with nameEncoding := m e.nameEncoding e.canonicalForm e.nameEncoding } with
  | ok u e1 => rw [hfe] at h1; exact ⟨h1.1, rfl⟩
  | err k e1 => rw [hfe] at h1; exact ⟨h1.1, rfl⟩
  | panic s => trivial

theorem modeKeeper_withRdataBehavior {f : Enc → ERes Unit} (hf : ModeKeeper f) (r : RDataEncoding) :
    ModeKeeper (fun e => e.withRdataBehavior r f) :=
  modeKeeper_guard (fun _ c cur => Enc.rdataNameEncoding r c cur) hf

/-- the modes of `e'` are those of `e` -/
def Modes (e e' : Enc) : Prop := e'.canonicalForm = e.canonicalForm ∧ e'.nameEncoding = e.nameEncoding

theorem Modes.refl (e : Enc) : Modes e e := ⟨rfl, rfl⟩
theorem Modes.trans {a b c : Enc} (h1 : Modes a b) (h2 : Modes b c) : Modes a c :=
  ⟨h2.1.trans h1.1, h2.2.trans h1.2⟩

def RM {α} (r : ERes α) (e : Enc) : Prop :=
  match r with
  | .ok _ e' => Modes e e'
  | .err _ e' => Modes e e'
  | .panic _ => True

theorem emitLabels_modes : ∀ (ls : List Bytes) (e : Enc) (w : List Nat), RM (emitLabels e ls w) e
  | [], e, w => by simp only [emitLabels, RM]; exact Modes.refl e
  | l :: ls, e, w => by
    unfold emitLabels
    by_cases hl : l.length > 63
    · simp only [hl, ↓reduceIte, RM]; exact Modes.refl e
    · simp only [hl, ↓reduceIte]
      have h1 := modeKeeper_emitCharacterData l e
      simp only at h1
      cases hcd : e.emitCharacterData l with
      | ok u e1 =>
        rw [hcd] at h1
        have h2 := emitLabels_modes ls e1 (w ++ [e.offset])
        simp only
        cases hr : emitLabels e1 ls (w ++ [e.offset]) with
        | ok a e2 => rw [hr] at h2; exact Modes.trans h1 h2
        | err k e2 => rw [hr] at h2; exact Modes.trans h1 h2
        | panic s => trivial
      | err k e1 => rw [hcd] at h1; exact h1
      | panic s => trivial

theorem storeLabelPointer_modes {e e' : Enc} {a b : Nat} (h : e.storeLabelPointer a b = .ok e') : Modes e e' := by
  unfold Enc.storeLabelPointer at h
  split at h
  · simp at h
  split at h
  · simp at h
  split at h
  · simp at h
  split at h
  · cases hs : e.sliceOf a b with
    | ok sl => rw [hs] at h; simp only [Outcome.ok.injEq] at h; subst h; exact ⟨rfl, rfl⟩
    | err => rw [hs] at h; simp at h
    | panic s => rw [hs] at h; simp at h
  · simp only [Outcome.ok.injEq] at h; subst h; exact Modes.refl e

theorem storeAll_modes {last : Nat} : ∀ (w : List Nat) (e e' : Enc), storeAll e last w = .ok e' → Modes e e'
  | [], e, e', h => by simp only [storeAll, Outcome.ok.injEq] at h; subst h; exact Modes.refl e
  | idx :: rest, e, e', h => by
    unfold storeAll at h
    cases hs : e.storeLabelPointer idx last with
    | ok e1 => rw [hs] at h; exact Modes.trans (storeLabelPointer_modes hs) (storeAll_modes rest e1 e' h)
    | err => rw [hs] at h; simp at h
    | panic s => rw [hs] at h; simp at h

theorem compressLoop_modes {last : Nat} : ∀ (w : List Nat) (e : Enc), RM (compressLoop e last w) e
  | [], e => by simp only [compressLoop, RM]; exact Modes.refl e
  | idx :: rest, e => by
    have cont : ∀ e', e.storeLabelPointer idx last = .ok e' → RM (compressLoop e' last rest) e := by
      intro e' hst
      have h1 := storeLabelPointer_modes hst
      have h2 := compressLoop_modes (last := last) rest e'
      cases hr : compressLoop e' last rest with
      | ok a e2 => rw [hr] at h2; exact Modes.trans h1 h2
      | err k e2 => rw [hr] at h2; exact Modes.trans h1 h2
      | panic s => trivial
    unfold compressLoop
    cases hg : e.getLabelPointer idx last with
    | panic s => simp only [RM]
    | err => simp only [RM]
    | ok o =>
      cases o with
      | none =>
        simp only
        cases hst : e.storeLabelPointer idx last with
        | ok e' => exact cont e' hst
        | err => simp only [RM]
        | panic s => simp only [RM]
      | some loc =>
        simp only
        by_cases hloc : loc / 16384 = 0
        · simp only [hloc, ↓reduceIte]
          have h1 := modeKeeper_emitU16 (49152 + loc) (Enc.trim { e with offset := idx })
          simp only at h1
          cases hu : (Enc.trim { e with offset := idx }).emitU16 (49152 + loc) with
          | ok u e2 => rw [hu] at h1; exact h1
          | err k e2 => rw [hu] at h1; exact h1
          | panic s => simp only [RM]
        · simp only [hloc, ↓reduceIte]
          cases hst : e.storeLabelPointer idx last with
          | ok e' => exact cont e' hst
          | err => simp only [RM]
          | panic s => simp only [RM]

theorem emitRoot_modes (e : Enc) (bufLen : Nat) : RM (emitRoot e bufLen) e := by
  unfold emitRoot
  have h1 := modeKeeper_emitU8 0 e
  simp only at h1
  cases hu : e.emitU8 0 with
  | ok u e3 =>
    rw [hu] at h1
    simp only
    split
    · simp only [RM]
    split
    · exact h1
    · exact h1
  | err k e3 => rw [hu] at h1; exact h1
  | panic s => simp only [RM]

theorem modeKeeper_emitName (n : Name) : ModeKeeper (fun e => Name.emit e n) := by
  intro e
  have key : RM (Name.emit e n) e := by
    unfold Name.emit
    simp only
    generalize (if e.nameEncoding = NameEncoding.uncompressedLowercase then n.toLowercase else n).labels = ls
    have h1 := emitLabels_modes ls e []
    cases hl : emitLabels e ls [] with
    | panic s => simp only [RM]
    | err k e1 => rw [hl] at h1; exact h1
    | ok w e1 =>
      rw [hl] at h1
      simp only
      split
      · have h2 := compressLoop_modes (last := e1.offset) w { e1 with compressedNameCount := e1.compressedNameCount + 1 }
        cases hc : compressLoop { e1 with compressedNameCount := e1.compressedNameCount + 1 } e1.offset w with
        | panic s => simp only [RM]
        | err k e2 => rw [hc] at h2; exact Modes.trans h1 h2
        | ok flag e2 =>
          rw [hc] at h2
          have h12 : Modes e e2 := Modes.trans h1 h2
          cases flag with
          | true => exact h12
          | false =>
            simp only
            have h3 := emitRoot_modes e2 e.buf.length
            cases hr : emitRoot e2 e.buf.length with
            | ok u e3 => rw [hr] at h3; exact Modes.trans h12 h3
            | err k e3 => rw [hr] at h3; exact Modes.trans h12 h3
            | panic s => trivial
      · cases hs : storeAll e1 e1.offset w with
        | panic s => simp only [RM]
        | err => simp only [RM]
        | ok e2 =>
          simp only
          have h12 : Modes e e2 := Modes.trans h1 (storeAll_modes w e1 e2 hs)
          have h3 := emitRoot_modes e2 e.buf.length
          cases hr : emitRoot e2 e.buf.length with
          | ok u e3 => rw [hr] at h3; exact Modes.trans h12 h3
          | err k e3 => rw [hr] at h3; exact Modes.trans h12 h3
          | panic s => trivial
  unfold RM Modes at key
  simp only
  cases hr : Name.emit e n with
  | ok u e' => rw [hr] at key; exact key
  | err k e' => rw [hr] at key; exact key
  | panic s => trivial

theorem placeReplace_modes (e : Enc) (start len v : Nat) :
    RM (e.placeReplace start len (fun x => x.emitU16 v)) e := by
  unfold Enc.placeReplace
  simp only
  by_cases h1 : start < e.offset
  · rw [if_neg (by simpa using h1)]
    have h3 := modeKeeper_emitU16 v { e with offset := start }
    simp only at h3
    cases hu : ({ e with offset := start } : Enc).emitU16 v with
    | panic s => simp only [RM]
    | ok u3 e3 =>
      rw [hu] at h3
      simp only at h3 ⊢
      by_cases h4 : e3.offset < start
      · rw [if_pos h4]; trivial
      · rw [if_neg h4]
        by_cases h5 : e3.offset - start ≠ len
        · rw [if_pos h5]; trivial
        · rw [if_neg h5]; exact ⟨h3.1, h3.2⟩
    | err k e3 =>
      rw [hu] at h3
      simp only at h3 ⊢
      by_cases h4 : e3.offset < start
      · rw [if_pos h4]; trivial
      · rw [if_neg h4]
        by_cases h5 : e3.offset - start ≠ len
        · rw [if_pos h5]; trivial
        · rw [if_neg h5]; exact ⟨h3.1, h3.2⟩
  · rw [if_pos h1]; trivial

theorem modeKeeper_lenPrefixed {body : Enc → ERes Unit} (hb : ModeKeeper body) :
    ModeKeeper (Enc.lenPrefixed body) := by
  intro e
  unfold Enc.lenPrefixed
  have hplace : RM (e.place 2) e := by
    unfold Enc.place Enc.reserve
    simp only
    by_cases h1 : e.offset + 2 > e.maxSize
    · simp only [h1, ↓reduceIte, RM]; exact Modes.refl e
    · simp only [h1, ↓reduceIte, RM]; exact ⟨rfl, rfl⟩
  cases hpl : e.place 2 with
  | panic s => trivial
  | err k e1 => rw [hpl] at hplace; exact hplace
  | ok start e1 =>
    rw [hpl] at hplace
    have h1 : Modes e e1 := hplace
    simp only
    have hbody := hb e1
    cases hbd : body e1 with
    | panic s => trivial
    | err k e2 => rw [hbd] at hbody; exact Modes.trans h1 hbody
    | ok u e2 =>
      rw [hbd] at hbody
      have h12 : Modes e e2 := Modes.trans h1 hbody
      simp only
      cases hls : e2.lenSincePlace start 2 with
      | panic s => trivial
      | err => trivial
      | ok len =>
        simp only
        by_cases hbig : len > 65535
        · simp only [hbig, ↓reduceIte]
        · simp only [hbig, ↓reduceIte]
          have h3 := placeReplace_modes e2 start 2 len
          cases hr : e2.placeReplace start 2 (fun x => x.emitU16 len) with
          | ok u3 e3 => rw [hr] at h3; exact Modes.trans h12 h3
          | err k e3 => rw [hr] at h3; exact Modes.trans h12 h3
          | panic s => trivial

theorem modeKeeper_lenPrefixedTry {body : Enc → ERes Unit} (hb : ModeKeeper body) :
    ModeKeeper (Enc.lenPrefixedTry body) := by
  intro e
  unfold Enc.lenPrefixedTry
  have hplace : RM (e.place 2) e := by
    unfold Enc.place Enc.reserve
    simp only
    by_cases h1 : e.offset + 2 > e.maxSize
    · simp only [h1, ↓reduceIte, RM]; exact Modes.refl e
    · simp only [h1, ↓reduceIte, RM]; exact ⟨rfl, rfl⟩
  cases hpl : e.place 2 with
  | panic s => trivial
  | err k e1 => rw [hpl] at hplace; exact hplace
  | ok start e1 =>
    rw [hpl] at hplace
    have h1 : Modes e e1 := hplace
    simp only
    have hbody := hb e1
    cases hbd : body e1 with
    | panic s => trivial
    | err k e2 => rw [hbd] at hbody; exact Modes.trans h1 hbody
    | ok u e2 =>
      rw [hbd] at hbody
      have h12 : Modes e e2 := Modes.trans h1 hbody
      simp only
      cases hls : e2.lenSincePlace start 2 with
      | panic s => trivial
      | err => trivial
      | ok len =>
        simp only
        by_cases hbig : len > 65535
        · simp only [hbig, ↓reduceIte]; exact h12
        · simp only [hbig, ↓reduceIte]
          have h3 := placeReplace_modes e2 start 2 len
          cases hr : e2.placeReplace start 2 (fun x => x.emitU16 len) with
          | ok u3 e3 => rw [hr] at h3; exact Modes.trans h12 h3
          | err k e3 => rw [hr] at h3; exact Modes.trans h12 h3
          | panic s => trivial

theorem modeKeeper_errOther (f : Enc → ERes Unit) (c : Prop) [Decidable c] (hf : ModeKeeper f) :
    ModeKeeper (fun e => if c then .err .other e else f e) := by
  intro e
  by_cases hc : c
  · simp only [hc, ↓reduceIte, and_self]
  · simp only [hc, ↓reduceIte]; exact hf e

theorem modeKeeper_emitPairs : ∀ (b : Bytes), ModeKeeper (emitPairs b)
  | [] => by unfold emitPairs; exact modeKeeper_nothing
  | [_] => by unfold emitPairs; exact modeKeeper_nothing
  | a :: b :: rest => by
    unfold emitPairs
    exact modeKeeper_seq (modeKeeper_emitU16 _) (modeKeeper_emitPairs rest)

theorem modeKeeper_emitTypeSet (ts : TypeSet) : ModeKeeper (emitTypeSet ts) := by
  unfold emitTypeSet
  cases ts.orig with
  | some bs => exact modeKeeper_emitSlice bs
  | none =>
    refine modeKeeper_seqAll _ ?_
    intro f hf
    simp only [List.mem_map] at hf
    obtain ⟨wb, _, rfl⟩ := hf
    refine modeKeeper_seqAll _ ?_
    intro g hg
    simp only [List.mem_append, List.mem_cons, List.not_mem_nil, or_false, List.mem_map] at hg
    rcases hg with (rfl | rfl) | ⟨b, _, rfl⟩
    · exact modeKeeper_emitU8 _
    · exact modeKeeper_emitU8 _
    · exact modeKeeper_emitU8 _

theorem modeKeeper_ifErr (f : Enc → ERes Unit) (c : Prop) [Decidable c] (hf : ModeKeeper f) :
    ModeKeeper (fun e => if c then .err .other e else f e) := by
  intro e
  by_cases hc : c
  · show match (if c then ERes.err EncErr.other e else f e) with
      | .ok _ e' => e'.canonicalForm = e.canonicalForm ∧ e'.nameEncoding = e.nameEncoding
      | .err _ e' => e'.canonicalForm = e.canonicalForm ∧ e'.nameEncoding = e.nameEncoding
      | .panic _ => True
    rw [if_pos hc]; exact ⟨rfl, rfl⟩
  · show match (if c then ERes.err EncErr.other e else f e) with
      | .ok _ e' => e'.canonicalForm = e.canonicalForm ∧ e'.nameEncoding = e.nameEncoding
      | .err _ e' => e'.canonicalForm = e.canonicalForm ∧ e'.nameEncoding = e.nameEncoding
      | .panic _ => True
    rw [if_neg hc]; exact hf e

theorem modeKeeper_emitSvcVal (v : SvcVal) : ModeKeeper (emitSvcVal v) := by
  cases v with
  | mandatory keys =>
    refine modeKeeper_ifErr _ _ (modeKeeper_seqAll _ ?_)
    intro f hf; simp only [List.mem_map] at hf; obtain ⟨k, _, rfl⟩ := hf; exact modeKeeper_emitU16 k
  | alpn ids =>
    refine modeKeeper_ifErr _ _ (modeKeeper_seqAll _ ?_)
    intro f hf; simp only [List.mem_map] at hf; obtain ⟨k, _, rfl⟩ := hf; exact modeKeeper_emitCharacterData k
  | noDefaultAlpn => exact modeKeeper_nothing
  | port p => exact modeKeeper_emitU16 p
  | ipv4hint addrs =>
    refine modeKeeper_seqAll _ ?_
    intro f hf; simp only [List.mem_map] at hf; obtain ⟨k, _, rfl⟩ := hf; exact modeKeeper_emitSlice k
  | ech d => exact modeKeeper_emitSlice d
  | ipv6hint addrs =>
    refine modeKeeper_seqAll _ ?_
    intro f hf; simp only [List.mem_map] at hf; obtain ⟨k, _, rfl⟩ := hf; exact modeKeeper_emitPairs k
  | unknown d => exact modeKeeper_emitSlice d

theorem modeKeeper_emitSvcParams : ∀ (ps : List (Nat × SvcVal)) (last : Option Nat),
    ModeKeeper (emitSvcParams last ps)
  | [], last => by unfold emitSvcParams; exact modeKeeper_nothing
  | (k, v) :: rest, last => by
    unfold emitSvcParams
    exact modeKeeper_ifErr _ _ (modeKeeper_seq (modeKeeper_emitU16 k)
      (modeKeeper_seq (modeKeeper_lenPrefixedTry (modeKeeper_emitSvcVal v)) (modeKeeper_emitSvcParams rest (some k))))

theorem modeKeeper_emitRData (t : Nat) (d : RData) (hp : d.proved = true) : ModeKeeper (emitRData t d) := by
  cases d <;> first | (simp [RData.proved] at hp; done) | skip
  all_goals unfold emitRData
  case a b => exact modeKeeper_emitSlice b
  case aaaa b => exact modeKeeper_emitPairs b
  case name n => exact modeKeeper_withRdataBehavior (modeKeeper_emitName n) _
  case mx p n =>
    refine modeKeeper_withRdataBehavior (modeKeeper_seqAll _ ?_) _
    intro f hf
    simp only [List.mem_cons, List.not_mem_nil, or_false] at hf
    rcases hf with rfl | rfl
    · exact modeKeeper_emitU16 _
    · exact modeKeeper_emitName _
  case srv p w port n =>
    refine modeKeeper_withRdataBehavior (modeKeeper_seqAll _ ?_) _
    intro f hf
    simp only [List.mem_cons, List.not_mem_nil, or_false] at hf
    rcases hf with rfl | rfl | rfl | rfl
    · exact modeKeeper_emitU16 _
    · exact modeKeeper_emitU16 _
    · exact modeKeeper_emitU16 _
    · exact modeKeeper_emitName _
  case soa m r serial refresh retry expire minimum =>
    refine modeKeeper_withRdataBehavior (modeKeeper_seqAll _ ?_) _
    intro f hf
    simp only [List.mem_cons, List.not_mem_nil, or_false] at hf
    rcases hf with rfl | rfl | rfl | rfl | rfl | rfl | rfl
    · exact modeKeeper_emitName _
    · exact modeKeeper_emitName _
    all_goals exact modeKeeper_emitU32 _
  case txt ss =>
    refine modeKeeper_seqAll _ ?_
    intro f hf
    simp only [List.mem_map] at hf
    obtain ⟨x, _, rfl⟩ := hf
    exact modeKeeper_emitCharacterData x
  case hinfo c o =>
    refine modeKeeper_seqAll _ ?_
    intro f hf
    simp only [List.mem_cons, List.not_mem_nil, or_false] at hf
    rcases hf with rfl | rfl <;> exact modeKeeper_emitCharacterData _
  case null d => exact modeKeeper_emitSlice d
  case unknown c d => exact modeKeeper_emitSlice d
  case openpgpkey d => exact modeKeeper_emitSlice d
  case cert ct tag alg d =>
    refine modeKeeper_withRdataBehavior (modeKeeper_seqAll _ ?_) _
    intro f hf
    simp only [List.mem_cons, List.not_mem_nil, or_false] at hf
    rcases hf with rfl | rfl | rfl | rfl
    all_goals first | exact modeKeeper_emitU16 _ | exact modeKeeper_emitU8 _ | exact modeKeeper_emitSlice _
  case tsig alg time fudge mac oid err other =>
    have eo : ∀ (c : Prop) [Decidable c] (f : Enc → ERes Unit), ModeKeeper f →
        ModeKeeper (fun e => if c then .err .other e else f e) := by
      intro c _ f hf e
      by_cases hc : c
      · show match (if c then ERes.err EncErr.other e else f e) with
          | .ok _ e' => e'.canonicalForm = e.canonicalForm ∧ e'.nameEncoding = e.nameEncoding
          | .err _ e' => e'.canonicalForm = e.canonicalForm ∧ e'.nameEncoding = e.nameEncoding
          | .panic _ => True
        rw [if_pos hc]; exact ⟨rfl, rfl⟩
      · show match (if c then ERes.err EncErr.other e else f e) with
          | .ok _ e' => e'.canonicalForm = e.canonicalForm ∧ e'.nameEncoding = e.nameEncoding
          | .err _ e' => e'.canonicalForm = e.canonicalForm ∧ e'.nameEncoding = e.nameEncoding
          | .panic _ => True
        rw [if_neg hc]; exact hf e
    refine modeKeeper_withRdataBehavior (modeKeeper_seqAll _ ?_) _
    intro f hf
    simp only [List.mem_cons, List.not_mem_nil, or_false] at hf
    rcases hf with rfl | rfl | rfl | rfl | rfl | rfl | rfl | rfl | rfl | rfl
    · exact modeKeeper_emitName _
    · exact eo _ _ (modeKeeper_emitU16 _)
    · exact modeKeeper_emitU32 _
    · exact modeKeeper_emitU16 _
    · exact eo _ _ (modeKeeper_emitU16 _)
    · exact modeKeeper_emitSlice _
    · exact modeKeeper_emitU16 _
    · exact modeKeeper_emitU16 _
    · exact eo _ _ (modeKeeper_emitU16 _)
    · exact modeKeeper_emitSlice _
  case svcb prio target ps =>
    refine modeKeeper_withRdataBehavior (modeKeeper_seqAll _ ?_) _
    intro f hf
    simp only [List.mem_cons, List.not_mem_nil, or_false] at hf
    rcases hf with rfl | rfl | rfl
    · exact modeKeeper_emitU16 _
    · exact modeKeeper_emitName _
    · exact modeKeeper_emitSvcParams _ _
  case nsec next ts =>
    refine modeKeeper_withRdataBehavior (modeKeeper_seqAll _ ?_) _
    intro f hf
    simp only [List.mem_cons, List.not_mem_nil, or_false] at hf
    rcases hf with rfl | rfl
    · exact modeKeeper_emitName _
    · exact modeKeeper_emitTypeSet _
  case nsec3 oo iter salt hash b32 ts =>
    refine modeKeeper_seqAll _ ?_
    intro f hf
    simp only [List.mem_cons, List.not_mem_nil, or_false] at hf
    rcases hf with rfl | rfl | rfl | rfl | rfl | rfl | rfl | rfl
    · exact modeKeeper_emitU8 _
    · exact modeKeeper_emitU8 _
    · exact modeKeeper_emitU16 _
    · exact modeKeeper_emitU8 _
    · exact modeKeeper_emitSlice _
    · exact modeKeeper_emitU8 _
    · exact modeKeeper_emitSlice _
    · exact modeKeeper_emitTypeSet _
  case csync serial flags ts =>
    refine modeKeeper_seqAll _ ?_
    intro f hf
    simp only [List.mem_cons, List.not_mem_nil, or_false] at hf
    rcases hf with rfl | rfl | rfl
    · exact modeKeeper_emitU32 _
    · exact modeKeeper_emitU16 _
    · exact modeKeeper_emitTypeSet _
  case naptr order pref flags services regexp n =>
    refine modeKeeper_withRdataBehavior (modeKeeper_seqAll _ ?_) _
    intro f hf
    simp only [List.mem_cons, List.not_mem_nil, or_false] at hf
    rcases hf with rfl | rfl | rfl | rfl | rfl | rfl
    · exact modeKeeper_emitU16 _
    · exact modeKeeper_emitU16 _
    · exact modeKeeper_emitCharacterData _
    · exact modeKeeper_emitCharacterData _
    · exact modeKeeper_emitCharacterData _
    · exact modeKeeper_emitName _
  case sig covered alg labels ottl exp inc tag signer sg =>
    refine modeKeeper_withRdataBehavior (modeKeeper_seqAll _ ?_) _
    intro f hf
    simp only [List.mem_cons, List.not_mem_nil, or_false] at hf
    rcases hf with rfl | rfl
    · refine modeKeeper_withRdataBehavior (modeKeeper_seqAll _ ?_) _
      intro g hg
      simp only [List.mem_cons, List.not_mem_nil, or_false] at hg
      rcases hg with rfl | rfl | rfl | rfl | rfl | rfl | rfl | rfl
      · exact modeKeeper_emitU16 _
      · exact modeKeeper_emitU8 _
      · exact modeKeeper_emitU8 _
      · exact modeKeeper_emitU32 _
      · exact modeKeeper_emitU32 _
      · exact modeKeeper_emitU32 _
      · exact modeKeeper_emitU16 _
      · exact modeKeeper_emitName _
    · exact modeKeeper_emitSlice _
  case caa cr rs tag v =>
    refine modeKeeper_withRdataBehavior (modeKeeper_seqAll _ ?_) _
    intro f hf
    simp only [List.mem_cons, List.not_mem_nil, or_false] at hf
    rcases hf with rfl | rfl | rfl | rfl
    · exact modeKeeper_emitU8 _
    · by_cases hl : tag.length > 255
      · simp only [hl, ↓reduceIte]; intro e; exact ⟨rfl, rfl⟩
      · simp only [hl, ↓reduceIte]; exact modeKeeper_emitU8 _
    · exact modeKeeper_emitSlice _
    · exact modeKeeper_emitSlice _
  all_goals
    refine modeKeeper_seqAll _ ?_
    intro f hf
    simp only [List.mem_cons, List.not_mem_nil, or_false] at hf
    first
      | (rcases hf with rfl | rfl | rfl | rfl | rfl
         all_goals first | exact modeKeeper_emitU16 _ | exact modeKeeper_emitU8 _ | exact modeKeeper_emitSlice _)
      | (rcases hf with rfl | rfl | rfl | rfl
         all_goals first | exact modeKeeper_emitU16 _ | exact modeKeeper_emitU8 _ | exact modeKeeper_emitSlice _)
      | (rcases hf with rfl | rfl | rfl
         all_goals first | exact modeKeeper_emitU16 _ | exact modeKeeper_emitU8 _ | exact modeKeeper_emitSlice _)

theorem modeKeeper_emitRecord (r : Record) (hp : r.rdata.isUpdate = true ∨ r.rdata.proved = true) :
    ModeKeeper (emitRecord r) := by
  unfold emitRecord
  refine modeKeeper_seqAll _ ?_
  intro f hf
  simp only [List.mem_cons, List.not_mem_nil, or_false] at hf
  rcases hf with rfl | rfl | rfl | rfl | rfl
  · exact modeKeeper_emitName _
  · exact modeKeeper_emitU16 _
  · exact modeKeeper_emitU16 _
  · exact modeKeeper_emitU32 _
  · refine modeKeeper_lenPrefixed ?_
    split
    · exact modeKeeper_nothing
    · rename_i hu
      exact modeKeeper_emitRData _ _ (by rcases hp with h | h; exact absurd h hu; exact h)

/-! ### a section in any outcome: all written, or cut with the failed record rolled back -/

open HickoryVerif.C02 in
/-- `emit_iter` over items with layouts: when all are written the layouts follow one another; when
it stops with `NotAllRecordsWritten{k}` the layouts of the first `k` items do, and nothing else
is left — in both cases the candidate-table invariant, the appending state and the modes hold. -/
theorem emitIterFrom_layout_any {α} (toEmit : α → Enc → ERes Unit) (toLay : α → Lay) :
    ∀ (xs : List α) (H : Nat × Nat → Prop) (e : Enc) (c : Nat),
    (∀ x ∈ xs, Emits (toEmit x) (toLay x)) → (∀ x ∈ xs, IsLayout (toLay x)) →
    (∀ x ∈ xs, Appender (toEmit x)) → (∀ x ∈ xs, ModeKeeper (toEmit x)) →
    e.offset = e.buf.length → PtrInvH H e → (∀ a b, e.offset ≤ a → H (a, b)) → NoLower e →
    match Enc.emitIterFrom e (xs.map toEmit) c with
    | .ok n e' => EmitsPost H (layAll (xs.map toLay)) e e' ∧ n = c + xs.length
    | .err (.notAllWritten k) e' =>
      ∃ j, j < xs.length ∧ k = c + j ∧ EmitsPost H (layAll ((xs.take j).map toLay)) e e'
    | _ => True
  | [], H, e, c, _, _, _, _, happ, hinv, _, _ => by
    simp only [List.map_nil, Enc.emitIterFrom, List.length_nil, Nat.add_zero, and_true]
    exact ⟨hinv, happ, Nat.le_refl _, by rw [happ]; simp, ⟨rfl, by omega⟩, rfl, rfl, rfl⟩
  | x :: xs, H, e, c, hE, hI, hA, hM, happ, hinv, hH, hnl => by
    simp only [List.map_cons]
    unfold Enc.emitIterFrom
    simp only
    have hs : StateOK e := ⟨happ, ptrInvH_starts_lt hinv⟩
    have habove := hA x (by simp) _ _ _ _ e (Above.self e hs.1 hs.2)
    have hmode := hM x (by simp) e
    cases hfe : toEmit x e with
    | ok u e1 =>
      simp only
      have p1 := hE x (by simp) H e e1 happ hinv hH hnl hfe
      have hnl1 : NoLower e1 := ⟨by rw [p1.canon]; exact hnl.1, by rw [p1.ne]; exact hnl.2⟩
      have ih := emitIterFrom_layout_any toEmit toLay xs H e1 (c + 1) (fun y hy => hE y (by simp [hy]))
        (fun y hy => hI y (by simp [hy])) (fun y hy => hA y (by simp [hy])) (fun y hy => hM y (by simp [hy]))
        p1.app p1.inv (fun a b hab => hH a b (by have := p1.le; omega)) hnl1
      have hq1 : e1.offset ≤ e1.buf.length := by rw [p1.app]; exact Nat.le_refl _
      -- gluing the head's layout to whatever the tail left
      have glue : ∀ (L2 : Lay) (e' : Enc), EmitsPost H L2 e1 e' → EmitsPost H (laySeq (toLay x) L2) e e' := by
        intro L2 e' p2
        have hpre : e'.buf.take e1.buf.length = e1.buf := by rw [← p1.app]; exact p2.pre
        refine ⟨p2.inv, p2.app, by have := p1.le; have := p2.le; omega, ?_, ⟨e1.offset, ?_, p2.lay⟩,
          by rw [p2.canon, p1.canon], by rw [p2.ne, p1.ne], by rw [p2.max, p1.max]⟩
        · have := congrArg (List.take e.offset) p2.pre
          rw [List.take_take, Nat.min_eq_left p1.le] at this
          rw [this, p1.pre]
        · exact (hI x (by simp)).stable p1.lay (agreeOn_prefix hq1 hpre)
      cases hr : Enc.emitIterFrom e1 (xs.map toEmit) (c + 1) with
      | ok n e' =>
        rw [hr] at ih
        exact ⟨glue _ e' ih.1, by simp only [List.length_cons]; omega⟩
      | err k e' =>
        rw [hr] at ih
        cases k with
        | notAllWritten k' =>
          obtain ⟨j, hj1, hj2, hj3⟩ := ih
          exact ⟨j + 1, by simp only [List.length_cons]; omega, by omega, by
            simp only [List.take_succ_cons, List.map_cons]; exact glue _ e' hj3⟩
        | maxSize => trivial
        | other => trivial
      | panic s => trivial
    | err kind ef =>
      rw [hfe] at habove hmode
      cases kind with
      | maxSize =>
        simp only
        rw [rollback_above hs habove.1]
        refine ⟨0, by simp, rfl, ?_⟩
        simp only [List.take_zero, List.map_nil, layAll]
        exact ⟨hinv, happ, Nat.le_refl _, by simp only; rw [happ]; simp, ⟨rfl, by simp only; omega⟩,
          hmode.1, hmode.2, habove.1.lim⟩
      | notAllWritten c' => exact absurd rfl (habove.2 c')
      | other => trivial
    | panic s => trivial
end HickoryVerif.C03

namespace HickoryVerif.C02
open HickoryVerif HickoryVerif.Name HickoryVerif.Wire HickoryVerif.C03

/-- runs of names written into a message never touch the header -/
def H12 : Nat × Nat → Prop := fun iv => 12 ≤ iv.1

theorem proved_modelled (d : RData) (h : d.proved = true) : d.emitModelled = true := by
  cases d <;> simp [RData.proved] at h <;> rfl

theorem recWF_modelled {r : Record} (h : RecWF r) : r.rdata.emitModelled = true := by
  rcases h.data with h1 | h1
  · rw [h1]; rfl
  · exact proved_modelled _ h1.1

/-- well-formedness of a message for the round-trip proof so far: header fields in range, no
extended response code, names well-formed, every record of a covered RDATA variant (or `Update0`
in an UPDATE message), no OPT/SIG/TSIG records, no EDNS, no TSIG -/
structure MsgWF (m : Message) : Prop where
  id : m.md.id < 65536
  op : m.md.op < 16
  rcode : m.md.rcode < 16
  qs : ∀ q ∈ m.queries, q.name.WF ∧ q.qtype < 65536 ∧ q.qclass < 65536
  an : ∀ r ∈ m.answers, SectionOK m.md.op r
  ns : ∀ r ∈ m.authorities, SectionOK m.md.op r
  ar : ∀ r ∈ m.additionals, SectionOK m.md.op r true
  edns : m.edns = none
  sig : m.signature = none

/-- the message with every name fully qualified (the form `Name::read` returns names in) -/
def _root_.HickoryVerif.Wire.Message.fq (m : Message) : Message :=
  { m with queries := m.queries.map fun q => { q with name := { q.name with fqdn := true } },
           answers := m.answers.map Record.fq, authorities := m.authorities.map Record.fq,
           additionals := m.additionals.map Record.fq }

theorem take_chain {b2 b3 b4 : Bytes} (h23 : b3.take b2.length = b2) (h34 : b4.take b3.length = b3) :
    b4.take b2.length = b2 := by
  have hl : b2.length ≤ b3.length := by
    have := congrArg List.length h23; simp only [List.length_take] at this; omega
  have := congrArg (List.take b2.length) h34
  rw [List.take_take, Nat.min_eq_left hl] at this
  rw [this, h23]

/-- a layout found in an intermediate buffer `bk` is still there in the final buffer `fb`, which
extends a buffer `b5 ⊇ bk` with its first twelve octets overwritten -/
theorem lay_final {L : Lay} (hL : IsLayout L) {bk b5 fb : Bytes} {p q : Nat} (hp : 12 ≤ p)
    (h : L H12 bk p q) (hpre : b5.take bk.length = bk) (hlen : fb.length = b5.length)
    (hsame : ∀ i, 12 ≤ i → fb[i]? = b5[i]?) : L H12 fb p q := by
  have hb := hL.bounds h
  have hk : ∀ i, i < bk.length → b5[i]? = bk[i]? := by
    intro i hi
    have := congrArg (fun l => l[i]?) hpre
    simp only [List.getElem?_take, hi, ↓reduceIte] at this
    exact this
  have hl : bk.length ≤ b5.length := by
    have := congrArg List.length hpre; simp only [List.length_take] at this; omega
  refine hL.stable h ⟨by omega, ?_, ?_⟩
  · intro i h1 h2
    rw [hsame i (by omega), hk i (by omega)]
  · intro iv hiv h2 i h3 h4
    have : 12 ≤ iv.1 := hiv
    rw [hsame i (by omega), hk i (by omega)]


/-- one section, in any outcome of its `emit_iter` -/
theorem section_any {H : Nat × Nat → Prop} {op : Nat} {isAdd : Bool} {rs : List Record} {e e' : Enc} {n : Nat}
    {t : Bool} (hwf : ∀ r ∈ rs, SectionOK op r isAdd) (happ : e.offset = e.buf.length) (hinv : PtrInvH H e)
    (hH : ∀ a b, e.offset ≤ a → H (a, b)) (hnl : NoLower e)
    (h : countWasTruncated (e.emitIter (rs.map emitRecord)) = .ok (n, t) e') :
    n ≤ rs.length ∧ n ≤ 65535 ∧ t = decide (n < rs.length) ∧
      EmitsPost H (layAll ((rs.take n).map layRecord)) e e' := by
  have hpv : ∀ r ∈ rs, r.rdata.isUpdate = true ∨ r.rdata.proved = true := by
    intro r hr
    rcases (hwf r hr).1.data with h1 | h1
    · left; rw [h1]; rfl
    · right; exact h1.1
  have hemit : ∀ r ∈ rs, Emits (emitRecord r) (layRecord r) := by
    intro r hr
    have hw := (hwf r hr).1
    refine emits_emitRecord r hw.name ?_
    rcases hw.data with h1 | h1
    · left; rw [h1]; rfl
    · right; exact ⟨h1.1, h1.2.2.1⟩
  have hall := emitIterFrom_layout_any emitRecord layRecord rs H e 0 hemit
    (fun r hr => isLayout_record r (hpv r hr))
    (fun r hr => appender_emitRecord r (recWF_modelled (hwf r hr).1))
    (fun r hr => modeKeeper_emitRecord r (hpv r hr)) happ hinv hH hnl
  unfold Enc.emitIter at h
  cases hr : Enc.emitIterFrom e (rs.map emitRecord) 0 with
  | ok c e1 =>
    rw [hr] at h hall
    simp only [countWasTruncated] at h
    split at h
    · simp at h
    · rename_i hc16
      simp only [ERes.ok.injEq, Prod.mk.injEq] at h
      obtain ⟨⟨rfl, rfl⟩, rfl⟩ := h
      obtain ⟨hp, hc⟩ := hall
      simp only [Nat.zero_add] at hc
      subst hc
      exact ⟨Nat.le_refl _, by omega, by simp, by rw [List.take_length]; exact hp⟩
  | err k e1 =>
    rw [hr] at h hall
    cases k with
    | notAllWritten c =>
      simp only [countWasTruncated] at h
      split at h
      · simp at h
      · rename_i hc16
        simp only [ERes.ok.injEq, Prod.mk.injEq] at h
        obtain ⟨⟨rfl, rfl⟩, rfl⟩ := h
        obtain ⟨j, hj1, hj2, hj3⟩ := hall
        simp only [Nat.zero_add] at hj2
        subst hj2
        exact ⟨by omega, by omega, by simp [hj1], hj3⟩
    | maxSize => simp [countWasTruncated] at h
    | other => simp [countWasTruncated] at h
  | panic s => rw [hr] at h; simp [countWasTruncated] at h

/-- the message cut down to the records that were written, with the header `emit_message_parts`
writes for it -/
def truncated (m : Message) (c : Counts) : Message :=
  { m with md := truncatedMd m c, answers := m.answers.take c.an, authorities := m.authorities.take c.ns,
           additionals := m.additionals.take c.ar }

theorem sectionOK_take {op : Nat} {isAdd : Bool} {rs : List Record} (n : Nat)
    (h : ∀ r ∈ rs, SectionOK op r isAdd) : ∀ r ∈ rs.take n, SectionOK op r isAdd := fun r hr => h r (List.mem_of_mem_take hr)

/-- **What `Message::emit` writes under a limit is what the decoder reads**: for every message
satisfying `MsgWF` and every limit `L`, if the emission succeeds with counts `c`, then `c` is at most
the section lengths, the metadata written is `truncatedMd m c` (`TC = tc ∨ dropped`), and
`Message::read` reads the whole output — nothing left over — as `truncated m c`, names fully
qualified. -/
theorem emitMessage_reads (opq : Nat → Rd Bytes) (m : Message) (hwf : MsgWF m) (L : Nat)
    (md' : Metadata) (c : Counts) (e' : Enc)
    (h : emitMessage m ((Enc.new []).setMaxSize L) = .ok (md', c) e') :
    c.an ≤ m.answers.length ∧ c.ns ≤ m.authorities.length ∧ c.ar ≤ m.additionals.length ∧
      md' = truncatedMd m c ∧
      Rd.run (readMessage opq) e'.buf 0 = .ok ((truncated m c).fq, e'.buf.length) := by
  unfold emitMessage emitMessageParts at h
  generalize hE0 : (Enc.new []).setMaxSize L = e0 at h
  have happ0 : e0.offset = e0.buf.length := by rw [← hE0]; rfl
  have hbuf0 : e0.buf = [] := by rw [← hE0]; rfl
  have hoff0 : e0.offset = 0 := by rw [← hE0]; rfl
  have hptr0 : e0.ptrs = [] := by rw [← hE0]; rfl
  have hnl0 : NoLower e0 := by rw [← hE0]; exact ⟨rfl, by simp [Enc.new, Enc.withOffset, Enc.setMaxSize]⟩
  rw [place_app _ _ happ0] at h
  by_cases hfit : e0.maxSize < e0.offset + 12
  · simp [hfit] at h
  simp only [hfit, ↓reduceIte] at h
  generalize hE1 : ({ e0 with buf := e0.buf ++ List.replicate 12 0, offset := e0.offset + 12 } : Enc) = e1 at h
  have happ1 : e1.offset = e1.buf.length := by rw [← hE1, hbuf0, hoff0]; simp
  have hoff1 : e1.offset = 12 := by rw [← hE1, hoff0]
  have hinv1 : PtrInvH H12 e1 := by
    intro p hp; rw [← hE1] at hp; simp only [hptr0] at hp; cases hp
  have hH1 : ∀ a b, e1.offset ≤ a → H12 (a, b) := by intro a b hab; show 12 ≤ a; omega
  have hnl1 : NoLower e1 := by rw [← hE1]; exact hnl0
  have hmax1 : e1.maxSize = e0.maxSize := by rw [← hE1]
  cases hqr : e1.emitIter (m.queries.map emitQuery) with
  | panic s => rw [hqr] at h; simp at h
  | err k e2 => rw [hqr] at h; simp at h
  | ok qc e2 =>
    rw [hqr] at h
    simp only at h
    have P2 := emitIterFrom_layout emitQuery layQuery m.queries H12 e1 e2 0 qc
      (fun q hq => emits_emitQuery q (hwf.qs q hq).1) (fun q _ => isLayout_query q) happ1 hinv1 hH1 hnl1 hqr
    have hqc : qc = m.queries.length := by
      have := emitIterFrom_ok_count _ e1 0 qc e2 hqr; simpa using this
    have hnl2 : NoLower e2 := ⟨by rw [P2.canon]; exact hnl1.1, by rw [P2.ne]; exact hnl1.2⟩
    have hH2 : ∀ a b, e2.offset ≤ a → H12 (a, b) := by
      intro a b hab; show 12 ≤ a; have := P2.le; omega
    cases han : countWasTruncated (e2.emitIter (m.answers.map emitRecord)) with
    | panic s => rw [han] at h; simp at h
    | err k e3 => rw [han] at h; simp at h
    | ok r3 e3 =>
      rw [han] at h
      obtain ⟨anC, anT⟩ := r3
      simp only at h
      obtain ⟨hanle, han16, hanT, P3⟩ := section_any hwf.an P2.app P2.inv hH2 hnl2 han
      have hnl3 : NoLower e3 := ⟨by rw [P3.canon]; exact hnl2.1, by rw [P3.ne]; exact hnl2.2⟩
      have hH3 : ∀ a b, e3.offset ≤ a → H12 (a, b) := by
        intro a b hab; show 12 ≤ a; have := P2.le; have := P3.le; omega
      cases hns : countWasTruncated (e3.emitIter (m.authorities.map emitRecord)) with
      | panic s => rw [hns] at h; simp at h
      | err k e4 => rw [hns] at h; simp at h
      | ok r4 e4 =>
        rw [hns] at h
        obtain ⟨nsC, nsT⟩ := r4
        simp only at h
        obtain ⟨hnsle, hns16, hnsT, P4⟩ := section_any hwf.ns P3.app P3.inv hH3 hnl3 hns
        have hnl4 : NoLower e4 := ⟨by rw [P4.canon]; exact hnl3.1, by rw [P4.ne]; exact hnl3.2⟩
        have hH4 : ∀ a b, e4.offset ≤ a → H12 (a, b) := by
          intro a b hab; show 12 ≤ a; have := P2.le; have := P3.le; have := P4.le; omega
        cases har : countWasTruncated (e4.emitIter (m.additionals.map emitRecord)) with
        | panic s => rw [har] at h; simp at h
        | err k e5 => rw [har] at h; simp at h
        | ok r5 e5 =>
          rw [har] at h
          obtain ⟨arC, arT⟩ := r5
          simp only [hwf.edns, hwf.sig, Option.map_none, emitExtra] at h
          obtain ⟨harle, har16, harT, P5⟩ := section_any hwf.ar P4.app P4.inv hH4 hnl4 har
          split at h
          · simp at h
          rename_i hqc16
          have hle := P2.le; have hle3 := P3.le; have hle4 := P4.le; have hle5 := P5.le
          have hlen5 : e0.offset + 12 ≤ e5.buf.length := by rw [← P5.app]; omega
          have hmax5 : e0.offset + 12 ≤ e5.maxSize := by
            rw [P5.max, P4.max, P3.max, P2.max, hmax1]; omega
          rw [placeReplace_header _ _ hlen5 hmax5 (by omega)] at h
          simp only [ERes.ok.injEq, Prod.mk.injEq] at h
          obtain ⟨⟨rfl, rfl⟩, rfl⟩ := h
          have hmd : ({ m.md with tc := m.md.tc || anT || nsT || arT } : Metadata)
              = truncatedMd m { qd := qc, an := anC, ns := nsC, ar := arC } := by
            simp only [truncatedMd, short, hwf.edns, hwf.sig, Option.toList_none, List.length_nil,
              Nat.add_zero, hanT, hnsT, harT]
          refine ⟨hanle, hnsle, harle, hmd, ?_⟩
          rw [hmd]
          simp only [hoff0, List.take_zero, List.nil_append, Nat.zero_add]
          generalize hC : ({ qd := qc, an := anC, ns := nsC, ar := arC } : Counts) = cc
          have hcc : cc.qd = qc ∧ cc.an = anC ∧ cc.ns = nsC ∧ cc.ar = arC := by rw [← hC]; exact ⟨rfl, rfl, rfl, rfl⟩
          generalize hfb : headerBytes (truncatedMd m cc) cc ++ List.drop 12 e5.buf = fb
          have hfblen : fb.length = e5.buf.length := by
            rw [← hfb]; simp only [List.length_append, List.length_drop, headerBytes, List.length_cons,
              List.length_nil]; omega
          have hsame : ∀ i, 12 ≤ i → fb[i]? = e5.buf[i]? := by
            intro i hi
            rw [← hfb, List.getElem?_append_right (by simp [headerBytes]; omega)]
            simp only [headerBytes, List.length_cons, List.length_nil, List.getElem?_drop]
            congr 1; omega
          have hseg : SegAt fb 0 (headerBytes (truncatedMd m cc) cc) := by
            rw [← hfb]
            refine ⟨by simp, ?_⟩
            simp only [List.drop_zero]
            exact List.take_left' rfl
          have pre5 : e5.buf.take e5.buf.length = e5.buf := List.take_length
          have pre4 : e5.buf.take e4.buf.length = e4.buf := by rw [← P4.app]; exact P5.pre
          have pre3 : e5.buf.take e3.buf.length = e3.buf :=
            take_chain (by rw [← P3.app]; exact P4.pre) pre4
          have pre2 : e5.buf.take e2.buf.length = e2.buf :=
            take_chain (by rw [← P2.app]; exact P3.pre) pre3
          have LQ := lay_final (isLayout_all _ (by
            intro L hL; simp only [List.mem_map] at hL; obtain ⟨q, _, rfl⟩ := hL; exact isLayout_query q))
            (by omega) P2.lay pre2 hfblen hsame
          have recsLay : ∀ (b : Bool) (rs : List Record), (∀ r ∈ rs, SectionOK m.md.op r b) →
              IsLayout (layAll (rs.map layRecord)) := by
            intro b rs hrs
            refine isLayout_all _ ?_
            intro L hL
            simp only [List.mem_map] at hL
            obtain ⟨r, hr, rfl⟩ := hL
            refine isLayout_record r ?_
            rcases (hrs r hr).1.data with h1 | h1
            · left; rw [h1]; rfl
            · right; exact h1.1
          have wa := sectionOK_take anC hwf.an
          have wn := sectionOK_take nsC hwf.ns
          have wr := sectionOK_take arC hwf.ar
          have LA := lay_final (recsLay _ _ wa) (by omega) P3.lay pre3 hfblen hsame
          have LN := lay_final (recsLay _ _ wn) (by omega) P4.lay pre4 hfblen hsame
          have LR := lay_final (recsLay _ _ wr) (by omega) P5.lay pre5 hfblen hsame
          have hhw : HeaderWF (truncatedMd m cc) cc := by
            refine ⟨hwf.id, hwf.op, ?_, ?_, ?_, ?_⟩
            · rw [hcc.1]; omega
            · rw [hcc.2.1]; omega
            · rw [hcc.2.2.1]; omega
            · rw [hcc.2.2.2]; omega
          have R0 := reads_header _ _ hhw hseg
          have R1 := reads_queries (H := H12) (buf := fb) m.queries [] e1.offset e2.offset hwf.qs LQ
          have R2 := reads_records (H := H12) (opq := opq) (buf := fb) false m.md.op (m.answers.take anC) []
            none e2.offset e3.offset wa LA
          have R3 := reads_records (H := H12) (opq := opq) (buf := fb) false m.md.op (m.authorities.take nsC)
            [] none e3.offset e4.offset wn LN
          have R4 := reads_records (H := H12) (opq := opq) (buf := fb) true m.md.op (m.additionals.take arC)
            [] none e4.offset e5.offset wr LR
          rw [List.length_take, Nat.min_eq_left hanle] at R2
          rw [List.length_take, Nat.min_eq_left hnsle] at R3
          rw [List.length_take, Nat.min_eq_left harle] at R4
          have hall : Reads (readMessage opq) fb 0 (truncated m cc).fq e5.offset := by
            unfold readMessage
            refine Reads.bind R0 ?_
            simp only [Nat.zero_add]
            rw [hcc.1, hqc]
            rw [hoff1] at R1
            refine Reads.bind R1 ?_
            simp only [List.nil_append]
            have hop : (truncatedMd m cc).op = m.md.op := rfl
            rw [hcc.2.1, hop]
            refine Reads.bind R2 ?_
            simp only [List.nil_append]
            rw [hcc.2.2.1]
            refine Reads.bind R3 ?_
            simp only [List.nil_append]
            rw [hcc.2.2.2]
            refine Reads.bind R4 ?_
            simp only [List.nil_append]
            refine Reads.pure' _ _ ?_
            simp only [mergeRcode, Message.fq, truncated, hwf.edns, hwf.sig, hcc]
            have : (truncatedMd m cc).rcode % 16 = (truncatedMd m cc).rcode :=
              Nat.mod_eq_of_lt hwf.rcode
            rw [this]
            rfl
          have := hall.run
          rw [this, hfblen, P5.app]

/-
FULL STATEMENT (the goal of C02, kept visible):

  decode_encode : WF m → readMessage (emitMessage m) = .ok m

for every message of every supported record type, EDNS, TSIG and extended response codes included.
What is proved is `decode_encode_partial`: the same statement for messages satisfying `MsgWF`
(RDATA variants A, NS/CNAME/PTR/ANAME, MX, SRV, NULL, Unknown and `Update0`; no EDNS, no TSIG, no
extended response code), under any size limit, provided nothing was dropped.  Names come back fully
qualified (`Message.fq`): `Name::read` always sets `is_fqdn`.
-/

/-- **Decode ∘ encode = id** (partial: see the comment above).  `Message::emit` under
`set_max_size(L)`; if it succeeds and wrote every record (`c` = the section lengths), the decoder
reads the whole output back — with nothing left over — as the message that was encoded. -/
theorem decode_encode_partial (opq : Nat → Rd Bytes) (m : Message) (hwf : MsgWF m) (L : Nat)
    (md' : Metadata) (c : Counts) (e' : Enc)
    (h : emitMessage m ((Enc.new []).setMaxSize L) = .ok (md', c) e')
    (hfull : c.an = m.answers.length ∧ c.ns = m.authorities.length ∧ c.ar = m.additionals.length) :
    Rd.run (readMessage opq) e'.buf 0 = .ok (m.fq, e'.buf.length) := by
  obtain ⟨_, _, _, _, hr⟩ := emitMessage_reads opq m hwf L md' c e' h
  rw [hr]
  have : truncated m c = m := by
    obtain ⟨h1, h2, h3⟩ := hfull
    have hm : truncatedMd m c = m.md := by
      simp [truncatedMd, short, h1, h2, h3, hwf.edns, hwf.sig]
    simp only [truncated, hm, h1, h2, h3, List.take_length]
  rw [this]
end HickoryVerif.C02

namespace HickoryVerif.C03
open HickoryVerif HickoryVerif.Wire HickoryVerif.C02

/-
FULL STATEMENT (the goal of C03, kept visible):

  emitLimited_decodes : emitLimited m L = .ok bs → ∃ m', readMessageExact bs = .ok m' ∧
      counts m' = |sections m'| ∧ (∀ s, section s m' <+: section s m) ∧ (m'.tc = (m.tc ∨ dropped))

for every message (every record type, EDNS, TSIG).  What is proved is `emitLimited_decodes_partial`:
the same for messages satisfying `C02.MsgWF` (see `Proofs/C02Full.lean`): covered RDATA variants, no
EDNS, no TSIG, no extended response code.
-/

/-- **For every (`MsgWF`) message and every size limit, encoding either fails or yields at most that
many bytes which decode, with no bytes left over, to a message whose sections are each a prefix of
the original section (the header counts being the numbers of records present) and whose TC bit is
set whenever a record was dropped and otherwise unchanged.** -/
theorem emitLimited_decodes_partial (opq : Nat → Rd Bytes) (m : Message) (hwf : MsgWF m) (L : Nat)
    (bs : Bytes) (h : emitLimited m L = .ok bs) :
    bs.length ≤ L ∧
    ∃ c : Counts, c.an ≤ m.answers.length ∧ c.ns ≤ m.authorities.length ∧ c.ar ≤ m.additionals.length ∧
      Rd.run (readMessage opq) bs 0 = .ok ((truncated m c).fq, bs.length) ∧
      (truncated m c).answers = m.answers.take c.an ∧
      (truncated m c).authorities = m.authorities.take c.ns ∧
      (truncated m c).additionals = m.additionals.take c.ar ∧
      (truncated m c).queries = m.queries ∧
      (truncated m c).md.tc = (m.md.tc || decide (c.an < m.answers.length) ||
        decide (c.ns < m.authorities.length) || decide (c.ar < m.additionals.length)) := by
  have hmod : m.emitModelled = true := by
    simp only [Message.emitModelled, List.all_eq_true, hwf.sig, Option.toList_none, List.append_nil]
    intro r hr
    rcases List.mem_append.1 hr with hr | hr
    · rcases List.mem_append.1 hr with hr | hr
      · exact recWF_modelled (hwf.an r hr).1
      · exact recWF_modelled (hwf.ns r hr).1
    · exact recWF_modelled (hwf.ar r hr).1
  refine ⟨emitLimited_len m hmod L bs h, ?_⟩
  unfold emitLimited at h
  cases hr : emitMessage m ((Enc.new []).setMaxSize L) with
  | ok r e' =>
    rw [hr] at h
    simp only [Outcome.ok.injEq] at h
    subst h
    obtain ⟨md', c⟩ := r
    obtain ⟨h1, h2, h3, _, h5⟩ := emitMessage_reads opq m hwf L md' c e' hr
    refine ⟨c, h1, h2, h3, h5, rfl, rfl, rfl, rfl, ?_⟩
    simp [truncated, truncatedMd, short, hwf.edns, hwf.sig]
  | err k e' => rw [hr] at h; simp at h
  | panic s => rw [hr] at h; simp at h
end HickoryVerif.C03
