/-
C02 — encode/decode round trip.  STAGE 2: the message level, assembled.

`decode_encode_partial` : for every message satisfying `MsgWF`, `Message::emit` under any size limit,
when it succeeds without dropping a record, produces bytes that `Message::read` (the C01 decoder
model) reads back — to the last octet — as the message that was encoded, names fully qualified.
Built from the layers of `Proofs/C02Msg.lean` (header, question, record per RDATA variant, section
lists) and the `emit_message_parts` analysis of `Proofs/C03Msg.lean` (header back-patch).
-/
import HickoryVerif.Proofs.C02Msg
import HickoryVerif.Proofs.C03Msg
namespace HickoryVerif.C02
open HickoryVerif HickoryVerif.Name HickoryVerif.Wire HickoryVerif.C03

/-- runs of names written into a message never touch the header -/
def H12 : Nat × Nat → Prop := fun iv => 12 ≤ iv.1

theorem proved_modelled (d : RData) (h : d.proved = true) : d.emitModelled = true := by
  cases d <;> simp [RData.proved] at h <;> rfl

theorem recWF_modelled {r : Record} (h : RecWF r) : r.rdata.emitModelled = true := by
  rcases h.data with h1 | h1
  · rw [h1]; rfl
  · exact proved_modelled _ h1.1

/-- a section that was written completely: `count_was_truncated(emit_iter(..))` with the full count -/
theorem section_full {H : Nat × Nat → Prop} {op : Nat} {rs : List Record} {e e' : Enc} {n : Nat} {t : Bool}
    (hwf : ∀ r ∈ rs, SectionOK op r) (happ : e.offset = e.buf.length) (hinv : PtrInvH H e)
    (hH : ∀ a b, e.offset ≤ a → H (a, b)) (hnl : NoLower e)
    (h : countWasTruncated (e.emitIter (rs.map emitRecord)) = .ok (n, t) e') (hn : n = rs.length) :
    EmitsPost H (layAll (rs.map layRecord)) e e' ∧ t = false ∧ n ≤ 65535 := by
  have hemit : ∀ r ∈ rs, Emits (emitRecord r) (layRecord r) := by
    intro r hr
    have hw := (hwf r hr).1
    refine emits_emitRecord r hw.name ?_
    rcases hw.data with h1 | h1
    · left; rw [h1]; rfl
    · right; exact ⟨h1.1, h1.2.2.1⟩
  have hlay : ∀ r ∈ rs, IsLayout (layRecord r) := by
    intro r hr
    have hw := (hwf r hr).1
    refine isLayout_record r ?_
    rcases hw.data with h1 | h1
    · left; rw [h1]; rfl
    · right; exact h1.1
  unfold Enc.emitIter at h
  cases hr : Enc.emitIterFrom e (rs.map emitRecord) 0 with
  | ok c e1 =>
    rw [hr] at h
    simp only [countWasTruncated] at h
    split at h
    · simp at h
    · rename_i hc16
      simp only [ERes.ok.injEq, Prod.mk.injEq] at h
      obtain ⟨⟨rfl, rfl⟩, rfl⟩ := h
      exact ⟨emitIterFrom_layout emitRecord layRecord rs H e e1 0 c hemit hlay happ hinv hH hnl hr, rfl,
        by omega⟩
  | err k e1 =>
    rw [hr] at h
    cases k with
    | notAllWritten c =>
      simp only [countWasTruncated] at h
      split at h
      · simp at h
      · simp only [ERes.ok.injEq, Prod.mk.injEq] at h
        obtain ⟨⟨rfl, rfl⟩, rfl⟩ := h
        exfalso
        have hp : ∀ p ∈ e.ptrs, p.1 < e.offset := ptrInvH_starts_lt hinv
        obtain ⟨hlt, _⟩ := emitIter_prefix (rs.map emitRecord) (by
          intro it hit
          simp only [List.mem_map] at hit
          obtain ⟨r, hr', rfl⟩ := hit
          exact appender_emitRecord r (recWF_modelled (hwf r hr').1)) e happ hp c e1 hr
        simp only [List.length_map] at hlt
        omega
    | maxSize => simp [countWasTruncated] at h
    | other => simp [countWasTruncated] at h
  | panic s => rw [hr] at h; simp [countWasTruncated] at h

/-- well-formedness of a message for the round-trip proof so far: header fields in range, no
extended response code, names well-formed, every record of a covered RDATA variant (or `Update0`
in an UPDATE message), no OPT/SIG/TSIG records, no EDNS, no TSIG -/
structure MsgWF (m : Message) : Prop where
  id : m.md.id < 65536
  op : m.md.op < 16
  rcode : m.md.rcode < 16
  qs : ∀ q ∈ m.queries, q.name.WF ∧ q.qtype < 65536 ∧ q.qclass < 65536
  an : ∀ r ∈ m.answers, SectionOK m.md.op r
  ns : ∀ r ∈ m.authorities, SectionOK m.md.op r
  ar : ∀ r ∈ m.additionals, SectionOK m.md.op r
  edns : m.edns = none
  sig : m.signature = none

/-- the message with every name fully qualified (the form `Name::read` returns names in) -/
def _root_.HickoryVerif.Wire.Message.fq (m : Message) : Message :=
  { m with queries := m.queries.map fun q => { q with name := { q.name with fqdn := true } },
           answers := m.answers.map Record.fq, authorities := m.authorities.map Record.fq,
           additionals := m.additionals.map Record.fq }

theorem take_chain {b2 b3 b4 : Bytes} (h23 : b3.take b2.length = b2) (h34 : b4.take b3.length = b3) :
    b4.take b2.length = b2 := by
  have hl : b2.length ≤ b3.length := by
    have := congrArg List.length h23; simp only [List.length_take] at this; omega
  have := congrArg (List.take b2.length) h34
  rw [List.take_take, Nat.min_eq_left hl] at this
  rw [this, h23]

/-- a layout found in an intermediate buffer `bk` is still there in the final buffer `fb`, which
extends a buffer `b5 ⊇ bk` with its first twelve octets overwritten -/
theorem lay_final {L : Lay} (hL : IsLayout L) {bk b5 fb : Bytes} {p q : Nat} (hp : 12 ≤ p)
    (h : L H12 bk p q) (hpre : b5.take bk.length = bk) (hlen : fb.length = b5.length)
    (hsame : ∀ i, 12 ≤ i → fb[i]? = b5[i]?) : L H12 fb p q := by
  have hb := hL.bounds h
  have hk : ∀ i, i < bk.length → b5[i]? = bk[i]? := by
    intro i hi
    have := congrArg (fun l => l[i]?) hpre
    simp only [List.getElem?_take, hi, ↓reduceIte] at this
    exact this
  have hl : bk.length ≤ b5.length := by
    have := congrArg List.length hpre; simp only [List.length_take] at this; omega
  refine hL.stable h ⟨by omega, ?_, ?_⟩
  · intro i h1 h2
    rw [hsame i (by omega), hk i (by omega)]
  · intro iv hiv h2 i h3 h4
    have : 12 ≤ iv.1 := hiv
    rw [hsame i (by omega), hk i (by omega)]

/-
FULL STATEMENT (the goal of C02, kept visible):

  decode_encode : WF m → readMessage (emitMessage m) = .ok m

for every message of every supported record type, EDNS, TSIG and extended response codes included.
What is proved below is `decode_encode_partial`: the same statement for messages satisfying `MsgWF`
(RDATA variants A, NS/CNAME/PTR/ANAME, MX, SRV, NULL, Unknown and `Update0`; no EDNS, no TSIG, no
extended response code), under any size limit, provided nothing was dropped.  Names come back fully
qualified (`Message.fq`): `Name::read` always sets `is_fqdn`.
-/

/-- **Decode ∘ encode = id** (partial: see the comment above).  `Message::emit` under
`set_max_size(L)`; if it succeeds and wrote every record (`c` = the section lengths), the decoder
reads the whole output back — with nothing left over — as the message that was encoded. -/
theorem decode_encode_partial (opq : Nat → Rd Bytes) (m : Message) (hwf : MsgWF m) (L : Nat)
    (md' : Metadata) (c : Counts) (e' : Enc)
    (h : emitMessage m ((Enc.new []).setMaxSize L) = .ok (md', c) e')
    (hfull : c.an = m.answers.length ∧ c.ns = m.authorities.length ∧ c.ar = m.additionals.length) :
    Rd.run (readMessage opq) e'.buf 0 = .ok (m.fq, e'.buf.length) := by
  unfold emitMessage emitMessageParts at h
  generalize hE0 : (Enc.new []).setMaxSize L = e0 at h
  have happ0 : e0.offset = e0.buf.length := by rw [← hE0]; rfl
  have hbuf0 : e0.buf = [] := by rw [← hE0]; rfl
  have hoff0 : e0.offset = 0 := by rw [← hE0]; rfl
  have hptr0 : e0.ptrs = [] := by rw [← hE0]; rfl
  have hnl0 : NoLower e0 := by rw [← hE0]; exact ⟨rfl, by simp [Enc.new, Enc.withOffset, Enc.setMaxSize]⟩
  rw [place_app _ _ happ0] at h
  by_cases hfit : e0.maxSize < e0.offset + 12
  · simp [hfit] at h
  simp only [hfit, ↓reduceIte] at h
  generalize hE1 : ({ e0 with buf := e0.buf ++ List.replicate 12 0, offset := e0.offset + 12 } : Enc) = e1 at h
  have happ1 : e1.offset = e1.buf.length := by rw [← hE1, hbuf0, hoff0]; simp
  have hoff1 : e1.offset = 12 := by rw [← hE1, hoff0]
  have hinv1 : PtrInvH H12 e1 := by
    intro p hp; rw [← hE1] at hp; simp only [hptr0] at hp; cases hp
  have hH1 : ∀ a b, e1.offset ≤ a → H12 (a, b) := by intro a b hab; show 12 ≤ a; omega
  have hnl1 : NoLower e1 := by rw [← hE1]; exact hnl0
  have hmax1 : e1.maxSize = e0.maxSize := by rw [← hE1]
  -- questions
  cases hqr : e1.emitIter (m.queries.map emitQuery) with
  | panic s => rw [hqr] at h; simp at h
  | err k e2 => rw [hqr] at h; simp at h
  | ok qc e2 =>
    rw [hqr] at h
    simp only at h
    have P2 := emitIterFrom_layout emitQuery layQuery m.queries H12 e1 e2 0 qc
      (fun q hq => emits_emitQuery q (hwf.qs q hq).1) (fun q _ => isLayout_query q) happ1 hinv1 hH1 hnl1 hqr
    have hqc : qc = m.queries.length := by
      have := emitIterFrom_ok_count _ e1 0 qc e2 hqr; simpa using this
    have hnl2 : NoLower e2 := ⟨by rw [P2.canon]; exact hnl1.1, by rw [P2.ne]; exact hnl1.2⟩
    have hH2 : ∀ a b, e2.offset ≤ a → H12 (a, b) := by
      intro a b hab; show 12 ≤ a; have := P2.le; omega
    cases han : countWasTruncated (e2.emitIter (m.answers.map emitRecord)) with
    | panic s => rw [han] at h; simp at h
    | err k e3 => rw [han] at h; simp at h
    | ok r3 e3 =>
      rw [han] at h
      obtain ⟨anC, anT⟩ := r3
      simp only at h
      cases hns : countWasTruncated (e3.emitIter (m.authorities.map emitRecord)) with
      | panic s => rw [hns] at h; simp at h
      | err k e4 => rw [hns] at h; simp at h
      | ok r4 e4 =>
        rw [hns] at h
        obtain ⟨nsC, nsT⟩ := r4
        simp only at h
        cases har : countWasTruncated (e4.emitIter (m.additionals.map emitRecord)) with
        | panic s => rw [har] at h; simp at h
        | err k e5 => rw [har] at h; simp at h
        | ok r5 e5 =>
          rw [har] at h
          obtain ⟨arC, arT⟩ := r5
          simp only [hwf.edns, hwf.sig, Option.map_none, emitExtra] at h
          split at h
          · simp at h
          rename_i hqc16
          -- the counts are the section lengths: nothing was dropped
          have hcounts : anC = m.answers.length ∧ nsC = m.authorities.length ∧ arC = m.additionals.length := by
            cases hpr : e5.placeReplace e0.offset 12 (emitHeader
                { m.md with tc := m.md.tc || anT || nsT || arT } { qd := qc, an := anC, ns := nsC, ar := arC }) with
            | ok u e6 =>
              rw [hpr] at h
              simp only [ERes.ok.injEq, Prod.mk.injEq] at h
              obtain ⟨⟨_, rfl⟩, _⟩ := h
              exact hfull
            | err k e6 => rw [hpr] at h; simp at h
            | panic s => rw [hpr] at h; simp at h
          obtain ⟨P3, rfl, han16⟩ := section_full hwf.an P2.app P2.inv hH2 hnl2 han hcounts.1
          have hnl3 : NoLower e3 := ⟨by rw [P3.canon]; exact hnl2.1, by rw [P3.ne]; exact hnl2.2⟩
          have hH3 : ∀ a b, e3.offset ≤ a → H12 (a, b) := by
            intro a b hab; show 12 ≤ a; have := P2.le; have := P3.le; omega
          obtain ⟨P4, rfl, hns16⟩ := section_full hwf.ns P3.app P3.inv hH3 hnl3 hns hcounts.2.1
          have hnl4 : NoLower e4 := ⟨by rw [P4.canon]; exact hnl3.1, by rw [P4.ne]; exact hnl3.2⟩
          have hH4 : ∀ a b, e4.offset ≤ a → H12 (a, b) := by
            intro a b hab; show 12 ≤ a; have := P2.le; have := P3.le; have := P4.le; omega
          obtain ⟨P5, rfl, har16⟩ := section_full hwf.ar P4.app P4.inv hH4 hnl4 har hcounts.2.2
          -- the header back-patch
          have hle := P2.le; have hle3 := P3.le; have hle4 := P4.le; have hle5 := P5.le
          have hlen5 : e0.offset + 12 ≤ e5.buf.length := by rw [← P5.app]; omega
          have hmax5 : e0.offset + 12 ≤ e5.maxSize := by
            rw [P5.max, P4.max, P3.max, P2.max, hmax1]; omega
          rw [placeReplace_header _ _ hlen5 hmax5 (by omega)] at h
          simp only [ERes.ok.injEq, Prod.mk.injEq] at h
          obtain ⟨⟨rfl, rfl⟩, rfl⟩ := h
          simp only [Bool.or_false, hoff0, List.take_zero, List.nil_append, Nat.zero_add]
          -- the final buffer
          generalize hfb : headerBytes { m.md with tc := m.md.tc } { qd := qc, an := anC, ns := nsC, ar := arC }
            ++ List.drop 12 e5.buf = fb
          have hfblen : fb.length = e5.buf.length := by
            rw [← hfb]; simp only [List.length_append, List.length_drop, headerBytes, List.length_cons,
              List.length_nil]; omega
          have hsame : ∀ i, 12 ≤ i → fb[i]? = e5.buf[i]? := by
            intro i hi
            rw [← hfb, List.getElem?_append_right (by simp [headerBytes]; omega)]
            simp only [headerBytes, List.length_cons, List.length_nil, List.getElem?_drop]
            congr 1; omega
          have hseg : SegAt fb 0 (headerBytes { m.md with tc := m.md.tc }
              { qd := qc, an := anC, ns := nsC, ar := arC }) := by
            rw [← hfb]
            refine ⟨by simp, ?_⟩
            simp only [List.drop_zero]
            exact List.take_left' rfl
          -- prefixes
          have pre5 : e5.buf.take e5.buf.length = e5.buf := List.take_length
          have pre4 : e5.buf.take e4.buf.length = e4.buf := by rw [← P4.app]; exact P5.pre
          have pre3 : e5.buf.take e3.buf.length = e3.buf :=
            take_chain (by rw [← P3.app]; exact P4.pre) pre4
          have pre2 : e5.buf.take e2.buf.length = e2.buf :=
            take_chain (by rw [← P2.app]; exact P3.pre) pre3
          -- the layouts in the final buffer
          have LQ := lay_final (isLayout_all _ (by
            intro L hL; simp only [List.mem_map] at hL; obtain ⟨q, _, rfl⟩ := hL; exact isLayout_query q))
            (by omega) P2.lay pre2 hfblen hsame
          have recsLay : ∀ rs : List Record, (∀ r ∈ rs, SectionOK m.md.op r) →
              IsLayout (layAll (rs.map layRecord)) := by
            intro rs hrs
            refine isLayout_all _ ?_
            intro L hL
            simp only [List.mem_map] at hL
            obtain ⟨r, hr, rfl⟩ := hL
            refine isLayout_record r ?_
            rcases (hrs r hr).1.data with h1 | h1
            · left; rw [h1]; rfl
            · right; exact h1.1
          have LA := lay_final (recsLay _ hwf.an) (by omega) P3.lay pre3 hfblen hsame
          have LN := lay_final (recsLay _ hwf.ns) (by omega) P4.lay pre4 hfblen hsame
          have LR := lay_final (recsLay _ hwf.ar) (by omega) P5.lay pre5 hfblen hsame
          -- read it back
          have hhw : HeaderWF { m.md with tc := m.md.tc } { qd := qc, an := anC, ns := nsC, ar := arC } := by
            exact ⟨hwf.id, hwf.op, by show qc < 65536; omega, by show anC < 65536; omega,
              by show nsC < 65536; omega, by show arC < 65536; omega⟩
          have R0 := reads_header _ _ hhw hseg
          have R1 := reads_queries (H := H12) (buf := fb) m.queries [] e1.offset e2.offset hwf.qs LQ
          have R2 := reads_records (H := H12) (opq := opq) (buf := fb) false m.md.op m.answers [] none
            e2.offset e3.offset hwf.an LA
          have R3 := reads_records (H := H12) (opq := opq) (buf := fb) false m.md.op m.authorities [] none
            e3.offset e4.offset hwf.ns LN
          have R4 := reads_records (H := H12) (opq := opq) (buf := fb) true m.md.op m.additionals [] none
            e4.offset e5.offset hwf.ar LR
          have hall : Reads (readMessage opq) fb 0 m.fq e5.offset := by
            unfold readMessage
            refine Reads.bind R0 ?_
            simp only [Nat.zero_add]
            rw [hqc]
            rw [hoff1] at R1
            refine Reads.bind R1 ?_
            simp only [List.nil_append]
            rw [hcounts.1]
            refine Reads.bind R2 ?_
            simp only [List.nil_append]
            rw [hcounts.2.1]
            refine Reads.bind R3 ?_
            simp only [List.nil_append]
            rw [hcounts.2.2]
            refine Reads.bind R4 ?_
            simp only [List.nil_append]
            refine Reads.pure' _ _ ?_
            simp only [mergeRcode, Message.fq, hwf.edns, hwf.sig]
            have : m.md.rcode % 16 = m.md.rcode := Nat.mod_eq_of_lt hwf.rcode
            rw [this]
          have := hall.run
          rw [this, hfblen, P5.app]
end HickoryVerif.C02
