/-
C08 — finite zone views, checked by boolean functions (`linkB`, `refuteB`) proved sound
against `Spec/Denial.lean`, so that concrete instances are closed by `decide`:

* for each of the nine regression inputs of `C08Cex.lean` (former findings) the zone view that
  is consistent with the records and falsifies the claim (`…_must_reject`): together with
  `…_rejected` it shows that rejecting is not merely what the repaired code does but what
  soundness demands — `Secure` there would contradict `C08.soundness`;
* the non-vacuity example of `soundness` (`Example.nonvacuous`).
-/
import HickoryVerif.Proofs.C08
import HickoryVerif.Proofs.C08Cex

namespace HickoryVerif.C08
open HickoryVerif HickoryVerif.Nsec HickoryVerif.Spec

/-- a zone view with finitely many owner names -/
structure FinZone where
  apex : Key
  recs : List (Key × List Nat)

namespace FinZone

def view (F : FinZone) : ZoneView :=
  { apex := F.apex, data := fun k t => ∃ e ∈ F.recs, e.1 = k ∧ t ∈ e.2 }

def dataB (F : FinZone) (k : Key) (t : Nat) : Bool := F.recs.any fun e => e.1 == k && e.2.contains t
def hasDataB (F : FinZone) (k : Key) : Bool := F.recs.any fun e => e.1 == k && !e.2.isEmpty
def existsB (F : FinZone) (k : Key) : Bool := F.recs.any fun e => k.isPrefixOf e.1 && !e.2.isEmpty

theorem data_iff (F : FinZone) (k : Key) (t : Nat) : F.view.data k t ↔ F.dataB k t = true := by
  simp [view, dataB]

theorem hasData_iff (F : FinZone) (k : Key) : F.view.hasData k ↔ F.hasDataB k = true := by
  unfold ZoneView.hasData hasDataB view
  simp only [List.any_eq_true, Bool.and_eq_true, beq_iff_eq, Bool.not_eq_eq_eq_not, Bool.not_true,
    List.isEmpty_eq_false_iff]
  constructor
  · rintro ⟨t, e, he, hk, ht⟩
    exact ⟨e, he, hk, List.ne_nil_of_mem ht⟩
  · rintro ⟨e, he, hk, hne⟩
    obtain ⟨t, ht⟩ := List.exists_mem_of_ne_nil _ hne
    exact ⟨t, e, he, hk, ht⟩

theorem exists_iff (F : FinZone) (k : Key) : F.view.Exists k ↔ F.existsB k = true := by
  unfold ZoneView.Exists existsB
  simp only [List.any_eq_true, Bool.and_eq_true, List.isPrefixOf_iff_prefix,
    Bool.not_eq_eq_eq_not, Bool.not_true, List.isEmpty_eq_false_iff]
  constructor
  · rintro ⟨m, hm, hp⟩
    rw [hasData_iff] at hm
    simp only [hasDataB, List.any_eq_true, Bool.and_eq_true, beq_iff_eq, Bool.not_eq_eq_eq_not,
      Bool.not_true, List.isEmpty_eq_false_iff] at hm
    obtain ⟨e, he, hk, hne⟩ := hm
    exact ⟨e, he, hk ▸ hp, hne⟩
  · rintro ⟨e, he, hp, hne⟩
    refine ⟨e.1, ?_, hp⟩
    rw [hasData_iff]
    simp only [hasDataB, List.any_eq_true, Bool.and_eq_true, beq_iff_eq, Bool.not_eq_eq_eq_not,
      Bool.not_true, List.isEmpty_eq_false_iff]
    exact ⟨e, he, rfl, hne⟩

/-- every owner of data satisfies `P` -/
theorem forall_hasData (F : FinZone) (P : Key → Prop)
    (h : ∀ e ∈ F.recs, e.2 ≠ [] → P e.1) : ∀ m, F.view.hasData m → P m := by
  intro m hm
  rw [hasData_iff] at hm
  simp only [hasDataB, List.any_eq_true, Bool.and_eq_true, beq_iff_eq, Bool.not_eq_eq_eq_not,
    Bool.not_true, List.isEmpty_eq_false_iff] at hm
  obtain ⟨e, he, hk, hne⟩ := hm
  exact hk ▸ h e he hne

/-- boolean check of `LinkOf` -/
def linkB (F : FinZone) (r : Nsec) : Bool :=
  let o := canonKey r.owner
  let n := canonKey r.next
  let deleg := decide (IsAncestorDelegation r.types)
  F.apex.isPrefixOf o && F.apex.isPrefixOf n && F.dataB o 47 && F.dataB o 46 &&
  (if deleg then F.dataB o 2 && (r.types.contains 43 == F.dataB o 43) && !F.dataB o 5
   else (r.types.all fun t => t == 46 || t == 47 || F.dataB o t) &&
        (F.recs.all fun e => e.1 != o || e.2.all fun t => t == 46 || t == 47 || r.types.contains t)) &&
  (if n == F.apex then
     F.recs.all fun e => e.2.isEmpty || !(F.apex.isPrefixOf e.1) || !(decide (o < e.1)) ||
       (deleg && o.isPrefixOf e.1)
   else decide (o < n) && F.hasDataB n &&
     F.recs.all fun e => e.2.isEmpty || !(decide (o < e.1)) || !(decide (e.1 < n)) ||
       (deleg && o.isPrefixOf e.1))

theorem linkB_sound (F : FinZone) (r : Nsec) (h : F.linkB r = true) : LinkOf F.view r := by
  unfold linkB at h
  simp only [Bool.and_eq_true] at h
  obtain ⟨⟨⟨⟨⟨h1, h2⟩, h3⟩, h4⟩, h5⟩, h6⟩ := h
  refine ⟨List.isPrefixOf_iff_prefix.1 h1, List.isPrefixOf_iff_prefix.1 h2,
    (data_iff _ _ _).2 h3, (data_iff _ _ _).2 h4, ?_, ?_⟩
  · by_cases hd : IsAncestorDelegation r.types
    · rw [if_pos hd]
      rw [if_pos (by simpa using hd)] at h5
      simp only [Bool.and_eq_true, beq_iff_eq, Bool.not_eq_eq_eq_not, Bool.not_true] at h5
      refine ⟨(data_iff _ _ _).2 h5.1.1, ?_, ?_⟩
      · rw [data_iff, ← h5.1.2]
        simp
      · rw [data_iff, h5.2]; simp
    · rw [if_neg hd]
      rw [if_neg (by simpa using hd)] at h5
      simp only [Bool.and_eq_true, List.all_eq_true, Bool.or_eq_true, beq_iff_eq, bne_iff_ne,
        ne_eq, List.contains_iff_mem] at h5
      intro t h46 h47
      constructor
      · intro ht
        rcases h5.1 t ht with (h | h) | h
        · exact absurd h h46
        · exact absurd h h47
        · exact (data_iff _ _ _).2 h
      · rintro ⟨e, he, hk, ht⟩
        rcases h5.2 e he with h | h
        · exact absurd hk h
        · rcases h t ht with (h | h) | h
          · exact absurd h h46
          · exact absurd h h47
          · exact h
  · simp only
    by_cases hn : canonKey r.next = F.view.apex
    · rw [if_pos hn]
      have hn' : (canonKey r.next == F.apex) = true := by simpa [view] using hn
      rw [if_pos hn'] at h6
      apply forall_hasData
      intro e he hne hin hlt
      simp only [List.all_eq_true, Bool.or_eq_true, List.isEmpty_iff, Bool.not_eq_eq_eq_not,
        Bool.not_true, decide_eq_false_iff_not, Bool.and_eq_true, decide_eq_true_eq,
        List.isPrefixOf_iff_prefix] at h6
      rcases h6 e he with ((h | h) | h) | h
      · exact absurd h hne
      · have hin' : F.apex.isPrefixOf e.1 = true := List.isPrefixOf_iff_prefix.2 hin
        rw [hin'] at h; cases h
      · exact absurd hlt h
      · exact h
    · rw [if_neg hn]
      have hn' : ¬ (canonKey r.next == F.apex) = true := by simpa [view] using hn
      rw [if_neg hn'] at h6
      simp only [Bool.and_eq_true, decide_eq_true_eq] at h6
      refine ⟨h6.1.1, (hasData_iff _ _).2 h6.1.2, ?_⟩
      apply forall_hasData
      intro e he hne hlt hlt2
      have := h6.2
      simp only [List.all_eq_true, Bool.or_eq_true, List.isEmpty_iff, Bool.not_eq_eq_eq_not,
        Bool.not_true, decide_eq_false_iff_not, Bool.and_eq_true, decide_eq_true_eq,
        List.isPrefixOf_iff_prefix] at this
      rcases this e he with ((h | h) | h) | h
      · exact absurd h hne
      · exact absurd hlt h
      · exact absurd hlt2 h
      · exact h

theorem consistent_of_linkB (F : FinZone) (nsecs : List Nsec)
    (h : nsecs.all (fun r => F.linkB r) = true) : ConsistentWith nsecs F.view := by
  intro r hr
  exact linkB_sound F r (by simpa using (List.all_eq_true.1 h) r hr)

/-- all prefixes of a key -/
def prefixes : Key → List Key
  | [] => [[]]
  | x :: xs => [] :: (prefixes xs).map (x :: ·)

theorem mem_prefixes {p k : Key} (h : p <+: k) : p ∈ prefixes k := by
  induction k generalizing p with
  | nil => simp [List.prefix_nil.1 h, prefixes]
  | cons x xs ih =>
    cases p with
    | nil => simp [prefixes]
    | cons y ys =>
      obtain ⟨rfl, h'⟩ := List.cons_prefix_cons.1 h
      simp only [prefixes, List.mem_cons, List.mem_map]
      exact Or.inr ⟨ys, ih h', rfl⟩

/-- boolean check of `ClosestEncloser` -/
def closestEncloserB (F : FinZone) (c k : Key) : Bool :=
  c.isPrefixOf k && c != k && F.existsB c &&
    (prefixes k).all fun c' => c' == k || !F.existsB c' || decide (c'.length ≤ c.length)

theorem closestEncloserB_sound (F : FinZone) (c k : Key) (h : F.closestEncloserB c k = true) :
    F.view.ClosestEncloser c k := by
  unfold closestEncloserB at h
  simp only [Bool.and_eq_true, bne_iff_ne, ne_eq, List.all_eq_true, Bool.or_eq_true, beq_iff_eq,
    Bool.not_eq_eq_eq_not, Bool.not_true, decide_eq_true_eq] at h
  obtain ⟨⟨⟨h1, h2⟩, h3⟩, h4⟩ := h
  refine ⟨List.isPrefixOf_iff_prefix.1 h1, h2, (exists_iff _ _).2 h3, ?_⟩
  intro c' hp hne hex
  rcases h4 c' (mem_prefixes hp) with (h | h) | h
  · exact absurd h hne
  · rw [(exists_iff _ _).1 hex] at h; cases h
  · exact h

/-- boolean sufficient condition for the claim to be false in `F` -/
def refuteB (F : FinZone) (q : Name) (qtype rcode : Nat) (answers : List Ans) : Bool :=
  let k := canonKey q
  if rcode = 3 then
    F.existsB k || (prefixes k).any fun c => F.closestEncloserB c k && F.existsB (c ++ [Spec.STAR])
  else if rcode = 0 ∧ answers = [] then
    F.dataB k qtype || F.dataB k 5 || (!F.existsB k &&
      (prefixes k).any fun c => F.closestEncloserB c k &&
        (F.dataB (c ++ [Spec.STAR]) qtype || F.dataB (c ++ [Spec.STAR]) 5))
  else if rcode = 0 then
    answers.any fun a => a.secure && match a.rrsigLabels with
      | some l => canonKey a.name == k && decide (l < rfcLabels k) &&
          (prefixes k).any fun p => p.isPrefixOf k && decide (l < p.length) && F.existsB p
      | none => false
  else true

theorem refuteB_sound (F : FinZone) (q : Name) (qtype rcode : Nat) (answers : List Ans)
    (h : F.refuteB q qtype rcode answers = true) : ¬ Claim q qtype rcode answers F.view := by
  unfold refuteB at h
  unfold Claim
  simp only at h ⊢
  by_cases h3 : rcode = 3
  · rw [if_pos h3] at h ⊢
    rintro ⟨hn, hw⟩
    simp only [Bool.or_eq_true, List.any_eq_true, Bool.and_eq_true] at h
    rcases h with h | ⟨c, _, hc, hs⟩
    · exact hn ((exists_iff _ _).2 h)
    · exact hw c (closestEncloserB_sound F c _ hc) ((exists_iff _ _).2 hs)
  · rw [if_neg h3] at h ⊢
    by_cases h0 : rcode = 0 ∧ answers = []
    · rw [if_pos h0] at h ⊢
      rintro ⟨hn, hw⟩
      simp only [Bool.or_eq_true, List.any_eq_true, Bool.and_eq_true, Bool.not_eq_eq_eq_not,
        Bool.not_true] at h
      rcases h with (h | h) | ⟨hne, c, _, hc, hs⟩
      · exact hn.1 ((data_iff _ _ _).2 h)
      · exact hn.2 ((data_iff _ _ _).2 h)
      · have hne' : ¬ F.view.Exists (canonKey q) := by
          rw [exists_iff, hne]; simp
        have := hw hne' c (closestEncloserB_sound F c _ hc)
        rcases hs with hs | hs
        · exact this.1 ((data_iff _ _ _).2 hs)
        · exact this.2 ((data_iff _ _ _).2 hs)
    · rw [if_neg h0] at h ⊢
      by_cases h00 : rcode = 0
      · rw [if_pos h00] at h ⊢
        intro hcl
        simp only [List.any_eq_true, Bool.and_eq_true] at h
        obtain ⟨a, ha, hsec, hm⟩ := h
        cases hl : a.rrsigLabels with
        | none => rw [hl] at hm; cases hm
        | some l =>
          rw [hl] at hm
          simp only [Bool.and_eq_true, beq_iff_eq, decide_eq_true_eq, List.any_eq_true] at hm
          obtain ⟨⟨hk, hlt⟩, p, _, ⟨hp, hlp⟩, hex⟩ := hm
          exact hcl a ha hsec l hl hk hlt p (List.isPrefixOf_iff_prefix.1 hp) hlp
            ((exists_iff _ _).2 hex)
      · rw [if_neg h00]
        exact fun hf => hf

end FinZone

/-- "the records do not entail the claim": a zone view exists whose apex is the SOA owner (if
any), whose chain contains every record, and in which the claim is false.  On such an input a
sound validator must not answer `Secure`. -/
def NotEntailed (q : Name) (qtype : Nat) (soa : Option Name) (rcode : Nat) (answers : List Ans)
    (nsecs : List Nsec) : Prop :=
  ∃ Z : ZoneView, (∀ s, soa = some s → canonKey s = Z.apex) ∧ ConsistentWith nsecs Z ∧
    ¬ Claim q qtype rcode answers Z

theorem notEntailed_of_finZone {q : Name} {qtype : Nat} {soa : Option Name} {rcode : Nat}
    {answers : List Ans} {nsecs : List Nsec} (F : FinZone)
    (hapex : (match soa with | some s => canonKey s == F.apex | none => true) = true)
    (hlinks : nsecs.all (fun r => F.linkB r) = true)
    (href : F.refuteB q qtype rcode answers = true) :
    NotEntailed q qtype soa rcode answers nsecs := by
  refine ⟨F.view, ?_, FinZone.consistent_of_linkB F nsecs hlinks,
    FinZone.refuteB_sound F q qtype rcode answers href⟩
  intro s hs
  subst hs
  simpa [FinZone.view] using hapex

/-- consequence of `soundness`: where the claim is not entailed, the verdict is not `Secure` -/
theorem not_secure_of_notEntailed {q : Name} {qtype : Nat} {soa : Option Name} {rcode : Nat}
    {answers : List Ans} {nsecs : List Nsec} (hwf : InputsWF q soa answers nsecs)
    (h : NotEntailed q qtype soa rcode answers nsecs) :
    verifyNsec q qtype soa rcode answers nsecs ≠ .secure := by
  intro hsec
  obtain ⟨Z, h1, h2, h3⟩ := h
  exact h3 (soundness hwf hsec Z h1 h2)

/-! ### the nine regression inputs: zone views found by the harness oracle, re-checked here -/

namespace Cex
open FinZone

/-- C08-F1a: { a.example. [1, 46, 47]; c.b.example. [1] } -/
def C08_F1a_zone : FinZone := { apex := [[101, 120, 97, 109, 112, 108, 101]], recs := [([[101, 120, 97, 109, 112, 108, 101], [97]], [1, 46, 47]), ([[101, 120, 97, 109, 112, 108, 101], [98], [99]], [1])] }
theorem C08_F1a_must_reject :
    NotEntailed C08_F1a_q 1 C08_F1a_soa 3 C08_F1a_answers C08_F1a_nsecs :=
  notEntailed_of_finZone C08_F1a_zone (by decide) (by decide) (by decide)

/-- C08-F1b: { example. [2, 6, 46, 47]; a.example. [1, 46, 47]; c.b.example. [1] } -/
def C08_F1b_zone : FinZone := { apex := [[101, 120, 97, 109, 112, 108, 101]], recs := [([[101, 120, 97, 109, 112, 108, 101]], [2, 6, 46, 47]), ([[101, 120, 97, 109, 112, 108, 101], [97]], [1, 46, 47]), ([[101, 120, 97, 109, 112, 108, 101], [98], [99]], [1])] }
theorem C08_F1b_must_reject :
    NotEntailed C08_F1b_q 1 C08_F1b_soa 0 C08_F1b_answers C08_F1b_nsecs :=
  notEntailed_of_finZone C08_F1b_zone (by decide) (by decide) (by decide)

/-- C08-F1c: { example. [2, 6, 46, 47]; x.*.example. [1]; a.example. [1, 46, 47]; c.example. [1] } -/
def C08_F1c_zone : FinZone := { apex := [[101, 120, 97, 109, 112, 108, 101]], recs := [([[101, 120, 97, 109, 112, 108, 101]], [2, 6, 46, 47]), ([[101, 120, 97, 109, 112, 108, 101], [42], [120]], [1]), ([[101, 120, 97, 109, 112, 108, 101], [97]], [1, 46, 47]), ([[101, 120, 97, 109, 112, 108, 101], [99]], [1])] }
theorem C08_F1c_must_reject :
    NotEntailed C08_F1c_q 1 C08_F1c_soa 3 C08_F1c_answers C08_F1c_nsecs :=
  notEntailed_of_finZone C08_F1c_zone (by decide) (by decide) (by decide)

/-- C08-F2a: { sub.example. [1, 2, 46, 47]; *.sub.example. [1]; t.example. [1] } -/
def C08_F2a_zone : FinZone := { apex := [[101, 120, 97, 109, 112, 108, 101]], recs := [([[101, 120, 97, 109, 112, 108, 101], [115, 117, 98]], [1, 2, 46, 47]), ([[101, 120, 97, 109, 112, 108, 101], [115, 117, 98], [42]], [1]), ([[101, 120, 97, 109, 112, 108, 101], [116]], [1])] }
theorem C08_F2a_must_reject :
    NotEntailed C08_F2a_q 1 C08_F2a_soa 3 C08_F2a_answers C08_F2a_nsecs :=
  notEntailed_of_finZone C08_F2a_zone (by decide) (by decide) (by decide)

/-- C08-F2b: { sub.example. [1, 2, 46, 47]; t.example. [1] } -/
def C08_F2b_zone : FinZone := { apex := [[101, 120, 97, 109, 112, 108, 101]], recs := [([[101, 120, 97, 109, 112, 108, 101], [115, 117, 98]], [1, 2, 46, 47]), ([[101, 120, 97, 109, 112, 108, 101], [116]], [1])] }
theorem C08_F2b_must_reject :
    NotEntailed C08_F2b_q 1 C08_F2b_soa 0 C08_F2b_answers C08_F2b_nsecs :=
  notEntailed_of_finZone C08_F2b_zone (by decide) (by decide) (by decide)

/-- C08-F3: { *.example. [1, 46, 47]; z.example. [1] } -/
def C08_F3_zone : FinZone := { apex := [[101, 120, 97, 109, 112, 108, 101]], recs := [([[101, 120, 97, 109, 112, 108, 101], [42]], [1, 46, 47]), ([[101, 120, 97, 109, 112, 108, 101], [122]], [1])] }
theorem C08_F3_must_reject :
    NotEntailed C08_F3_q 1 C08_F3_soa 3 C08_F3_answers C08_F3_nsecs :=
  notEntailed_of_finZone C08_F3_zone (by decide) (by decide) (by decide)

/-- C08-F4: { z.w.example. [1, 46, 47]; zz.w.example. [1] } -/
def C08_F4_zone : FinZone := { apex := [[101, 120, 97, 109, 112, 108, 101]], recs := [([[101, 120, 97, 109, 112, 108, 101], [119], [122]], [1, 46, 47]), ([[101, 120, 97, 109, 112, 108, 101], [119], [122, 122]], [1])] }
theorem C08_F4_must_reject :
    NotEntailed C08_F4_q 1 C08_F4_soa 0 C08_F4_answers C08_F4_nsecs :=
  notEntailed_of_finZone C08_F4_zone (by decide) (by decide) (by decide)

/-- C08-F5: { *.example. [16, 46, 47]; ).*.example. [1]; *.*.example. [1] } -/
def C08_F5_zone : FinZone := { apex := [[101, 120, 97, 109, 112, 108, 101]], recs := [([[101, 120, 97, 109, 112, 108, 101], [42]], [16, 46, 47]), ([[101, 120, 97, 109, 112, 108, 101], [42], [41]], [1]), ([[101, 120, 97, 109, 112, 108, 101], [42], [42]], [1])] }
theorem C08_F5_must_reject :
    NotEntailed C08_F5_q 1 C08_F5_soa 0 C08_F5_answers C08_F5_nsecs :=
  notEntailed_of_finZone C08_F5_zone (by decide) (by decide) (by decide)

/-- C08-F6: { a.example. [1, 46, 47]; b.example. [47] } -/
def C08_F6_zone : FinZone := { apex := [[101, 120, 97, 109, 112, 108, 101]], recs := [([[101, 120, 97, 109, 112, 108, 101], [97]], [1, 46, 47]), ([[101, 120, 97, 109, 112, 108, 101], [98]], [47])] }
theorem C08_F6_must_reject :
    NotEntailed C08_F6_q 47 C08_F6_soa 0 C08_F6_answers C08_F6_nsecs :=
  notEntailed_of_finZone C08_F6_zone (by decide) (by decide) (by decide)

end Cex

/-! ### non-vacuity of `soundness` -/

namespace Example
open FinZone

def ex : Name := ⟨[[101, 120]], true⟩                 -- ex.
def a_ex : Name := ⟨[[97], [101, 120]], true⟩          -- a.ex.
def b_ex : Name := ⟨[[98], [101, 120]], true⟩          -- b.ex.
def c_ex : Name := ⟨[[99], [101, 120]], true⟩          -- c.ex.
def w_ex : Name := ⟨[[42], [101, 120]], true⟩          -- *.ex.

/-- the chain of the zone { ex. NS SOA, a.ex. A, c.ex. A } -/
def nsecs : List Nsec :=
  [{ owner := a_ex, next := c_ex, types := [1, 46, 47] },
   { owner := ex, next := a_ex, types := [2, 6, 46, 47] },
   { owner := c_ex, next := ex, types := [1, 46, 47] }]

def zone : FinZone :=
  { apex := [[101, 120]],
    recs := [([[101, 120]], [2, 6, 46, 47]), ([[101, 120], [97]], [1, 46, 47]),
             ([[101, 120], [99]], [1, 46, 47])] }

theorem wf : InputsWF b_ex (some ex) [] nsecs :=
  ⟨rfl, fun s hs => by cases hs; rfl, by decide, by simp⟩

/-- All hypotheses of `soundness` hold together for a non-trivial input (NXDOMAIN for b.ex.
with the three records of a signed zone, accepted as `Secure`, a zone view consistent with the
records) — and so does its conclusion. -/
theorem nonvacuous :
    InputsWF b_ex (some ex) [] nsecs ∧
    verifyNsec b_ex 1 (some ex) 3 [] nsecs = .secure ∧
    (∀ s, some ex = some s → canonKey s = zone.view.apex) ∧
    ConsistentWith nsecs zone.view ∧
    Claim b_ex 1 3 [] zone.view := by
  have h2 : verifyNsec b_ex 1 (some ex) 3 [] nsecs = .secure := by decide
  have h3 : ∀ s, some ex = some s → canonKey s = zone.view.apex := by
    intro s hs; cases hs; decide
  have h4 : ConsistentWith nsecs zone.view := consistent_of_linkB zone nsecs (by decide)
  exact ⟨wf, h2, h3, h4, soundness wf h2 zone.view h3 h4⟩

/-- the other arms are reachable too: NODATA at a.ex. (direct match),
wildcard NODATA and a wildcard-expanded answer in a zone with *.ex. -/
theorem direct_reachable : verifyNsec a_ex 16 (some ex) 0 [] nsecs = .secure := by decide

def nsecsW : List Nsec :=
  [{ owner := ex, next := w_ex, types := [2, 6, 46, 47] },
   { owner := w_ex, next := c_ex, types := [1, 46, 47] },
   { owner := c_ex, next := ex, types := [1, 46, 47] }]

theorem wildcard_nodata_reachable : verifyNsec b_ex 16 (some ex) 0 [] nsecsW = .secure := by
  decide

/-- a.z.w.ex. answered from *.w.ex. (RRSIG labels 2), x.y.w.ex. NSEC xx.ex. (RFC 4035 B.6) -/
theorem wildcard_answer_reachable :
    let q : Name := ⟨[[97], [122], [119], [101, 120]], true⟩
    let cov : Nsec := { owner := ⟨[[120], [121], [119], [101, 120]], true⟩,
                        next := ⟨[[120, 120], [101, 120]], true⟩, types := [1, 46, 47] }
    let answers : List Ans := [{ name := q, secure := true, rrsigLabels := none },
                               { name := q, secure := true, rrsigLabels := some 2 }]
    verifyNsec q 1 none 0 answers [cov] = .secure := by decide

end Example

end HickoryVerif.C08
