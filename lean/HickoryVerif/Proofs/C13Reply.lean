/-
C13, part 3 — `reply_verifies`: the bytes the server MACs for its reply are the bytes the client
MACs when it verifies that reply, including the chaining of the request MAC on both sides.

Server (`TSigResponseContext::sign` → `TSigner::encode_response_tbs`):
    u16(|request MAC|) ‖ request MAC ‖ *unsigned* encoding of the response ‖ TSIG variables of the stub
Client (`TSigVerifier::verify` → `signed_bitmessage_to_buf(reply, Some(request MAC), true)`):
    u16(|request MAC|) ‖ request MAC ‖ received header with id := Original ID, ARCOUNT − 1
                       ‖ reply[12 .. start of TSIG RR) ‖ TSIG variables of the received TSIG RR

The two encodings the server produces (with and without the TSIG RR) come from the same encoder
run on the same records, so the unsigned encoding is the reply cut at the TSIG RR with ARCOUNT − 1
(`unsignedOf`).  The harness checks exactly this on every exchange: the MAC on the wire is the
HMAC of `encode_response_tbs(request MAC, unsignedOf reply, stub)`.
-/
import HickoryVerif.Model.Tsig
import HickoryVerif.Proofs.C13Tbs
import HickoryVerif.Proofs.C13

namespace HickoryVerif.C13
open HickoryVerif HickoryVerif.Tsig

/-- the reply without its TSIG RR (which starts at `start`), ARCOUNT set to `ar` -/
def unsignedOf (reply : Bytes) (start ar : Nat) : Bytes :=
  reply.take 10 ++ be16 ar ++ (reply.take start).drop 12

theorem be16_rd16 {a b : Nat} (ha : a < 256) (hb : b < 256) : be16 (a * 256 + b) = [a, b] := by
  simp only [be16, List.cons.injEq, and_true]; omega

/-- The digested header of a message whose wire id *is* the Original ID is the message's own
first ten octets followed by the new ARCOUNT (octets 2..9 are digested verbatim, Z bit
included). -/
theorem hdrDigest_take10 {b : Bytes} (w : Bytes.WF b) {h : Hdr} (hh : readHdr b = some h)
    (ar : Nat) : hdrDigest b h.id ar = b.take 10 ++ be16 ar := by
  match b, w, hh with
  | a0 :: a1 :: a2 :: a3 :: a4 :: a5 :: a6 :: a7 :: a8 :: a9 :: a10 :: a11 :: rest, w, hh =>
    simp only [readHdr, rd16, List.getElem?_cons_zero, List.getElem?_cons_succ,
      Option.some.injEq] at hh
    subst hh
    have h0 := w a0 (by simp); have h1 := w a1 (by simp)
    simp only [hdrDigest, be16_rd16 h0 h1]
    simp
  | [], _, hh => simp [readHdr, rd16] at hh
  | [_], _, hh => simp [readHdr, rd16] at hh
  | [_, _], _, hh => simp [readHdr, rd16] at hh
  | [_, _, _], _, hh => simp [readHdr, rd16] at hh
  | [_, _, _, _], _, hh => simp [readHdr, rd16] at hh
  | [_, _, _, _, _], _, hh => simp [readHdr, rd16] at hh
  | [_, _, _, _, _, _], _, hh => simp [readHdr, rd16] at hh
  | [_, _, _, _, _, _, _], _, hh => simp [readHdr, rd16] at hh
  | [_, _, _, _, _, _, _, _], _, hh => simp [readHdr, rd16] at hh
  | [_, _, _, _, _, _, _, _, _], _, hh => simp [readHdr, rd16] at hh
  | [_, _, _, _, _, _, _, _, _, _], _, hh => simp [readHdr, rd16] at hh
  | [_, _, _, _, _, _, _, _, _, _, _], _, hh => simp [readHdr, rd16] at hh

/-- the TSIG variables only depend on the names up to case, and on time, fudge, error, other -/
theorem tsigVars_congr {n₁ n₂ : Name} {d₁ d₂ : TsigData}
    (hn : n₁.labels.map Name.lowerLabel = n₂.labels.map Name.lowerLabel)
    (ha : d₁.algName.labels.map Name.lowerLabel = d₂.algName.labels.map Name.lowerLabel)
    (ht : d₁.time = d₂.time) (hf : d₁.fudge = d₂.fudge) (he : d₁.error = d₂.error)
    (ho : d₁.other = d₂.other) : tsigVars n₁ d₁ = tsigVars n₂ d₂ := by
  simp only [tsigVars, lowerWire, Name.wire, Name.toLowercase, hn, ha, ht, hf, he, ho]

/--
**The reply verifies.**  Let the client derive `t` from `reply` with the request MAC chained in
(`signed_bitmessage_to_buf(reply, Some(reqMac), true)`), finding the TSIG RR `s`.  If that RR is
the one `TSigResponseContext::sign` builds from the stub — owner = the signer's name and
algorithm (in any case / compression), the stub's time, fudge, error and (empty) other data — the
reply header carries the Original ID as its id, then
`t` is byte for byte what the server signed: `encode_response_tbs(reqMac, unsigned reply, stub)`.
-/
theorem reply_verifies {reply reqMac t : Bytes} {rdok : Bool} {s : SigRec} {hd : Hdr}
    (w : Bytes.WF reply)
    (h : signedBitmessageToBuf reply (some reqMac) true rdok = .ok (t, s))
    (hh : readHdr reply = some hd)
    (sg : Signer) (stub : TsigData)
    (hid : hd.id = s.data.oid)
    (hname : s.name.labels.map Name.lowerLabel = sg.name.labels.map Name.lowerLabel)
    (halg : s.data.algName.labels.map Name.lowerLabel = stub.algName.labels.map Name.lowerLabel)
    (htime : s.data.time = stub.time) (hfudge : s.data.fudge = stub.fudge)
    (herr : s.data.error = stub.error) (hother : s.data.other = stub.other) :
    t = encodeResponseTbs sg reqMac (unsignedOf reply s.start (hd.ar - 1)) stub := by
  obtain ⟨hd', hh', _, ht, _, _, _⟩ := signed_ok h
  rw [hh] at hh'; cases hh'
  rw [ht]
  simp only [tbsOf, encodeResponseTbs, prevPart, unsignedOf, if_true, List.append_assoc]
  rw [← hid, hdrDigest_take10 w hh, tsigVars_congr hname halg htime hfudge herr hother,
    List.drop_take]
  simp only [List.append_assoc]

/-- Conversely the *request* direction: what the client signs (`message_tbs`: the unsigned request
encoding followed by the TSIG variables of its stub) is what the server derives from the signed
request, under the same correspondence between the two encodings. -/
theorem request_verifies {req t : Bytes} {rdok : Bool} {s : SigRec} {hd : Hdr}
    (w : Bytes.WF req)
    (h : signedBitmessageToBuf req none true rdok = .ok (t, s))
    (hh : readHdr req = some hd)
    (keyName : Name) (stub : TsigData)
    (hid : hd.id = s.data.oid)
    (hname : s.name.labels.map Name.lowerLabel = keyName.labels.map Name.lowerLabel)
    (halg : s.data.algName.labels.map Name.lowerLabel = stub.algName.labels.map Name.lowerLabel)
    (htime : s.data.time = stub.time) (hfudge : s.data.fudge = stub.fudge)
    (herr : s.data.error = stub.error) (hother : s.data.other = stub.other) :
    t = unsignedOf req s.start (hd.ar - 1) ++ tsigVars keyName stub := by
  obtain ⟨hd', hh', _, ht, _, _, _⟩ := signed_ok h
  rw [hh] at hh'; cases hh'
  rw [ht]
  simp only [tbsOf, prevPart, unsignedOf, if_true, List.append_assoc, List.nil_append]
  rw [← hid, hdrDigest_take10 w hh, tsigVars_congr hname halg htime hfudge herr hother,
    List.drop_take]
  simp only [List.append_assoc]

/-! ### consequences of the MAC oracle assumption -/

/-- The assumption about HMAC (trusted base): the verification oracle of a key accepts exactly
the full-length tag of exactly the bytes it was computed over, and — the idealisation of
unforgeability that can be *stated* — different byte strings have different tags. -/
structure MacOracle (sg : Signer) (tag : Bytes → Bytes) : Prop where
  iff : ∀ t m, sg.macOK t m = true ↔ m = tag t
  len : ∀ t, (tag t).length = outLen sg.alg
  inj : ∀ t₁ t₂, tag t₁ = tag t₂ → t₁ = t₂

/-- A MAC of any other length than the algorithm's full output is never accepted (shorter: the
explicit length check; longer: the oracle compares whole tags). -/
theorem truncated_mac_rejected {sg : Signer} {tag : Bytes → Bytes} (O : MacOracle sg tag)
    {buf : Bytes} {prev : Option Bytes} {first rdok : Bool} {v : Verified}
    (h : verifyMessageByte sg buf prev first rdok = .ok v) : v.mac.length = outLen sg.alg := by
  obtain ⟨tbs, r, _, _, _, _, hm, hv⟩ := verifyMessageByte_ok h
  rw [hv]; simp only
  rw [(O.iff _ _).mp hm, O.len]

/-- **A modification inside the authenticated region is rejected.**  `b₁` verifies; `b₂` carries
the same MAC but differs from `b₁` in some octet between the header and the TSIG RR: then `b₂`
does not verify (under the MAC oracle assumption).  The same holds for header octets 2..9,
ARCOUNT, the Original ID and the TSIG variables — every item listed by `tbs_injective`. -/
theorem mutation_rejected {sg : Signer} {tag : Bytes → Bytes} (O : MacOracle sg tag)
    {b₁ b₂ : Bytes} {prev : Option Bytes} {first rd₁ rd₂ : Bool} {v₁ : Verified}
    {t₁ : Bytes} {s₁ : SigRec}
    (w₁ : Bytes.WF b₁) (w₂ : Bytes.WF b₂)
    (h₁ : verifyMessageByte sg b₁ prev first rd₁ = .ok v₁)
    (hs₁ : signedBitmessageToBuf b₁ prev first rd₁ = .ok (t₁, s₁))
    (hmac : ∀ t₂ s₂, signedBitmessageToBuf b₂ prev first rd₂ = .ok (t₂, s₂) →
      s₂.data.mac = s₁.data.mac)
    (hdiff : ∃ i, 12 ≤ i ∧ i < s₁.start ∧ b₁[i]? ≠ b₂[i]?) :
    ∀ v₂, verifyMessageByte sg b₂ prev first rd₂ ≠ .ok v₂ := by
  intro v₂ h₂
  obtain ⟨t₁', r₁, e₁, _, _, _, m₁, _⟩ := verifyMessageByte_ok h₁
  obtain ⟨t₂, r₂, e₂, _, _, _, m₂, _⟩ := verifyMessageByte_ok h₂
  rw [hs₁] at e₁
  simp only [Outcome.ok.injEq, Prod.mk.injEq] at e₁
  obtain ⟨rfl, rfl⟩ := e₁
  have hm := hmac _ _ e₂
  have a := (O.iff _ _).mp m₁
  have b := (O.iff _ _).mp m₂
  rw [hm, a] at b
  have ht : t₁ = t₂ := O.inj _ _ b
  subst ht
  obtain ⟨_, _, _, _, _, _, _, _, hag, _⟩ := tbs_injective w₁ w₂ hs₁ e₂
  obtain ⟨i, h1, h2, h3⟩ := hdiff
  exact h3 (hag i h1 h2)

end HickoryVerif.C13
