/-
C09 — non-vacuity: the hypotheses of the soundness theorems of `Proofs/C09.lean` are satisfiable
together by a concrete, non-trivial value (an order-embedding encoder, a hash table, a zone view, a
record list consistent with it, and a `Secure` verdict), so the theorems do not hold vacuously.
-/
import HickoryVerif.Proofs.C09
import HickoryVerif.Proofs.C09Findings
import HickoryVerif.Proofs.C09Complete

namespace HickoryVerif.C09
open HickoryVerif HickoryVerif.Nsec3 HickoryVerif.Denial3 Std

/-- a toy order-embedding encoder: shifts every octet out of the ASCII-letter range -/
def encShift (x : Bytes) : Bytes := x.map (· + 200)

theorem lowerLabel_shift (x : Bytes) : Name.lowerLabel (encShift x) = encShift x := by
  simp only [Name.lowerLabel, encShift, List.map_map]
  apply List.map_congr_left
  intro a _
  simp [Name.lowerByte]

theorem compare_add (a b : Nat) : compare (a + 200) (b + 200) = compare a b := by
  rcases Nat.lt_trichotomy a b with h | h | h
  · rw [Nat.compare_eq_lt.mpr h, Nat.compare_eq_lt.mpr (by omega)]
  · subst h; simp
  · rw [Nat.compare_eq_gt.mpr h, Nat.compare_eq_gt.mpr (by omega)]

theorem compare_shift (x y : Bytes) : compare (encShift x) (encShift y) = compare x y := by
  induction x generalizing y with
  | nil => cases y <;> rfl
  | cons a x ih =>
    cases y with
    | nil => rfl
    | cons b y =>
      have := ih y
      simp only [encShift] at this
      simp only [encShift, List.map_cons, List.compare_cons_cons, compare_add, this]

/-- `EncOrd` is satisfiable -/
theorem encOrd_shift : EncOrd encShift := by
  intro x y _ _
  rw [C04.cmpLabel_ci, lowerLabel_shift, lowerLabel_shift, compare_shift]

/-- zone `z.` with `a.z. {A}`; hashes as in `H0` -/
def Zex : ZoneView :=
  { apex := [[122]]
    types := fun n => if n = [[122]] then some [2, 6] else if n = [[97], [122]] then some [1] else none }

theorem Zex_has {n : List Bytes} (h : Zex.has n) : n = [[122]] ∨ n = [[97], [122]] := by
  simp only [ZoneView.has, Zex] at h
  split at h
  · left; assumption
  · split at h
    · right; assumption
    · simp at h

theorem Zex_wf : Zex.WF := by
  refine ⟨?_, ?_, ?_⟩
  · intro n h
    rcases Zex_has h with rfl | rfl <;> simp [Zex]
  · intro l ls h hlen
    rcases Zex_has h with h | h
    · simp only [List.cons.injEq] at h
      obtain ⟨_, rfl⟩ := h
      simp [Zex] at hlen
    · simp only [List.cons.injEq] at h
      obtain ⟨_, rfl⟩ := h
      simp [ZoneView.has, Zex]
  · intro ls ⟨ts, h, _⟩
    have : Zex.has ([42] :: ls) := by simp [ZoneView.has, h]
    rcases Zex_has this with h | h <;> simp at h

/-- the NSEC3 record of `a.z.` (owner hash 02, next 01: the last link of the ring) -/
def recA : Rec :=
  { owner := ⟨[encShift [2], [122]], true⟩, next := [1], optOut := false, iterations := 0, salt := [],
    types := [1] }

theorem consistent_ex : ConsistentWith3 H0 encShift [recA] Zex := by
  intro r hr
  simp only [List.mem_singleton] at hr
  subst hr
  refine ⟨encShift [2], [[122]], [[97], [122]], [1], rfl, by decide, by simp [Zex], by decide,
    fun t => Iff.rfl, ?_⟩
  intro m hm hin
  exfalso
  rcases Zex_has hm with rfl | rfl
  · revert hin; decide
  · revert hin; decide

theorem noCollisions_ex : NoCollisions H0 Zex [[97], [122]] := by
  intro a ha
  have hcases : a = [[97], [122]] ∨ a = [[122]] ∨ a = [] := by
    simpa [List.suffix_cons_iff] using ha
  constructor <;> intro n hn heq <;> rcases Zex_has hn with rfl | rfl <;>
    rcases hcases with rfl | rfl | rfl <;> first | rfl | (revert heq; decide)

theorem hashWF_ex : HashWF H0 [recA] := by
  refine ⟨?_, ?_⟩
  · intro n
    simp only [H0]
    split
    · decide
    · split
      · decide
      · split <;> decide
  · intro r hr
    simp only [List.mem_singleton] at hr
    subst hr
    decide

/-- the verdict: NODATA for `a.z. TXT` is `Secure` for the fully repaired and for the current code -/
theorem secure_ex :
    verifyNsec3 allFixed H0 encShift (mk [[97], [122]]) 16 (some (mk [[122]])) rcNoError none
      [recA] 100 500 = .secure ∧
    verifyNsec3 current H0 encShift (mk [[97], [122]]) 16 (some (mk [[122]])) rcNoError none
      [recA] 100 500 = .secure := by decide

/-- … and the soundness theorem applies: `a.z.` has no TXT, no CNAME and is not a delegation. -/
example : ClaimNoData Zex [[97], [122]] 16 ∨ ClaimWildcardNoData Zex [[97], [122]] 16 :=
  (verify_nodata_sound encOrd_shift hashWF_ex secure_ex.1 Zex_wf consistent_ex noCollisions_ex
    (.inl rfl) (.inl rfl) (.inl rfl) (.inl rfl)).2 (by decide)

/-! non-vacuity of the completeness hypotheses: the apex record `01 → 0a` is a closest encloser
proof for `a.z.` (closest encloser `z.`) and covers the wildcard `*.z.` -/

def apexPair : Pair :=
  { label := encShift [1]
    data := { owner := ⟨[encShift [1], [122]], true⟩, next := [10], optOut := false, iterations := 0,
              salt := [], types := [2, 6] } }

theorem hasCover_ex (t : List Bytes) (h : Inside [1] [10] (H0 (mk t))) :
    HasCover H0 encShift [apexPair] t :=
  ⟨apexPair, by simp, [1], by decide, by decide, by decide, by decide, h⟩

theorem hasCEProof_ex : HasCEProof H0 encShift (mk [[122]]) [apexPair] [] [97] [[122]] := by
  refine ⟨by decide, ?_, ?_, ⟨apexPair, by simp, by decide⟩, hasCover_ex _ (by decide)⟩
  · intro i hi
    have : i = 0 := by simp at hi; omega
    subst this
    decide
  · intro i hi p hp
    have : i = 0 := by simp at hi; omega
    subst this
    simp only [List.mem_singleton] at hp
    subst hp
    decide

example : validateNxdomain current H0 encShift (mk [[97], [122]]) (some (mk [[122]])) [apexPair]
    = .secure :=
  nxdomain_complete encOrd_shift hashWF_ex.hash hasCEProof_ex (hasCover_ex _ (by decide))
    ⟨mk [[42], [122]], by decide⟩
    (.inr (by intro p hp; simp only [List.mem_singleton] at hp; subst hp; decide)) (.inl rfl)

end HickoryVerif.C09
