/-
C15 — Cached answers expire on time and TTLs only count down.
Property theorems about `Model/Cache.lean` (the model of crates/resolver/src/cache.rs) against
`Spec/CacheTtl.lean`.  All history theorems are lifted from one invariant (`lookup_run`) proved by
induction over the operation list: after any history the cache holds, for every query, exactly the
entry built from the last cacheable insert of that query since the last clear.
-/
import HickoryVerif.Model.Cache
import HickoryVerif.Spec.CacheTtl

namespace HickoryVerif.C15
open HickoryVerif HickoryVerif.Cache HickoryVerif.Spec.CacheTtl

/-! ### configurations -/

/-- every configured `TtlBounds` has `min ≤ max` (both pairs, as `Duration`s, defaults filled in) -/
def DurOK (cfg : TtlConfig) : Prop := cfg.durOK = true

theorem lookupBounds_mem {l : List (Nat × Bounds)} {ty : Nat} {b : Bounds}
    (h : lookupBounds l ty = some b) : ∃ k, (k, b) ∈ l := by
  induction l with
  | nil => simp [lookupBounds] at h
  | cons p rest ih =>
    obtain ⟨k, b'⟩ := p
    simp only [lookupBounds] at h
    split at h
    · exact ⟨k, by simp_all⟩
    · obtain ⟨k', hk⟩ := ih h
      exact ⟨k', List.mem_cons_of_mem _ hk⟩

theorem boundsFor_cases (cfg : TtlConfig) (ty : Nat) :
    cfg.boundsFor ty = cfg.default ∨ ∃ k, (k, cfg.boundsFor ty) ∈ cfg.byType := by
  unfold TtlConfig.boundsFor
  cases h : lookupBounds cfg.byType ty with
  | none => left; rfl
  | some b => right; exact lookupBounds_mem h

theorem durOK_for {cfg : TtlConfig} (h : DurOK cfg) (ty : Nat) : (cfg.boundsFor ty).durOK = true := by
  unfold DurOK TtlConfig.durOK at h
  simp only [Bool.and_eq_true, List.all_eq_true] at h
  rcases boundsFor_cases cfg ty with e | ⟨k, hk⟩
  · rw [e]; exact h.1
  · exact h.2 _ hk

theorem posBounds_le {cfg : TtlConfig} (h : DurOK cfg) (ty : Nat) :
    (cfg.posBounds ty).1 ≤ (cfg.posBounds ty).2 := by
  have := durOK_for h ty
  simp only [Bounds.durOK, Bool.and_eq_true, decide_eq_true_eq] at this
  exact this.1

theorem negBounds_le {cfg : TtlConfig} (h : DurOK cfg) (ty : Nat) :
    (cfg.negBounds ty).1 ≤ (cfg.negBounds ty).2 := by
  have := durOK_for h ty
  simp only [Bounds.durOK, Bool.and_eq_true, decide_eq_true_eq] at this
  exact this.2

theorem secsU32_le (d : Nat) : secsU32 d ≤ U32MAX := by
  unfold secsU32; split
  · assumption
  · exact Nat.le_refl _

/-- the saturating conversion to whole `u32` seconds is monotone … -/
theorem secsU32_mono {a b : Nat} (h : a ≤ b) : secsU32 a ≤ secsU32 b := by
  unfold secsU32
  have : a / NS ≤ b / NS := Nat.div_le_div_right h
  split <;> split <;> omega

/-- … so an ordered `Duration` pair always gives an ordered `u32` pair for the per-record clamp. -/
theorem posBoundsSecs_le {cfg : TtlConfig} (h : DurOK cfg) (ty : Nat) :
    (cfg.posBoundsSecs ty).1 ≤ (cfg.posBoundsSecs ty).2 := by
  unfold TtlConfig.posBoundsSecs
  exact secsU32_mono (posBounds_le h ty)

/-! ### the code's clamp is the mathematical clamp when `min ≤ max` -/

theorem clamp_ok {x mn mx : Nat} (h : mn ≤ mx) : clamp x mn mx = .ok (clampM x mn mx) := by
  unfold clamp clampM
  rw [if_pos h]
  congr 1
  split
  · omega
  · split <;> omega

theorem clamp_panic {x mn mx : Nat} (h : ¬ mn ≤ mx) : clamp x mn mx = .panic "clamp" := by
  unfold clamp; rw [if_neg h]

theorem clampM_ge (x : Nat) {mn mx : Nat} : mn ≤ clampM x mn mx := by unfold clampM; omega
theorem clampM_le (x : Nat) {mn mx : Nat} (h : mn ≤ mx) : clampM x mn mx ≤ mx := by unfold clampM; omega
theorem clampM_mono {x y : Nat} (mn mx : Nat) (h : x ≤ y) : clampM x mn mx ≤ clampM y mn mx := by
  unfold clampM; omega

/-! ### `insert` computes the specified stored result and lifetime -/

theorem clampRec_ok {cfg : TtlConfig} (h : DurOK cfg) (r : Rec) :
    clampRec cfg r = .ok (storedRec cfg r) := by
  unfold clampRec storedRec storedTtl
  simp [clamp_ok (posBoundsSecs_le h r.rtype)]

theorem clampRecs_ok {cfg : TtlConfig} (h : DurOK cfg) (rs : List Rec) :
    clampRecs cfg rs = .ok (rs.map (storedRec cfg)) := by
  induction rs with
  | nil => rfl
  | cons r rs ih => simp [clampRecs, clampRec_ok h, ih]

theorem minOpt_eq (l : List Nat) : minOpt l = l.min? := by
  induction l with
  | nil => rfl
  | cons x xs ih =>
    rw [minOpt, ih, List.min?_cons]
    cases xs.min? with
    | none => rfl
    | some m =>
      simp only [Option.elim]
      congr 1

theorem clampPositive_ok {cfg : TtlConfig} (hd : DurOK cfg) (qt : Nat) (m : Msg) :
    clampPositive cfg qt m = .ok (posLife cfg qt m, storedMsg cfg m) := by
  unfold clampPositive
  simp only [clampRecs_ok hd, Outcome.bind_ok, clamp_ok (posBounds_le hd qt), minOpt_eq]
  rfl

theorem negTtlOf_ok {cfg : TtlConfig} (hd : DurOK cfg) (qt : Nat) (n : NoRec) :
    negTtlOf cfg qt n = .ok (negLife cfg qt n.negTtl) := by
  unfold negTtlOf negLife
  cases n.negTtl with
  | none => rfl
  | some t => simp [clamp_ok (negBounds_le hd qt)]

/-- The instant up to which an entry inserted at `t` is served: `t + L`; when that is not a
representable `Instant` (an `L` of billions of years), the earlier `t + u32::MAX s`. -/
def expiry (cfg : TtlConfig) (q : Query) (p : Res × Nat) : Nat :=
  if p.2 + lifetime cfg q.qtype p.1 < INSTANT_LIMIT then p.2 + lifetime cfg q.qtype p.1
  else p.2 + U32MAX * NS

/-- The entry the specification expects for an insert of `r` at instant `t`. -/
def entryOf (cfg : TtlConfig) (q : Query) (p : Res × Nat) : Entry :=
  { result := stored cfg p.1, t0 := p.2, validUntil := expiry cfg q p }

/-- an insert instant that leaves room for the fall-back `now + u32::MAX s` -/
def InstantOK (t : Nat) : Prop := t + U32MAX * NS < INSTANT_LIMIT

theorem store_ok (s : State) (q : Query) (r : Res) (t ttl : Nat) (ht : InstantOK t) :
    store s q r t ttl = .ok (s.put q ⟨r, t, if t + ttl < INSTANT_LIMIT then t + ttl else t + U32MAX * NS⟩) := by
  unfold store instantAdd
  unfold InstantOK at ht
  by_cases h : t + ttl < INSTANT_LIMIT
  · simp [h]
  · simp [h, ht]

theorem insert_ok {cfg : TtlConfig} (hd : DurOK cfg) (s : State) (q : Query)
    (r : Res) (t : Nat) (hc : cacheable r = true) (ht : InstantOK t) :
    Cache.insert cfg s q r t = .ok (s.put q (entryOf cfg q (r, t))) := by
  cases r with
  | pos m =>
    simp only [Cache.insert, clampPositive_ok hd, Outcome.bind_ok, store_ok _ _ _ _ _ ht]
    rfl
  | neg n =>
    simp only [Cache.insert, negTtlOf_ok hd, Outcome.bind_ok, store_ok _ _ _ _ _ ht]
    rfl
  | other k => simp [cacheable] at hc

theorem expiry_le {cfg : TtlConfig} {q : Query} {p : Res × Nat} (ht : InstantOK p.2) :
    expiry cfg q p ≤ p.2 + lifetime cfg q.qtype p.1 := by
  unfold expiry
  unfold InstantOK at ht
  split
  · exact Nat.le_refl _
  · omega

/-- **Transient errors are never cached**: inserting anything but a positive answer or
`NoRecordsFound` leaves the cache exactly as it was (for every configuration, even a broken one). -/
theorem transient_not_cached (cfg : TtlConfig) (s : State) (q : Query) (r : Res) (t : Nat)
    (h : cacheable r = false) : Cache.insert cfg s q r t = .ok s := by
  cases r with
  | other k => rfl
  | pos m => simp [cacheable] at h
  | neg n => simp [cacheable] at h

example : cacheable (.other 7) = false := rfl

/-! ### the association list behaves like a map -/

theorem erase_cons (k : Query) (e : Entry) (rest : State) (q : Query) :
    State.erase ((k, e) :: rest) q = if k = q then State.erase rest q else (k, e) :: State.erase rest q := by
  unfold State.erase
  rw [List.filter_cons]
  by_cases hk : k = q <;> simp [hk]

theorem lookup_erase_self (s : State) (q : Query) : (s.erase q).lookup q = none := by
  induction s with
  | nil => rfl
  | cons p rest ih =>
    obtain ⟨k, e⟩ := p
    rw [erase_cons]
    by_cases hk : k = q
    · simp [hk, ih]
    · simp [hk, State.lookup, ih]

theorem lookup_erase_ne (s : State) {q q' : Query} (h : q' ≠ q) :
    (s.erase q).lookup q' = s.lookup q' := by
  induction s with
  | nil => rfl
  | cons p rest ih =>
    obtain ⟨k, e⟩ := p
    rw [erase_cons]
    by_cases hk : k = q
    · have : k ≠ q' := by rw [hk]; exact fun e => h e.symm
      simp [hk, State.lookup, ih, Ne.symm h]
    · by_cases hq : k = q'
      · subst hq; simp [hk, State.lookup]
      · simp [hk, State.lookup, hq, ih]

theorem lookup_put (s : State) (q q' : Query) (e : Entry) :
    (s.put q e).lookup q' = if q' = q then some e else s.lookup q' := by
  unfold State.put
  by_cases h : q' = q
  · simp [State.lookup, h]
  · have : q ≠ q' := fun e => h e.symm
    simp [State.lookup, h, this, lookup_erase_ne s h]

/-- keys stay unique (the `HashMap` reading of the list is faithful) -/
def NoDupKeys (s : State) : Prop := (s.map (·.1)).Nodup

theorem erase_keys_sub (s : State) (q : Query) : ∀ k ∈ (s.erase q).map (·.1), k ∈ s.map (·.1) ∧ k ≠ q := by
  intro k hk
  simp only [State.erase, List.mem_map, List.mem_filter, decide_eq_true_eq] at hk
  obtain ⟨p, ⟨hp, hne⟩, rfl⟩ := hk
  exact ⟨List.mem_map.2 ⟨p, hp, rfl⟩, hne⟩

theorem nodup_erase {s : State} (h : NoDupKeys s) (q : Query) : NoDupKeys (s.erase q) := by
  unfold NoDupKeys State.erase at *
  exact (List.filter_sublist.map _).nodup h

theorem nodup_put {s : State} (h : NoDupKeys s) (q : Query) (e : Entry) : NoDupKeys (s.put q e) := by
  unfold State.put NoDupKeys
  simp only [List.map_cons, List.nodup_cons]
  exact ⟨fun hm => (erase_keys_sub s q q hm).2 rfl, nodup_erase h q⟩

/-! ### histories -/

/-- Every insert of the history happens at an instant that leaves `u32::MAX s` of room in
`Instant`'s range (a condition on the instants only; any real clock satisfies it). -/
def TimesSane (ops : List Op) : Prop := ∀ q r t, Op.ins q r t ∈ ops → InstantOK t

/-- state `s` holds exactly the entries that history summary `h` prescribes -/
def Agrees (cfg : TtlConfig) (s : State) (h : Hist) : Prop :=
  ∀ q, s.lookup q = (h q).map (entryOf cfg q)

theorem agrees_step {cfg : TtlConfig} (hd : DurOK cfg) {s : State} {h : Hist}
    (ha : Agrees cfg s h) (op : Op)
    (hr : ∀ q r t, op = .ins q r t → InstantOK t) :
    Agrees cfg (stepOp cfg s op) (trackOp h op) := by
  cases op with
  | ins q r t =>
    by_cases hc : cacheable r = true
    · intro q'
      simp only [stepOp, insert_ok hd s q r t hc (hr q r t rfl), trackOp, hc, if_true, lookup_put]
      by_cases hq : q' = q
      · simp [hq]
      · simp [hq, ha q']
    · have hc' : cacheable r = false := by simpa using hc
      intro q'
      simp only [stepOp, transient_not_cached cfg s q r t hc', trackOp, hc']
      simpa using ha q'
  | get q t => exact ha
  | clear => intro q; simp [stepOp, clear, State.lookup, trackOp]
  | clearQuery q =>
    intro q'
    simp only [stepOp, clearQuery, trackOp]
    by_cases hq : q' = q
    · simp [hq, lookup_erase_self]
    · simp [hq, lookup_erase_ne s hq, ha q']

theorem agrees_run {cfg : TtlConfig} (hd : DurOK cfg) (ops : List Op) :
    ∀ {s : State} {h : Hist}, Agrees cfg s h → TimesSane ops →
      Agrees cfg (run cfg s ops) (ops.foldl trackOp h) := by
  induction ops with
  | nil => intro s h ha _; exact ha
  | cons op ops ih =>
    intro s h ha hr
    simp only [run, List.foldl_cons]
    apply ih
    · exact agrees_step hd ha op (fun q r t e => hr q r t (by simp [e]))
    · intro q r t hm; exact hr q r t (List.mem_cons_of_mem _ hm)

/-- **The invariant, lifted to every reachable state**: after any history the cache holds for each
query exactly the entry of its last cacheable insert since the last clear. -/
theorem lookup_run {cfg : TtlConfig} (hd : DurOK cfg) (ops : List Op)
    (hr : TimesSane ops) (q : Query) :
    (run cfg [] ops).lookup q = (track ops q).map (entryOf cfg q) :=
  agrees_run hd ops (s := []) (h := fun _ => none) (fun _ => rfl) hr q

theorem store_cases (s : State) (q : Query) (r : Res) (now ttl : Nat) :
    (∃ e, store s q r now ttl = .ok (s.put q e)) ∨ store s q r now ttl = .panic "instant" := by
  unfold store instantAdd
  split
  · left; exact ⟨_, rfl⟩
  · split
    · left; exact ⟨_, rfl⟩
    · right; rfl

/-- an insert either leaves the cache alone (ignored error, or panic before the map is touched)
or puts one entry under the inserted key -/
theorem stepOp_ins_cases (cfg : TtlConfig) (s : State) (q : Query) (r : Res) (t : Nat) :
    stepOp cfg s (.ins q r t) = s ∨ ∃ e, stepOp cfg s (.ins q r t) = s.put q e := by
  simp only [stepOp]
  cases r with
  | other k => left; rfl
  | pos m =>
    simp only [Cache.insert]
    cases clampPositive cfg q.qtype m with
    | ok lm =>
      simp only [Outcome.bind_ok]
      rcases store_cases s q (.pos lm.2) t lm.1 with ⟨e, he⟩ | he
      · right; exact ⟨e, by rw [he]⟩
      · left; rw [he]
    | err => left; rfl
    | panic _ => left; rfl
  | neg n =>
    simp only [Cache.insert]
    cases negTtlOf cfg q.qtype n with
    | ok ttl =>
      simp only [Outcome.bind_ok]
      rcases store_cases s q (.neg n) t ttl with ⟨e, he⟩ | he
      · right; exact ⟨e, by rw [he]⟩
      · left; rw [he]
    | err => left; rfl
    | panic _ => left; rfl

theorem nodup_run (cfg : TtlConfig) (ops : List Op) :
    ∀ {s : State}, NoDupKeys s → NoDupKeys (run cfg s ops) := by
  induction ops with
  | nil => intro s h; exact h
  | cons op ops ih =>
    intro s h
    simp only [run, List.foldl_cons]
    apply ih
    cases op with
    | ins q r t =>
      rcases stepOp_ins_cases cfg s q r t with e | ⟨en, e⟩
      · rw [e]; exact h
      · rw [e]; exact nodup_put h _ _
    | get q t => exact h
    | clear => simp [stepOp, clear, NoDupKeys]
    | clearQuery q => exact nodup_erase h q

/-- the tracked insert really is an operation of the history -/
theorem track_mem (ops : List Op) : ∀ (h : Hist) (q : Query) (r : Res) (t : Nat),
    ops.foldl trackOp h q = some (r, t) → h q = some (r, t) ∨ (Op.ins q r t ∈ ops ∧ cacheable r = true) := by
  induction ops with
  | nil => intro h q r t hx; left; exact hx
  | cons op ops ih =>
    intro h q r t hx
    simp only [List.foldl_cons] at hx
    rcases ih _ q r t hx with h1 | h1
    · cases op with
      | ins q' r' t' =>
        simp only [trackOp] at h1
        by_cases hc : cacheable r' = true
        · simp only [hc, if_true] at h1
          by_cases hq : q = q'
          · simp only [hq, if_true, Option.some.injEq, Prod.mk.injEq] at h1
            right; simp [hq, h1.1.symm, h1.2.symm, hc]
          · simp only [hq, if_false] at h1; left; exact h1
        · simp only [hc] at h1; left; exact h1
      | get q' t' => left; exact h1
      | clear => simp [trackOp] at h1
      | clearQuery q' =>
        simp only [trackOp] at h1
        by_cases hq : q = q'
        · simp [hq] at h1
        · simp only [hq, if_false] at h1; left; exact h1
    · right; exact ⟨List.mem_cons_of_mem _ h1.1, h1.2⟩

theorem track_ins {ops : List Op} {q : Query} {r : Res} {t : Nat} (h : track ops q = some (r, t)) :
    Op.ins q r t ∈ ops ∧ cacheable r = true := by
  rcases track_mem ops _ q r t h with h1 | h1
  · simp at h1
  · exact h1

/-- what `get` answers after a history, in terms of the history alone -/
theorem get_run {cfg : TtlConfig} (hd : DurOK cfg) (ops : List Op)
    (hr : TimesSane ops) (q : Query) (now : Nat) (res : Res)
    (hg : Cache.get (run cfg [] ops) q now = some res) :
    ∃ r0 t0, track ops q = some (r0, t0) ∧ now ≤ expiry cfg q (r0, t0) ∧
      now ≤ t0 + lifetime cfg q.qtype r0 ∧ res = (stored cfg r0).decr (elapsedOf t0 now) := by
  unfold Cache.get at hg
  rw [lookup_run hd ops hr q] at hg
  cases ht : track ops q with
  | none => simp [ht] at hg
  | some p =>
    obtain ⟨r0, t0⟩ := p
    simp only [ht, Option.map_some, Entry.isCurrent, entryOf, decide_eq_true_eq] at hg
    split at hg
    · rename_i hle
      have hok : InstantOK t0 := hr q r0 t0 (track_ins ht).1
      refine ⟨r0, t0, rfl, hle, Nat.le_trans hle (expiry_le (p := (r0, t0)) hok), ?_⟩
      simp only [Option.some.injEq] at hg
      rw [← hg]; rfl
    · simp at hg

/-! ### the property theorems -/

/-- **Never stale.**  For every configuration with ordered bounds and every history: if
`get(q, now)` answers, then the last cacheable insert `(r0, t0)` of `q` since the last clear
exists and `now ≤ t0 + L`, `L = lifetime cfg q.qtype r0` being the `L` of the property. -/
theorem never_stale {cfg : TtlConfig} (hd : DurOK cfg) (ops : List Op)
    (hr : TimesSane ops) (q : Query) (now : Nat) (res : Res)
    (hg : Cache.get (run cfg [] ops) q now = some res) :
    ∃ r0 t0, track ops q = some (r0, t0) ∧ Op.ins q r0 t0 ∈ ops ∧
      now ≤ t0 + lifetime cfg q.qtype r0 := by
  obtain ⟨r0, t0, ht, _, hle, _⟩ := get_run hd ops hr q now res hg
  exact ⟨r0, t0, ht, (track_ins ht).1, hle⟩

/-- Converse of `never_stale` (not demanded by the property; it shows the theorems do not hold
vacuously because the model would never answer): up to and including its expiry instant — `t0 + L`
whenever that is a representable `Instant` — the entry is served. -/
theorem served_while_fresh {cfg : TtlConfig} (hd : DurOK cfg) (ops : List Op)
    (hr : TimesSane ops) (q : Query) (now : Nat) (r0 : Res) (t0 : Nat)
    (ht : track ops q = some (r0, t0)) (hle : now ≤ expiry cfg q (r0, t0)) :
    Cache.get (run cfg [] ops) q now = some ((stored cfg r0).decr (elapsedOf t0 now)) := by
  unfold Cache.get
  rw [lookup_run hd ops hr q, ht]
  simp only [Option.map_some, Entry.isCurrent, entryOf, decide_eq_true_eq, if_pos hle]
  rfl

/-- The `L` of a positive answer lies within the positive bounds of the query type and is at most
the clamped value of every stored TTL of a record of the queried type or CNAME. -/
theorem posLife_bounds {cfg : TtlConfig} (hd : DurOK cfg) (qt : Nat) (m : Msg) :
    (cfg.posBounds qt).1 ≤ posLife cfg qt m ∧ posLife cfg qt m ≤ (cfg.posBounds qt).2 :=
  ⟨clampM_ge _, clampM_le _ (posBounds_le hd qt)⟩

theorem posLife_le_record {cfg : TtlConfig} (qt : Nat) (m : Msg) (r : Rec)
    (hr : r ∈ m.all) (hty : r.rtype = qt ∨ r.rtype = CNAME) :
    posLife cfg qt m ≤ clampM (storedTtl cfg r * NS) (cfg.posBounds qt).1 (cfg.posBounds qt).2 := by
  unfold posLife
  have hmem : storedTtl cfg r * NS ∈ relevantTtls cfg qt m := by
    unfold relevantTtls
    refine List.mem_map.2 ⟨storedRec cfg r, List.mem_filter.2 ⟨?_, ?_⟩, rfl⟩
    · simp only [Msg.all, storedMsg, List.mem_append, List.mem_map] at hr ⊢
      rcases hr with (h | h) | h
      · exact Or.inl (Or.inl ⟨r, h, rfl⟩)
      · exact Or.inl (Or.inr ⟨r, h, rfl⟩)
      · exact Or.inr ⟨r, h, rfl⟩
    · rcases hty with h | h <;> simp [storedRec, h]
  cases hm : (relevantTtls cfg qt m).min? with
  | none => simp [List.min?_eq_none_iff] at hm; simp [hm] at hmem
  | some mn =>
    have := (List.min?_eq_some_iff.1 hm).2 _ hmem
    exact clampM_mono _ _ this

/-- **Negative answers are bounded.**  A served negative answer is at most its negative TTL, clamped to
the negative bounds of the query type, old (the negative minimum when it carries no TTL). -/
theorem negative_bounded {cfg : TtlConfig} (hd : DurOK cfg) (ops : List Op)
    (hr : TimesSane ops) (q : Query) (now : Nat) (n : NoRec)
    (hg : Cache.get (run cfg [] ops) q now = some (.neg n)) :
    ∃ n0 t0, track ops q = some (.neg n0, t0) ∧ now ≤ t0 + negLife cfg q.qtype n0.negTtl ∧
      negLife cfg q.qtype n0.negTtl ≤ (cfg.negBounds q.qtype).2 ∧
      (∀ ttl, n0.negTtl = some ttl →
        negLife cfg q.qtype n0.negTtl = max (cfg.negBounds q.qtype).1 (min (ttl * NS) (cfg.negBounds q.qtype).2)) := by
  obtain ⟨r0, t0, ht, _, hle, hres⟩ := get_run hd ops hr q now _ hg
  cases r0 with
  | pos m => simp [stored, Res.decr] at hres
  | other k => simp [stored, Res.decr] at hres
  | neg n0 =>
    refine ⟨n0, t0, ht, hle, ?_, ?_⟩
    · unfold negLife
      cases n0.negTtl with
      | none => exact negBounds_le hd _
      | some t => exact clampM_le _ (negBounds_le hd _)
    · intro ttl h; simp [negLife, h, clampM]

/-! #### exact TTL arithmetic -/

theorem storedTtl_le {cfg : TtlConfig} (hs : DurOK cfg) {r : Rec} (h : Rec.WF r) :
    storedTtl cfg r ≤ U32MAX := by
  unfold storedTtl clampM
  have h1 := posBoundsSecs_le hs r.rtype
  have h2 : (cfg.posBoundsSecs r.rtype).2 ≤ U32MAX := secsU32_le _
  unfold Rec.WF at h
  omega

theorem sub_elapsedOf {x t0 now : Nat} (h : x ≤ U32MAX) : x - elapsedOf t0 now = x - elapsed t0 now := by
  unfold elapsedOf elapsed
  split
  · rfl
  · omega

theorem recs_decr_eq {l : List Rec} {t0 now : Nat} (h : ∀ r ∈ l, Rec.WF r) :
    l.map (Rec.decr (elapsedOf t0 now)) = l.map (Rec.decr (elapsed t0 now)) := by
  apply List.map_congr_left
  intro r hr
  simp only [Rec.decr]
  rw [sub_elapsedOf (h r hr)]

theorem stored_wf {cfg : TtlConfig} (hs : DurOK cfg) {l : List Rec} (h : ∀ r ∈ l, Rec.WF r) :
    ∀ r ∈ l.map (storedRec cfg), Rec.WF r := by
  intro r hr
  obtain ⟨r', hr', rfl⟩ := List.mem_map.1 hr
  exact storedTtl_le hs (h r' hr')

theorem nsdata_decr_eq {d : NsData} {t0 now : Nat} (h : NsData.WF d) :
    d.decr (elapsedOf t0 now) = d.decr (elapsed t0 now) := by
  unfold NsData.decr
  rw [recs_decr_eq h.2]
  simp only [Rec.decr]
  rw [sub_elapsedOf h.1]

/-- with `u32` TTLs the saturation of the elapsed seconds at `u32::MAX` is invisible -/
theorem decr_elapsedOf {cfg : TtlConfig} (hs : DurOK cfg) {r0 : Res} (hwf : ResWF r0) (t0 now : Nat) :
    (stored cfg r0).decr (elapsedOf t0 now) = (stored cfg r0).decr (elapsed t0 now) := by
  cases r0 with
  | other k => rfl
  | pos m =>
    simp only [ResWF, Msg.all, List.mem_append] at hwf
    simp only [stored, Res.decr, Msg.decr, storedMsg]
    rw [recs_decr_eq (stored_wf hs fun r h => hwf r (Or.inl (Or.inl h))),
        recs_decr_eq (stored_wf hs fun r h => hwf r (Or.inl (Or.inr h))),
        recs_decr_eq (stored_wf hs fun r h => hwf r (Or.inr h))]
  | neg n =>
    obtain ⟨h1, h2, h3, h4⟩ := hwf
    simp only [stored, Res.decr, NoRec.decr]
    congr 1
    have e1 : n.negTtl.map (· - elapsedOf t0 now) = n.negTtl.map (· - elapsed t0 now) := by
      cases hn : n.negTtl with
      | none => rfl
      | some t => simp only [Option.map_some]; rw [sub_elapsedOf (h1 t hn)]
    have e2 : n.soa.map (Rec.decr (elapsedOf t0 now)) = n.soa.map (Rec.decr (elapsed t0 now)) := by
      cases hn : n.soa with
      | none => rfl
      | some r => simp only [Option.map_some, Rec.decr]; rw [sub_elapsedOf (h2 r hn)]
    have e3 : n.auth.map (·.map (Rec.decr (elapsedOf t0 now))) = n.auth.map (·.map (Rec.decr (elapsed t0 now))) := by
      cases hn : n.auth with
      | none => rfl
      | some l => simp only [Option.map_some]; rw [recs_decr_eq (h3 l hn)]
    have e4 : n.ns.map (·.map (NsData.decr (elapsedOf t0 now))) = n.ns.map (·.map (NsData.decr (elapsed t0 now))) := by
      cases hn : n.ns with
      | none => rfl
      | some l =>
        simp only [Option.map_some]
        congr 1
        apply List.map_congr_left
        intro d hd
        exact nsdata_decr_eq (h4 l hn d hd)
    rw [e1, e2, e3, e4]

/-- **Exact TTLs.**  Whatever `get` returns is the stored result (record TTLs clamped per record
type, negative answers as received) with every TTL field lowered by exactly the whole seconds
elapsed since the insert, floored at zero (`Nat` subtraction). -/
theorem ttl_exact {cfg : TtlConfig} (hd : DurOK cfg) (ops : List Op)
    (hr : TimesSane ops) (hwf : HistWF ops) (q : Query) (now : Nat) (res : Res)
    (hg : Cache.get (run cfg [] ops) q now = some res) :
    ∃ r0 t0, track ops q = some (r0, t0) ∧ res = (stored cfg r0).decr (elapsed t0 now) := by
  obtain ⟨r0, t0, ht, _, _, hres⟩ := get_run hd ops hr q now res hg
  refine ⟨r0, t0, ht, ?_⟩
  rw [hres, decr_elapsedOf hd (hwf q r0 t0 (track_ins ht).1)]

/-- what `decr` means for one record of a positive answer -/
theorem ttl_exact_record (cfg : TtlConfig) (m : Msg) (e : Nat) :
    ((storedMsg cfg m).decr e).all = m.all.map fun r => { r with ttl := storedTtl cfg r - e } := by
  simp [Msg.decr, storedMsg, Msg.all, storedRec, Rec.decr, Function.comp_def]

/-! #### monotone between refreshes -/

theorem allLe_map_sub (l : List Nat) {e1 e2 : Nat} (h : e1 ≤ e2) :
    allLe (l.map (· - e2)) (l.map (· - e1)) := by
  induction l with
  | nil => trivial
  | cons a l ih => exact ⟨Nat.sub_le_sub_left h a, ih⟩

theorem nsTtls_decr (e : Nat) (d : NsData) : nsTtls (d.decr e) = (nsTtls d).map (· - e) := by
  simp [nsTtls, NsData.decr, Rec.decr, Function.comp_def]

theorem ttls_decr (e : Nat) (r : Res) : ttls (r.decr e) = (ttls r).map (· - e) := by
  cases r with
  | other k => rfl
  | pos m => simp [ttls, Res.decr, Msg.decr, Msg.all, Rec.decr, Function.comp_def]
  | neg n =>
    simp only [ttls, Res.decr, NoRec.decr, List.map_append]
    congr 1
    · congr 1
      · congr 1
        · cases n.negTtl <;> rfl
        · cases n.soa <;> simp [Rec.decr]
      · cases n.auth <;> simp [Rec.decr, Function.comp_def]
    · cases n.ns with
      | none => rfl
      | some l =>
        simp only [Option.map_some, Option.getD_some, List.flatMap_map, List.map_flatMap]
        congr 1
        funext d
        exact nsTtls_decr e d

theorem elapsedOf_mono (t0 : Nat) {t1 t2 : Nat} (h : t1 ≤ t2) : elapsedOf t0 t1 ≤ elapsedOf t0 t2 := by
  unfold elapsedOf
  have : (t1 - t0) / NS ≤ (t2 - t0) / NS := Nat.div_le_div_right (by omega)
  split <;> split <;> omega

theorem lookup_noRefresh (cfg : TtlConfig) (q : Query) (mid : List Op) :
    ∀ (s : State), noRefresh q mid = true → (run cfg s mid).lookup q = s.lookup q := by
  induction mid with
  | nil => intro s _; rfl
  | cons op mid ih =>
    intro s h
    simp only [run, List.foldl_cons]
    cases op with
    | ins q' r t =>
      simp only [noRefresh, Bool.and_eq_true, Bool.not_eq_true', Bool.and_eq_false_iff,
        decide_eq_false_iff_not] at h
      have := ih (stepOp cfg s (.ins q' r t)) h.2
      simp only [run] at this
      rw [this]
      simp only [stepOp]
      rcases h.1 with hq | hc
      · -- other key
        have hq' : q ≠ q' := fun e => hq e.symm
        rcases stepOp_ins_cases cfg s q' r t with e | ⟨en, e⟩
        · simp only [stepOp] at e; rw [e]
        · simp only [stepOp] at e; rw [e, lookup_put]; simp [hq']
      · rw [transient_not_cached cfg s q' r t hc]
    | get q' t =>
      have := ih s (by simpa [noRefresh] using h)
      simpa [run, stepOp] using this
    | clear => simp [noRefresh] at h
    | clearQuery q' =>
      simp only [noRefresh, Bool.and_eq_true, Bool.not_eq_true', decide_eq_false_iff_not] at h
      have := ih (stepOp cfg s (.clearQuery q')) h.2
      simp only [run] at this
      rw [this]
      have hq' : q ≠ q' := fun e => h.1 e.symm
      simp [stepOp, clearQuery, lookup_erase_ne s hq']

/-- **TTLs only count down.**  Take any state reached by a history `ops` (any configuration, even
a broken one), then any stretch `mid` that neither refreshes nor clears `q` (other queries may be
inserted, transient errors for `q` may arrive), and two lookups at `t1 ≤ t2`, one before and one
after `mid`: every TTL field of the later answer is `≤` the corresponding field of the earlier one. -/
theorem ttl_monotone (cfg : TtlConfig) (ops mid : List Op) (q : Query) (t1 t2 : Nat) (r1 r2 : Res)
    (hmid : noRefresh q mid = true) (ht : t1 ≤ t2)
    (h1 : Cache.get (run cfg [] ops) q t1 = some r1)
    (h2 : Cache.get (run cfg [] (ops ++ mid)) q t2 = some r2) :
    allLe (ttls r2) (ttls r1) := by
  have hl : (run cfg [] (ops ++ mid)).lookup q = (run cfg [] ops).lookup q := by
    have : run cfg [] (ops ++ mid) = run cfg (run cfg [] ops) mid := by simp [run, List.foldl_append]
    rw [this]; exact lookup_noRefresh cfg q mid _ hmid
  unfold Cache.get at h1 h2
  rw [hl] at h2
  cases he : (run cfg [] ops).lookup q with
  | none => simp [he] at h1
  | some en =>
    simp only [he] at h1 h2
    split at h1 <;> simp only [Option.some.injEq, reduceCtorEq] at h1
    split at h2 <;> simp only [Option.some.injEq, reduceCtorEq] at h2
    rw [← h1, ← h2]
    simp only [Entry.updatedTtl, ttls_decr]
    exact allLe_map_sub _ (elapsedOf_mono _ ht)

/-! #### transient errors over histories -/

/-- an insert of a non-cacheable result -/
def isTransientIns : Op → Bool
  | .ins _ r _ => !cacheable r
  | _ => false

/-- Dropping every transient-error insert from a history changes nothing (any start state, any config). -/
theorem transient_not_cached_run (cfg : TtlConfig) (ops : List Op) :
    ∀ s : State, run cfg s ops = run cfg s (ops.filter fun o => !isTransientIns o) := by
  induction ops with
  | nil => intro s; rfl
  | cons op ops ih =>
    intro s
    by_cases h : isTransientIns op = true
    · have : stepOp cfg s op = s := by
        cases op with
        | ins q r t =>
          simp only [isTransientIns, Bool.not_eq_true', ] at h
          simp [stepOp, transient_not_cached cfg s q r t h]
        | get q t => rfl
        | clear => simp [isTransientIns] at h
        | clearQuery q => simp [isTransientIns] at h
      simp only [run, List.foldl_cons, this, List.filter_cons, h, Bool.not_true]
      exact ih s
    · simp only [run, List.foldl_cons, List.filter_cons, h, Bool.not_false, if_true]
      exact ih _

/-- A history that inserted only transient errors (and looked things up) serves nothing. -/
theorem transient_only_serves_nothing (cfg : TtlConfig) (ops : List Op)
    (h : ∀ o ∈ ops, isTransientIns o = true ∨ ∃ q t, o = .get q t) (q : Query) (now : Nat) :
    Cache.get (run cfg [] ops) q now = none := by
  have : ∀ s : State, run cfg s ops = s := by
    induction ops with
    | nil => intro s; rfl
    | cons op ops ih =>
      intro s
      have hop : stepOp cfg s op = s := by
        rcases h op (by simp) with ht | ⟨q', t', rfl⟩
        · cases op with
          | ins q' r t =>
            simp only [isTransientIns, Bool.not_eq_true'] at ht
            simp [stepOp, transient_not_cached cfg s q' r t ht]
          | get q' t => rfl
          | clear => simp [isTransientIns] at ht
          | clearQuery q' => simp [isTransientIns] at ht
        · rfl
      simp only [run, List.foldl_cons, hop]
      exact ih (fun o ho => h o (List.mem_cons_of_mem _ ho)) s
  rw [this]; rfl

/-! #### which responses can reach the cache as a cacheable result -/

/-- SERVFAIL, REFUSED and every other error response code become `DnsError::ResponseCode`, never the
cacheable `NoRecordsFound` and never a positive message … -/
theorem error_rcode_not_cacheable (r : Resp) (h : r.rcode ∈ errCodes) :
    fromResponse r = .rcodeErr r.rcode := by
  unfold fromResponse
  have : errCodes.contains r.rcode = true := by simpa using h
  rw [if_pos this]

/-- … and such an error is ignored by `insert`, whatever the cache holds and however it is configured. -/
theorem error_response_never_cached (cfg : TtlConfig) (s : State) (q : Query) (t : Nat) (r : Resp)
    (h : r.rcode ∈ errCodes) :
    ∃ c, fromResponse r = .rcodeErr c ∧ Cache.insert cfg s q (.other c) t = .ok s :=
  ⟨r.rcode, error_rcode_not_cacheable r h, rfl⟩

/-- A response becomes the cacheable negative answer exactly when it is NXDOMAIN or NOERROR, holds no
answer to the query and is not truncated; its negative TTL is then the smaller of the SOA record's
TTL and the SOA MINIMUM field (RFC 2308 §5), absent without a SOA. -/
theorem noRecords_iff (r : Resp) (x : Option Nat) :
    fromResponse r = .noRecords x ↔
      (r.rcode = 3 ∨ r.rcode = 0) ∧ r.containsAnswer = false ∧ r.truncated = false ∧
      x = r.soa.map fun p => min p.1 p.2 := by
  have hmin : r.negativeTtl = r.soa.map fun p => min p.1 p.2 := by
    unfold Resp.negativeTtl
    cases r.soa with
    | none => rfl
    | some p => simp only [Option.map_some, Option.some.injEq]; split <;> omega
  unfold fromResponse
  by_cases he : errCodes.contains r.rcode = true
  · rw [if_pos he]
    constructor
    · intro h; cases h
    · rintro ⟨h | h, _⟩ <;> (rw [h] at he; exact absurd he (by decide))
  · rw [if_neg he]
    by_cases hc : ((r.rcode == 3 || r.rcode == 0) && !r.containsAnswer && !r.truncated) = true
    · rw [if_pos hc]
      simp only [Bool.and_eq_true, Bool.or_eq_true, beq_iff_eq, Bool.not_eq_true'] at hc
      constructor
      · intro h
        injection h with h
        exact ⟨hc.1.1, hc.1.2, hc.2, by rw [← h, hmin]⟩
      · rintro ⟨_, _, _, rfl⟩; rw [hmin]
    · rw [if_neg hc]
      constructor
      · intro h; cases h
      · rintro ⟨h1, h2, h3, _⟩
        exfalso; apply hc
        simp only [Bool.and_eq_true, Bool.or_eq_true, beq_iff_eq, Bool.not_eq_true']
        exact ⟨⟨h1, h2⟩, h3⟩

example : fromResponse { rcode := 2, soa := some (3600, 60) } = .rcodeErr 2 := by decide
example : fromResponse { rcode := 3, soa := some (3600, 60) } = .noRecords (some 60) := by decide
example : fromResponse { rcode := 0, answersNonEmpty := true } = .ok := by decide
example : fromResponse { rcode := 3, truncated := true } = .ok := by decide

/-! #### panics -/

/-- **No panic**, full strength over configurations: for *every* `TtlConfig` whose bound pairs are
ordered (`min ≤ max`, however large — the repaired code saturates the whole-second conversion and
falls back when `now + ttl` is not representable), every cache state, query and result, `insert`
returns normally.  The only remaining hypothesis is about the instant passed in, not about the
configuration: `now` must leave `u32::MAX s` of room in `Instant`'s range (see
`panic_when_now_at_instant_limit`). -/
theorem no_panic {cfg : TtlConfig} (hd : DurOK cfg) (s : State) (q : Query) (r : Res) (t : Nat)
    (ht : InstantOK t) : ∃ s', Cache.insert cfg s q r t = .ok s' := by
  by_cases hc : cacheable r = true
  · exact ⟨_, insert_ok hd s q r t hc ht⟩
  · exact ⟨s, transient_not_cached cfg s q r t (by simpa using hc)⟩

/- `get` has no panicking operation at all (saturating subtractions, a comparison): in the model it
is a total function into `Option Res`, there is no `panic` value it could return. -/

/-- global bounds `min = 100 000 s ≤ max = 2^32 s` -/
def cfgSecsInverted : TtlConfig :=
  { default := { posMin := some (100000 * NS), posMax := some (4294967296 * NS) } }

/-- global bounds `min = max = 2^63 s` -/
def cfgHuge : TtlConfig :=
  { default := { posMin := some (9223372036854775808 * NS), posMax := some (9223372036854775808 * NS) } }

/-- global `positive_max_ttl = 2^33 s` -/
def cfgBigMax : TtlConfig := { default := { posMax := some (8589934592 * NS) } }

/-- global `positive_min_ttl = 2 days`, `positive_max_ttl` unset (defaults to one day) -/
def cfgMinGtMax : TtlConfig := { default := { posMin := some (172800 * NS) } }

def qA : Query := { id := 0, qtype := 1 }
def msgA : Msg := { answers := [{ rtype := 1, ttl := 300, pid := 0 }] }

/-- Regression of the repaired finding (hickory-dns 617ee15; before it these three were a `clamp`
panic, a TTL cut to 86 400 and an `Instant` overflow panic): (a) bounds `(100 000 s, 2^32 s)` —
the insert succeeds and the record is stored with the minimum; (b) `max = 2^33 s` — a TTL of
100 000 s stays 100 000; (c) `min = max = 2^63 s` — the insert succeeds, the entry is served
`u32::MAX s` later and no longer 1 ns after that. -/
theorem regression_bounds_over_u32 :
    cfgSecsInverted.durOK = true ∧
    Cache.get (run cfgSecsInverted [] [.ins qA (.pos msgA) 0]) qA 0 =
      some (.pos { answers := [{ rtype := 1, ttl := 100000, pid := 0 }] }) ∧
    storedTtl cfgBigMax { rtype := 1, ttl := 100000, pid := 0 } = 100000 ∧
    cfgHuge.durOK = true ∧
    (Cache.insert cfgHuge [] qA (.pos msgA) 0).isOk = true ∧
    (Cache.get (run cfgHuge [] [.ins qA (.pos msgA) 0]) qA (U32MAX * NS)).isSome = true ∧
    Cache.get (run cfgHuge [] [.ins qA (.pos msgA) 0]) qA (U32MAX * NS + 1) = none := by decide

/-- outside the quantifier of the property (documented observation, class `C15.bounds-min-gt-max`):
`min > max` — here simply a minimum above the default maximum of one day — makes every positive
insert panic in `Ord::clamp`, even of an empty message. -/
theorem panic_when_min_gt_max :
    cfgMinGtMax.minGtMax = true ∧
    Cache.insert cfgMinGtMax [] qA (.pos msgA) 0 = .panic "clamp" ∧
    Cache.insert cfgMinGtMax [] qA (.pos {}) 0 = .panic "clamp" := by decide

/-- … whereas a negative answer without a negative TTL never reaches a `clamp`. -/
theorem neg_without_ttl_never_clamps (cfg : TtlConfig) (s : State) (q : Query) (n : NoRec) (t : Nat)
    (h : n.negTtl = none) (ht : InstantOK t) :
    ∃ s', Cache.insert cfg s q (.neg n) t = .ok s' := by
  simp [Cache.insert, negTtlOf, h, store_ok _ _ _ _ _ ht]

/-- why `no_panic` needs `InstantOK`: with a lifetime of 2^63 s and `now` within `u32::MAX s` of
the end of `Instant`'s range the fall-back addition overflows. -/
theorem panic_when_now_at_instant_limit :
    cfgHuge.durOK = true ∧
    Cache.insert cfgHuge [] qA (.pos msgA) (INSTANT_LIMIT - 1) = .panic "instant" := by decide

/-! #### the stored TTL is the literal clamp to the configured bounds -/

/-- For every configuration with ordered bounds and every `u32` TTL, the stored TTL is the TTL
clamped to the configured positive bounds of the record's type in whole seconds, capped at
`u32::MAX` (no special case for bounds of 2^32 s or more any longer). -/
theorem storedTtl_literal {cfg : TtlConfig} (hd : DurOK cfg) (r : Rec) (hr : Rec.WF r) :
    storedTtl cfg r =
      min U32MAX (clampM r.ttl ((cfg.posBounds r.rtype).1 / NS) ((cfg.posBounds r.rtype).2 / NS)) := by
  have h := posBounds_le hd r.rtype
  have hdiv : (cfg.posBounds r.rtype).1 / NS ≤ (cfg.posBounds r.rtype).2 / NS := Nat.div_le_div_right h
  unfold storedTtl TtlConfig.posBoundsSecs secsU32 clampM
  unfold Rec.WF at hr
  simp only
  split <;> split <;> omega

/-- per-type override for A (min 10 s, max 60 s), global max 1 h, negative bounds 5 s … 30 s -/
def cfgEx : TtlConfig :=
  { default := { posMax := some (3600 * NS), negMin := some (5 * NS), negMax := some (30 * NS) },
    byType := [(1, { posMin := some (10 * NS), posMax := some (60 * NS) })] }

def msgEx : Msg :=
  { answers := [{ rtype := 5, ttl := 7200, pid := 1 }, { rtype := 1, ttl := 3, pid := 2 }],
    authorities := [{ rtype := 2, ttl := 100000, pid := 3 }] }

def negEx : NoRec := { negTtl := some 900, soa := some { rtype := 6, ttl := 900, pid := 4 }, rcode := 3 }

def histEx : List Op :=
  [.ins qA (.pos msgEx) (1 * NS), .ins ⟨1, 16⟩ (.neg negEx) (2 * NS), .ins qA (.other 0) (3 * NS),
   .get qA (4 * NS)]

example : DurOK cfgEx := by unfold DurOK; decide
example : TimesSane histEx := by
  intro q r t h
  simp only [histEx, List.mem_cons, Op.ins.injEq, List.mem_nil_iff, reduceCtorEq, or_false] at h
  rcases h with ⟨rfl, rfl, rfl⟩ | ⟨rfl, rfl, rfl⟩ | ⟨rfl, rfl, rfl⟩ <;> (unfold InstantOK; decide)
example : HistWF histEx := by
  intro q r t h
  simp only [histEx, List.mem_cons, Op.ins.injEq, List.mem_nil_iff, reduceCtorEq, or_false] at h
  rcases h with ⟨rfl, rfl, rfl⟩ | ⟨rfl, rfl, rfl⟩ | ⟨rfl, rfl, rfl⟩ <;>
    simp [ResWF, Msg.all, msgEx, negEx, Rec.WF, U32MAX]
/-- the A record (TTL 3) is stored with TTL 10 (A minimum), the CNAME with 3600 (global maximum);
`L = 10 s`; 3 s after the insert the answer is served with TTLs 3597 / 7 / 3597. -/
example : Cache.get (run cfgEx [] histEx) qA (4 * NS) =
    some (.pos { answers := [{ rtype := 5, ttl := 3597, pid := 1 }, { rtype := 1, ttl := 7, pid := 2 }],
                 authorities := [{ rtype := 2, ttl := 3597, pid := 3 }] }) := by decide
example : lifetime cfgEx 1 (.pos msgEx) = 10 * NS := by decide
/-- served at exactly `t0 + L`, gone one nanosecond later -/
example : (Cache.get (run cfgEx [] histEx) qA (11 * NS)).isSome = true ∧
    Cache.get (run cfgEx [] histEx) qA (11 * NS + 1) = none := by decide
/-- the negative answer (TTL 900) is kept `negative_max = 30 s` and reports `900 - elapsed` -/
example : Cache.get (run cfgEx [] histEx) ⟨1, 16⟩ (32 * NS) =
    some (.neg { negTtl := some 870, soa := some { rtype := 6, ttl := 870, pid := 4 }, rcode := 3 }) ∧
    Cache.get (run cfgEx [] histEx) ⟨1, 16⟩ (32 * NS + 1) = none := by decide
example : noRefresh qA [.ins ⟨1, 16⟩ (.neg negEx) 5, .ins qA (.other 0) 6, .get qA 7] = true := by decide

example : ∃ s', Cache.insert cfgEx [] qA (.pos msgEx) (5 * NS) = .ok s' :=
  no_panic (by unfold DurOK; decide) _ _ _ _ (by unfold InstantOK; decide)

end HickoryVerif.C15
