/-
`#audit_module M` : for every theorem declared in module `M` print one line
`THEOREM <name> AXIOMS [<axioms>]`.  `bin/check` runs it for the property's proof module
on every run and rejects anything outside {propext, Classical.choice, Quot.sound}.
-/
import Lean
open Lean Elab Command

elab "#audit_module " id:ident : command => do
  let env ← getEnv
  let modName := id.getId
  let some idx := env.getModuleIdx? modName
    | throwError "unknown module {modName}"
  let mut out : Array String := #[]
  let consts := env.constants.map₁.toList
  for (c, info) in consts do
    if env.getModuleIdxFor? c == some idx then
      if let .thmInfo _ := info then
        if !c.isInternalDetail then
          let axs ← collectAxioms c
          let axs := axs.qsort (fun a b => a.toString < b.toString)
          out := out.push s!"THEOREM {c} AXIOMS {axs.toList}"
  for l in out.qsort (· < ·) do
    IO.println l
  IO.println s!"AUDIT-DONE {modName} {out.size}"
