/-
Driver for C11.  A block is

  begin <zones> <deny> <allow>      configuration (catalog in upsert order, ACL prefix lists)
  req <u|t> <src> <hex> <body> <edns> <zl>   one raw request
  …
  end

zones   `-` | zone`|`zone…      zone = <name token>`=`handlers      handlers = `-` | h`,`h…
                                 (`-<name token>=-` removes that origin again: `Catalog::remove`)
h       `mem/<0|1>`             in-memory zone, AXFR denied / allowed
        `scr/<p|s|e>/<flow>/<flow|->/<update rcode>/<n|o|z|eRC>`   scripted handler
flow    `S` | `Co` | `Cr` (referral) | `Cz` | `Ce<rc>` | `Bo` | `Br` | `Bz` | `Be<rc>`
prefix  `4:<addr>/<len>` | `6:<addr>/<len>`   (address as a decimal natural)
src     `4:<addr>` | `6:<addr>`
body    `ok` | `bad` | `na`     what the real decoder says about the rest of the message — informative
edns    `-` | <version>          only: the model decodes the request itself (`ServerGate.bodyOf`,
                                 the C01 model of `Request::from_bytes`); its verdict is printed as
                                 `body=` on every reply line and compared with the real decoder's
zl      `-` | <zone>.<handler>:<flow>,…   for every in-memory handler: what its own lookup code
        returns for this question (zone content is C10's business; the driver puts the value into
        the handler's `search` field before running the model)
-/
import HickoryVerif.Drv.Proto
import HickoryVerif.Model.ServerGate
import HickoryVerif.Model.ServerRequest
import HickoryVerif.Model.SendQueue

namespace HickoryVerif.Drv.C11
open HickoryVerif HickoryVerif.Drv HickoryVerif.ServerGate

abbrev State := Option Config
def init : State := none

def parseFam : String → Option Family
  | "4" => some .v4
  | "6" => some .v6
  | _ => none

def parseIp (s : String) : Option Ip :=
  match s.splitOn ":" with
  | [f, a] => do pure { fam := ← parseFam f, addr := ← a.toNat? }
  | _ => none

def parsePrefix (s : String) : Option Prefix :=
  match s.splitOn "/" with
  | [ip, l] => do
    let ip ← parseIp ip
    pure { fam := ip.fam, addr := ip.addr, len := ← l.toNat? }
  | _ => none

def parsePrefixes (s : String) : Option (List Prefix) :=
  if s == "-" then some [] else (s.splitOn ",").mapM parsePrefix

def parseLRes (s : String) : Option LRes :=
  match s.toList with
  | ['o'] => some .ok
  | ['r'] => some .referral
  -- `Ok(records)` that cannot be encoded: for the model (which describes responses whose encoding
  -- succeeds) an `Ok`; the harness runs such cases implementation-vs-oracle only
  | ['u'] => some .ok
  | ['z'] => some .zone
  | 'e' :: rc => (String.ofList rc).toNat?.map .err
  | _ => none

def parseFlow (s : String) : Option Flow :=
  match s.toList with
  | ['S'] => some .skip
  | 'C' :: r => (parseLRes (String.ofList r)).map .cont
  | 'B' :: r => (parseLRes (String.ofList r)).map .brk
  | _ => none

def parseZType : String → Option ZType
  | "p" => some .primary
  | "s" => some .secondary
  | "e" => some .external
  | _ => none

def parseHandler (s : String) : Option Handler :=
  match s.splitOn "/" with
  | ["mem", ax] =>
    -- `InMemoryZoneHandler` (Primary): `search` → `Continue(zone content)`, default `consult`,
    -- default `update` → `Err(NotImp)`, `zone_transfer` → `Refused` unless `AxfrPolicy::AllowAll`
    some { ztype := .primary, search := .cont .zone, consult := none, update := RC_NOTIMP,
           xfer := some (if ax == "1" then .ok else .err RC_REFUSED) }
  | ["scr", zt, se, co, up, xf] => do
    let zt ← parseZType zt
    let se ← parseFlow se
    let co ← if co == "-" then some none else (parseFlow co).map some
    let up ← up.toNat?
    let xf ← if xf == "n" then some none else (parseLRes xf).map some
    pure { ztype := zt, search := se, consult := co, update := up, xfer := xf }
  | _ => none

def parseHandlers (s : String) : Option (List Handler) :=
  if s == "-" then some [] else (s.splitOn ",").mapM parseHandler

def parseZone (idx : Nat) (s : String) : Option Zone :=
  match s.splitOn "=" with
  | [n, hs] => do pure { idx := idx, origin := ← parseName n, handlers := ← parseHandlers hs }
  | _ => none

/-- a zone entry `-<name token>=…` removes that origin again (`Catalog::remove`) -/
def applyZone (cat : Catalog) (p : String × Nat) : Option Catalog :=
  match p.1.toList with
  | '-' :: rest => do
    let z ← parseZone p.2 (String.ofList rest)
    pure (removeZone cat z.origin)
  | _ => do
    let z ← parseZone p.2 p.1
    pure (upsert cat z)

def parseZones (s : String) : Option Catalog :=
  if s == "-" then some [] else
    (s.splitOn "|").zipIdx.foldlM applyZone []

def showCall : Call → String
  | .search z h => s!"s{z}.{h}"
  | .consult z h => s!"c{z}.{h}"
  | .update z h => s!"u{z}.{h}"
  | .xfer z h => s!"x{z}.{h}"

/-- `qb`: the question section of the response = `Queries::original` of the request when echoed -/
def showReply (qb : Bytes) (body : String) (r : Reply) : String :=
  let rc := match r.rcode with | some n => toString n | none => "*"
  let log := if r.calls.isEmpty then "-" else ",".intercalate (r.calls.map showCall)
  s!"reply qr={showBool r.qr} rc={rc} id={r.id} op={r.opcode} rd={showBool r.rd} cd={showBool r.cd} aa={showBool r.aa} ra={showBool r.ra} q={showBool r.echo} qb={toHex (if r.echo then qb else [])} opt={showBool r.opt} log={log} body={body}"

def showGate (buf : Bytes) : Gate → String
  | .drop => "drop"
  | .reply r =>
    -- an echoing reply carries the `original` of the question the gate read (`reply_matches_request`)
    let qb := match readHeader buf with
      | some h => (match readQueries buf h.qd with | .ok q => q.raw | _ => [])
      | none => []
    showReply qb (bodyToken buf) r
  | .panic s => "panic " ++ s

def parseBody (b e : String) : Option Body :=
  match b with
  | "ok" => if e == "-" then some (.ok none) else e.toNat?.map (fun v => .ok (some v))
  | "bad" => some .bad
  | "na" => some .bad
  | _ => none

def parseZl1 (s : String) : Option ((Nat × Nat) × Flow) :=
  match s.splitOn ":" with
  | [zh, f] =>
    match zh.splitOn "." with
    | [z, h] => do pure ((← z.toNat?, ← h.toNat?), ← parseFlow f)
    | _ => none
  | _ => none

def parseZl (s : String) : Option (List ((Nat × Nat) × Flow)) :=
  if s == "-" then some [] else (s.splitOn ",").mapM parseZl1

/-- put the per-request lookup results of the in-memory handlers into their `search` fields -/
def substZl (cat : Catalog) (zl : List ((Nat × Nat) × Flow)) : Catalog :=
  cat.map fun z =>
    { z with handlers := (indexed z.handlers).map fun (i, hd) =>
        match zl.lookup (z.idx, i) with
        | some f => { hd with search := f }
        | none => hd }

/-! `udp <recv> <send>`: datagrams through the real `UdpStream` on a scripted socket.
recv  items joined by `,`: `d/<src>/<port>/<hex>` a datagram, `p` a pause (`Pending` + wake),
      `x` a receive error
send  results of successive `poll_send_to` calls: `o` ok, `e` error, `E` error that repeats for the
      same message (EMSGSIZE-like), `w` `Pending` (+ wake); `-` = none; exhausted = ok
answer: per datagram `a` (its response was handed to the socket), `f` (its send failed: dropped),
`-` (no response is owed) -/

def parseSendScript (s : String) : Option (List SendQueue.SendRes) :=
  if s == "-" then some [] else
  s.toList.mapM fun c =>
    match c with
    | 'o' => some .ok
    | 'e' => some .err
    | 'E' => some .err
    | 'w' => some .pending
    | _ => none

def parseDgram (s : String) : Option (Option (Ip × Bytes)) :=
  match s.splitOn "/" with
  | ["d", src, _port, h] => do pure (some (← parseIp src, ← parseHex h))
  | ["p"] => some none
  | ["x"] => some none
  | _ => none

def udpAnswer (cfg : Config) (recv : List (Option (Ip × Bytes))) (script : List SendQueue.SendRes) :
    String :=
  let dgrams := recv.filterMap id
  -- a response is owed unless the gate drops the message
  let owed := dgrams.map fun (ip, buf) => (match serve cfg ip buf with | .drop => false | _ => true)
  let idx := (List.range dgrams.length).filter fun i => owed.getD i false
  let fin := SendQueue.pollAll (script.length + idx.length + 1) script ⟨idx, [], []⟩
  ",".intercalate ((List.range dgrams.length).map fun i =>
    if fin.sent.contains i then "a" else if fin.dropped.contains i then "f"
    else if fin.queue.contains i then "q" else "-")

def step (s : State) (toks : List String) : State × String :=
  match toks with
  | ["begin", zones, deny, allow] =>
    match parseZones zones, parsePrefixes deny, parsePrefixes allow with
    | some cat, some d, some a => (some { acl := { deny := d, allow := a }, catalog := cat }, "ok")
    | _, _, _ => (none, "bad-op")
  | ["end"] => (none, "ok")
  | ["req", _proto, src, bytes, _body, _edns, zl] =>
    match s, parseIp src, parseHex bytes, parseZl zl with
    | some cfg, some ip, some buf, some zl =>
      (s, showGate buf (serve { cfg with catalog := substZl cfg.catalog zl } ip buf))
    | _, _, _, _ => (s, "bad-op")
  | ["cat", _proto, _src, bytes, _body, _edns, zl] =>
    -- `Request::from_bytes` + `Catalog::handle_request`, no gate in front
    match s, parseHex bytes, parseZl zl with
    | some cfg, some buf, some zl =>
      (s, match catalogEntry (substZl cfg.catalog zl) buf with
          | none => "err"
          | some g => showGate buf g)
    | _, _, _ => (s, "bad-op")
  | ["udp", recv, send] =>
    match s, (recv.splitOn ",").mapM parseDgram, parseSendScript send with
    | some cfg, some r, some sc => (s, "udp " ++ udpAnswer cfg r sc)
    | _, _, _ => (s, "bad-op")
  | _ => (s, "bad-op")

end HickoryVerif.Drv.C11
