/-
Driver for C12 (dynamic update) and — shared — C14 (journal recovery).

Case lines (a history is bracketed by `begin…`/`end`):
  begin  <origin> <rec>*          zone built by upserting the records in order, no journal
  beginj <origin> <rec>*          same, then `persist_to_journal` into an empty journal
  upd P <rec>* U <rec>*           verify_prerequisites → pre_scan → update_records(.., true)
  updf P <rec>* U <rec>*          the same message, TSIG-signed on the wire, through ZoneHandler::update
  updc ok|unsigned P.. U..        … through Catalog::handle_request (other kinds and `begind` histories: no model side)
  raw <rec>*                      update_records(.., true) alone (no prescan)
  pre <rec>*                      verify_prerequisites alone
  cut <k>                         recover a fresh handler from the first k journal rows
  restart <k>                     same, and continue the history on the recovered handler
  end
Record token: `<name>,<type>,<class>,<ttl>,<rdata>`; rdata `-` (empty) | `s<serial>.<rest>` | `x<hex>`.
Answer: `<stage> <result> <serial> <rows> <zone dump>`.
-/
import HickoryVerif.Drv.Proto
import HickoryVerif.Model.Journal

namespace HickoryVerif.Drv.C12
open HickoryVerif HickoryVerif.Drv HickoryVerif.Upd

structure State where
  cfg : Cfg := { origin := Name.root }
  zone : Zone := []
  journal : Journal := []
  journaled : Bool := false
  deriving Inhabited

def init : State := {}

def parseRData (s : String) : Option RData :=
  match s.toList with
  | ['-'] => some .empty
  | 's' :: rest =>
    match (String.ofList rest).splitOn "." with
    | [a, b] => do let a ← a.toNat?; let b ← b.toNat?; pure (.soa a b)
    | _ => none
  | 'x' :: rest => (parseHex (String.ofList rest)).map .bytes
  | _ => none

def parseRec (tok : String) : Option Rec :=
  match tok.splitOn "," with
  | [n, t, c, ttl, rd] => do
    let n ← parseName n; let t ← t.toNat?; let c ← c.toNat?; let ttl ← ttl.toNat?
    let rd ← parseRData rd
    pure { name := n, rtype := t, cls := c, ttl := ttl, rdata := rd }
  | _ => none

def showRData : RData → String
  | .empty => "-"
  | .soa s r => s!"s{s}.{r}"
  | .bytes b => "x" ++ toHex b

def showZone (z : Zone) : String :=
  if z.isEmpty then "-" else
  " ".intercalate (z.map fun e =>
    showName e.1.1 ++ "/" ++ toString e.1.2 ++ "=" ++
      ";".intercalate (e.2.map fun r => toString r.ttl ++ ":" ++ showRData r.rdata))

def showRc : Rc → String
  | .formErr => "FORMERR" | .servFail => "SERVFAIL" | .nxDomain => "NXDOMAIN" | .notImp => "NOTIMP"
  | .refused => "REFUSED" | .yxDomain => "YXDOMAIN" | .yxRRSet => "YXRRSET" | .nxRRSet => "NXRRSET"
  | .notAuth => "NOTAUTH" | .notZone => "NOTZONE"

def showRes : URes Bool → String
  | .ok true => "ok1"
  | .ok false => "ok0"
  | .rc c => showRc c
  | .panic _ => "panic"

def showStage : Stage → String
  | .auth => "auth" | .prereq => "prereq" | .prescan => "prescan" | .apply => "apply"

def tail (s : State) : String :=
  toString (serial s.zone s.cfg.origin) ++ " " ++ toString s.journal.length ++ " " ++ showZone s.zone

/-- split `P r… U r…` -/
def splitPU (toks : List String) : Option (List String × List String) :=
  match toks with
  | "P" :: rest =>
    let p := rest.takeWhile (· ≠ "U")
    match rest.dropWhile (· ≠ "U") with
    | "U" :: u => some (p, u)
    | _ => none
  | _ => none

def beginWith (journaled : Bool) (origin : String) (recs : List String) : Option State := do
  let o ← parseName origin
  let recs ← recs.mapM parseRec
  let cfg : Cfg := { origin := o.toLowercase }
  let z := recs.foldl (fun z r => (upsert cfg.zclass z r).1) ([] : Zone)
  pure { cfg := cfg, zone := z, journal := if journaled then persist z [] else [], journaled := journaled }

def step (s : State) (toks : List String) : State × String :=
  match toks with
  | "begin" :: origin :: recs =>
    match beginWith false origin recs with
    | some s' => (s', "begin " ++ tail s')
    | none => (s, "bad-op")
  | "beginj" :: origin :: recs =>
    match beginWith true origin recs with
    | some s' => (s', "begin " ++ tail s')
    | none => (s, "bad-op")
  | ["end"] => (init, "end")
  | "upd" :: rest =>
    match splitPU rest with
    | none => (s, "bad-op")
    | some (p, u) =>
      match p.mapM parseRec, u.mapM parseRec with
      | some p, some u =>
        let r := updateJ s.cfg s.zone s.journal { prereqs := p, updates := u }
        let s' := { s with zone := r.1, journal := if s.journaled then r.2.1 else [] }
        (s', showStage r.2.2.1 ++ " " ++ showRes r.2.2.2 ++ " " ++ tail s')
      | _, _ => (s, "bad-op")
  | "updf" :: rest =>
    -- the same message through `ZoneHandler::update` (signed, authorised): no stage in the answer
    match splitPU rest with
    | none => (s, "bad-op")
    | some (p, u) =>
      match p.mapM parseRec, u.mapM parseRec with
      | some p, some u =>
        let r := updateJ s.cfg s.zone s.journal { prereqs := p, updates := u }
        let s' := { s with zone := r.1, journal := if s.journaled then r.2.1 else [] }
        (s', "full " ++ showRes r.2.2.2 ++ " " ++ tail s')
      | _, _ => (s, "bad-op")
  | "updc" :: "ok" :: rest =>
    -- the same message through the server's dispatch (`Catalog::update`): the rcode of the response
    match splitPU rest with
    | none => (s, "bad-op")
    | some (p, u) =>
      match p.mapM parseRec, u.mapM parseRec with
      | some p, some u =>
        let r := updateJ s.cfg s.zone s.journal { prereqs := p, updates := u }
        let s' := { s with zone := r.1, journal := if s.journaled then r.2.1 else [] }
        let rc := match r.2.2.2 with
          | .ok _ => "NOERROR"
          | x => showRes x
        (s', "cat " ++ rc ++ " " ++ tail s')
      | _, _ => (s, "bad-op")
  | "updc" :: "unsigned" :: rest =>
    -- no TSIG: `authorize_update` refuses before anything is looked at
    match splitPU rest with
    | none => (s, "bad-op")
    | some (p, u) =>
      match p.mapM parseRec, u.mapM parseRec with
      | some p, some u =>
        let r := update s.cfg false s.zone { prereqs := p, updates := u }
        (s, "cat " ++ showRes r.2.2.1 ++ " " ++ tail s)
      | _, _ => (s, "bad-op")
  | "raw" :: recs =>
    match recs.mapM parseRec with
    | some u =>
      let r := liveUpdateRecords s.cfg s.zone s.journal u
      let s' := { s with zone := r.1, journal := if s.journaled then r.2.1 else [] }
      (s', "raw " ++ showRes r.2.2 ++ " " ++ tail s')
    | none => (s, "bad-op")
  | "pre" :: recs =>
    match recs.mapM parseRec with
    | some p =>
      (s, "pre " ++ (match verifyPrereqs s.cfg s.zone p with | some e => showRc e | none => "ok"))
    | none => (s, "bad-op")
  | "cut" :: k :: _ =>
    match k.toNat? with
    | some k =>
      match recover s.cfg (s.journal.take k) with
      | some z => (s, "rec ok " ++ tail { s with zone := z, journal := s.journal.take k })
      | none => (s, "rec err")
    | none => (s, "bad-op")
  | "restart" :: k :: _ =>
    match k.toNat? with
    | some k =>
      match recover s.cfg (s.journal.take k) with
      | some z =>
        let s' := { s with zone := z, journal := s.journal.take k }
        (s', "rec ok " ++ tail s')
      | none => (s, "rec err")
    | none => (s, "bad-op")
  | _ => (s, "bad-op")

end HickoryVerif.Drv.C12
