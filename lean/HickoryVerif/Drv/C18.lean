/-
C18 driver: `run <A|B> <user|rr|qs> <ncr> <T ms> <pre> <k> <-|c<ms>j<ms>> <server>...`
server = `<trust>/<warm>/<-|u|t|ut>/<udp script|->/<tcp script|->`, script = steps `<reply><lat>` joined by `.`
-/
import HickoryVerif.Drv.Proto
import HickoryVerif.Model.Pool

namespace HickoryVerif.Drv.C18
open HickoryVerif HickoryVerif.Drv HickoryVerif.Pool

abbrev State := Unit
def init : State := ()

def parseReply : String → Option Reply
  | "ans" => some .ans | "nx" => some .nx | "nd" => some .nd | "sf" => some .sf | "rf" => some .rf
  | "tc" => some .tc | "to" => some .to | "io" => some .io | "rst" => some .rst
  | "busy" => some .busy | "cm" => some .cm
  | _ => none

def parseStep (s : String) : Option Step :=
  let cs := s.toList
  let a := cs.takeWhile (fun c => !c.isDigit)
  let d := cs.dropWhile (fun c => !c.isDigit)
  if d.isEmpty || !d.all Char.isDigit then none else do
    let r ← parseReply (String.ofList a)
    let l ← (String.ofList d).toNat?
    if l > 100000 then none else pure ⟨r, l⟩

def parseScript (s : String) : Option (Option (List Step)) :=
  if s == "-" then some none else do
    let v ← (s.splitOn ".").mapM parseStep
    if v.isEmpty || v.length > 8 then none else pure (some v)

structure SrvTok where
  srv : Server
  preU : Bool
  preT : Bool

def parseSrv (s : String) : Option SrvTok :=
  match s.splitOn "/" with
  | [tr, w, pre, u, t] => do
    let trust ← (match tr with | "1" => some true | "0" => some false | _ => none)
    let warm ← w.toNat?
    let (preU, preT) ← (match pre with
      | "-" => some (false, false) | "u" => some (true, false)
      | "t" => some (false, true) | "ut" => some (true, true) | _ => none)
    let udp ← parseScript u
    let tcp ← parseScript t
    if udp.isNone && tcp.isNone then none
    else if (preU && udp.isNone) || (preT && tcp.isNone) || warm > 8 then none
    else pure ⟨⟨trust, warm, udp, tcp⟩, preU, preT⟩
  | _ => none

def parseCancel (s : String) : Option (Option (Nat × Nat)) :=
  if s == "-" then some none else
  match s.toList with
  | 'c' :: rest =>
    match (String.ofList rest).splitOn "j" with
    | [a, b] => do
      let a ← a.toNat?
      let b ← b.toNat?
      pure (some (a, b))
    | _ => none
  | _ => none

def showRes : Res → String
  | .ans i p => "ans:s" ++ toString i ++ (match p with | .udp => "u" | .tcp => "t")
  | .err e => "err:" ++ (match e with
    | .noconn => "noconn" | .timeout => "timeout" | .io => "io" | .busy => "busy" | .msg => "msg"
    | .nx => "nx" | .nodata => "nodata" | .rcode => "rcode")

/-- log entries carry a sort key `(2·start + half, server, protocol)`; `half = 1` for the second
lookup of the cancel scenario, which runs half a millisecond off the grid -/
structure LogEnt where
  key : Nat
  srv : Nat
  proto : Proto
  start : Nat

def LogEnt.lt (a b : LogEnt) : Bool :=
  a.key < b.key || (a.key == b.key && (a.srv < b.srv ||
    (a.srv == b.srv && (a.proto == .udp && b.proto == .tcp))))

def insertLog (e : LogEnt) : List LogEnt → List LogEnt
  | [] => [e]
  | x :: xs => if e.lt x then e :: x :: xs else x :: insertLog e xs

def sortLog : List LogEnt → List LogEnt
  | [] => []
  | e :: es => insertLog e (sortLog es)

def showLog (times : Bool) (l : List LogEnt) : String :=
  if l.isEmpty then "-" else
  ",".intercalate ((sortLog l).map fun e =>
    "s" ++ toString e.srv ++ (match e.proto with | .udp => "u" | .tcp => "t") ++
    (if times then "@" ++ toString e.start else ""))

def mkLog (half shift : Nat) (l : List (Nat × Xch)) : List LogEnt :=
  l.map fun (i, x) => ⟨2 * (x.start + shift) + half, i, x.proto, x.start + shift⟩

def FUEL : Nat := 200000

def handle (toks : List String) : Option String :=
  match toks with
  | "run" :: mode :: strat :: ncr :: tms :: pre :: k :: cx :: srvToks => do
    let paced ← (match mode with | "A" => some false | "B" => some true | _ => none)
    let strategy ← (match strat with
      | "user" => some Strategy.user | "rr" => some Strategy.rr | "qs" => some Strategy.qs | _ => none)
    let ncr ← ncr.toNat?
    let tms ← tms.toNat?
    let pre ← pre.toNat?
    let k ← k.toNat?
    let cx ← parseCancel cx
    let srvs ← srvToks.mapM parseSrv
    if srvs.isEmpty || srvs.length > 8 || k == 0 || k > 8 || ncr > 8 || pre > 16 || tms == 0 then none
    let anyPre := srvs.any fun s => s.preU || s.preT
    let anyWarm := srvs.any fun s => s.srv.warm > 0
    if anyPre && (anyWarm || pre > 0) then none
    if anyWarm && strategy != .qs then none
    if pre > 0 && strategy != .rr then none
    let cfg : Cfg := ⟨srvs.map (·.srv), strategy, ncr, tms⟩
    let conns : List Conn := srvs.map fun s => { liveU := s.preU, liveT := s.preT }
    let times := !paced
    let fmt := fun (r : Res) (t : Nat) (log : List LogEnt) =>
      showRes r ++ (if paced then " late=" ++ showBool (t > tms + 25) else " t=" ++ toString t) ++
        " log=" ++ showLog times log ++ " same=1"
    match cx with
    | none =>
      let (r, st) ← trySend cfg (rrNextAfter cfg pre) 0 conns FUEL
      pure (fmt r st.clock (mkLog 0 0 st.log))
    | some (tc, tj) =>
      -- restricted scenario: one protocol per server, one-step scripts that cannot re-queue for ever
      let oneProto := fun (s : Server) => s.udp.isNone || s.tcp.isNone
      let okScript := fun (isTcp : Bool) (sc : Option (List Step)) => match sc with
        | none => true
        | some [st] => st.reply != .rst && !(isTcp && (st.reply == .tc || st.reply == .cm))
        | _ => false
      if tj ≤ tc || strategy != .user || anyPre then none
      if !(cfg.servers.all fun s => oneProto s && okScript false s.udp && okScript true s.tcp) then none
      let (r, st) ← trySend cfg 0 0 conns FUEL
      let t1 := st.clock
      let creatorDone := t1 ≤ tc
      let log1 := if k == 1 && !creatorDone then st.log.filter (fun e => e.2.start ≤ tc) else st.log
      let log := mkLog 0 0 log1 ++ mkLog 1 tj st.log
      let t2 := tj + t1
      let first := if k ≥ 2 then t1 else t2
      pure (fmt r first log ++
        (if creatorDone then " c0=" ++ showRes r ++ "@" ++ toString t1 else " c0=cancelled") ++
        " j=" ++ showRes r ++ "@" ++ toString t2)
  | "share" :: evToks => do
    -- `share <ev>...`, ev = s<X> | d<X> | p<X> (X ∈ A..D) | r<k> (k ∈ 1..8); a task is started at most once
    if evToks.isEmpty || evToks.length > 24 then none
    let evs ← evToks.mapM fun t => match t.toList with
      | [k, c] =>
        let task := fun (c : Char) => if 'A' ≤ c ∧ c ≤ 'D' then some (c.toNat - 'A'.toNat) else none
        (match k with
        | 's' => (task c).map SEv.start
        | 'd' => (task c).map SEv.drop
        | 'p' => (task c).map SEv.poll
        | 'r' => if '1' ≤ c ∧ c ≤ '8' then some (SEv.release (c.toNat - '0'.toNat)) else none
        | _ => none)
      | _ => none
    let starts := evs.filterMap fun e => match e with | .start x => some x | _ => none
    if starts.eraseDups.length != starts.length then none
    let s := Share.run {} evs
    let name := fun (x : Nat) => String.singleton (Char.ofNat (x + 'A'.toNat))
    let served := if s.served.isEmpty then "-" else
      ",".intercalate (s.served.map fun (x, l) => name x ++ ":" ++ toString l)
    let alive := (List.range 4).filter fun x => s.tasks.any fun t => t.id == x
    let waiting := if alive.isEmpty then "-" else ",".intercalate (alive.map name)
    pure ("ex=" ++ toString s.started ++ " served=" ++ served ++ " waiting=" ++ waiting)
  | "seq" :: strat :: ncr :: tms :: att :: m :: gap :: srvToks => do
    let strategy ← (match strat with
      | "user" => some Strategy.user | "rr" => some Strategy.rr | _ => none)
    let ncr ← ncr.toNat?
    let tms ← tms.toNat?
    let att ← (if att == "-" then some none else att.toNat?.map some)
    let m ← m.toNat?
    let gap ← gap.toNat?
    let srvs ← srvToks.mapM parseSrv
    if srvs.isEmpty || srvs.length > 8 || ncr > 8 || tms == 0 || m == 0 || m > 8 || gap > 1000 then none
    if (att.getD 0) > 4 || (srvs.any fun s => s.srv.warm > 0) then none
    let cfg : Cfg := ⟨srvs.map (·.srv), strategy, ncr, tms⟩
    let conns : List Conn := srvs.map fun s => { liveU := s.preU, liveT := s.preT }
    let (rs, p) ← Pool.seq cfg FUEL att gap m ⟨conns, 0, 0, []⟩ []
    pure (";".intercalate (rs.map fun (r, t) => showRes r ++ "@" ++ toString t) ++
      " log=" ++ showLog true (mkLog 0 0 p.log))
  | _ => none

def step (s : State) (toks : List String) : State × String :=
  (s, (handle toks).getD "bad-op")

end HickoryVerif.Drv.C18
