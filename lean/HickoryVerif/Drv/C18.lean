/-
C18 driver: `run <A|B> <user|rr|qs> <ncr> <T ms> <pre> <k> <-|c<ms>j<ms>> <server>...`
server = `<trust>/<warm>/<-|u|t|ut>/<udp script|->/<tcp script|->`, script = steps `<reply><lat>` joined by `.`
-/
import HickoryVerif.Drv.Proto
import HickoryVerif.Model.Pool

namespace HickoryVerif.Drv.C18
open HickoryVerif HickoryVerif.Drv HickoryVerif.Pool

abbrev State := Unit
def init : State := ()

def parseReply : String → Option Reply
  | "ans" => some .ans | "nx" => some .nx | "nd" => some .nd | "sf" => some .sf | "rf" => some .rf
  | "tc" => some .tc | "to" => some .to | "io" => some .io | "rst" => some .rst
  | "busy" => some .busy | "cm" => some .cm | "cf" => some .cf
  | _ => none

def parseStep (s : String) : Option Step :=
  let cs := s.toList
  let a := cs.takeWhile (fun c => !c.isDigit)
  let d := cs.dropWhile (fun c => !c.isDigit)
  if d.isEmpty || !d.all Char.isDigit then none else do
    let r ← parseReply (String.ofList a)
    let l ← (String.ofList d).toNat?
    if l > 100000 then none else pure ⟨r, l⟩

def parseScript (s : String) : Option (Option (List Step)) :=
  if s == "-" then some none else do
    let v ← (s.splitOn ".").mapM parseStep
    if v.isEmpty || v.length > 8 then none else pure (some v)

structure SrvTok where
  srv : Server
  preU : Bool
  preT : Bool

def parseSrv (s : String) : Option SrvTok :=
  match s.splitOn "/" with
  | [tr, w, pre, u, t] => do
    let trust ← (match tr with | "1" => some true | "0" => some false | _ => none)
    let warm ← w.toNat?
    -- a leading `~`: protocols configured TCP first; `tu`: connection table TCP first (order is immaterial)
    let pre := if pre.startsWith "~" then (pre.drop 1).toString else pre
    let (preU, preT) ← (match pre with
      | "-" => some (false, false) | "u" => some (true, false)
      | "t" => some (false, true) | "ut" => some (true, true) | "tu" => some (true, true) | _ => none)
    let udp ← parseScript u
    let tcp ← parseScript t
    if udp.isNone && tcp.isNone then none
    else if (preU && udp.isNone) || (preT && tcp.isNone) || warm > 8 then none
    else pure ⟨⟨trust, warm, udp, tcp⟩, preU, preT⟩
  | _ => none

def parseCancel (s : String) : Option (Option (Nat × Nat)) :=
  if s == "-" then some none else
  match s.toList with
  | 'c' :: rest =>
    match (String.ofList rest).splitOn "j" with
    | [a, b] => do
      let a ← a.toNat?
      let b ← b.toNat?
      pure (some (a, b))
    | _ => none
  | _ => none

def showRes : Res → String
  | .ans i p => "ans:s" ++ toString i ++ (match p with | .udp => "u" | .tcp => "t")
  | .err e => "err:" ++ (match e with
    | .noconn => "noconn" | .timeout => "timeout" | .io => "io" | .busy => "busy" | .msg => "msg"
    | .nx => "nx" | .nodata => "nodata" | .rcode => "rcode")

/-- log entries carry a sort key `(2·start + half, server, protocol)`; `half = 1` for the second
lookup of the cancel scenario, which runs half a millisecond off the grid -/
structure LogEnt where
  key : Nat
  srv : Nat
  proto : Proto
  start : Nat

def LogEnt.lt (a b : LogEnt) : Bool :=
  a.key < b.key || (a.key == b.key && (a.srv < b.srv ||
    (a.srv == b.srv && (a.proto == .udp && b.proto == .tcp))))

def insertLog (e : LogEnt) : List LogEnt → List LogEnt
  | [] => [e]
  | x :: xs => if e.lt x then e :: x :: xs else x :: insertLog e xs

def sortLog : List LogEnt → List LogEnt
  | [] => []
  | e :: es => insertLog e (sortLog es)

def showLog (times : Bool) (l : List LogEnt) : String :=
  if l.isEmpty then "-" else
  ",".intercalate ((sortLog l).map fun e =>
    "s" ++ toString e.srv ++ (match e.proto with | .udp => "u" | .tcp => "t") ++
    (if times then "@" ++ toString e.start else ""))

def mkLog (half shift : Nat) (l : List (Nat × Xch)) : List LogEnt :=
  l.map fun (i, x) => ⟨2 * (x.start + shift) + half, i, x.proto, x.start + shift⟩

def FUEL : Nat := 200000

def handleRun (deny : Option (Bool × Bool)) (toks : List String) : Option String :=
  match toks with
  | mode :: strat :: ncr :: tms :: pre :: k :: cx :: srvToks => do
    let paced ← (match mode with | "A" => some false | "B" => some true | _ => none)
    let strategy ← (match strat with
      | "user" => some Strategy.user | "rr" => some Strategy.rr | "qs" => some Strategy.qs | _ => none)
    let ncr ← ncr.toNat?
    let tms ← tms.toNat?
    let pre ← pre.toNat?
    let k ← k.toNat?
    let cx ← parseCancel cx
    let srvs ← srvToks.mapM parseSrv
    if srvs.isEmpty || srvs.length > 8 || k == 0 || k > 8 || ncr > 8 || pre > 16 || tms == 0 then none
    let anyPre := srvs.any fun s => s.preU || s.preT
    let anyWarm := srvs.any fun s => s.srv.warm > 0
    if anyPre && (anyWarm || pre > 0) then none
    if anyWarm && strategy != .qs then none
    if pre > 0 && strategy != .rr then none
    let cfg : Cfg := ⟨srvs.map (·.srv), strategy, ncr, tms⟩
    let conns : List Conn := srvs.map fun s => { liveU := s.preU, liveT := s.preT }
    let times := !paced
    if deny.isSome && (paced || cx.isSome) then none
    let fmt := fun (r : Res) (t : Nat) (log : List LogEnt) =>
      let r' := match deny with | some (du, dt) => filterRes du dt r | none => r
      -- payload of a `NoRecordsFound` error after `strip_denied_addresses`: the scripted NXDOMAIN carries
      -- two authority records (NS + an address in the UDP network) and two glue addresses (one per network)
      let counts := match deny, r, r' with
        | some (du, dt), .err .nx, _ =>
          " aut=" ++ toString (2 - (if du then 1 else 0)) ++
          " glue=" ++ toString (2 - (if du then 1 else 0) - (if dt then 1 else 0))
        | some _, _, .err .nx => " aut=0 glue=0"
        | some _, .err .nodata, _ => " aut=0 glue=0"
        | some _, _, _ => " aut=- glue=-"
        | none, _, _ => ""
      showRes r' ++ (if paced then " late=" ++ showBool (t > tms + 25) else " t=" ++ toString t) ++
        " log=" ++ showLog times log ++ " same=1" ++ counts
    match cx with
    | none =>
      let (r, st) ← trySend cfg (rrNextAfter cfg pre) 0 conns FUEL
      pure (fmt r st.clock (mkLog 0 0 st.log))
    | some (tc, tj) =>
      -- restricted scenario: one protocol per server, one-step scripts that cannot re-queue for ever
      let oneProto := fun (s : Server) => s.udp.isNone || s.tcp.isNone
      let okScript := fun (isTcp : Bool) (sc : Option (List Step)) => match sc with
        | none => true
        | some [st] => st.reply != .rst && !(isTcp && (st.reply == .tc || st.reply == .cm))
        | _ => false
      if tj ≤ tc || strategy != .user || anyPre then none
      if !(cfg.servers.all fun s => oneProto s && okScript false s.udp && okScript true s.tcp) then none
      let (r, st) ← trySend cfg 0 0 conns FUEL
      let t1 := st.clock
      let creatorDone := t1 ≤ tc
      let log1 := if k == 1 && !creatorDone then st.log.filter (fun e => e.2.start ≤ tc) else st.log
      let log := mkLog 0 0 log1 ++ mkLog 1 tj st.log
      let t2 := tj + t1
      let first := if k ≥ 2 then t1 else t2
      pure (fmt r first log ++
        (if creatorDone then " c0=" ++ showRes r ++ "@" ++ toString t1 else " c0=cancelled") ++
        " j=" ++ showRes r ++ "@" ++ toString t2)
  | _ => none

def parseDeny : String → Option (Bool × Bool)
  | "u" => some (true, false) | "t" => some (false, true) | "ut" => some (true, true)
  | "-" => some (false, false) | _ => none

def parseErr : String → Option (Option Err)
  | "ans" => some none | "noconn" => some (some .noconn) | "timeout" => some (some .timeout)
  | "io" => some (some .io) | "busy" => some (some .busy) | "msg" => some (some .msg)
  | "nx" => some (some .nx) | "nodata" => some (some .nodata) | "rcode" => some (some .rcode)
  | _ => none

def handle (toks : List String) : Option String :=
  match toks with
  | "run" :: rest => handleRun none rest
  | "runf" :: d :: rest => do
    let d ← parseDeny d
    handleRun (some d) rest
  | ["noq"] => some "err:msg ex=0"
  | "rt" :: att :: outs => do
    -- `RetryDnsHandle` over a plain scripted handle: results of the successive sends, the last repeating
    let att ← att.toNat?
    let outs ← outs.mapM parseErr
    if att > 6 || outs.isEmpty || outs.length > 12 || outs.getLast? == some (some .busy) then none
    let (r, n) ← retryPlain 64 att 0 outs
    pure ((match r with | none => "ans" | some e => showRes (.err e)) ++ " sends=" ++ toString n)
  | "share" :: evToks => do
    -- `share <ev>...`, ev = s<X>[v] | d<X> | p<X> (X ∈ A..D) | r<k> (k ∈ 1..8); a task is started at most once.
    -- v ∈ 0..6 selects a variant of the request (`CacheKey`): 0 plain (EDNS, no DO), 1 EDNS with DO, 2 RD clear,
    -- 3 CD set, 4 another query type, 5 no EDNS at all (same key as 0), 6 EDNS client subnet
    if evToks.isEmpty || evToks.length > 24 then none
    let task := fun (c : Char) => if 'A' ≤ c ∧ c ≤ 'D' then some (c.toNat - 'A'.toNat) else none
    let evs ← evToks.mapM fun t => match t.toList with
      | [k, c] =>
        (match k with
        | 's' => (task c).map fun x => (SEv.start x, 0)
        | 'd' => (task c).map fun x => (SEv.drop x, 0)
        | 'p' => (task c).map fun x => (SEv.poll x, 0)
        | 'r' => if '1' ≤ c ∧ c ≤ '8' then some (SEv.release (c.toNat - '0'.toNat), 0) else none
        | _ => none)
      | ['s', c, v] =>
        if '0' ≤ v ∧ v ≤ '6' then (task c).map fun x => (SEv.start x, v.toNat - '0'.toNat) else none
      | _ => none
    let starts := evs.filterMap fun e => match e.1 with | .start x => some x | _ => none
    if starts.eraseDups.length != starts.length then none
    let multi := evs.any fun e => e.2 != 0
    let keyOf := fun (v : Nat) => if v == 5 then 0 else v
    let getM := fun (ms : List (Nat × Share)) (k : Nat) => (ms.lookup k).getD {}
    let setM := fun (ms : List (Nat × Share)) (k : Nat) (m : Share) => (k, m) :: ms.filter (·.1 != k)
    -- state: machines per key, (key, local lookup) ↦ global exchange number, exchanges started, key of every
    -- task, served (task, global exchange)
    let fin ← evs.foldlM (init := (([] : List (Nat × Share)), ([] : List ((Nat × Nat) × Nat)), 0,
        ([] : List (Nat × Nat)), ([] : List (Nat × Nat))))
      fun (ms, l2g, g, tk, served) (ev, v) =>
        let apply := fun (key : Nat) (e : SEv) (tk : List (Nat × Nat)) =>
          let m := getM ms key
          let m' := m.step e
          let created := m'.started > m.started
          let g' := if created then g + 1 else g
          let l2g' := if created then ((key, m'.started), g') :: l2g else l2g
          let newServed := (m'.served.drop m.served.length).map fun (x, l) =>
            (x, (l2g'.lookup (key, l)).getD l)
          some (setM ms key m', l2g', g', tk, served ++ newServed)
        match ev with
        | .start x => apply (keyOf v) ev ((x, keyOf v) :: tk)
        | .drop x | .poll x =>
          match tk.lookup x with
          | some key => apply key ev tk
          | none => some (ms, l2g, g, tk, served)
        | .release k =>
          match l2g.find? (fun e => e.2 == k) with
          | some ((key, l), _) => apply key (.release l) tk
          | none => if multi then none else apply 0 ev tk
    let (ms, _, g, _, served) := fin
    let name := fun (x : Nat) => String.singleton (Char.ofNat (x + 'A'.toNat))
    let servedS := if served.isEmpty then "-" else
      ",".intercalate (served.map fun (x, l) => name x ++ ":" ++ toString l)
    let alive := (List.range 4).filter fun x => ms.any fun (_, m) => m.tasks.any fun t => t.id == x
    let waiting := if alive.isEmpty then "-" else ",".intercalate (alive.map name)
    pure ("ex=" ++ toString g ++ " served=" ++ servedS ++ " waiting=" ++ waiting)
  | "seq" :: strat :: ncr :: tms :: att :: m :: gap :: srvToks => do
    let strategy ← (match strat with
      | "user" => some Strategy.user | "rr" => some Strategy.rr | _ => none)
    let ncr ← ncr.toNat?
    let tms ← tms.toNat?
    let att ← (if att == "-" then some none else att.toNat?.map some)
    let m ← m.toNat?
    let gap ← gap.toNat?
    let srvs ← srvToks.mapM parseSrv
    if srvs.isEmpty || srvs.length > 8 || ncr > 8 || tms == 0 || m == 0 || m > 8 || gap > 1000 then none
    if (att.getD 0) > 4 || (srvs.any fun s => s.srv.warm > 0) then none
    let cfg : Cfg := ⟨srvs.map (·.srv), strategy, ncr, tms⟩
    let conns : List Conn := srvs.map fun s => { liveU := s.preU, liveT := s.preT }
    let (rs, p) ← Pool.seq cfg FUEL att gap m ⟨conns, 0, 0, []⟩ []
    pure (";".intercalate (rs.map fun (r, t) => showRes r ++ "@" ++ toString t) ++
      " log=" ++ showLog true (mkLog 0 0 p.log))
  | _ => none

def step (s : State) (toks : List String) : State × String :=
  (s, (handle toks).getD "bad-op")

end HickoryVerif.Drv.C18
