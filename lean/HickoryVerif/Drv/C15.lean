/-
Driver of C15: runs `Model/Cache.lean` on the history blocks written by harness/src/props/c15.rs.

  begin [d:<b>] [<type>:<b>]…      b = posMin,posMax,negMin,negMax  (ns, `-` = None); per-type
                                   tokens in the order of the `with_query_type_ttl_bounds` calls
  ins <q> <t> pos <an> <au> <ad>    sections: `-` or `type:ttl:pid,…`
  ins <q> <t> neg <rcode> <nttl|-> <soa|-> <auth|-|e> <ns|-|e>   ns = `rec/glue+glue;rec/…`
  ins <q> <t> err <kind>
  get <q> <t>
  clear | clearq <q>
  cclookup <q> <result as for ins>  caching-client step (each one 1 ns after the last): `hit` if served
                                    from the cache, else `miss` and the upstream result is inserted
                                    (`neg` = a response message with that rcode and SOA, MINIMUM 60)
  end
  fromresp <rcode> <tc> <ans> <match> <soa_ttl|-> <minimum>   `DnsError::from_response` (outside blocks)
  realtime <ms>                     implementation-only line
  q = <id>[u]/<type>   (`u`: the harness uses an upper-case spelling of the same name)
-/
import HickoryVerif.Drv.Proto
import HickoryVerif.Model.Cache

namespace HickoryVerif.Drv.C15
open HickoryVerif HickoryVerif.Drv HickoryVerif.Cache

structure State where
  cfg : TtlConfig := {}
  st : Cache.State := []
  /-- caching-client blocks run on the real clock: every step happens strictly later than the last -/
  ccTime : Nat := 0

def init : State := {}

def optNat (s : String) : Option (Option Nat) :=
  if s == "-" then some none else s.toNat?.map some

def parseBounds (s : String) : Option Bounds :=
  match s.splitOn "," with
  | [a, b, c, d] => do
    let a ← optNat a; let b ← optNat b; let c ← optNat c; let d ← optNat d
    pure { posMin := a, posMax := b, negMin := c, negMax := d }
  | _ => none

def parseCfgTok (cfg : TtlConfig) (tok : String) : Option TtlConfig :=
  match tok.splitOn ":" with
  | ["d", b] => do let b ← parseBounds b; pure { cfg with default := b }
  | [ty, b] => do
    let ty ← ty.toNat?; let b ← parseBounds b
    pure { cfg with byType := (ty, b) :: cfg.byType }
  | _ => none

def parseCfg : TtlConfig → List String → Option TtlConfig
  | cfg, [] => some cfg
  | cfg, t :: ts => (parseCfgTok cfg t).bind fun c => parseCfg c ts

def parseQuery (s : String) : Option Query :=
  match s.splitOn "/" with
  | [i, ty] => do
    let i := if i.endsWith "u" then (i.dropEnd 1).toString else i
    let i ← i.toNat?; let ty ← ty.toNat?
    pure { id := i, qtype := ty }
  | _ => none

def parseRec (s : String) : Option Rec :=
  match s.splitOn ":" with
  | [a, b, c] => do
    let a ← a.toNat?; let b ← b.toNat?; let c ← c.toNat?
    pure { rtype := a, ttl := b, pid := c }
  | _ => none

def parseRecsSep (sep : String) (s : String) : Option (List Rec) :=
  if s == "-" || s.isEmpty then some [] else (s.splitOn sep).mapM parseRec

def parseRecs (s : String) : Option (List Rec) := parseRecsSep "," s

def parseOptRecs (s : String) : Option (Option (List Rec)) :=
  if s == "-" then some none else if s == "e" then some (some []) else (parseRecs s).map some

def parseNsData (s : String) : Option NsData :=
  match s.splitOn "/" with
  | [r, g] => do
    let r ← parseRec r; let g ← parseRecsSep "+" g
    pure { ns := r, glue := g }
  | _ => none

def parseOptNs (s : String) : Option (Option (List NsData)) :=
  if s == "-" then some none else if s == "e" then some (some [])
  else ((s.splitOn ";").mapM parseNsData).map some

def parseRes : List String → Option Res
  | ["pos", an, au, ad] => do
    let an ← parseRecs an; let au ← parseRecs au; let ad ← parseRecs ad
    pure (.pos { answers := an, authorities := au, additionals := ad })
  | ["neg", rc, nt, soa, auth, ns] => do
    let rc ← rc.toNat?; let nt ← optNat nt
    let soa ← if soa == "-" then some none else (parseRec soa).map some
    let auth ← parseOptRecs auth; let ns ← parseOptNs ns
    pure (.neg { negTtl := nt, soa := soa, auth := auth, ns := ns, rcode := rc })
  | ["err", k] => do let k ← k.toNat?; pure (.other k)
  | _ => none

def showRec (r : Rec) : String := s!"{r.rtype}:{r.ttl}:{r.pid}"

def showRecsSep (sep : String) (l : List Rec) : String :=
  if l.isEmpty then "-" else sep.intercalate (l.map showRec)

def showRecs (l : List Rec) : String := showRecsSep "," l

def showOptRecs : Option (List Rec) → String
  | none => "-"
  | some [] => "e"
  | some l => showRecs l

def showNsData (d : NsData) : String :=
  showRec d.ns ++ "/" ++ (if d.glue.isEmpty then "" else "+".intercalate (d.glue.map showRec))

def showOptNs : Option (List NsData) → String
  | none => "-"
  | some [] => "e"
  | some l => ";".intercalate (l.map showNsData)

def showOptNat : Option Nat → String
  | none => "-"
  | some n => toString n

def showRes : Res → String
  | .pos m => s!"pos {showRecs m.answers} {showRecs m.authorities} {showRecs m.additionals}"
  | .neg n => s!"neg {n.rcode} {showOptNat n.negTtl} {(n.soa.map showRec).getD "-"} {showOptRecs n.auth} {showOptNs n.ns}"
  | .other k => s!"other {k}"

def showGet : Option Res → String
  | none => "none"
  | some r => showRes r

def doIns (s : State) (q : Query) (r : Res) (t : Nat) : State × String :=
  match Cache.insert s.cfg s.st q r t with
  | .ok st' => ({ s with st := st' }, "ok")
  | .err => (s, "err")
  | .panic site => (s, "panic " ++ site)

def handle (s : State) (toks : List String) : Option (State × String) :=
  match toks with
  | ["begin", "cc"] => pure ({}, "ok")
  | "begin" :: cfgToks => do
    let cfg ← parseCfg {} cfgToks
    pure ({ cfg := cfg, st := [] }, "ok")
  | "end" :: _ => pure ({}, "ok")
  | "ins" :: q :: t :: res => do
    let q ← parseQuery q; let t ← t.toNat?; let r ← parseRes res
    pure (doIns s q r t)
  | ["get", q, t] => do
    let q ← parseQuery q; let t ← t.toNat?
    pure (s, showGet (Cache.get s.st q t))
  | ["clear"] => pure ({ s with st := Cache.clear s.st }, "ok")
  | ["clearq", q] => do
    let q ← parseQuery q
    pure ({ s with st := Cache.clearQuery s.st q }, "ok")
  | "cclookup" :: q :: res => do
    let q ← parseQuery q; let r ← parseRes res
    let now := s.ccTime + 1
    let s := { s with ccTime := now }
    match Cache.get s.st q now with
    | some _ => pure (s, "hit")
    | none =>
      -- the upstream answers with a response message: `DnsError::from_response` decides what it is
      let r := match r with
        | .neg n => match fromResponse { rcode := n.rcode, soa := n.soa.map fun x => (x.ttl, 60) } with
          | .noRecords nt => Res.neg { n with negTtl := nt }
          | .rcodeErr c => Res.other c
          | .ok => Res.other 0
        | r => r
      pure ((doIns s q r now).1, "miss")
  | ["fromresp", rc, tc, ans, mt, soaTtl, minimum] => do
    let rc ← rc.toNat?; let t ← optNat soaTtl; let m ← minimum.toNat?
    let r : Resp := { rcode := rc, truncated := tc == "1", answersNonEmpty := ans == "1",
                      matchAnywhere := mt == "1", soa := t.map fun t => (t, m) }
    pure (s, match fromResponse r with
      | .ok => "ok"
      | .noRecords nt => "neg " ++ showOptNat nt
      | .rcodeErr c => s!"err {c}")
  | ["realtime", _] => pure (s, "~")
  | _ => none

def step (s : State) (toks : List String) : State × String :=
  (handle s toks).getD (s, "bad-op")

end HickoryVerif.Drv.C15
