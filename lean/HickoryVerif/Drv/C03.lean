/-
C03 driver (stage 1): encoder scripts, see `Drv/EncScript.lean`.
-/
import HickoryVerif.Drv.EncScript
import HickoryVerif.Drv.MsgEmit

namespace HickoryVerif.Drv.C03
open HickoryVerif HickoryVerif.Drv

abbrev State := Unit
def init : State := ()

def step (s : State) (toks : List String) : State × String :=
  match toks with
  | "enc" :: _ => (s, EncScript.handle toks)
  | "encx" :: _ => (s, EncScript.handle toks)
  | "msg" :: _ => (s, (MsgEmit.handle toks).getD "bad-op")
  | "resp" :: _ => (s, (MsgEmit.handle toks).getD "bad-op")
  | "rt" :: _ => (s, (MsgEmit.handle toks).getD "bad-op")
  | "badrec" :: _ => (s, (MsgEmit.handle toks).getD "bad-op")
  | "respb" :: _ => (s, (MsgEmit.handle toks).getD "bad-op")
  | "cat" :: _ => (s, "~")
  | _ => (s, "bad-op")

end HickoryVerif.Drv.C03
