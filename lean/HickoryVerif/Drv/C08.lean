/-
Driver for C08.  Case line:

  vn <qname> <qtype> <soa|-> <rcode> <answers|-> <nsecs|->

* answers : `,`-separated `name/secure(0|1)/rrsigLabels(-|n)`
* nsecs   : `,`-separated `owner/next/types` with types `+`-separated codes or `-`

Answer: `secure` / `insecure` / `bogus` / `indeterminate`.
-/
import HickoryVerif.Drv.Proto
import HickoryVerif.Model.Nsec

namespace HickoryVerif.Drv.C08
open HickoryVerif HickoryVerif.Drv

abbrev State := Unit
def init : State := ()

def parseList {α} (f : String → Option α) (sep : String) (s : String) : Option (List α) :=
  if s == "-" then some [] else (s.splitOn sep).mapM f

def parseAns (s : String) : Option Ans :=
  match s.splitOn "/" with
  | [n, sec, l] => do
    let n ← parseName n
    let sec ← (if sec == "1" then some true else if sec == "0" then some false else none)
    let l ← (if l == "-" then some none else l.toNat?.map some)
    pure { name := n, secure := sec, rrsigLabels := l }
  | _ => none

def parseNsec (s : String) : Option Nsec :=
  match s.splitOn "/" with
  | [o, n, ts] => do
    let o ← parseName o
    let n ← parseName n
    let ts ← parseList String.toNat? "+" ts
    pure { owner := o, next := n, types := ts }
  | _ => none

def showProof : Proof → String
  | .secure => "secure"
  | .insecure => "insecure"
  | .bogus => "bogus"
  | .indeterminate => "indeterminate"

def handle (toks : List String) : Option String :=
  match toks with
  | ["vn", q, qt, soa, rc, ans, nsecs] => do
    let q ← parseName q
    let qt ← qt.toNat?
    let soa ← (if soa == "-" then some none else (parseName soa).map some)
    let rc ← rc.toNat?
    let ans ← parseList parseAns "," ans
    let nsecs ← parseList parseNsec "," nsecs
    pure (showProof (Nsec.verifyNsec q qt soa rc ans nsecs))
  | _ => none

def step (s : State) (toks : List String) : State × String :=
  (s, (handle toks).getD "bad-op")

end HickoryVerif.Drv.C08
