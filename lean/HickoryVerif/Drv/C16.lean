import HickoryVerif.Drv.Proto
import HickoryVerif.Model.UdpMatch
import HickoryVerif.Model.Multiplexer

/-!
Line protocol of C16.

UDP (stateless, one line per query):
`udp <timeout> <retry_interval> <retry_floor> <max_retries> <server> <id> <case01>[n|o|m|f][x][e][s] <questions> { | <event>* }*`
* case01    case randomisation, followed by how the harness builds the request (ignored by the model:
            the code reads `options().case_randomization` whatever the constructor)
* addr      `4:<ip as decimal>:<port>` / `6:<ip as decimal>:<port>`
* questions `-` or `name/type/class,…` (name token of Drv/Proto)
* event     `D;<delay>;<src addr>;<parses01>;<response01>;<id>;<questions>;<- or =rawhex>[;h<flags word hex>]` or `E;<delay>`
answer: `ok <transmission>.<event index> c=<consumed per started transmission> k=<class>` / `err c=… k=…` /
`timeout c=… k=…`; class = `-`, or `undecodable` / `case` when a datagram of that known-finding class ended the query
-/
namespace HickoryVerif.Drv.C16
open HickoryVerif HickoryVerif.Drv HickoryVerif.UdpMatch

def parseBool (s : String) : Option Bool :=
  if s == "1" then some true else if s == "0" then some false else none

def parseAddr (s : String) : Option Addr :=
  match s.splitOn ":" with
  | ["4", a, p] => do
    let a ← a.toNat?; let p ← p.toNat?
    pure { ip := .v4 a, port := p }
  | ["6", a, p] => do
    let a ← a.toNat?; let p ← p.toNat?
    pure { ip := .v6 a, port := p }
  | _ => none

def parseQuestion (s : String) : Option Question :=
  match s.splitOn "/" with
  | [n, t, c] => do
    let n ← parseName n; let t ← t.toNat?; let c ← c.toNat?
    pure { name := n, qtype := t, qclass := c }
  | _ => none

def parseQuestions (s : String) : Option (List Question) :=
  if s == "-" then some [] else (s.splitOn ",").mapM parseQuestion

def parseEvent (s : String) : Option Timed :=
  match s.splitOn ";" with
  | ["E", d] => do
    let d ← d.toNat?
    pure (d, .ioErr)
  | "D" :: d :: a :: p :: r :: i :: q :: _raw :: hdr => do
    -- optional 9th field `h<flags word>`: the model does not look at header bits other than QR
    if hdr.length > 1 then none
    let d ← d.toNat?; let a ← parseAddr a; let p ← parseBool p; let r ← parseBool r
    let i ← i.toNat?; let q ← parseQuestions q
    pure (d, .dgram { src := a, parses := p, isResponse := r, id := i, questions := q })
  | _ => none

/-- `S;<ok|slow|inuse<n>|denied<n>|other>;<ok|err|short>`: the provider's bind results and the socket's
`send_to` behaviour for one transmission; becomes the `setupFail` pseudo-event when the set-up fails -/
def parseSetup (s : String) : Option (Option Timed) :=
  match s.splitOn ";" with
  | ["S", bind, send] => do
    let (retryable, fatal) ←
      if bind == "ok" || bind == "slow" then some (0, false)
      else if bind == "other" then some (0, true)
      else if bind.startsWith "inuse" then (bind.drop 5).toString.toNat?.map (·, false)
      else if bind.startsWith "denied" then (bind.drop 6).toString.toNat?.map (·, false)
      else none
    let sendOk ← if send == "ok" then some true else if send == "err" || send == "short" then some false else none
    pure (if setupFails retryable fatal sendOk then some (0, .setupFail) else none)
  | _ => none

def parseScript (toks : List String) : Option (List Timed) :=
  match toks with
  | t :: rest =>
    if t.startsWith "S;" then do
      let pre ← parseSetup t
      let evs ← rest.mapM parseEvent
      pure (match pre with | some e => e :: evs | none => evs)
    else toks.mapM parseEvent
  | [] => some []

/-- split the token list at `|` -/
def splitBar : List String → List (List String)
  | [] => [[]]
  | t :: ts =>
    match splitBar ts with
    | [] => [[t]]
    | g :: gs => if t == "|" then [] :: g :: gs else (t :: g) :: gs

def showConsumed (l : List Nat) : String := "c=" ++ ",".intercalate (l.map toString)

def showQuery : QueryOutcome → String
  | .ok t i => s!"ok {t}.{i}"
  | .err => "err"
  | .timeout => "timeout"

def showEndClass : EndClass → String
  | .none => "-"
  | .undecodable => "undecodable"
  | .caseMismatch => "case"

def handleUdp (toks : List String) : Option String :=
  match splitBar toks with
  | [timeout, interval, floor, maxr, server, id, crTok, qs] :: scripts => do
    let timeout ← timeout.toNat?; let interval ← interval.toNat?; let floor ← floor.toNat?; let maxr ← maxr.toNat?
    let server ← parseAddr server; let id ← id.toNat?; let cr ← parseBool (String.ofList (crTok.toList.take 1)); let qs ← parseQuestions qs
    let c : Config := { timeout := timeout, interval := retryInterval interval floor, maxRetries := maxr }
    -- `s` in the flag token: a TSIG signer is configured; it signs when there is an AXFR / IXFR question
    let signed := crTok.toList.contains 's' && qs.any fun q => q.qtype == 252 || q.qtype == 251
    let rq : Request := { server := server, id := id, caseRand := cr, questions := qs, signed := signed }
    let ss ← scripts.mapM parseScript
    -- `e` in the flag token: the request does not encode, the first transmission fails before binding
    let ss := if crTok.toList.contains 'e' then ((0, Event.setupFail) :: ss.headD []) :: ss.tail else ss
    pure (showQuery (query c rq ss) ++ " " ++ showConsumed (consumedList c rq ss) ++ " k=" ++
      showEndClass (queryEndClass c rq ss))
  | _ => none

/-! ## multiplexer blocks

`begin mux <timeout ms> <max_active> <stalled01>[s]` … `end` (`s`: a TSIG signer is configured).  Request `k` gets the model id `k + 1`; `u` is
an id no request has (0).  In a non-stalled block the stream takes every outbound message at once
(so the peer knows the id); in a stalled block it never does.
ops: `send k [e] [x]` (`e`: a request that does not encode; `x`: an AXFR question — signed when a
signer is configured, and then the unsigned frames routed to it fail verification) · `deliver r<k>|u|g|q<k>|e|c <count>` · `poll` · `recv k` · `cancel k` · `advance ms` ·
`shutdown` · `end` (every live caller drains its stream: the summary is the answer). -/

structure MuxDrv where
  s : Mux.State
  stalled : Bool
  /-- `with_signer(..)` -/
  signer : Bool := false
  nextTag : Nat := 0
  /-- requests whose message reached the peer -/
  known : List Nat := []

abbrev State := Option MuxDrv
def init : State := none

def showRecv : Mux.RecvResult → String
  | .ok _ tag => s!"ok {tag}"
  | .err => "err"
  | .ended => "end"
  | .pending => "pending"
  | .noreq => "noreq"

def frameOf (d : MuxDrv) (kind : String) (tag : Nat) : Option Mux.Frame :=
  match kind.toList with
  | ['u'] => some (.msg true true 0 tag)
  | ['g'] => some (.msg false false 0 tag)
  | ['e'] => some .err
  | ['c'] => some .eof
  | 'r' :: k => do
    let k ← (String.ofList k).toNat?
    if d.known.contains k then some (.msg true true (k + 1) tag) else none
  | 'q' :: k => do
    let k ← (String.ofList k).toNat?
    if d.known.contains k then some (.msg true false (k + 1) tag) else none
  | _ => none

def validKind (kind : String) : Bool :=
  match kind.toList with
  | ['u'] | ['g'] | ['e'] | ['c'] => true
  | 'r' :: k | 'q' :: k => (String.ofList k).toNat?.isSome
  | _ => false

def deliverN (d : MuxDrv) (kind : String) : Nat → Option MuxDrv
  | 0 => some d
  | n + 1 => do
    let f ← frameOf d kind d.nextTag
    deliverN { d with s := Mux.step d.s (.deliver f), nextTag := d.nextTag + 1 } kind n

/-- a caller drains its stream: up to 12 polls, stopping at end-of-stream or pending -/
def drainCaller (s : Mux.State) (r : Nat) : Nat → Mux.State × List String
  | 0 => (s, [])
  | n + 1 =>
    let (s', res) := Mux.recv s r
    match res with
    | .ok _ tag => let (s'', l) := drainCaller s' r n; (s'', s!"ok{tag}" :: l)
    | .err => let (s'', l) := drainCaller s' r n; (s'', "err" :: l)
    | .ended => (s', ["end"])
    | .pending => (s', ["pending"])
    | .noreq => (s', ["noreq"])

def summary (s : Mux.State) : String :=
  let live := s.callers.filter fun c => !c.chan.rxClosed
  let (_, parts) := live.foldl (fun (acc : Mux.State × List String) c =>
    let (s', l) := drainCaller acc.1 c.req 12
    (s', acc.2 ++ [s!"{c.req}:" ++ ",".intercalate l])) (s, [])
  if parts.isEmpty then "-" else " ".intercalate parts

def muxStep (d : MuxDrv) (toks : List String) : Option (MuxDrv × String) :=
  match toks with
  | "send" :: k :: opt => do
    let k ← k.toNat?
    let (enc, axfr) ← match opt with
      | [] => some (true, false) | ["e"] => some (false, false)
      | ["x"] => some (true, true) | ["e", "x"] => some (false, true) | _ => none
    match Mux.send d.s k [k + 1] enc (d.signer && axfr) with
    | .panic _ => pure (d, "panic")
    | .err => pure (d, "panic")
    | .ok (s', .sent _) =>
      let s' := if d.stalled then s' else Mux.step s' .drain
      pure ({ d with s := s', known := if d.stalled then d.known else k :: d.known }, "sent")
    | .ok (s', .err) => pure ({ d with s := (Mux.recv s' k).1 }, "err")   -- the probing poll takes the error
    | .ok (_, .bad) => pure (d, "bad")
  | ["deliver", kind, n] => do
    let n ← n.toNat?
    if !validKind kind then none
    else match deliverN d kind n with
      | some d' => pure (d', "ok")
      | none => pure (d, "noid")
  | ["poll"] =>
    let (s', r) := Mux.poll d.s
    pure ({ d with s := s' },
      if r.done then "done" else s!"pending w={boolStr r.wake} sp={boolStr r.streamPending}")
  | ["recv", k] => do
    let k ← k.toNat?
    let (s', r) := Mux.recv d.s k
    pure ({ d with s := s' }, showRecv r)
  | ["cancel", k] => do
    let k ← k.toNat?
    match d.s.caller? k with
    | some c => if c.chan.rxClosed then pure (d, "noreq") else pure ({ d with s := Mux.cancel d.s k }, "ok")
    | none => pure (d, "noreq")
  | ["advance", dt] => do
    let dt ← dt.toNat?
    pure ({ d with s := Mux.step d.s (.advance dt) }, "ok")
  | ["shutdown"] => pure ({ d with s := Mux.step d.s .shutdown }, "ok")
  | _ => none

def step (s : State) (toks : List String) : State × String :=
  match toks with
  | "udp" :: rest => (s, (handleUdp rest).getD "bad-op")
  | ["consts"] =>
    (s, s!"{UdpMatch.MAX_EXAMINED} {Mux.QOS_MAX_RECEIVE_MSGS} {Mux.ID_TRIES} {Mux.CHAN_CAP} {Mux.OUT_CAP} {UdpMatch.BIND_RETRIES}")
  | "begin" :: "mux" :: t :: m :: st :: _ =>
    match t.toNat?, m.toNat?, parseBool (String.ofList (st.toList.take 1)) with
    | some t, some m, some stl =>
      (some { s := Mux.init t m, stalled := stl, signer := st.toList.contains 's' }, "ok")
    | _, _, _ => (none, "bad-op")
  | ["end"] =>
    match s with
    | some d => (none, summary d.s)
    | none => (none, "bad-op")
  | _ =>
    match s with
    | some d =>
      match muxStep d toks with
      | some (d', o) => (some d', o)
      | none => (some d, "bad-op")
    | none => (s, "bad-op")

end HickoryVerif.Drv.C16
