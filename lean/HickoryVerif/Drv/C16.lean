import HickoryVerif.Drv.Proto
import HickoryVerif.Model.UdpMatch

/-!
Line protocol of C16.

UDP (stateless, one line per query):
`udp <timeout> <retry_interval> <retry_floor> <max_retries> <server> <id> <case01> <questions> { | <event>* }*`
* addr      `4:<ip as decimal>:<port>` / `6:<ip as decimal>:<port>`
* questions `-` or `name/type/class,…` (name token of Drv/Proto)
* event     `D;<delay>;<src addr>;<parses01>;<response01>;<id>;<questions>;<- or =rawhex>` or `E;<delay>`
answer: `ok <transmission>.<event index> c=<consumed per started transmission>` / `err c=…` / `timeout c=…`
-/
namespace HickoryVerif.Drv.C16
open HickoryVerif HickoryVerif.Drv HickoryVerif.UdpMatch

def parseBool (s : String) : Option Bool :=
  if s == "1" then some true else if s == "0" then some false else none

def parseAddr (s : String) : Option Addr :=
  match s.splitOn ":" with
  | ["4", a, p] => do
    let a ← a.toNat?; let p ← p.toNat?
    pure { ip := .v4 a, port := p }
  | ["6", a, p] => do
    let a ← a.toNat?; let p ← p.toNat?
    pure { ip := .v6 a, port := p }
  | _ => none

def parseQuestion (s : String) : Option Question :=
  match s.splitOn "/" with
  | [n, t, c] => do
    let n ← parseName n; let t ← t.toNat?; let c ← c.toNat?
    pure { name := n, qtype := t, qclass := c }
  | _ => none

def parseQuestions (s : String) : Option (List Question) :=
  if s == "-" then some [] else (s.splitOn ",").mapM parseQuestion

def parseEvent (s : String) : Option Timed :=
  match s.splitOn ";" with
  | ["E", d] => do
    let d ← d.toNat?
    pure (d, .ioErr)
  | ["D", d, a, p, r, i, q, _raw] => do
    let d ← d.toNat?; let a ← parseAddr a; let p ← parseBool p; let r ← parseBool r
    let i ← i.toNat?; let q ← parseQuestions q
    pure (d, .dgram { src := a, parses := p, isResponse := r, id := i, questions := q })
  | _ => none

/-- split the token list at `|` -/
def splitBar : List String → List (List String)
  | [] => [[]]
  | t :: ts =>
    match splitBar ts with
    | [] => [[t]]
    | g :: gs => if t == "|" then [] :: g :: gs else (t :: g) :: gs

def showConsumed (l : List Nat) : String := "c=" ++ ",".intercalate (l.map toString)

def showQuery : QueryOutcome → String
  | .ok t i => s!"ok {t}.{i}"
  | .err => "err"
  | .timeout => "timeout"

def handleUdp (toks : List String) : Option String :=
  match splitBar toks with
  | [timeout, interval, floor, maxr, server, id, cr, qs] :: scripts => do
    let timeout ← timeout.toNat?; let interval ← interval.toNat?; let floor ← floor.toNat?; let maxr ← maxr.toNat?
    let server ← parseAddr server; let id ← id.toNat?; let cr ← parseBool cr; let qs ← parseQuestions qs
    let c : Config := { timeout := timeout, interval := retryInterval interval floor, maxRetries := maxr }
    let rq : Request := { server := server, id := id, caseRand := cr, questions := qs }
    let ss ← scripts.mapM fun s => s.mapM parseEvent
    pure (showQuery (query c rq ss) ++ " " ++ showConsumed (consumedList c rq ss))
  | _ => none

abbrev State := Unit
def init : State := ()

def step (s : State) (toks : List String) : State × String :=
  match toks with
  | "udp" :: rest => (s, (handleUdp rest).getD "bad-op")
  | _ => (s, "bad-op")

end HickoryVerif.Drv.C16
