/-
Script interpreter shared by the C02 and C03 drivers: one case line is a whole script of
`BinEncoder` operations run on one encoder (the harness runs the same script on the real
`BinEncoder`).  Line: `enc <init> <op> <op> …`

  init : `e` (empty Vec, `BinEncoder::new`) | `new:HEX` (`new` on a non-empty Vec)
       | `wo:HEX:K` (`with_offset(buf, K)`)
  op   : `max:N` `canon:0|1` `ne:c|u|l` `fill:N:BB` `sl:HEX` `u8:N` `u16:N` `u32:N` `cd:HEX`
         `cdn:N:BB` `n:c|u|l|d:NAME` `rd:s|c|o:NAME` `pl:K` `pl:u` `rp:HEX` `rpu:N` `rpl` `lsp` `trim`
         `slp:S:E` `glp:S:E` `so:S:E` `iter(` item ops… `/` item ops… `)`
  out  : `<status>,<status>,… len=<n> h=<fnv1a64> buf=<hex (whole if ≤ 1024 octets, else tail 512)>`
         or `panic`.
-/
import HickoryVerif.Drv.Proto
import HickoryVerif.Model.Encoder
import HickoryVerif.Model.NameEmit

namespace HickoryVerif.Drv.EncScript
open HickoryVerif HickoryVerif.Drv

inductive Op where
  | setMax (n : Nat)
  | canon (b : Bool)
  | ne (m : NameEncoding)
  | slice (bs : Bytes)
  | u8 (n : Nat)
  | u16 (n : Nat)
  | u32 (n : Nat)
  | cd (bs : Bytes)
  | name (mode : Option NameEncoding) (n : Name)
  | rd (k : RDataEncoding) (n : Name)
  | pl (len : Nat) (isU16 : Bool)
  | rp (bs : Bytes)
  | rpu (n : Nat)
  | rpl
  | lsp
  | trim
  | slp (s e : Nat)
  | glp (s e : Nat)
  | so (s e : Nat)
  | iter (items : List (List Op))
  deriving Inhabited

def parseMode : String → Option (Option NameEncoding)
  | "c" => some (some .compressed)
  | "u" => some (some .uncompressed)
  | "l" => some (some .uncompressedLowercase)
  | "d" => some none
  | _ => none

def parseKind : String → Option RDataEncoding
  | "s" => some .standardRecord
  | "c" => some .canonical
  | "o" => some .other
  | _ => none

def parseSimple (tok : String) : Option Op :=
  match tok.splitOn ":" with
  | ["max", n] => n.toNat?.map .setMax
  | ["canon", b] => some (.canon (b == "1"))
  | ["ne", m] => do
    let m ← parseMode m
    let m ← m
    pure (.ne m)
  | ["fill", n, b] => do
    let n ← n.toNat?; let b ← parseHex b
    match b with
    | [x] => pure (.slice (List.replicate n x))
    | _ => none
  | ["sl", h] => (parseHex h).map .slice
  | ["u8", n] => n.toNat?.map .u8
  | ["u16", n] => n.toNat?.map .u16
  | ["u32", n] => n.toNat?.map .u32
  | ["cd", h] => (parseHex h).map .cd
  | ["cdn", n, b] => do
    let n ← n.toNat?; let b ← parseHex b
    match b with
    | [x] => pure (.cd (List.replicate n x))
    | _ => none
  | ["n", m, f, ls] => do
    let m ← parseMode m
    let nm ← parseName (f ++ ":" ++ ls)
    pure (.name m nm)
  | ["rd", k, f, ls] => do
    let k ← parseKind k
    let nm ← parseName (f ++ ":" ++ ls)
    pure (.rd k nm)
  | ["pl", "u"] => some (.pl 2 true)
  | ["pl", k] => k.toNat?.map fun k => .pl k false
  | ["rp", h] => (parseHex h).map .rp
  | ["rpu", n] => n.toNat?.map .rpu
  | ["rpl"] => some .rpl
  | ["lsp"] => some .lsp
  | ["trim"] => some .trim
  | ["slp", s, e] => do let s ← s.toNat?; let e ← e.toNat?; pure (.slp s e)
  | ["glp", s, e] => do let s ← s.toNat?; let e ← e.toNat?; pure (.glp s e)
  | ["so", s, e] => do let s ← s.toNat?; let e ← e.toNat?; pure (.so s e)
  | _ => none

/-- parses ops up to a closing `)` / `/` (not consumed) or the end. -/
partial def parseOps (toks : List String) (acc : List Op) : Option (List Op × List String) :=
  match toks with
  | [] => some (acc.reverse, [])
  | ")" :: _ => some (acc.reverse, toks)
  | "/" :: _ => some (acc.reverse, toks)
  | "iter(" :: rest => do
    let (items, rest') ← parseItems rest []
    parseOps rest' (.iter items :: acc)
  | t :: rest => do
    let op ← parseSimple t
    parseOps rest (op :: acc)
where
  parseItems (toks : List String) (items : List (List Op)) : Option (List (List Op) × List String) := do
    let (ops, rest) ← parseOps toks []
    match rest with
    | ")" :: rest' =>
      -- `iter( )` is the empty iterator; otherwise the last item ends here
      if ops.isEmpty && items.isEmpty then some ([], rest') else some ((ops :: items).reverse, rest')
    | "/" :: rest' => parseItems rest' (ops :: items)
    | _ => none

structure St where
  enc : Enc
  /-- open places: start index, `T::LEN`, whether `T = u16` -/
  stack : List (Nat × Nat × Bool)
  deriving Inhabited

/-- result of one op -/
inductive R where
  | done (st : St) (status : String) (err : Option EncErr)
  | panic
  | bad
  deriving Inhabited

def errStr : EncErr → String
  | .maxSize => "emax"
  | .notAllWritten c => "naw:" ++ toString c
  | .other => "err"

def ofERes (st : St) : ERes Unit → R
  | .ok _ e => .done { st with enc := e } "ok" none
  | .err k e => .done { st with enc := e } (errStr k) (some k)
  | .panic _ => .panic

mutual
/-- an item of `emit_iter`: its ops are chained with `?`; places are local to the item -/
partial def itemEmit (ops : List Op) (e : Enc) : ERes Unit :=
  go ops { enc := e, stack := [] }
where
  go (ops : List Op) (st : St) : ERes Unit :=
    match ops with
    | [] => .ok () st.enc
    | op :: rest =>
      match runOp st op with
      | .done st' _ none => go rest st'
      | .done st' _ (some k) => .err k st'.enc
      | .panic => .panic "item"
      | .bad => .panic "bad-item"

partial def runOp (st : St) (op : Op) : R :=
  let e := st.enc
  match op with
  | .setMax n => .done { st with enc := e.setMaxSize n } "ok" none
  | .canon b => .done { st with enc := { e with canonicalForm := b } } "ok" none
  | .ne m => .done { st with enc := { e with nameEncoding := m } } "ok" none
  | .slice bs => ofERes st (e.emitSlice bs)
  | .u8 n => ofERes st (e.emitU8 n)
  | .u16 n => ofERes st (e.emitU16 n)
  | .u32 n => ofERes st (e.emitU32 n)
  | .cd bs => ofERes st (e.emitCharacterData bs)
  | .name none n => ofERes st (Name.emit e n)
  | .name (some m) n => ofERes st (e.withNameEncoding m fun e' => Name.emit e' n)
  | .rd k n => ofERes st (e.withRdataBehavior k fun e' => Name.emit e' n)
  | .pl len u =>
    match e.place len with
    | .ok idx e' => .done { enc := e', stack := (idx, len, u) :: st.stack } "ok" none
    | .err k e' => .done { st with enc := e' } (errStr k) (some k)
    | .panic _ => .panic
  | .rp bs =>
    match st.stack with
    | (start, len, false) :: rest =>
      ofERes { st with stack := rest } (e.placeReplace start len fun e' => e'.emitSlice bs)
    | _ => .done st "noplace" none
  | .rpu n =>
    match st.stack with
    | (start, len, true) :: rest =>
      ofERes { st with stack := rest } (e.placeReplace start len fun e' => e'.emitU16 n)
    | _ => .done st "noplace" none
  | .rpl =>
    -- the RDLENGTH back-patch of `Record::emit`: replace(len_since_place as u16)
    match st.stack with
    | (start, len, true) :: rest =>
      match e.lenSincePlace start len with
      | .ok v => ofERes { st with stack := rest } (e.placeReplace start len fun e' => e'.emitU16 v)
      | _ => .panic
    | _ => .done st "noplace" none
  | .lsp =>
    match st.stack with
    | (start, len, _) :: _ =>
      match e.lenSincePlace start len with
      | .ok v => .done st ("=" ++ toString v) none
      | _ => .panic
    | _ => .done st "noplace" none
  | .trim => .done { st with enc := e.trim } "ok" none
  | .slp s t =>
    match e.storeLabelPointer s t with
    | .ok e' => .done { st with enc := e' } "ok" none
    | _ => .panic
  | .glp s t =>
    match e.getLabelPointer s t with
    | .ok none => .done st "=none" none
    | .ok (some v) => .done st ("=" ++ toString v) none
    | _ => .panic
  | .so s t =>
    match e.sliceOf s t with
    | .ok v => .done st ("=" ++ toHex v) none
    | _ => .panic
  | .iter items =>
    match e.emitIter (items.map itemEmit) with
    | .ok c e' => .done { st with enc := e' } ("ok:" ++ toString c) none
    | .err k e' => .done { st with enc := e' } (errStr k) (some k)
    | .panic _ => .panic
end

def fnv1a (b : Bytes) : Nat :=
  b.foldl (fun h x => ((h ^^^ x) * 1099511628211) % 18446744073709551616) 14695981039346656037

def showBuf (b : Bytes) : String :=
  let n := b.length
  "len=" ++ toString n ++ " h=" ++ toString (fnv1a b) ++ " buf=" ++
    toHex (if n ≤ 1024 then b else b.drop (n - 512))

def parseInit (tok : String) : Option Enc :=
  match tok.splitOn ":" with
  | ["e"] => some (Enc.new [])
  | ["new", h] => (parseHex h).map Enc.new
  | ["wo", h, k] => do let b ← parseHex h; let k ← k.toNat?; pure (Enc.withOffset b k)
  | _ => none

/-- `enc <init> ops…` -/
def handle (toks : List String) : String :=
  match toks with
  | op :: init :: rest =>
    if op ≠ "enc" ∧ op ≠ "encx" then "bad-op" else
    match parseInit init, parseOps rest [] with
    | some e, some (ops, []) =>
      -- a malformed script (replace without a matching place) is `bad-op`, a panic is `panic`
      match runAll ops { enc := e, stack := [] } [] with
      | .inl s => s
      | .inr (st, ss) => ",".intercalate ss ++ " " ++ showBuf st.enc.buf
    | _, _ => "bad-op"
  | _ => "bad-op"
where
  runAll (ops : List Op) (st : St) (acc : List String) : String ⊕ (St × List String) :=
    match ops with
    | [] => .inr (st, acc.reverse)
    | op :: rest =>
      match runOp st op with
      | .done st' s _ => runAll rest st' (s :: acc)
      | .panic => .inl "panic"
      | .bad => .inl "bad-op"

end HickoryVerif.Drv.EncScript
