/-
C07 driver: replays one validation over the upstream trace and the oracle tables of a case line
(`run <hid> <qname> <qtype> <E> D<depth> C<cd> <faults> | U … | T …`, see harness/src/props/c07.rs)
with the model `Chain.validate` and prints the per-record proofs and the server's view.
-/
import HickoryVerif.Drv.Proto
import HickoryVerif.Model.Chain

namespace HickoryVerif.Drv.C07
open HickoryVerif HickoryVerif.Drv HickoryVerif.Chain

abbrev State := Unit
def init : State := ()

def parseDName (s : String) : DName := (s.splitOn ".").filter (· ≠ "")

def nat? (s : String) : Option Nat := if s == "-" then some 0 else s.toNat?

/-- `R name type rid a b c d` -/
def parseRec : List String → Option Rec
  | [name, ty, rid, a, b, c, d] => do
    let ty ← ty.toNat?
    let rid ← rid.toNat?
    let base : Rec := { name := parseDName name, rtype := ty, rid := rid }
    if ty == tRRSIG then
      pure { base with covered := ← nat? a, signer := parseDName b, labels := ← nat? c }
    else if ty == tDNSKEY then
      pure { base with tag := ← nat? a, alg := ← nat? b, algSupp := c == "1", digSupp := d == "1" }
    else if ty == tDS then
      pure { base with tag := ← nat? a, alg := ← nat? b, algSupp := c == "1", digSupp := d == "1" }
    else if ty == tNSEC then
      pure { base with tag := ← nat? a }
    else if ty == tNSEC3 then
      pure { base with tag := ← nat? a, alg := ← nat? b }
    else pure base
  | _ => none

def takeRecs : Nat → List String → Option (List Rec × List String)
  | 0, ts => some ([], ts)
  | n + 1, "R" :: ts => do
    let r ← parseRec (ts.take 7)
    let (rs, rest) ← takeRecs n (ts.drop 7)
    pure (r :: rs, rest)
  | _, _ => none

def takeExchanges : Nat → List String → Option (List (Query × UpOut) × List String)
  | 0, ts => some ([], ts)
  | n + 1, "Q" :: name :: ty :: st :: rc :: n0 :: n1 :: n2 :: ts => do
    let ty ← ty.toNat?
    let rc ← rc.toNat?
    let (an, ts) ← takeRecs (← n0.toNat?) ts
    let (ns, ts) ← takeRecs (← n1.toNat?) ts
    let (ad, ts) ← takeRecs (← n2.toNat?) ts
    let m : Msg := { rcode := rc, an := an, ns := ns, ad := ad }
    let out : UpOut := if st == "ok" then .ok m else if st == "nr" then .noRecords m else .fail
    let (es, rest) ← takeExchanges n ts
    pure ((⟨parseDName name, ty⟩, out) :: es, rest)
  | _, _ => none

structure Tables where
  anchors : List Nat := []
  covers : List (Nat × Nat) := []
  sigs : List (Nat × Nat × GroupId × SigRes) := []
  nsecs : List (Nat × Nat × Nat × Proof) := []

def parseProofCh (s : String) : Proof :=
  if s == "S" then .secure else if s == "I" then .insecure else if s == "B" then .bogus else .indet

partial def parseTables (ts : List String) (t : Tables) : Option Tables :=
  match ts with
  | [] => some t
  | "A" :: k :: rest => do parseTables rest { t with anchors := (← k.toNat?) :: t.anchors }
  | "C" :: d :: k :: rest => do parseTables rest { t with covers := (← d.toNat?, ← k.toNat?) :: t.covers }
  | "V" :: k :: s :: qi :: sec :: name :: ty :: c :: rest => do
    let gid : GroupId := ⟨← qi.toNat?, ← sec.toNat?, parseDName name, ← ty.toNat?⟩
    parseTables rest { t with sigs := (← k.toNat?, ← s.toNat?, gid, if c == "S" then .secure else .bogus) :: t.sigs }
  | "N" :: qi :: m :: am :: c :: rest => do
    parseTables rest { t with nsecs := (← qi.toNat?, ← m.toNat?, ← am.toNat?, parseProofCh c) :: t.nsecs }
  | _ => none

def mkEnv (es : List (Query × UpOut)) (t : Tables) : Env where
  up := traceUp es
  anchor k := t.anchors.contains k
  covers d k := t.covers.contains (d, k)
  sigRes k s g := match t.sigs.find? (fun e => e.1 == k && e.2.1 == s && e.2.2.1 == g) with
    | some e => e.2.2.2
    | none => .err
  nsec qi m am := match t.nsecs.find? (fun e => e.1 == qi && e.2.1 == m && e.2.2.1 == am) with
    | some e => e.2.2.2
    | none => .bogus

def proofCh : Proof → Char
  | .secure => 'S'
  | .insecure => 'I'
  | .bogus => 'B'
  | .indet => '-'

def secStr (rs : List Rec) : String :=
  if rs.isEmpty then "." else String.ofList (rs.map fun r => proofCh r.proof)

def showRes : Res → String
  | .ok m => s!"ok {m.rcode} {secStr m.an}/{secStr m.ns}/{secStr m.ad}"
  | .errUp => "err up"
  | .errDepth => "err depth"
  | .errNsec p => s!"err nsec {proofCh p}"
  | .abort w => w

def showSrv (v : Nat × Bool) : String := s!"srv {v.1} {if v.2 then 1 else 0}"

def splitBar (ts : List String) : List (List String) :=
  ts.foldr (fun t acc => if t == "|" then [] :: acc else match acc with
    | [] => [[t]]
    | h :: rest => (t :: h) :: rest) [[]]

def handle (toks : List String) : Option String := do
  match splitBar toks with
  | ("runx" :: _) :: _ => pure "~"  -- no model side: the implementation run without cache was abandoned
  | ("runp" :: _) :: _ => pure "~"  -- no model side: verify_nsec / verify_nsec3 (a parameter of the model) panicked
  | ["covers" :: _, [zk, hash, digest]] =>
    let h : Option Bytes := if hash == "x" then none else parseHex hash
    pure (showBool (dsCovers (zk == "1") h ((parseHex digest).getD [])))
  | ("hist" :: _) :: _ => pure "~"  -- histories on one handle: no model side (the model has no ValidationCache)
  | ("entry" :: _) :: _ => pure "~"  -- other entry points / anchor configuration: judged by the harness oracle only
  | [["run", _hid, qname, qtype, _e, d, c, _faults], "U" :: n :: us, "T" :: _ :: ts] =>
    let depth ← (d.drop 1).toNat?
    let cd := c == "C1"
    let (es, _) ← takeExchanges (← n.toNat?) us
    let tb ← parseTables ts {}
    let env := mkEnv es tb
    let q : Query := ⟨parseDName qname, ← qtype.toNat?⟩
    let r := validate env (depth + 1) 0 q
    match r with
    | .abort w => pure w
    | _ => pure s!"{showRes r} {showSrv (serverView cd q r)}"
  | _ => none

def step (s : State) (toks : List String) : State × String :=
  (s, (handle toks).getD "bad-op")

end HickoryVerif.Drv.C07
