import HickoryVerif.Drv.Proto
import HickoryVerif.Model.ZoneParse

namespace HickoryVerif.Drv.C20
open HickoryVerif HickoryVerif.Drv HickoryVerif.ZoneParse

abbrev State := Unit
def init : State := ()

def showRData : RData → String
  | .a o => "A," ++ toHex o
  | .aaaa g => "AAAA," ++ toHex (g.foldr (fun x acc => x / 256 :: x % 256 :: acc) [])
  | .name _ n => "N," ++ showName n
  | .mx p n => s!"MX,{p},{showName n}"
  | .soa m r a b c d e => s!"SOA,{showName m},{showName r},{a},{b},{c},{d},{e}"
  | .srv p w q n => s!"SRV,{p},{w},{q},{showName n}"
  | .txt ss => ",".intercalate ("TXT" :: ss.map toHex)
  | .hinfo c o => s!"HINFO,{toHex c},{toHex o}"
  | .caa c r t v => s!"CAA,{if c then 1 else 0},{r},{toHex t},{toHex v}"
  | .tlsa sm u l m d => s!"{if sm then "SMIMEA" else "TLSA"},{u},{l},{m},{toHex d}"
  | .ds t g y d => s!"DS,{t},{g},{y},{toHex d}"
  | .sshfp g y f => s!"SSHFP,{g},{y},{toHex f}"
  | .cert c t g d => s!"CERT,{c},{t},{g},{toHex d}"
  | .openpgpkey k => s!"OPENPGPKEY,{toHex k}"

def showRec (r : Rec) : String := s!"{showName r.name}/{r.cls}/{r.ttl}/{showRData r.data}"

def showRSet (rs : RSet) : String :=
  s!"{showName rs.name}/{rs.rtype.code}/{rs.cls}/{rs.ttl}=" ++ ";".intercalate (rs.records.map showRec)

def showResult : ZR (Name × List (Key × RSet)) → String
  | .ok (o, m) =>
    let sets := (m.map fun (_, rs) => showRSet rs).mergeSort (fun a b => !(b < a))
    " ".intercalate ("ok" :: showName o :: sets)
  | .err => "err"
  | .unmodelled => "unmodelled"
  | .panic s => "panic " ++ s

def handle (toks : List String) : Option String :=
  match toks with
  | "zone" :: "i" :: _ => some "impl-only"       -- no model side asked for (e.g. over-long tokens)
  | "zone" :: _flag :: origin :: text :: _ => do
    let origin ← if origin == "-" then some none else (parseName origin).map some
    let text ← parseHex text
    if text.any (· ≥ 128) then pure "non-ascii"
    else pure (showResult (parse text origin))
  | _ => none

def step (s : State) (toks : List String) : State × String :=
  (s, (handle toks).getD "bad-op")

end HickoryVerif.Drv.C20
