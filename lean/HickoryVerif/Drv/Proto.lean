/-
Token-level (de)serialisation shared by all property drivers.
Name token: `F:` / `R:` followed by the labels in hex separated by `.` (`F:` alone is the root).
-/
import HickoryVerif.Model.Name

namespace HickoryVerif.Drv
open HickoryVerif

def parseLabels (s : String) : Option (List Bytes) :=
  if s.isEmpty then some [] else (s.splitOn ".").mapM parseHex

def parseName (tok : String) : Option Name :=
  match tok.toList with
  | 'F' :: ':' :: rest => (parseLabels (String.ofList rest)).map fun ls => { labels := ls, fqdn := true }
  | 'R' :: ':' :: rest => (parseLabels (String.ofList rest)).map fun ls => { labels := ls, fqdn := false }
  | _ => none

def showName (n : Name) : String :=
  (if n.fqdn then "F:" else "R:") ++ ".".intercalate (n.labels.map toHex)

def showOutcome {α} (f : α → String) : Outcome α → String
  | .ok a => "ok " ++ f a
  | .err => "err"
  | .panic s => "panic " ++ s

def showBool (b : Bool) : String := if b then "1" else "0"

end HickoryVerif.Drv
