import HickoryVerif.Drv.Proto
import HickoryVerif.Model.NameWire
import HickoryVerif.Model.NameText
import HickoryVerif.Model.LowerName

namespace HickoryVerif.Drv.C04
open HickoryVerif HickoryVerif.Drv

abbrev State := Unit
def init : State := ()

def handle (toks : List String) : Option String :=
  match toks with
  | ["cmp", a, b] => do
    let a ← parseName a; let b ← parseName b
    pure (ordStr (Name.cmp a b))
  | ["cmpcase", a, b] => do
    let a ← parseName a; let b ← parseName b
    pure (ordStr (Name.cmpCase a b))
  | ["eq", a, b] => do
    let a ← parseName a; let b ← parseName b
    pure (showBool (Name.eq a b))
  | ["eqcase", a, b] => do
    let a ← parseName a; let b ← parseName b
    pure (showBool (Name.eqCase a b))
  | ["hasheq", a, b] => do
    let a ← parseName a; let b ← parseName b
    pure (showBool (Name.hashInput a == Name.hashInput b))
  | ["zone_of", a, b] => do
    let a ← parseName a; let b ← parseName b
    pure (showBool (Name.zoneOf a b))
  | ["append_label", a, l] => do
    let a ← parseName a; let l ← parseHex l
    pure (showOutcome showName (a.appendLabel l))
  | ["prepend_label", a, l] => do
    let a ← parseName a; let l ← parseHex l
    pure (showOutcome showName (a.prependLabel l))
  | ["append_name", a, b] => do
    let a ← parseName a; let b ← parseName b
    pure (showOutcome showName (a.appendName b))
  | ["append_domain", a, b] => do
    let a ← parseName a; let b ← parseName b
    pure (showOutcome showName (a.appendDomain b))
  | ["from_labels", ls] => do
    let ls ← parseLabels ls
    pure (showOutcome showName (Name.fromLabels ls))
  | ["trim_to", a, k] => do
    let a ← parseName a; let k ← k.toNat?
    pure (showOutcome showName (a.trimTo k))
  | ["base_name", a] => do
    let a ← parseName a
    pure (showOutcome showName a.baseName)
  | ["into_wildcard", a] => do
    let a ← parseName a
    pure ("ok " ++ showName a.intoWildcard)
  | ["to_lowercase", a] => do
    let a ← parseName a
    pure ("ok " ++ showName a.toLowercase)
  | ["num_labels", a] => do
    let a ← parseName a
    pure (toString a.numLabels)
  | ["len", a] => do
    let a ← parseName a
    pure (toString a.len)
  | ["is_wildcard", a] => do
    let a ← parseName a
    pure (showBool a.isWildcard)
  | ["emit", a] => do
    let a ← parseName a
    pure (showOutcome toHex (Name.emitUncompressed a))
  | ["read", buf, pos] => do
    let buf ← parseHex buf; let pos ← pos.toNat?
    pure (showOutcome (fun (n, p) => showName n ++ " " ++ toString p) (Name.readName buf pos))
  | ["to_ascii", a] => do
    let a ← parseName a
    pure (toHex (Name.writeAscii a))
  | ["from_ascii", s] => do
    let s ← parseHex s
    pure (showOutcome showName (Name.parseAscii s))
  | ["lcmp", a, b] => do
    let a ← parseName a; let b ← parseName b
    pure (ordStr (LowerName.cmp (LowerName.new a) (LowerName.new b)))
  | ["leq", a, b] => do
    let a ← parseName a; let b ← parseName b
    pure (showBool (LowerName.eq (LowerName.new a) (LowerName.new b)))
  | ["lhasheq", a, b] => do
    let a ← parseName a; let b ← parseName b
    pure (showBool (LowerName.hashInput (LowerName.new a) == LowerName.hashInput (LowerName.new b)))
  | ["lzone_of", a, b] => do
    let a ← parseName a; let b ← parseName b
    pure (showBool (LowerName.zoneOfCase (LowerName.new a) (LowerName.new b)))
  | ["lbase_name", a] => do
    let a ← parseName a
    pure (showOutcome showName (LowerName.new a).baseName)
  | ["linto_wildcard", a] => do
    let a ← parseName a
    pure ("ok " ++ showName (LowerName.new a).intoWildcard)
  | ["lread", buf, pos] => do
    let buf ← parseHex buf; let pos ← pos.toNat?
    pure (showOutcome (fun (n, p) => showName (LowerName.new n) ++ " " ++ toString p) (Name.readName buf pos))
  | ["rrkey_cmp", a, ta, b, tb] => do
    let a ← parseName a; let b ← parseName b; let ta ← ta.toNat?; let tb ← tb.toNat?
    pure (ordStr (LowerName.rrKeyCmp (LowerName.new a, ta) (LowerName.new b, tb)))
  | ["eq_ignore_root", a, b] => do
    let a ← parseName a; let b ← parseName b
    pure (showBool (LowerName.eqIgnoreRoot a b))
  | ["eq_ignore_root_case", a, b] => do
    let a ← parseName a; let b ← parseName b
    pure (showBool (LowerName.eqIgnoreRootCase a b))
  | ["zone_of_case", a, b] => do
    let a ← parseName a; let b ← parseName b
    pure (showBool (LowerName.zoneOfCase a b))
  | ["lbl_cmp", l, r] => do
    let l ← parseHex l; let r ← parseHex r
    pure (ordStr (LowerName.labelCmp true l r))
  | ["lbl_cmpcase", l, r] => do
    let l ← parseHex l; let r ← parseHex r
    pure (ordStr (LowerName.labelCmp false l r))
  | ["lbl_eq", l, r] => do
    let l ← parseHex l; let r ← parseHex r
    pure (showBool (LowerName.labelEq l r))
  | ["lbl_hasheq", l, r] => do
    let l ← parseHex l; let r ← parseHex r
    pure (showBool (LowerName.labelHashInput l == LowerName.labelHashInput r))
  | _ => none

def step (s : State) (toks : List String) : State × String :=
  (s, (handle toks).getD "bad-op")

end HickoryVerif.Drv.C04
