/-
C05 driver.  Case lines:
  tbs  NAME CLS TYPE ALG LABELS ORIGTTL EXP INC TAG SIGNER REC*   → `ok HEX` | `err` | `panic …`
  tbsold …same…                                                   → the same for the pre-repair model (Tbs.tbsPreFix; regression only)
  spec NAME CLS TYPE ALG LABELS ORIGTTL EXP INC TAG SIGNER REC*   → `some HEX` | `none`   (Spec.signedData)
  rdata TYPE RDATA                                                    → `KEYHEX CANONHEX|none`
  detname NAME LABELS                                              → outcome of determine_name
  class NAME CLS TYPE … REC*                                       → `dup ttl case` flags of the collected RRset
REC   = NAME/TYPE/CLS/TTL/RDATA
RDATA = a,HEX | aaaa,HEX | ns,NAME | cname,NAME | ptr,NAME | mx,PREF,NAME
      | soa,M,R,SERIAL,REFRESH,RETRY,EXPIRE,MINIMUM | srv,PRIO,WEIGHT,PORT,NAME | txt,HEX;HEX;…
      | op,RAWHEX,KEYHEX,CANONHEX|!  | opl,RAWHEX,NAMESTART,NAMELEN,KEYHEX,CANONHEX|!
-/
import HickoryVerif.Drv.Proto
import HickoryVerif.Model.Tbs
import HickoryVerif.Spec.Rfc4034

namespace HickoryVerif.Drv.C05
open HickoryVerif HickoryVerif.Drv HickoryVerif.Tbs

abbrev State := Unit
def init : State := ()

def parseStrings (s : String) : Option (List Bytes) :=
  if s.isEmpty then some [] else (s.splitOn ";").mapM parseHex

def parseRData (tok : String) : Option RData :=
  match tok.splitOn "," with
  | ["a", h] => (parseHex h).map .a
  | ["aaaa", h] => (parseHex h).map .aaaa
  | ["ns", n] => (parseName n).map .ns
  | ["cname", n] => (parseName n).map .cname
  | ["ptr", n] => (parseName n).map .ptr
  | ["mx", p, n] => do pure (.mx (← p.toNat?) (← parseName n))
  | ["soa", m, r, s, rf, rt, e, mi] => do
    pure (.soa (← parseName m) (← parseName r) (← s.toNat?) (← rf.toNat?) (← rt.toNat?) (← e.toNat?)
      (← mi.toNat?))
  | ["srv", p, w, po, t] => do
    pure (.srv (← p.toNat?) (← w.toNat?) (← po.toNat?) (← parseName t))
  | ["txt", ss] => (parseStrings ss).map .txt
  | ["op", _raw, k, c] => do
    let k ← parseHex k
    if c == "!" then pure (.opaque k none) else pure (.opaque k (some (← parseHex c)))
  | ["opl", _raw, _start, _len, k, c] => do
    -- opaque type whose canonical form lower-cases an embedded name (region known to the harness only)
    let k ← parseHex k
    if c == "!" then pure (.opaque k none) else pure (.opaque k (some (← parseHex c)))
  | _ => none

def parseRecord (tok : String) : Option Record :=
  match tok.splitOn "/" with
  | [n, t, c, ttl, rd] => do
    pure { name := ← parseName n, rtype := ← t.toNat?, cls := ← c.toNat?, ttl := ← ttl.toNat?,
           data := ← parseRData rd }
  | _ => none

structure Case where
  name : Name
  cls : Nat
  input : SigInput
  records : List Record

def parseCase (toks : List String) : Option Case :=
  match toks with
  | n :: c :: t :: alg :: lab :: ottl :: exp :: inc :: tag :: signer :: recs => do
    let input : SigInput := {
      typeCovered := ← t.toNat?, algorithm := ← alg.toNat?, numLabels := ← lab.toNat?,
      originalTtl := ← ottl.toNat?, expiration := ← exp.toNat?, inception := ← inc.toNat?,
      keyTag := ← tag.toNat?, signer := ← parseName signer }
    pure { name := ← parseName n, cls := ← c.toNat?, input, records := ← recs.mapM parseRecord }
  | _ => none

def handle (toks : List String) : Option String :=
  match toks with
  | "tbs" :: rest => do
    let c ← parseCase rest
    pure (showOutcome toHex (tbsImpl c.name c.cls c.input c.records))
  | "tbsold" :: rest => do
    -- model of TBS::new before the repair /repo 628570a (regression only)
    let c ← parseCase rest
    pure (showOutcome toHex (tbsPreFix c.name c.cls c.input c.records))
  | "spec" :: rest => do
    let c ← parseCase rest
    let rrset := collect c.name c.cls c.input c.records
    match Spec.signedData c.input c.name c.cls (rrset.map (·.data)) with
    | some b => pure ("some " ++ toHex b)
    | none => pure "none"
  | "class" :: rest => do
    let c ← parseCase rest
    let rrset := collect c.name c.cls c.input c.records
    pure (showBool (hasDup rrset) ++ " " ++ showBool (!sameTtl rrset) ++ " " ++
      showBool (!rdataCaseCanonical rrset))
  | ["rdata", _ty, rd] => do
    let d ← parseRData rd
    pure (toHex (toBytes d) ++ " " ++ (match canonBytes d with | some b => toHex b | none => "none"))
  | ["detname", n, k] => do
    let n ← parseName n; let k ← k.toNat?
    pure (showOutcome showName (determineName n k))
  | _ => none

def step (s : State) (toks : List String) : State × String :=
  (s, (handle toks).getD "bad-op")

end HickoryVerif.Drv.C05
