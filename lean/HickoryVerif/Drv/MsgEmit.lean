/-
Message-level case lines shared by the C02 and C03 drivers (stage 2).  A message is given as the
hex of its wire bytes; it is decoded with the C01 model (`Wire.readMessage`) and re-encoded with
the encoder model (`Wire.emitMessage`), exactly as the harness decodes it with the real
`Message::from_vec` and re-encodes it with the real `Message::emit`.

  msg  <hex> <L1,L2,…>      `Message::emit` into a fresh Vec under `set_max_size(L)` for each L.
                             One limit: `ok <hex>` / `err`; several: `<len>:<fnv1a64>` / `err` per
                             limit, joined by `|`.  `undecodable` if the model's decoder rejects the
                             bytes, `unmodelled` if a record has no modelled RDATA emitter.
  resp <udp|tcp> <adv|-> <hex>   `MessageResponse::encode(protocol)` of the response whose sections are the
                             decoded message's (question = original bytes), for a request that advertised
                             EDNS payload `adv` (`-` = no EDNS): `ok <hex>` / `err`.
  rt   <hex>                 `from_vec` → `to_vec` → `from_vec`: `ok <dump of the second decode>`.
-/
import HickoryVerif.Drv.C01
import HickoryVerif.Drv.EncScript
import HickoryVerif.Model.MessageEmit

namespace HickoryVerif.Drv.MsgEmit
open HickoryVerif HickoryVerif.Drv HickoryVerif.Wire

def decode (buf : Bytes) : Outcome (Message × Nat) := Rd.run (readMessage C01.opqDrv) buf 0

def showLimited (full : Bool) : Outcome Bytes → String
  | .ok bs => if full then "ok " ++ toHex bs else toString bs.length ++ ":" ++ toString (EncScript.fnv1a bs)
  | .err => "err"
  | .panic _ => "panic"

/-- the bytes of the question section as they stand in the message (index 12 up to the end of the
last question) -/
def questionBytes (buf : Bytes) (m : Message) : Option Bytes :=
  match Rd.run (Wire.readHeader >>= fun (_, c) => Wire.readQueries c.qd []) buf 0 with
  | .ok (_, p) => if m.queries.isEmpty then none else some ((buf.drop 12).take (p - 12))
  | _ => none

def handle (toks : List String) : Option String :=
  match toks with
  | ["msg", hex, limits] => do
    let buf ← parseHex hex
    let ls ← (limits.splitOn ",").mapM String.toNat?
    match decode buf with
    | .ok (m, _) =>
      if !m.emitModelled then pure "unmodelled" else
      let full := ls.length == 1
      pure ("|".intercalate (ls.map fun l => showLimited full (emitLimited m l)))
    | _ => pure "undecodable"
  -- a `RecordTypeSet` built with `new` (no original encoding): `NSEC::new(root, types)` emitted afresh
  -- an SVCB / HTTPS value built from its parts (keys in the given order, a fixed value per key), encoded
  | ["svcbenc", ty, keys] => do
    let t ← ty.toNat?
    let ks ← (if keys == "-" then some [] else (keys.splitOn ",").mapM String.toNat?)
    let val (k : Nat) : SvcVal :=
      if k = 0 then .mandatory [1]
      else if k = 1 then .alpn [[104, 50]]
      else if k = 2 then .noDefaultAlpn
      else if k = 3 then .port 443
      else if k = 4 then .ipv4hint [192, 0, 2, 1]
      else if k = 5 then .ech [1, 2, 3]
      else if k = 6 then .ipv6hint [32, 1, 13, 184, 0, 0, 0, 0, 0, 0, 0, 0, 0, 0, 0, 1]
      else .unknown [k % 256, 7]
    match emitRData t (.svcb 1 Name.root (ks.map fun k => (k, val k))) (Enc.new []) with
    | .ok _ e => pure ("ok " ++ toHex e.buf)
    | .err _ _ => pure "err"
    | .panic s => pure ("panic " ++ s)
  -- a response whose Edns value carries `stale` as rcode_high while the message's response code is
  -- (high, low): `emit_message_parts` overwrites it (`set_rcode_high(response_code.high())`)
  | ["ednsrc", _via, low, high, stale, version, dok, z, payload] => do
    let low ← low.toNat?; let high ← high.toNat?; let stale ← stale.toNat?; let version ← version.toNat?
    let z ← z.toNat?; let payload ← payload.toNat?
    let m : Message :=
      { md := { id := 4369, qr := true, op := 0, aa := false, tc := false, rd := false, ra := false, ad := false,
                cd := false, rcode := high * 16 + low }
        queries := [], answers := [], authorities := [], additionals := [], signature := none
        edns := some { rcodeHigh := stale, version := version, dnssecOk := dok == "1", z := z,
                       maxPayload := max payload 512, options := [] } }
    pure (showLimited true (emitLimited m 65535))
  | ["undec", hex] => do
    let buf ← parseHex hex
    match decode buf with
    | .ok _ => pure "decodes"
    | _ => pure "undecodable"
  | ["tsnew", types] => do
    let ts ← (if types == "-" then some [] else (types.splitOn ",").mapM String.toNat?)
    match emitRData 47 (.nsec Name.root { types := ts, orig := none }) (Enc.new []) with
    | .ok _ e => pure ("ok " ++ toHex e.buf)
    | .err _ _ => pure "err"
    | .panic s => pure ("panic " ++ s)
  | ["resp", proto, adv, hex] => do
    let buf ← parseHex hex
    -- the request's EDNS as `Record::read` + `Edns::from` see it: payload clamped to ≥ 512
    let reqEdns : Option Edns ← (if adv == "-" then some none else
      adv.toNat?.map fun p => some { rcodeHigh := 0, version := 0, dnssecOk := false, z := 0,
                                      maxPayload := max p 512, options := [] })
    let p ← (match proto with | "udp" => some Proto.udp | "tcp" => some Proto.other | _ => none)
    match decode buf with
    | .ok (m, _) =>
      if !m.emitModelled then pure "unmodelled" else
      let r : Response :=
        { md := m.md, queries := questionBytes buf m, answers := m.answers, authorities := m.authorities,
          additionals := m.additionals, signature := m.signature, edns := responseEdns reqEdns }
      pure (showLimited true (encodeResponse r p))
    | _ => pure "undecodable"
  | [kind, hex] => do
    if kind != "rt" && kind != "rtok" then none
    let buf ← parseHex hex
    match decode buf with
    | .ok (m, _) =>
      if !m.emitModelled then pure "unmodelled" else
      match toVec m with
      | .ok bs =>
        match decode bs with
        | .ok (m2, p) => pure ("ok " ++ toString bs.length ++ " " ++ toString p ++ " " ++ C01.showMessage m2)
        | .err => pure "redecode-err"
        | .panic _ => pure "panic"
      | .err => pure "err"
      | .panic _ => pure "panic"
    | _ => pure "undecodable"
  | _ => none

end HickoryVerif.Drv.MsgEmit
