/-
Message-level case lines shared by the C02 and C03 drivers (stage 2).  A message is given as the
hex of its wire bytes; it is decoded with the C01 model (`Wire.readMessage`) and re-encoded with
the encoder model (`Wire.emitMessage`), exactly as the harness decodes it with the real
`Message::from_vec` and re-encodes it with the real `Message::emit`.

  msg  <hex> <L1,L2,…>      `Message::emit` into a fresh Vec under `set_max_size(L)` for each L.
                             One limit: `ok <hex>` / `err`; several: `<len>:<fnv1a64>` / `err` per
                             limit, joined by `|`.  `undecodable` if the model's decoder rejects the
                             bytes, `unmodelled` if a record has no modelled RDATA emitter.
  resp <udp|tcp> <adv|-> <hex>   `MessageResponse::encode(protocol)` of the response whose sections are the
                             decoded message's (question = original bytes), for a request that advertised
                             EDNS payload `adv` (`-` = no EDNS): `ok <hex>` / `err`.
  rt   <hex>                 `from_vec` → `to_vec` → `from_vec`: `ok <dump of the second decode>`.
  respb <how> <udp|tcp> <adv|-> <hex>   `resp` through the other builder entry points (`responseOf`).
  badrec <kind> <sec> <nb> <na> <mode>  a message built from values with one unencodable record (`badMessage`),
                             under a limit (`L<n>`) or through `MessageResponse::encode` (`udp:<adv>` / `tcp:<adv>`).
  ednsrc / svcbenc / tsnew / undec / rtok : see the arms below.
-/
import HickoryVerif.Drv.C01
import HickoryVerif.Drv.EncScript
import HickoryVerif.Model.MessageEmit

namespace HickoryVerif.Drv.MsgEmit
open HickoryVerif HickoryVerif.Drv HickoryVerif.Wire

def decode (buf : Bytes) : Outcome (Message × Nat) := Rd.run (readMessage C01.opqDrv) buf 0

def showLimited (full : Bool) : Outcome Bytes → String
  | .ok bs => if full then "ok " ++ toHex bs else toString bs.length ++ ":" ++ toString (EncScript.fnv1a bs)
  | .err => "err"
  | .panic _ => "panic"

/-- the bytes of the question section as they stand in the message (index 12 up to the end of the
last question) -/
def questionBytes (buf : Bytes) (m : Message) : Option Bytes :=
  match Rd.run (Wire.readHeader >>= fun (_, c) => Wire.readQueries c.qd []) buf 0 with
  | .ok (_, p) => if m.queries.isEmpty then none else some ((buf.drop 12).take (p - 12))
  | _ => none

/-- the request's EDNS as `Record::read` + `Edns::from` see it: payload clamped to ≥ 512 -/
def parseAdv (adv : String) : Option (Option Edns) :=
  if adv == "-" then some none else
    adv.toNat?.map fun p => some { rcodeHigh := 0, version := 0, dnssecOk := false, z := 0,
                                    maxPayload := max p 512, options := [] }

def parseProto : String → Option Proto
  | "udp" => some Proto.udp
  | "tcp" => some Proto.other
  | _ => none

/-- The `MessageResponse` the builder variant `how` makes of the message `m` (harness:
`run_resp_bytes`): `std` / `new` / `edns` / `soa` differ only in the call that hands over the same
parts; `noq…` = `MessageResponseBuilder::no_queries` (no question section); `…norec` =
`build_no_records`; `…errmsg` = `error_msg(request metadata, code)` — `Metadata::response_from_request`
of the request the harness makes (same id and RD, a standard query), then the response code. -/
def responseOf (how : String) (code : Nat) (m : Message) (q : Option Bytes) (reqEdns : Option Edns) : Response :=
  let noq := how.startsWith "noq"
  let norec := how.endsWith "norec" || how.endsWith "errmsg"
  let md : Metadata := if how.endsWith "errmsg" then
      { id := m.md.id, qr := true, op := 0, aa := false, tc := false, rd := m.md.rd, ra := false, ad := false,
        cd := false, rcode := code }
    else m.md
  { md := md, queries := if noq then none else q,
    answers := if norec then [] else m.answers,
    authorities := if norec then [] else m.authorities,
    additionals := if norec then [] else m.additionals,
    signature := m.signature, edns := responseEdns reqEdns }

def asciiBytes (s : String) : Bytes := s.toUTF8.toList.map (·.toNat)

def nameOf (labels : List String) (fqdn : Bool := true) : Name :=
  { labels := labels.map asciiBytes, fqdn := fqdn }

/-- the message of a `badrec` line (harness: `bad_message`) -/
def badMessage (kind sec : String) (nb na : Nat) : Option Message := do
  let good (i : Nat) : Record :=
    { name := nameOf ["g" ++ toString i, "example"], rtype := 1, cls := 1, ttl := 60, rdata := .a [192, 0, 2, i % 256] }
  let long : Bytes := List.replicate 256 120
  let md : Metadata := { id := 16962, qr := true, op := 0, aa := false, tc := false, rd := false, ra := false,
                         ad := false, cd := false, rcode := 0 }
  let q : Query := { name := nameOf ["example"], qtype := 1, qclass := 1 }
  if sec == "sig" then
    let (time, mac, other) ← (match kind with
      | "tsigtime" => some (281474976710656, 4, 0)
      | "tsigmac" => some (1, 65536, 0)
      | "tsigother" => some (1, 4, 65536)
      | "good" => some (281474976710655, 4, 0)
      | _ => none)
    let sig : Record :=
      { name := nameOf ["key", "example"], rtype := 250, cls := 255, ttl := 0,
        rdata := .tsig (nameOf ["hmac-sha256"] false) time 300 (List.replicate mac 171) 16962 0 (List.replicate other 205) }
    pure { md := md, queries := [q], answers := (List.range (nb + na)).map good, authorities := [],
           additionals := [], signature := some sig, edns := none }
  else
    let (t, bad) ← (match kind with
      | "good" => some (1, RData.a [203, 0, 113, 1])
      | "txt256" => some (16, RData.txt [asciiBytes "ok", long])
      | "hinfo256" => some (13, RData.hinfo long (asciiBytes "os"))
      | "naptr256" => some (35, RData.naptr 1 2 (asciiBytes "U") long [] (nameOf ["r", "example"]))
      | "caatag256" => some (257, RData.caa false 0 (List.replicate 256 116) [59])
      | "svcborder" => some (64, RData.svcb 1 (nameOf ["t", "example"]) [(3, .port 443), (1, .alpn [[104, 50]])])
      | "alpn0" => some (64, RData.svcb 1 (nameOf ["t", "example"]) [(1, .alpn [])])
      | "mandatory0" => some (64, RData.svcb 1 (nameOf ["t", "example"]) [(0, .mandatory [])])
      | _ => none)
    let recs := (List.range nb).map good ++
      [{ name := nameOf ["bad", "example"], rtype := t, cls := 1, ttl := 60, rdata := bad }] ++
      (List.range na).map fun i => good (nb + i)
    let m0 : Message := { md := md, queries := [q], answers := [], authorities := [], additionals := [],
                          signature := none, edns := none }
    match sec with
    | "an" => pure { m0 with answers := recs }
    | "ns" => pure { m0 with authorities := recs }
    | "ar" => pure { m0 with additionals := recs }
    | _ => none

def handle (toks : List String) : Option String :=
  match toks with
  | ["msg", hex, limits] => do
    let buf ← parseHex hex
    let ls ← (limits.splitOn ",").mapM String.toNat?
    match decode buf with
    | .ok (m, _) =>
      if !m.emitModelled then pure "unmodelled" else
      let full := ls.length == 1
      pure ("|".intercalate (ls.map fun l => showLimited full (emitLimited m l)))
    | _ => pure "undecodable"
  -- a `RecordTypeSet` built with `new` (no original encoding): `NSEC::new(root, types)` emitted afresh
  -- an SVCB / HTTPS value built from its parts (keys in the given order, a fixed value per key), encoded
  | ["svcbenc", ty, keys] => do
    let t ← ty.toNat?
    let ks ← (if keys == "-" then some [] else (keys.splitOn ",").mapM String.toNat?)
    let val (k : Nat) : SvcVal :=
      if k = 0 then .mandatory [1]
      else if k = 1 then .alpn [[104, 50]]
      else if k = 2 then .noDefaultAlpn
      else if k = 3 then .port 443
      else if k = 4 then .ipv4hint [192, 0, 2, 1]
      else if k = 5 then .ech [1, 2, 3]
      else if k = 6 then .ipv6hint [32, 1, 13, 184, 0, 0, 0, 0, 0, 0, 0, 0, 0, 0, 0, 1]
      else .unknown [k % 256, 7]
    match emitRData t (.svcb 1 Name.root (ks.map fun k => (k, val k))) (Enc.new []) with
    | .ok _ e => pure ("ok " ++ toHex e.buf)
    | .err _ _ => pure "err"
    | .panic s => pure ("panic " ++ s)
  -- a response whose Edns value carries `stale` as rcode_high while the message's response code is
  -- (high, low): `emit_message_parts` overwrites it (`set_rcode_high(response_code.high())`)
  -- via `n`: no Edns value at all (the high bits are dropped).  `E:` = `impl BinEncodable for Edns`, the
  -- second encoder of the OPT record (the value's OWN rcode_high, i.e. `stale`)
  | ["ednsrc", via, low, high, stale, version, dok, z, payload] => do
    let low ← low.toNat?; let high ← high.toNat?; let stale ← stale.toNat?; let version ← version.toNat?
    let z ← z.toNat?; let payload ← payload.toNat?
    let ed : Edns := { rcodeHigh := stale, version := version, dnssecOk := dok == "1", z := z,
                       maxPayload := max payload 512, options := [] }
    let m : Message :=
      { md := { id := 4369, qr := true, op := 0, aa := false, tc := false, rd := false, ra := false, ad := false,
                cd := false, rcode := high * 16 + low }
        queries := [], answers := [], authorities := [], additionals := [], signature := none
        edns := if via == "n" then none else some ed }
    let direct := if via == "n" then "-" else
      match emitRecord (recordOfEdns ed) (Enc.new []) with
      | .ok _ e => toHex e.buf
      | .err _ _ => "err"
      | .panic s => "panic " ++ s
    match emitLimited m 65535 with
    | .ok bs => pure ("ok " ++ toHex bs ++ " E:" ++ direct)
    | .err => pure "err"
    | .panic _ => pure "panic"
  | ["undec", hex] => do
    let buf ← parseHex hex
    match decode buf with
    | .ok _ => pure "decodes"
    | _ => pure "undecodable"
  | ["tsnew", types] => do
    let ts ← (if types == "-" then some [] else (types.splitOn ",").mapM String.toNat?)
    match emitRData 47 (.nsec Name.root { types := ts, orig := none }) (Enc.new []) with
    | .ok _ e => pure ("ok " ++ toHex e.buf)
    | .err _ _ => pure "err"
    | .panic s => pure ("panic " ++ s)
  | ["resp", proto, adv, hex] => do
    let buf ← parseHex hex
    let reqEdns ← parseAdv adv
    let p ← parseProto proto
    match decode buf with
    | .ok (m, _) =>
      if !m.emitModelled then pure "unmodelled" else
      pure (showLimited true (encodeResponse (responseOf "std" 0 m (questionBytes buf m) reqEdns) p))
    | _ => pure "undecodable"
  -- the other public ways to put a `MessageResponse` together (see `responseOf`)
  | ["respb", how, proto, adv, hex] => do
    let buf ← parseHex hex
    let reqEdns ← parseAdv adv
    let p ← parseProto proto
    let (base, code) ← (match how.splitOn ":" with
      | [b] => some (b, 0)
      | [b, c] => c.toNat?.map fun c => (b, c)
      | _ => none)
    match decode buf with
    | .ok (m, _) =>
      if !m.emitModelled then pure "unmodelled" else
      pure (showLimited true (encodeResponse (responseOf base code m (questionBytes buf m) reqEdns) p))
    | _ => pure "undecodable"
  -- a message built from values, one of whose records cannot be encoded
  | ["badrec", kind, sec, nb, na, mode] => do
    let nb ← nb.toNat?; let na ← na.toNat?
    let m ← badMessage kind sec nb na
    if mode.startsWith "L" then
      let l ← (mode.drop 1).toNat?
      pure (showLimited true (emitLimited m l))
    else
      match mode.splitOn ":" with
      | [proto, adv] =>
        let reqEdns ← parseAdv adv
        let p ← parseProto proto
        let q : Bytes := [7, 101, 120, 97, 109, 112, 108, 101, 0, 0, 1, 0, 1]
        pure (showLimited true (encodeResponse (responseOf "std" 0 m (some q) reqEdns) p))
      | _ => none
  | [kind, hex] => do
    if kind != "rt" && kind != "rtok" then none
    let buf ← parseHex hex
    match decode buf with
    | .ok (m, _) =>
      if !m.emitModelled then pure "unmodelled" else
      match toVec m with
      | .ok bs =>
        match decode bs with
        | .ok (m2, p) => pure ("ok " ++ toString bs.length ++ " " ++ toString p ++ " " ++ C01.showMessage m2)
        | .err => pure "redecode-err"
        | .panic _ => pure "panic"
      | .err => pure "err"
      | .panic _ => pure "panic"
    | _ => pure "undecodable"
  | _ => none

end HickoryVerif.Drv.MsgEmit
