/- C14 (journal recovery) shares the zone/update/journal model and the line protocol of C12. -/
import HickoryVerif.Drv.C12

namespace HickoryVerif.Drv.C14
open HickoryVerif HickoryVerif.Drv

abbrev State := C12.State
def init : State := C12.init

def step (s : State) (toks : List String) : State × String := C12.step s toks

end HickoryVerif.Drv.C14
