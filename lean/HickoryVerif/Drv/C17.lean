/-
C17 driver.  Case line:

  io <wrap> <v|s> <read-script> <write-script> <prog>

* `wrap`  : `t` plain `TcpStream`, `c` `TcpClientStream`, `o`/`O` `TimeoutStream` — the wrappers pass items
            through unchanged, the model ignores the token;
* `v|s`   : the socket has a real `poll_write_vectored` / only the default one;
* scripts : comma separated, `-` = empty.  read: `d<hex>` `p` `e` `x`; write: `a<n>` `p` `x`;
* `prog`  : `s<hex>` send, `S<hex>` send with a foreign destination, `p` poll once; then drain.

Answer: the trace of every `poll_next` result (`m<hex>` `P` `I` `end` `err`), the bytes the socket
accepted, the number of successful flushes and the number of sends refused by the full queue.
-/
import HickoryVerif.Drv.Proto
import HickoryVerif.Model.TcpFraming

namespace HickoryVerif.Drv.C17
open HickoryVerif HickoryVerif.Drv HickoryVerif.TcpFraming

abbrev State := Unit
def init : State := ()

def parseList {α} (f : String → Option α) (s : String) : Option (List α) :=
  if s == "-" then some [] else (s.splitOn ",").mapM f

def parseREv (t : String) : Option REv :=
  match t.toList with
  | ['p'] => some .pending
  | ['e'] => some .eof
  | ['x'] => some .err
  | 'd' :: rest => (parseHex (String.ofList rest)).map .data
  | _ => none

def parseWEv (t : String) : Option WEv :=
  match t.toList with
  | ['p'] => some .pending
  | ['x'] => some .err
  | 'a' :: rest => (String.ofList rest).toNat?.map .accept
  | _ => none

def parseAct (t : String) : Option Act :=
  match t.toList with
  | ['p'] => some .poll
  | 's' :: rest => (parseHex (String.ofList rest)).map (.send · true)
  | 'S' :: rest => (parseHex (String.ofList rest)).map (.send · false)
  | _ => none

def showItem : Item → String
  | .msg m => "m" ++ toHex m
  | .pending => "P"
  | .idle => "I"
  | .endClean => "end"
  | .err => "err"

def handle (toks : List String) : Option String :=
  match toks with
  | ["io", _wrap, vec, rs, ws, prog] => do
    -- "V" / "S": the same two socket kinds behind hickory's tokio-to-futures adapters, which the
    -- model treats as transparent (the correspondence run checks exactly that)
    let vec ← (if vec == "v" || vec == "V" then some true else if vec == "s" || vec == "S" then some false else none)
    let rs ← parseList parseREv rs
    let ws ← parseList parseWEv ws
    -- `h` = every sender handle is dropped: from then on the outbound channel reports "closed"
    -- (`Ready(None)`) instead of "empty" (`Pending`); both make the write loop fall through to the read
    -- side, so the model has nothing to do for it; sends written after an `h` cannot happen (there is no
    -- handle left) and are skipped on both sides
    let toks := prog.splitOn ","
    let before := toks.takeWhile (· != "h")
    let after := (toks.dropWhile (· != "h")).filter (fun t => t == "p")
    let kept := before ++ after
    let prog ← parseList parseAct (if kept.isEmpty then "-" else ",".intercalate kept)
    let c : Conn := { vec := vec, w := { ws := ws }, rs := rs }
    let (trace, c') := runProg c prog
    pure (",".intercalate (trace.map showItem) ++ " w=" ++ toHex c'.w.written ++ " f=" ++ toString c'.w.flushes
      ++ " r=" ++ toString c'.w.rejected)
  | _ => none

def step (s : State) (toks : List String) : State × String :=
  (s, (handle toks).getD "bad-op")

end HickoryVerif.Drv.C17
