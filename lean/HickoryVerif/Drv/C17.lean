import HickoryVerif.Drv.Proto

namespace HickoryVerif.Drv.C17
open HickoryVerif HickoryVerif.Drv

abbrev State := Unit
def init : State := ()

def step (s : State) (_toks : List String) : State × String := (s, "bad-op")

end HickoryVerif.Drv.C17
