/-
Driver of the C01 correspondence stream: runs the wire-decoding model on a case line and prints
the canonical field-by-field dump (the harness prints the same dump from the real values).

  name   <buf> <pos>          Name::read at index pos
  rdata  <type> <buf> <pos>   RData::read(decoder at pos, type)
  record <buf> <pos>          Record::read at index pos
  msg    <buf>                Message::from_vec
  req    <buf>                hickory_server Request::from_bytes
  readq  <n> <buf> <pos>      Message::read_queries(decoder at pos, n)
-/
import HickoryVerif.Drv.Proto
import HickoryVerif.Model.Wire

namespace HickoryVerif.Drv.C01
open HickoryVerif HickoryVerif.Drv HickoryVerif.Wire

abbrev State := Unit
def init : State := ()

/-- unmodelled RDATA codecs: never agree silently -/
def opqDrv (t : Nat) : Rd Bytes := Rd.panic ("unmodelled:" ++ toString t)

def showOptVal : OptVal → String
  | .dau algs => "D" ++ toHex algs
  | .subnet f sp sc addr => "S" ++ toString f ++ "." ++ toString sp ++ "." ++ toString sc ++ "." ++ toHex addr
  | .nsid d => "N" ++ toHex d
  | .unknown c d => "U" ++ toString c ++ "." ++ toHex d

def showOpts (os : List OptEntry) : String :=
  ";".intercalate (os.map fun o => toString o.code ++ "=" ++ showOptVal o.val)

def showTypes (ts : List Nat) : String := ".".intercalate (ts.map toString)

def showSvcVal : SvcVal → String
  | .mandatory ks => "M" ++ ".".intercalate (ks.map toString)
  | .alpn xs => "A" ++ "|".intercalate (xs.map toHex)
  | .noDefaultAlpn => "N"
  | .port p => "P" ++ toString p
  | .ipv4hint a => "4" ++ toHex a
  | .ech d => "E" ++ toHex d
  | .ipv6hint a => "6" ++ toHex a
  | .unknown d => "U" ++ toHex d

def showRData : RData → String
  | .a b => "A:" ++ toHex b
  | .aaaa b => "AAAA:" ++ toHex b
  | .name n => "N:" ++ showName n
  | .mx p n => "MX:" ++ toString p ++ ":" ++ showName n
  | .soa m r s rf rt ex mi =>
    "SOA:" ++ showName m ++ ":" ++ showName r ++ ":" ++ toString s ++ ":" ++ toString rf ++ ":" ++
      toString rt ++ ":" ++ toString ex ++ ":" ++ toString mi
  | .txt ss => "TXT:" ++ "|".intercalate (ss.map toHex)
  | .srv p w port n => "SRV:" ++ toString p ++ ":" ++ toString w ++ ":" ++ toString port ++ ":" ++ showName n
  | .hinfo c o => "HINFO:" ++ toHex c ++ ":" ++ toHex o
  | .null d => "NULL:" ++ toHex d
  | .unknown c d => "UNK:" ++ toString c ++ ":" ++ toHex d
  | .opt os => "OPT:" ++ showOpts os
  | .update0 t => "UPD0:" ++ toString t
  | .zero => "ZERO"
  | .tsig alg time fudge mac oid err other =>
    "TSIG:" ++ showName alg ++ ":" ++ toString time ++ ":" ++ toString fudge ++ ":" ++ toHex mac ++ ":" ++
      toString oid ++ ":" ++ toString err ++ ":" ++ toHex other
  | .ds tag alg dt d => "DS:" ++ toString tag ++ ":" ++ toString alg ++ ":" ++ toString dt ++ ":" ++ toHex d
  | .dnskey cd flags alg k =>
    "DNSKEY:" ++ toString flags ++ ":" ++ toString alg ++ ":" ++ (if cd && alg == 0 then "!" else toHex k)
  | .sig c a l o e i t n sg =>
    "SIG:" ++ toString c ++ ":" ++ toString a ++ ":" ++ toString l ++ ":" ++ toString o ++ ":" ++ toString e ++
      ":" ++ toString i ++ ":" ++ toString t ++ ":" ++ showName n ++ ":" ++ toHex sg
  | .nsec n ts => "NSEC:" ++ showName n ++ ":" ++ showTypes ts.types
  | .nsec3 oo it salt hash b32 ts =>
    "NSEC3:" ++ showBool oo ++ ":" ++ toString it ++ ":" ++ toHex salt ++ ":" ++ toHex hash ++ ":" ++
      (match b32 with | some l => toHex l | none => "!") ++ ":" ++ showTypes ts.types
  | .nsec3param oo it salt => "NSEC3PARAM:" ++ showBool oo ++ ":" ++ toString it ++ ":" ++ toHex salt
  | .cert ct tag alg d => "CERT:" ++ toString ct ++ ":" ++ toString tag ++ ":" ++ toString alg ++ ":" ++ toHex d
  | .csync serial flags ts => "CSYNC:" ++ toString serial ++ ":" ++ toString flags ++ ":" ++ showTypes ts.types
  | .tlsa u sl m d => "TLSA:" ++ toString u ++ ":" ++ toString sl ++ ":" ++ toString m ++ ":" ++ toHex d
  | .sshfp a f d => "SSHFP:" ++ toString a ++ ":" ++ toString f ++ ":" ++ toHex d
  | .openpgpkey d => "OPENPGPKEY:" ++ toHex d
  | .key flags proto alg k => "KEY:" ++ toString flags ++ ":" ++ toString proto ++ ":" ++ toString alg ++ ":" ++ toHex k
  | .caa crit res tag v => "CAA:" ++ showBool crit ++ ":" ++ toString res ++ ":" ++ toHex tag ++ ":" ++ toHex v
  | .svcb prio t ps =>
    "SVCB:" ++ toString prio ++ ":" ++ showName t ++ ":" ++
      ";".intercalate (ps.map fun (k, v) => toString k ++ "=" ++ showSvcVal v)
  | .naptr o p f sv re n =>
    "NAPTR:" ++ toString o ++ ":" ++ toString p ++ ":" ++ toHex f ++ ":" ++ toHex sv ++ ":" ++ toHex re ++ ":" ++ showName n
  | .opaque t v => "X" ++ toString t ++ ":" ++ toHex v

def showRecord (r : Record) : String :=
  "R(" ++ showName r.name ++ "," ++ toString r.rtype ++ "," ++ toString r.cls ++ "," ++
    toString r.ttl ++ "," ++ showRData r.rdata ++ ")"

def showQuery (q : Query) : String :=
  "Q(" ++ showName q.name ++ "," ++ toString q.qtype ++ "," ++ toString q.qclass ++ ")"

def showMd (m : Metadata) : String :=
  "H(" ++ toString m.id ++ "," ++ showBool m.qr ++ "," ++ toString m.op ++ "," ++ showBool m.aa ++ "," ++
    showBool m.tc ++ "," ++ showBool m.rd ++ "," ++ showBool m.ra ++ "," ++ showBool m.ad ++ "," ++
    showBool m.cd ++ "," ++ toString m.rcode ++ ")"

def showEdns : Option Edns → String
  | none => "-"
  | some e =>
    toString e.rcodeHigh ++ "," ++ toString e.version ++ "," ++ showBool e.dnssecOk ++ "," ++
      toString e.z ++ "," ++ toString e.maxPayload ++ "," ++ showOpts e.options

def showSig : Option Record → String
  | none => "-"
  | some r => showRecord r

def showRecs (rs : List Record) : String := ",".intercalate (rs.map showRecord)

def showMessage (m : Message) : String :=
  showMd m.md ++ " Q[" ++ ",".intercalate (m.queries.map showQuery) ++ "] AN[" ++ showRecs m.answers ++
    "] NS[" ++ showRecs m.authorities ++ "] AR[" ++ showRecs m.additionals ++ "] SIG[" ++
    showSig m.signature ++ "] EDNS[" ++ showEdns m.edns ++ "]"

def showRequest (m : Request) : String :=
  showMd m.md ++ " Q[" ++ showQuery m.query ++ "] RAW[" ++ toHex m.original ++ "] AN[" ++
    showRecs m.answers ++ "] NS[" ++ showRecs m.authorities ++ "] AR[" ++ showRecs m.additionals ++
    "] SIG[" ++ showSig m.signature ++ "] EDNS[" ++ showEdns m.edns ++ "]"

def handle (toks : List String) : Option String :=
  match toks with
  | ["name", buf, pos] => do
    let buf ← parseHex buf; let pos ← pos.toNat?
    pure (showOutcome (fun (n, p) => showName n ++ " " ++ toString p) (Rd.run Rd.name buf pos))
  | ["rdata", t, buf, pos] => do
    let t ← t.toNat?; let buf ← parseHex buf; let pos ← pos.toNat?
    pure (showOutcome (fun (r, _) => showRData r) (Rd.run (readRData opqDrv t) buf pos))
  | ["record", buf, pos] => do
    let buf ← parseHex buf; let pos ← pos.toNat?
    pure (showOutcome (fun (r, p) => showRecord r ++ " " ++ toString p) (Rd.run (readRecord opqDrv) buf pos))
  | ["msg", buf] => do
    let buf ← parseHex buf
    pure (showOutcome (fun (m, _) => showMessage m) (Rd.run (readMessage opqDrv) buf 0))
  | ["readq", n, buf, pos] => do
    let n ← n.toNat?; let buf ← parseHex buf; let pos ← pos.toNat?
    pure (showOutcome (fun (qs, p) => "[" ++ ",".intercalate (qs.map showQuery) ++ "] " ++ toString p)
      (Rd.run (readQueries n []) buf pos))
  | ["req", buf] => do
    let buf ← parseHex buf
    pure (showOutcome (fun (m, _) => showRequest m) (Rd.run (readRequest opqDrv) buf 0))
  | _ => none

def step (s : State) (toks : List String) : State × String :=
  (s, (handle toks).getD "bad-op")

end HickoryVerif.Drv.C01
