/-
Driver for C19: parses a simulated internet (see harness/src/props/c19.rs for the line format), runs
the model of the recursor on every query of the line (threading the caches) and prints the same
canonical summary as the harness: answer class, returned records, set of (server group, query)
pairs sent, unreachable addresses tried.
-/
import HickoryVerif.Drv.Proto
import HickoryVerif.Model.Recursor

namespace HickoryVerif.Drv.C19
open HickoryVerif HickoryVerif.Drv HickoryVerif.Recursor

abbrev State := Unit
def init : State := ()

def parseList {α} (s : String) (sep : String) (f : String → Option α) : Option (List α) :=
  if s == "-" then some [] else (s.splitOn sep).mapM f

def parseIp (s : String) : Option Ip :=
  match s.splitOn "." with
  | ["4", n] => n.toNat?.map fun x => ⟨false, x⟩
  | ["6", n] => n.toNat?.map fun x => ⟨true, x⟩
  | _ => none

def parseNet (s : String) : Option IpNet :=
  match s.splitOn "/" with
  | [ip, len] => do
    let ip ← parseIp ip
    let len ← len.toNat?
    pure ⟨ip.v6, ip.addr, len⟩
  | _ => none

def parseRData (names : Array Name) (s : String) : Option RData :=
  match s.toList with
  | k :: rest =>
    match (String.ofList rest).toNat? with
    | none => none
    | some v =>
      if k == 'A' then some (.a v)
      else if k == 'Q' then some (.aaaa v)
      else if k == 'N' then names[v]?.map .ns
      else if k == 'C' then names[v]?.map .cname
      else if k == 'S' then some (.soa v)
      else if k == 'T' then some (.txt v)
      else if k == 'V' then names[v]?.map .srv
      else if k == 'R' then some (.rrsig v)
      else none
  | [] => none

def parseRec (names : Array Name) (s : String) : Option Record :=
  match s.splitOn ":" with
  | [n, ttl, d] => do
    let n ← n.toNat?
    let name ← names[n]?
    let ttl ← ttl.toNat?
    let data ← parseRData names d
    pure { name, ttl, data }
  | _ => none

def parseResp (names : Array Name) (s : String) : Option Response :=
  match s.splitOn "/" with
  | [rc, aa, an, au, ad] => do
    let rcode ← rc.toNat?
    let answers ← parseList an "+" (parseRec names)
    let authorities ← parseList au "+" (parseRec names)
    let additionals ← parseList ad "+" (parseRec names)
    -- a trailing `t` / `T` marks a truncated answer (over UDP only / over TCP as well): the pool asks the
    -- same server again over TCP; `t` is the plain answer for the model, `T` lines have no model side
    pure { rcode, aa := aa.startsWith "1", answers, authorities, additionals }
  | _ => none

structure Internet where
  names : Array Name
  groups : Array (List Ip × Response)
  table : List ((Nat × Nat × Nat) × Response)

def Internet.groupOf (w : Internet) (ip : Ip) : Option Nat :=
  (List.range w.groups.size).find? fun g => match w.groups[g]? with
    | some (ips, _) => ips.contains ip
    | none => false

/-- index of a query name: exact match first, then case-insensitive (as the harness does) -/
def Internet.nameIdx (w : Internet) (n : Name) : Option Nat :=
  match (List.range w.names.size).find? fun i => match w.names[i]? with
      | some x => x.eqCase n && x.fqdn == n.fqdn
      | none => false with
  | some i => some i
  | none => (List.range w.names.size).find? fun i => match w.names[i]? with
      | some x => x.eq n
      | none => false

def Internet.net (w : Internet) : Net := fun ip q =>
  match w.groupOf ip with
  | none => .unreachable
  | some g =>
    match w.groups[g]? with
    | none => .unreachable
    | some (_, dflt) =>
      match w.nameIdx q.name with
      | none => .msg dflt
      | some n =>
        match w.table.find? fun e => e.1 == (g, n, q.qtype) with
        | some e => .msg e.2
        | none => .msg dflt

/-! ### printing -/

def ipTok (ip : Ip) : String := (if ip.v6 then "6." else "4.") ++ toString ip.addr

def showRecord (r : Record) : String :=
  showName r.name ++ "/" ++ match r.data with
    | .a x => "A" ++ toString x
    | .aaaa x => "Q" ++ toString x
    | .ns n => "N" ++ showName n
    | .cname n => "C" ++ showName n
    | .soa m => "S" ++ toString m
    | .txt t => "T" ++ toString t
    | .srv n => "V" ++ showName n
    | .rrsig c => "R" ++ toString c

def dedupSorted : List String → List String
  | a :: b :: rest => if a == b then dedupSorted (b :: rest) else a :: dedupSorted (b :: rest)
  | l => l

def sortSet (l : List String) : List String :=
  dedupSorted (l.mergeSort fun a b => !(b < a))

def listTok (l : List String) : String := if l.isEmpty then "-" else ",".intercalate l

def showResult (res : Except Err Response) : String :=
  let recs (l : List (String × Record)) : String :=
    "[" ++ ",".intercalate (sortSet (l.map fun (s, r) => s ++ ":" ++ showRecord r)) ++ "]"
  match res with
  | .ok r =>
    "ok " ++ toString r.rcode ++ " " ++ boolStr r.aa ++ " " ++
      recs (r.answers.map (("an", ·)) ++ r.authorities.map (("au", ·)) ++ r.additionals.map (("ad", ·)))
  | .error (.noRecords nx soa ns auths _) =>
    if !nx && !ns.isEmpty then
      "fwd 0 0 " ++ recs (ns.flatMap fun (n, glue) => ("ns", n) :: glue.map (("gl", ·)))
    else
      (if nx then "nx" else "nodata") ++ " 0 0 " ++
        recs ((match soa with | some s => [("soa", s)] | none => []) ++ auths.map (("au", ·)))
  | .error (.rcode c) => "err " ++ toString c ++ " 0 []"
  | .error .limit => "limit 0 0 []"
  | .error .cnameLimit => "limit 0 0 []"
  | .error _ => "err 0 0 []"

def showTrace (w : Internet) (log : List (Ip × Query)) : String :=
  let sends := log.filterMap fun (ip, q) => (w.groupOf ip).map fun g =>
    toString g ++ "." ++ showName q.name ++ "." ++ toString q.qtype
  let dead := log.filterMap fun (ip, _) => match w.groupOf ip with
    | none => some (ipTok ip)
    | some _ => none
  "T=" ++ listTok (sortSet sends) ++ " X=" ++ listTok (sortSet dead)

def runQueries (cfg : Config) (w : Internet) : List Query → St → List String
  | [], _ => []
  | q :: qs, st =>
    let (st', res) := resolve cfg w.net q { st with log := [] }
    (showResult res ++ " " ++ showTrace w st'.log) :: runQueries cfg w qs st'

/-- class, rcode, AA and records only -/
def showShort (res : Except Err Response) : String := showResult res

/-- the clients of a concurrent batch: each one's answer is the sequential model's answer from the
state the warm-up left (the state is then threaded through the batch in order for the probes) -/
def runBatch (cfg : Config) (w : Internet) (tag : String) (fork : Bool) : List Query → St → List String × St
  | [], st => ([], st)
  | q :: qs, st =>
    let (st', res) := resolve cfg w.net q { st with log := [] }
    let (rest, stEnd) := runBatch cfg w tag fork qs st'
    ((tag ++ showShort res) :: rest, stEnd)

def runForked (cfg : Config) (w : Internet) (st : St) (qs : List Query) : List String :=
  qs.map fun q => "B:" ++ showShort (resolve cfg w.net q { st with log := [] }).2

def runWarm (cfg : Config) (w : Internet) : List Query → St → List String × St
  | [], st => ([], st)
  | q :: qs, st =>
    let (st', res) := resolve cfg w.net q { st with log := [] }
    let (rest, stEnd) := runWarm cfg w qs st'
    ((showResult res ++ " " ++ showTrace w st'.log) :: rest, stEnd)

def handleRes (t : List String) : Option String :=
  match t with
  | [rl, nl, roots, denyS, allowS, denyA, allowA, names, groups, table, queries] => do
    let rl ← rl.toNat?
    let nl ← nl.toNat?
    let roots ← parseList roots "," parseIp
    let denyS ← parseList denyS "," parseNet
    let allowS ← parseList allowS "," parseNet
    let denyA ← parseList denyA "," parseNet
    let allowA ← parseList allowA "," parseNet
    let names ← parseList names "," parseName
    let names := names.toArray
    let groups ← parseList groups ";" fun g => match g.splitOn "@" with
      | [ips, d] => do
        let ips ← parseList ips "," parseIp
        let d ← parseResp names d
        pure (ips, d)
      | _ => none
    let table ← parseList table ";" fun e => match e.splitOn "=" with
      | [k, r] => match k.splitOn "," with
        | [g, n, ty] => do
          let g ← g.toNat?
          let n ← n.toNat?
          let ty ← ty.toNat?
          let r ← parseResp names r
          pure ((g, n, ty), r)
        | _ => none
      | _ => none
    let parseQs := fun (tok : String) => parseList tok ";" fun q => match q.splitOn "," with
      | [n, ty] => do
        let n ← n.toNat?
        let name ← names[n]?
        let ty ← ty.toNat?
        pure (⟨name, ty⟩ : Query)
      | _ => none
    -- the harness runs every fourth internet security-aware, with the client's DO bit set (same rule here)
    let nQueries := ((queries.splitOn "|").map fun part =>
      if part == "-" then 0 else (part.splitOn ";").length).foldl (· + ·) 0
    let aware := (names.size + table.length + nQueries) % 4 == 0
    let cfg : Config := {
      recursionLimit := rl, nsRecursionLimit := nl, roots,
      serverFilter := ⟨allowS, denyS⟩, answerFilter := ⟨allowA, denyA⟩, dnssecOk := aware }
    let w : Internet := { names, groups := groups.toArray, table }
    match queries.splitOn "|" with
    | [qs] => do
      let queries ← parseQs qs
      pure (" | ".intercalate (runQueries cfg w queries St.empty))
    | [wq, bq, pq] => do
      let warm ← parseQs wq
      let batch ← parseQs bq
      let probes ← parseQs pq
      let (wOut, st1) := runWarm cfg w warm St.empty
      let bOut := runForked cfg w st1 batch
      -- a client that gave up (class err / limit) leaves an interleaving-dependent partial cache
      -- state: the probes then have no deterministic model side (the harness prints the same)
      let unstable := bOut.any fun l => l.startsWith "B:err" || l.startsWith "B:limit"
      let (_, st2) := runBatch cfg w "B:" false batch st1
      let (pOut, _) := runBatch cfg w "P:" false probes st2
      let pOut := if unstable then pOut.map (fun _ => "P:~") else pOut
      -- with lowered limits a client's outcome depends on what the other clients have cached
      -- meanwhile: no deterministic model side for the batch and the probes
      let tight := nl < 24 || rl < 24
      let bOut := if tight then bOut.map (fun _ => "B:~") else bOut
      let pOut := if tight then pOut.map (fun _ => "P:~") else pOut
      pure (" | ".intercalate (wOut ++ bOut ++ pOut))
    | _ => none
  | _ => none

/-- `stub <names> <table> <query>` : alias chasing of the stub resolver -/
def handleStub (t : List String) : Option String :=
  match t with
  | names :: table :: query :: flags => do
    -- optional 4th token: `p0` = preserve_intermediates off (a trailing `x` = the harness looks the name up
    -- twice; the second lookup is implementation-vs-oracle only)
    let pi := !(flags.any fun f => f.startsWith "p0")
    let names ← parseList names "," parseName
    let names := names.toArray
    let table ← parseList table ";" fun e => match e.splitOn "=" with
      | [k, r] => match k.splitOn "," with
        | [n, ty] => do
          let n ← n.toNat?
          let name ← names[n]?
          let ty ← ty.toNat?
          let r ← parseResp names r
          pure ((⟨name, ty⟩ : Query), r)
        | _ => none
      | _ => none
    let q ← match query.splitOn "," with
      | [n, ty] => do
        let n ← n.toNat?
        let name ← names[n]?
        let ty ← ty.toNat?
        pure (⟨name, ty⟩ : Query)
      | _ => none
    let up : Query → Except Err Response := fun q =>
      match table.find? fun e => e.1.same q with
      | some e => .ok e.2
      | none => .ok { rcode := 3, aa := true, answers := [], authorities := [], additionals := [] }
    let (ok, n) := stubResolve up q pi
    pure (boolStr ok ++ " n=" ++ toString n)
  | _ => none

/-- `acl <allow nets> <deny nets> <ip>` : `AccessControlSet::denied` (`err` = the builder rejects an
allow list without any deny network) -/
def handleAcl (t : List String) : Option String :=
  match t with
  | [allow, deny, ip] => do
    let allow ← parseList allow "," parseNet
    let deny ← parseList deny "," parseNet
    let ip ← parseIp ip
    if deny.isEmpty && !allow.isEmpty then pure "err"
    else pure (boolStr (Acs.denied ⟨allow, deny⟩ ip))
  | _ => none

def step (s : State) (toks : List String) : State × String :=
  match toks with
  | "res" :: rest => (s, (handleRes rest).getD "bad-op")
  | "conc" :: rest => (s, (handleRes rest).getD "bad-op")
  | "val" :: _ => (s, "~")
  | "acl" :: rest => (s, (handleAcl rest).getD "bad-op")
  | "stub" :: rest => (s, (handleStub rest).getD "bad-op")
  | _ => (s, "bad-op")

end HickoryVerif.Drv.C19
