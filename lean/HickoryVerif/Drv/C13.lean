import HickoryVerif.Drv.Proto
import HickoryVerif.Model.Tsig

/-!
Driver of C13.  Ops (one per line):

* `tbs  <buf> <prev|~> <first> <rdok>`                                   `signed_bitmessage_to_buf`
* `vmb  <signer> <buf> <prev|~> <first> <rdok>`                          `TSigner::verify_message_byte`
* `ssm  <buf>`                                                            `TSigner::should_sign_message`
* `stbs <signer> <reqmac> <resp> <oid> <time> <error>`                   `TSigner::encode_response_tbs`
* `vfy  <signer> <prevmac> <remote_time> <request_time> <buf> <rdok> <parseok> <req> <first>`
                                                                          `TSigVerifier::verify`
* `srv  <origin> <allow_update> <deny|all|signed> <signers|-> <now> <buf> <rdok> <journal>`
                                                                          Catalog + SqliteZoneHandler
* `udp  <signer> <reqmac> <request_time> <reqid> (<buf> <rdok> <parseok> <qok>)*`
      the datagrams received by the real `UdpClientStream` (with a signer) for one signed request
      (`udpRecv`); `<signer>`'s `macok` is the verdict for the datagram that reaches the verifier
* the last token of `srv` is the store: `0`/`1` sqlite without/with journal, `m` in-memory, `f` file,
  `c` sqlite built by `try_from_config` (zone file, key files), `r` the same re-opened from its journal,
  `s` / `e` sqlite with zone type Secondary / External
* an empty `<reqmac>` (`-`) in `udp` / `begin mseq` lines: the request was not signed (ordinary query with
  a signer configured): no verifier (`udpRecvPlain`, `muxStepPlain`)
* `begin vseq <signer> <reqmac> <request_time> <req>` / `vmsg <buf> <rdok> <parseok> <macok>` … / `end`
      ONE `TSigVerifier` fed a sequence of messages; the driver threads the model's `Verifier`
      (`Verifier.verify` per message = `Verifier.verifySeq` over the block)
* `begin mseq <signer> <reqmac> <request_time> <reqid> <kinds>` / `mmsg <kind> <buf> <rdok> <parseok> <macok>` … / `end`
      a history of messages received by the real `DnsMultiplexer` for ONE outstanding signed request
      (`muxStep` per message = `muxRun` over the block); answers `ok <mac> <time>` / `err` / `drop`

`<signer>` = `<name>/<alg bits>/<fudge>/<macok>/<keyid>` where `macok` is the verdict of the real
HMAC (`hmac::verify(key, tbs, mac-in-the-message)`) evaluated by the harness and `keyid` names the
key bytes in the harness' key table (ignored here); `<signers>` is a comma-separated list.
`<req>`/`<first>` (the unsigned request the verifier was created from, an earlier reply of the
chain) and `<journal>` only tell the harness how to set the real objects up; the model ignores them.
-/
namespace HickoryVerif.Drv.C13
open HickoryVerif HickoryVerif.Drv HickoryVerif.Tsig

/-- the verifier of the `vseq` / `mseq` block being replayed, if any, and the request id -/
abbrev State := Option (Option Verifier × Nat)
def init : State := none

def parseBool (s : String) : Option Bool :=
  if s == "1" then some true else if s == "0" then some false else none

def parseOptHex (s : String) : Option (Option Bytes) :=
  if s == "~" then some none else (parseHex s).map some

def parseSigner (s : String) : Option Signer :=
  match s.splitOn "/" with
  | [n, alg, fudge, ok, _keyid] => do
    let n ← parseName n
    let alg ← alg.toNat?
    let fudge ← fudge.toNat?
    let ok ← parseBool ok
    pure { name := n, alg := alg, fudge := fudge, macOK := fun _ _ => ok }
  | _ => none

def parseSigners (s : String) : Option (List Signer) :=
  if s == "-" then some [] else (s.splitOn ",").mapM parseSigner

def parsePolicy (s : String) : Option AxfrPolicy :=
  if s == "deny" then some .deny else if s == "all" then some .allowAll
  else if s == "signed" then some .allowSigned else none

def showSig (s : SigRec) : String :=
  s!"{s.start} {s.stop} {showName s.name} {s.rclass} {s.ttl} {showName s.data.algName} " ++
  s!"{s.data.time} {s.data.fudge} {toHex s.data.mac} {s.data.oid} {s.data.error} {toHex s.data.other}"

def showResp (id now : Nat) : Option RespKind → String
  | none => "none"
  | some (.signed sg _ e) => s!"{showName sg.name}/{sg.alg}/{sg.fudge}/{e}/{outLen sg.alg}/{id}/{now}"
  | some (.badSig sg) => s!"{showName sg.name}/{sg.alg}/{sg.fudge}/{BADSIG}/0/{id}/{now}"
  | some (.unknownKey n) => s!"{showName n}/256/300/{BADKEY}/0/{id}/{now}"

def showKind : Dispatch → String
  | .other => "other" | .update => "upd" | .axfr => "axfr"

def handle (toks : List String) : Option String :=
  match toks with
  | ["tbs", buf, prev, first, rdok] => do
    let buf ← parseHex buf; let prev ← parseOptHex prev
    let first ← parseBool first; let rdok ← parseBool rdok
    pure (showOutcome (fun (t, s) => toHex t ++ " " ++ showSig s)
      (signedBitmessageToBuf buf prev first rdok))
  | ["vmb", sg, buf, prev, first, rdok] => do
    let sg ← parseSigner sg
    let buf ← parseHex buf; let prev ← parseOptHex prev
    let first ← parseBool first; let rdok ← parseBool rdok
    pure (showOutcome (fun v => s!"{toHex v.mac} {v.time} {v.lo} {v.hi}")
      (verifyMessageByte sg buf prev first rdok))
  | "udp" :: sg :: reqmac :: qt :: reqid :: dgrams => do
    let sg ← parseSigner sg
    let reqmac ← parseHex reqmac; let qt ← qt.toNat?; let reqid ← reqid.toNat?
    let rec parseDgrams : List String → Option (List (Bytes × Bool × Bool × Bool))
      | [] => some []
      | buf :: rdok :: pok :: qok :: rest => do
        let buf ← parseHex buf; let rdok ← parseBool rdok; let pok ← parseBool pok
        let qok ← parseBool qok
        let r ← parseDgrams rest
        pure ((buf, rdok, pok, qok) :: r)
      | _ => none
    let ds ← parseDgrams dgrams
    let v : Verifier := { signer := sg, previous := reqmac, remoteTime := 0, requestTime := qt }
    if reqmac.isEmpty then pure (if udpRecvPlain reqid 3 ds then "ok ? ?" else "err") else
    pure (match udpRecv v reqid 3 ds with
      | .ok (some v') => s!"ok {toHex v'.previous} {v'.remoteTime}"
      | .ok none => "err"
      | .err => "err"
      | .panic m => "panic " ++ m)
  | ["ssm", buf] => do
    let buf ← parseHex buf
    pure (match shouldSign buf with | some b => showBool b | none => "err")
  | ["stbs", sg, reqmac, resp, oid, time, error] => do
    let sg ← parseSigner sg
    let reqmac ← parseHex reqmac; let resp ← parseHex resp
    let oid ← oid.toNat?; let time ← time.toNat?; let error ← error.toNat?
    pure (toHex (encodeResponseTbs sg reqmac resp (stubOf sg oid time error)))
  | ["vfy", sg, prev, rt, qt, buf, rdok, pok, _unsignedReq, _firstReply] => do
    let sg ← parseSigner sg
    let prev ← parseHex prev; let rt ← rt.toNat?; let qt ← qt.toNat?
    let buf ← parseHex buf; let rdok ← parseBool rdok; let pok ← parseBool pok
    let v : Verifier := { signer := sg, previous := prev, remoteTime := rt, requestTime := qt }
    pure (showOutcome (fun v' => s!"{toHex v'.previous} {v'.remoteTime}") (v.verify buf rdok pok))
  | ["srv", origin, au, pol, sgs, now, buf, rdok, _journal] => do
    let origin ← parseName origin; let au ← parseBool au; let pol ← parsePolicy pol
    let sgs ← parseSigners sgs; let now ← now.toNat?
    let buf ← parseHex buf; let rdok ← parseBool rdok
    let cfg : ZoneCfg := { origin := origin, allowUpdate := au, axfr := pol, signers := sgs,
                           inMemory := (_journal == "m" || _journal == "f"),
                           zoneType := (if _journal == "s" then 1 else if _journal == "e" then 2 else 0) }
    let id := (rd16 buf 0).getD 0
    pure (match serve cfg buf now rdok with
      | .ok none => "noparse"
      | .ok (some d0) =>
        let d := respond now d0
        match d.kind with
        | .other => "other"
        | k => s!"{showKind k} eff={showBool d.effect} rc={d.rcode} rtsig={showResp id now d.resp}"
      | .err => "err"
      | .panic m => "panic " ++ m)
  | _ => none

def step (s : State) (toks : List String) : State × String :=
  match toks with
  | ["begin", "vseq", sg, reqmac, qt, _req] =>
    match parseSigner sg, parseHex reqmac, qt.toNat? with
    | some sg, some reqmac, some qt =>
      (some (some { signer := sg, previous := reqmac, remoteTime := 0, requestTime := qt }, 0), "ok")
    | _, _, _ => (none, "bad-op")
  | ["begin", "mseq", sg, reqmac, qt, reqid, _kinds] =>
    match parseSigner sg, parseHex reqmac, qt.toNat?, reqid.toNat? with
    | some sg, some reqmac, some qt, some reqid =>
      -- an empty request MAC: the request was not signed (`should_sign_message` false), no verifier
      if reqmac.isEmpty then (some (none, reqid), "ok") else
      (some (some { signer := sg, previous := reqmac, remoteTime := 0, requestTime := qt }, reqid), "ok")
    | _, _, _, _ => (none, "bad-op")
  | ["mmsg", _kind, buf, rdok, pok, macok] =>
    match s, parseHex buf, parseBool rdok, parseBool pok, parseBool macok with
    | some (some v, rid), some buf, some rdok, some pok, some macok =>
      let v1 : Verifier := { v with signer := { v.signer with macOK := fun _ _ => macok } }
      match muxStep v1 rid buf rdok pok with
      | .ok (v', .ok) => (some (some v', rid), s!"ok {toHex v'.previous} {v'.remoteTime}")
      | .ok (v', .err) => (some (some v', rid), "err")
      | .ok (v', .dropped) => (some (some v', rid), "drop")
      | .err => (some (some v, rid), "err")
      | .panic m => (some (some v, rid), "panic " ++ m)
    | some (none, rid), some buf, some _, some pok, some _ =>
      (s, match muxStepPlain rid buf pok with | .ok => "ok ? ?" | .err => "err" | .dropped => "drop")
    | _, _, _, _, _ => (s, "bad-op")
  | ["end"] => (none, "ok")
  | ["vmsg", buf, rdok, pok, macok] =>
    match s, parseHex buf, parseBool rdok, parseBool pok, parseBool macok with
    | some (some v, rid), some buf, some rdok, some pok, some macok =>
      let v1 : Verifier := { v with signer := { v.signer with macOK := fun _ _ => macok } }
      match v1.verify buf rdok pok with
      | .ok v' => (some (some v', rid), s!"ok {toHex v'.previous} {v'.remoteTime}")
      | .err => (some (some v, rid), "err")
      | .panic m => (some (some v, rid), "panic " ++ m)
    | _, _, _, _, _ => (s, "bad-op")
  | _ => (s, (handle toks).getD "bad-op")

end HickoryVerif.Drv.C13
