import HickoryVerif.Drv.Proto
import HickoryVerif.Model.AuthZone
import HickoryVerif.Model.AuthZoneDev
import HickoryVerif.Model.AuthZoneSigned
import HickoryVerif.Model.AuthZoneSignedDev
import HickoryVerif.Model.AuthZoneFull

/-!
Case line (see `harness/src/props/c10.rs`):  `q <mode> <origin> <zone> <qname> <qtype> <do>`
answer: `<RCODE> aa=<0|1> an=<rrsets> ns=<rrsets> ar=<rrsets>`.
-/
namespace HickoryVerif.Drv.C10
open HickoryVerif HickoryVerif.Drv HickoryVerif.AuthZone HickoryVerif.AuthZone.Dev HickoryVerif.Spec.Rfc1034

abbrev State := Unit
def init : State := ()

def tyTable : List (String × Nat) :=
  [("A", T_A), ("NS", T_NS), ("CNAME", T_CNAME), ("SOA", T_SOA), ("MX", T_MX), ("TXT", T_TXT),
   ("AAAA", T_AAAA), ("DS", T_DS), ("ANY", T_ANY), ("RRSIG", T_RRSIG), ("NSEC", T_NSEC),
   ("DNSKEY", T_DNSKEY), ("SRV", T_SRV), ("ANAME", T_ANAME), ("AXFR", T_AXFR)]

def parseTy (s : String) : Option Nat := (tyTable.find? (·.1 == s)).map (·.2)

def showTy (t : Nat) : String :=
  match tyTable.find? (·.2 == t) with
  | some (s, _) => s
  | none => "TYPE" ++ toString t

/-- `a.b.example.` → labels (bytes); `.` is the root -/
def parseLName (s : String) : Option LName :=
  if s == "." then some []
  else
    let parts := s.splitOn "."
    match parts.getLast? with
    | some "" =>
      let ls := parts.dropLast
      if ls.any (·.isEmpty) then none else some (ls.map fun l => l.toList.map Char.toNat)
    | _ => none

def showLName (n : LName) : String :=
  if n.isEmpty then "." else
  String.join (n.map fun l => String.ofList (l.map Char.ofNat) ++ ".")

def parseRdCore (s : String) : Option RData :=
  match s.splitOn "@" with
  | [t] => do pure { tag := ← t.toNat?, target := none }
  | [t, n] => do pure { tag := ← t.toNat?, target := some (← parseLName n) }
  | _ => none

/-- `<tag>[@<target>][~T1,T2,…]` -/
def parseRd (s : String) : Option RData :=
  match s.splitOn "~" with
  | [c] => parseRdCore c
  | [c, tys] => do
    let r ← parseRdCore c
    let tys ← (tys.splitOn ",").mapM parseTy
    pure { r with types := tys }
  | _ => none

/-- `<owner>/<TYPE>/<rd>+<rd>…[/s<labels>]` -/
def parseRRset (s : String) : Option RRset :=
  match s.splitOn "/" with
  | [n, t, rds] => do
    let rds ← (rds.splitOn "+").mapM parseRd
    pure { name := ← parseLName n, type := ← parseTy t, rdatas := rds }
  | [n, t, rds, sg] => do
    let rds ← (rds.splitOn "+").mapM parseRd
    let l ← match sg.toList with
      | 's' :: ds => (String.ofList ds).toNat?
      | _ => none
    pure { name := ← parseLName n, type := ← parseTy t, rdatas := rds, sigLabels := some l }
  | _ => none

def parseZone (s : String) : Option Zone :=
  if s == "-" then some [] else (s.splitOn ";").mapM parseRRset

def showRd (r : RData) : String :=
  match r.target with
  | some t => toString r.tag ++ "@" ++ showLName t
  | none => toString r.tag

def showRRset (r : RRset) : String :=
  showLName r.name ++ "/" ++ showTy r.type ++ "/" ++
    (if r.type == T_NSEC then
      "+".intercalate (r.rdatas.map fun rd =>
        showLName (rd.target.getD []) ++ ":" ++ ",".intercalate (rd.types.map showTy))
    else "+".intercalate (r.rdatas.map showRd))

/-- with the DO bit every RRset is followed by its RRSIGs (`rrset_with_rrigs`) -/
def showRRsetS (dnssecOk : Bool) (r : RRset) : String :=
  match dnssecOk, r.sigLabels with
  | true, some l =>
    showRRset r ++ ";" ++ showLName r.name ++ "/RRSIG/" ++ showTy r.type ++ "." ++ toString l
  | _, _ => showRRset r

/-- the summary groups consecutive records of one owner and type (that is all the wire shows):
adjacent RRsets with the same owner and type print as one, unless an RRSIG is emitted between -/
def mergeAdjacent (dnssecOk : Bool) : List RRset → List RRset
  | a :: b :: rest =>
    if a.name == b.name && a.type == b.type && !(dnssecOk && a.sigLabels.isSome) then
      mergeAdjacent dnssecOk ({ b with rdatas := a.rdatas ++ b.rdatas } :: rest)
    else a :: mergeAdjacent dnssecOk (b :: rest)
  | l => l
termination_by l => l.length

/-- an RRset without records (the ANAME arm can synthesise one) puts nothing on the wire — not
even its on-the-fly RRSIG, `RRSIG::from_rrset` fails on an empty set -/
def showSectionS (dnssecOk : Bool) (l : List RRset) : String :=
  let l := mergeAdjacent dnssecOk (l.filter (!·.rdatas.isEmpty))
  if l.isEmpty then "-" else ";".intercalate (l.map (showRRsetS dnssecOk))

def showSection (l : List RRset) : String := showSectionS false l

def showRcode : Rcode → String
  | .noError => "NOERROR"
  | .nxDomain => "NXDOMAIN"
  | .refused => "REFUSED"

def showResponseS (dnssecOk : Bool) (r : Response) : String :=
  showRcode r.rcode ++ " aa=" ++ showBool r.aa ++ " an=" ++ showSectionS dnssecOk r.answers ++
    " ns=" ++ showSectionS dnssecOk r.authority ++ " ar=" ++ showSectionS dnssecOk r.additional

def showResponse (r : Response) : String :=
  showRcode r.rcode ++ " aa=" ++ showBool r.aa ++ " an=" ++ showSection r.answers ++
    " ns=" ++ showSection r.authority ++ " ar=" ++ showSection r.additional

/-- classes of `Model/AuthZoneDev.lean` that hold of the case, in a fixed order -/
def classesOf (z : Zone) (o : LName) (q : Query) : List String :=
  let t := effType z q
  let vs := visitedOf z o q
  let per (f : Zone → LName → LName → Nat → Bool) := vs.any fun n => f z o n t
  (if per existingNoBlock then ["existing-name-does-not-block"] else []) ++
  (if per climbs then ["climbs-past-closest-encloser"] else []) ++
  (if per notSelfBlocking then ["wildcard-not-self-blocking"] else []) ++
  (if nodataAsNx z o q.name t then ["nodata-as-nxdomain"] else []) ++
  (if per wildcardQname then ["wildcard-qname-not-expanded"] else []) ++
  (if NestedCut z o q then ["nested-cut"] else []) ++
  (if cnameIntoCut z o q then ["cname-into-cut"] else []) ++
  (if anyNotAtOwner z q then ["any-not-at-owner"] else [])

/-- the statements of `C10.impl_eq_spec_partial` and `C10.aa_correct_partial` evaluated on the case -/
def thmHolds (z : Zone) (o : LName) (q : Query) : Bool :=
  let hyps := zoneWF z o && !WildcardGap z o q && !NestedCut z o q &&
    !cnameIntoCut z o q && !anyNotAtOwner z q
  let hypsAA := zoneWF z o && !wildcardGapAt z o q.name (effType z q) && !anyNotAtOwner z q
  (!hyps || conforms (answerImpl z o q) (answerSpec MAX_CNAME_DEPTH z o q)) &&
  (!hypsAA || (answerImpl z o q).aa == (answerSpec MAX_CNAME_DEPTH z o q).aa)

/-- classes of `Model/AuthZoneSignedDev.lean` (DO=1 on an NSEC-signed zone) -/
def signedClassesOf (z : Zone) (o : LName) (q : Query) : List String :=
  (if SDev.soaQueryWildcardNoProof z o q then ["soa-query-wildcard-no-proof"] else []) ++
  (if SDev.wildcardExpansionNotProven z o q then ["wildcard-expansion-not-proven"] else [])

def handle (toks : List String) : Option String :=
  match toks with
  | ["dev", "n", origin, _zone, qname, qtype, dok, store] => do
    let o ← parseLName origin
    let z ← parseZone store
    let qn ← parseLName qname
    let qt ← parseTy qtype
    let q : Query := { name := lowerName qn, type := qt }
    let cs := if dok == "1" then signedClassesOf z o q else []
    pure ("signed=" ++ showBool (SDev.allSigned z) ++ " sclasses=" ++ (if cs.isEmpty then "-" else ",".intercalate cs))
  | ["dev", "u", origin, zone, qname, qtype, _do] => do
    let o ← parseLName origin
    let z ← parseZone zone
    let qn ← parseLName qname
    let qt ← parseTy qtype
    let q : Query := { name := lowerName qn, type := qt }
    let cs := classesOf z o q
    pure ("wf=" ++ showBool (zoneWF z o) ++ " classes=" ++ (if cs.isEmpty then "-" else ",".intercalate cs) ++
      " thm=" ++ (if thmHolds z o q then "ok" else "FAIL"))
  | ["devx", "u", origin, zone, qname, qtype, _do] => do
    -- debugging aid (not used by the harness): classes + whether the model conforms to the spec
    let o ← parseLName origin
    let z ← parseZone zone
    let qn ← parseLName qname
    let qt ← parseTy qtype
    let q : Query := { name := lowerName qn, type := qt }
    let cs := classesOf z o q
    pure ("wf=" ++ showBool (zoneWF z o) ++ " classes=" ++ (if cs.isEmpty then "-" else ",".intercalate cs) ++
      " conf=" ++ showBool (conformsModAA (answerImpl z o q) (answerSpec MAX_CNAME_DEPTH z o q)) ++
      " aa=" ++ showBool ((answerImpl z o q).aa == (answerSpec MAX_CNAME_DEPTH z o q).aa))
  | ["q", mode, origin, zone, qname, qtype, dok, store] => do
    -- signed zones: `n` NSEC chain, `s` signed without a denial chain; the model runs on the store
    let nsec ← (if mode == "n" then some true else if mode == "s" then some false else none)
    let _ := zone
    let origin ← parseLName origin
    let z ← parseZone store
    let qn ← parseLName qname
    let qt ← parseTy qtype
    let dok := dok == "1"
    let q : Query := { name := lowerName qn, type := qt }
    if zoneHasAname z || qt == T_AXFR then
      pure (showResponseS dok (respondFull z origin q dok true nsec))
    else
      pure (showResponseS dok (respondS z origin q dok nsec))
  | ["q", "u", origin, zone, qname, qtype, _do] => do
    let origin ← parseLName origin
    let z ← parseZone zone
    let qn ← parseLName qname
    let qt ← parseTy qtype
    let q : Query := { name := lowerName qn, type := qt }
    if zoneHasAname z || qt == T_AXFR then
      pure (showResponseS false (respondFull z origin q false false false))
    else
      pure (showResponse (respond z origin q))
  | _ => none

def step (s : State) (toks : List String) : State × String :=
  (s, (handle toks).getD "bad-op")

end HickoryVerif.Drv.C10
