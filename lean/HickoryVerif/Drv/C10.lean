import HickoryVerif.Drv.Proto
import HickoryVerif.Model.AuthZone

/-!
Case line (see `harness/src/props/c10.rs`):  `q <mode> <origin> <zone> <qname> <qtype> <do>`
answer: `<RCODE> aa=<0|1> an=<rrsets> ns=<rrsets> ar=<rrsets>`.
-/
namespace HickoryVerif.Drv.C10
open HickoryVerif HickoryVerif.Drv HickoryVerif.AuthZone

abbrev State := Unit
def init : State := ()

def tyTable : List (String × Nat) :=
  [("A", T_A), ("NS", T_NS), ("CNAME", T_CNAME), ("SOA", T_SOA), ("MX", T_MX), ("TXT", T_TXT),
   ("AAAA", T_AAAA), ("DS", T_DS), ("ANY", T_ANY)]

def parseTy (s : String) : Option Nat := (tyTable.find? (·.1 == s)).map (·.2)

def showTy (t : Nat) : String :=
  match tyTable.find? (·.2 == t) with
  | some (s, _) => s
  | none => "TYPE" ++ toString t

/-- `a.b.example.` → labels (bytes); `.` is the root -/
def parseLName (s : String) : Option LName :=
  if s == "." then some []
  else
    let parts := s.splitOn "."
    match parts.getLast? with
    | some "" =>
      let ls := parts.dropLast
      if ls.any (·.isEmpty) then none else some (ls.map fun l => l.toList.map Char.toNat)
    | _ => none

def showLName (n : LName) : String :=
  if n.isEmpty then "." else
  String.join (n.map fun l => String.ofList (l.map Char.ofNat) ++ ".")

def parseRd (s : String) : Option RData :=
  match s.splitOn "@" with
  | [t] => do pure { tag := ← t.toNat?, target := none }
  | [t, n] => do pure { tag := ← t.toNat?, target := some (← parseLName n) }
  | _ => none

def parseRRset (s : String) : Option RRset :=
  match s.splitOn "/" with
  | [n, t, rds] => do
    let rds ← (rds.splitOn "+").mapM parseRd
    pure { name := ← parseLName n, type := ← parseTy t, rdatas := rds }
  | _ => none

def parseZone (s : String) : Option Zone :=
  if s == "-" then some [] else (s.splitOn ";").mapM parseRRset

def showRd (r : RData) : String :=
  match r.target with
  | some t => toString r.tag ++ "@" ++ showLName t
  | none => toString r.tag

def showRRset (r : RRset) : String :=
  showLName r.name ++ "/" ++ showTy r.type ++ "/" ++ "+".intercalate (r.rdatas.map showRd)

def showSection (l : List RRset) : String :=
  if l.isEmpty then "-" else ";".intercalate (l.map showRRset)

def showRcode : Rcode → String
  | .noError => "NOERROR"
  | .nxDomain => "NXDOMAIN"
  | .refused => "REFUSED"

def showResponse (r : Response) : String :=
  showRcode r.rcode ++ " aa=" ++ showBool r.aa ++ " an=" ++ showSection r.answers ++
    " ns=" ++ showSection r.authority ++ " ar=" ++ showSection r.additional

def handle (toks : List String) : Option String :=
  match toks with
  | ["q", "u", origin, zone, qname, qtype, _do] => do
    let origin ← parseLName origin
    let z ← parseZone zone
    let qn ← parseLName qname
    let qt ← parseTy qtype
    pure (showResponse (respond z origin { name := lowerName qn, type := qt }))
  | _ => none

def step (s : State) (toks : List String) : State × String :=
  (s, (handle toks).getD "bad-op")

end HickoryVerif.Drv.C10
