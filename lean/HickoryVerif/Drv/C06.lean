/-
C06 driver.  Case lines (REC as in C05: NAME/TYPE/CLS/TTL/RDATA):
  serial A B                                   → lt | eq | gt | none          (SerialNumber::partial_cmp)
  tag RDATAHEX                                 → key tag                      (calculate_key_tag_internal)
  attl EXP OTTL RECTTL NOW                     → authenticated TTL
  vk NOW KPROOF KEY SIG NAME TYPE ORC REC*     → `ok P TTL|none` | `err P`    (verify_rrset_with_dnskey)
  vkx EXPECT …vk args…                         → the same (external vectors; EXPECT is for the harness)
  begin [ta=ALG:PK,…] [pos=LO:HI] [neg=LO:HI]  → resets the validation cache (ta: trust anchors, harness only)
  h CLOCK INST CK KEYS SIG[|SIG…] NAME TYPE ORCS REC* → `fresh|cached|nolookup P ttl… sig (P TTL)… dev=XY`   (CLOCK: u64 wall clock; ORCS: `ORC|…` per key, `,` between RRSIGs) (verify_rrsets via send; nolookup: signer is not the owner's zone, no DNSKEY query is made; X: class outlivesSignature, Y: class sameKeyOtherRdata)
  hold …same…                                  → the same for the pre-repair cache model (validatePreFix; regression only)
  end
KEY  = OWNER;FLAGS;ALG;PUBKEYHEX        KEYS = KEY;PROOF|KEY;PROOF|…  (`-` = none)
SIG  = OWNER;CLS;TTL;TC;ALG;LABELS;OTTL;EXP;INC;TAG;SIGNER;SIGHEX
ORC  = hex of the TBS bytes for which the real crypto accepts (KEY, signature), or `!`
ORCS = ORC|ORC|… one per key
P    = S | I | B | N
-/
import HickoryVerif.Drv.Proto
import HickoryVerif.Drv.C05
import HickoryVerif.Model.SigCheck

namespace HickoryVerif.Drv.C06
open HickoryVerif HickoryVerif.Drv HickoryVerif.Tbs HickoryVerif.SigCheck

structure State where
  cache : Cache := []
  cfg : CacheConfig := {}
  /-- the requests of the current history whose verdict was freshly computed -/
  past : List Request := []
  deriving Inhabited

def init : State := {}

def parseProof : String → Option Proof
  | "S" => some .secure | "I" => some .insecure | "B" => some .bogus | "N" => some .indeterminate
  | _ => none

def showProof : Proof → String
  | .secure => "S" | .insecure => "I" | .bogus => "B" | .indeterminate => "N"

def parseKeyFields : List String → Option Dnskey
  | [o, f, a, p] => do
    pure { owner := ← parseName o, flags := ← f.toNat?, algorithm := ← a.toNat?, pubkey := ← parseHex p }
  | _ => none

def parseKey (tok : String) : Option Dnskey := parseKeyFields (tok.splitOn ";")

def parseKeyP (tok : String) : Option (Dnskey × Proof) :=
  match tok.splitOn ";" with
  | [o, f, a, p, pr] => do pure (← parseKeyFields [o, f, a, p], ← parseProof pr)
  | _ => none

def parseKeys (tok : String) : Option (List (Dnskey × Proof)) :=
  if tok == "-" then some [] else (tok.splitOn "|").mapM parseKeyP

def parseSig (tok : String) : Option Rrsig :=
  match tok.splitOn ";" with
  | [o, c, ttl, tc, alg, lab, ottl, exp, inc, tag, signer, sg] => do
    let input : SigInput := {
      typeCovered := ← tc.toNat?, algorithm := ← alg.toNat?, numLabels := ← lab.toNat?,
      originalTtl := ← ottl.toNat?, expiration := ← exp.toNat?, inception := ← inc.toNat?,
      keyTag := ← tag.toNat?, signer := ← parseName signer }
    pure { owner := ← parseName o, cls := ← c.toNat?, ttl := ← ttl.toNat?, input, sig := ← parseHex sg }
  | _ => none

def parseOrc (tok : String) : Option (Option Bytes) :=
  if tok == "!" then some none else (parseHex tok).map some

def showTtl : Option Nat → String
  | some t => toString t
  | none => "none"

def parseRange (s : String) : Option (Nat × Nat) :=
  match s.splitOn ":" with
  | [lo, hi] => do pure (← lo.toNat?, ← hi.toNat?)
  | _ => none

def parseCfg : List String → CacheConfig → Option CacheConfig
  | [], c => some c
  | t :: ts, c =>
    match t.splitOn "=" with
    | ["pos", r] => do parseCfg ts { c with positive := some (← parseRange r) }
    | ["neg", r] => do parseCfg ts { c with negative := some (← parseRange r) }
    | ["ta", _] => parseCfg ts c   -- trust anchors of the block: harness only
    | _ => none

/-- `h` / `hold` / `hq QNAME`: one validation through the handle.  `h`: the cache as it is; `hold`: the model of
the cache before the repairs 411522f / a831deb (regression only); `hq QNAME`: as `h`, but the RRset arrives in
the response to the original query `QNAME DNSKEY` -/
def hStep (s : State) (op : String) (origTok : Option String) (now inst ck keys sg name ty orcs : String)
    (recs : List String) : State × String :=
    let r : Option (State × String) := do
      let orig ← match origTok with
        | some q => (parseName q).map some
        | none => some none
      let clock ← now.toNat?; let inst ← inst.toNat?; let ck ← parseHex ck
      -- KEYS = `!`: every DNSKEY lookup fails (upstream error)
      let netError := keys == "!"
      let keys ← if netError then some [] else parseKeys keys
      -- all RRSIGs of the RRset in message order: `SIG|SIG|…`; oracle tables: one `ORC|ORC|…` (per key)
      -- for each RRSIG, separated by `,`
      let sigs ← (sg.splitOn "|").mapM parseSig
      let name ← parseName name; let ty ← ty.toNat?
      let orcs ← if orcs == "-" then some (sigs.map fun _ => [])
                 else (orcs.splitOn ",").mapM (fun o => (o.splitOn "|").mapM parseOrc)
      let recs ← recs.mapM C05.parseRecord
      let ks := keys.map (·.1)
      let oracle : SigOracle := fun k tbs sigBytes =>
        (sigs.zip orcs).any fun (sj, os) =>
          sj.sig == sigBytes && (ks.zip os).any (fun (k', o) => k' == k && o == some tbs)
      let m : MultiRequest := { ck, dnskeys := keys, rrsigs := sigs, keyName := name.toLowercase,
                                keyType := ty, records := recs, clock, inst, netError,
                                origDnskey := orig }
      let (req, idx0) := m.toRequest
      let (c', v, fresh) :=
        if op == "h" then validate oracle s.cfg s.cache req else validatePreFix oracle s.cfg s.cache req
      let idx := if v.isOk then idx0 else none
      let ttls := " ".intercalate (recs.map fun r => toString (updatedTtl v r.ttl))
      let sigOut := " ".intercalate ((List.range sigs.length).zip sigs |>.map fun (j, sj) =>
        if idx == some j then s!"{showProof v.proof} {updatedTtl v sj.ttl}" else s!"N {sj.ttl}")
      let dev2 := !fresh && v.proof == .secure && s.past.any (fun r' => sameKeyOtherRdata r' req)
      pure ({ s with cache := c', past := if fresh then req :: s.past else s.past },
        s!"{if idx0.isNone then "nolookup" else if fresh then "fresh" else "cached"} {if recs.isEmpty then "-" else showProof v.proof} {ttls} sig {sigOut} dev={showBool (outlivesSignature req v fresh)}{showBool dev2}")
    r.getD (s, "bad-op")

def stepCore (s : State) (toks : List String) : State × String :=
  match toks with
  | ["serial", a, b] =>
    match a.toNat?, b.toNat? with
    | some a, some b =>
      (s, match serialCmp a b with | some o => ordStr o | none => "none")
    | _, _ => (s, "bad-op")
  | ["sadd", a, b] =>
    match a.toNat?, b.toNat? with
    | some a, some b => (s, toString ((a + b) % 4294967296))   -- `impl Add for SerialNumber`: wrapping
    | _, _ => (s, "bad-op")
  | ["tag", h] =>
    match parseHex h with
    | some b => (s, toString (keyTag b))
    | none => (s, "bad-op")
  | ["attl", exp, ottl, rttl, now] =>
    match exp.toNat?, ottl.toNat?, rttl.toNat?, now.toNat? with
    | some exp, some ottl, some rttl, some now =>
      (s, toString (min (min rttl ottl) (exp - now)))
    | _, _, _, _ => (s, "bad-op")
  | "vk" :: now :: kp :: key :: sg :: name :: ty :: orc :: recs =>
    let r : Option String := do
      let now ← now.toNat?; let kp ← parseProof kp; let key ← parseKey key; let sg ← parseSig sg
      let name ← parseName name; let ty ← ty.toNat?; let orc ← parseOrc orc
      let recs ← recs.mapM C05.parseRecord
      let oracle : SigOracle := fun k tbs sig => k == key && sig == sg.sig && orc == some tbs
      match verifyRrsetWithDnskey oracle key kp sg name.toLowercase ty recs now with
      | .ok (p, ttl) => pure s!"ok {showProof p} {showTtl ttl}"
      | .error p => pure s!"err {showProof p}"
    (s, r.getD "bad-op")
  | "begin" :: cfg =>
    match parseCfg cfg {} with
    | some c => ({ cache := [], cfg := c, past := [] }, "begin")
    | none => (s, "bad-op")
  | ["end"] => ({}, "end")
  | "hq" :: q :: now :: inst :: ck :: keys :: sg :: name :: ty :: orcs :: recs =>
    hStep s "h" (some q) now inst ck keys sg name ty orcs recs
  | op :: now :: inst :: ck :: keys :: sg :: name :: ty :: orcs :: recs =>
    if op != "h" && op != "hold" then (s, "bad-op") else
    hStep s op none now inst ck keys sg name ty orcs recs
  | _ => (s, "bad-op")

/-- `vkx EXPECT …` is an external vector: a `vk` line whose expectation only the harness looks at -/
def step (s : State) (toks : List String) : State × String :=
  match toks with
  | "vkx" :: _expect :: rest => stepCore s ("vk" :: rest)
  | _ => stepCore s toks

end HickoryVerif.Drv.C06
