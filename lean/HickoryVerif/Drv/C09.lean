/-
Driver of C09.  Case line (tokens):

  v <qname> <qtype> <soa|-> <rcode> <wl|-> <soft> <hard>
    <n> { <owner> <next-hex> <optout> <iterations> <salt-hex> <types|-> }*n
    <m> { <name> <hash-hex> }*m

`wl` = `num_labels` of the first RRSIG among the answers (`-` = no RRSIG), `types` = decimal type
codes separated by `,`.  The `m` pairs are the hash oracle: the real NSEC3 hash (first record's salt
and iterations) of every name the model may ask for, keyed by the lower-cased name.
Answer: `<proof> <classes|->` where classes are the finding classes whose Lean predicate holds.
-/
import HickoryVerif.Drv.Proto
import HickoryVerif.Model.Nsec3

namespace HickoryVerif.Drv.C09
open HickoryVerif HickoryVerif.Drv HickoryVerif.Nsec3

abbrev State := Unit
def init : State := ()

def parseTypes (s : String) : Option (List Nat) :=
  if s == "-" then some [] else (s.splitOn ",").mapM (·.toNat?)

def parseOptName (s : String) : Option (Option Name) :=
  if s == "-" then some none else (parseName s).map some

def parseOptNat (s : String) : Option (Option Nat) :=
  if s == "-" then some none else s.toNat?.map some

def parseRecs : Nat → List String → Option (List Rec × List String)
  | 0, rest => some ([], rest)
  | n + 1, o :: nx :: oo :: it :: sa :: ty :: rest => do
    let owner ← parseName o
    let next ← parseHex nx
    let iterations ← it.toNat?
    let salt ← parseHex sa
    let types ← parseTypes ty
    let (rs, rest') ← parseRecs n rest
    pure ({ owner, next, optOut := oo == "1", iterations, salt, types } :: rs, rest')
  | _, _ => none

def parseTable : Nat → List String → Option (List (Name × Bytes))
  | 0, [] => some []
  | n + 1, a :: h :: rest => do
    let a ← parseName a
    let h ← parseHex h
    let t ← parseTable n rest
    pure ((a, h) :: t)
  | _, _ => none

/-- the hash oracle: `Nsec3HashAlgorithm::hash` lower-cases the name before hashing -/
def tableH (t : List (Name × Bytes)) (n : Name) : Bytes :=
  match t.find? (fun p => p.1 == n.toLowercase) with
  | some p => p.2
  | none => []

def showProof : Proof → String
  | .secure => "secure"
  | .insecure => "insecure"
  | .bogus => "bogus"

def handle (toks : List String) : Option String :=
  match toks with
  | "v" :: q :: qt :: soa :: rc :: wl :: soft :: hard :: n :: rest => do
    let q ← parseName q
    let qt ← qt.toNat?
    let soa ← parseOptName soa
    let rc ← rc.toNat?
    let wl ← parseOptNat wl
    let soft ← soft.toNat?
    let hard ← hard.toNat?
    let n ← n.toNat?
    let (recs, rest) ← parseRecs n rest
    match rest with
    | m :: rest =>
      let m ← m.toNat?
      let tbl ← parseTable m rest
      if recs.isEmpty then pure "panic" else
      let H := tableH tbl
      let p := verifyNsec3 current H base32hex q qt soa rc wl recs soft hard
      pure (showProof p ++ " " ++ classOf H base32hex q qt soa rc wl recs soft hard)
    | [] => none
  | "vx" :: bits :: q :: qt :: soa :: rc :: wl :: soft :: hard :: n :: rest => do
    -- the model with the repairs `bits` = apex,wrap,optout,deleg,wild (each 0/1) switched on: used to
    -- validate repo-patches/C09-*.diff against a patched copy of the repository
    let fx : Fixes ← match bits.toList with
      | [a, w, o, d, x] => some { apex := a == '1', wrap := w == '1', optout := o == '1',
                                  deleg := d == '1', wild := x == '1' }
      | _ => none
    let q ← parseName q
    let qt ← qt.toNat?
    let soa ← parseOptName soa
    let rc ← rc.toNat?
    let wl ← parseOptNat wl
    let soft ← soft.toNat?
    let hard ← hard.toNat?
    let n ← n.toNat?
    let (recs, rest) ← parseRecs n rest
    match rest with
    | m :: rest =>
      let m ← m.toNat?
      let tbl ← parseTable m rest
      if recs.isEmpty then pure "panic" else
      pure (showProof (verifyNsec3 fx (tableH tbl) base32hex q qt soa rc wl recs soft hard))
    | [] => none
  | ["b32", x] => do
    let x ← parseHex x
    pure (toHex (base32hex x))
  | _ => none

def step (s : State) (toks : List String) : State × String :=
  (s, (handle toks).getD "bad-op")

end HickoryVerif.Drv.C09
