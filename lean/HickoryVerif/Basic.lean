/-
Shared vocabulary of all models: outcomes (ok / err / panic), and the token-level
helpers of the line protocol (hex byte strings, naturals) used by the driver.
Core Lean only (the driver is a compiled `lean_exe`).
-/
namespace HickoryVerif

/-- Result of a modelled Rust function. `err` is any `Err(_)`; `panic site` is a
Rust panic (slice index out of range, `unwrap` on `None`, `assert!`, debug overflow). -/
inductive Outcome (α : Type) where
  | ok (a : α)
  | err
  | panic (site : String)
  deriving Repr, DecidableEq, Inhabited

namespace Outcome
def bind {α β} (x : Outcome α) (f : α → Outcome β) : Outcome β :=
  match x with
  | ok a => f a
  | err => err
  | panic s => panic s

def map {α β} (f : α → β) (x : Outcome α) : Outcome β :=
  match x with
  | ok a => ok (f a)
  | err => err
  | panic s => panic s

instance : Monad Outcome where
  pure := Outcome.ok
  bind := Outcome.bind

def isPanic {α} : Outcome α → Bool
  | panic _ => true
  | _ => false

def isOk {α} : Outcome α → Bool
  | ok _ => true
  | _ => false

def toOption {α} : Outcome α → Option α
  | ok a => some a
  | _ => none

@[simp] theorem bind_ok {α β} (a : α) (f : α → Outcome β) : (ok a).bind f = f a := rfl
@[simp] theorem bind_err {α β} (f : α → Outcome β) : (err : Outcome α).bind f = err := rfl
@[simp] theorem bind_panic {α β} (s : String) (f : α → Outcome β) :
    (panic s : Outcome α).bind f = panic s := rfl
@[simp] theorem pure_eq {α} (a : α) : (pure a : Outcome α) = ok a := rfl
@[simp] theorem bind_eq {α β} (x : Outcome α) (f : α → Outcome β) : (x >>= f) = x.bind f := rfl
end Outcome

/-- Bytes are modelled as naturals; `Bytes.WF` says every element is `< 256`. -/
abbrev Bytes := List Nat

def Bytes.WF (b : Bytes) : Prop := ∀ x ∈ b, x < 256

/-! ## protocol helpers -/

def hexDigit? (c : Char) : Option Nat :=
  if '0' ≤ c ∧ c ≤ '9' then some (c.toNat - '0'.toNat)
  else if 'a' ≤ c ∧ c ≤ 'f' then some (c.toNat - 'a'.toNat + 10)
  else if 'A' ≤ c ∧ c ≤ 'F' then some (c.toNat - 'A'.toNat + 10)
  else none

def parseHexChars : List Char → Option Bytes
  | [] => some []
  | [_] => none
  | a :: b :: rest => do
    let x ← hexDigit? a
    let y ← hexDigit? b
    let r ← parseHexChars rest
    pure ((x * 16 + y) :: r)

/-- `"-"` is the empty byte string (so that tokens are never empty). -/
def parseHex (s : String) : Option Bytes :=
  if s == "-" then some [] else parseHexChars s.toList

def hexChar (n : Nat) : Char :=
  if n < 10 then Char.ofNat (n + '0'.toNat) else Char.ofNat (n - 10 + 'a'.toNat)

def toHex (b : Bytes) : String :=
  if b.isEmpty then "-" else
  String.ofList (b.foldr (fun x acc => hexChar (x / 16 % 16) :: hexChar (x % 16) :: acc) [])

def ordStr : Ordering → String
  | .lt => "lt"
  | .eq => "eq"
  | .gt => "gt"

def boolStr (b : Bool) : String := if b then "1" else "0"

end HickoryVerif
