/-
Specification side of C15 — what the property talks about, stated without reference to the
control flow of cache.rs:

* `storedTtl` : the TTL with which a record is kept = its TTL clamped to the whole-second
  positive bounds of *its own* record type;
* `lifetime`  : the `L` of the property.  Positive answer: the smallest stored TTL among the
  records of the queried type or CNAME (all three sections), else the positive minimum, clamped
  to the positive bounds of the *query* type.  Negative answer: its negative TTL clamped to the
  negative bounds of the query type (the negative minimum when it carries none);
* `elapsed`   : whole seconds between insertion and lookup;
* `track`     : for a history, the result and instant of the last cacheable insert of each query
  that has not been cleared since ("the entry's insertion").
-/
import HickoryVerif.Model.Cache

namespace HickoryVerif.Spec.CacheTtl
open HickoryVerif.Cache

/-- the mathematical clamp (meaningful when `mn ≤ mx`) -/
def clampM (x mn mx : Nat) : Nat := max mn (min x mx)

def storedTtl (cfg : TtlConfig) (r : Rec) : Nat :=
  clampM r.ttl (cfg.posBoundsSecs r.rtype).1 (cfg.posBoundsSecs r.rtype).2

def storedRec (cfg : TtlConfig) (r : Rec) : Rec := { r with ttl := storedTtl cfg r }

def storedMsg (cfg : TtlConfig) (m : Msg) : Msg :=
  { answers := m.answers.map (storedRec cfg), authorities := m.authorities.map (storedRec cfg),
    additionals := m.additionals.map (storedRec cfg) }

/-- what the cache keeps for a result: positive messages with clamped TTLs, negative answers
as received -/
def stored (cfg : TtlConfig) : Res → Res
  | .pos m => .pos (storedMsg cfg m)
  | r => r

/-- TTLs (ns) that bound the life of a positive entry -/
def relevantTtls (cfg : TtlConfig) (qt : Nat) (m : Msg) : List Nat :=
  (((storedMsg cfg m).all).filter fun r => r.rtype == qt || r.rtype == CNAME).map fun r => r.ttl * NS

def posLife (cfg : TtlConfig) (qt : Nat) (m : Msg) : Nat :=
  clampM ((relevantTtls cfg qt m).min?.getD (cfg.posBounds qt).1) (cfg.posBounds qt).1 (cfg.posBounds qt).2

def negLife (cfg : TtlConfig) (qt : Nat) : Option Nat → Nat
  | some t => clampM (t * NS) (cfg.negBounds qt).1 (cfg.negBounds qt).2
  | none => (cfg.negBounds qt).1

/-- only positive answers and `NoRecordsFound` are cacheable -/
def cacheable : Res → Bool
  | .other _ => false
  | _ => true

/-- `L` (ns) -/
def lifetime (cfg : TtlConfig) (qt : Nat) : Res → Nat
  | .pos m => posLife cfg qt m
  | .neg n => negLife cfg qt n.negTtl
  | .other _ => 0

/-- whole seconds elapsed -/
def elapsed (t0 now : Nat) : Nat := (now - t0) / NS

abbrev Hist := Query → Option (Res × Nat)

def trackOp (h : Hist) : Op → Hist
  | .ins q r t => if cacheable r then fun q' => if q' = q then some (r, t) else h q' else h
  | .get _ _ => h
  | .clear => fun _ => none
  | .clearQuery q => fun q' => if q' = q then none else h q'

/-- last cacheable insert per query since the last clear -/
def track (ops : List Op) : Hist := ops.foldl trackOp fun _ => none

/-! well-formedness: TTLs are `u32` -/

def Rec.WF (r : Rec) : Prop := r.ttl ≤ U32MAX

def NsData.WF (d : NsData) : Prop := Rec.WF d.ns ∧ ∀ g ∈ d.glue, Rec.WF g

def ResWF : Res → Prop
  | .pos m => ∀ r ∈ m.all, Rec.WF r
  | .neg n => (∀ t, n.negTtl = some t → t ≤ U32MAX) ∧ (∀ r, n.soa = some r → Rec.WF r) ∧
      (∀ l, n.auth = some l → ∀ r ∈ l, Rec.WF r) ∧ (∀ l, n.ns = some l → ∀ d ∈ l, NsData.WF d)
  | .other _ => True

/-- every inserted result of the history carries `u32` TTLs -/
def HistWF (ops : List Op) : Prop := ∀ q r t, Op.ins q r t ∈ ops → ResWF r

/-- all TTL fields of a result, in a fixed order -/
def nsTtls (d : NsData) : List Nat := d.ns.ttl :: d.glue.map (·.ttl)

def ttls : Res → List Nat
  | .pos m => m.all.map (·.ttl)
  | .neg n => n.negTtl.toList ++ (n.soa.toList.map (·.ttl)) ++
      ((n.auth.getD []).map (·.ttl)) ++ ((n.ns.getD []).flatMap nsTtls)
  | .other _ => []

/-- pointwise `≤` of two TTL vectors of the same length -/
def allLe : List Nat → List Nat → Prop
  | [], [] => True
  | a :: as, b :: bs => a ≤ b ∧ allLe as bs
  | _, _ => False

/-- a stretch of history that does not refresh (re-insert a cacheable result for) or clear `q` -/
def noRefresh (q : Query) : List Op → Bool
  | [] => true
  | .ins q' r _ :: rest => !(decide (q' = q) && cacheable r) && noRefresh q rest
  | .get _ _ :: rest => noRefresh q rest
  | .clear :: _ => false
  | .clearQuery q' :: rest => !decide (q' = q) && noRefresh q rest

end HickoryVerif.Spec.CacheTtl
