/-
RFC 5155 denial of existence, stated independently of the validator's structure.

A *zone view* says which names exist and with which types (an empty non-terminal exists with no
types).  A set of NSEC3 records is *consistent with* a zone view when every record is a link of the
view's hash ring.  The claims are those of RFC 5155 §8.4–§8.8 (with the bitmap rules of §8.3 and
RFC 6840 §4.1).  Soundness of a validator: `Secure` only if the claim holds in **every** zone view
the records are consistent with.

Names are fully qualified and identified by their label lists (first label first).  `H` is the NSEC3
hash (for the salt / iterations stated in the records), `enc` the base32hex encoder; neither is
assumed to be anything in particular here.  Hashes are ordered byte-wise lexicographically, a proper
prefix first — core Lean's `compare` on `List Nat` (RFC 5155 §1.3 "hash order").
-/
import HickoryVerif.Model.Nsec3

namespace HickoryVerif.Denial3
open HickoryVerif HickoryVerif.Nsec3

/-- the fully qualified name with these labels -/
def mk (ls : List Bytes) : Name := { labels := ls, fqdn := true }

structure ZoneView where
  /-- labels of the zone apex -/
  apex : List Bytes
  /-- `none`: the name does not exist; `some ts`: it exists with exactly the types `ts` -/
  types : List Bytes → Option (List Nat)

namespace ZoneView

def has (Z : ZoneView) (n : List Bytes) : Prop := (Z.types n).isSome = true

def hasType (Z : ZoneView) (n : List Bytes) (t : Nat) : Prop := ∃ ts, Z.types n = some ts ∧ t ∈ ts

/-- well-formed zone view: every name is at or below the apex (only the label count is needed),
below the apex the parent of an existing name exists (empty-non-terminal rule), and a wildcard name
is never a delegation point (RFC 4592 §4.2) -/
structure WF (Z : ZoneView) : Prop where
  below : ∀ n, Z.has n → Z.apex.length ≤ n.length
  closed : ∀ l ls, Z.has (l :: ls) → Z.apex.length ≤ ls.length → Z.has ls
  wild_no_ns : ∀ ls, ¬ Z.hasType ([42] :: ls) tNS

/-- a delegation point as seen from the parent side -/
def Delegation (Z : ZoneView) (n : List Bytes) : Prop := Z.hasType n tNS ∧ ¬ Z.hasType n tSOA

/-- a delegation without DS: what an Opt-Out NSEC3 may skip (RFC 5155 §6) -/
def InsecureDelegation (Z : ZoneView) (n : List Bytes) : Prop := Z.Delegation n ∧ ¬ Z.hasType n tDS

/-- nothing below such a name belongs to the zone's authoritative data -/
def Cut (Z : ZoneView) (n : List Bytes) : Prop := Z.Delegation n ∨ Z.hasType n tDNAME

end ZoneView

/-- hash order -/
def hlt (a b : Bytes) : Prop := compare a b = .lt

/-- `h` lies strictly inside the link from `o` to `n` of the hash ring (the last link wraps) -/
def Inside (o n h : Bytes) : Prop :=
  if compare o n = .lt then hlt o h ∧ hlt h n else hlt o h ∨ hlt h n

instance (o n h : Bytes) : Decidable (Inside o n h) := by
  unfold Inside hlt
  exact inferInstance

section
variable (H : Name → Bytes) (enc : Bytes → Bytes)

/-- The record is a link of the hash ring of `Z`: it belongs to the zone (`<label>.<apex>`), its owner
label is the encoded hash of a name of `Z` that has exactly the record's types, and no name of `Z`
hashes strictly inside the link — except, under Opt-Out, insecure delegations. -/
def IsLink (Z : ZoneView) (r : Rec) : Prop :=
  ∃ l rest n ts,
    r.owner.labels = l :: rest ∧ Name.eq (mk rest) (mk Z.apex) = true ∧
    Z.types n = some ts ∧ labelEq l (enc (H (mk n))) = true ∧
    (∀ t, t ∈ r.types ↔ t ∈ ts) ∧
    ∀ m, Z.has m → Inside (H (mk n)) r.next (H (mk m)) →
      r.optOut = true ∧ Z.InsecureDelegation m

def ConsistentWith3 (recs : List Rec) (Z : ZoneView) : Prop := ∀ r ∈ recs, IsLink H enc Z r

end

/-! ### the claims -/

/-- `ce` is the closest encloser of `q` in `Z`: the longest existing ancestor-or-self -/
def IsClosestEncloser (Z : ZoneView) (q ce : List Bytes) : Prop :=
  ce <:+ q ∧ Z.has ce ∧ ∀ a, a <:+ q → ce.length < a.length → ¬ Z.has a

/-- §8.4 name error: QNAME does not exist; at its closest encloser there is no wildcard and no zone
cut / DNAME (RFC 5155 §8.3) — so neither synthesis nor a referral was the right answer. -/
def ClaimNameError (Z : ZoneView) (q : List Bytes) : Prop :=
  ¬ Z.has q ∧ ∀ ce, IsClosestEncloser Z q ce → ¬ Z.has ([42] :: ce) ∧ ¬ Z.Cut ce

/-- §8.5 / §8.6 (matching record) no data: no RRset of the type, no CNAME, and for QTYPE ≠ DS the name
is not a delegation point (RFC 6840 §4.1) -/
def ClaimNoData (Z : ZoneView) (q : List Bytes) (t : Nat) : Prop :=
  ¬ Z.hasType q t ∧ ¬ Z.hasType q tCNAME ∧ (t ≠ tDS → ¬ Z.Delegation q)

/-- §8.6 via Opt-Out: all that is asserted is that there is no DS RRset at QNAME -/
def ClaimNoDS (Z : ZoneView) (q : List Bytes) : Prop := ¬ Z.hasType q tDS

/-- §8.7 wildcard no data: QNAME does not exist, the wildcard at its closest encloser has neither
the type nor a CNAME, and the closest encloser is not a cut -/
def ClaimWildcardNoData (Z : ZoneView) (q : List Bytes) (t : Nat) : Prop :=
  ¬ Z.has q ∧ ∀ ce, IsClosestEncloser Z q ce →
    ¬ Z.hasType ([42] :: ce) t ∧ ¬ Z.hasType ([42] :: ce) tCNAME ∧ ¬ Z.Cut ce

/-- §8.8 wildcard answer expanded from `*.<last k labels of QNAME>`: no ancestor-or-self of QNAME
with more than `k` labels exists (QNAME does not exist and the wildcard used is the right one) -/
def ClaimWildcardAnswer (Z : ZoneView) (q : List Bytes) (k : Nat) : Prop :=
  k < q.length ∧ ∀ a, a <:+ q → k < a.length → ¬ Z.has a

end HickoryVerif.Denial3
