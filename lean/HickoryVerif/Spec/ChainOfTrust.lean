/-
C07 — specification: the chain of trust, stated over the upstream (`Env.up`) and the crypto oracles
(`anchor`, `covers`, `sigRes`) only; nothing here refers to how the validator walks the chain.

`Chain env q sec r` — "an unbroken chain from a trust anchor to `r`":
  `r` is a record of section `sec` of the upstream's response to `q`; that section also holds an
  RRSIG over `r`'s RRset (same owner, type covered = `r`'s type) which verifies (`sigRes … = secure`,
  i.e. `verify_rrset_with_dnskey` accepts: validity window, labels, signer/tag/algorithm, signature)
  under a DNSKEY `k` found in the upstream's DNSKEY response for the RRSIG's signer zone, and `k` is
  `KeySecure` there.

`KeySecure env q sec k` — DNSKEY `k` of section `sec` of the response to `q` is linked to an anchor:
  either `k` is `DirectKey` (it is a trust anchor, or a DS record with `k`'s algorithm and key tag,
  itself at the end of a `Chain` in the DS response for `k`'s owner, covers `k`), or `k`'s DNSKEY RRset
  is signed (`sigRes … = secure`) by a `DirectKey` key `k'` of the same RRset that the RRSIG names as
  its signer.

(The sigRes oracle includes `RrsigValidity::check`, so a `secure` verdict also means that the RRSIG's signer
name, algorithm and key tag are those of `k` and that `k` is a zone key — property C06.)

These are the links the property lists: "DS digests matching DNSKEYs and DNSKEY RRsets signed by
those keys".  The strict reading for a DNSKEY *record* returned Secure is `KeySigned` (anchor, or
member of a DNSKEY RRset signed by a DirectKey key).
-/
import HickoryVerif.Model.Chain

namespace HickoryVerif.Chain

/-- the record irrespective of its validation state -/
def Rec.raw (r : Rec) : Rec := { r with proof := .indet }

/-- the message `verify_response` works on: the upstream's response, a `NoRecordsFound` error being
turned back into a message that keeps only the response code and the authority section -/
def upMsg (env : Env) (q : Query) : Option (Nat × Msg) :=
  match (env.up q).out with
  | .ok m => some ((env.up q).qid, m)
  | .noRecords m => some ((env.up q).qid, { rcode := m.rcode, an := [], ns := m.ns, ad := [] })
  | _ => none

mutual
inductive Chain (env : Env) : Query → Nat → Rec → Prop where
  | signed {q : Query} {sec : Nat} {r sig k : Rec} {qid : Nat} {m : Msg} {kqid : Nat} {mk : Msg} :
      upMsg env q = some (qid, m) →
      r ∈ m.sec sec → r.isSig = false →
      sig ∈ m.sec sec → sig.isSig = true → sig.name = r.name → sig.covered = r.rtype →
      upMsg env ⟨sig.signer, tDNSKEY⟩ = some (kqid, mk) →
      k ∈ mk.an → k.rtype = tDNSKEY → KeySecure env ⟨sig.signer, tDNSKEY⟩ 0 k →
      env.sigRes k.rid sig.rid ⟨qid, sec, r.name, r.rtype⟩ = .secure →
      Chain env q sec r

inductive DirectKey (env : Env) : Rec → Prop where
  | anchor {k : Rec} : env.anchor k.rid = true → DirectKey env k
  | ds {k d : Rec} :
      Chain env ⟨k.name, tDS⟩ 0 d → d.rtype = tDS →
      d.alg = k.alg → d.tag = k.tag → env.covers d.rid k.rid = true → k.algSupp = true →
      DirectKey env k

inductive KeySecure (env : Env) : Query → Nat → Rec → Prop where
  | direct {q : Query} {sec : Nat} {k : Rec} : DirectKey env k → KeySecure env q sec k
  | signedBy {q : Query} {sec : Nat} {k k' sig : Rec} {qid : Nat} {m : Msg} :
      upMsg env q = some (qid, m) →
      k' ∈ m.sec sec → k'.rtype = tDNSKEY → k'.name = k.name → DirectKey env k' →
      sig ∈ m.sec sec → sig.isSig = true → sig.name = k.name → sig.covered = tDNSKEY →
      k'.name = sig.signer →
      env.sigRes k'.rid sig.rid ⟨qid, sec, k.name, tDNSKEY⟩ = .secure →
      KeySecure env q sec k
end

/-- the strict reading for a DNSKEY record: a trust anchor, or a member of a *signed* DNSKEY RRset -/
def KeySigned (env : Env) (q : Query) (sec : Nat) (k : Rec) : Prop :=
  env.anchor k.rid = true ∨
  ∃ (k' sig : Rec) (qid : Nat) (m : Msg),
    upMsg env q = some (qid, m) ∧ k' ∈ m.sec sec ∧ k'.rtype = tDNSKEY ∧ k'.name = k.name ∧ DirectKey env k' ∧
    sig ∈ m.sec sec ∧ sig.isSig = true ∧ sig.name = k.name ∧ sig.covered = tDNSKEY ∧ k'.name = sig.signer ∧
    env.sigRes k'.rid sig.rid ⟨qid, sec, k.name, tDNSKEY⟩ = .secure

/-- Upstream responses carry unvalidated records (the wrapped handle is not itself a validator). -/
def UpClean (env : Env) : Prop :=
  ∀ q m, ((env.up q).out = .ok m ∨ (env.up q).out = .noRecords m) → ∀ r ∈ m.all, r.proof = .indet

end HickoryVerif.Chain
