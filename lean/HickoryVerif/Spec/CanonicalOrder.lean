/-
RFC 4034 §6.1 canonical DNS name order, written independently of the code's structure:
names are compared by their label sequences read from the most significant (rightmost)
label, each label an unsigned left-justified octet string with upper-case US-ASCII letters
treated as lower case; "absence of an octet sorts before a zero octet" is exactly the
lexicographic order on lists, which is core Lean's `compare` on `List (List Nat)`.
-/
import HickoryVerif.Model.Name

namespace HickoryVerif.Spec
open HickoryVerif

/-- The sort key of RFC 4034 §6.1. -/
def canonKey (n : Name) : List Bytes := n.labels.reverse.map Name.lowerLabel

/-- Canonical order of two (absolute) names. -/
def canonCompare (a b : Name) : Ordering := compare (canonKey a) (canonKey b)

/-- "equal up to ASCII case and nothing else" -/
def sameUpToCase (a b : Name) : Prop :=
  a.fqdn = b.fqdn ∧ a.labels.map Name.lowerLabel = b.labels.map Name.lowerLabel

end HickoryVerif.Spec
