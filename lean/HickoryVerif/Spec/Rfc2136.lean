/-
RFC 2136 (Dynamic Updates in the DNS) — the pseudocode of §3.2.5 (prerequisites), §3.4.1.3
(prescan) and §3.4.2.7 (update section) transcribed over the zone representation of
`Model/Zone.lean`, plus RFC 1982 serial comparison and the zone invariants of property C12.

The RFC speaks about RRs and RRsets, not about map entries: an RRset "exists" iff it has at least
one RR.  Hence everything here reads the zone through `rrsetOf` (the RRs at a key, `[]` if none)
and two zones are the same for the RFC when they agree on every `rrsetOf` (`Zone.Same`).

Where RFC 2136's prose and pseudocode differ the prose is followed and the difference is noted:
* §3.4.2.2 ignores an SOA whose serial is *lower than or equal to* the zone's (pseudocode: lower);
* §3.4.2.4 protects SOA and the last NS from class-NONE deletion *at the zone name* (pseudocode: at
  any name) — `protectAnyName` selects the reading; the code follows the pseudocode.
-/
import HickoryVerif.Model.Update

namespace HickoryVerif.Spec.Rfc2136
open HickoryVerif HickoryVerif.Upd

/-- the RRs of `<name, type>`; an absent RRset and an empty one are the same thing -/
def rrsetOf (z : Zone) (k : Key) : RSet := (z.get k).getD []

/-- two zones hold the same RRsets -/
def Zone.Same (z₁ z₂ : Zone) : Prop := ∀ k, rrsetOf z₁ k = rrsetOf z₂ k

/-- `zone_name<name>`: at least one RR is owned by `name` -/
def nameInUse (z : Zone) (name : Name) : Bool := z.any fun e => e.1.1 = name ∧ e.2 ≠ []

/-- RFC 1982 §3.2, SERIAL_BITS = 32: `a < b` -/
def serialLt (a b : Nat) : Bool :=
  decide (a ≠ b ∧ ((a < b ∧ b - a < 2147483648) ∨ (a > b ∧ a - b > 2147483648)))

/-! ### §3.2.5 prerequisites -/

def rdlengthZero (r : Rec) : Bool := r.rdata == .empty

/-- the per-RR part of the loop (`none`: no error from this RR) -/
def prereqOne (c : Cfg) (z : Zone) (r : Rec) : Option Rc :=
  let name := r.name.toLowercase
  if r.ttl ≠ 0 then some .formErr
  else if !(Name.zoneOf c.origin r.name) then some .notZone
  else if r.cls = C_ANY then
    if !rdlengthZero r then some .formErr
    else if r.rtype = T_ANY then (if !nameInUse z name then some .nxDomain else none)
    else (if rrsetOf z (name, r.rtype) = [] then some .nxRRSet else none)
  else if r.cls = C_NONE then
    if !rdlengthZero r then some .formErr
    else if r.rtype = T_ANY then (if nameInUse z name then some .yxDomain else none)
    else (if rrsetOf z (name, r.rtype) ≠ [] then some .yxRRSet else none)
  else if r.cls = c.zclass then none      -- temp<rr.name, rr.type> += rr
  else some .formErr

/-- `for rrset in temp: if (zone_rrset<rrset.name, rrset.type> != rrset) return NXRRSET`
(set equality on RDATA) -/
def tempMatches (c : Cfg) (z : Zone) (pre : List Rec) : Bool :=
  (pre.filter fun r => r.cls = c.zclass).all fun r =>
    let want := (pre.filter fun q => q.cls = c.zclass ∧ q.key = r.key)
    let have_ := rrsetOf z r.key
    want.all (fun q => have_.any fun x => x.dataEq q) && have_.all (fun x => want.any fun q => x.dataEq q)

def prereqLoop (c : Cfg) (z : Zone) : List Rec → Option Rc
  | [] => none
  | r :: rs => match prereqOne c z r with
    | some e => some e
    | none => prereqLoop c z rs

def prerequisites (c : Cfg) (z : Zone) (pre : List Rec) : Option Rc :=
  match prereqLoop c z pre with
  | some e => some e
  | none => if tempMatches c z pre then none else some .nxRRSet

/-! ### §3.4.1.3 prescan -/

/-- `rr.type & ANY|AXFR|MAILA|MAILB` (and IXFR, the other QUERY metatype) -/
def isMeta (t : Nat) : Bool := decide (251 ≤ t ∧ t ≤ 255)

def prescanOne (c : Cfg) (r : Rec) : Option Rc :=
  if !(Name.zoneOf c.origin r.name) then some .notZone
  else if r.cls = c.zclass then (if isMeta r.rtype then some .formErr else none)
  else if r.cls = C_ANY then
    (if r.ttl ≠ 0 ∨ !rdlengthZero r ∨ (isMeta r.rtype ∧ r.rtype ≠ T_ANY) then some .formErr else none)
  else if r.cls = C_NONE then
    (if r.ttl ≠ 0 ∨ isMeta r.rtype then some .formErr else none)
  else some .formErr

def prescan (c : Cfg) : List Rec → Option Rc
  | [] => none
  | r :: rs => match prescanOne c r with
    | some e => some e
    | none => prescan c rs

/-! ### §3.4.2.7 update section -/

/-- writing an RRset: one without RRs does not exist -/
def writeSet (z : Zone) (k : Key) (rs : RSet) : Zone := if rs = [] then z.erase k else z.set k rs

/-- `zone_rrset<rr.name, ~CNAME>`: some non-CNAME RR at the name -/
def otherDataAt (z : Zone) (name : Name) : Bool :=
  z.any fun e => e.1.1 = name ∧ e.1.2 ≠ T_CNAME ∧ e.2 ≠ []

def soaSerialOf (r : Rec) : Option Nat :=
  match r.rdata with
  | .soa s _ => some s
  | _ => none

/-- `for zrr in zone_rrset<rr.name, rr.type>: if (CNAME || SOA || rdata equal) zrr = rr; next`
then `zone_rrset += rr` -/
def addOrReplace (z : Zone) (rr : Rec) : Zone :=
  let rs := rrsetOf z rr.key
  if rr.rtype = T_CNAME ∨ rr.rtype = T_SOA then z.set rr.key [rr]
  else if rs.any (fun x => x.dataEq rr) then z.set rr.key (rs.map fun x => if x.dataEq rr then rr else x)
  else z.set rr.key (rs ++ [rr])

def stepRR (protectAnyName : Bool) (c : Cfg) (z : Zone) (rr : Rec) : Zone :=
  let name := rr.name.toLowercase
  if rr.cls = c.zclass then
    if rr.rtype = T_CNAME then
      if otherDataAt z name then z else addOrReplace z rr
    else if rrsetOf z (name, T_CNAME) ≠ [] then z
    else if rr.rtype = T_SOA then
      match rrsetOf z rr.key, soaSerialOf rr with
      | zrr :: _, some sn =>
        match soaSerialOf zrr with
        | some zs => if serialLt sn zs ∨ sn = zs then z else addOrReplace z rr
        | none => z
      | _, _ => z                       -- no zone SOA at that name: ignored
    else addOrReplace z rr
  else if rr.cls = C_ANY then
    if rr.rtype = T_ANY then
      if name = c.origin then z.filter fun e => e.1.1 ≠ name ∨ e.1.2 = T_SOA ∨ e.1.2 = T_NS
      else z.filter fun e => e.1.1 ≠ name
    else if name = c.origin ∧ (rr.rtype = T_SOA ∨ rr.rtype = T_NS) then z
    else z.erase rr.key
  else if rr.cls = C_NONE then
    let guarded := protectAnyName ∨ name = c.origin
    if rr.rtype = T_SOA ∧ guarded then z
    else
      let rs := rrsetOf z rr.key
      if rr.rtype = T_NS ∧ guarded ∧ rs.length = 1 ∧ rs.all (fun x => x.dataEq rr) then z
      else writeSet z rr.key (rs.filter fun x => !(x.dataEq rr))
  else z

def stepAll (p : Bool) (c : Cfg) : Zone → List Rec → Zone
  | z, [] => z
  | z, rr :: rest => stepAll p c (stepRR p c z rr) rest

/-! ### the zone invariants of property C12 -/

structure Inv (c : Cfg) (z : Zone) : Prop where
  /-- exactly one SOA: one at the apex … -/
  apexSoa : ∃ r s rest, rrsetOf z (c.origin, T_SOA) = [r] ∧ r.rdata = .soa s rest
  /-- … and none anywhere else -/
  noOtherSoa : ∀ name, name ≠ c.origin → rrsetOf z (name, T_SOA) = []
  /-- at least one NS at the apex -/
  apexNs : rrsetOf z (c.origin, T_NS) ≠ []
  /-- no name holds a CNAME together with other data, whatever its type
  (only NSEC/NSEC3 may accompany a CNAME, RFC 4034 §4 / RFC 5155) -/
  cnameAlone : ∀ name t, rrsetOf z (name, T_CNAME) ≠ [] → t ≠ T_CNAME → t ≠ T_NSEC → t ≠ T_NSEC3 →
    rrsetOf z (name, t) = []
  /-- `BTreeMap`: one entry per key -/
  nodup : (z.map (·.1)).Nodup

/-- "exactly one SOA" also means: none away from the apex -/
def OnlyApexSoa (c : Cfg) (z : Zone) : Prop := ∀ name, name ≠ c.origin → rrsetOf z (name, T_SOA) = []

end HickoryVerif.Spec.Rfc2136
