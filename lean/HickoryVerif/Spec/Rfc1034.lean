/-
RFC 1034 §4.3.2 (the standard authoritative algorithm), top-down, with the RFC 4592 wildcard
rules, over the zone representation of `Model/AuthZone.lean` (`Zone`, `RRset`, `LName` — data
only; none of the model's lookup functions is used here).

* step 2/3b  walk down from the apex; the first zone cut met (an owner of NS below the apex)
             gives a referral — except that the DS RRset of a cut is parent-side data
             (RFC 4035 §3.1.4.1);
* step 3a    the node exists (RFC 4592 §2.2.2: it or a descendant owns an RRset): a CNAME
             restarts the query at its target unless QTYPE is CNAME; otherwise the RRset of the
             queried type, or NODATA;
* step 3c    the node does not exist: the only possible source of synthesis is `*.<closest
             encloser>` (RFC 4592 §3.3.1); if that name exists the answer is synthesised from it
             (its CNAME, its RRset of the type, or NODATA); if not: name error;
* QTYPE=ANY  is answered with one RRset of the node (RFC 8482 §4.1), chosen by `anyType`;
* no DNAME.

A negative answer carries the apex SOA in the authority section, a referral the NS RRset of the
cut and no AA.  After a CNAME step a failing restart "just exits" (RFC 1034 step 3c: the name
error is only set for the original QNAME).  The authority section of a positive answer is not
prescribed (`authority = none`).  `depth` bounds the number of RRsets placed in the answer
section by CNAME chasing (a server may stop anywhere; the resolver restarts).
-/
import HickoryVerif.Model.AuthZone

namespace HickoryVerif.Spec.Rfc1034
open HickoryVerif HickoryVerif.AuthZone

/-- `anc` is `n` or an ancestor of `n` -/
def isAncestorOrSelf (anc n : LName) : Bool := anc.isSuffixOf n

/-- RFC 4592 §2.2.2: the name or one of its descendants owns an RRset -/
def nameExists (z : Zone) (n : LName) : Bool := z.any fun r => isAncestorOrSelf n r.name

def rrsetAt (z : Zone) (n : LName) (t : Nat) : Option RRset :=
  z.find? fun r => r.name == n && r.type == t

/-- `n`, its parent, …, the root -/
def suffixes : LName → List LName
  | [] => [[]]
  | l :: rest => (l :: rest) :: suffixes rest

/-- the names from just below the apex down to `n` (top-down), `n` included -/
def pathBelowApex (origin n : LName) : List LName :=
  ((suffixes n).filter fun s => isAncestorOrSelf origin s && s != origin).reverse

/-- the zone cuts on the way down to `n`, top-down: owners of NS below the apex; for a DS query
the cut at `n` itself does not count -/
def cuts (z : Zone) (origin n : LName) (qtype : Nat) : List LName :=
  (pathBelowApex origin n).filter fun s =>
    (rrsetAt z s T_NS).isSome && !(qtype == T_DS && s == n)

/-- closest encloser of a non-existent name: its longest existing proper ancestor -/
def closestEncloser (z : Zone) : LName → LName
  | [] => []
  | _ :: rest => if nameExists z rest then rest else closestEncloser z rest

/-- the node whose RRsets answer for `n`: `n` itself if it exists, else the wildcard at the
closest encloser if *that* exists -/
def sourceNode (z : Zone) (n : LName) : Option LName :=
  if nameExists z n then some n
  else
    let w := star :: closestEncloser z n
    if nameExists z w then some w else none

inductive Node where
  | referral (ns : RRset)
  | cname (rr : RRset) (target : LName)
  | data (rr : RRset)
  | noData
  | nxDomain
  deriving DecidableEq, Repr

/-- one pass of the algorithm for the (current) query name -/
def resolve (z : Zone) (origin n : LName) (qtype : Nat) : Node :=
  match cuts z origin n qtype with
  | c :: _ =>
    match rrsetAt z c T_NS with
    | some ns => .referral ns
    | none => .nxDomain
  | [] =>
    match sourceNode z n with
    | none => .nxDomain
    | some node =>
      match (if qtype == T_CNAME then none else rrsetAt z node T_CNAME) with
      | some c =>
        match c.rdatas.head?.bind (·.target) with
        | some t => .cname { c with name := n } t
        | none => .noData
      | none =>
        match rrsetAt z node qtype with
        | some rr => .data { rr with name := n }
        | none => .noData

inductive Final where
  | referral (ns : RRset)
  | data (rr : RRset)
  | noData
  | nxDomain
  /-- the chain left the zone, came back to a name already visited, or `depth` was reached -/
  | chainEnd
  deriving DecidableEq, Repr

/-- CNAME chasing inside the zone: the list of CNAME RRsets followed and how the last pass ended.
`fuel` = RRsets that may still be placed in the answer section. -/
def chase (z : Zone) (origin : LName) (qtype : Nat) : Nat → List LName → LName → List RRset × Final
  | 0, _, _ => ([], .chainEnd)
  | fuel + 1, seen, n =>
    match resolve z origin n qtype with
    | .referral ns => ([], .referral ns)
    | .data rr => ([], .data rr)
    | .noData => ([], .noData)
    | .nxDomain => ([], .nxDomain)
    | .cname rr t =>
      if !isAncestorOrSelf origin t || seen.contains t || fuel == 0 then ([rr], .chainEnd)
      else
        let (rest, fin) := chase z origin qtype fuel (t :: seen) t
        (rr :: rest, fin)

/-- RFC 8482 §4.1: the one RRset that stands in for ANY at `node` — CNAME, A, AAAA or MX if
present (lowest type code first), otherwise the RRset with the lowest type code; `A` when the
node owns nothing (the answer is then NODATA). -/
def anyType (z : Zone) (node : LName) : Nat :=
  let here := z.filter (·.name == node)
  match here.find? fun r => r.type == T_CNAME || r.type == T_A || r.type == T_AAAA || r.type == T_MX with
  | some r => r.type
  | none =>
    match here with
    | r :: _ => r.type
    | [] => T_A

/-- answer prescribed by the algorithm; `authority = none`: not prescribed -/
structure SpecAnswer where
  rcode : Rcode
  aa : Bool
  answers : List RRset
  authority : Option (List RRset)
  deriving DecidableEq, Repr

def answerSpec (depth : Nat) (z : Zone) (origin : LName) (q : Query) : SpecAnswer :=
  if !isAncestorOrSelf origin q.name then
    { rcode := .refused, aa := false, answers := [], authority := some [] }
  else
    let qtype := if q.type == T_ANY then anyType z ((sourceNode z q.name).getD q.name) else q.type
    let soa := (rrsetAt z origin T_SOA).toList
    match chase z origin qtype depth [q.name] q.name with
    | ([], .referral ns) => { rcode := .noError, aa := false, answers := [], authority := some [ns] }
    | ([], .noData) => { rcode := .noError, aa := true, answers := [], authority := some soa }
    | ([], .nxDomain) => { rcode := .nxDomain, aa := true, answers := [], authority := some soa }
    | (chain, .data rr) => { rcode := .noError, aa := true, answers := chain ++ [rr], authority := none }
    | (chain, .referral ns) => { rcode := .noError, aa := true, answers := chain, authority := some [ns] }
    | (chain, _) => { rcode := .noError, aa := true, answers := chain, authority := none }

/-- the implementation's answer `a` is the prescribed one (the AA bit is compared separately) -/
def conformsModAA (a : Answer) (s : SpecAnswer) : Bool :=
  a.rcode == s.rcode && a.answers == s.answers &&
  (match s.authority with
   | some l => a.authority == l
   | none => true)

def conforms (a : Answer) (s : SpecAnswer) : Bool := conformsModAA a s && a.aa == s.aa

end HickoryVerif.Spec.Rfc1034
