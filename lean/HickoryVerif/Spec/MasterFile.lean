/-
RFC 1035 §5.1 master-file syntax, written as a *printer* with explicit layout choices — from the
RFC text, not from the lexer:

  "The format of these files is a sequence of entries.  Entries are predominantly line-oriented,
   though parentheses can be used to continue a list of items across a line boundary, and text
   literals can contain CRLF within the text.  Any combination of tabs and spaces act as a
   delimiter between the separate items that make up an entry.  The end of any line in the Zone
   File can end with a comment.  The comment starts with a ';'."
  "<character-string> is expressed in one or two ways: as a contiguous set of characters without
   interior spaces, or as a string beginning with a " and ending with a ".  Inside a " delimited
   string any character can occur, except for a " itself, which must be quoted using \."
  "\X where X is any character other than a digit (0-9), is used to quote that character …"
  "( ) Parentheses are used to group data that crosses a line boundary."
  "; Semicolon is used to start a comment; the remainder of the line is ignored."
  entries:  <blank>[<comment>] | $ORIGIN <domain-name> [<comment>] | <domain-name><rr> [<comment>]
            | <blank><rr> [<comment>]      <rr> = [<TTL>] [<class>] <type> <RDATA> (either order)
  RFC 2308 §4: $TTL <TTL> [<comment>] sets the TTL of following records that state none.

A text is a list of characters (`Nat`).  `render` prints a file; `items` is what the file *says*
at the level of its items (the words, the strings with their quoting removed, the parenthesised
groups flattened) line by line; `denote` resolves owner / TTL / class inheritance.
-/
import HickoryVerif.Model.Name

namespace HickoryVerif.Spec.MasterFile
open HickoryVerif

abbrev Str := List Nat

/-! ### characters -/

/-- a delimiter between items: tab or space (also VT / FF, which the RFC does not mention and
Unicode counts as white space) -/
def isBlank (c : Nat) : Bool := c == 32 || c == 9 || c == 11 || c == 12
/-- white space including line ends (inside parentheses line ends are not recognised) -/
def isSpace (c : Nat) : Bool := isBlank c || c == 10 || c == 13
def isCtl (c : Nat) : Bool := c < 32 || c == 127
def isDig (c : Nat) : Bool := 48 ≤ c && c ≤ 57

/-- a character of a contiguous item: no space, no control, not `)` or `;` -/
def isWordChar (c : Nat) : Bool := !isSpace c && !isCtl c && c != 41 && c != 59

/-- a contiguous item must not begin with a character that has a meaning of its own there -/
def wordStartOK (c : Nat) : Bool := c != 64 && c != 40 && c != 36 && c != 34

/-! ### items -/

/-- one character inside a `"`-delimited string: as it is, or quoted with `\` -/
inductive QChar where
  | raw (c : Nat)
  | esc (c : Nat)
  deriving DecidableEq, Repr

def QChar.render : QChar → Str
  | .raw c => [c]
  | .esc c => [92, c]

/-- the character it stands for -/
def QChar.val : QChar → Nat
  | .raw c => c
  | .esc c => c

/-- `"` and `\` must be quoted; `\X` needs X not a digit (that would be `\DDD`) and, for this
printer, not a control character -/
def QChar.ok : QChar → Bool
  | .raw c => c != 34 && c != 92
  | .esc c => !isCtl c && !isDig c

inductive Item where
  /-- a contiguous set of characters without interior spaces -/
  | word (w : Str)
  /-- a string beginning with a `"` and ending with a `"` -/
  | quoted (qs : List QChar)
  deriving DecidableEq, Repr

def Item.render : Item → Str
  | .word w => w
  | .quoted qs => 34 :: (qs.flatMap QChar.render ++ [34])

/-- the string the item stands for -/
def Item.val : Item → Str
  | .word w => w
  | .quoted qs => qs.map QChar.val

def wordOK (w : Str) : Bool :=
  match w with
  | [] => false
  | c :: _ => wordStartOK c && w.all isWordChar

def Item.ok : Item → Bool
  | .word w => wordOK w
  | .quoted qs => qs.all QChar.ok

/-- a piece of the separation between two items inside parentheses -/
inductive PSeg where
  | ws (c : Nat)                 -- one white-space character, line ends included
  | comment (body : Str)         -- `;body` up to and including the line end
  deriving DecidableEq, Repr

def PSeg.render : PSeg → Str
  | .ws c => [c]
  | .comment body => 59 :: (body ++ [10])

def noLineEnd (s : Str) : Bool := s.all fun c => c != 10 && c != 13

def PSeg.ok : PSeg → Bool
  | .ws c => isSpace c
  | .comment body => noLineEnd body

abbrev PGap := List PSeg
def renderPGap (g : PGap) : Str := g.flatMap PSeg.render

/-- an item of an entry together with the blanks before it -/
inductive Piece where
  | item (ws : Str) (it : Item)
  /-- `(` items `)` : a group that may cross line boundaries; its items are contiguous or quoted
  like any others (inside a quoted item `;`, blanks, line ends and parentheses are data) -/
  | group (ws : Str) (els : List (PGap × Item)) (close : PGap)
  deriving DecidableEq, Repr

def Piece.render : Piece → Str
  | .item ws it => ws ++ it.render
  | .group ws els close =>
    ws ++ (40 :: ((els.flatMap fun (g, it) => renderPGap g ++ it.render) ++ (renderPGap close ++ [41])))

def blanksOK (ws : Str) : Bool := !ws.isEmpty && ws.all isBlank

def Piece.ok : Piece → Bool
  | .item ws it => blanksOK ws && it.ok
  | .group ws els close =>
    blanksOK ws && els.all (fun (g, it) => !g.isEmpty && g.all PSeg.ok && it.ok) && close.all PSeg.ok

/-- the strings a piece contributes to its entry -/
def Piece.vals : Piece → List Str
  | .item _ it => [it.val]
  | .group _ els _ => els.map fun p => p.2.val

/-! ### lines -/

/-- how a line begins -/
inductive Start where
  | none                 -- nothing: the line is empty or a comment
  | blank (b : Nat)      -- <blank>
  | at                   -- `@`
  | word (w : Str)       -- <domain-name>
  | origin               -- `$ORIGIN`
  | ttl                  -- `$TTL`
  deriving DecidableEq, Repr

def sORIGIN : Str := [36, 79, 82, 73, 71, 73, 78]   -- "$ORIGIN"
def sTTL : Str := [36, 84, 84, 76]                  -- "$TTL"

def Start.render : Start → Str
  | .none => []
  | .blank b => [b]
  | .at => [64]
  | .word w => w
  | .origin => sORIGIN
  | .ttl => sTTL

/-- the end of a line: blanks, an optional comment, CR*, LF -/
structure Eol where
  ws : Str
  comment : Option Str
  crs : Nat
  deriving DecidableEq, Repr

def Eol.render (e : Eol) : Str :=
  e.ws ++ ((match e.comment with | some b => 59 :: b | none => []) ++ (List.replicate e.crs 13 ++ [10]))

def Eol.ok (e : Eol) : Bool :=
  e.ws.all isBlank && (match e.comment with | some b => noLineEnd b | none => true)

structure Line where
  start : Start
  pieces : List Piece
  eol : Eol
  deriving DecidableEq, Repr

def Line.render (l : Line) : Str :=
  l.start.render ++ (l.pieces.flatMap Piece.render ++ l.eol.render)

def Start.ok : Start → Bool
  | .blank b => isBlank b
  | .word w => wordOK w
  | _ => true

def Line.ok (l : Line) : Bool :=
  l.start.ok && l.pieces.all Piece.ok && l.eol.ok &&
  (match l.start with
   | .none => l.pieces.isEmpty && l.eol.ws.isEmpty   -- a leading blank is a <blank>
   | _ => true)

abbrev File := List Line
def render (f : File) : Str := f.flatMap Line.render
def File.ok (f : File) : Bool := f.all Line.ok

/-- the item strings of a line -/
def Line.vals (l : Line) : List Str := l.pieces.flatMap Piece.vals

/-! ### what the entries denote (RFC 1035 §5.1, RFC 2308 §4) -/

/-- positional value of a decimal digit string -/
def decVal (ds : Str) : Nat := ds.foldl (fun acc d => acc * 10 + (d - 48)) 0

def isDecimal (s : Str) : Bool := !s.isEmpty && s.all isDig

/-- class mnemonics (upper case) -/
def classCode (s : Str) : Option Nat :=
  if s = [73, 78] then some 1 else if s = [67, 72] then some 3 else if s = [72, 83] then some 4 else none

def upper (s : Str) : Str := s.map fun c => if 97 ≤ c ∧ c ≤ 122 then c - 32 else c

def U32_MAX : Nat := 4294967295

/-- an item of the `[<TTL>] [<class>]` part -/
inductive PreMeaning where
  | ttl (v : Nat)
  | cls (c : Nat)
  deriving DecidableEq, Repr

/-- "TTL is a decimal integer", "Class and type use the standard mnemonics" -/
def preMeaning (s : Str) : Option PreMeaning :=
  if isDecimal s then (if decVal s ≤ U32_MAX then some (.ttl (decVal s)) else none)
  else (classCode (upper s)).map .cls

/-- type mnemonics (upper case) of the record types this check covers, with their type codes -/
def typeTable : List (Str × Nat) :=
  [ ([65], 1),
    ([78, 83], 2),
    ([67, 78, 65, 77, 69], 5),
    ([83, 79, 65], 6),
    ([80, 84, 82], 12),
    ([77, 88], 15),
    ([84, 88, 84], 16),
    ([65, 65, 65, 65], 28),
    ([83, 82, 86], 33),
    ([65, 78, 65, 77, 69], 65305),
    ([72, 73, 78, 70, 79], 13),
    ([67, 65, 65], 257),
    ([84, 76, 83, 65], 52),
    ([83, 77, 73, 77, 69, 65], 53),
    ([68, 83], 43),
    ([83, 83, 72, 70, 80], 44),
    ([67, 69, 82, 84], 37),
    ([79, 80, 69, 78, 80, 71, 80, 75, 69, 89], 61) ]
  -- A, NS, CNAME, SOA, PTR, MX, TXT, AAAA, SRV, ANAME, HINFO, CAA, TLSA, SMIMEA, DS, SSHFP, CERT, OPENPGPKEY

def typeCode (s : Str) : Option Nat := typeTable.lookup s

/-- the owner field of an `<rr>` entry; a stated `<domain-name>` comes with the name it denotes
(the relation between the two is a hypothesis of the theorems, see `nameUses`) -/
inductive OwnerSpec where
  | inherit (b : Nat)              -- <blank>: "owned by the last stated owner"
  | at                             -- `@`: the current origin
  | name (w : Str) (n : Name)
  deriving DecidableEq, Repr

structure RRLine where
  owner : OwnerSpec
  pre : List (Str × Str)           -- (blanks, item) of the `[<TTL>] [<class>]` part, in file order
  typ : Str × Str                  -- (blanks, type mnemonic)
  rdata : List Piece
  eol : Eol
  deriving DecidableEq, Repr

/-- the entry forms of §5.1 (+ `$TTL` of RFC 2308; `$INCLUDE` is outside this check) -/
inductive SLine where
  | filler (b : Option Nat) (eol : Eol)                 -- <blank>[<comment>]
  | origin (ws w : Str) (n : Name) (eol : Eol)          -- $ORIGIN <domain-name> [<comment>]
  | ttl (ws d : Str) (eol : Eol)                        -- $TTL <TTL> [<comment>]
  | rr (r : RRLine)                                     -- <domain-name><rr> | <blank><rr>
  deriving DecidableEq, Repr

def ownerStart : OwnerSpec → Start
  | .inherit b => .blank b
  | .at => .at
  | .name w _ => .word w

def wordPiece (p : Str × Str) : Piece := .item p.1 (.word p.2)

def SLine.line : SLine → Line
  | .filler none e => ⟨.none, [], e⟩
  | .filler (some b) e => ⟨.blank b, [], e⟩
  | .origin ws w _ e => ⟨.origin, [wordPiece (ws, w)], e⟩
  | .ttl ws d e => ⟨.ttl, [wordPiece (ws, d)], e⟩
  | .rr r => ⟨ownerStart r.owner, r.pre.map wordPiece ++ wordPiece r.typ :: r.rdata, r.eol⟩

/-- a resource record as an entry states it, inheritance resolved: owner, class, TTL, type code,
the origin in force (for relative names in the RDATA) and the RDATA items -/
structure Entry where
  owner : Name
  cls : Nat
  ttl : Nat
  typ : Nat
  origin : Option Name
  rdata : List Str
  deriving DecidableEq, Repr

/-- the reader's state between lines -/
structure RState where
  origin : Option Name
  owner : Option Name := none        -- "the last stated owner"
  dflt : Option Nat := none          -- `$TTL`
  lastTtl : Option Nat := none       -- "the last explicitly stated" TTL
  cls : Nat := 1                     -- "the last explicitly stated" class (a zone starts as IN)
  deriving DecidableEq, Repr

/-- the TTL an `<rr>` states itself: the last TTL item (there is at most one in RFC 1035) -/
def lastTtl? : List PreMeaning → Option Nat
  | [] => none
  | .ttl v :: ms => (lastTtl? ms).or (some v)
  | .cls _ :: ms => lastTtl? ms

/-- the class an `<rr>` states itself -/
def lastCls? : List PreMeaning → Option Nat
  | [] => none
  | .cls c :: ms => (lastCls? ms).or (some c)
  | .ttl _ :: ms => lastCls? ms

/-- reading one entry: the new state and the record it states, if any.
"If an entry for an RR begins with a blank, then the RR is assumed to be owned by the last stated
owner."  "Omitted class and TTL values are default to the last explicitly stated values."
RFC 2308 §4: records that state no TTL after a `$TTL` take the `$TTL` value. -/
def readLine (st : RState) : SLine → Option (RState × Option Entry)
  | .filler _ _ => some (st, none)
  | .origin _ _ n _ => some ({ st with origin := some n }, none)
  | .ttl _ d _ =>
    if isDecimal d ∧ decVal d ≤ U32_MAX then some ({ st with dflt := some (decVal d) }, none) else none
  | .rr r =>
    let owner? := match r.owner with
      | .inherit _ => st.owner
      | .at => st.origin
      | .name _ n => some n
    match owner?, r.pre.mapM (fun p => preMeaning p.2), typeCode (upper r.typ.2) with
    | some owner, some ms, some code =>
      let cls := (lastCls? ms).getD st.cls
      match (lastTtl? ms).or (st.dflt.or st.lastTtl) with
      | some ttl =>
        some ({ st with owner := some owner, lastTtl := (lastTtl? ms).or st.lastTtl, cls := cls },
              some { owner := owner, cls := cls, ttl := ttl, typ := code, origin := st.origin,
                     rdata := r.rdata.flatMap Piece.vals })
      | none => none
    | _, _, _ => none

/-- reading a file: the final state and the records it states, in file order -/
def readFile (st : RState) : List SLine → Option (RState × List Entry)
  | [] => some (st, [])
  | l :: ls =>
    match readLine st l with
    | none => none
    | some (st', e) =>
      match readFile st' ls with
      | none => none
      | some (st'', es) => some (st'', e.toList ++ es)

/-- every place where a name is written: (text, the name it is taken to denote, origin in force;
`none` for the argument of `$ORIGIN`, which is read without an origin) -/
def nameUses (st : RState) : List SLine → List (Str × Name × Option Name)
  | [] => []
  | l :: ls =>
    let here := match l with
      | .origin _ w n _ => [(w, n, none)]
      | .rr r => (match r.owner with | .name w n => [(w, n, st.origin)] | _ => [])
      | _ => []
    match readLine st l with
    | some (st', _) => here ++ nameUses st' ls
    | none => here

/-! ### the layouts hickory is known to mishandle — classes of the open known findings

What an RFC 1035 §5.1 reader sees in a text: comments (`;` to the end of the line) and quoted
strings with backslash escapes.  `scan` mirrors `scan` in `harness/src/props/c20.rs`.
(The classes `quote-inside-list` and `semicolon-inside-quoted-list-item` are gone with the repair
055beb6.) -/

structure Scan where
  /-- a quoted string (inside parentheses or not) contains `\\DDD` with DDD ≥ 10 -/
  decimalEscape : Bool := false
  deriving DecidableEq, Repr

inductive Mode where
  | normal | comment | quote
  deriving DecidableEq, Repr

/-- `skip` = characters still to be skipped after a backslash -/
def scanGo : Str → Mode → Nat → Scan → Scan
  | [], _, _, s => s
  | _ :: rest, mode, skip + 1, s => scanGo rest mode skip s
  | c :: rest, .normal, 0, s =>
    if c = 59 then scanGo rest .comment 0 s
    else if c = 34 then scanGo rest .quote 0 s
    else if c = 92 then scanGo rest .normal 1 s
    else scanGo rest .normal 0 s
  | c :: rest, .comment, 0, s =>
    if c = 10 then scanGo rest .normal 0 s else scanGo rest .comment 0 s
  | c :: rest, .quote, 0, s =>
    if c = 34 then scanGo rest .normal 0 s
    else if c = 92 then
      match rest with
      | d1 :: d2 :: d3 :: _ =>
        if isDig d1 ∧ isDig d2 ∧ isDig d3 then
          scanGo rest .quote 3 (if !(d1 = 48 ∧ d2 = 48) then { s with decimalEscape := true } else s)
        else scanGo rest .quote 1 s
      | _ => scanGo rest .quote 1 s
    else scanGo rest .quote 0 s

def scan (t : Str) : Scan := scanGo t .normal 0 {}

def isAlnum (c : Nat) : Bool := (48 ≤ c && c ≤ 57) || (65 ≤ c && c ≤ 90) || (97 ≤ c && c ≤ 122)

/-- can a label be produced by hickory's `Label::from_utf8` at all?  letters, digits, `-`, `.`,
not starting with `-`; or a `_`-led label of letters, digits, `-`, `_`, `.`; or `*` -/
def labelLoadable (l : List Nat) : Bool :=
  if l = [42] then true
  else if l.head? = some 95 then l.all fun c => isAlnum c || c = 45 || c = 95 || c = 46
  else l.head? != some 45 && l.all fun c => isAlnum c || c = 45 || c = 46

/-- class `name-label-not-ldh` -/
def nameNotLdh (n : Name) : Bool := n.labels.any fun l => !labelLoadable l

/-- class `escaped-semicolon-in-item` : a label contains `;`.  Written `\\;` in a contiguous item,
the escape is not honoured by hickory's lexer: the item ends there and the rest of the line is
taken as a comment (narrower than, and checked before, `name-label-not-ldh`) -/
def nameHasSemicolon (n : Name) : Bool := n.labels.any fun l => l.contains 59

end HickoryVerif.Spec.MasterFile
