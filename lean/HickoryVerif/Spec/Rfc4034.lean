/-
RFC 4035 §5.3.2 "Reconstructing the Signed Data", with the canonical forms of RFC 4034 §6
(as updated by RFC 6840 §5.1), written independently of the structure of `TBS::new`.

    signed_data = RRSIG_RDATA | RR(1) | RR(2)...
    RR(i) = name | type | class | OrigTTL | RDATA length | RDATA

* RRSIG_RDATA: the RRSIG RDATA fields without the Signature, Signer's Name in canonical form;
* `name`: the owner in canonical form (lower case), reduced to `*.` + the rightmost `Labels`
  labels when `Labels` is smaller than the owner's label count (a leading `*` not counted);
  if `Labels` is larger the RRSIG must not be used (`none`);
* the RRs are the **distinct** RRs of the RRset (RFC 4034 §6.3: duplicates removed) in canonical
  order: sorted by their canonical RDATA as left-justified unsigned octet strings, absence of an
  octet sorting before a zero octet — the lexicographic order, core `compare` on `List Nat`;
* canonical RDATA (RFC 4034 §6.2 (3)): names inside the RDATA of NS, CNAME, PTR, MX, SOA, SRV (and
  the other listed types) are uncompressed and lower-cased; all other RDATA is the wire RDATA.

The per-type RDATA layouts are RFC 1035 §3.3 / §3.4.1, RFC 3596, RFC 2782.
-/
import HickoryVerif.Model.Tbs

namespace HickoryVerif.Spec
open HickoryVerif HickoryVerif.Tbs

/-- RFC 4034 §6.2: canonical form of the RDATA of the structurally modelled types.
For `opaque` RDATA (types outside the modelled tier) the canonical octets are a datum of the
record (`none` = the RDATA has no wire form); TXT has no wire form if a string exceeds 255. -/
def canonicalRdata : RData → Option Bytes
  | .a o => some o
  | .aaaa o => some o
  | .ns n => some (Name.wire n.toLowercase)
  | .cname n => some (Name.wire n.toLowercase)
  | .ptr n => some (Name.wire n.toLowercase)
  | .mx p n => some (be16 p ++ Name.wire n.toLowercase)
  | .soa m r s rf rt e mi =>
    some (Name.wire m.toLowercase ++ Name.wire r.toLowercase ++ be32 s ++ be32 rf ++ be32 rt ++ be32 e
      ++ be32 mi)
  | .srv p w po t => some (be16 p ++ be16 w ++ be16 po ++ Name.wire t.toLowercase)
  | .txt ss =>
    if ss.all (fun s => s.length ≤ 255) then some (ss.map fun s => s.length :: s).flatten else none
  | .opaque _ c => c

/-- insertion into a strictly increasing list of octet strings; an equal string is not repeated -/
def insertCanon (x : Bytes) : List Bytes → List Bytes
  | [] => [x]
  | y :: ys =>
    match compare x y with
    | .lt => x :: y :: ys
    | .eq => y :: ys
    | .gt => y :: insertCanon x ys

/-- RFC 4034 §6.3: the distinct octet strings in canonical (lexicographic) order -/
def sortDistinct (l : List Bytes) : List Bytes := l.foldr insertCanon []

/-- label count of the owner as the RRSIG Labels field counts it: a leading `*` is not counted -/
def ownerLabelCount (owner : Name) : Nat :=
  match owner.labels with
  | l :: rest => if l = [42] then rest.length else rest.length + 1
  | [] => 0

/-- RFC 4035 §5.3.2 "To calculate the name" (wire form of the result) -/
def signedOwner (owner : Name) (labels : Nat) : Option Bytes :=
  let fqdn := owner.labels.map Name.lowerLabel
  if labels = ownerLabelCount owner then some (Name.wire ⟨fqdn, true⟩)
  else if labels < ownerLabelCount owner then
    some (Name.wire ⟨[42] :: fqdn.drop (fqdn.length - labels), true⟩)
  else none

/-- RRSIG RDATA with the Signature field excluded, Signer's Name in canonical form -/
def rrsigRdataPrefix (i : SigInput) : Bytes :=
  be16 i.typeCovered ++ [i.algorithm, i.numLabels] ++ be32 i.originalTtl ++ be32 i.expiration
    ++ be32 i.inception ++ be16 i.keyTag ++ Name.wire i.signer.toLowercase

/-- `RR(i) = name | type | class | OrigTTL | RDATA length | RDATA` -/
def canonicalRR (ownerWire : Bytes) (type cls origTtl : Nat) (rdata : Bytes) : Bytes :=
  ownerWire ++ be16 type ++ be16 cls ++ be32 origTtl ++ be16 rdata.length ++ rdata

/-- all RDATA of the RRset in canonical form (`none` if one of them has no wire form) -/
def canonicalRdatas : List RData → Option (List Bytes)
  | [] => some []
  | d :: ds =>
    match canonicalRdata d, canonicalRdatas ds with
    | some b, some bs => some (b :: bs)
    | _, _ => none

/-- The signed data of the RRset `(owner, cls, i.typeCovered, rdatas)` under the RRSIG fields `i`. -/
def signedData (i : SigInput) (owner : Name) (cls : Nat) (rdatas : List RData) : Option Bytes :=
  match signedOwner owner i.numLabels, canonicalRdatas rdatas with
  | some ownerWire, some rds =>
    some (rrsigRdataPrefix i ++
      ((sortDistinct rds).map (canonicalRR ownerWire i.typeCovered cls i.originalTtl)).flatten)
  | _, _ => none

end HickoryVerif.Spec
