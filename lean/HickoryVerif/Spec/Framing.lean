/-
Specification vocabulary of C17 (RFC 1035 §4.2.2 / RFC 7766 §8 framing), independent of the code:
a message travels as a two-byte big-endian length followed by the message; a stream of messages is
the concatenation of their frames; how a byte stream can end and how a consumer's view can end.
-/
import HickoryVerif.Basic

namespace HickoryVerif.C17
open HickoryVerif

/-- a message on the wire: two-byte big-endian length, then the message -/
def frame (m : Bytes) : Bytes := [m.length / 256, m.length % 256] ++ m

def frames : List Bytes → Bytes
  | [] => []
  | m :: ms => frame m ++ frames ms

/-- a message that can be framed: non-empty and at most 65535 bytes -/
def Framable (m : Bytes) : Prop := m ≠ [] ∧ m.length < 65536

/-- how the peer's byte stream ends -/
inductive Ending where
  /-- the peer closed -/
  | eof
  /-- the socket failed -/
  | err
  /-- nothing more arrives, the connection stays open -/
  | open
  deriving Repr, DecidableEq

/-- how the consumer's view of the stream ends -/
inductive Terminal where
  /-- `Ready(None)` -/
  | clean
  /-- `Ready(Some(Err))` -/
  | error
  /-- `Pending` for ever -/
  | blocked
  deriving Repr, DecidableEq

end HickoryVerif.C17
