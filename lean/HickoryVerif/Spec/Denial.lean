/-
Authenticated denial of existence with NSEC, stated independently of the validator's code
(RFC 4034 §4 and §6.1, RFC 4035 §5.4, RFC 4592 §2.2 and §3.3, RFC 6840 §4.1, RFC 8020).

A *zone view* `Z` says which names own which RR types in the name space at and below an apex.
A name *exists* if it or a descendant owns data (empty non-terminals exist).  A set of NSEC
records constrains the zone views it can have come from (`ConsistentWith`); a negative or
wildcard-expanded response makes a `Claim` about the zone.  The validator is sound when
`Secure` is returned only if every zone view consistent with the records satisfies the claim.

Names are identified by their RFC 4034 §6.1 sort key `canonKey` (labels from the most
significant one, lower-cased); "ancestor-or-self" is "is a prefix of" on keys, the canonical
order is the lexicographic order of core Lean on `List (List Nat)`.
-/
import HickoryVerif.Model.Nsec
import HickoryVerif.Spec.CanonicalOrder

namespace HickoryVerif.Spec
open HickoryVerif

abbrev Key := List Bytes

/-- the wildcard label `*` -/
def STAR : Bytes := [42]

structure ZoneView where
  /-- key of the zone apex -/
  apex : Key
  /-- `data k t` : the name with key `k` owns an RRset of type `t` -/
  data : Key → Nat → Prop

namespace ZoneView

def hasData (Z : ZoneView) (k : Key) : Prop := ∃ t, Z.data k t

/-- the name exists: it or a descendant owns data (RFC 4592 §2.2.2: empty non-terminals exist) -/
def Exists (Z : ZoneView) (k : Key) : Prop := ∃ m, Z.hasData m ∧ k <+: m

/-- `c` is the closest encloser of `k`: the longest proper ancestor of `k` that exists
(RFC 4592 §3.3.1) -/
def ClosestEncloser (Z : ZoneView) (c k : Key) : Prop :=
  c <+: k ∧ c ≠ k ∧ Z.Exists c ∧
    ∀ c', c' <+: k → c' ≠ k → Z.Exists c' → c'.length ≤ c.length

end ZoneView

/-- RFC 6840 §4.1: an "ancestor delegation" NSEC has the NS bit set and the SOA bit clear.  It
comes from the parent side of a zone cut and MUST NOT be used to assume non-existence of any
RRs below that cut: all RRs at the owner name other than DS, and all RRs below the owner. -/
def IsAncestorDelegation (types : List Nat) : Prop := 2 ∈ types ∧ 6 ∉ types

instance (types : List Nat) : Decidable (IsAncestorDelegation types) := by
  unfold IsAncestorDelegation; exact inferInstance

/-- The record `r = (o, next, T)` is a link of the canonical NSEC chain of `Z` (RFC 4034 §4):

* `o` and `next` are names of the zone, `o` owns data, among it the NSEC and its RRSIG
  (whatever the bitmap says about those two: RFC 4035 §5.4);
* the bitmap lists exactly the types at `o` — except that an ancestor-delegation record
  speaks only about DS (and shows the delegation's NS; a name that owns NS does not own a CNAME,
  RFC 1034 §3.6.2 / RFC 2181 §10.1, on either side of the cut);
* no name owning data lies strictly between `o` and `next` in canonical order; the last link
  points back to the apex and has nothing of the zone after `o` — except that an
  ancestor-delegation record says nothing about the names below its owner. -/
def LinkOf (Z : ZoneView) (r : Nsec) : Prop :=
  let o := canonKey r.owner
  let n := canonKey r.next
  let exempt (m : Key) : Prop := IsAncestorDelegation r.types ∧ o <+: m
  Z.apex <+: o ∧ Z.apex <+: n ∧ Z.data o 47 ∧ Z.data o 46 ∧
  (if IsAncestorDelegation r.types then Z.data o 2 ∧ (43 ∈ r.types ↔ Z.data o 43) ∧ ¬ Z.data o 5
   else ∀ t, t ≠ 46 → t ≠ 47 → (t ∈ r.types ↔ Z.data o t)) ∧
  (if n = Z.apex then ∀ m, Z.hasData m → Z.apex <+: m → o < m → exempt m
   else o < n ∧ Z.hasData n ∧ ∀ m, Z.hasData m → o < m → m < n → exempt m)

/-- every given NSEC record is a link of `Z`'s chain -/
def ConsistentWith (nsecs : List Nsec) (Z : ZoneView) : Prop := ∀ r ∈ nsecs, LinkOf Z r

/-- RFC 4034 §3.1.3 label count of a key: a leading `*` label is not counted. -/
def rfcLabels (k : Key) : Nat := if k.getLast? = some STAR then k.length - 1 else k.length

/-- What the response asserts about the zone.

* NXDOMAIN: the name does not exist — not even as an empty non-terminal (RFC 8020) — and the
  wildcard at its closest encloser does not exist either (no wildcard could match);
* NODATA (NOERROR, no answers): the type is absent at the name and so is CNAME (RFC 6840 §4.3: a
  CNAME at the name would have been the answer), and if the name does not exist the same holds
  at the wildcard at its closest encloser;
* wildcard-expanded answer (NOERROR with answers): for every authenticated RRSIG at the query
  name whose Labels field `l` is smaller than the name's label count (RFC 4035 §5.3.4), neither
  the name nor any ancestor of it with more than `l` labels exists (no closer match than the
  expanded wildcard). -/
def Claim (q : Name) (qtype rcode : Nat) (answers : List Ans) (Z : ZoneView) : Prop :=
  let k := canonKey q
  if rcode = 3 then
    ¬ Z.Exists k ∧ ∀ c, Z.ClosestEncloser c k → ¬ Z.Exists (c ++ [STAR])
  else if rcode = 0 ∧ answers = [] then
    (¬ Z.data k qtype ∧ ¬ Z.data k 5) ∧
    (¬ Z.Exists k → ∀ c, Z.ClosestEncloser c k →
      ¬ Z.data (c ++ [STAR]) qtype ∧ ¬ Z.data (c ++ [STAR]) 5)
  else if rcode = 0 then
    ∀ a ∈ answers, a.secure = true → ∀ l, a.rrsigLabels = some l → canonKey a.name = k →
      l < rfcLabels k → ∀ p, p <+: k → l < p.length → ¬ Z.Exists p
  else False

end HickoryVerif.Spec
