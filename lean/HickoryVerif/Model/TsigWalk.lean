/-
Minimal message walker used by the TSIG model (C13).  It mirrors, over raw bytes, exactly the
part of the decoder that `signed_bitmessage_to_buf` / `MessageRequest::read` depend on to find
"the start of the TSIG RR":

* `Header::read`                      (crates/proto/src/op/header.rs)
* `Query::read`                       (name, type, class)
* the *frame* of `Record::read`       (owner name, TYPE, CLASS, TTL, RDLENGTH ≤ remaining, the
                                       OPT-owner-must-be-root rule, `Update0` on RDLENGTH 0)
* `TSIG::read_data`                   (crates/proto/src/rr/rdata/tsig.rs) — modelled in full
* `Message::read_records`             (Update0 gate, RecordAfterSig, OPT/SIG/TSIG only in the
                                       additional section, DuplicateEdns, the `sig` result)

The per-type RDATA decoders of the *other* record types are NOT modelled here (the full message
decoder model belongs to C01).  Their only influence on the TSIG code is "some `Record::read`
failed ⇒ `Err`"; that single bit enters the model as the parameter `rdok` (computed by the
harness with the real decoder: `false` iff some non-TSIG record whose frame is readable is
rejected by the real `Record::read`).
-/
import HickoryVerif.Model.NameWire

set_option linter.unusedVariables false

namespace HickoryVerif
namespace Tsig

/-! ### big-endian integers -/

def rd16 (buf : Bytes) (i : Nat) : Option Nat :=
  match buf[i]?, buf[i + 1]? with
  | some a, some b => some (a * 256 + b)
  | _, _ => none

def rd32 (buf : Bytes) (i : Nat) : Option Nat :=
  match rd16 buf i, rd16 buf (i + 2) with
  | some a, some b => some (a * 65536 + b)
  | _, _ => none

/-- `u16::emit` (the value is reduced like an `as u16` cast) -/
def be16 (n : Nat) : Bytes := [n / 256 % 256, n % 256]
/-- `u32::emit` -/
def be32 (n : Nat) : Bytes := [n / 16777216 % 256, n / 65536 % 256, n / 256 % 256, n % 256]
/-- the 48-bit TSIG time as the code writes it: `(time >> 32) as u16`, then `time as u32` -/
def be48 (t : Nat) : Bytes := be16 (t / 4294967296) ++ be32 (t % 4294967296)

/-! ### header -/

/-- The 12 header octets as `Header::read` sees them: id, the two flag octets, four counts. -/
structure Hdr where
  id : Nat
  b2 : Nat
  b3 : Nat
  qd : Nat
  an : Nat
  ns : Nat
  ar : Nat
  deriving Repr, DecidableEq, Inhabited

def readHdr (buf : Bytes) : Option Hdr :=
  match rd16 buf 0, buf[2]?, buf[3]?, rd16 buf 4, rd16 buf 6, rd16 buf 8, rd16 buf 10 with
  | some id, some b2, some b3, some qd, some an, some ns, some ar =>
    some { id, b2, b3, qd, an, ns, ar }
  | _, _, _, _, _, _, _ => none

/-- The 12 header octets that enter the TSIG digest (repaired code, /repo 84e713d): the header
*as received* — octets 2..9 (both flag octets incl. the Z bit, QDCOUNT, ANCOUNT, NSCOUNT)
verbatim — with the id replaced by `oid` and ARCOUNT by `ar`:
`header.copy_from_slice(&message[..12]); header[..2] = oid; header[10..] = additionals`. -/
def hdrDigest (buf : Bytes) (oid ar : Nat) : Bytes :=
  be16 oid ++ (buf.drop 2).take 8 ++ be16 ar

def Hdr.isResponse (h : Hdr) : Bool := h.b2 / 128 % 2 == 1
def Hdr.opcode (h : Hdr) : Nat := h.b2 / 8 % 16

/-! ### question -/

/-- `Query::read` at `pos`: name, type, class; returns the position after it. -/
def readQuery (buf : Bytes) (pos : Nat) : Outcome (Name × Nat × Nat × Nat) :=
  match Name.readName buf pos with
  | .ok (n, p) =>
    match rd16 buf p, rd16 buf (p + 2) with
    | some t, some c => .ok (n, t, c, p + 4)
    | _, _ => .err
  | .err => .err
  | .panic s => .panic s

/-- the `for _ in 0..count { Query::read }` loop -/
def skipQueries (buf : Bytes) : Nat → Nat → Outcome Nat
  | 0, pos => .ok pos
  | k + 1, pos =>
    match readQuery buf pos with
    | .ok (_, _, _, p) => skipQueries buf k p
    | .err => .err
    | .panic s => .panic s

/-! ### record frame -/

structure Frame where
  name : Name
  rtype : Nat
  rclass : Nat
  ttl : Nat
  rdStart : Nat
  rdLen : Nat
  deriving Repr, DecidableEq, Inhabited

def Frame.rdEnd (f : Frame) : Nat := f.rdStart + f.rdLen

/-- The frame of `Record::read` at `pos`. -/
def readFrame (buf : Bytes) (pos : Nat) : Outcome Frame :=
  match Name.readName buf pos with
  | .ok (n, p) =>
    match rd16 buf p, rd16 buf (p + 2), rd32 buf (p + 4), rd16 buf (p + 8) with
    | some t, some c, some ttl, some rdl =>
      if t = 41 ∧ n.isRoot = false then .err          -- EdnsNameNotRoot
      else if p + 10 + rdl > buf.length then .err      -- RDLENGTH > decoder.len()
      else .ok { name := n, rtype := t, rclass := c, ttl := ttl, rdStart := p + 10, rdLen := rdl }
    | _, _, _, _ => .err
  | .err => .err
  | .panic s => .panic s

/-! ### TSIG RDATA (`TSIG::read_data`) -/

structure TsigData where
  /-- the algorithm name as decoded (`set_fqdn(false)`); `TsigAlgorithm::from_name` is `algOf` -/
  algName : Name
  time : Nat
  fudge : Nat
  mac : Bytes
  oid : Nat
  error : Nat
  other : Bytes
  deriving Repr, DecidableEq, Inhabited

/-- `TSIG::read_data` on the sub-decoder produced by `split_off(rd_length)`: the buffer is cut at
the end of the RDATA (so nothing can be read past it), compression pointers still see the whole
message before it. -/
def readTsigData (buf : Bytes) (rdStart rdLen : Nat) : Outcome TsigData :=
  let e := rdStart + rdLen
  let b := buf.take e
  match Name.readName b rdStart with
  | .ok (an, p) =>
    match rd16 b p, rd32 b (p + 2), rd16 b (p + 6), rd16 b (p + 8) with
    | some th, some tl, some fudge, some macSize =>
      if p + 10 + macSize + 6 > e then .err else
      match rd16 b (p + 10 + macSize), rd16 b (p + 12 + macSize), rd16 b (p + 14 + macSize) with
      | some oid, some err, some olen =>
        if p + 16 + macSize + olen ≠ e then .err else
        .ok { algName := { an with fqdn := false }
              time := th * 4294967296 + tl
              fudge := fudge
              mac := (b.drop (p + 10)).take macSize
              oid := oid
              error := err
              other := (b.drop (p + 16 + macSize)).take olen }
      | _, _, _ => .err
    | _, _, _, _ => .err
  | .err => .err
  | .panic s => .panic s

/-- a TSIG record found by `read_records` -/
structure SigRec where
  /-- offset of the first octet of the TSIG RR (its owner name) -/
  start : Nat
  /-- offset just after the TSIG RR -/
  stop : Nat
  name : Name
  rclass : Nat
  ttl : Nat
  data : TsigData
  deriving Repr, DecidableEq, Inhabited

/-! ### `Message::read_records` -/

/-- The RDATA of a record as far as this model decodes it: only TSIG (`RData::TSIG`);
RDLENGTH 0 is `RData::Update0(type)`, everything else is covered by `rdok`. -/
def tsigOf (buf : Bytes) (f : Frame) : Outcome (Option TsigData) :=
  if f.rtype = 250 ∧ f.rdLen ≠ 0 then
    match readTsigData buf f.rdStart f.rdLen with
    | .ok d => .ok (some d)
    | .err => .err
    | .panic s => .panic s
  else .ok none

/-- The body of the `for` loop of `read_records` after `Record::read` succeeded: `none` is an
`Err`, otherwise the new loop state (`sig`, `edns` = EDNS version of the OPT seen so far). -/
def recStep (isAdd opUpd : Bool) (pos : Nat) (f : Frame) (td : Option TsigData)
    (sig : Option SigRec) (edns : Option Nat) : Option (Option SigRec × Option Nat) :=
  if opUpd = false ∧ f.rtype ≠ 41 ∧ f.rdLen = 0 then none              -- InvalidEmptyRecord
  else if sig.isSome then none                                          -- RecordAfterSig
  else if isAdd = false ∧ (f.rtype = 41 ∨ f.rtype = 24 ∨ f.rtype = 250) then none
  else if isAdd = false then some (sig, edns)
  else
    match td with
    | some d =>
      some (some { start := pos, stop := f.rdEnd, name := f.name, rclass := f.rclass,
                   ttl := f.ttl, data := d }, edns)
    | none =>
      if f.rtype = 41 then
        if edns.isSome then none                                        -- DuplicateEdns
        else some (sig, some (f.ttl / 65536 % 256))
      else some (sig, edns)

/-- `Message::read_records(decoder, count, is_additional, op)` started at `pos`, threading the
loop state.  Returns the position after the last record read. -/
def readRecords (buf : Bytes) (isAdd opUpd : Bool) :
    Nat → Nat → Option SigRec → Option Nat → Outcome (Nat × Option SigRec × Option Nat)
  | 0, pos, sig, edns => .ok (pos, sig, edns)
  | k + 1, pos, sig, edns =>
    match readFrame buf pos with
    | .ok f =>
      match tsigOf buf f with
      | .ok td =>
        match recStep isAdd opUpd pos f td sig edns with
        | some (sig', edns') => readRecords buf isAdd opUpd k f.rdEnd sig' edns'
        | none => .err
      | .err => .err
      | .panic s => .panic s
    | .err => .err
    | .panic s => .panic s

end Tsig
end HickoryVerif
