/-
Model of `hickory_net::dnssec::nsec3::verify_nsec3` (crates/net/src/dnssec/nsec3.rs) — the
validator's NSEC3 denial-of-existence check — statement by statement.

Parameters of the model (never modelled, DESIGN §4.3):
* `H : Name → Bytes`  — `Nsec3HashAlgorithm::hash(salt, name, iterations)` for the salt/iterations of
  the first record (the code hashes every name with exactly those).  No assumption on `H`.
* `enc : Bytes → Bytes` — `data_encoding::BASE32_DNSSEC.encode` (base32hex, lower case, no padding).
  The driver instantiates it with the concrete encoder `base32hex` below; the theorems quantify over
  every `enc` that is an order embedding (`EncOrd`, proved for `base32hex` in `Proofs/C09Base32.lean`).

What the Rust compares (and the model keeps apart): NSEC3 *owner* hashes only exist as the first label
of the owner name (base32hex **text**, compared as `Label`s, i.e. case-insensitively, shorter-is-less),
the *next* hash exists as raw bytes (`next_hashed_owner_name`, compared as `&[u8]`) and as a label
computed from it (`next_hashed_owner_name_base32`).  `find_covering_record` mixes the two.

Domain restrictions (documented, enforced by the harness generator): all names fully qualified, the
SOA name not the root, `nsec3s` non-empty (checked by the caller; the Rust `debug_assert!`s it), hashes
of 1..39 octets so that `Label::from_ascii(base32(hash)).unwrap()` in `hash_and_label` cannot fail
(SHA-1: 20).  `hash_algorithm` has a single variant (SHA1), so its equality test is vacuous and omitted.
-/
import HickoryVerif.Model.Name

namespace HickoryVerif.Nsec3
open HickoryVerif

/-- `hickory_proto::dnssec::Proof` (the three values `verify_nsec3` can return) -/
inductive Proof where
  | secure | insecure | bogus
  deriving DecidableEq, Repr, Inhabited

/-- one `(&Name, &NSEC3)` element of `nsec3s` -/
structure Rec where
  owner : Name
  next : Bytes
  optOut : Bool
  iterations : Nat
  salt : Bytes
  types : List Nat
  deriving DecidableEq, Repr, Inhabited

/-- `Nsec3RecordPair` : first label of the owner + the record data -/
structure Pair where
  label : Bytes
  data : Rec
  deriving DecidableEq, Repr, Inhabited

/-- `HashedNameInfo` -/
structure Info where
  name : Name
  hash : Bytes
  label : Bytes
  deriving DecidableEq, Repr, Inhabited

/-! record type codes (tied to the generated table in `Proofs/TiesC09.lean`) -/
def tNS : Nat := 2
def tCNAME : Nat := 5
def tSOA : Nat := 6
def tDNAME : Nat := 39
def tDS : Nat := 43
/-- `ResponseCode::NoError`, `ResponseCode::NXDomain` -/
def rcNoError : Nat := 0
def rcNXDomain : Nat := 3

/-! ### label / byte-string comparisons -/

/-- `impl PartialEq for Label` (case-insensitive) -/
def labelEq (a b : Bytes) : Bool := Name.cmpLabel true a b == .eq
/-- `impl Ord for Label` : `a < b` -/
def labelLt (a b : Bytes) : Bool := Name.cmpLabel true a b == .lt
/-- `a > b` on labels -/
def labelGt (a b : Bytes) : Bool := Name.cmpLabel true a b == .gt
/-- `<[u8] as Ord>` : `a < b` (lexicographic, then length) -/
def bytesLt (a b : Bytes) : Bool := Name.cmpLabel false a b == .lt
def bytesGt (a b : Bytes) : Bool := Name.cmpLabel false a b == .gt

/-! ### base32hex (`BASE32_DNSSEC`), used by the driver -/

def b32Char (v : Nat) : Nat := if v < 10 then 48 + v else 87 + v

/-- the 8 bits of an octet, most significant first -/
def byteBits (b : Nat) : List Nat :=
  [b / 128 % 2, b / 64 % 2, b / 32 % 2, b / 16 % 2, b / 8 % 2, b / 4 % 2, b / 2 % 2, b % 2]

def bitsVal (bs : List Nat) : Nat := bs.foldl (fun a b => 2 * a + b) 0

/-- groups of five bits, the last one padded with zero bits -/
def groups5 : List Nat → List (List Nat)
  | a :: b :: c :: d :: e :: rest => [a, b, c, d, e] :: groups5 rest
  | [] => []
  | l => [(l ++ [0, 0, 0, 0]).take 5]

def base32hex (b : Bytes) : Bytes :=
  (groups5 (b.flatMap byteBits)).map fun g => b32Char (bitsVal g)

/-! ### the validator -/

/-- `Name::base_name` on a name with ≥ 1 label (`trim_to(len-1)` → `from_labels(..)` : always fqdn);
a name without labels is returned unchanged. -/
def parent (n : Name) : Name :=
  match n.labels with
  | [] => n
  | _ :: rest => { labels := rest, fqdn := true }

/-- `soa.is_some_and(|soa| &base != soa)` negated: no SOA name, or the owner's base name is it -/
def underSoa (soa : Option Name) (owner : Name) : Bool :=
  match soa with
  | some s => Name.eq (parent owner) s
  | none => true

/-- `Some(&n) == soa` -/
def eqSoa (soa : Option Name) (n : Name) : Bool :=
  match soa with
  | some s => Name.eq n s
  | none => false

/-- the loop at the top of `verify_nsec3`: `split_first_label`, base == SOA, `Label::from_raw_bytes`.
`none` is any of the three `return Bogus`. -/
def mkPairs (soa : Option Name) : List Rec → Option (List Pair)
  | [] => some []
  | r :: rs =>
    match r.owner.labels with
    | [] => none
    | l :: _ =>
      if !underSoa soa r.owner then none
      else if !(Name.labelFromRaw l).isOk then none
      else (mkPairs soa rs).map fun ps => { label := l, data := r } :: ps

/-- One switch per repair of `repo-patches/C09-*.diff`.
* `pinned` (all off) is the code at the pinned snapshot 0f3cca1;
* `current` is **the code as it is now**: /repo e7e2ac8 (`apex`), cd83193 (`wild`), 6960cfe (`deleg`)
  are applied, the wrap-around comparison and the Opt-Out handling are unchanged (open findings);
  the driver runs `current` and every theorem "about the code" is about `current`;
* `allFixed` is the target: all five repairs.
The two open finding classes are defined by "the repair that turns this `Secure` of `current` into
something else" (`classOf` below). -/
structure Fixes where
  /-- remove the `(None, None, None) if query.name == soa ⇒ Secure` arm -/
  apex : Bool := false
  /-- wrap-around arm of `find_covering_record`: `owner < target || target < next` -/
  wrap : Bool := false
  /-- opt-out on the record covering the next closer name ⇒ `Insecure` (RFC 5155 §9.2) -/
  optout : Bool := false
  /-- RFC 5155 §8.3 / RFC 6840 §4.1: no NS-without-SOA / DNAME on the closest encloser's record, no
  NS-without-SOA on a record matching QNAME for QTYPE ≠ DS -/
  deleg : Bool := false
  /-- answer RRSIG labels < QNAME labels (wildcard expansion): only the §8.8 check applies -/
  wild : Bool := false
  deriving DecidableEq, Repr, Inhabited

def pinned : Fixes := {}
def current : Fixes := { apex := true, deleg := true, wild := true }
def allFixed : Fixes := { apex := true, wrap := true, optout := true, deleg := true, wild := true }

/-- NS without SOA (a delegation as seen from the parent side) -/
def isDelegNS (r : Rec) : Bool := r.types.contains tNS && !r.types.contains tSOA
/-- a record of an ancestor delegation / DNAME (RFC 5155 §8.3, RFC 6840 §4.1) -/
def isDelegationRec (r : Rec) : Bool := isDelegNS r || r.types.contains tDNAME

section
variable (fx : Fixes) (H : Name → Bytes) (enc : Bytes → Bytes)

/-- `HashedNameInfo::new` / `Context::hash_and_label` -/
def info (n : Name) : Info := { name := n, hash := H n, label := enc (H n) }

/-- `NSEC3::next_hashed_owner_name_base32` = `Label::from_ascii(base32(next)).ok()` -/
def nextLabel (r : Rec) : Option Bytes :=
  let l := enc r.next
  if l.isEmpty || l.length > 63 then none else some l

/-- `nsec3s.iter().find(|r| r.base32_hashed_name == label)` -/
def findMatching (pairs : List Pair) (label : Bytes) : Option Pair :=
  pairs.find? fun r => labelEq r.label label

/-- the closure of `find_covering_record` — code as is, including the wrap-around arm -/
def covers (r : Pair) (th tl : Bytes) : Bool :=
  match nextLabel enc r.data with
  | none => false
  | some nl =>
    if labelEq r.label tl then false
    else if labelLt r.label nl then labelLt r.label tl && bytesLt th r.data.next
    else if fx.wrap then labelLt r.label tl || bytesLt th r.data.next
    else labelGt r.label tl || bytesGt th r.data.next

/-- `find_covering_record` -/
def findCovering (pairs : List Pair) (th tl : Bytes) : Option Pair :=
  pairs.find? fun r => covers fx enc r th tl

/-- `EncloserCandidates::next` iterated, from the fully qualified name with labels `ls` (every
`base_name()` result is fully qualified): the name, its parent, … up to and including the SOA name.
(A name without labels different from the SOA cannot occur when `soa.zone_of(query)`, both fqdn and
the SOA is not the root; the Rust would `debug_assert`/loop there.) -/
def candidatesTail (soa : Name) : List Bytes → List Name
  | [] => [{ labels := [], fqdn := true }]
  | l :: rest =>
    if Name.eq { labels := l :: rest, fqdn := true } soa then [{ labels := l :: rest, fqdn := true }]
    else { labels := l :: rest, fqdn := true } :: candidatesTail soa rest

/-- the iterator started at `cur` (the query name) -/
def candidatesFrom (soa : Name) (cur : Name) : List Name :=
  if Name.eq cur soa then [cur]
  else
    match cur.labels with
    | [] => [cur]
    | _ :: rest => cur :: candidatesTail soa rest

/-- `Context::encloser_candidates` -/
def encloserCandidates (q : Name) (soa : Option Name) : List Name :=
  match soa with
  | some s => if s.zoneOf q then candidatesFrom s q else []
  | none => []

/-- `.enumerate().skip(1).find(label == matching.label)` followed by the two `swap_remove`s:
the first candidate at index ≥ 1 whose label equals `ml`, together with its predecessor
(`(next closer, closest encloser)`). -/
def pickEncloser (ml : Bytes) : List Info → Option (Info × Info)
  | a :: b :: rest => if labelEq b.label ml then some (a, b) else pickEncloser ml (b :: rest)
  | _ => none

/-- `ClosestEncloserProofInfo` -/
structure CEProof where
  ce : Option (Info × Pair)
  nc : Option (Info × Pair)
  deriving Inhabited

/-- `Context::closest_encloser_proof` -/
def closestEncloserProof (q : Name) (soa : Option Name) (pairs : List Pair) : CEProof :=
  let cands := (encloserCandidates q soa).map (info H enc)
  match cands.findSome? (fun c => findMatching pairs c.label) with
  | none => { ce := none, nc := none }
  | some m =>
    match pickEncloser m.label cands with
    | none => { ce := none, nc := none }
    | some (nc, ce) =>
      { ce := some (ce, m)
        nc := (findCovering fx enc pairs nc.hash nc.label).map fun r => (nc, r) }

/-- `Context::closest_encloser_proof_with_wildcard(matching)` -/
def cepWithWildcard (q : Name) (soa : Option Name) (pairs : List Pair) (matching : Bool) :
    CEProof × Option (Info × Pair) :=
  let cep := closestEncloserProof fx H enc q soa pairs
  match cep.ce with
  | none => (cep, none)
  | some (ci, _) =>
    match ci.name.prependLabel [42] with
    | .ok w =>
      let wi := info H enc w
      let wr := if matching then findMatching pairs wi.label
                else findCovering fx enc pairs wi.hash wi.label
      (cep, wr.map fun r => (wi, r))
    | _ => (cep, none)

/-- `validate_nxdomain_response` -/
def validateNxdomain (q : Name) (soa : Option Name) (pairs : List Pair) : Proof :=
  let ql := enc (H q)
  if pairs.any (fun r => labelEq r.label ql) then .bogus
  else
    match cepWithWildcard fx H enc q soa pairs false with
    | (cep, wc) =>
      if cep.ce.isNone && cep.nc.isNone then .bogus
      else
        match cep.ce, cep.nc, wc with
        | some (_, cr), some (_, ncr), some _ =>
          if fx.deleg && isDelegationRec cr.data then .bogus
          else if fx.optout && ncr.data.optOut then .insecure
          else .secure
        | none, some _, some _ =>
          if eqSoa soa (parent q) then .secure else .bogus
        | _, _, _ => .bogus

/-- the labels of `next_closer_name` in case 4: the last `wl + 1` labels of the query name -/
def lastLabels (q : Name) (k : Nat) : List Bytes := q.labels.drop (q.labels.length - k)

/-- (repair `wild`) the response is a wildcard expansion: answer RRSIG labels < QNAME labels -/
def wildExp (q : Name) (wl : Option Nat) : Bool :=
  fx.wild && (match wl with
              | some k => decide (k < q.numLabels)
              | none => false)

/-- case 2 of `validate_nodata_response`: a record matching QNAME was found -/
def nodataMatch (qtype : Nat) (r : Pair) : Proof :=
  if r.data.types.contains qtype || r.data.types.contains tCNAME then .bogus
  else if fx.deleg && qtype != tDS && isDelegNS r.data then .bogus
  else .secure

/-- case 3: DS query, QNAME covered by an Opt-Out record -/
def dsOptOut (q : Name) (qtype : Nat) (pairs : List Pair) : Bool :=
  qtype == tDS && (match findCovering fx enc pairs (H q) (enc (H q)) with
                   | some x => x.data.optOut
                   | none => false)

/-- case 4: an answer RRSIG with `k` labels was seen (wildcard expansion) -/
def nodataWildAnswer (q : Name) (k : Nat) (pairs : List Pair) : Proof :=
  if q.numLabels ≤ k then .bogus
  else
    match Name.fromLabels (lastLabels q (k + 1)) with
    | .ok nc =>
      let ni := info H enc nc
      match findCovering fx enc pairs ni.hash ni.label with
      | some ncr => if fx.optout && ncr.data.optOut then .insecure else .secure
      | none => .bogus
    | _ => .bogus -- `expect`: cannot fail for a suffix of a valid name

/-- case 5: wildcard no data (and the two extra arms) -/
def nodataWildNoData (q : Name) (qtype : Nat) (soa : Option Name) (pairs : List Pair) : Proof :=
  match cepWithWildcard fx H enc q soa pairs true with
  | (cep, wc) =>
    match cep.ce, cep.nc, wc with
    | some (_, cr), some (_, ncr), some (_, w) =>
      if !w.data.types.contains qtype && !w.data.types.contains tCNAME then
        if fx.deleg && isDelegationRec cr.data then .bogus
        else if fx.optout && ncr.data.optOut then .insecure
        else .secure
      else .bogus
    | none, some _, some _ =>
      if eqSoa soa (parent q) then .secure else .bogus
    | none, none, none =>
      if !fx.apex && eqSoa soa q then .secure else .bogus
    | _, _, _ => .bogus

/-- `validate_nodata_response` -/
def validateNodata (q : Name) (qtype : Nat) (soa : Option Name) (wl : Option Nat)
    (pairs : List Pair) : Proof :=
  match (if wildExp fx q wl then none else findMatching pairs (enc (H q))) with
  | some r => nodataMatch fx qtype r
  | none =>
    if !wildExp fx q wl && dsOptOut fx H enc q qtype pairs then .secure
    else
      match wl with
      | some k => nodataWildAnswer fx H enc q k pairs
      | none => nodataWildNoData fx H enc q qtype soa pairs

/-- `verify_nsec3`.  `wl` is `answers.iter().find_map(RRSIG → num_labels)`; `rcode` the numeric
response code.  An empty `recs` violates the caller's precondition (`debug_assert!`, then `pairs[0]`
would panic); the model answers `bogus` there and the driver prints `panic`. -/
def verifyNsec3 (q : Name) (qtype : Nat) (soa : Option Name) (rcode : Nat) (wl : Option Nat)
    (recs : List Rec) (soft hard : Nat) : Proof :=
  match mkPairs soa recs with
  | none => .bogus
  | some [] => .bogus
  | some (p :: ps) =>
    if (p :: ps).any (fun r => r.data.salt != p.data.salt || r.data.iterations != p.data.iterations)
    then .bogus
    else if p.data.iterations > hard then .bogus
    else if p.data.iterations > soft then .insecure
    else if rcode == rcNXDomain then validateNxdomain fx H enc q soa (p :: ps)
    else if rcode == rcNoError then validateNodata fx H enc q qtype soa wl (p :: ps)
    else .bogus

end

/-! ### classes of the open findings (decidable; mirrored by the harness)

A Secure verdict of the code as it is (`current`) belongs to class `f` when the code with the repair
`f` in addition no longer says Secure on the same input. -/

section
variable (H : Name → Bytes) (enc : Bytes → Bytes)

def Fixes.or (a b : Fixes) : Fixes :=
  { apex := a.apex || b.apex, wrap := a.wrap || b.wrap, optout := a.optout || b.optout,
    deleg := a.deleg || b.deleg, wild := a.wild || b.wild }

def fixApex : Fixes := { apex := true }
def fixWrap : Fixes := { wrap := true }
def fixOptout : Fixes := { optout := true }
def fixDeleg : Fixes := { deleg := true }
def fixWild : Fixes := { wild := true }

def secureCurrent (q : Name) (qtype : Nat) (soa : Option Name) (rcode : Nat) (wl : Option Nat)
    (recs : List Rec) (soft hard : Nat) : Bool :=
  verifyNsec3 current H enc q qtype soa rcode wl recs soft hard == .secure

/-- `Secure` for the code as it is, not `Secure` with repair `fx` in addition -/
def flippedBy (fx : Fixes) (q : Name) (qtype : Nat) (soa : Option Name) (rcode : Nat)
    (wl : Option Nat) (recs : List Rec) (soft hard : Nat) : Bool :=
  secureCurrent H enc q qtype soa rcode wl recs soft hard &&
  verifyNsec3 (current.or fx) H enc q qtype soa rcode wl recs soft hard != .secure

/-- the open finding classes in the fixed order used for attribution -/
def classList : List (String × Fixes) :=
  [("wraparound-nsec3-covers-every-hash", fixWrap),
   ("optout-next-closer-accepted-as-secure", fixOptout)]

/-- the class of a Secure verdict of `current`: the first single open repair that flips it; the first
class when only both together do; `-` when even the fully repaired code says Secure. -/
def classOf (q : Name) (qtype : Nat) (soa : Option Name) (rcode : Nat) (wl : Option Nat)
    (recs : List Rec) (soft hard : Nat) : String :=
  if !secureCurrent H enc q qtype soa rcode wl recs soft hard then "-"
  else
    match classList.find? (fun c => flippedBy H enc c.2 q qtype soa rcode wl recs soft hard) with
    | some c => c.1
    | none =>
      if flippedBy H enc allFixed q qtype soa rcode wl recs soft hard
      then "wraparound-nsec3-covers-every-hash" else "-"

end

end HickoryVerif.Nsec3
