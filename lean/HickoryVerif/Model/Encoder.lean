/-
Model of `hickory_proto::serialize::binary::BinEncoder` (crates/proto/src/serialize/binary/
encoder.rs) — the encoder core: the size-limited buffer (`private::MaximalBuf`), the write
primitives, `place`/`Place::replace`, `trim`, the name-pointer table, the name-encoding modes,
`Rollback` and `emit_iter`.  `Name::emit` (the compressing name writer) is in
`Model/NameEmit.lean`.

Conventions: `&mut self` becomes "returns the new encoder".  Rust keeps using an encoder after
an `Err` (the caller of `emit_iter` rolls the failed record back and goes on with the next
section), so an error result carries the encoder state *at the time of the error*:
`ERes α = ok a enc | err kind enc | panic site`.  `assert!`, slice indexing and the
`debug_assert!` in `MaximalBuf::write` are panic sites (the harness is a debug-assertions build).
-/
import HickoryVerif.Basic

namespace HickoryVerif

/-- `enum NameEncoding` -/
inductive NameEncoding where
  | compressed
  | uncompressed
  | uncompressedLowercase
  deriving Repr, DecidableEq, Inhabited

/-- `enum RDataEncoding` -/
inductive RDataEncoding where
  | standardRecord
  | canonical
  | other
  deriving Repr, DecidableEq, Inhabited

/-- `struct BinEncoder` (`buffer: MaximalBuf { max_size, buffer }` flattened). -/
structure Enc where
  buf : Bytes
  offset : Nat
  maxSize : Nat
  /-- `name_pointers: Vec<(usize, Vec<u8>)>` : start offset, uncompressed label bytes -/
  ptrs : List (Nat × Bytes)
  canonicalForm : Bool
  nameEncoding : NameEncoding
  compressedNameCount : Nat
  deriving Repr, DecidableEq, Inhabited

/-- The `ProtoError`s the encoder logic distinguishes. -/
inductive EncErr where
  /-- `ProtoError::MaxBufferSizeExceeded` -/
  | maxSize
  /-- `ProtoError::NotAllRecordsWritten { count }` -/
  | notAllWritten (count : Nat)
  /-- any other `ProtoError` -/
  | other
  deriving Repr, DecidableEq, Inhabited

/-- Result of an encoder operation; the error case carries the encoder as the failed call left it. -/
inductive ERes (α : Type) where
  | ok (a : α) (e : Enc)
  | err (k : EncErr) (e : Enc)
  | panic (site : String)
  deriving Repr, DecidableEq, Inhabited

namespace ERes
/-- `?`-sequencing -/
def bind {α β} (x : ERes α) (f : α → Enc → ERes β) : ERes β :=
  match x with
  | .ok a e => f a e
  | .err k e => .err k e
  | .panic s => .panic s

@[simp] theorem bind_ok {α β} (a : α) (e : Enc) (f : α → Enc → ERes β) : (ERes.ok a e).bind f = f a e := rfl
@[simp] theorem bind_err {α β} (k : EncErr) (e : Enc) (f : α → Enc → ERes β) :
    (ERes.err k e : ERes α).bind f = .err k e := rfl
@[simp] theorem bind_panic {α β} (s : String) (f : α → Enc → ERes β) :
    (ERes.panic s : ERes α).bind f = .panic s := rfl
end ERes

namespace Enc

/-- `COMPRESSION_CANDIDATE_LIMIT` -/
def COMPRESSION_CANDIDATE_LIMIT : Nat := 64

/-- `BinEncoder::with_offset` (`MaximalBuf::new(u16::MAX, buf)`) -/
def withOffset (buf : Bytes) (offset : Nat) : Enc :=
  { buf := buf, offset := offset, maxSize := 65535, ptrs := [], canonicalForm := false,
    nameEncoding := .compressed, compressedNameCount := 0 }

/-- `BinEncoder::new` -/
def new (buf : Bytes) : Enc := withOffset buf 0

/-- `BinEncoder::set_max_size` -/
def setMaxSize (e : Enc) (max : Nat) : Enc := { e with maxSize := max }

/-- `BinEncoder::len` : the *physical* length of the buffer -/
def len (e : Enc) : Nat := e.buf.length

/-- `Vec::resize(n, 0)` : shrinks or zero-extends -/
def resize (b : Bytes) (n : Nat) : Bytes := b.take n ++ List.replicate (n - b.length) 0

/-- `MaximalBuf::write` -/
def write (e : Enc) (offset : Nat) (data : Bytes) : ERes Unit :=
  -- debug_assert!(offset <= self.buffer.len());
  if offset > e.buf.length then .panic "MaximalBuf::write:debug_assert" else
  if offset + data.length > e.maxSize then .err .maxSize e else
  if offset = e.buf.length then
    .ok () { e with buf := e.buf ++ data }                      -- extend
  else
    let end_ := offset + data.length
    let b1 := if end_ > e.buf.length then resize e.buf end_ else e.buf
    .ok () { e with buf := b1.take offset ++ data ++ b1.drop end_ }   -- copy_from_slice

/-- `MaximalBuf::reserve` (note: `resize(end)` also *shrinks*) -/
def reserve (e : Enc) (offset len : Nat) : ERes Unit :=
  let end_ := offset + len
  if end_ > e.maxSize then .err .maxSize e else
  .ok () { e with buf := resize e.buf end_ }

/-- `MaximalBuf::truncate` -/
def truncate (e : Enc) (len : Nat) : Enc := { e with buf := e.buf.take len }

/-- `BinEncoder::emit_slice` -/
def emitSlice (e : Enc) (data : Bytes) : ERes Unit :=
  match e.write e.offset data with
  | .ok _ e' => .ok () { e' with offset := e'.offset + data.length }
  | .err k e' => .err k e'
  | .panic s => .panic s

/-- `impl BinEncodable for u8` -/
def emitU8 (e : Enc) (v : Nat) : ERes Unit := e.emitSlice [v % 256]

/-- `impl BinEncodable for u16` (`to_be_bytes`) -/
def emitU16 (e : Enc) (v : Nat) : ERes Unit := e.emitSlice [v / 256 % 256, v % 256]

/-- `impl BinEncodable for u32` -/
def emitU32 (e : Enc) (v : Nat) : ERes Unit :=
  e.emitSlice [v / 16777216 % 256, v / 65536 % 256, v / 256 % 256, v % 256]

/-- `BinEncoder::emit_character_data` -/
def emitCharacterData (e : Enc) (data : Bytes) : ERes Unit :=
  if data.length > 255 then .err .other e else
  match e.emitU8 data.length with
  | .ok _ e' => e'.emitSlice data
  | .err k e' => .err k e'
  | .panic s => .panic s

/-- `BinEncoder::place::<T>()` with `T::LEN = len`; returns `Place.start_index`. -/
def place (e : Enc) (len : Nat) : ERes Nat :=
  let index := e.offset
  match e.reserve e.offset len with
  | .ok _ e' => .ok index { e' with offset := e'.offset + len }
  | .err k e' => .err k e'
  | .panic s => .panic s

/-- `BinEncoder::len_since_place` : `(offset - start_index) - T::LEN` in `usize` -/
def lenSincePlace (e : Enc) (start len : Nat) : Outcome Nat :=
  if e.offset < start + len then .panic "len_since_place:sub-overflow"
  else .ok (e.offset - start - len)

/-- `Place::<T>::replace(self, encoder, data)`; `emitData` is `data.emit`. -/
def placeReplace (e : Enc) (start len : Nat) (emitData : Enc → ERes Unit) : ERes Unit :=
  let current := e.offset
  if ¬ (start < current) then .panic "Place::replace:assert(start<current)" else
  match emitData { e with offset := start } with
  | .panic s => .panic s
  | .ok _ e1 =>
    if e1.offset < start then .panic "Place::replace:sub-overflow"
    else if e1.offset - start ≠ len then .panic "Place::replace:assert(len)"
    else .ok () { e1 with offset := current }
  | .err k e1 =>
    if e1.offset < start then .panic "Place::replace:sub-overflow"
    else if e1.offset - start ≠ len then .panic "Place::replace:assert(len)"
    else .err k { e1 with offset := current }

/-- `BinEncoder::trim` -/
def trim (e : Enc) : Enc :=
  { e with buf := e.buf.take e.offset, ptrs := e.ptrs.filter fun p => p.1 < e.offset }

/-- `BinEncoder::slice_of` -/
def sliceOf (e : Enc) (start end_ : Nat) : Outcome Bytes :=
  if ¬ (start < e.offset) then .panic "slice_of:assert(start<offset)"
  else if ¬ (end_ ≤ e.buf.length) then .panic "slice_of:assert(end<=len)"
  else if start > end_ then .panic "slice_of:slice-index"
  else .ok ((e.buf.drop start).take (end_ - start))

/-- `BinEncoder::store_label_pointer` -/
def storeLabelPointer (e : Enc) (start end_ : Nat) : Outcome Enc :=
  if start > 65535 then .panic "store_label_pointer:assert(start)"
  else if end_ > 65535 then .panic "store_label_pointer:assert(end)"
  else if start > end_ then .panic "store_label_pointer:assert(start<=end)"
  else if e.offset < 0x3FFF ∧ e.ptrs.length < COMPRESSION_CANDIDATE_LIMIT then
    match e.sliceOf start end_ with
    | .ok s => .ok { e with ptrs := e.ptrs ++ [(start, s)] }
    | .err => .err
    | .panic s => .panic s
  else .ok e

/-- the `for (match_start, matcher) in &self.name_pointers` loop of `get_label_pointer` -/
def findPtr (search : Bytes) : List (Nat × Bytes) → Outcome (Option Nat)
  | [] => .ok none
  | (ms, m) :: rest =>
    if m = search then
      if ms > 65535 then .panic "get_label_pointer:assert(u16)" else .ok (some ms)
    else findPtr search rest

/-- `BinEncoder::get_label_pointer` -/
def getLabelPointer (e : Enc) (start end_ : Nat) : Outcome (Option Nat) :=
  match e.sliceOf start end_ with
  | .ok s => findPtr s e.ptrs
  | .err => .err
  | .panic s => .panic s

/-- the `(RDataEncoding, canonical_form)` table of `with_rdata_behavior` -/
def rdataNameEncoding (r : RDataEncoding) (canonical : Bool) (cur : NameEncoding) : NameEncoding :=
  match r, canonical with
  | .standardRecord, true => .uncompressedLowercase
  | .canonical, true => .uncompressedLowercase
  | .standardRecord, false => cur
  | .canonical, false => .uncompressed
  | .other, true => .uncompressed
  | .other, false => .uncompressed

/-- restore on `Drop for ModalEncoder` (also runs when the body returned `Err`) -/
def restoreNameEncoding {α} (prev : NameEncoding) : ERes α → ERes α
  | .ok a e => .ok a { e with nameEncoding := prev }
  | .err k e => .err k { e with nameEncoding := prev }
  | .panic s => .panic s

/-- `BinEncoder::with_name_encoding` + the body run on the guard + drop of the guard -/
def withNameEncoding {α} (e : Enc) (ne : NameEncoding) (body : Enc → ERes α) : ERes α :=
  restoreNameEncoding e.nameEncoding (body { e with nameEncoding := ne })

/-- `BinEncoder::with_rdata_behavior` + body + drop -/
def withRdataBehavior {α} (e : Enc) (r : RDataEncoding) (body : Enc → ERes α) : ERes α :=
  restoreNameEncoding e.nameEncoding
    (body { e with nameEncoding := rdataNameEncoding r e.canonicalForm e.nameEncoding })

/-- `struct Rollback { offset, pointers }` -/
structure Rollback where
  offset : Nat
  pointers : Nat
  deriving Repr, DecidableEq

/-- the rollback point taken at the top of the `emit_iter` loop body -/
def rollbackPoint (e : Enc) : Rollback := { offset := e.offset, pointers := e.ptrs.length }

/-- `Rollback::rollback` (with the repair: the buffer is truncated to the restored offset) -/
def rollback (rb : Rollback) (e : Enc) : Enc :=
  { e with offset := rb.offset, buf := e.buf.take rb.offset, ptrs := e.ptrs.take rb.pointers }

/-- `BinEncoder::emit_iter`; an item is its `emit` function; `count` starts at 0. -/
def emitIterFrom (e : Enc) : List (Enc → ERes Unit) → Nat → ERes Nat
  | [], count => .ok count e
  | item :: rest, count =>
    let rb := rollbackPoint e
    match item e with
    | .ok _ e' => emitIterFrom e' rest (count + 1)
    | .err .maxSize e' => .err (.notAllWritten count) (rollback rb e')
    | .err k e' => .err k e'
    | .panic s => .panic s

def emitIter (e : Enc) (items : List (Enc → ERes Unit)) : ERes Nat := emitIterFrom e items 0

end Enc
end HickoryVerif
