/-
Two control-flow patterns every hickory emitter is built from, as combinators over the encoder
model (`Model/Encoder.lean`):

  * `Enc.seq f g`        : `f(encoder)?; g(encoder)`  — `?`-sequencing of two emit steps;
  * `Enc.lenPrefixed b`  : the RDLENGTH pattern of `Record::emit` (crates/proto/src/rr/record.rs):
        let place = encoder.place::<u16>()?;
        b(encoder)?;
        let len = encoder.len_since_place(&place);
        assert!(len <= u16::MAX as usize);
        place.replace(encoder, len as u16)?;
-/
import HickoryVerif.Model.Encoder

namespace HickoryVerif
namespace Enc

/-- `f(encoder)?; g(encoder)` -/
def seq (f g : Enc → ERes Unit) (e : Enc) : ERes Unit :=
  match f e with
  | .ok _ e' => g e'
  | .err k e' => .err k e'
  | .panic s => .panic s

/-- a `u16` length place, the body, the back-patch with `len_since_place` -/
def lenPrefixed (body : Enc → ERes Unit) (e : Enc) : ERes Unit :=
  match e.place 2 with
  | .ok start e1 =>
    match body e1 with
    | .ok _ e2 =>
      match e2.lenSincePlace start 2 with
      | .ok len =>
        -- assert!(len <= u16::MAX as usize);
        if len > 65535 then .panic "Record::emit:assert(len<=u16::MAX)"
        else e2.placeReplace start 2 (fun x => x.emitU16 len)
      | .err => .panic "unreachable"
      | .panic s => .panic s
    | .err k e2 => .err k e2
    | .panic s => .panic s
  | .err k e1 => .err k e1
  | .panic s => .panic s

/-- the same place / body / back-patch pattern where the length is converted with `u16::try_from(..)`
and an overflow is an `Err`, not an assertion (`SvcParamValue::emit`) -/
def lenPrefixedTry (body : Enc → ERes Unit) (e : Enc) : ERes Unit :=
  match e.place 2 with
  | .ok start e1 =>
    match body e1 with
    | .ok _ e2 =>
      match e2.lenSincePlace start 2 with
      | .ok len =>
        if len > 65535 then .err .other e2
        else e2.placeReplace start 2 (fun x => x.emitU16 len)
      | .err => .panic "unreachable"
      | .panic s => .panic s
    | .err k e2 => .err k e2
    | .panic s => .panic s
  | .err k e1 => .err k e1
  | .panic s => .panic s

end Enc
end HickoryVerif
