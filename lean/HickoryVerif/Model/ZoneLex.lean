/-
Model of the zone-file lexer `hickory_proto::serialize::txt::zone_lex::Lexer`
(crates/proto/src/serialize/txt/zone_lex.rs) — `next_token`, `escape_seq`, `push_to_str`,
as the code is after two repairs: the 4 096-iteration cap is gone (the
`for i in 0..4096 { assert! … }` became a plain `loop { … }`, commit 61a76eb) and quoted strings
are recognised inside parentheses (`State::Quote { is_list }`, commit 055beb6).

Text is a list of Unicode scalar values (`Nat`).  The character classes `char::is_whitespace`,
`char::is_control`, `char::is_numeric` are modelled **on ASCII only**; the correspondence run
therefore feeds the model ASCII zone texts only (non-ASCII texts are checked against the
no-panic / no-hang oracle on the implementation alone).  Characters *produced* by the lexer can be
non-ASCII all the same (`\DDD` inside a quoted string is decoded as `(d1<<16)+(d2<<8)+d3`).

`step` is exactly one iteration of the `loop` in `next_token`; `run` iterates it.  There is no
iteration cap and no fuel: `run` is defined by well-founded recursion on
`8 * remaining characters + rank of the state` (`step_decreases`).
-/
import HickoryVerif.Basic

namespace HickoryVerif.ZoneLex

/-- a string as the list of its `char`s -/
abbrev Str := List Nat

/-- ASCII `char::is_whitespace` : TAB, LF, VT, FF, CR, SPACE -/
def isWs (c : Nat) : Bool := c == 32 || (9 ≤ c && c ≤ 13)
/-- ASCII `char::is_control` -/
def isControl (c : Nat) : Bool := c < 32 || c == 127
/-- ASCII `char::is_numeric` -/
def isNumeric (c : Nat) : Bool := 48 ≤ c && c ≤ 57
/-- `char::to_digit(10)` -/
def toDigit10 (c : Nat) : Option Nat := if 48 ≤ c ∧ c ≤ 57 then some (c - 48) else none

/-- `char::from_u32` -/
def charFromU32 (v : Nat) : Option Nat :=
  if (0xD800 ≤ v ∧ v ≤ 0xDFFF) ∨ v > 0x10FFFF then none else some v

inductive St where
  | startLine | restOfLine | blank | list
  | charData (isList : Bool)
  | comment (isList : Bool)
  | at | quote (isList : Bool) | dollar | eol | eof
  deriving DecidableEq, Repr, Inhabited

inductive Token where
  | blank
  | list (l : List Str)
  | charData (s : Str)
  | at | include | origin | ttl | eol
  deriving DecidableEq, Repr, Inhabited

/-- what persists between two `next_token` calls -/
structure Lexer where
  txt : Str
  state : St
  deriving DecidableEq, Repr, Inhabited

def Lexer.new (txt : Str) : Lexer := { txt := txt, state := .startLine }

/-- the loop variables of one `next_token` call -/
structure Cfg where
  txt : Str
  state : St
  cd : Option Str           -- `char_data`
  cdv : Option (List Str)   -- `char_data_vec`
  deriving DecidableEq, Repr, Inhabited

/-- `Lexer::push_to_str` (`none` = `Err(IllegalState)`) -/
def pushToStr (collect : Option Str) (ch : Nat) : Option (Option Str) :=
  match collect with
  | some s => some (some (s ++ [ch]))
  | none => none

/-- one `self.txt.next().ok_or(EOF).map(|c| c.to_digit(10).ok_or(IllegalCharacter))??` -/
def nextDigit : Str → Option (Nat × Str)
  | [] => none
  | c :: rest => (toDigit10 c).map fun d => (d, rest)

/-- `Lexer::escape_seq`; `txt` starts at the backslash. `none` = `Err(_)`.
Result: the decoded character and the remaining text. -/
def escapeSeq (txt : Str) : Option (Nat × Str) :=
  match txt.tail with                      -- consume the escape
  | [] => none                             -- Err(EOF)
  | ch :: rest =>
    if !isControl ch then
      if isNumeric ch then
        match nextDigit (ch :: rest) with
        | none => none
        | some (d1, r1) =>
          match nextDigit r1 with
          | none => none
          | some (d2, r2) =>
            match nextDigit r2 with
            | none => none
            | some (d3, r3) =>
              -- `(d1 << 16) + (d2 << 8) + d3`
              match charFromU32 (d1 * 65536 + d2 * 256 + d3) with
              | some v => some (v, r3)
              | none => none                 -- UnrecognizedOctet
      else some (ch, rest)                 -- `\X`
    else none                              -- IllegalCharacter

inductive Step where
  /-- `return Ok(tok)` with the lexer left in `(txt, state)` -/
  | ret (t : Option Token) (txt : Str) (state : St)
  /-- `return Err(_)` -/
  | fail
  /-- next iteration of the loop -/
  | cont (c : Cfg)
  deriving DecidableEq, Repr, Inhabited

/-- "INCLUDE", "ORIGIN", "TTL" as character codes (kept free of `String` so that the kernel can
evaluate the model on concrete texts) -/
def sINCLUDE : Str := [73, 78, 67, 76, 85, 68, 69]
def sORIGIN : Str := [79, 82, 73, 71, 73, 78]
def sTTL : Str := [84, 84, 76]

/-- one iteration of the `loop` of `next_token` -/
def step (c : Cfg) : Step :=
  match c.state with
  | .startLine =>
    match c.txt with
    | [] => .cont { c with state := .eof }
    | x :: _ =>
      if x = 13 ∨ x = 10 then .cont { c with state := .eol }
      else if isWs x then .cont { c with state := .blank }
      else .cont { c with state := .restOfLine }
  | .restOfLine =>
    match c.txt with
    | [] => .cont { c with state := .eof }
    | x :: rest =>
      if x = 64 then .cont { c with state := .at }
      else if x = 40 then .cont { c with txt := rest, cdv := some [], state := .list }
      else if x = 41 then .fail                                   -- IllegalCharacter(')')
      else if x = 36 then .cont { c with txt := rest, cd := some [], state := .dollar }
      else if x = 13 ∨ x = 10 then .cont { c with state := .eol }
      else if x = 34 then .cont { c with txt := rest, cd := some [], state := .quote false }
      else if x = 59 then .cont { c with state := .comment false }
      else if isWs x then .cont { c with txt := rest }
      else if !isControl x && !isWs x then .cont { c with cd := some [], state := .charData false }
      else .fail                                                  -- UnrecognizedChar
  | .blank => .ret (some .blank) c.txt.tail .restOfLine
  | .comment il =>
    match c.txt with
    | [] => .cont { c with state := .eof }
    | x :: rest =>
      if x = 13 ∨ x = 10 then .cont { c with state := if il then .list else .eol }
      else .cont { c with txt := rest }
  | .quote il =>
    match c.txt with
    | [] => .fail                                                 -- UnclosedQuotedString
    | x :: rest =>
      if x = 34 then
        if il then
          -- the closing quote of a list item: push it, back to the list
          match c.cdv with
          | some v => .cont { c with txt := rest, cdv := some (v ++ [c.cd.getD []]), cd := none, state := .list }
          | none => .fail                                         -- IllegalState
        else .ret (some (.charData (c.cd.getD []))) rest .restOfLine
      else if x = 92 then
        match escapeSeq c.txt with
        | none => .fail
        | some (e, rest') =>
          match pushToStr c.cd e with
          | some cd' => .cont { c with txt := rest', cd := cd' }
          | none => .fail
      else
        match pushToStr c.cd x with
        | some cd' => .cont { c with txt := rest, cd := cd' }
        | none => .fail
  | .dollar =>
    let finish : Step :=
      match c.cd with
      | none => .fail                                             -- IllegalState
      | some d =>
        if d = sINCLUDE then .ret (some .include) c.txt .restOfLine
        else if d = sORIGIN then .ret (some .origin) c.txt .restOfLine
        else if d = sTTL then .ret (some .ttl) c.txt .restOfLine
        else .fail                                                -- UnrecognizedDollar
    match c.txt with
    | [] => finish
    | x :: rest =>
      if 65 ≤ x ∧ x ≤ 90 then
        match pushToStr c.cd x with
        | some cd' => .cont { c with txt := rest, cd := cd' }
        | none => .fail
      else finish
  | .list =>
    match c.txt with
    | [] => .fail                                                 -- UnclosedList
    | x :: rest =>
      if x = 59 then .cont { c with txt := rest, state := .comment true }
      else if x = 34 then .cont { c with txt := rest, cd := some [], state := .quote true }
      else if x = 41 then
        match c.cdv with
        | some v => .ret (some (.list v)) rest .restOfLine
        | none => .fail
      else if isWs x then .cont { c with txt := rest }
      else if !isControl x && !isWs x then .cont { c with cd := some [], state := .charData true }
      else .fail
  | .charData il =>
    match c.txt with
    | [] =>
      match c.cd with
      | some s => .ret (some (.charData s)) [] .eof
      | none => .fail
    | x :: rest =>
      if x = 41 ∧ il = false then .fail
      else if isWs x ∨ x = 41 ∨ x = 59 then
        if il then
          match c.cdv, c.cd with
          | some v, some s => .cont { c with cdv := some (v ++ [s]), cd := none, state := .list }
          | _, _ => .fail
        else
          match c.cd with
          | some s => .ret (some (.charData s)) c.txt .restOfLine
          | none => .fail
      else if !isControl x && !isWs x then
        match pushToStr c.cd x with
        | some cd' => .cont { c with txt := rest, cd := cd' }
        | none => .fail
      else .fail
  | .at => .ret (some .at) c.txt.tail .restOfLine
  | .eol =>
    match c.txt with
    | [] => .fail                                                 -- Err(EOF)
    | x :: rest =>
      if x = 13 then .cont { c with txt := rest }
      else if x = 10 then .ret (some .eol) rest .startLine
      else .fail                                                  -- IllegalCharacter
  | .eof => .ret none c.txt.tail .eof

/-- rank of a state: how many more non-consuming iterations can follow -/
def rank (c : Cfg) : Nat :=
  match c.state with
  | .startLine => 7
  | .restOfLine => 6
  | .comment _ => 5
  | .list => 3
  | .charData true =>
    match c.txt with
    | x :: _ => if isWs x ∨ x = 41 ∨ x = 59 then 4 else 2
    | [] => 2
  | _ => 0

def measure (c : Cfg) : Nat := 8 * c.txt.length + rank c

theorem nextDigit_len {s : Str} {d : Nat} {r : Str} (h : nextDigit s = some (d, r)) :
    r.length < s.length := by
  cases s with
  | nil => simp [nextDigit] at h
  | cons c rest =>
    simp only [nextDigit, Option.map_eq_some_iff] at h
    obtain ⟨_, _, h⟩ := h
    cases h; simp

theorem escapeSeq_len {txt : Str} {e : Nat} {r : Str} (h : escapeSeq txt = some (e, r)) :
    r.length < txt.length := by
  unfold escapeSeq at h
  cases txt with
  | nil => simp at h
  | cons b t =>
    cases t with
    | nil => simp at h
    | cons ch rest =>
      simp only [List.tail_cons] at h
      split at h
      · split at h
        · split at h
          · cases h
          · rename_i d1 r1 h1
            split at h
            · cases h
            · rename_i d2 r2 h2
              split at h
              · cases h
              · rename_i d3 r3 h3
                split at h
                · cases h
                  have := nextDigit_len h1; have := nextDigit_len h2; have := nextDigit_len h3
                  simp at *; omega
                · cases h
        · cases h; simp only [List.length_cons]; omega
      · cases h

theorem rank_le (c : Cfg) : rank c ≤ 7 := by
  unfold rank; repeat' split
  all_goals omega

theorem consume_lt {c c' : Cfg} (h : c'.txt.length < c.txt.length) : measure c' < measure c := by
  have := rank_le c'; unfold measure; omega

/-- closes the goal `measure c' < measure c` for one branch of `step` -/
macro "lex_dec" : tactic =>
  `(tactic| first
    | (apply consume_lt; simp; done)
    | (simp [measure, rank]; done)
    | (simp_all [measure, rank]; done)
    | (simp [measure, rank]; omega))

/-- every iteration of the loop that does not return makes the measure strictly smaller:
the loop needs no iteration cap. -/
theorem step_decreases {c c' : Cfg} (h : step c = .cont c') : measure c' < measure c := by
  obtain ⟨txt, st, cd, cdv⟩ := c
  unfold step at h
  cases st with
  | startLine =>
    cases txt with
    | nil => simp at h; subst h; lex_dec
    | cons x rest =>
      simp only at h
      repeat' split at h
      all_goals (cases h; lex_dec)
  | restOfLine =>
    cases txt with
    | nil => simp at h; subst h; lex_dec
    | cons x rest =>
      simp only at h
      repeat' split at h
      all_goals first | (cases h; done) | (cases h; lex_dec)
  | blank => simp at h
  | list =>
    cases txt with
    | nil => simp at h
    | cons x rest =>
      simp only at h
      repeat' split at h
      all_goals first | (cases h; done) | (cases h; lex_dec)
  | charData il =>
    cases txt with
    | nil => simp only at h; split at h <;> cases h
    | cons x rest =>
      cases il <;> simp only at h <;> repeat' split at h
      all_goals first | (cases h; done) | (cases h; lex_dec)
  | comment il =>
    cases txt with
    | nil => simp at h; subst h; lex_dec
    | cons x rest =>
      cases il <;> simp only at h <;> repeat' split at h
      all_goals (cases h; lex_dec)
  | «at» => simp at h
  | quote il =>
    cases txt with
    | nil => simp at h
    | cons x rest =>
      simp only at h
      split at h
      · cases il <;> simp only [Bool.false_eq_true, ↓reduceIte] at h
        · cases h
        · split at h
          · cases h; lex_dec
          · cases h
      · split at h
        · split at h
          · cases h
          · rename_i e r' he
            split at h
            · cases h
              exact consume_lt (escapeSeq_len he)
            · cases h
        · split at h
          · cases h; lex_dec
          · cases h
  | dollar =>
    cases txt with
    | nil =>
      simp only at h
      repeat' split at h
      all_goals cases h
    | cons x rest =>
      simp only at h
      repeat' split at h
      all_goals first | (cases h; done) | (cases h; lex_dec)
  | eol =>
    cases txt with
    | nil => simp at h
    | cons x rest =>
      simp only at h
      repeat' split at h
      all_goals first | (cases h; done) | (cases h; lex_dec)
  | eof => simp at h

/-- the `loop` of `next_token` -/
def run (c : Cfg) : Outcome (Option Token × Lexer) :=
  match h : step c with
  | .ret t txt st => .ok (t, { txt := txt, state := st })
  | .fail => .err
  | .cont c' => run c'
termination_by measure c
decreasing_by exact step_decreases h

/-- `Lexer::next_token` -/
def nextToken (l : Lexer) : Outcome (Option Token × Lexer) :=
  run { txt := l.txt, state := l.state, cd := none, cdv := none }

end HickoryVerif.ZoneLex
