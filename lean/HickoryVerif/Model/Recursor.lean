/-
Model of the recursive resolver, `crates/resolver/src/recursor/{handle.rs,mod.rs,error.rs}`:
`is_subzone`, the bailiwick filter of `RecursorDnsHandle::lookup`, `ns_pool_for_name` (zone descent,
glue map, glueless NS resolution through `append_ips_from_lookup`), `resolve` / `resolve_cnames`
(depth counter against `recursion_limit` / `ns_recursion_limit`, the global `MAX_CNAME_LOOKUPS`
budget), the response cache and the name-server-pool cache as far as one request sees them, the
pool's address/answer filters (`AccessControlSet::denied`, crates/proto/src/access_control.rs) and
the part of `NameServerPool::send` / `NameServer::send` / `DnsError::from_response` that decides
what a pool lookup returns.

The network is a parameter `net : Ip → Query → NetReply` — any records in any section, any rcode,
or nothing listening at all.  Every function threads a state `St` (the two caches, the log of
upstream sends, the lookup counter, the CNAME budget).  The mutually recursive async functions of
the Rust take the code's own depth counter; Lean's termination is by a fuel argument on the two
recursive entry points only (`nsPoolFuel`, `resolveFuel`), the inner loops being ordinary structural
recursions that receive the recursive call as a parameter.  `Proofs/C19.lean` shows that the fuel
`limit + 1` used by the entry points is never exhausted.

Not modelled (validated by the correspondence run only, see checks/C19.json): TTL expiry and LRU
eviction of the two caches (one request at one `request_time`; entries with a zero lifetime are
modelled as not stored), truncation/TCP retry, timeouts and `Busy` back-off of the pool, the random
(SRTT based) order in which a pool tries its servers — the model tries them in list order — and the
concurrency of the address lookups in `append_ips_from_lookup`; DNSSEC-validating mode.
-/
import HickoryVerif.Model.Name

namespace HickoryVerif.Recursor
open HickoryVerif

/-! ## data -/

structure Ip where
  v6 : Bool
  addr : Nat
  deriving DecidableEq, Repr, Inhabited

inductive RData where
  | a (ip : Nat)
  | aaaa (ip : Nat)
  | ns (n : Name)
  | cname (n : Name)
  | soa (minimum : Nat)
  | txt (tag : Nat)
  | srv (target : Name)
  /-- an RRSIG covering the given type (signature bytes are irrelevant here) -/
  | rrsig (covered : Nat)
  deriving DecidableEq, Repr, Inhabited

def T_A : Nat := 1
def T_NS : Nat := 2
def T_CNAME : Nat := 5
def T_SOA : Nat := 6
def T_TXT : Nat := 16
def T_AAAA : Nat := 28
def T_SRV : Nat := 33
def T_RRSIG : Nat := 46
def T_DS : Nat := 43
def T_ANY : Nat := 255

def RData.rtype : RData → Nat
  | .a _ => T_A
  | .aaaa _ => T_AAAA
  | .ns _ => T_NS
  | .cname _ => T_CNAME
  | .soa _ => T_SOA
  | .txt _ => T_TXT
  | .srv _ => T_SRV
  | .rrsig _ => T_RRSIG

/-- `RData::ip_addr` -/
def RData.ip? : RData → Option Ip
  | .a x => some ⟨false, x⟩
  | .aaaa x => some ⟨true, x⟩
  | _ => none

structure Record where
  name : Name
  ttl : Nat
  data : RData
  deriving DecidableEq, Repr, Inhabited

def Record.rtype (r : Record) : Nat := r.data.rtype

structure Query where
  name : Name
  qtype : Nat
  deriving DecidableEq, Repr, Inhabited

/-- `impl PartialEq for Query` (names compare case-insensitively; class is always IN here) -/
def Query.same (a b : Query) : Bool := a.name.eq b.name && a.qtype == b.qtype

structure Response where
  rcode : Nat
  aa : Bool
  answers : List Record
  authorities : List Record
  additionals : List Record
  /-- TC bit as the simulated server sets it: 0 never, 1 over UDP only, 2 over stream transports as
  well.  Not read by the model: `PoolState::try_send` repeats a truncated query over TCP, which
  for `1` yields this very response; `2` has no model side (class predicate `truncatesAlways`). -/
  tc : Nat := 0
  deriving DecidableEq, Repr, Inhabited

/-- `Message::all_sections` -/
def Response.all (r : Response) : List Record := r.answers ++ r.authorities ++ r.additionals

/-- what the network does with a query sent to an address -/
inductive NetReply where
  /-- nothing listens: the connection attempt fails with an io error -/
  | unreachable
  | msg (r : Response)
  deriving Repr, Inhabited

abbrev Net := Ip → Query → NetReply

/-! ## access control sets (crates/proto/src/access_control.rs) -/

structure IpNet where
  v6 : Bool
  addr : Nat
  len : Nat
  deriving DecidableEq, Repr

/-- membership of an address in a network: same family and equal leading `len` bits -/
def IpNet.contains (n : IpNet) (ip : Ip) : Bool :=
  let w := if n.v6 then 128 else 32
  n.v6 == ip.v6 && ip.addr / 2 ^ (w - n.len) == n.addr / 2 ^ (w - n.len)

structure Acs where
  allow : List IpNet
  deny : List IpNet
  deriving Repr

/-- `AccessControlSet::allows_all` -/
def Acs.allowsAll (a : Acs) : Bool := a.deny.isEmpty

/-- `::ffff:a.b.c.d` — the only IPv6 addresses `IpAddr::to_canonical` turns into IPv4 ones -/
def Ip.isMapped (ip : Ip) : Bool := ip.v6 && ip.addr / 2 ^ 32 == 0xffff

/-- `IpAddr::to_canonical`: an IPv4-mapped IPv6 address becomes the IPv4 address, everything else
(also the IPv4-compatible `::a.b.c.d`, `::1`, `::`) stays what it is -/
def Ip.canonical (ip : Ip) : Ip := if ip.isMapped then ⟨false, ip.addr % 2 ^ 32⟩ else ip

/-- `AccessControlSet::denied`: the canonical address is looked up in the prefix sets of its own
family only (`get_spm` = some listed network contains it); a deny match counts unless an allow
network matches as well; with both deny sets empty nothing is denied. -/
def Acs.denied (a : Acs) (ip : Ip) : Bool :=
  if a.allowsAll then false
  else !(a.allow.any (·.contains ip.canonical)) && a.deny.any (·.contains ip.canonical)

/-- the networks of one address family (the `v4_*` / `v6_*` prefix sets of the Rust struct) -/
def Acs.family (a : Acs) (v6 : Bool) : Acs :=
  ⟨a.allow.filter (fun n => n.v6 == v6), a.deny.filter (fun n => n.v6 == v6)⟩

structure Config where
  recursionLimit : Nat
  nsRecursionLimit : Nat
  roots : List Ip
  /-- `name_server_filter` (allow_server / deny_server) -/
  serverFilter : Acs
  /-- `answer_address_filter` of the pool context (allow_answers / deny_answers) -/
  answerFilter : Acs
  /-- the client's DO bit (`query_has_dnssec_ok` of `Recursor::resolve`) -/
  dnssecOk : Bool := false
  deriving Repr

/-- `MAX_CNAME_LOOKUPS` (tied to the source by `Proofs/TiesC19.lean`) -/
def MAX_CNAME_LOOKUPS : Nat := 64

/-! ## errors -/

/-- `RecursorError` / `NetError` as far as the recursor's control flow distinguishes them. -/
inductive Err where
  /-- `NetError::Io` / `NoConnections`: no server of the pool could be reached -/
  | io
  /-- `DnsError::ResponseCode` (REFUSED, SERVFAIL, …) -/
  | rcode (c : Nat)
  /-- `DnsError::NoRecordsFound` ⇒ `RecursorError::Negative` / `ForwardNS`.  `ns` is the referral
  (authority NS records, each with the additional address records of its target). -/
  | noRecords (nx : Bool) (soa : Option Record) (ns : List (Record × List Record))
      (auths : List Record) (negTtl : Option Nat)
  /-- `RecursorError::RecursionLimitExceeded` -/
  | limit
  /-- `RecursorError::MaxRecordLimitExceeded` (CNAME budget) -/
  | cnameLimit
  /-- any `RecursorError::Msg` / `Message` -/
  | other
  /-- Lean fuel exhausted — unreachable with the fuel the entry points use -/
  | fuel
  deriving Repr, Inhabited, DecidableEq

/-- `RecursorError::is_nx_domain` -/
def Err.isNx : Err → Bool
  | .noRecords nx _ _ _ _ => nx
  | _ => false

/-! ## bailiwick -/

/-- `is_subzone` (mod.rs): `Name::is_empty` is constantly `false`. -/
def isSubzone (parent child : Name) : Bool :=
  if parent.fqdn != child.fqdn then false else parent.zoneOf child

/-- the `retain(answer_filter)` of `lookup` on one section -/
def bailiwick (zone : Name) (rs : List Record) : List Record :=
  rs.filter fun r => isSubzone zone r.name

/-- The response filter of `RecursorDnsHandle::lookup`: all three sections; `none` is the
"everything stripped ⇒ NXDOMAIN" outcome. -/
def filterResponse (zone : Name) (r : Response) : Option Response :=
  let answers := bailiwick zone r.answers
  let authorities := bailiwick zone r.authorities
  let additionals := bailiwick zone r.additionals
  if (answers.isEmpty && !r.answers.isEmpty)
      || (answers.isEmpty && authorities.isEmpty && !r.authorities.isEmpty) then none
  else some { r with answers, authorities, additionals }

/-! ## one pool lookup: `NameServer::send` → `DnsError::from_response`, `PoolState::try_send`,
`NameServerPool::send` (answer filter) -/

/-- `DnsResponse::contains_answer` -/
def containsAnswer (q : Query) (r : Response) : Bool :=
  if q.qtype == T_ANY then r.all.any fun x => x.name.eq q.name
  else if q.qtype == T_SOA then (r.all.filter fun x => x.rtype == T_SOA).any fun x => x.name.zoneOf q.name
  else if !r.answers.isEmpty then true
  else (r.all.filter fun x => x.rtype == q.qtype).any fun x => x.name.eq q.name

/-- response codes that `from_response` turns into `DnsError::ResponseCode` -/
def isErrorCode (c : Nat) : Bool :=
  c != 0 && c != 3 && (c ≤ 10 || (16 ≤ c && c ≤ 23))

/-- `DnsResponse::negative_ttl` -/
def negativeTtl (r : Response) : Option Nat :=
  (r.authorities.findSome? fun x => match x.data with
    | .soa m => some (min x.ttl m)
    | _ => none)

def glueFor (r : Response) (ns : Record) : List Record :=
  match ns.data with
  | .ns target => r.additionals.filter fun x =>
      x.name.eq target && (x.rtype == T_A || x.rtype == T_AAAA)
  | _ => []

/-- `DnsError::from_response` (no truncation) -/
def fromResponse (q : Query) (r : Response) : Except Err Response :=
  if isErrorCode r.rcode then .error (.rcode r.rcode)
  else if (r.rcode == 3 || r.rcode == 0) && !containsAnswer q r then
    let nsRecs := r.authorities.filter fun x => x.rtype == T_NS
    .error (.noRecords (r.rcode == 3)
      (r.authorities.find? fun x => x.rtype == T_SOA)
      (nsRecs.map fun x => (x, glueFor r x))
      r.authorities
      (negativeTtl r))
  else .ok r

structure Pool where
  ips : List Ip
  zone : Name
  deriving Repr, Inhabited

structure St where
  /-- `response_cache` -/
  rcache : List (Query × Except Err Response)
  /-- `name_server_cache` -/
  nscache : List (Name × Pool)
  /-- every `(server address, query)` handed to the network, newest first -/
  log : List (Ip × Query)
  /-- observation only (never read by the model): every call of `RecursorDnsHandle::lookup` as
  `(zone of the pool asked, zone handed to the bailiwick filter, query)`, newest first -/
  asked : List (Name × Name × Query)
  /-- number of `NameServerPool::lookup` calls -/
  lookups : Nat
  /-- the `cname_limit` counter of the current request -/
  cnames : Nat
  /-- observation only (never read by the model): number of CNAME-target resolutions actually
  started (`self.resolve(cname_query, …)` in `resolve_cnames`) -/
  targets : Nat := 0
  deriving Inhabited

def St.empty : St :=
  { rcache := [], nscache := [], log := [], asked := [], lookups := 0, cnames := 0 }

/-- `PoolState::try_send` with `num_concurrent_reqs = 1`: servers in order; an unreachable server
(`NetError::Io`) moves on to the next one, every other outcome (a response, or the error
`from_response` makes of it — name servers built by the recursor trust negative responses) ends
the loop.  Every attempt is logged. -/
def trySend (net : Net) (q : Query) : List Ip → St → St × Except Err Response
  | [], st => (st, .error .io)
  | ip :: rest, st =>
    let st := { st with log := (ip, q) :: st.log }
    match net ip q with
    | .unreachable => trySend net q rest st
    | .msg r => (st, fromResponse q r)

def addrAllowed (f : Acs) (r : Record) : Bool :=
  match r.data.ip? with
  | some ip => !f.denied ip
  | none => true

/-- the answer filter of `NameServerPool::send` -/
def answerFilter (f : Acs) (r : Response) : Except Err Response :=
  if f.allowsAll then .ok r
  else
    let answers := r.answers.filter (addrAllowed f)
    let authorities := r.authorities.filter (addrAllowed f)
    let additionals := r.additionals.filter (addrAllowed f)
    if (answers.isEmpty && !r.answers.isEmpty)
        || (answers.isEmpty && authorities.isEmpty && !r.authorities.isEmpty) then
      .error (.noRecords true none [] [] none)
    else .ok { r with answers, authorities, additionals }

/-- `strip_denied_addresses` (fix a600360): the answer filter applied to the payload of a
`NoRecordsFound` outcome — authority records and referral glue (the SOA and the NS records carry
no address). -/
def stripDenied (f : Acs) : Err → Err
  | .noRecords nx soa ns auths negTtl =>
    .noRecords nx soa (ns.map fun e => (e.1, e.2.filter (addrAllowed f)))
      (auths.filter (addrAllowed f)) negTtl
  | e => e

/-- `NameServerPool::lookup` -/
def poolLookup (cfg : Config) (net : Net) (pool : Pool) (q : Query) (st : St) :
    St × Except Err Response :=
  let st := { st with lookups := st.lookups + 1 }
  match trySend net q pool.ips st with
  | (st, .ok r) => (st, answerFilter cfg.answerFilter r)
  | (st, .error e) =>
    (st, .error (if cfg.answerFilter.allowsAll then e else stripDenied cfg.answerFilter e))

/-! ## the response cache (crates/resolver/src/cache.rs) as one request sees it -/

def rcGet (c : List (Query × Except Err Response)) (q : Query) : Option (Except Err Response) :=
  (c.find? fun e => e.1.same q).map (·.2)

def rcPut (c : List (Query × Except Err Response)) (q : Query) (v : Except Err Response) :
    List (Query × Except Err Response) :=
  (q, v) :: c.filter fun e => !e.1.same q

/-- lifetime `ResponseCache::insert` gives a positive entry: the least TTL of the records of the
query type (or CNAME) in any section, else `positive_min_ttl = 0` -/
def positiveTtl (q : Query) (r : Response) : Nat :=
  match (r.all.filter fun x => x.rtype == q.qtype || x.rtype == T_CNAME).map (·.ttl) with
  | [] => 0
  | t :: ts => ts.foldl min t

/-- `ResponseCache::insert` of a message; an entry with lifetime 0 is gone before it can be read -/
def cacheOk (st : St) (q : Query) (r : Response) : St :=
  if positiveTtl q r == 0 then st else { st with rcache := rcPut st.rcache q (.ok r) }

/-- `ResponseCache::insert` of an error: only `NoRecordsFound` with a positive negative-TTL stays -/
def cacheErr (st : St) (q : Query) (e : Err) : St :=
  match e with
  | .noRecords _ _ _ _ (some t) => if t == 0 then st else { st with rcache := rcPut st.rcache q (.error e) }
  | _ => st

/-- `strip_out_of_bailiwick` (fix 030930c): the bailiwick rule applied to the payload of a
`NoRecordsFound` outcome — an out-of-bailiwick SOA goes together with the negative TTL derived from
it; referral NS records, their glue and the authority records are filtered. -/
def stripErr (zone : Name) : Err → Err
  | .noRecords nx soa ns auths negTtl =>
    let dropSoa := match soa with
      | some s => !isSubzone zone s.name
      | none => false
    .noRecords nx (if dropSoa then none else soa)
      ((ns.filter fun e => isSubzone zone e.1.name).map fun e => (e.1, bailiwick zone e.2))
      (bailiwick zone auths)
      (if dropSoa then none else negTtl)
  | e => e

/-- `RecursorDnsHandle::lookup` -/
def lookup (cfg : Config) (net : Net) (q : Query) (zone : Name) (pool : Pool) (st : St) :
    St × Except Err Response :=
  let st := { st with asked := (pool.zone, zone, q) :: st.asked }
  match poolLookup cfg net pool q st with
  | (st, .error e) => (cacheErr st q (stripErr zone e), .error (stripErr zone e))
  | (st, .ok r) =>
    match filterResponse zone r with
    | none => (st, .error (.noRecords true none [] [] none))
    | some r' => (cacheOk st q r', .ok r')

/-! ## `ns_pool_for_name` -/

/-- `Name::trim_to`: the last `k` labels, fully qualified.  (`Name::trim_to` goes through
`from_labels(..).unwrap()`, which cannot fail on a name the Rust type can hold; `Proofs/C19.lean`,
`trimTo_eq`, shows this total function is the model of C04 on every such name.) -/
def trim (n : Name) (k : Nat) : Name :=
  if k > n.labels.length then n
  else { labels := n.labels.drop (n.labels.length - k), fqdn := true }

/-- `Name::base_name` -/
def base (n : Name) : Name :=
  if n.labels.length > 0 then trim n (n.labels.length - 1) else n

/-- the zones `ns_pool_for_name` walks: `trim_to(1) … trim_to(num_labels)` -/
def zonesOf (n : Name) : List Name := (List.range n.numLabels).map fun i => trim n (i + 1)

abbrev GlueMap := List (Name × List Ip)

def glueGet (m : GlueMap) (n : Name) : Option (List Ip) :=
  (m.find? fun e => e.1.eq n).map (·.2)

def gluePut (m : GlueMap) (n : Name) (ip : Ip) : GlueMap :=
  match glueGet m n with
  | none => m ++ [(n, [ip])]
  | some _ => m.map fun e => if e.1.eq n then (e.1, if e.2.contains ip then e.2 else e.2 ++ [ip]) else e

/-- `add_glue_to_map`: every A/AAAA record whose address the name-server filter does not deny -/
def addGlue (f : Acs) (m : GlueMap) : List Record → GlueMap
  | [] => m
  | r :: rs =>
    match r.data.ip? with
    | some ip => if f.denied ip then addGlue f m rs else addGlue f (gluePut m r.name ip) rs
    | none => addGlue f m rs

def nsGet (c : List (Name × Pool)) (z : Name) : Option Pool :=
  (c.find? fun e => e.1.eq z).map (·.2)

def nsPut (c : List (Name × Pool)) (z : Name) (p : Pool) : List (Name × Pool) :=
  (z, p) :: c.filter fun e => !e.1.eq z

/-- glue from cached address responses for one NS target (`for record_type in [A, AAAA]`) -/
def cachedGlue (f : Acs) (st : St) (target : Name) (m : GlueMap) : GlueMap :=
  let m := match rcGet st.rcache ⟨target, T_A⟩ with
    | some (.ok r) => addGlue f m r.all
    | _ => m
  match rcGet st.rcache ⟨target, T_AAAA⟩ with
  | some (.ok r) => addGlue f m r.all
  | _ => m

/-- the `for zns in response.all_sections()` loop: NS records whose owner is in the bailiwick of
the parent contribute their glue addresses, or their target name to `need`. -/
def collectNs (f : Acs) (st : St) (parent : Name) :
    List Record → GlueMap → List Ip → List Name → List Ip × List Name
  | [], _, config, need => (config, need)
  | r :: rs, m, config, need =>
    match r.data with
    | .ns target =>
      if !isSubzone parent r.name then collectNs f st parent rs m config need
      else
        let m := cachedGlue f st target m
        match glueGet m target with
        | some (ip :: ips) => collectNs f st parent rs m (config ++ ip :: ips) need
        | _ => collectNs f st parent rs m config (need ++ [target])
    | _ => collectNs f st parent rs m config need

/-- the recursive call of `ns_pool_for_name`, as seen by the inner loops -/
abbrev NsRec := Name → Nat → St → St × Except Err (Nat × Pool)

/-- first half of `append_ips_from_lookup`: choose the pool to ask for each name server name -/
def pickPools (rec : NsRec) (zone : Name) (depth : Nat) (pool : Pool) :
    List Name → St → St × List (Pool × Name)
  | [], st => (st, [])
  | n :: ns, st =>
    if !isSubzone zone n then
      match rec n depth st with
      | (st, .ok (_, p)) =>
        let (st, rest) := pickPools rec zone depth pool ns st
        (st, ({ p with zone := zone }, n) :: rest)
      | (st, .error _) => pickPools rec zone depth pool ns st
    else
      let (st, rest) := pickPools rec zone depth pool ns st
      (st, (pool, n) :: rest)

/-- addresses taken from one address lookup of `append_ips_from_lookup`: every address in the
answer section that the name-server filter does not deny — the owner name is not looked at. -/
def answerIps (f : Acs) (r : Response) : List Ip :=
  (r.answers.filterMap fun x => x.data.ip?).filter fun ip => !f.denied ip

def lookupAddr (cfg : Config) (net : Net) (p : Pool) (n : Name) (ty : Nat) (st : St) : St × List Ip :=
  match poolLookup cfg net p ⟨n, ty⟩ st with
  | (st, .ok r) => (st, answerIps cfg.serverFilter r)
  | (st, .error _) => (st, [])

/-- second half of `append_ips_from_lookup`: A and AAAA lookups through the chosen pools (straight
to the pool: neither the response cache nor the bailiwick filter is involved) -/
def lookupAddrs (cfg : Config) (net : Net) : List (Pool × Name) → St → St × List Ip
  | [], st => (st, [])
  | (p, n) :: rest, st =>
    let (st, a) := lookupAddr cfg net p n T_A st
    let (st, b) := lookupAddr cfg net p n T_AAAA st
    let (st, c) := lookupAddrs cfg net rest st
    (st, a ++ b ++ c)

/-- `append_ips_from_lookup` -/
def appendIps (cfg : Config) (net : Net) (rec : NsRec) (zone : Name) (depth : Nat) (pool : Pool)
    (need : List Name) (st : St) : St × List Ip :=
  let (st, pools) := pickPools rec zone depth pool need st
  lookupAddrs cfg net pools st

/-- outcome of one iteration of the zone loop -/
inductive Step where
  /-- `continue` with the same or a new pool -/
  | next (depth : Nat) (pool : Pool)
  /-- `return Err(e)` -/
  | fail (e : Err)

/-- the NS query of one iteration: from the response cache, else asked of the current pool with the
parent zone as bailiwick -/
def nsQuery (cfg : Config) (net : Net) (zone : Name) (pool : Pool) (st : St) :
    St × Except Err Response :=
  match rcGet st.rcache ⟨zone, T_NS⟩ with
  | some v => (st, v)
  | none => lookup cfg net ⟨zone, T_NS⟩ (base zone) pool st

/-- "get all the NS records and glue": builds the pool of `zone` from the NS response and stores it
in the name-server cache -/
def buildPool (cfg : Config) (net : Net) (rec : NsRec) (zone : Name) (depth : Nat) (pool : Pool)
    (resp : Response) (st : St) : St × Pool :=
  let glue := addGlue cfg.serverFilter [] resp.all
  let cn := collectNs cfg.serverFilter st (base zone) resp.all glue [] []
  let r : St × List Ip :=
    if cn.1.isEmpty && !cn.2.isEmpty then appendIps cfg net rec zone depth pool cn.2 st
    else (st, cn.1)
  let newPool : Pool := { ips := r.2, zone := zone }
  ({ r.1 with nscache := nsPut r.1.nscache zone newPool }, newPool)

/-- one iteration of the `for i in 1..=num_labels` loop of `ns_pool_for_name` -/
def nsStep (cfg : Config) (net : Net) (rec : NsRec) (zone : Name) (depth : Nat) (pool : Pool)
    (st : St) : St × Step :=
  match nsGet st.nscache zone with
  | some p => (st, .next depth p)
  | none =>
    if !(depth + 1 < cfg.nsRecursionLimit) then (st, .fail .limit)
    else
      match nsQuery cfg net zone pool st with
      | (st, .error e) => if e.isNx then (st, .fail e) else (st, .next (depth + 1) pool)
      | (st, .ok resp) =>
        if !(resp.all.any fun r => r.rtype == T_NS && r.name.eq zone) then
          (st, .next (depth + 1) pool)
        else
          match buildPool cfg net rec zone (depth + 1) pool resp st with
          | (st, p) => (st, .next (depth + 1) p)

def nsLoop (cfg : Config) (net : Net) (rec : NsRec) :
    List Name → Nat → Pool → St → St × Except Err (Nat × Pool)
  | [], depth, pool, st => (st, .ok (depth, pool))
  | z :: zs, depth, pool, st =>
    match nsStep cfg net rec z depth pool st with
    | (st, .fail e) => (st, .error e)
    | (st, .next depth pool) => nsLoop cfg net rec zs depth pool st

def rootPool (cfg : Config) : Pool := { ips := cfg.roots, zone := Name.root }

/-- `ns_pool_for_name`; the fuel stands for the nesting of recursive calls, which the depth
counter bounds by `ns_recursion_limit` -/
def nsPoolFuel (cfg : Config) (net : Net) : Nat → NsRec
  | 0 => fun _ _ st => (st, .error .fuel)
  | f + 1 => fun name depth st =>
    nsLoop cfg net (nsPoolFuel cfg net f) (zonesOf name) depth (rootPool cfg) st

def nsPoolForName (cfg : Config) (net : Net) : NsRec :=
  nsPoolFuel cfg net (cfg.nsRecursionLimit + 1)

/-! ## `resolve` / `resolve_cnames` -/

abbrev ResRec := Query → Nat → St → St × Except Err Response

def cnameTarget? (r : Record) : Option Name :=
  match r.data with
  | .cname t => some t
  | _ => none

/-- what `resolve_cnames` takes over from the answer of a CNAME target: records of the query type,
CNAMEs, and RRSIGs covering either -/
def chainKeeps (qtype : Nat) (x : Record) : Bool :=
  x.rtype == qtype || x.rtype == T_CNAME ||
    match x.data with
    | .rrsig c => c == qtype || c == T_CNAME
    | _ => false

/-- `RecordType::is_dnssec` on the record types of the simulated internets (only RRSIG records
occur; DS appears as a query type only) -/
def isDnssecType (t : Nat) : Bool := t == T_RRSIG

/-- `Message::maybe_strip_dnssec_records` -/
def stripDnssec (dnssecOk : Bool) (q : Query) (r : Response) : Response :=
  if dnssecOk then r
  else
    let keep := fun (x : Record) => x.rtype == q.qtype || !isDnssecType x.rtype
    { r with answers := r.answers.filter keep, authorities := r.authorities.filter keep,
             additionals := r.additionals.filter keep }

/-- the last step of `RecursorDnsHandle::resolve` on a successful outcome -/
def stripRes (cfg : Config) (q : Query) : St × Except Err Response → St × Except Err Response
  | (st, .ok r) => (st, .ok (stripDnssec cfg.dnssecOk q r))
  | x => x

/-- the `for rec in response.all_sections()` loop of `resolve_cnames` -/
def chaseLoop (rec : ResRec) (resp : Response) (qtype : Nat) (depth : Nat) :
    List Record → List Record → St → St × Except Err (List Record)
  | [], chain, st => (st, .ok chain)
  | r :: rs, chain, st =>
    match cnameTarget? r with
    | none => chaseLoop rec resp qtype depth rs chain st
    | some target =>
      if resp.answers.any fun x => x.name.eq target then chaseLoop rec resp qtype depth rs chain st
      else
        -- the budget is charged for every target, whether its answer is cached or not
        let st := { st with cnames := st.cnames + 1 }
        if st.cnames > MAX_CNAME_LOOKUPS then (st, .error .cnameLimit)
        else
          match rec ⟨target, qtype⟩ depth { st with targets := st.targets + 1 } with
          | (st, .error e) => (st, .error e)
          | (st, .ok r') =>
            let more := r'.answers.filter (chainKeeps qtype)
            chaseLoop rec resp qtype depth rs (chain ++ more) st

/-- `resolve_cnames` -/
def resolveCnames (cfg : Config) (rec : ResRec) (resp : Response) (q : Query) (depth : Nat)
    (st : St) : St × Except Err Response :=
  if q.qtype == T_CNAME || q.qtype == T_ANY then (st, .ok resp)
  else if !(resp.all.any fun r => r.rtype == T_CNAME) then (st, .ok resp)
  else
    let depth := depth + 1
    if !(depth < cfg.recursionLimit) then (st, .error .limit)
    else
      match chaseLoop rec resp q.qtype depth resp.all [] st with
      | (st, .error e) => (st, .error e)
      | (st, .ok chain) => (st, .ok { resp with answers := resp.answers ++ chain })

/-- `filtered_cache_lookup`, else `lookup` with the zone of the pool as bailiwick -/
def answerQuery (cfg : Config) (net : Net) (q : Query) (pool : Pool) (st : St) :
    St × Except Err Response :=
  match rcGet st.rcache q with
  | some (.error e) => (st, .error e)
  | some (.ok r) => if r.aa then (st, .ok r) else lookup cfg net q pool.zone pool st
  | none => lookup cfg net q pool.zone pool st

/-- `RecursorDnsHandle::resolve` after the first cache probe missed -/
def resolveMiss (cfg : Config) (net : Net) (rec : ResRec) (q : Query) (depth : Nat) (st : St) :
    St × Except Err Response :=
  let zone := if q.qtype == T_DS then base q.name else q.name
  match nsPoolForName cfg net zone depth st with
  | (st, .error e) => if e.isNx then (st, .error e) else (st, .error .other)
  | (st, .ok (depth, pool)) =>
    match answerQuery cfg net q pool st with
    | (st, .error e) => (st, .error e)
    | (st, .ok resp) => stripRes cfg q (resolveCnames cfg rec resp q depth st)

/-- `RecursorDnsHandle::resolve`; the fuel stands for the nesting of `resolve_cnames → resolve`,
which the depth counter bounds by `recursion_limit` -/
def resolveFuel (cfg : Config) (net : Net) : Nat → ResRec
  | 0 => fun _ _ st => (st, .error .fuel)
  | f + 1 => fun q depth st =>
    match rcGet st.rcache q with
    | some (.error e) => (st, .error e)
    | some (.ok r) =>
      if r.aa then stripRes cfg q (resolveCnames cfg (resolveFuel cfg net f) r q depth st)
      else resolveMiss cfg net (resolveFuel cfg net f) q depth st
    | none => resolveMiss cfg net (resolveFuel cfg net f) q depth st

/-- `Recursor::resolve` (non-validating): fresh depth and CNAME budget -/
def resolve (cfg : Config) (net : Net) (q : Query) (st : St) : St × Except Err Response :=
  if !q.name.fqdn then (st, .error .other)
  else resolveFuel cfg net (cfg.recursionLimit + 1) q 0 { st with cnames := 0 }

/-! ## class predicates of the known findings (mirrored by harness/src/props/c19.rs) -/

/-- `C19.GluelessNsAddressOwnerUnchecked`: a response to an address query whose answer section
carries an address record under an owner other than the queried name. -/
def foreignOwnerAnswer (q : Query) (r : Response) : Bool :=
  (q.qtype == T_A || q.qtype == T_AAAA) &&
    r.answers.any fun x => x.data.ip?.isSome && !x.name.eq q.name

/-- (historic, fixed by 030930c — kept as the shape of the regression cases) a response that
`from_response` turns into `NoRecordsFound` while its authority / additional section carries a
record outside `zone`. -/
def negativeWithForeignRecords (zone : Name) (q : Query) (r : Response) : Bool :=
  (match fromResponse q r with
   | .error (.noRecords ..) => true
   | _ => false) &&
    (r.authorities ++ r.additionals).any fun x => !isSubzone zone x.name

/-- (historic, fixed by a600360 — kept as the shape of the regression cases) a negative response
whose authority / additional section carries an address record the answer filter denies. -/
def negativeWithDeniedAddress (f : Acs) (q : Query) (r : Response) : Bool :=
  (match fromResponse q r with
   | .error (.noRecords ..) => true
   | _ => false) &&
    (r.authorities ++ r.additionals).any fun x => !addrAllowed f x

/-- `C19.TruncatedStreamAnswerRetriedUnbounded`: the server sets TC on its answer over stream
transports too — `PoolState::try_send` then asks it again and again until its wall-clock deadline. -/
def truncatesAlways (r : Response) : Bool := r.tc == 2

/-! ## stub resolver alias chasing (`CachingClient::inner_lookup`, `DepthTracker`) -/

/-- `DepthTracker::MAX_QUERY_DEPTH` (tied to the source by `Proofs/TiesC19.lean`) -/
def MAX_QUERY_DEPTH : Nat := 8

/-- `DepthTracker::is_exhausted` -/
def depthExhausted (d : Nat) : Bool := d + 1 ≥ MAX_QUERY_DEPTH

/-- what `handle_noerror` makes of one upstream response for `(name, qtype)`; `preserved` says
whether CNAME records of earlier hops have been accumulated (`preserved_records` non-empty) -/
inductive StubStep where
  /-- `Records::Exists` -/
  | found
  /-- `Records::CnameChain`: ask for `target` next; `cnames` = the response carried CNAME records
  (they are what `preserve_intermediates` accumulates — an SRV redirection leaves nothing) -/
  | alias (target : Name) (cnames : Bool)
  /-- `NoRecordsFound` / upstream error -/
  | nothing

/-- the `fold` over the answer section in `handle_noerror`: follow CNAMEs that continue the chain -/
def foldCnames (search : Name) (was : Bool) : List Record → Name × Bool
  | [] => (search, was)
  | r :: rs =>
    match r.data with
    | .cname t => if search.eq r.name then foldCnames t true rs else foldCnames search was rs
    | .srv t => foldCnames t true rs
    | _ => foldCnames search was rs

/-- the decision at the end of `handle_noerror` -/
def stubDecide (found was preserved : Bool) (depth : Nat) (search : Name) (cnames : Bool) :
    StubStep :=
  if found && (!was || !preserved) then .found
  else if was && !depthExhausted depth then .alias search cnames
  else .nothing

def stubClassify (q : Query) (preserved : Bool) (depth : Nat) (up : Except Err Response) : StubStep :=
  match up with
  | .error _ => .nothing
  | .ok r =>
    match fromResponse q r with
    | .error _ => .nothing
    | .ok r =>
      let sw :=
        if q.qtype == T_ANY || q.qtype == T_CNAME then (q.name, false)
        else foldCnames q.name false r.answers
      let found := r.all.any fun x =>
        (q.qtype == T_ANY || x.rtype == q.qtype) && (sw.1.eq x.name || q.name.eq x.name)
      stubDecide found sw.2 preserved depth sw.1 (r.all.any fun x => x.rtype == T_CNAME)

/-- `inner_lookup` without the cache: returns (answered?, number of upstream queries).  The
recursion is on the distance of the `DepthTracker` to `MAX_QUERY_DEPTH`. -/
def stubLookup (up : Query → Except Err Response) (pi : Bool) :
    Nat → Query → Nat → Bool → Bool × Nat
  | 0, _, _, _ => (false, 0)
  | f + 1, q, depth, preserved =>
    match stubClassify q preserved depth (up q) with
    | .found => (true, 1)
    | .nothing => (false, 1)
    | .alias target cnames =>
      -- with `preserve_intermediates` the CNAME records of this hop are carried along
      let r := stubLookup up pi f ⟨target, q.qtype⟩ (depth + 1) (preserved || (pi && cnames))
      (r.1, r.2 + 1)

/-- `CachingClient::lookup`; `pi` = `ResolverOpts::preserve_intermediates` -/
def stubResolve (up : Query → Except Err Response) (q : Query) (pi : Bool := true) : Bool × Nat :=
  stubLookup up pi MAX_QUERY_DEPTH q 0 false

end HickoryVerif.Recursor
