/-
Model of the UDP client receive path of hickory-dns (crates/net/src/udp/udp_client_stream.rs):

* `examine`  — the body of the `for _ in 0..3` loop of `UdpRequest::send` for one received
  datagram: source check (canonical ip + port), `DnsResponse::from_buffer` (parse + QR bit),
  id check, question check, 0x20 case check, accept;
* `recvLoop` / `recv` — the loop itself (three `recv_from` results are examined per transmission,
  whatever they are), then `Err("udp receive attempts exceeded")`;
* `query` — `retry()` under `P::Timer::timeout`: a transmission every `interval` up to
  `max(1, max_retries)` of them, the *first transmission that completes — with a response or with an
  error —* ends the query; otherwise the overall timeout does.

A datagram is abstracted to exactly the fields the loop inspects.  Times are naturals (ms).
Core Lean only.
-/
import HickoryVerif.Model.Name

namespace HickoryVerif.UdpMatch
open HickoryVerif

/-- `IpAddr` as the integer value of the address. -/
inductive Ip where
  | v4 (a : Nat)
  | v6 (a : Nat)
  deriving DecidableEq, Repr, Inhabited

/-- `IpAddr::to_canonical`: an IPv4-mapped IPv6 address (`::ffff:a.b.c.d`) becomes the IPv4 address. -/
def Ip.canon : Ip → Ip
  | .v4 a => .v4 a
  | .v6 a => if a / 4294967296 = 65535 then .v4 (a % 4294967296) else .v6 a

structure Addr where
  ip : Ip
  port : Nat
  deriving DecidableEq, Repr, Inhabited

/-- `Query` restricted to what `PartialEq` looks at (no mdns feature): name, type code, class code. -/
structure Question where
  name : Name
  qtype : Nat
  qclass : Nat
  deriving DecidableEq, Repr, Inhabited

/-- derived `PartialEq for Query`: `Name ==` is case-insensitive. -/
def Question.eq (a b : Question) : Bool :=
  Name.eq a.name b.name && a.qtype == b.qtype && a.qclass == b.qclass

/-- What the receive loop can see of a datagram. -/
structure Datagram where
  src : Addr
  /-- `Message::from_vec` succeeds -/
  parses : Bool
  /-- header QR bit says "response" (`DnsResponse::from_buffer` rejects anything else) -/
  isResponse : Bool
  id : Nat
  questions : List Question
  deriving DecidableEq, Repr, Inhabited

/-- One completion of `socket.recv_from(..).await`. -/
inductive Event where
  | dgram (d : Datagram)
  /-- `recv_from` returned `Err(io)` -/
  | ioErr
  /-- pseudo-event put *first* on a transmission whose set-up fails before anything is received:
  the request does not encode (`request.to_vec()?`), `NextRandomUdpSocket` gives up
  (`.await?`), `send_to` fails or sends fewer bytes than the message has. Takes nothing from the
  socket. -/
  | setupFail
  deriving DecidableEq, Repr, Inhabited

structure Request where
  server : Addr
  id : Nat
  questions : List Question
  /-- `request.options().case_randomization` -/
  caseRand : Bool
  /-- a TSIG signer is configured and `should_sign_message` holds (UPDATE / NOTIFY / an AXFR or IXFR
  question): the request goes out signed and the accepted reply is passed to `verifier.verify`.
  Datagrams are modelled *unsigned* (the abstraction has no TSIG field; a correctly signed reply is
  outside the model), so verification of whatever reaches it fails. -/
  signed : Bool := false
  deriving Repr, Inhabited

inductive SkipWhy where
  | source | id | question
  deriving DecidableEq, Repr

inductive FailWhy where
  | io | parse | notResponse | caseMismatch | setup | tsig
  deriving DecidableEq, Repr

inductive Step where
  | skip (w : SkipWhy)   -- `continue`
  | fail (w : FailWhy)   -- `return Err(..)` / `?`
  | accept               -- `return Ok(response)`
  deriving DecidableEq, Repr

/-- `request_queries.contains(elem)` -/
def asked (rq : Request) (e : Question) : Bool := rq.questions.any fun r => r.eq e

/-- `request_queries.iter().any(|req_q| req_q == elem && req_q.name.eq_case(&elem.name))` -/
def askedCase (rq : Request) (e : Question) : Bool :=
  rq.questions.any fun r => r.eq e && Name.eqCase r.name e.name

def sourceOk (rq : Request) (d : Datagram) : Bool :=
  decide (d.src.ip.canon = rq.server.ip.canon) && decide (d.src.port = rq.server.port)

/-- body of the loop for one datagram, in the order of the code. -/
def examineD (rq : Request) (d : Datagram) : Step :=
  if !sourceOk rq d then .skip .source
  else if !d.parses then .fail .parse
  else if !d.isResponse then .fail .notResponse
  else if rq.id ≠ d.id then .skip .id
  else
    let questionMatches := d.questions.all (asked rq)
    if rq.caseRand && questionMatches && !(d.questions.all (askedCase rq)) then .fail .caseMismatch
    else if !questionMatches then .skip .question
    -- `if let Some(mut verifier) = verifier { return Ok(verifier.verify(response_bytes)?) }`
    else if rq.signed then .fail .tsig
    else .accept

/-- Decidable class `C16.udp-query-ended-by-undecodable-or-nonresponse-datagram-from-queried-address`:
a datagram from the queried address and port that does not decode or is not a response. The loop does
not skip it: `DnsResponse::from_buffer(..)?` ends the transmission with an error. -/
def endsUndecodable (rq : Request) (d : Datagram) : Bool :=
  sourceOk rq d && (!d.parses || !d.isResponse)

/-- Decidable class `C16.udp-query-ended-by-case-mismatched-reply`: case randomisation on, right
address, port and id, a decodable response whose questions were all asked up to letter case but not
letter for letter. The loop does not skip it: `return Err(NetError::QueryCaseMismatch)` (deliberate:
callers fall back to TCP on it). -/
def endsCaseMismatch (rq : Request) (d : Datagram) : Bool :=
  sourceOk rq d && d.parses && d.isResponse && decide (rq.id = d.id) && rq.caseRand &&
    d.questions.all (asked rq) && !d.questions.all (askedCase rq)

/-- an (unsigned) reply to a TSIG-signed query that passes every other check: `verifier.verify` fails
and the error ends the transmission. By the property's four criteria this datagram *matches*; it is
not one of the known-finding classes. -/
def endsUnsigned (rq : Request) (d : Datagram) : Bool :=
  rq.signed && sourceOk rq d && d.parses && d.isResponse && decide (rq.id = d.id) &&
    d.questions.all (asked rq) && (!rq.caseRand || d.questions.all (askedCase rq))

/-- a datagram that is neither accepted nor skipped: the two known-finding classes, or the unsigned
reply to a signed query -/
def endsInsteadOfSkipped (rq : Request) (d : Datagram) : Bool :=
  endsUndecodable rq d || endsCaseMismatch rq d || endsUnsigned rq d

def examine (rq : Request) : Event → Step
  | .ioErr => .fail .io
  | .setupFail => .fail .setup
  | .dgram d => examineD rq d

/-- How one transmission's receive loop ends. Indices are positions in the arrival list. -/
inductive RecvOutcome where
  /-- `Ok(response)` for the datagram at this index -/
  | accept (idx : Nat)
  /-- `Err(..)` caused by the event at this index -/
  | fail (idx : Nat) (w : FailWhy)
  /-- three events examined, none accepted: `Err("udp receive attempts exceeded")` -/
  | exceeded
  /-- the arrival list ran out first: the future stays pending (until the query's timeout) -/
  | starved (consumed : Nat)
  deriving DecidableEq, Repr

/-- the `for _ in 0..3` loop; `fuel` = iterations left, `i` = index of the next event. -/
def recvLoop (rq : Request) : Nat → Nat → List Event → RecvOutcome
  | 0, _, _ => .exceeded
  | _ + 1, i, [] => .starved i
  | n + 1, i, e :: es =>
    match examine rq e with
    | .accept => .accept i
    | .fail w => .fail i w
    | .skip _ => recvLoop rq n (i + 1) es

/-- the loop bound of the code -/
def MAX_EXAMINED : Nat := 3

def recv (rq : Request) (es : List Event) : RecvOutcome := recvLoop rq MAX_EXAMINED 0 es

/-- number of `recv_from` results the loop took -/
def RecvOutcome.consumed : RecvOutcome → Nat
  | .accept i => i + 1
  | .fail i w => if w = .setup then i else i + 1
  | .exceeded => MAX_EXAMINED
  | .starved c => c

/-! ## socket set-up (`NextRandomUdpSocket`, udp_stream.rs; `send_to`) -/

/-- `NextRandomUdpSocket::poll`: a bind failing with `AddrInUse` / `PermissionDenied` is retried while
`attempted < ATTEMPT_RANDOM + 1`, i.e. eleven such failures are tolerated and the twelfth is returned. -/
def BIND_RETRIES : Nat := 11

/-- does the set-up of a transmission fail: `retryable` = number of consecutive `AddrInUse` /
`PermissionDenied` results the provider gives, `fatal` = a bind error of another kind, `sendOk` =
`send_to` succeeds and reports the full length. -/
def setupFails (retryable : Nat) (fatal sendOk : Bool) : Bool :=
  fatal || decide (retryable > BIND_RETRIES) || !sendOk

/-! ## the query: retransmissions and the overall timeout -/

structure Config where
  /-- `UdpClientStream.timeout` (ms) -/
  timeout : Nat
  /-- `max(request.options().retry_interval, retry_interval_floor)` (ms) -/
  interval : Nat
  /-- `max_retries` -/
  maxRetries : Nat
  deriving Repr, Inhabited

/-- `send_message`: `if retry_interval_time < self.retry_interval_floor { floor } else { retry_interval_time }` -/
def retryInterval (requested floor : Nat) : Nat := if requested < floor then floor else requested

/-- An event together with the delay (ms) since the previous event on the same socket
(since the transmission for the first one). -/
abbrev Timed := Nat × Event

/-- result of a whole query -/
inductive QueryOutcome where
  /-- response = event `idx` of transmission `t` -/
  | ok (t idx : Nat)
  | err
  | timeout
  deriving DecidableEq, Repr

/-- completion of one transmission started at `start`: `(time, outcome)`; `none` = never completes. -/
def completion (rq : Request) (start : Nat) (s : List Timed) : Option (Nat × RecvOutcome) :=
  let o := recv rq (s.map Prod.snd)
  match o with
  | .starved _ => none
  | _ => some (start + ((s.take o.consumed).map Prod.fst).sum, o)

/-- number of transmissions `retry()` can start: `tasks` starts at 1 and grows while `< max_tasks`. -/
def Config.tasks (c : Config) : Nat := max 1 c.maxRetries

/-- The earliest completion among transmissions `i, i+1, …` (`n` of them left), if before the
timeout.  Transmission `i` starts at `i * interval`; a transmission that would start after an
earlier one has completed is never started, but then it cannot be the earliest either. On equal
times the lower transmission wins (the generator avoids ties). -/
def earliest (c : Config) (rq : Request) : Nat → Nat → List (List Timed) → Option (Nat × Nat × RecvOutcome)
  | 0, _, _ => none
  | n + 1, i, ss =>
    let rest := earliest c rq n (i + 1) ss.tail
    match completion rq (i * c.interval) (ss.headD []) with
    | some (t, o) =>
      if t < c.timeout then
        match rest with
        | some (t', i', o') => if t' < t then some (t', i', o') else some (t, i, o)
        | none => some (t, i, o)
      else rest
    | none => rest

def outcomeOf : Option (Nat × Nat × RecvOutcome) → QueryOutcome
  | some (_, i, .accept j) => .ok i j
  | some _ => .err
  | none => .timeout

/-- `send_message(request)` → first item of the response stream. -/
def query (c : Config) (rq : Request) (ss : List (List Timed)) : QueryOutcome :=
  outcomeOf (earliest c rq c.tasks 0 ss)

/-- which known-finding class, if any, the end of a query falls in -/
inductive EndClass where
  | none | undecodable | caseMismatch
  deriving DecidableEq, Repr

/-- The query was ended by a datagram that the property wants skipped: the transmission that ended
it failed on its 1st or 2nd datagram (on the 3rd the transmission is over either way, so nothing is
observable) and that datagram is in one of the two classes. -/
def queryEndClass (c : Config) (rq : Request) (ss : List (List Timed)) : EndClass :=
  match earliest c rq c.tasks 0 ss with
  | some (_, i, .fail j _) =>
    if j + 1 < MAX_EXAMINED then
      match (ss.getD i [])[j]? with
      | some (_, .dgram d) =>
        if endsUndecodable rq d then .undecodable
        else if endsCaseMismatch rq d then .caseMismatch else .none
      | _ => .none
    else .none
  | _ => .none

/-- time at which the query ends -/
def endTime (c : Config) (rq : Request) (ss : List (List Timed)) : Nat :=
  match earliest c rq c.tasks 0 ss with
  | some (t, _, _) => t
  | none => c.timeout

/-- number of events transmission `i` (script `s`) has taken from its socket when the query ends at
`tEnd`: those of its loop that arrived strictly before `tEnd`, or up to `tEnd` for the transmission
that ended the query (`winner`). -/
def takenBy (rq : Request) (start tEnd : Nat) (winner : Bool) (s : List Timed) : Nat :=
  let o := recv rq (s.map Prod.snd)
  let pre := s.take o.consumed
  let rec go (t : Nat) (k : Nat) : List Timed → Nat
    | [] => k
    | (d, _) :: r =>
      let t' := t + d
      if t' < tEnd ∨ (winner ∧ t' = tEnd) then go t' (k + 1) r else k
  go start 0 pre

/-- per started transmission: how many datagrams it consumed. A transmission is started iff its
start time is before the end of the query (or it is the one that ends it). -/
def consumedList (c : Config) (rq : Request) (ss : List (List Timed)) : List Nat :=
  let e := earliest c rq c.tasks 0 ss
  let tEnd := endTime c rq ss
  let w : Option Nat := e.map fun x => x.2.1
  (List.range c.tasks).filterMap fun i =>
    if i = 0 ∨ i * c.interval < tEnd ∨ w == some i then
      some (takenBy rq (i * c.interval) tEnd (w == some i) (ss.getD i []))
    else none

end HickoryVerif.UdpMatch
