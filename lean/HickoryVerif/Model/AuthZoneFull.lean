/-
The parts of the query path that `Model/AuthZone.lean` / `AuthZoneSigned.lean` leave out because
the property theorems never need them, modelled as coded so that the correspondence run covers
them too:

* `Catalog::lookup`: QTYPE AXFR is dispatched to `zone_transfer`; with `AxfrPolicy::Deny` (the
  only policy the harness configures — transfers are C13's subject) the answer is REFUSED, AA clear;
* `InMemoryZoneHandler::lookup`: the ANAME arm — for an A / AAAA query answered by an ANAME RRset
  whose additional processing found something, the answer becomes a synthesised RRset (owner of
  the ANAME, queried type, the rdatas of the *last* additional RRset if that is an A or AAAA
  RRset), signed on the fly when DO is set and the zone has keys; the ANAME RRset is put in front
  of the additionals.

The driver uses `respondFull` only for zones that contain ANAME RRsets and for AXFR queries; all
other cases run `respond` / `respondS`, the functions the theorems are about (`zoneWF` excludes
ANAME).
-/
import HickoryVerif.Model.AuthZoneSigned

namespace HickoryVerif.AuthZone
open HickoryVerif

def zoneHasAname (z : Zone) : Bool := z.any (·.type == T_ANAME)

/-- `InMemoryZoneHandler::lookup` with the ANAME arm; `signed`: the zone has signing keys -/
def lookupFull (z : Zone) (origin name : LName) (qtype0 : Nat) (dnssecOk signed : Bool) :
    Except LookupErr Lookup :=
  match lookupAnswers z origin name qtype0 with
  | .error e => .error e
  | .ok (qtype, answers, terminal) =>
    let adds := (terminal.bind (maybeNextName · qtype)).bind fun n =>
      additionalSearch z name qtype n
    match adds, terminal with
    | some adds, some ans =>
      if ans.type == T_ANAME && (qtype == T_A || qtype == T_AAAA) then
        let rdatas :=
          match adds.getLast? with
          | some last => if last.type == T_A || last.type == T_AAAA then last.rdatas else []
          | none => []
        let newAns : RRset :=
          { name := ans.name, type := qtype, rdatas := rdatas,
            sigLabels := if dnssecOk && signed then some (Name.numLabels (asName ans.name)) else none }
        -- a CNAME chain in front keeps the chain as the answer (`(Some(chain), _) => chain`)
        let answers' := if answers.length == 1 then [newAns] else answers
        .ok { answers := answers', additionals := some (ans :: adds) }
      else .ok { answers, additionals := some adds }
    | adds, _ => .ok { answers, additionals := adds }

/-- `Catalog::lookup` + `build_authoritative_response` with everything above -/
def respondFull (z : Zone) (origin : LName) (q : Query) (dnssecOk signed nsec : Bool) : Response :=
  if q.type == T_AXFR then
    { rcode := .refused, aa := false, answers := [], authority := [], additional := [] }
  else if !zoneOf origin q.name then
    { rcode := .refused, aa := false, answers := [], authority := [], additional := [] }
  else
    match lookupFull z origin q.name q.type dnssecOk signed with
    | .error .refused =>
      { rcode := .refused, aa := true, answers := [], authority := [], additional := [] }
    | .error e =>
      let nsecs := if dnssecOk && nsec then nsecRecords z origin q.name else []
      let soa := okAnswers (lookupAnswers z origin origin T_SOA)
      { rcode := if e == .nxDomain then .nxDomain else .noError, aa := true,
        answers := [], authority := nsecs ++ soa, additional := [] }
    | .ok l =>
      let ref := isReferral origin l.answers
      let ns :=
        if q.type == T_SOA && !ref then okAnswers (lookupAnswers z origin origin T_NS)
        else if nsec && dnssecOk && hasWildcardMatch l.answers then nsecRecords z origin q.name
        else []
      let adds := l.additionals.getD []
      if ref then
        { rcode := .noError, aa := false, answers := [], authority := l.answers ++ ns, additional := adds }
      else
        { rcode := .noError, aa := true, answers := l.answers, authority := ns, additional := adds }

end HickoryVerif.AuthZone
