/-
Model of `hickory_proto::dnssec::tbs::TBS::new` (crates/proto/src/dnssec/tbs.rs) — the byte
string that is signed / verified for an RRset — together with what it calls:

* `RData::emit` under `canonical_form = true` (per type `RDataEncoding`) — each collected record's
  RDATA is pre-encoded in canonical form, the encodings are `sort`ed and `dedup`ed (RFC 4034 §6.3);
* `SigInput::emit` (dnssec/rdata/sig.rs), `determine_name` (tbs.rs).

`tbsImpl` is the code as it is (since /repo 628570a).  `tbsPreFix` is the model of `TBS::new` before
that repair, kept only for the regression theorems of `Proofs/C05PreFix.lean`: it sorted with
`impl Ord for Record` (rr/record.rs: owner, type, class, **TTL**, then `RData::cmp`), `RData::cmp`
(rr/record_data.rs) being the comparison of `to_bytes()`, the *non-canonical* encoding (fresh
`BinEncoder` at offset 0, `NameEncoding::Compressed`, original letter case), and kept duplicates.

RDATA tier modelled structurally: A, AAAA, NS, CNAME, PTR, MX, SOA, SRV, TXT.  Every other type is
`opaque key canon`: the two encodings are computed by the real code and supplied by the harness.

`Vec::sort` is a stable sort; it is modelled by stable insertion sort (`sortStable`), which
computes the same list for every comparison that is a total preorder.

Names are `Name` values (`Name.WF` is maintained by every constructor, theorem
`C04.constructors_bounded`), so the `label > 63` / `name > 255` error branches of `Name::emit`
cannot be reached and `Name.wire` is used directly.
-/
import HickoryVerif.Model.NameWire

namespace HickoryVerif
namespace Tbs

/-- big-endian `u16` -/
def be16 (n : Nat) : Bytes := [n / 256 % 256, n % 256]
/-- big-endian `u32` -/
def be32 (n : Nat) : Bytes := [n / 16777216 % 256, n / 65536 % 256, n / 256 % 256, n % 256]

inductive RData where
  /-- `A`: the 4 address octets -/
  | a (octets : Bytes)
  /-- `AAAA`: the 16 address octets (8 segments emitted big-endian) -/
  | aaaa (octets : Bytes)
  | ns (n : Name)
  | cname (n : Name)
  | ptr (n : Name)
  | mx (pref : Nat) (exchange : Name)
  | soa (mname rname : Name) (serial refresh retry expire minimum : Nat)
  | srv (prio weight port : Nat) (target : Name)
  | txt (strings : List Bytes)
  /-- any other record type: `key` = `to_bytes()`, `canon` = `emit` with `canonical_form = true`
  (`none` if that emit fails), both computed by the real code -/
  | opaque (key : Bytes) (canon : Option Bytes)
  deriving Repr, DecidableEq, Inhabited

structure Record where
  name : Name
  rtype : Nat
  cls : Nat
  ttl : Nat
  data : RData
  deriving Repr, DecidableEq, Inhabited

/-- `SigInput` (dnssec/rdata/sig.rs) -/
structure SigInput where
  typeCovered : Nat
  algorithm : Nat
  numLabels : Nat
  originalTtl : Nat
  expiration : Nat
  inception : Nat
  keyTag : Nat
  signer : Name
  deriving Repr, DecidableEq, Inhabited

/-! ### name compression inside one RDATA (only SOA can compress: rname against mname) -/

/-- wire bytes of a label sequence without the terminating root octet -/
def labelsWire (ls : List Bytes) : Bytes := (ls.map Name.emitLabel).flatten

/-- the `(start, bytes)` entries `store_label_pointer` records while a name is written at offset
`off`: one per label, `bytes` = the labels from there to the end of the name. -/
def storedSuffixes (off : Nat) : List Bytes → List (Nat × Bytes)
  | [] => []
  | l :: ls => (off, labelsWire (l :: ls)) :: storedSuffixes (off + l.length + 1) ls

/-- `COMPRESSION_CANDIDATE_LIMIT` -/
def CANDIDATE_LIMIT : Nat := 64

/-- `Name::emit` with `NameEncoding::Compressed` against the pointer table `table`
(`get_label_pointer`: first entry whose bytes equal the remaining labels; a pointer is written only
if the location fits 14 bits). -/
def emitCompressed (table : List (Nat × Bytes)) : List Bytes → Bytes
  | [] => [0]
  | l :: ls =>
    match table.find? (fun e => e.2 == labelsWire (l :: ls)) with
    | some (loc, _) =>
      if loc < 16384 then be16 (49152 + loc)
      else Name.emitLabel l ++ emitCompressed table ls
    | none => Name.emitLabel l ++ emitCompressed table ls

/-- character-strings of a TXT: `emit_character_data` fails on the first string longer than 255;
returns the bytes written so far and whether all strings were written. -/
def emitStrings : List Bytes → Bytes × Bool
  | [] => ([], true)
  | s :: ss =>
    if s.length > 255 then ([], false)
    else
      let (r, ok) := emitStrings ss
      (s.length :: s ++ r, ok)

/-- `RData::to_bytes()` : the sort key of `RData::cmp`.  On an emit error the partially written
buffer is used (`unwrap_or_else(warn!)`). -/
def toBytes : RData → Bytes
  | .a o => o
  | .aaaa o => o
  | .ns n => n.wire
  | .cname n => n.wire
  | .ptr n => n.wire
  | .mx p n => be16 p ++ n.wire
  | .soa m r s rf rt e mi =>
    m.wire ++ emitCompressed ((storedSuffixes 0 m.labels).take CANDIDATE_LIMIT) r.labels
      ++ be32 s ++ be32 rf ++ be32 rt ++ be32 e ++ be32 mi
  | .srv p w po t => be16 p ++ be16 w ++ be16 po ++ t.wire
  | .txt ss => (emitStrings ss).1
  | .opaque k _ => k

/-- `RData::emit` on an encoder with `canonical_form = true`, `NameEncoding::Uncompressed`
(as set up by `TBS::new`): `StandardRecord` and `Canonical` types lower-case their names. -/
def canonBytes : RData → Option Bytes
  | .a o => some o
  | .aaaa o => some o
  | .ns n => some n.toLowercase.wire
  | .cname n => some n.toLowercase.wire
  | .ptr n => some n.toLowercase.wire
  | .mx p n => some (be16 p ++ n.toLowercase.wire)
  | .soa m r s rf rt e mi =>
    some (m.toLowercase.wire ++ r.toLowercase.wire ++ be32 s ++ be32 rf ++ be32 rt ++ be32 e ++ be32 mi)
  | .srv p w po t => some (be16 p ++ be16 w ++ be16 po ++ t.toLowercase.wire)
  | .txt ss => if (emitStrings ss).2 then some (emitStrings ss).1 else none
  | .opaque _ c => c

/-! ### `impl Ord for Record` and the stable sort -/

/-- `impl Ord for RData` -/
def rdataCmp (a b : RData) : Ordering := compare (toBytes a) (toBytes b)

/-- `impl Ord for Record` : name, record type (`u16` code), class (`u16` code), TTL, data. -/
def recordCmp (a b : Record) : Ordering :=
  match Name.cmp a.name b.name with
  | .eq =>
    match compare a.rtype b.rtype with
    | .eq =>
      match compare a.cls b.cls with
      | .eq =>
        match compare a.ttl b.ttl with
        | .eq => rdataCmp a.data b.data
        | o => o
      | o => o
    | o => o
  | o => o

/-- stable insertion of `x`, which preceded every element of the (sorted) list in the input -/
def insertStable {α} (le : α → α → Bool) (x : α) : List α → List α
  | [] => [x]
  | y :: ys => if le x y then x :: y :: ys else y :: insertStable le x ys

/-- stable sort (`slice::sort`) -/
def sortStable {α} (le : α → α → Bool) (l : List α) : List α := l.foldr (insertStable le) []

def recordLe (a b : Record) : Bool := recordCmp a b != .gt

/-! ### `determine_name` -/

/-- `determine_name(name, num_labels)` (RFC 4035 §5.3.2 "To calculate the name").
`Name::from_labels(vec![b"*"]).unwrap()` is `*.` (fqdn). -/
def determineName (name : Name) (numLabels : Nat) : Outcome Name :=
  let fqdnLabels := name.numLabels
  if fqdnLabels = numLabels then .ok name
  else if numLabels < fqdnLabels then
    match Name.fromLabels [[42]] with
    | .ok star =>
      (name.trimTo numLabels).bind fun rightmost =>
        if !rightmost.isRoot then star.appendName rightmost else .ok star
    | _ => .panic "determine_name:unwrap"
  else .err

/-! ### `SigInput::emit` and `TBS::new` -/

/-- `SigInput::emit` under `canonical_form = true` (`RDataEncoding::Canonical`): the RRSIG RDATA
without the signature, signer name lower-cased and uncompressed. -/
def sigInputEmit (i : SigInput) : Bytes :=
  be16 i.typeCovered ++ [i.algorithm] ++ [i.numLabels] ++ be32 i.originalTtl ++ be32 i.expiration
    ++ be32 i.inception ++ be16 i.keyTag ++ i.signer.toLowercase.wire

/-- one `RR(i)` of the loop body: name | type | class | OrigTTL | RDATA length | RDATA -/
def emitRR (ownerWire : Bytes) (cls : Nat) (i : SigInput) (rdata : Bytes) : Bytes :=
  ownerWire ++ be16 i.typeCovered ++ be16 cls ++ be32 i.originalTtl ++ be16 rdata.length ++ rdata

/-- the `for record in rrset` loop; `none` = some `record.data.emit` failed -/
def emitRecords (ownerWire : Bytes) (cls : Nat) (i : SigInput) : List Record → Option Bytes
  | [] => some []
  | r :: rs =>
    match canonBytes r.data, emitRecords ownerWire cls i rs with
    | some rd, some rest => some (emitRR ownerWire cls i rd ++ rest)
    | _, _ => none

/-- the records `TBS::new` collects: same class, type covered, owner `==` name -/
def collect (name : Name) (cls : Nat) (i : SigInput) (records : List Record) : List Record :=
  records.filter fun r => cls == r.cls && i.typeCovered == r.rtype && Name.eq name r.name

/-- the encoder buffer is a `MaximalBuf` of `u16::MAX` bytes -/
def MAX_BUF : Nat := 65535

/-- `TBS::new` **before the repair 628570a** (regression model): sort by `impl Ord for Record`, no dedup -/
def tbsPreFix (name : Name) (cls : Nat) (i : SigInput) (records : List Record) : Outcome Bytes :=
  let rrset := sortStable recordLe (collect name cls i records)
  match determineName name i.numLabels with
  | .ok n =>
    match emitRecords n.toLowercase.wire cls i rrset with
    | some body =>
      let out := sigInputEmit i ++ body
      if out.length > MAX_BUF then .err else .ok out
    | none => .err
  | .err => .err
  | .panic s => .panic s

/-! ### decidable classes of the three pre-repair deviations (regression; mirrored by the harness) -/

/-- two collected records have the same canonical RDATA -/
def hasDup (rrset : List Record) : Bool :=
  match rrset with
  | [] => false
  | r :: rs => rs.any (fun s => canonBytes s.data == canonBytes r.data) || hasDup rs

/-- all collected records carry the same TTL -/
def sameTtl (rrset : List Record) : Bool :=
  match rrset with
  | [] => true
  | r :: rs => rs.all (fun s => s.ttl == r.ttl)

/-- the sort key of every collected record is its canonical RDATA (names in the RDATA already
lower-case, nothing compressed) -/
def rdataCaseCanonical (rrset : List Record) : Bool :=
  rrset.all fun r => canonBytes r.data == some (toBytes r.data)

/-! ### `TBS::new` as it is (since the repair /repo 628570a)

Each collected record's RDATA is first encoded in canonical form (a failing `emit` fails the whole
call), the encodings are `sort`ed and `dedup`ed, and the RRs are emitted from them. -/

/-- the pre-encoding loop (`record.data.emit(&mut rdata_encoder)?`) -/
def canonAll : List Record → Option (List Bytes)
  | [] => some []
  | r :: rs =>
    match canonBytes r.data, canonAll rs with
    | some b, some bs => some (b :: bs)
    | _, _ => none

/-- `Vec::dedup` : removes consecutive repeated elements -/
def dedupAdj : List Bytes → List Bytes
  | [] => []
  | [x] => [x]
  | x :: y :: r => if x = y then dedupAdj (y :: r) else x :: dedupAdj (y :: r)

/-- `Vec<u8>: Ord` -/
def bytesLe (a b : Bytes) : Bool := compare a b != .gt

/-- `TBS::new` / `TBS::from_input` -/
def tbsImpl (name : Name) (cls : Nat) (i : SigInput) (records : List Record) : Outcome Bytes :=
  match canonAll (collect name cls i records) with
  | none => .err
  | some rds =>
    let rdatas := dedupAdj (sortStable bytesLe rds)
    match determineName name i.numLabels with
    | .ok n =>
      let out := sigInputEmit i ++ (rdatas.map (emitRR n.toLowercase.wire cls i)).flatten
      if out.length > MAX_BUF then .err else .ok out
    | .err => .err
    | .panic s => .panic s

end Tbs
end HickoryVerif
