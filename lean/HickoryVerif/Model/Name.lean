/-
Model of `hickory_proto::rr::domain::{Name, Label}` (crates/proto/src/rr/domain/name.rs,
label.rs) — identity, order, combinators, text form.  The wire form (`Name::read`,
`Name::emit`) lives in `Model/NameWire.lean`.

A `Name` is the list of its labels (first label first) plus the `is_fqdn` flag; the Rust
`label_data`/`label_ends` pair is a packed representation of exactly that list.
Bytes are `Nat`s (< 256 by the `Name.WF` predicate where needed).
-/
import HickoryVerif.Basic

namespace HickoryVerif

structure Name where
  labels : List Bytes
  fqdn : Bool
  deriving Repr, DecidableEq, Inhabited

namespace Name

/-- `Name::MAX_LENGTH` -/
def MAX_LENGTH : Nat := 255

/-- `u8::to_ascii_lowercase` -/
def lowerByte (b : Nat) : Nat := if 65 ≤ b ∧ b ≤ 90 then b + 32 else b

def lowerLabel (l : Bytes) : Bytes := l.map lowerByte

def root : Name := { labels := [], fqdn := true }
def new : Name := { labels := [], fqdn := false }

def isRoot (n : Name) : Bool := n.labels.isEmpty && n.fqdn

/-- sum of label lengths = `label_data.len()` -/
def dataLen (n : Name) : Nat := (n.labels.map List.length).sum

/-- `Name::encoded_len` : `label_ends.len() + label_data.len() + 1` -/
def encodedLen (n : Name) : Nat := n.labels.length + n.dataLen + 1

/-- `Name::len` -/
def len (n : Name) : Nat :=
  (if n.labels.isEmpty then 1 else n.labels.length) + n.dataLen

/-- `Name::extend_name` (the only length check of all combinators) -/
def extendName (n : Name) (label : Bytes) : Outcome Name :=
  let newLen := n.encodedLen + label.length + 1
  if newLen > MAX_LENGTH then .err
  else .ok { n with labels := n.labels ++ [label] }

/-- `Label::from_raw_bytes` : 1 ≤ len ≤ 63 -/
def labelFromRaw (b : Bytes) : Outcome Bytes :=
  if b.isEmpty then .err else if b.length > 63 then .err else .ok b

/-- `Name::append_label` with a raw-bytes label (`IntoLabel for &[u8]`). -/
def appendLabel (n : Name) (label : Bytes) : Outcome Name :=
  (labelFromRaw label).bind fun l => n.extendName l

def extendAll (n : Name) : List Bytes → Outcome Name
  | [] => .ok n
  | l :: ls => (n.extendName l).bind fun n' => extendAll n' ls

/-- `Name::prepend_label` -/
def prependLabel (n : Name) (label : Bytes) : Outcome Name :=
  (new.appendLabel label).bind fun start =>
    (start.extendAll n.labels).map fun r => { r with fqdn := n.fqdn }

/-- `Name::append_name` -/
def appendName (n other : Name) : Outcome Name :=
  (n.extendAll other.labels).map fun r => { r with fqdn := other.fqdn }

/-- `Name::append_domain` -/
def appendDomain (n domain : Name) : Outcome Name :=
  (n.appendName domain).map fun r => { r with fqdn := true }

def appendLabels (n : Name) : List Bytes → Outcome Name
  | [] => .ok n
  | l :: ls => (n.appendLabel l).bind fun n' => appendLabels n' ls

/-- `Name::from_labels` on raw byte labels (the `labels.len() > 255` guard is subsumed
by the 255-octet check of `extend_name`; modelled all the same). -/
def fromLabels (ls : List Bytes) : Outcome Name :=
  if ls.any (fun l => !(labelFromRaw l).isOk) then .err
  else if ls.length > 255 then .err
  else appendLabels root ls

/-- `Name::to_lowercase` -/
def toLowercase (n : Name) : Name := { n with labels := n.labels.map lowerLabel }

/-- `Name::trim_to` : keeps the last `k` labels; the result of the `from_labels` branch is
always fqdn; `unwrap` is a panic site if `from_labels` fails. -/
def trimTo (n : Name) (k : Nat) : Outcome Name :=
  if k > n.labels.length then .ok n
  else match fromLabels (n.labels.drop (n.labels.length - k)) with
    | .ok r => .ok r
    | _ => .panic "trim_to:unwrap"

/-- `Name::base_name` -/
def baseName (n : Name) : Outcome Name :=
  if n.labels.length > 0 then n.trimTo (n.labels.length - 1) else .ok n

def isWildcard (n : Name) : Bool :=
  match n.labels with
  | l :: _ => l == [42]
  | [] => false

/-- `Name::num_labels` (as `Nat`; the Rust casts to `u8`) -/
def numLabels (n : Name) : Nat :=
  if n.isWildcard then n.labels.length - 1 else n.labels.length

/-- `Name::into_wildcard` -/
def intoWildcard (n : Name) : Name :=
  match n.labels with
  | [] => root
  | _ :: rest => { labels := [42] :: rest, fqdn := n.fqdn }

/-! ### comparison (`cmp_with_f`, `cmp_labels`, `PartialEq`, `Hash`) -/

/-- `LabelCmp::cmp_u8` : `ci = true` is `CaseInsensitive`. -/
def cmpU8 (ci : Bool) (a b : Nat) : Ordering :=
  if ci then compare (lowerByte a) (lowerByte b) else compare a b

/-- inner loop of `cmp_labels` on one label pair: zip the bytes, then the lengths. -/
def cmpLabel (ci : Bool) : Bytes → Bytes → Ordering
  | [], [] => .eq
  | [], _ :: _ => .lt
  | _ :: _, [] => .gt
  | a :: l, b :: r =>
    match cmpU8 ci a b with
    | .eq => cmpLabel ci l r
    | o => o

/-- outer loop of `cmp_labels` on the *reversed* label lists: zip, then the label counts. -/
def cmpRev (ci : Bool) : List Bytes → List Bytes → Ordering
  | [], [] => .eq
  | [], _ :: _ => .lt
  | _ :: _, [] => .gt
  | l :: ls, r :: rs =>
    match cmpLabel ci l r with
    | .eq => cmpRev ci ls rs
    | o => o

/-- `Name::cmp_labels` -/
def cmpLabels (ci : Bool) (a b : Name) : Ordering :=
  cmpRev ci a.labels.reverse b.labels.reverse

/-- `Name::cmp_with_f` -/
def cmpWithF (ci : Bool) (a b : Name) : Ordering :=
  match a.fqdn, b.fqdn with
  | false, true => .lt
  | true, false => .gt
  | _, _ => cmpLabels ci a b

/-- `impl Ord for Name` -/
def cmp (a b : Name) : Ordering := cmpWithF true a b
/-- `Name::cmp_case` -/
def cmpCase (a b : Name) : Ordering := cmpWithF false a b

/-- `impl PartialEq for Name` -/
def eq (a b : Name) : Bool :=
  if a.fqdn == b.fqdn then cmpWithF true a b == .eq else false

/-- `Name::eq_case` -/
def eqCase (a b : Name) : Bool := cmpWithF false a b == .eq

/-- The byte sequence fed to the hasher by `impl Hash for Name`:
the fqdn flag, then every label byte lower-cased, no separators. -/
def hashInput (n : Name) : Bytes :=
  (if n.fqdn then 1 else 0) :: (n.labels.map lowerLabel).flatten

/-- `Name::zone_of` : `self` is `name` or an ancestor of it (case-insensitive). -/
def zoneOf (z n : Name) : Bool :=
  let zl := z.labels.reverse.map lowerLabel
  let nl := n.labels.reverse.map lowerLabel
  zl.isPrefixOf nl

/-- well-formedness of a name as the Rust type maintains it. -/
def WF (n : Name) : Prop :=
  n.encodedLen ≤ 255 ∧ (∀ l ∈ n.labels, 1 ≤ l.length ∧ l.length ≤ 63 ∧ Bytes.WF l)

instance : DecidablePred (fun b : Bytes => Bytes.WF b) := fun b =>
  inferInstanceAs (Decidable (∀ x ∈ b, x < 256))

instance (n : Name) : Decidable n.WF := by unfold WF; exact inferInstance

end Name
end HickoryVerif
