/-
Model of the NSEC denial-of-existence validator of hickory-net
(crates/net/src/dnssec/mod.rs : `verify_nsec`, `no_closer_matches`,
`find_nsec_covering_record`, `is_strict_descendant`, `is_ancestor_delegation`,
`closer_encloser_exists`), statement by statement, as the code is — i.e. with the six repairs
of /repo commits aa6d1e8, 3224d1f, f7f02bc, a5c3ba8 and the two that follow them (empty
non-terminals, RFC 6840 §4.1 ancestor-delegation records, negative response without SOA, the
wildcard label in the encloser search, closer encloser of a wildcard answer, NSEC/RRSIG bits)
and the three completeness repairs that follow (no data for an empty non-terminal, wildcard
answers judged without a cover of `*.<encloser>`, the wrapping record recognised without SOA).

* a name is `Name` of `Model/Name.lean`; `>`/`<`/`==` on names are `Name.cmp` / `Name.eq`
  (`impl Ord`, `impl PartialEq`), `zone_of`, `num_labels`, `is_wildcard`, `prepend_label`
  are the functions of that model;
* an NSEC record is `(owner, next_domain_name, type set)`; the type set is the list of the
  type codes (`RecordTypeSet` is a `BTreeSet<RecordType>` ordered by the u16 code, so
  `contains` is membership of the code);
* of an answer `Record` the function looks at `name`, `proof == Secure` and — when the data
  is an RRSIG — `rrsig.input().num_labels`; `Ans` carries exactly these;
* the response code is its number (0 = NoError, 3 = NXDomain);
* `base_name` / `trim_to` go through `Name::from_labels(..).unwrap()`, which cannot fail on
  the labels of an existing `Name`; the model uses the total forms `baseNameT` / `trimToT`
  and `Proofs/TiesC08.lean` proves them equal to `Name.baseName` / `Name.trimTo` of
  `Model/Name.lean` on bounded names (so there is no panic site in this function).
-/
import HickoryVerif.Model.Name

namespace HickoryVerif

/-- `hickory_proto::dnssec::Proof` -/
inductive Proof where
  | secure | insecure | bogus | indeterminate
  deriving Repr, DecidableEq, Inhabited

/-- `(&Name, &NSEC)` : owner, `next_domain_name()`, `type_set()` as the list of type codes. -/
structure Nsec where
  owner : Name
  next : Name
  types : List Nat
  deriving Repr, DecidableEq, Inhabited

/-- The fields of an answer `Record` that `verify_nsec` reads. `rrsigLabels = some l` iff the
record data is an RRSIG whose `input().num_labels` is `l`. -/
structure Ans where
  name : Name
  secure : Bool
  rrsigLabels : Option Nat
  deriving Repr, DecidableEq, Inhabited

namespace Nsec

def RCODE_NOERROR : Nat := 0
def RCODE_NXDOMAIN : Nat := 3
def TYPE_NS : Nat := 2
def TYPE_CNAME : Nat := 5
def TYPE_SOA : Nat := 6
def TYPE_DS : Nat := 43
def TYPE_RRSIG : Nat := 46
def TYPE_NSEC : Nat := 47

/-- the label `*` -/
def STAR : Bytes := [42]

/-- `Name::base_name` (total form): drop the first label; the result of the
`from_labels` branch is always fqdn; the root / empty name is returned unchanged. -/
def baseNameT (n : Name) : Name :=
  match n.labels with
  | [] => n
  | _ :: rest => { labels := rest, fqdn := true }

/-- `Name::trim_to` (total form): keep the last `k` labels (result fqdn), or the name itself
when it has fewer than `k` labels. -/
def trimToT (n : Name) (k : Nat) : Name :=
  if k > n.labels.length then n
  else { labels := n.labels.drop (n.labels.length - k), fqdn := true }

/-- `name.prepend_label("*")` as an `Option` (`Err` ↦ `none`). -/
def prependStar (n : Name) : Option Name := (n.prependLabel STAR).toOption

/-- `a > b` on names (`PartialOrd` = `Ord`). -/
def gt (a b : Name) : Bool := Name.cmp a b == .gt
/-- `a < b` on names. -/
def lt (a b : Name) : Bool := Name.cmp a b == .lt

/-- `Some(next_domain_name) == soa_name` -/
def isSoa (soa : Option Name) (n : Name) : Bool :=
  match soa with
  | some s => Name.eq n s
  | none => false

/-- `is_ancestor_delegation` (RFC 6840 §4.1): NS bit set, SOA bit clear. -/
def isDelegation (types : List Nat) : Bool := types.contains TYPE_NS && !types.contains TYPE_SOA

/-- `is_strict_descendant(name, ancestor)` : `ancestor.zone_of(name) && name != ancestor` -/
def isStrictDescendant (name ancestor : Name) : Bool := ancestor.zoneOf name && !Name.eq name ancestor

/-- the closure of `find_nsec_covering_record` -/
def covers (soa : Option Name) (t : Name) (r : Nsec) : Bool :=
  gt t r.owner
    && (lt t r.next || isSoa soa r.next || (Name.cmp r.next r.owner != .gt && r.next.zoneOf t))
    && !(isDelegation r.types && r.owner.zoneOf t)

/-- `find_nsec_covering_record` -/
def findCovering (soa : Option Name) (t : Name) (nsecs : List Nsec) : Option Nsec :=
  nsecs.find? (covers soa t)

/-- The `while candidate_name.iter().count() > next_closest_encloser.iter().count()` loop of
`verify_nsec` for one seed name, on the seed's label list: `some c` when the loop `break`s
with `next_closest_encloser = c`, `none` when it runs out.  The first candidate is the seed
itself (own fqdn flag); every later one is a `base_name()`, hence fqdn. -/
def searchEncloser (q : Name) (k : Nat) : List Bytes → Bool → Option Name
  | [], _ => none
  | l :: ls, f =>
    let cand : Name := { labels := l :: ls, fqdn := f }
    if cand.labels.length > k then
      if cand.zoneOf q then some cand else searchEncloser q k ls true
    else none

/-- one iteration of `for seed_name in [covering_nsec_name, next_domain_name]` -/
def encloserStep (q : Name) (nce seed : Name) : Name :=
  (searchEncloser q nce.labels.length seed.labels seed.fqdn).getD nce

/-- the `while` loop of `closer_encloser_exists` for one seed name, on its label list -/
def closerLoop (q : Name) (k : Nat) : List Bytes → Bool → Bool
  | [], _ => false
  | l :: ls, f =>
    let cand : Name := { labels := l :: ls, fqdn := f }
    if cand.labels.length > k then
      if cand.zoneOf q then true else closerLoop q k ls true
    else false

/-- The loop of `no_closer_matches` on the label list of the running `name`. -/
def ncmLoop (soa : Option Name) (nsecs : List Nsec) (k : Nat) : List Bytes → Bool → Bool
  | [], _ => true
  | l :: ls, f =>
    let name : Name := { labels := l :: ls, fqdn := f }
    if name.numLabels > k then
      match prependStar name with
      | none => false
      | some wildcard =>
        if (findCovering soa wildcard nsecs).isNone then false
        else ncmLoop soa nsecs k ls true
    else true

/-- `no_closer_matches` -/
def noCloserMatches (q : Name) (soa : Option Name) (nsecs : List Nsec)
    (wildcardBaseName : Option Name) : Bool :=
  match wildcardBaseName with
  | none => false
  | some wbn =>
    let soaOk := match soa with
      | some s => s.zoneOf wbn && s.zoneOf q
      | none => true
    if !soaOk then false
    else if wbn.numLabels > q.numLabels then false
    else if !(baseNameT wbn).zoneOf q then false
    else
      let name := baseNameT q
      ncmLoop soa nsecs wbn.numLabels name.labels name.fqdn

/-- `closer_encloser_exists` -/
def closerEncloserExists (q owner next : Name) (wildcardBaseName : Option Name) : Bool :=
  match wildcardBaseName with
  | none => false
  | some wbn =>
    let k := (baseNameT wbn).labels.length
    closerLoop q k owner.labels owner.fqdn || closerLoop q k next.labels next.fqdn

/-- `Iterator::min_by_key` : the *first* element with the least key. -/
def minByKey {α} (key : α → Nat) : List α → Option α
  | [] => none
  | x :: xs =>
    match minByKey key xs with
    | none => some x
    | some y => if key y < key x then some y else some x

/-- the `filter_map` closure over the answers (wildcard-expansion case) -/
def rrsigCandidate (q : Name) (r : Ans) : Option (Nat × Name) :=
  if !r.secure then none
  else match r.rrsigLabels with
    | none => none
    | some l =>
      if l ≥ r.name.numLabels || l ≥ q.numLabels then none
      else
        let trimmed := trimToT r.name l
        if !trimmed.zoneOf q then none
        else match prependStar trimmed with
          | none => none
          | some w => some (l, w)

/-- `wildcard_base_name` -/
def wildcardBaseName (q : Name) (haveAnswer : Bool) (answers : List Ans) (nsecs : List Nsec) :
    Option Name :=
  if haveAnswer then
    (minByKey (fun p : Nat × Name => p.1) (answers.filterMap (rrsigCandidate q))).map (·.2)
  else
    (minByKey (fun r : Nsec => r.owner.numLabels)
      (nsecs.filter fun r => r.owner.isWildcard && (baseNameT r.owner).zoneOf q)).map (·.owner)

/-- `type_set().contains(t)` -/
def hasType (r : Nsec) (t : Nat) : Bool := r.types.contains t

/-- the part of `verify_nsec` after the covering record of the query name was found -/
def verifyCovered (q : Name) (qtype : Nat) (soa : Option Name) (rcode : Nat)
    (answers : List Ans) (nsecs : List Nsec) (nce0 : Name) (cov : Nsec) : Proof :=
  let haveAnswer := !answers.isEmpty
  let queryNameIsEnt := isStrictDescendant cov.next q
  -- "no data for an empty non-terminal"
  if queryNameIsEnt && rcode == RCODE_NOERROR && !haveAnswer then .secure
  else
  let nce1 := encloserStep q nce0 cov.owner
  let nce := encloserStep q nce1 cov.next
  match prependStar nce with
  | none => .bogus
  | some wildcardName =>
    let wbn := wildcardBaseName q haveAnswer answers nsecs
    -- "no direct match, no closer match for wildcard expansion response"
    if rcode == RCODE_NOERROR && haveAnswer && !queryNameIsEnt
        && !closerEncloserExists q cov.owner cov.next wbn
        && noCloserMatches q soa nsecs wbn then .secure
    else
    match findCovering soa wildcardName nsecs with
    | some wcov =>
      if rcode == RCODE_NXDOMAIN && !haveAnswer && !queryNameIsEnt
          && !isStrictDescendant wcov.next wildcardName then .secure
      else .bogus
    | none =>
      if !haveAnswer && rcode == RCODE_NOERROR
          && nsecs.any (fun r => Name.eq r.owner wildcardName
              && !(qtype == TYPE_NSEC || qtype == TYPE_RRSIG)
              && (!isDelegation r.types || qtype == TYPE_DS)
              && !hasType r qtype
              && !hasType r TYPE_CNAME && noCloserMatches q soa nsecs wbn) then .secure
      else .bogus

/-- the starting value of `next_closest_encloser` (`none`: "SOA record is for the wrong zone") -/
def startOf (q : Name) (soa : Option Name) (haveAnswer : Bool) : Option Name :=
  match soa with
  | some s => if !s.zoneOf q then none else some s
  | none => if haveAnswer then some (baseNameT q) else some Name.root

/-- `verify_nsec(query, soa_name, response_code, answers, nsecs)` -/
def verifyNsec (q : Name) (qtype : Nat) (soa : Option Name) (rcode : Nat)
    (answers : List Ans) (nsecs : List Nsec) : Proof :=
  if rcode != RCODE_NXDOMAIN && rcode != RCODE_NOERROR then .bogus
  else
    let haveAnswer := !answers.isEmpty
    match startOf q soa haveAnswer with
    | none => .bogus
    | some nce0 =>
      match nsecs.find? (fun r => Name.eq q r.owner) with
      | some r =>
        if qtype == TYPE_NSEC || qtype == TYPE_RRSIG || hasType r qtype || hasType r TYPE_CNAME then
          .bogus
        else if isDelegation r.types && qtype != TYPE_DS then .bogus
        else if rcode == RCODE_NOERROR && !haveAnswer then .secure
        else .bogus
      | none =>
        match findCovering soa q nsecs with
        | none => .bogus
        | some cov => verifyCovered q qtype soa rcode answers nsecs nce0 cov

end Nsec
end HickoryVerif
