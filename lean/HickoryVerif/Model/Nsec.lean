/-
Model of the NSEC denial-of-existence validator of hickory-net
(crates/net/src/dnssec/mod.rs : `verify_nsec`, `no_closer_matches`,
`find_nsec_covering_record`), statement by statement, as the code is.

* a name is `Name` of `Model/Name.lean`; `>`/`<`/`==` on names are `Name.cmp` / `Name.eq`
  (`impl Ord`, `impl PartialEq`), `zone_of`, `num_labels`, `is_wildcard`, `prepend_label`
  are the functions of that model;
* an NSEC record is `(owner, next_domain_name, type set)`; the type set is the list of the
  type codes (`RecordTypeSet` is a `BTreeSet<RecordType>` ordered by the u16 code, so
  `contains` is membership of the code);
* of an answer `Record` the function looks at `name`, `proof == Secure` and — when the data
  is an RRSIG — `rrsig.input().num_labels`; `Ans` carries exactly these;
* the response code is its number (0 = NoError, 3 = NXDomain);
* `base_name` / `trim_to` go through `Name::from_labels(..).unwrap()`, which cannot fail on
  the labels of an existing `Name`; the model uses the total forms `baseNameT` / `trimToT`
  and `Proofs/TiesC08.lean` proves them equal to `Name.baseName` / `Name.trimTo` of
  `Model/Name.lean` on bounded names (so there is no panic site in this function).
-/
import HickoryVerif.Model.Name

namespace HickoryVerif

/-- `hickory_proto::dnssec::Proof` -/
inductive Proof where
  | secure | insecure | bogus | indeterminate
  deriving Repr, DecidableEq, Inhabited

/-- `(&Name, &NSEC)` : owner, `next_domain_name()`, `type_set()` as the list of type codes. -/
structure Nsec where
  owner : Name
  next : Name
  types : List Nat
  deriving Repr, DecidableEq, Inhabited

/-- The fields of an answer `Record` that `verify_nsec` reads. `rrsigLabels = some l` iff the
record data is an RRSIG whose `input().num_labels` is `l`. -/
structure Ans where
  name : Name
  secure : Bool
  rrsigLabels : Option Nat
  deriving Repr, DecidableEq, Inhabited

namespace Nsec

def RCODE_NOERROR : Nat := 0
def RCODE_NXDOMAIN : Nat := 3
def TYPE_NS : Nat := 2
def TYPE_CNAME : Nat := 5
def TYPE_SOA : Nat := 6
def TYPE_DS : Nat := 43
def TYPE_RRSIG : Nat := 46
def TYPE_NSEC : Nat := 47

/-- the label `*` -/
def STAR : Bytes := [42]

/-- `Name::base_name` (total form): drop the first label; the result of the
`from_labels` branch is always fqdn; the root / empty name is returned unchanged. -/
def baseNameT (n : Name) : Name :=
  match n.labels with
  | [] => n
  | _ :: rest => { labels := rest, fqdn := true }

/-- `Name::trim_to` (total form): keep the last `k` labels (result fqdn), or the name itself
when it has fewer than `k` labels. -/
def trimToT (n : Name) (k : Nat) : Name :=
  if k > n.labels.length then n
  else { labels := n.labels.drop (n.labels.length - k), fqdn := true }

/-- `name.prepend_label("*")` as an `Option` (`Err` ↦ `none`). -/
def prependStar (n : Name) : Option Name := (n.prependLabel STAR).toOption

/-- `a > b` on names (`PartialOrd` = `Ord`). -/
def gt (a b : Name) : Bool := Name.cmp a b == .gt
/-- `a < b` on names. -/
def lt (a b : Name) : Bool := Name.cmp a b == .lt

/-- `Some(next_domain_name) == soa_name` -/
def isSoa (soa : Option Name) (n : Name) : Bool :=
  match soa with
  | some s => Name.eq n s
  | none => false

/-- the closure of `find_nsec_covering_record` -/
def covers (soa : Option Name) (t : Name) (r : Nsec) : Bool :=
  gt t r.owner && (lt t r.next || isSoa soa r.next)

/-- `find_nsec_covering_record` -/
def findCovering (soa : Option Name) (t : Name) (nsecs : List Nsec) : Option Nsec :=
  nsecs.find? (covers soa t)

/-- The `while candidate_name.num_labels() > next_closest_encloser.num_labels()` loop of
`verify_nsec` for one seed name, on the seed's label list: `some c` when the loop `break`s
with `next_closest_encloser = c`, `none` when it runs out.  The first candidate is the seed
itself (own fqdn flag); every later one is a `base_name()`, hence fqdn. -/
def searchEncloser (q : Name) (k : Nat) : List Bytes → Bool → Option Name
  | [], _ => none
  | l :: ls, f =>
    let cand : Name := { labels := l :: ls, fqdn := f }
    if cand.numLabels > k then
      if cand.zoneOf q then some cand else searchEncloser q k ls true
    else none

/-- one iteration of `for seed_name in [covering_nsec_name, next_domain_name]` -/
def encloserStep (q : Name) (nce seed : Name) : Name :=
  (searchEncloser q nce.numLabels seed.labels seed.fqdn).getD nce

/-- The loop of `no_closer_matches` on the label list of the running `name`. -/
def ncmLoop (soa : Option Name) (nsecs : List Nsec) (k : Nat) : List Bytes → Bool → Bool
  | [], _ => true
  | l :: ls, f =>
    let name : Name := { labels := l :: ls, fqdn := f }
    if name.numLabels > k then
      match prependStar name with
      | none => false
      | some wildcard =>
        if (findCovering soa wildcard nsecs).isNone then false
        else ncmLoop soa nsecs k ls true
    else true

/-- `no_closer_matches` -/
def noCloserMatches (q : Name) (soa : Option Name) (nsecs : List Nsec)
    (wildcardBaseName : Option Name) : Bool :=
  match wildcardBaseName with
  | none => false
  | some wbn =>
    let soaOk := match soa with
      | some s => s.zoneOf wbn && s.zoneOf q
      | none => true
    if !soaOk then false
    else if wbn.numLabels > q.numLabels then false
    else if !(baseNameT wbn).zoneOf q then false
    else
      let name := baseNameT q
      ncmLoop soa nsecs wbn.numLabels name.labels name.fqdn

/-- `Iterator::min_by_key` : the *first* element with the least key. -/
def minByKey {α} (key : α → Nat) : List α → Option α
  | [] => none
  | x :: xs =>
    match minByKey key xs with
    | none => some x
    | some y => if key y < key x then some y else some x

/-- the `filter_map` closure over the answers (wildcard-expansion case) -/
def rrsigCandidate (q : Name) (r : Ans) : Option (Nat × Name) :=
  if !r.secure then none
  else match r.rrsigLabels with
    | none => none
    | some l =>
      if l ≥ r.name.numLabels || l ≥ q.numLabels then none
      else
        let trimmed := trimToT r.name l
        if !trimmed.zoneOf q then none
        else match prependStar trimmed with
          | none => none
          | some w => some (l, w)

/-- `wildcard_base_name` -/
def wildcardBaseName (q : Name) (haveAnswer : Bool) (answers : List Ans) (nsecs : List Nsec) :
    Option Name :=
  if haveAnswer then
    (minByKey (fun p : Nat × Name => p.1) (answers.filterMap (rrsigCandidate q))).map (·.2)
  else
    (minByKey (fun r : Nsec => r.owner.numLabels)
      (nsecs.filter fun r => r.owner.isWildcard && (baseNameT r.owner).zoneOf q)).map (·.owner)

/-- `type_set().contains(t)` -/
def hasType (r : Nsec) (t : Nat) : Bool := r.types.contains t

/-- the part of `verify_nsec` after the covering record of the query name was found -/
def verifyCovered (q : Name) (qtype : Nat) (soa : Option Name) (rcode : Nat)
    (answers : List Ans) (nsecs : List Nsec) (nce0 : Name) (cov : Nsec) : Proof :=
  let haveAnswer := !answers.isEmpty
  let nce1 := encloserStep q nce0 cov.owner
  let nce := encloserStep q nce1 cov.next
  match prependStar nce with
  | none => .bogus
  | some wildcardName =>
    let wbn := wildcardBaseName q haveAnswer answers nsecs
    match findCovering soa wildcardName nsecs with
    | some _ =>
      if rcode == RCODE_NXDOMAIN && !haveAnswer then .secure
      else if rcode == RCODE_NOERROR && haveAnswer && noCloserMatches q soa nsecs wbn
          && (findCovering soa q nsecs).isSome then .secure
      else .bogus
    | none =>
      if !haveAnswer && rcode == RCODE_NOERROR
          && nsecs.any (fun r => Name.eq r.owner wildcardName && !hasType r qtype
              && !hasType r TYPE_CNAME && noCloserMatches q soa nsecs wbn) then .secure
      else .bogus

/-- `verify_nsec(query, soa_name, response_code, answers, nsecs)` -/
def verifyNsec (q : Name) (qtype : Nat) (soa : Option Name) (rcode : Nat)
    (answers : List Ans) (nsecs : List Nsec) : Proof :=
  if rcode != RCODE_NXDOMAIN && rcode != RCODE_NOERROR then .bogus
  else
    let start : Option Name := match soa with
      | some s => if !s.zoneOf q then none else some s
      | none => some (baseNameT q)
    match start with
    | none => .bogus
    | some nce0 =>
      let haveAnswer := !answers.isEmpty
      match nsecs.find? (fun r => Name.eq q r.owner) with
      | some r =>
        if hasType r qtype || hasType r TYPE_CNAME then .bogus
        else if rcode == RCODE_NOERROR && !haveAnswer then .secure
        else .bogus
      | none =>
        match findCovering soa q nsecs with
        | none => .bogus
        | some cov => verifyCovered q qtype soa rcode answers nsecs nce0 cov

end Nsec
end HickoryVerif

/-! ### Finding classes

`classify` names the known deviation (if any) of `verify_nsec` that an input exercises.  It
is computed from the input alone, mirrors `classify` of `harness/src/props/c08.rs` (the two
are compared on every run through the `cls` lines of the correspondence stream), and its
negation is the hypothesis of `C08.soundness_partial`. -/

namespace HickoryVerif
namespace Nsec

/-- RFC 4034 §6.1 sort key (same as `Spec.canonKey`; repeated here to keep the model
independent of `Spec/`). -/
def nkey (n : Name) : List Bytes := n.labels.reverse.map Name.lowerLabel

/-- `a` is a strict ancestor of `k` (on keys) -/
def strictlyBelow (a k : List Bytes) : Bool := a.isPrefixOf k && a.length < k.length

/-- length of the longest common prefix of two keys -/
def lcpLen : List Bytes → List Bytes → Nat
  | a :: as, b :: bs => if a = b then lcpLen as bs + 1 else 0
  | _, _ => 0

/-- RFC 6840 §4.1 "ancestor delegation" NSEC: NS bit set, SOA bit clear. -/
def isDelegation (types : List Nat) : Bool := types.contains TYPE_NS && !types.contains TYPE_SOA

/-- the closest encloser `verify_nsec` computes on its covering path -/
def codeEncloser (q : Name) (soa : Option Name) (cov : Nsec) : Name :=
  let nce0 := match soa with
    | some s => s
    | none => baseNameT q
  encloserStep q (encloserStep q nce0 cov.owner) cov.next

def classifyCovered (q : Name) (qtype : Nat) (soa : Option Name) (rcode : Nat)
    (answers : List Ans) (nsecs : List Nsec) (cov : Nsec) : Option String :=
  let ko := nkey cov.owner
  let kn := nkey cov.next
  let kq := nkey q
  if isDelegation cov.types && strictlyBelow ko kq then
    some "ancestor-delegation-nsec-used-below-cut"
  else if !answers.isEmpty then
    if strictlyBelow kq kn then some "wildcard-answer-for-empty-non-terminal"
    else match wildcardBaseName q true answers nsecs with
      | some wbn =>
        if max (lcpLen kq ko) (lcpLen kq kn) > wbn.numLabels then
          some "wildcard-answer-closer-encloser-not-excluded"
        else none
      | none => none
  else
    let nce := codeEncloser q soa cov
    let kc := nkey nce
    if soa.isNone && kc == nkey (baseNameT q) && !kc.isPrefixOf ko && !kc.isPrefixOf kn then
      some "no-soa-closest-encloser-assumed"
    else match prependStar nce with
      | none => none
      | some w =>
        let kw := nkey w
        if rcode == RCODE_NXDOMAIN then
          if strictlyBelow kq kn then some "nxdomain-for-empty-non-terminal"
          else match findCovering soa w nsecs with
            | none => none
            | some wc =>
              if isDelegation wc.types && strictlyBelow (nkey wc.owner) kw then
                some "ancestor-delegation-nsec-used-below-cut"
              else if strictlyBelow kw (nkey wc.next) then
                some "nxdomain-with-empty-non-terminal-wildcard"
              else none
        else
          match findCovering soa w nsecs with
          | some _ => none
          | none =>
            if kw.isPrefixOf kq then some "closest-encloser-search-discounts-wildcard-label"
            else if qtype != TYPE_DS
                && nsecs.any (fun r => Name.eq r.owner w && isDelegation r.types) then
              some "ancestor-delegation-nsec-nodata-for-non-ds-type"
            else if qtype == TYPE_RRSIG || qtype == TYPE_NSEC then
              some "nsec-rrsig-bits-not-ignored"
            else none

/-- The known-deviation class of an input (`none`: no known deviation applies). -/
def classify (q : Name) (qtype : Nat) (soa : Option Name) (rcode : Nat)
    (answers : List Ans) (nsecs : List Nsec) : Option String :=
  if rcode != RCODE_NXDOMAIN && rcode != RCODE_NOERROR then none
  else match nsecs.find? (fun r => Name.eq q r.owner) with
    | some r =>
      if isDelegation r.types && qtype != TYPE_DS then
        some "ancestor-delegation-nsec-nodata-for-non-ds-type"
      else if qtype == TYPE_RRSIG || qtype == TYPE_NSEC then
        some "nsec-rrsig-bits-not-ignored"
      else none
    | none =>
      match findCovering soa q nsecs with
      | none => none
      | some cov => classifyCovered q qtype soa rcode answers nsecs cov

end Nsec
end HickoryVerif
