/-
Model of `BinDecoder` (crates/proto/src/serialize/binary/decoder.rs).

A Rust `BinDecoder { buffer, remaining }` is a buffer and a read position
(`index() = buffer.len() - remaining.len()`); `clone(i)` re-positions on the same buffer and
`split_off(n)` yields a decoder on the *truncated* buffer `buffer[..index+n]`.  A reader is a
function of the (read-only) buffer and a state `(pos, ticks)`; the state survives an `Err`
(so the work done before a failure is still counted) and `ticks` counts loop iterations — no
reader ever inspects it, it only lets the "time proportional to the input" clause be stated about
the same definitions that are run against the implementation.

Panic sites of decoder.rs are explicit:
  * `clone`      : `&self.buffer[index_at..]`                (in `Name.readLabels`)
  * `split_off`  : `&self.buffer[..self.index() + length]`
  * `slice_from` : `&self.buffer[index..self.index()]`
  * `read_u16`   : `s[0], s[1]` on the slice returned by `read_slice(2)`
  * `read_u32/i32`: `assert!(s.len() == 4)` and `s[0..4]`
-/
import HickoryVerif.Model.NameSteps

namespace HickoryVerif

/-- decoder state: absolute read index into the buffer, and the work counter -/
structure DSt where
  pos : Nat
  ticks : Nat := 0
  deriving Repr, DecidableEq, Inhabited

/-- a reader over a fixed buffer -/
def Rd (α : Type) : Type := Bytes → DSt → Outcome α × DSt

namespace Rd

@[inline] protected def pure {α} (a : α) : Rd α := fun _ st => (.ok a, st)

@[inline] protected def bind {α β} (x : Rd α) (f : α → Rd β) : Rd β := fun buf st =>
  match x buf st with
  | (.ok a, st') => f a buf st'
  | (.err, st') => (.err, st')
  | (.panic s, st') => (.panic s, st')

instance : Monad Rd where
  pure := Rd.pure
  bind := Rd.bind

/-- `return Err(..)` / `?` on an error -/
def fail {α} : Rd α := fun _ st => (.err, st)

/-- a Rust panic at `site` -/
def panic {α} (site : String) : Rd α := fun _ st => (.panic site, st)

/-- one loop iteration (or `n` of them) -/
def tick (n : Nat := 1) : Rd Unit := fun _ st => (.ok (), { st with ticks := st.ticks + n })

/-- lift a pure `Outcome` -/
def lift {α} (o : Outcome α) : Rd α := fun _ st => (o, st)

/-- run `x`, turning `Err` into `none` (a `Result` held in a variable instead of `?`) -/
def attempt {α} (x : Rd α) : Rd (Option α) := fun buf st =>
  match x buf st with
  | (.ok a, st') => (.ok (some a), st')
  | (.err, st') => (.ok none, st')
  | (.panic s, st') => (.panic s, st')

/-- `BinDecoder::index` -/
def index : Rd Nat := fun _ st => (.ok st.pos, st)

/-- `BinDecoder::len` : bytes left -/
def remaining : Rd Nat := fun buf st => (.ok (buf.length - st.pos), st)

/-- `BinDecoder::is_empty` -/
def isEmpty : Rd Bool := fun buf st => (.ok (decide (buf.length - st.pos = 0)), st)

/-- `BinDecoder::pop` / `read_u8` -/
def pop : Rd Nat := fun buf st =>
  match buf[st.pos]? with
  | some b => (.ok b, { st with pos := st.pos + 1 })
  | none => (.err, st)

/-- `BinDecoder::peek` -/
def peek : Rd (Option Nat) := fun buf st => (.ok buf[st.pos]?, st)

/-- `BinDecoder::read_slice` / `read_vec` -/
def readSlice (n : Nat) : Rd Bytes := fun buf st =>
  if n > buf.length - st.pos then (.err, st)
  else (.ok ((buf.drop st.pos).take n), { st with pos := st.pos + n })

/-- `BinDecoder::read_vec_to_end` -/
def readVecToEnd : Rd Bytes := fun buf st =>
  (.ok (buf.drop st.pos), { st with pos := buf.length })

/-- `BinDecoder::read_character_data` -/
def readCharacterData : Rd Bytes := Rd.bind pop readSlice

/-- `BinDecoder::read_u16` -/
def readU16 : Rd Nat := Rd.bind (readSlice 2) fun s =>
  match s with
  | [a, b] => Rd.pure (a * 256 + b)
  | _ => Rd.panic "read_u16:index"

/-- `BinDecoder::read_u32` -/
def readU32 : Rd Nat := Rd.bind (readSlice 4) fun s =>
  if s.length ≠ 4 then Rd.panic "read_u32:assert" else
  match s with
  | [a, b, c, d] => Rd.pure (((a * 256 + b) * 256 + c) * 256 + d)
  | _ => Rd.panic "read_u32:index"

/-- two's complement reading of a 32-bit value -/
def toI32 (n : Nat) : Int := if n ≥ 2147483648 then (n : Int) - 4294967296 else (n : Int)

/-- `BinDecoder::read_i32` -/
def readI32 : Rd Int := Rd.bind readU32 fun n => Rd.pure (toI32 n)

/-- `BinDecoder::split_off(n)` followed by running `inner` on the sub-decoder (whose buffer is
truncated at `index + n`); afterwards the outer decoder stands at `index + n`. -/
def splitOff {α} (n : Nat) (inner : Rd α) : Rd α := fun buf st =>
  if n > buf.length - st.pos then (.err, st)
  else if st.pos + n > buf.length then (.panic "split_off:slice", st)
  else
    let r := inner (buf.take (st.pos + n)) st
    (r.1, { pos := st.pos + n, ticks := r.2.ticks })

/-- `BinDecoder::slice_from(index)` -/
def sliceFrom (idx : Nat) : Rd Bytes := fun buf st =>
  if idx > st.pos then (.err, st)
  else if st.pos > buf.length then (.panic "slice_from:slice", st)
  else (.ok ((buf.drop idx).take (st.pos - idx)), st)

/-- run a pure parser on what is left; it says how many octets it consumed (never more than are
there) — a `while decoder.len() >= k { .. }` loop that may leave a tail.  One tick per octet. -/
def parsePrefix {α} (p : Bytes → Outcome α × Nat) : Rd α := fun buf st =>
  let d := buf.drop st.pos
  let r := p d
  let used := min r.2 d.length
  (r.1, { pos := st.pos + used, ticks := st.ticks + used })

/-- `Name::read` (Model/NameWire.lean, instrumented copy) as a reader -/
def name : Rd Name := fun buf st =>
  match Name.readNameSteps buf st.pos with
  | (.ok (n, p), k) => (.ok n, { pos := p, ticks := st.ticks + k })
  | (.err, k) => (.err, { st with ticks := st.ticks + k })
  | (.panic s, k) => (.panic s, { st with ticks := st.ticks + k })

/-- run a reader from index `pos` -/
def run {α} (r : Rd α) (buf : Bytes) (pos : Nat) : Outcome (α × Nat) :=
  match r buf { pos := pos } with
  | (.ok a, st) => .ok (a, st.pos)
  | (.err, _) => .err
  | (.panic s, _) => .panic s

/-- loop iterations spent by `r` from index `pos` -/
def cost {α} (r : Rd α) (buf : Bytes) (pos : Nat) : Nat := (r buf { pos := pos }).2.ticks

end Rd
end HickoryVerif
