/-
Model of `hickory_resolver::cache::{ResponseCache, Entry, TtlConfig, TtlBounds}`
(crates/resolver/src/cache.rs) as a state machine, statement by statement.

* Time: `Instant`s are nanoseconds (`Nat`) relative to a base instant; `Duration`s are
  nanoseconds (`Nat`).  `NS = 10^9`.
* A `Query` is abstracted to what the cache looks at: a key identity (`id`, standing for
  name + class, compared case-insensitively by `Query: Eq + Hash`) and the query type (u16 code).
* A `Record` is abstracted to its type code, its TTL (u32) and an opaque payload id (owner name
  and RDATA, which the cache never inspects).
* `Result<Message, NetError>` is `Res`: a positive message (three sections), the one cacheable
  error `NetError::Dns(DnsError::NoRecordsFound(NoRecords))` with its four TTL-carrying fields,
  or any other error (`other kind`).
* `moka::sync::Cache` is an association list (`put` replaces, `erase` = `invalidate`,
  `[]` = `invalidate_all`).  moka's own real-time expiry (derived from the same `valid_until`)
  and capacity eviction are not modelled.
* Rust panics: `Ord::clamp` asserts `min <= max`; `Instant + Duration` panics on overflow (only
  reachable through the fall-back `now + u32::MAX s` of `insert`).
-/
import HickoryVerif.Basic

namespace HickoryVerif.Cache

/-- nanoseconds per second -/
def NS : Nat := 1000000000
/-- `pub const MAX_TTL: u32 = 86400` -/
def MAX_TTL : Nat := 86400
/-- `u32::MAX` -/
def U32MAX : Nat := 4294967295
/-- `RecordType::CNAME` -/
def CNAME : Nat := 5
/-- Largest representable `Instant` relative to the base, in ns: `tv_sec` is an `i64`
(the base's own `tv_sec`, the machine's uptime, is neglected). -/
def INSTANT_LIMIT : Nat := 9223372036854775808 * NS

/-- `TtlBounds`: four optional `Duration`s (ns). -/
structure Bounds where
  posMin : Option Nat := none
  negMin : Option Nat := none
  posMax : Option Nat := none
  negMax : Option Nat := none
  deriving Repr, DecidableEq, Inhabited

/-- `TtlConfig { default, by_query_type: HashMap<RecordType, TtlBounds> }`; the hash map is an
association list searched from the front (`with_query_type_ttl_bounds` = cons). -/
structure TtlConfig where
  default : Bounds := {}
  byType : List (Nat × Bounds) := []
  deriving Repr, DecidableEq, Inhabited

def lookupBounds : List (Nat × Bounds) → Nat → Option Bounds
  | [], _ => none
  | (k, b) :: rest, ty => if k = ty then some b else lookupBounds rest ty

/-- `self.by_query_type.get(&query_type).unwrap_or(&self.default)` -/
def TtlConfig.boundsFor (cfg : TtlConfig) (ty : Nat) : Bounds :=
  (lookupBounds cfg.byType ty).getD cfg.default

/-- `TtlConfig::positive_response_ttl_bounds` -/
def TtlConfig.posBounds (cfg : TtlConfig) (ty : Nat) : Nat × Nat :=
  let b := cfg.boundsFor ty
  (b.posMin.getD 0, b.posMax.getD (MAX_TTL * NS))

/-- `TtlConfig::negative_response_ttl_bounds` -/
def TtlConfig.negBounds (cfg : TtlConfig) (ty : Nat) : Nat × Nat :=
  let b := cfg.boundsFor ty
  (b.negMin.getD 0, b.negMax.getD (MAX_TTL * NS))

/-- `u32::try_from(d.as_secs()).unwrap_or(u32::MAX)` -/
def secsU32 (d : Nat) : Nat := if d / NS ≤ U32MAX then d / NS else U32MAX

/-- `TtlConfig::positive_ttl_bounds_secs` -/
def TtlConfig.posBoundsSecs (cfg : TtlConfig) (ty : Nat) : Nat × Nat :=
  let p := cfg.posBounds ty
  (secsU32 p.1, secsU32 p.2)

/-- `Ord::clamp` : `assert!(min <= max)`, then `if self < min {min} else if self > max {max} else {self}` -/
def clamp (x mn mx : Nat) : Outcome Nat :=
  if mn ≤ mx then .ok (if x < mn then mn else if x > mx then mx else x)
  else .panic "clamp"

structure Rec where
  rtype : Nat
  ttl : Nat
  pid : Nat
  deriving Repr, DecidableEq, Inhabited

structure Msg where
  answers : List Rec := []
  authorities : List Rec := []
  additionals : List Rec := []
  deriving Repr, DecidableEq, Inhabited

/-- `Message::all_sections` -/
def Msg.all (m : Msg) : List Rec := m.answers ++ m.authorities ++ m.additionals

/-- `ForwardNSData { ns, glue }` -/
structure NsData where
  ns : Rec
  glue : List Rec
  deriving Repr, DecidableEq, Inhabited

/-- `NoRecords` (the `query` field is not looked at by the cache). -/
structure NoRec where
  negTtl : Option Nat := none
  soa : Option Rec := none
  auth : Option (List Rec) := none
  ns : Option (List NsData) := none
  rcode : Nat := 0
  deriving Repr, DecidableEq, Inhabited

inductive Res where
  | pos (m : Msg)
  | neg (n : NoRec)
  | other (kind : Nat)
  deriving Repr, DecidableEq, Inhabited

structure Query where
  id : Nat
  qtype : Nat
  deriving Repr, DecidableEq, Inhabited

structure Entry where
  result : Res
  t0 : Nat          -- original_time
  validUntil : Nat
  deriving Repr, DecidableEq, Inhabited

abbrev State := List (Query × Entry)

namespace State
def lookup : State → Query → Option Entry
  | [], _ => none
  | (k, e) :: rest, q => if k = q then some e else lookup rest q

/-- `Cache::invalidate` -/
def erase (s : State) (q : Query) : State := s.filter fun p => decide (p.1 ≠ q)

/-- `Cache::insert` (replaces an existing entry of the key) -/
def put (s : State) (q : Query) (e : Entry) : State := (q, e) :: erase s q
end State

/-! ### insert -/

/-- one iteration of the first loop of `clamp_positive_ttls` -/
def clampRec (cfg : TtlConfig) (r : Rec) : Outcome Rec :=
  let p := cfg.posBoundsSecs r.rtype
  (clamp r.ttl p.1 p.2).bind fun t => .ok { r with ttl := t }

def clampRecs (cfg : TtlConfig) : List Rec → Outcome (List Rec)
  | [] => .ok []
  | r :: rs => (clampRec cfg r).bind fun r' => (clampRecs cfg rs).bind fun rs' => .ok (r' :: rs')

/-- `Iterator::min` over `Duration`s -/
def minOpt : List Nat → Option Nat
  | [] => none
  | x :: xs => match minOpt xs with
    | none => some x
    | some m => some (if x ≤ m then x else m)

/-- `filter(|r| r.record_type() == query_type || r.record_type() == CNAME)` -/
def matching (qt : Nat) (rs : List Rec) : List Rec :=
  rs.filter fun r => r.rtype == qt || r.rtype == CNAME

/-- `ResponseCache::clamp_positive_ttls` : the clamped message and the cache duration -/
def clampPositive (cfg : TtlConfig) (qt : Nat) (m : Msg) : Outcome (Nat × Msg) :=
  (clampRecs cfg m.answers).bind fun an =>
  (clampRecs cfg m.authorities).bind fun au =>
  (clampRecs cfg m.additionals).bind fun ad =>
  let m' : Msg := { answers := an, authorities := au, additionals := ad }
  let p := cfg.posBounds qt
  let minTtl := minOpt ((matching qt m'.all).map fun r => r.ttl * NS)
  (clamp (minTtl.getD p.1) p.1 p.2).bind fun life => .ok (life, m')

/-- `now.checked_add(ttl).unwrap_or_else(|| now + Duration::from_secs(u64::from(u32::MAX)))` :
an unrepresentable expiry instant falls back to `now + u32::MAX s`; that `+` on `Instant` can
itself only overflow (panic) for a `now` within 2^32 s of the end of `Instant`'s range -/
def instantAdd (now d : Nat) : Outcome Nat :=
  if now + d < INSTANT_LIMIT then .ok (now + d)
  else if now + U32MAX * NS < INSTANT_LIMIT then .ok (now + U32MAX * NS)
  else .panic "instant"

/-- the tail of `insert`: `valid_until = …; self.cache.insert(query, Entry{..})` -/
def store (s : State) (q : Query) (r : Res) (now ttl : Nat) : Outcome State :=
  (instantAdd now ttl).bind fun vu => .ok (s.put q { result := r, t0 := now, validUntil := vu })

/-- the negative arm's TTL computation -/
def negTtlOf (cfg : TtlConfig) (qt : Nat) (n : NoRec) : Outcome Nat :=
  let p := cfg.negBounds qt
  match n.negTtl with
  | some t => clamp (t * NS) p.1 p.2
  | none => .ok p.1

/-- `ResponseCache::insert` -/
def insert (cfg : TtlConfig) (s : State) (q : Query) (r : Res) (now : Nat) : Outcome State :=
  match r with
  | .pos m => (clampPositive cfg q.qtype m).bind fun lm => store s q (.pos lm.2) now lm.1
  | .neg n => (negTtlOf cfg q.qtype n).bind fun ttl => store s q (.neg n) now ttl
  | .other _ => .ok s

/-! ### get -/

/-- `u32::try_from(now.saturating_duration_since(original_time).as_secs()).unwrap_or(u32::MAX)` -/
def elapsedOf (t0 now : Nat) : Nat :=
  if (now - t0) / NS ≤ U32MAX then (now - t0) / NS else U32MAX

/-- `Record::decrement_ttl` -/
def Rec.decr (e : Nat) (r : Rec) : Rec := { r with ttl := r.ttl - e }

def Msg.decr (e : Nat) (m : Msg) : Msg :=
  { answers := m.answers.map (Rec.decr e), authorities := m.authorities.map (Rec.decr e),
    additionals := m.additionals.map (Rec.decr e) }

def NsData.decr (e : Nat) (d : NsData) : NsData :=
  { ns := d.ns.decr e, glue := d.glue.map (Rec.decr e) }

def NoRec.decr (e : Nat) (n : NoRec) : NoRec :=
  { n with negTtl := n.negTtl.map (· - e), soa := n.soa.map (Rec.decr e),
           auth := n.auth.map (·.map (Rec.decr e)), ns := n.ns.map (·.map (NsData.decr e)) }

def Res.decr (e : Nat) : Res → Res
  | .pos m => .pos (m.decr e)
  | .neg n => .neg (n.decr e)
  | .other k => .other k

/-- `Entry::updated_ttl` -/
def Entry.updatedTtl (en : Entry) (now : Nat) : Res := en.result.decr (elapsedOf en.t0 now)

/-- `Entry::is_current` -/
def Entry.isCurrent (en : Entry) (now : Nat) : Bool := decide (now ≤ en.validUntil)

/-- `ResponseCache::get` -/
def get (s : State) (q : Query) (now : Nat) : Option Res :=
  match s.lookup q with
  | none => none
  | some en => if en.isCurrent now then some (en.updatedTtl now) else none

/-- `ResponseCache::clear` -/
def clear (_s : State) : State := []

/-- `ResponseCache::clear_query` -/
def clearQuery (s : State) (q : Query) : State := s.erase q

/-! ### histories -/

inductive Op where
  | ins (q : Query) (r : Res) (t : Nat)
  | get (q : Query) (t : Nat)
  | clear
  | clearQuery (q : Query)
  deriving Repr, DecidableEq, Inhabited

/-- One operation on the cache.  An `insert` that panics unwinds before `self.cache.insert`,
so it leaves the cache as it was. -/
def stepOp (cfg : TtlConfig) (s : State) : Op → State
  | .ins q r t => match insert cfg s q r t with
    | .ok s' => s'
    | _ => s
  | .get _ _ => s
  | .clear => clear s
  | .clearQuery q => clearQuery s q

def run (cfg : TtlConfig) (s : State) (ops : List Op) : State := ops.foldl (stepOp cfg) s

/-! ### how a response becomes a cacheable or a non-cacheable result
(`DnsError::from_response`, crates/net/src/error.rs; `DnsResponse::{negative_ttl, contains_answer}`,
crates/proto/src/op/dns_response.rs) -/

/-- A response as far as `from_response` looks at it, for a query of an ordinary type
(not ANY, not SOA). -/
structure Resp where
  rcode : Nat
  truncated : Bool := false
  /-- `!self.answers.is_empty()` -/
  answersNonEmpty : Bool := false
  /-- some record of any section has the query's type and owner name -/
  matchAnywhere : Bool := false
  /-- first SOA record of the authority section: `(record TTL, MINIMUM field)` -/
  soa : Option (Nat × Nat) := none
  deriving Repr, DecidableEq, Inhabited

/-- `DnsResponse::contains_answer` (arm `q_type => …`) -/
def Resp.containsAnswer (r : Resp) : Bool := r.answersNonEmpty || r.matchAnywhere

/-- `DnsResponse::negative_ttl` : `(ttl).min(soa.minimum)` of the first SOA in the authority section -/
def Resp.negativeTtl (r : Resp) : Option Nat := r.soa.map fun p => if p.1 ≤ p.2 then p.1 else p.2

/-- response codes that `from_response` turns into `DnsError::ResponseCode` (Refused, ServFail, FormErr,
NotImp, YXDomain, YXRRSet, NXRRSet, NotAuth, NotZone, BADVERS/BADSIG, BADKEY, BADTIME, BADMODE,
BADNAME, BADALG, BADTRUNC, BADCOOKIE) -/
def errCodes : List Nat := [5, 2, 1, 4, 6, 7, 8, 9, 10, 16, 17, 18, 19, 20, 21, 22, 23]

inductive RespClass where
  /-- `Ok(response)` : handed on as a positive message -/
  | ok
  /-- `Err(DnsError::NoRecordsFound(..))` with this `negative_ttl` : the one cacheable error -/
  | noRecords (negTtl : Option Nat)
  /-- `Err(DnsError::ResponseCode(code))` : never cached -/
  | rcodeErr (code : Nat)
  deriving Repr, DecidableEq, Inhabited

/-- `DnsError::from_response` -/
def fromResponse (r : Resp) : RespClass :=
  if errCodes.contains r.rcode then .rcodeErr r.rcode
  else if (r.rcode == 3 || r.rcode == 0) && !r.containsAnswer && !r.truncated then .noRecords r.negativeTtl
  else .ok

/-! ### decidable classes of configurations -/

/-- `min ≤ max` for both `Duration` pairs of one `TtlBounds` (with the defaults filled in). -/
def Bounds.durOK (b : Bounds) : Bool :=
  decide (b.posMin.getD 0 ≤ b.posMax.getD (MAX_TTL * NS)) &&
  decide (b.negMin.getD 0 ≤ b.negMax.getD (MAX_TTL * NS))

def TtlConfig.durOK (cfg : TtlConfig) : Bool :=
  cfg.default.durOK && cfg.byType.all fun p => p.2.durOK

/-- class `C15.bounds-min-gt-max`: some configured bounds have `min > max` -/
def TtlConfig.minGtMax (cfg : TtlConfig) : Bool := !cfg.durOK

end HickoryVerif.Cache
