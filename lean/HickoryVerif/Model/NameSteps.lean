/-
Instrumented copy of `Name.readLabels` / `Name.readName` (Model/NameWire.lean): the same
recursion, additionally returning the number of times the body ran.  One run of the body is two
iterations of the Rust `loop` in `read_inner` (state `LabelLengthOrPointer`, then one of
`Label` / `Pointer` / `Root`).  `Proofs/C01.lean` proves the first component equal to the plain
function and bounds the second.
-/
import HickoryVerif.Model.NameWire
set_option linter.unusedVariables false

namespace HickoryVerif
namespace Name

def readLabelsSteps (buf : Bytes) (pos nameStart : Nat) (ptrMax : Option Nat) (acc : Name) :
    Outcome (Name × Nat) × Nat :=
  if (match ptrMax with | some m => decide (pos ≥ m) | none => false) then (.err, 1) else
  match buf[pos]? with
  | none => (.err, 1)
  | some b =>
    if b = 0 then
      (.ok ({ acc with fqdn := true }, pos + 1), 1)
    else if b / 64 = 3 then
      match buf[pos + 1]? with
      | none => (.err, 1)
      | some b1 =>
        let loc := (b * 256 + b1) % 16384
        if hlt : loc < nameStart then
          if loc > buf.length then (.panic "decoder.clone:slice", 1) else
          match readLabelsSteps buf loc loc (some nameStart) acc with
          | (.ok (n, _), k) => (.ok (n, pos + 2), k + 1)
          | (.err, k) => (.err, k + 1)
          | (.panic s, k) => (.panic s, k + 1)
        else (.err, 1)
    else if b / 64 = 0 then
      if hfit : pos + 1 + b ≤ buf.length then
        match acc.extendName ((buf.drop (pos + 1)).take b) with
        | .ok acc' =>
          let r := readLabelsSteps buf (pos + 1 + b) nameStart ptrMax acc'
          (r.1, r.2 + 1)
        | .err => (.err, 1)
        | .panic s => (.panic s, 1)
      else (.err, 1)
    else (.err, 1)
termination_by (nameStart, buf.length - pos)
decreasing_by
  · exact Prod.Lex.left _ _ hlt
  · apply Prod.Lex.right
    have : b ≠ 0 := by assumption
    omega

def readNameSteps (buf : Bytes) (pos : Nat) : Outcome (Name × Nat) × Nat :=
  match readLabelsSteps buf pos pos none new with
  | (.ok (n, p), k) => (if n.len ≥ 255 then .err else .ok (n, p), k)
  | (.err, k) => (.err, k)
  | (.panic s, k) => (.panic s, k)

end Name
end HickoryVerif
