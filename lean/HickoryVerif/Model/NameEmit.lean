/-
Model of `impl BinEncodable for Name` (crates/proto/src/rr/domain/name.rs, `Name::emit`): the
name writer with RFC 1035 §4.1.4 compression, statement by statement:

  * `UncompressedLowercase` mode lower-cases the name first;
  * compression is attempted iff the mode is `Compressed` *and* fewer than
    `COMPRESSED_NAME_LIMIT` (120) names were written with compression so far;
  * every label is written (`emit_character_data`), remembering its start offset;
  * with compression: for each label start, in label order, look the byte string
    `[label start, end of last label)` up in the candidate table; on a hit whose location has its
    two top bits clear: move the offset back to that label, `trim`, write the 2-octet pointer and
    return; otherwise try to store the suffix as a new candidate;
  * without compression: try to store every suffix as a candidate;
  * write the root octet; fail if the buffer grew by more than 255.
-/
import HickoryVerif.Model.Name
import HickoryVerif.Model.Encoder

namespace HickoryVerif
namespace Name

/-- `COMPRESSED_NAME_LIMIT` -/
def COMPRESSED_NAME_LIMIT : Nat := 120

/-- the `for label in labels` loop: returns `labels_written` (start offset of every label). -/
def emitLabels (e : Enc) : List Bytes → List Nat → ERes (List Nat)
  | [], written => .ok written e
  | l :: ls, written =>
    if l.length > 63 then .err .other e else
    match e.emitCharacterData l with
    | .ok _ e' => emitLabels e' ls (written ++ [e.offset])
    | .err k e' => .err k e'
    | .panic s => .panic s

/-- the non-compressing `for label_idx in &labels_written { store_label_pointer }` loop -/
def storeAll (e : Enc) (lastIndex : Nat) : List Nat → Outcome Enc
  | [] => .ok e
  | idx :: rest =>
    match e.storeLabelPointer idx lastIndex with
    | .ok e' => storeAll e' lastIndex rest
    | .err => .err
    | .panic s => .panic s

/-- the compressing loop; `true` = a pointer was written and `emit` returns `Ok(())` at once. -/
def compressLoop (e : Enc) (lastIndex : Nat) : List Nat → ERes Bool
  | [] => .ok false e
  | idx :: rest =>
    match e.getLabelPointer idx lastIndex with
    | .panic s => .panic s
    | .err => .panic "unreachable"
    | .ok (some loc) =>
      if loc / 16384 = 0 then                        -- loc & 0xC000 == 0
        -- encoder.offset = *label_idx; encoder.trim();
        let e1 := Enc.trim { e with offset := idx }
        -- (0xC000u16 | loc).emit(encoder)?    (`|` is `+` because the top bits of loc are clear)
        match e1.emitU16 (49152 + loc) with
        | .ok _ e2 => .ok true e2
        | .err k e2 => .err k e2
        | .panic s => .panic s
      else
        match e.storeLabelPointer idx lastIndex with
        | .ok e' => compressLoop e' lastIndex rest
        | .err => .panic "unreachable"
        | .panic s => .panic s
    | .ok none =>
      match e.storeLabelPointer idx lastIndex with
      | .ok e' => compressLoop e' lastIndex rest
      | .err => .panic "unreachable"
      | .panic s => .panic s

/-- the tail of `emit`: root octet and the lazy 255 check -/
def emitRoot (e : Enc) (bufLen : Nat) : ERes Unit :=
  match e.emitU8 0 with
  | .ok _ e3 =>
    -- let length = encoder.len() - buf_len;
    if e3.buf.length < bufLen then .panic "Name::emit:sub-overflow"
    else if e3.buf.length - bufLen > 255 then .err .other e3
    else .ok () e3
  | .err k e3 => .err k e3
  | .panic s => .panic s

/-- `Name::emit` -/
def emit (e : Enc) (n : Name) : ERes Unit :=
  let nameRef := if e.nameEncoding = .uncompressedLowercase then n.toLowercase else n
  let compression : Bool :=
    decide (e.nameEncoding = .compressed) && decide (e.compressedNameCount < COMPRESSED_NAME_LIMIT)
  let bufLen := e.buf.length
  match emitLabels e nameRef.labels [] with
  | .panic s => .panic s
  | .err k e1 => .err k e1
  | .ok written e1 =>
    let lastIndex := e1.offset
    if compression then
      match compressLoop { e1 with compressedNameCount := e1.compressedNameCount + 1 } lastIndex written with
      | .panic s => .panic s
      | .err k e2 => .err k e2
      | .ok true e2 => .ok () e2
      | .ok false e2 => emitRoot e2 bufLen
    else
      match storeAll e1 lastIndex written with
      | .panic s => .panic s
      | .err => .panic "unreachable"
      | .ok e2 => emitRoot e2 bufLen

end Name
end HickoryVerif
