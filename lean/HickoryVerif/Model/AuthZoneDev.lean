/-
Decidable predicates on (zone, query) that delimit where the lookup path of hickory-server, as
modelled in `Model/AuthZone.lean`, departs from RFC 1034 §4.3.2 / RFC 4592 as specified in
`Spec/Rfc1034.lean`.  They are the hypotheses of `C10.impl_eq_spec_partial` and — mirrored one
to one in `harness/src/props/c10.rs` (`Dev::*`) — the `class` strings of the known findings.

Per name `n` resolved (the query name and every CNAME target followed), with `t` the type
actually looked up:

* `nestedCutAt`       more than one zone cut on the way down to `n`: the bottom-up walk of
                      `inner_lookup` returns the deepest, the standard algorithm the first;
* `existingNoBlock`   `n` exists (owns other types, or is an empty non-terminal) yet
                      `inner_lookup_wildcard` synthesises an answer for it
                      (rfc4592_tests::no_synthesis_1 / _2);
* `climbs`            `n` does not exist and the answer is synthesised from a wildcard that is not
                      `*.<closest encloser>`;
* `notSelfBlocking`   the same when the closest encloser is itself a wildcard owner
                      (rfc4592_tests::no_synthesis_5);
* `nodataAsNx`        `n` does not exist, `*.<closest encloser>` exists, nothing is synthesised:
                      the server says NXDOMAIN where NODATA (or data) is due
                      (rfc4592_tests::wildcard_synthesis_2, issue #2905);
* `wildcardQname`     the same when `n` itself starts with `*` (`inner_lookup_wildcard` refuses
                      to expand such a query name).

Per query: `cnameIntoCut`, `anyNotAtOwner`.  (The former classes `referral-aa`, `ns-any-below-cut`,
`soa-below-cut` were repaired in /repo af8bb96; their replays are regression cases.)
-/
import HickoryVerif.Model.AuthZone
import HickoryVerif.Spec.Rfc1034

namespace HickoryVerif.AuthZone.Dev
open HickoryVerif HickoryVerif.AuthZone HickoryVerif.Spec.Rfc1034

/-- the type `lookup` really searches for (`replace_any`) -/
def effType (z : Zone) (q : Query) : Nat :=
  if q.type == T_ANY then replaceAny z q.name else q.type

def noCut (z : Zone) (o n : LName) (t : Nat) : Bool := (cuts z o n t).isEmpty

def nestedCutAt (z : Zone) (o n : LName) (t : Nat) : Bool := (cuts z o n t).length ≥ 2

def existingNoBlock (z : Zone) (o n : LName) (t : Nat) : Bool :=
  noCut z o n t && nameExists z n && (scan z n t).isNone && (innerLookupWildcard z n t).isSome

def climbsAny (z : Zone) (o n : LName) (t : Nat) : Bool :=
  noCut z o n t && !nameExists z n &&
  match wildSource z n t with
  | some (w, _) => w != star :: closestEncloser z n
  | none => false

def climbs (z : Zone) (o n : LName) (t : Nat) : Bool :=
  climbsAny z o n t && !isWildcardName (closestEncloser z n)

def notSelfBlocking (z : Zone) (o n : LName) (t : Nat) : Bool :=
  climbsAny z o n t && isWildcardName (closestEncloser z n)

def noSynth (z : Zone) (o n : LName) (t : Nat) : Bool :=
  noCut z o n t && !nameExists z n && nameExists z (star :: closestEncloser z n) &&
  (innerLookupWildcard z n t).isNone

def nodataAsNx (z : Zone) (o n : LName) (t : Nat) : Bool := noSynth z o n t && !isWildcardName n

def wildcardQname (z : Zone) (o n : LName) (t : Nat) : Bool := noSynth z o n t && isWildcardName n

/-- any of the RFC 4592 gaps at `n` -/
def wildcardGapAt (z : Zone) (o n : LName) (t : Nat) : Bool :=
  existingNoBlock z o n t || climbsAny z o n t || noSynth z o n t

/-- the names the standard algorithm resolves for the query: the query name, then the CNAME
targets it follows (same stopping rules as `Spec.Rfc1034.chase`) -/
def visited (z : Zone) (o : LName) (t : Nat) : Nat → List LName → LName → List LName
  | 0, _, _ => []
  | fuel + 1, seen, n =>
    n :: match resolve z o n t with
      | .cname _ tg =>
        if !isAncestorOrSelf o tg || seen.contains tg || fuel == 0 then []
        else visited z o t fuel (tg :: seen) tg
      | _ => []

def visitedOf (z : Zone) (o : LName) (q : Query) : List LName :=
  if isAncestorOrSelf o q.name then visited z o (effType z q) MAX_CNAME_DEPTH [q.name] q.name else []

/-! ### per-query classes -/

def WildcardGap (z : Zone) (o : LName) (q : Query) : Bool :=
  (visitedOf z o q).any fun n => wildcardGapAt z o n (effType z q)

def NestedCut (z : Zone) (o : LName) (q : Query) : Bool :=
  (visitedOf z o q).any fun n => nestedCutAt z o n (effType z q)

/-- a CNAME target followed lies at or below a zone cut: `chase_cnames` appends the NS RRset of
the cut to the chain, i.e. to the answer section -/
def cnameIntoCut (z : Zone) (o : LName) (q : Query) : Bool :=
  (visitedOf z o q).tail.any fun n => !noCut z o n (effType z q)

/-- ANY for a name that owns no RRset: `replace_any` then looks for A (not for what the node
that answers — a wildcard — owns) -/
def anyNotAtOwner (z : Zone) (q : Query) : Bool :=
  q.type == T_ANY && !z.any (·.name == q.name)

/-! ### well-formed zones -/

/-- A zone as `upsert` builds it from a sane zone file: apex SOA and NS, every owner inside the
zone, SOA only at the apex, CNAME alone at its owner and with a target, no ANAME, no NS at a
wildcard owner (RFC 4592 §4.2 leaves that undefined), the origin itself not a wildcard name. -/
def zoneWF (z : Zone) (o : LName) : Bool :=
  (rrsetAt z o T_SOA).isSome && (rrsetAt z o T_NS).isSome &&
  z.all (fun r => isAncestorOrSelf o r.name) &&
  z.all (fun r => r.type != T_SOA || r.name == o) &&
  z.all (fun r => r.type != T_CNAME ||
    ((r.rdatas.head?.bind (·.target)).isSome && z.all fun r' => r'.name != r.name || r'.type == T_CNAME)) &&
  z.all (fun r => r.type != T_ANAME) &&
  z.all (fun r => r.type != T_NS || !isWildcardName r.name) &&
  !isWildcardName o

end HickoryVerif.AuthZone.Dev
